(* GENERATED from extensions/nyctalerts/nyctalerts.go, extensions/nycttrips/nycttrips.go and proto/*.pb.go by harness/gen.go — do not edit *)
From GV Require Import Base.Prelude.

(* Mercury priority -> GTFS-realtime effect *)
Definition priority_to_effect : list (Z * Z) :=
  [(1, 1); (2, 2); (3, 2); (4, 2); (5, 6); (6, 6); (7, 6); (8, 6); (9, 5); (10, 6); (11, 6); (12, 6); (13, 6); (14, 6); (15, 2); (16, 6); (17, 6); (18, 6); (19, 3); (20, 3); (21, 6); (22, 6); (23, 6); (24, 6); (25, 2); (26, 6); (27, 3); (28, 6); (29, 6); (30, 3); (31, 6); (32, 6); (33, 6); (34, 6); (35, 6); (36, 6); (37, 2); (38, 6); (39, 1); (40, 1)].

Definition timetabled_no_service : list Z := [2; 3; 4].

(* stations whose M-train platforms are swapped *)
Definition buggy_station_ids : list string := ["M11"; "M12"; "M13"; "M14"; "M16"; "M18"].

Definition Alert_UNKNOWN_CAUSE : Z := 1.
Definition Alert_TECHNICAL_PROBLEM : Z := 3.
Definition Alert_MAINTENANCE : Z := 9.
Definition Alert_UNKNOWN_EFFECT : Z := 8.
Definition Alert_ACCESSIBILITY_ISSUE : Z := 11.
Definition Alert_NO_SERVICE : Z := 1.
Definition Alert_REDUCED_SERVICE : Z := 2.
Definition Alert_SIGNIFICANT_DELAYS : Z := 3.
Definition Alert_MODIFIED_SERVICE : Z := 6.
Definition Alert_ADDITIONAL_SERVICE : Z := 5.
Definition NyctTripDescriptor_NORTH : Z := 1.
Definition NyctTripDescriptor_SOUTH : Z := 3.
Definition TripDescriptor_SCHEDULED : Z := 0.
Definition TripUpdate_StopTimeUpdate_SCHEDULED : Z := 0.
Definition VehiclePosition_UNKNOWN_CONGESTION_LEVEL : Z := 0.
