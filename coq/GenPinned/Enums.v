(* GENERATED from enums.go by harness/gen.go on every run — do not edit *)
From GV Require Import Base.Prelude.

Definition BikesAllowed_Allowed : Z := 1.
Definition BikesAllowed_NotAllowed : Z := 2.
Definition BikesAllowed_NotSpecified : Z := 0.
Definition DirectionID_False : Z := 2.
Definition DirectionID_True : Z := 1.
Definition DirectionID_Unspecified : Z := 0.
Definition FrequencyBased : Z := 0.
Definition PickupDropOffPolicy_CoordinateWithDriver : Z := 3.
Definition PickupDropOffPolicy_No : Z := 1.
Definition PickupDropOffPolicy_PhoneAgency : Z := 2.
Definition PickupDropOffPolicy_Yes : Z := 0.
Definition RouteType_AerialLift : Z := 6.
Definition RouteType_Bus : Z := 3.
Definition RouteType_CableTram : Z := 5.
Definition RouteType_Ferry : Z := 4.
Definition RouteType_Funicular : Z := 7.
Definition RouteType_Monorail : Z := 12.
Definition RouteType_Rail : Z := 2.
Definition RouteType_Subway : Z := 1.
Definition RouteType_Tram : Z := 0.
Definition RouteType_TrolleyBus : Z := 11.
Definition RouteType_Unknown : Z := 10000.
Definition ScheduleBased : Z := 1.
Definition StopType_BoardingArea : Z := 4.
Definition StopType_EntranceOrExit : Z := 2.
Definition StopType_GenericNode : Z := 3.
Definition StopType_Platform : Z := 5.
Definition StopType_Station : Z := 1.
Definition StopType_Stop : Z := 0.
Definition TransferType_NotPossible : Z := 3.
Definition TransferType_Recommended : Z := 0.
Definition TransferType_RequiresTime : Z := 2.
Definition TransferType_Timed : Z := 1.
Definition WheelchairBoarding_NotPossible : Z := 2.
Definition WheelchairBoarding_NotSpecified : Z := 0.
Definition WheelchairBoarding_Possible : Z := 1.

Definition parseBikesAllowed (s : string) : Z :=
  if String.eqb s "1" then 1 else
  if String.eqb s "2" then 2 else
  0.
Definition parseDirectionID_GTFSStatic (s : string) : Z :=
  if String.eqb s "0" then 2 else
  if String.eqb s "1" then 1 else
  0.
Definition parseExactTimes (s : string) : Z :=
  if String.eqb s "0" then 0 else
  if String.eqb s "1" then 1 else
  0.
Definition parsePickupDropOffPolicy (s : string) : Z :=
  if String.eqb s "0" then 0 else
  if String.eqb s "2" then 2 else
  if String.eqb s "3" then 3 else
  1.
Definition parseRouteType_GTFSStatic (s : string) : Z :=
  if String.eqb s "0" then 0 else
  if String.eqb s "1" then 1 else
  if String.eqb s "2" then 2 else
  if String.eqb s "3" then 3 else
  if String.eqb s "4" then 4 else
  if String.eqb s "5" then 5 else
  if String.eqb s "6" then 6 else
  if String.eqb s "7" then 7 else
  if String.eqb s "11" then 11 else
  if String.eqb s "12" then 12 else
  10000.
Definition parseStopType (s : string) (hasParentStop : bool) : Z :=
  if String.eqb s "1" then 1 else
  if String.eqb s "2" then 2 else
  if String.eqb s "3" then 3 else
  if String.eqb s "4" then 4 else
  (if hasParentStop then 5 else 0).
Definition parseTransferType (s : string) : Z :=
  if String.eqb s "1" then 1 else
  if String.eqb s "2" then 2 else
  if String.eqb s "3" then 3 else
  0.
Definition parseWheelchairBoarding (s : string) : Z :=
  if String.eqb s "1" then 1 else
  if String.eqb s "2" then 2 else
  0.
