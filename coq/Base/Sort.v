(* Base/Sort.v — insertion sort as the model of sort.Slice / sort.Strings on distinct keys (DESIGN 4.6, App. D.2):
   any correct sort agrees with it when the keys are pairwise distinct; sorting erases the order of a map iteration. *)
From Coq Require Import List Permutation Sorted Relations Bool Lia.
Import ListNotations.

Section SortU.
Variable A : Type.
Variable ltb : A -> A -> bool.
Definition lt x y := ltb x y = true.
Hypothesis lt_irrefl : forall x, ~ lt x x.
Hypothesis lt_trans : forall x y z, lt x y -> lt y z -> lt x z.

(* model of sort.Slice(less): insertion sort (any correct sort agrees on distinct keys) *)
Fixpoint insert (x : A) (l : list A) : list A :=
  match l with
  | [] => [x]
  | y :: l' => if ltb y x then y :: insert x l' else x :: l
  end.
Fixpoint isort (l : list A) : list A :=
  match l with [] => [] | x :: l' => insert x (isort l') end.

Lemma insert_perm x l : Permutation (insert x l) (x :: l).
Proof. induction l as [|y l IH]; cbn; [reflexivity|]. destruct (ltb y x); [|reflexivity].
  rewrite IH. apply perm_swap. Qed.
Lemma isort_perm l : Permutation (isort l) l.
Proof. induction l as [|x l IH]; cbn; [reflexivity|]. rewrite insert_perm. now rewrite IH. Qed.

(* totality only needed on the elements being sorted, pairwise distinct *)
Definition total_on (l : list A) := forall x y, In x l -> In y l -> x = y \/ lt x y \/ lt y x.

Lemma insert_sorted x l : StronglySorted lt l -> (forall y, In y l -> lt x y \/ lt y x) ->
  StronglySorted lt (insert x l).
Proof.
  induction l as [|y l IH]; intros Hs Ht; cbn; [repeat constructor|].
  inversion Hs as [|? ? Hs' Hall]; subst.
  destruct (ltb y x) eqn:E.
  - constructor; [apply IH; auto; intros; apply Ht; now right|].
    rewrite Forall_forall in *. intros z Hz. apply (Permutation_in _ (insert_perm x l)) in Hz.
    destruct Hz as [<-|Hz]; [exact E|auto].
  - constructor; [exact Hs|]. assert (Hxy : lt x y).
    { destruct (Ht y (or_introl eq_refl)) as [H|H]; [exact H|]. unfold lt in H. congruence. }
    constructor; [exact Hxy|]. rewrite Forall_forall in *. intros z Hz. eapply lt_trans; [exact Hxy|auto].
Qed.

Lemma isort_sorted l : NoDup l -> total_on l -> StronglySorted lt (isort l).
Proof.
  induction l as [|x l IH]; intros Hnd Ht; cbn; [constructor|].
  inversion Hnd as [|? ? Hx Hnd']; subst. apply insert_sorted.
  - apply IH; auto. intros a b Ha Hb. apply Ht; now right.
  - intros y Hy. apply (Permutation_in _ (isort_perm l)) in Hy.
    destruct (Ht x y (or_introl eq_refl) (or_intror Hy)) as [->|H]; [contradiction|exact H].
Qed.

Lemma sorted_unique l1 : forall l2, StronglySorted lt l1 -> StronglySorted lt l2 ->
  (forall x, In x l1 <-> In x l2) -> l1 = l2.
Proof.
  induction l1 as [|a l1 IH]; intros [|b l2] H1 H2 Hin; try reflexivity.
  - exfalso. apply (proj2 (Hin b)). now left.
  - exfalso. apply (proj1 (Hin a)). now left.
  - inversion H1 as [|? ? H1' Ha]; inversion H2 as [|? ? H2' Hb]; subst.
    rewrite Forall_forall in Ha, Hb.
    assert (a = b).
    { destruct (proj1 (Hin a) (or_introl eq_refl)) as [E|Ia]; [now symmetry|].
      destruct (proj2 (Hin b) (or_introl eq_refl)) as [E|Ib]; [exact E|].
      exfalso. apply (lt_irrefl a). eapply lt_trans; [apply Ha; exact Ib|apply Hb; exact Ia]. }
    subst b. f_equal. apply IH; auto. intros x; split; intros Hx.
    + destruct (proj1 (Hin x) (or_intror Hx)) as [<-|H]; [|exact H]. exfalso. apply (lt_irrefl a), Ha, Hx.
    + destruct (proj2 (Hin x) (or_intror Hx)) as [<-|H]; [|exact H]. exfalso. apply (lt_irrefl a), Hb, Hx.
Qed.

(* the kernel used by C06/C07/C08/C11/C15: sorting erases the order in which a map was iterated *)
Theorem isort_perm_invariant l l' : Permutation l l' -> NoDup l -> total_on l -> isort l = isort l'.
Proof.
  intros P Hnd Ht. apply sorted_unique.
  - apply isort_sorted; auto.
  - apply isort_sorted; [eapply Permutation_NoDup; eauto|].
    intros x y Hx Hy. apply Ht; eapply Permutation_in; try apply Permutation_sym; eauto.
  - intros x. split; intros Hx.
    + apply (Permutation_in _ (Permutation_sym (isort_perm l'))), (Permutation_in _ P), (Permutation_in _ (isort_perm l)), Hx.
    + apply (Permutation_in _ (Permutation_sym (isort_perm l))), (Permutation_in _ (Permutation_sym P)), (Permutation_in _ (isort_perm l')), Hx.
Qed.
End SortU.

