(* Base/Dec.v — decimal rendering and reading of integers: fmt's %d, strconv.Atoi's digit loop (DESIGN App. D.7).
   Characters are byte values (Z); '0' = 48, '-' = 45. *)
From GV Require Import Base.Prelude.

Definition is_digit (c : Z) : bool := (48 <=? c) && (c <=? 57).
Definition dval (c : Z) : Z := c - 48.
Definition dchr (d : Z) : Z := d + 48.

(* Go: for each digit c: acc = 10*acc + (c-'0') *)
Definition acc_digits (cs : list Z) (acc : Z) : Z := fold_left (fun a c => 10 * a + dval c) cs acc.

(* decimal digits of n >= 0, most significant first, by fuel (any bound >= #digits) *)
Fixpoint digits (fuel : nat) (n : Z) (tail : list Z) : list Z :=
  match fuel with
  | O => tail
  | S f => if n <? 10 then dchr n :: tail else digits f (n / 10) (dchr (n mod 10) :: tail)
  end.
Definition show_nat (n : Z) : list Z := digits (S (Z.to_nat (Z.log2 n))) n [].
(* %d of a signed integer *)
Definition show_Z (z : Z) : list Z := if z <? 0 then 45 :: show_nat (- z) else show_nat z.
Definition show_Zs (z : Z) : string := str_of_bytes (show_Z z).
(* %02d of a non-negative integer *)
Definition pad2 (n : Z) : list Z := if n <? 10 then dchr 0 :: show_nat n else show_nat n.

Lemma acc_digits_app a b acc : acc_digits (a ++ b) acc = acc_digits b (acc_digits a acc).
Proof. unfold acc_digits. now rewrite fold_left_app. Qed.

Lemma digits_spec : forall fuel n tail, 0 <= n < 2 ^ Z.of_nat fuel -> (0 < fuel)%nat ->
  exists ds, digits fuel n tail = ds ++ tail /\ ds <> [] /\ Forall (fun c => is_digit c = true) ds /\
             forall acc, acc_digits ds acc = acc * 10 ^ Z.of_nat (List.length ds) + n.
Proof.
  induction fuel as [|f IH]; intros n tail Hn Hf; [exfalso; lia|]. cbn [digits].
  destruct (n <? 10) eqn:E.
  - apply Z.ltb_lt in E. exists [dchr n]. repeat split; try discriminate.
    + constructor; [|constructor]. unfold is_digit, dchr. apply andb_true_iff; split; apply Z.leb_le; lia.
    + intros acc. unfold acc_digits. cbn [fold_left List.length]. unfold dval, dchr. change (Z.of_nat 1) with 1. rewrite Z.pow_1_r. lia.
  - apply Z.ltb_ge in E.
    assert (Hf' : (0 < f)%nat).
    { destruct f; [|lia]. cbn in Hn. lia. }
    destruct (IH (n / 10) (dchr (n mod 10) :: tail)) as [ds [Eq [Hne [Hd Hacc]]]]; [|exact Hf'|].
    + split; [apply Z.div_pos; lia|]. apply Z.div_lt_upper_bound; [lia|].
      rewrite Nat2Z.inj_succ, Z.pow_succ_r in Hn by lia. lia.
    + exists (ds ++ [dchr (n mod 10)]). repeat split.
      * rewrite Eq. now rewrite <- app_assoc.
      * destruct ds; discriminate.
      * apply Forall_app; split; [exact Hd|]. constructor; [|constructor].
        pose proof (Z.mod_pos_bound n 10). unfold is_digit, dchr. apply andb_true_iff; split; apply Z.leb_le; lia.
      * intros acc. rewrite acc_digits_app, Hacc. unfold acc_digits at 1. cbn [fold_left]. unfold dval, dchr.
        rewrite app_length. cbn [List.length]. rewrite Nat2Z.inj_add. change (Z.of_nat 1) with 1.
        rewrite Z.pow_add_r, Z.pow_1_r by lia.
        pose proof (Z.div_mod n 10). lia.
Qed.

Lemma log2_fuel n : 0 <= n -> 0 <= n < 2 ^ Z.of_nat (S (Z.to_nat (Z.log2 n))).
Proof.
  intros H. split; [exact H|]. rewrite Nat2Z.inj_succ, Z2Nat.id by apply Z.log2_nonneg.
  destruct (Z.eq_dec n 0) as [->|N]; [cbn; lia|]. apply Z.log2_spec. lia.
Qed.

Theorem show_nat_digits n : 0 <= n -> Forall (fun c => is_digit c = true) (show_nat n) /\ show_nat n <> [].
Proof. intros H. unfold show_nat. destruct (digits_spec _ n [] (log2_fuel n H)) as [ds [E [Hne [Hd _]]]]; [lia|].
  rewrite E, app_nil_r. auto. Qed.

(* strconv.Atoi (fmt.Sprint n) = n *)
Theorem parse_show n : 0 <= n -> acc_digits (show_nat n) 0 = n.
Proof. intros H. unfold show_nat. destruct (digits_spec _ n [] (log2_fuel n H)) as [ds [E [_ [_ Hacc]]]]; [lia|].
  rewrite E, app_nil_r, Hacc. lia. Qed.

Theorem parse_pad2 n : 0 <= n -> acc_digits (pad2 n) 0 = n.
Proof. intros H. unfold pad2. destruct (n <? 10); [|now apply parse_show].
  change (dchr 0 :: show_nat n) with ([dchr 0] ++ show_nat n). rewrite acc_digits_app. cbn. now apply parse_show. Qed.

(* reading a signed decimal back *)
Definition read_Z (cs : list Z) : Z := match cs with 45 :: ds => - acc_digits ds 0 | _ => acc_digits cs 0 end.
Lemma show_nat_head n : 0 <= n -> match show_nat n with c :: _ => is_digit c = true | [] => False end.
Proof. intros H. destruct (show_nat_digits n H) as [F N]. destruct (show_nat n); [congruence|]. now inversion F. Qed.
Theorem read_show_Z z : read_Z (show_Z z) = z.
Proof. unfold show_Z. destruct (z <? 0) eqn:E.
  - apply Z.ltb_lt in E. cbn [read_Z]. rewrite parse_show by lia. lia.
  - apply Z.ltb_ge in E. pose proof (show_nat_head z E) as Hh. unfold read_Z.
    destruct (show_nat z) as [|c l] eqn:S; [contradiction|].
    assert (c <> 45). { intros ->. discriminate Hh. }
    rewrite <- S. destruct c as [|p|p]; try (now apply parse_show).
    repeat (destruct p as [p|p|]; try (now apply parse_show)); congruence.
Qed.

(* the maximal digit prefix: what lets "%d%s" be read back when the suffix does not start with a digit *)
Fixpoint span_digits (cs : list Z) : list Z * list Z :=
  match cs with
  | c :: cs' => if is_digit c then let (a, b) := span_digits cs' in (c :: a, b) else ([], cs)
  | [] => ([], [])
  end.
Definition no_leading_digit (s : list Z) : Prop := match s with [] => True | c :: _ => is_digit c = false end.
Lemma span_digits_app ds s : Forall (fun c => is_digit c = true) ds -> no_leading_digit s ->
  span_digits (ds ++ s) = (ds, s).
Proof. induction ds as [|d ds IH]; intros Hd Hs; cbn [app].
  - destruct s as [|c s]; cbn in *; [reflexivity|]. now rewrite Hs.
  - inversion Hd; subst. cbn [span_digits]. rewrite H1, IH; auto. Qed.

(* "%d%s" is injective on (n >= 0, suffix not starting with a digit) *)
Theorem show_suffix_injective a s b s' : 0 <= a -> 0 <= b -> no_leading_digit s -> no_leading_digit s' ->
  show_nat a ++ s = show_nat b ++ s' -> a = b /\ s = s'.
Proof.
  intros Ha Hb Hs Hs' E. pose proof (f_equal span_digits E) as F.
  rewrite !span_digits_app in F by (auto; now apply show_nat_digits).
  injection F as F1 F2. split; [|exact F2]. rewrite <- (parse_show a Ha), <- (parse_show b Hb). now rewrite F1.
Qed.
(* and the unguarded statement is false: 10 ++ "0x" = 100 ++ "x" *)
Example show_suffix_collision : exists a s b s', show_nat a ++ s = show_nat b ++ s' /\ (a, s) <> (b, s').
Proof. exists 10, [48; 120], 100, [120]. split; [vm_compute; reflexivity|]. intros H; inversion H. Qed.
