(* Base/StrOrd.v — the bytewise string order (Go <) is a strict total order. *)
From Coq Require Import String Ascii List Bool OrderedTypeEx.
Lemma sltb_trans a b c : String.ltb a b = true -> String.ltb b c = true -> String.ltb a c = true.
Proof.
  unfold String.ltb. destruct (String.compare a b) eqn:E1; try discriminate.
  destruct (String.compare b c) eqn:E2; try discriminate. intros _ _.
  apply String_as_OT.cmp_lt in E1, E2. pose proof (String_as_OT.lt_trans _ _ _ E1 E2) as H.
  apply String_as_OT.cmp_lt in H. unfold String_as_OT.cmp in H. now rewrite H.
Qed.
Lemma sltb_irrefl a : String.ltb a a = false.
Proof. unfold String.ltb. pose proof (proj2 (String_as_OT.cmp_eq a a) eq_refl) as H. unfold String_as_OT.cmp in H. now rewrite H. Qed.
Lemma sltb_total a b : a = b \/ String.ltb a b = true \/ String.ltb b a = true.
Proof.
  unfold String.ltb. destruct (String.compare a b) eqn:E.
  - left. now apply String.compare_eq_iff.
  - auto.
  - right; right. rewrite String.compare_antisym, E. reflexivity.
Qed.
