(* Base/Lex.v — boolean strict total orders and their lexicographic product: the shape of Go's hand-written
   "if a.X != b.X { return a.X < b.X } ... " comparators (TripID.Less, the vehicle id comparator). *)
From Coq Require Import String List ZArith Bool Lia.
From GV Require Import Base.StrOrd.
Import ListNotations.

Record sto (A : Type) := {
  s_ltb : A -> A -> bool;
  s_irr : forall a, s_ltb a a = false;
  s_trans : forall a b c, s_ltb a b = true -> s_ltb b c = true -> s_ltb a c = true;
  s_tot : forall a b, a = b \/ s_ltb a b = true \/ s_ltb b a = true }.
Arguments s_ltb {A}. Arguments s_irr {A}. Arguments s_trans {A}. Arguments s_tot {A}.

Definition sto_string : sto string.
Proof. refine {| s_ltb := String.ltb |}; [apply sltb_irrefl|apply sltb_trans|apply sltb_total]. Defined.
Definition sto_Z : sto Z.
Proof. refine {| s_ltb := Z.ltb |}; [apply Z.ltb_irrefl|intros a b c H1 H2; apply Z.ltb_lt in H1, H2; apply Z.ltb_lt; lia|].
  intros a b. destruct (Z.lt_total a b) as [H|[H|H]]; [right; left; now apply Z.ltb_lt|now left|right; right; now apply Z.ltb_lt]. Defined.
(* false < true *)
Definition sto_bool : sto bool.
Proof. refine {| s_ltb := fun a b => negb a && b |}; [now intros []|now intros [] [] []|intros [] []; auto]. Defined.

(* lexicographic product, written the way the Go comparators are: if the first components differ they decide *)
Definition lex_ltb {A B} (eqA : A -> A -> bool) (SA : sto A) (SB : sto B) (x y : A * B) : bool :=
  if negb (eqA (fst x) (fst y)) then s_ltb SA (fst x) (fst y) else s_ltb SB (snd x) (snd y).
Definition sto_lex {A B} (eqA : A -> A -> bool) (eq_spec : forall a b, eqA a b = true <-> a = b) (SA : sto A) (SB : sto B) : sto (A * B).
Proof.
  assert (eq_refl' : forall a, eqA a a = true) by (intros a; now apply eq_spec).
  assert (neq : forall a b, eqA a b = false -> a <> b) by (intros a b H E; apply eq_spec in E; congruence).
  refine {| s_ltb := lex_ltb eqA SA SB |}; unfold lex_ltb.
  - intros [a b]; cbn. rewrite eq_refl'. cbn. apply s_irr.
  - intros [a1 b1] [a2 b2] [a3 b3]; cbn.
    destruct (eqA a1 a2) eqn:E12; cbn; [apply eq_spec in E12; subst a2|].
    + destruct (eqA a1 a3) eqn:E13; cbn; [|auto]. apply s_trans.
    + destruct (eqA a2 a3) eqn:E23; cbn; [apply eq_spec in E23; subst a3; rewrite E12; cbn; auto|].
      intros H1 H2. pose proof (s_trans SA _ _ _ H1 H2) as H.
      destruct (eqA a1 a3) eqn:E13; cbn; [|exact H]. apply eq_spec in E13; subst a3. now rewrite s_irr in H.
  - intros [a1 b1] [a2 b2]; cbn.
    destruct (eqA a1 a2) eqn:E; cbn.
    + apply eq_spec in E; subst a2. rewrite eq_refl'; cbn. destruct (s_tot SB b1 b2) as [->|[H|H]]; auto.
    + assert (E' : eqA a2 a1 = false).
      { destruct (eqA a2 a1) eqn:E'; [|reflexivity]. apply eq_spec in E'; subst a2. now rewrite eq_refl' in E. }
      rewrite E'; cbn. destruct (s_tot SA a1 a2) as [->|[H|H]]; auto. now rewrite eq_refl' in E.
Defined.

Lemma Zeqb_spec' a b : (a =? b)%Z = true <-> a = b. Proof. apply Z.eqb_eq. Qed.
Lemma Seqb_spec' a b : String.eqb a b = true <-> a = b. Proof. apply String.eqb_eq. Qed.
Lemma Beqb_spec' a b : Bool.eqb a b = true <-> a = b. Proof. apply Bool.eqb_true_iff. Qed.

(* pulling an order back along a key function *)
Definition by_key {A K} (S : sto K) (key : A -> K) (x y : A) : bool := s_ltb S (key x) (key y).
Lemma by_key_irrefl {A K} (S : sto K) (key : A -> K) x : by_key S key x x = true -> False.
Proof. unfold by_key. rewrite s_irr. discriminate. Qed.
Lemma by_key_trans {A K} (S : sto K) (key : A -> K) x y z : by_key S key x y = true -> by_key S key y z = true -> by_key S key x z = true.
Proof. unfold by_key. apply s_trans. Qed.
