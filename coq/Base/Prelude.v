(* Base/Prelude.v — shared definitions for every model: Go outcomes, byte strings, option helpers.
   No proofs about the code live here. *)
From Coq Require Export String Ascii.
From Coq Require Export List ZArith NArith Bool Lia.
Export ListNotations.
#[global] Open Scope string_scope.
#[global] Open Scope list_scope.
#[global] Open Scope Z_scope.

(* String is imported before List, so [length], [concat] and [app] are the list ones. *)

(* ---- Go outcomes: a call returns a value, returns an error, or panics (DESIGN 4.3) ---- *)
Inductive outcome (A : Type) : Type :=
| Ok (a : A)
| Err (e : string)
| Panic (site : string)
| OutOfFuel.
Arguments Ok {A}. Arguments Err {A}. Arguments Panic {A}. Arguments OutOfFuel {A}.

Definition obind {A B} (o : outcome A) (f : A -> outcome B) : outcome B :=
  match o with Ok a => f a | Err e => Err e | Panic s => Panic s | OutOfFuel => OutOfFuel end.
Notation "'do' x <- o ; k" := (obind o (fun x => k)) (at level 200, x pattern, o at level 100, k at level 200, right associativity).

Definition is_panic {A} (o : outcome A) : bool := match o with Panic _ => true | _ => false end.
Definition is_ok {A} (o : outcome A) : bool := match o with Ok _ => true | _ => false end.

(* dereferencing a possibly-nil pointer; indexing a slice *)
Definition deref {A} (site : string) (o : option A) : outcome A :=
  match o with Some a => Ok a | None => Panic site end.
Definition index {A} (site : string) (l : list A) (i : nat) : outcome A :=
  match nth_error l i with Some a => Ok a | None => Panic site end.

(* ---- strings as byte sequences ---- *)
Definition bs (l : list N) : string := string_of_list_ascii (map ascii_of_N l).
Definition byte_of (a : ascii) : Z := Z.of_N (N_of_ascii a).
Definition bytes_of (s : string) : list Z := map byte_of (list_ascii_of_string s).
Definition slen (s : string) : nat := String.length s.

Lemma byte_of_inj a b : byte_of a = byte_of b -> a = b.
Proof.
  unfold byte_of. intros H. apply N2Z.inj in H.
  rewrite <- (ascii_N_embedding a), <- (ascii_N_embedding b). now rewrite H.
Qed.
Lemma bytes_of_inj s t : bytes_of s = bytes_of t -> s = t.
Proof.
  unfold bytes_of. intros H.
  rewrite <- (string_of_list_ascii_of_string s), <- (string_of_list_ascii_of_string t). f_equal.
  revert H. generalize (list_ascii_of_string s) (list_ascii_of_string t).
  intros l; induction l as [|a l IH]; intros [|b l0]; cbn; intros H; try discriminate; auto.
  injection H as H1 H2. f_equal; [now apply byte_of_inj|now apply IH].
Qed.
Lemma bytes_of_length s : List.length (bytes_of s) = String.length s.
Proof. unfold bytes_of. rewrite map_length. induction s; cbn; auto. Qed.
Lemma byte_of_range a : 0 <= byte_of a < 256.
Proof. unfold byte_of. pose proof (N_ascii_bounded a). lia. Qed.

Definition str_of_bytes (l : list Z) : string := string_of_list_ascii (map (fun z => ascii_of_N (Z.to_N z)) l).
Lemma str_of_bytes_of s : str_of_bytes (bytes_of s) = s.
Proof. unfold str_of_bytes, bytes_of. rewrite map_map.
  rewrite (map_ext _ (fun a => a)); [now rewrite map_id, string_of_list_ascii_of_string|].
  intros a. unfold byte_of. now rewrite N2Z.id, ascii_N_embedding. Qed.

(* binary.Write(LittleEndian, x) for a k-byte integer kind: two's complement, least significant byte first
   (n mod 256 is non-negative and n / 256 is floor division, so negative n yields its two's complement) *)
Fixpoint le_bytes (k : nat) (n : Z) : list Z :=
  match k with O => [] | S k' => (n mod 256) :: le_bytes k' (n / 256) end.

(* ---- small helpers ---- *)
Definition omap {A B} (f : A -> B) (o : option A) : option B := option_map f o.
Definition odflt {A} (d : A) (o : option A) : A := match o with Some a => a | None => d end.
Definition is_some {A} (o : option A) : bool := match o with Some _ => true | None => false end.

Definition option_eq_dec {A} (d : forall a b : A, {a = b} + {a <> b}) : forall a b : option A, {a = b} + {a <> b}.
Proof. decide equality. Defined.
Definition pair_eq_dec {A B} (da : forall a b : A, {a = b} + {a <> b}) (db : forall a b : B, {a = b} + {a <> b})
  : forall a b : A * B, {a = b} + {a <> b}.
Proof. decide equality. Defined.

(* association lists keyed by strings: the models' stand-in for Go maps with string keys *)
Fixpoint alookup {A} (k : string) (l : list (string * A)) : option A :=
  match l with [] => None | (k', v) :: l' => if String.eqb k k' then Some v else alookup k l' end.
(* insertion keeps the position of an existing key (first-insertion order), replaces its value *)
Fixpoint aset {A} (k : string) (v : A) (l : list (string * A)) : list (string * A) :=
  match l with
  | [] => [(k, v)]
  | (k', v') :: l' => if String.eqb k k' then (k, v) :: l' else (k', v') :: aset k v l'
  end.

Lemma alookup_aset_same {A} k (v : A) l : alookup k (aset k v l) = Some v.
Proof. induction l as [|[k' v'] l IH]; cbn; [now rewrite String.eqb_refl|].
  destruct (String.eqb k k') eqn:E; cbn; [now rewrite String.eqb_refl|now rewrite E]. Qed.
Lemma alookup_aset_other {A} k k' (v : A) l : k <> k' -> alookup k' (aset k v l) = alookup k' l.
Proof. intros N. induction l as [|[k2 v2] l IH]; cbn.
  - destruct (String.eqb_spec k' k); [congruence|reflexivity].
  - destruct (String.eqb_spec k k2) as [->|N2]; cbn.
    + destruct (String.eqb_spec k' k2); [congruence|reflexivity].
    + destruct (String.eqb k' k2); [reflexivity|exact IH]. Qed.
Lemma aset_keys_in {A} k (v : A) l k' : In k' (map fst (aset k v l)) <-> k' = k \/ In k' (map fst l).
Proof. induction l as [|[k2 v2] l IH]; cbn; [intuition|].
  destruct (String.eqb_spec k k2) as [->|N]; cbn; [intuition|]. rewrite IH. intuition. Qed.

(* mismatch reporting for case files *)
Definition mismatches {C} (ok : C -> bool) (cases : list (nat * C)) : list nat :=
  flat_map (fun '(i, c) => if ok c then [] else [i]) cases.
