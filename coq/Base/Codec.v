(* Base/Codec.v — codec combinators: an encoder, a decoder, a well-formedness predicate and the law
   dec (enc a ++ r) = Some (a, r).  Injectivity of any encoder assembled from them is a corollary.
   Bytes are Z in [0,256).  (DESIGN App. D.10) *)
From GV Require Import Base.Prelude.

Record codec (A : Type) := {
  enc : A -> list Z;
  dec : list Z -> option (A * list Z);
  wf  : A -> Prop;
  law : forall a r, wf a -> dec (enc a ++ r) = Some (a, r) }.
Arguments enc {A}. Arguments dec {A}. Arguments wf {A}. Arguments law {A}.

Theorem codec_injective {A} (c : codec A) a b : wf c a -> wf c b -> enc c a = enc c b -> a = b.
Proof. intros Ha Hb E. pose proof (law c a [] Ha) as H1. pose proof (law c b [] Hb) as H2.
  rewrite E in H1. congruence. Qed.
(* prefix-freeness: two encodings followed by anything agree only on equal values *)
Theorem codec_prefix_free {A} (c : codec A) a b r r' : wf c a -> wf c b -> enc c a ++ r = enc c b ++ r' -> a = b /\ r = r'.
Proof. intros Ha Hb E. pose proof (law c a r Ha) as H1. pose proof (law c b r' Hb) as H2.
  rewrite E in H1. split; congruence. Qed.

(* --- fixed-width little-endian unsigned --- *)
Fixpoint le_val (l : list Z) : Z := match l with [] => 0 | b :: l' => b + 256 * le_val l' end.
Lemma le_bytes_length k n : List.length (le_bytes k n) = k.
Proof. revert n; induction k; intros; cbn; auto. Qed.
Lemma le_val_bytes k : forall n, 0 <= n < 256 ^ Z.of_nat k -> le_val (le_bytes k n) = n.
Proof. induction k as [|k IH]; intros n Hn; [cbn in *; lia|]. cbn [le_bytes le_val]. rewrite IH.
  - pose proof (Z.div_mod n 256). lia.
  - rewrite Nat2Z.inj_succ, Z.pow_succ_r in Hn by lia. split; [apply Z.div_pos; lia|apply Z.div_lt_upper_bound; lia]. Qed.
Lemma le_bytes_mod k : forall n, le_bytes k (n mod 256 ^ Z.of_nat k) = le_bytes k n.
Proof.
  induction k as [|k IH]; intros n; [reflexivity|]. cbn [le_bytes].
  assert (P : 0 < 256 ^ Z.of_nat k) by (apply Z.pow_pos_nonneg; lia).
  rewrite Nat2Z.inj_succ, Z.pow_succ_r by lia. f_equal.
  - rewrite <- Znumtheory.Zmod_div_mod; try lia. exists (256 ^ Z.of_nat k). lia.
  - rewrite <- (IH (n / 256)). f_equal. rewrite Z.rem_mul_r by lia.
    rewrite Z.mul_comm, Z.div_add by lia. rewrite Z.div_small by (apply Z.mod_pos_bound; lia). lia.
Qed.
Definition take (k : nat) (inp : list Z) : option (list Z * list Z) :=
  if Nat.leb k (List.length inp) then Some (firstn k inp, skipn k inp) else None.
Lemma take_app l r : take (List.length l) (l ++ r) = Some (l, r).
Proof. unfold take. rewrite app_length. replace (Nat.leb _ _) with true by (symmetry; apply Nat.leb_le; lia).
  rewrite firstn_app, skipn_app, Nat.sub_diag, firstn_all, skipn_all. cbn. now rewrite app_nil_r. Qed.

Definition dec_unsigned (k : nat) (inp : list Z) : option (Z * list Z) :=
  match take k inp with Some (l, r) => Some (le_val l, r) | None => None end.
Lemma law_unsigned k a r : 0 <= a < 256 ^ Z.of_nat k -> dec_unsigned k (le_bytes k a ++ r) = Some (a, r).
Proof. intros H. unfold dec_unsigned. rewrite <- (le_bytes_length k a) at 1. rewrite take_app. now rewrite le_val_bytes. Qed.
Definition c_unsigned (k : nat) : codec Z :=
  {| enc := le_bytes k; dec := dec_unsigned k; wf := fun n => 0 <= n < 256 ^ Z.of_nat k; law := law_unsigned k |}.

(* --- encode B through A --- *)
Section Map.
Context {A B} (c : codec A) (f : B -> A) (g : A -> B) (P : B -> Prop)
  (Hgf : forall b, P b -> g (f b) = b) (Hwf : forall b, P b -> wf c (f b)).
Definition dec_map (inp : list Z) : option (B * list Z) :=
  match dec c inp with Some (a, r) => Some (g a, r) | None => None end.
Lemma law_map b r : P b -> dec_map (enc c (f b) ++ r) = Some (b, r).
Proof. intros H. unfold dec_map. rewrite (law c) by auto. now rewrite Hgf. Qed.
Definition c_map : codec B := {| enc := fun b => enc c (f b); dec := dec_map; wf := P; law := law_map |}.
End Map.

(* --- two's complement signed in k bytes: the encoder is le_bytes itself --- *)
Definition of_u (k : nat) (u : Z) : Z := if u <? 256 ^ Z.of_nat k / 2 then u else u - 256 ^ Z.of_nat k.
Definition signed_range (k : nat) (v : Z) := - (256 ^ Z.of_nat k / 2) <= v < 256 ^ Z.of_nat k / 2.
Lemma pow256_even k : (0 < k)%nat -> 256 ^ Z.of_nat k = 2 * (256 ^ Z.of_nat k / 2) /\ 0 < 256 ^ Z.of_nat k / 2.
Proof. intros H. destruct k; [lia|]. rewrite Nat2Z.inj_succ, Z.pow_succ_r by lia.
  assert (0 < 256 ^ Z.of_nat k) by (apply Z.pow_pos_nonneg; lia).
  replace (256 * 256 ^ Z.of_nat k) with ((128 * 256 ^ Z.of_nat k) * 2) by lia. rewrite Z.div_mul by lia. lia. Qed.
Lemma of_to_u k v : (0 < k)%nat -> signed_range k v -> of_u k (v mod 256 ^ Z.of_nat k) = v.
Proof.
  intros Hk Hv. destruct (pow256_even k Hk) as [E Hp]. unfold of_u, signed_range in *.
  set (M := 256 ^ Z.of_nat k) in *. set (h := M / 2) in *.
  destruct (Z_lt_dec v 0).
  - replace (v mod M) with (v + M).
    + destruct (v + M <? h) eqn:L; [apply Z.ltb_lt in L; lia|lia].
    + apply Z.mod_unique with (q := -1); lia.
  - rewrite Z.mod_small by lia. destruct (v <? h) eqn:L; [reflexivity|apply Z.ltb_ge in L; lia].
Qed.
Definition dec_signed (k : nat) (inp : list Z) : option (Z * list Z) :=
  match dec_unsigned k inp with Some (u, r) => Some (of_u k u, r) | None => None end.
Lemma law_signed k (Hk : (0 < k)%nat) a r : signed_range k a -> dec_signed k (le_bytes k a ++ r) = Some (a, r).
Proof.
  intros H. unfold dec_signed. rewrite <- le_bytes_mod. rewrite law_unsigned.
  - now rewrite of_to_u.
  - apply Z.mod_pos_bound. apply Z.pow_pos_nonneg; lia.
Qed.
Definition c_signed (k : nat) (Hk : (0 < k)%nat) : codec Z :=
  {| enc := le_bytes k; dec := dec_signed k; wf := signed_range k; law := law_signed k Hk |}.

(* --- bool (binary.Write of a bool: one byte 0/1) --- *)
Definition enc_bool (b : bool) : list Z := le_bytes 1 (if b then 1 else 0).
Definition dec_bool (inp : list Z) : option (bool * list Z) :=
  match inp with 0 :: r => Some (false, r) | 1 :: r => Some (true, r) | _ => None end.
Lemma law_bool (a : bool) r : True -> dec_bool (enc_bool a ++ r) = Some (a, r).
Proof. destruct a; reflexivity. Qed.
Definition c_bool : codec bool := {| enc := enc_bool; dec := dec_bool; wf := fun _ => True; law := law_bool |}.

(* --- sequencing --- *)
Section Pair.
Context {A B} (ca : codec A) (cb : codec B).
Definition dec_pair (inp : list Z) : option ((A * B) * list Z) :=
  match dec ca inp with
  | Some (a, r) => match dec cb r with Some (b, r') => Some ((a, b), r') | None => None end
  | None => None end.
Lemma law_pair (p : A * B) r : wf ca (fst p) /\ wf cb (snd p) -> dec_pair ((enc ca (fst p) ++ enc cb (snd p)) ++ r) = Some (p, r).
Proof. intros [H1 H2]. unfold dec_pair. rewrite <- app_assoc. rewrite (law ca) by auto. rewrite (law cb) by auto. now destruct p. Qed.
Definition c_pair : codec (A * B) :=
  {| enc := fun p => enc ca (fst p) ++ enc cb (snd p); dec := dec_pair; wf := fun p => wf ca (fst p) /\ wf cb (snd p); law := law_pair |}.
End Pair.

(* --- Go pointers: h.number(a == nil); if a != nil { payload } --- *)
Section Opt.
Context {A} (c : codec A).
Definition enc_option (o : option A) : list Z := match o with None => enc_bool true | Some a => enc_bool false ++ enc c a end.
Definition dec_option (inp : list Z) : option (option A * list Z) :=
  match inp with
  | 1 :: r => Some (None, r)
  | 0 :: r => match dec c r with Some (a, r') => Some (Some a, r') | None => None end
  | _ => None end.
Definition wf_option (o : option A) : Prop := match o with None => True | Some a => wf c a end.
Lemma law_option o r : wf_option o -> dec_option (enc_option o ++ r) = Some (o, r).
Proof. destruct o as [a|]; cbn; intros H; [now rewrite (law c)|reflexivity]. Qed.
Definition c_option : codec (option A) := {| enc := enc_option; dec := dec_option; wf := wf_option; law := law_option |}.
End Opt.

(* --- n items back to back (the count is known from an earlier field) --- *)
Fixpoint enc_n {A} (c : codec A) (l : list A) : list Z := match l with [] => [] | a :: l' => enc c a ++ enc_n c l' end.
Fixpoint dec_n {A} (c : codec A) (n : nat) (inp : list Z) : option (list A * list Z) :=
  match n with O => Some ([], inp) | S n' =>
    match dec c inp with Some (a, r) => match dec_n c n' r with Some (l, r') => Some (a :: l, r') | None => None end
    | None => None end end.
Lemma dec_enc_n {A} (c : codec A) l : forall r, Forall (wf c) l -> dec_n c (List.length l) (enc_n c l ++ r) = Some (l, r).
Proof. induction l as [|a l IH]; intros r H; cbn; [reflexivity|]. inversion H; subst.
  rewrite <- app_assoc, (law c) by auto. now rewrite IH. Qed.

(* --- length-prefixed byte strings: h.number(uint64(len(s))); h.Write(s) --- *)
Definition enc_bytes (s : list Z) : list Z := le_bytes 8 (Z.of_nat (List.length s)) ++ s.
Definition dec_bytes (inp : list Z) : option (list Z * list Z) :=
  match dec_unsigned 8 inp with
  | Some (n, r) => take (Z.to_nat n) r
  | None => None end.
Lemma law_bytes (s : list Z) r : Z.of_nat (List.length s) < 2 ^ 64 -> dec_bytes (enc_bytes s ++ r) = Some (s, r).
Proof. intros H. unfold dec_bytes, enc_bytes. rewrite <- app_assoc.
  rewrite law_unsigned by (change (256 ^ Z.of_nat 8) with (2 ^ 64); lia). rewrite Nat2Z.id. apply take_app. Qed.
(* strings: through their bytes *)
Definition enc_str (s : string) : list Z := le_bytes 8 (Z.of_nat (String.length s)) ++ bytes_of s.
Definition dec_str (inp : list Z) : option (string * list Z) :=
  match dec_bytes inp with Some (l, r) => Some (str_of_bytes l, r) | None => None end.
Definition wf_str (s : string) : Prop := Z.of_nat (String.length s) < 2 ^ 64.
Lemma law_str s r : wf_str s -> dec_str (enc_str s ++ r) = Some (s, r).
Proof. unfold wf_str, dec_str, enc_str. intros H. rewrite <- (bytes_of_length s).
  fold (enc_bytes (bytes_of s)). rewrite law_bytes by (rewrite bytes_of_length; exact H). now rewrite str_of_bytes_of. Qed.
Definition c_str : codec string := {| enc := enc_str; dec := dec_str; wf := wf_str; law := law_str |}.
