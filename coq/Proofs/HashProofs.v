(* Proofs/HashProofs.v — C13: the byte stream hash.go feeds to the hash function is an injective,
   prefix-free encoding of exactly the data fields of a trip / vehicle. *)
From GV Require Import Base.Prelude Base.Codec Model.RtTypes Model.Hash.

(* ---------- 1. flush discipline: the two sinks amount to plain concatenation ---------- *)
Definition total (h : hasher) : list Z := h_out h ++ h_buf h.

Lemma total_flush h : total (flush h) = total h.
Proof. unfold total, flush; cbn. now rewrite app_nil_r. Qed.
Lemma out_flush h : h_out (flush h) = total h.
Proof. reflexivity. Qed.
Lemma total_number k n h : total (number k n h) = total h ++ le_bytes k n.
Proof. unfold total, number; cbn. now rewrite app_assoc. Qed.
Lemma total_hbool b h : total (hbool b h) = total h ++ enc_bool b.
Proof. apply total_number. Qed.
Lemma total_hstring s h : total (hstring s h) = total h ++ enc_str s.
Proof. unfold total, hstring, flush, number, enc_str; cbn. now rewrite !app_nil_r, <- !app_assoc. Qed.

(* ---------- 2. the codecs, one per Go type, composed exactly as hash.go composes its calls ---------- *)
Lemma four : (0 < 4)%nat. Proof. lia. Qed.
Lemma eight : (0 < 8)%nat. Proof. lia. Qed.
Definition i32 := c_signed 4 four.  Definition i64 := c_signed 8 eight.
Definition u32 := c_unsigned 4.     Definition u64 := c_unsigned 8.   Definition u8 := c_unsigned 1.

(* raw stream of hashNumberPtr, and its two codec readings (unsigned / two's complement) *)
Definition s_optnum (k : nat) (o : option Z) : list Z :=
  match o with None => enc_bool true | Some n => enc_bool false ++ le_bytes k n end.
Lemma enc_option_u k o : enc_option (c_unsigned k) o = s_optnum k o. Proof. reflexivity. Qed.
Lemma enc_option_s k Hk o : enc_option (c_signed k Hk) o = s_optnum k o. Proof. reflexivity. Qed.
Lemma total_number_ptr k o h : total (number_ptr k o h) = total h ++ s_optnum k o.
Proof. destruct o; cbn [number_ptr s_optnum]; rewrite ?total_number, ?total_hbool, <- ?app_assoc; reflexivity. Qed.
Lemma total_string_ptr o h : total (string_ptr o h) = total h ++ enc_option c_str o.
Proof. destruct o; cbn [string_ptr]; rewrite ?total_hstring, ?total_hbool, <- ?app_assoc; reflexivity. Qed.
Ltac raw_codecs :=
  unfold i32, i64, u32, u64, u8, c_pair, c_bool; cbn [enc fst snd c_option c_signed c_unsigned c_str];
  rewrite ?enc_option_u, ?enc_option_s.

(* data projections: what of each record reaches the hash *)
Definition event_data := (option Z * (option Z * option Z))%type.
Definition ev_data (e : rt_event) : event_data := (omap fst (ev_time e), (ev_delay e, ev_unc e)).
Definition c_event : codec event_data := c_pair (c_option i64) (c_pair (c_option i64) (c_option i32)).

Definition stu_data := (option Z * (option string * (option string * (Z * (option event_data * option event_data)))))%type.
Definition su_data (u : rt_stu) : stu_data :=
  (su_seq u, (su_stop u, (su_track u, (su_rel u, (omap ev_data (su_arr u), omap ev_data (su_dep u)))))).
Definition c_stu : codec stu_data :=
  c_pair (c_option u32) (c_pair (c_option c_str) (c_pair (c_option c_str)
         (c_pair i32 (c_pair (c_option c_event) (c_option c_event))))).

Definition trip_hd := (string * (string * (Z * (bool * (Z * (bool * Z))))))%type.
Definition c_trip_hd : codec trip_hd :=
  c_pair c_str (c_pair c_str (c_pair u8 (c_pair c_bool (c_pair i64 (c_pair c_bool i64))))).
Definition trip_data := (trip_hd * (Z * list stu_data))%type.      (* header, schedule relationship, updates *)
Definition tr_data (t : rt_trip) : trip_data :=
  let k := tr_key t in
  ((k_id k, (k_route k, (k_dir k, (k_has_date k, (fst (k_date k), (k_has_time k, k_time k)))))),
   (k_rel k, map su_data (tr_stus t))).

Definition enc_trip (d : trip_data) : list Z :=
  enc c_trip_hd (fst d) ++ enc i64 (Z.of_nat (List.length (snd (snd d)))) ++ enc i32 (fst (snd d)) ++ enc_n c_stu (snd (snd d)).
Definition dec_trip (inp : list Z) : option (trip_data * list Z) :=
  match dec c_trip_hd inp with None => None | Some (h, r1) =>
  match dec i64 r1 with None => None | Some (n, r2) =>
  match dec i32 r2 with None => None | Some (rl, r3) =>
  match dec_n c_stu (Z.to_nat n) r3 with None => None | Some (l, r4) =>
    Some ((h, (rl, l)), r4) end end end end.
Definition wf_trip_data (d : trip_data) : Prop :=
  wf c_trip_hd (fst d) /\ wf i64 (Z.of_nat (List.length (snd (snd d)))) /\ wf i32 (fst (snd d)) /\ Forall (wf c_stu) (snd (snd d)).
Lemma law_trip d r : wf_trip_data d -> dec_trip (enc_trip d ++ r) = Some (d, r).
Proof.
  intros [H1 [H2 [H3 H4]]]. unfold dec_trip, enc_trip. rewrite <- !app_assoc.
  rewrite (law c_trip_hd) by exact H1. rewrite (law i64) by exact H2. rewrite (law i32) by exact H3.
  rewrite Nat2Z.id, dec_enc_n by exact H4. destruct d as [h [rl l]]; reflexivity.
Qed.
Definition c_trip : codec trip_data := {| enc := enc_trip; dec := dec_trip; wf := wf_trip_data; law := law_trip |}.

(* ---------- 3. the model's hasher emits exactly enc c_trip (tr_data t) ---------- *)
Lemma total_hevent e h : total (hevent e h) = total h ++ enc_option c_event (omap ev_data e).
Proof.
  destruct e as [ev|]; cbn [hevent omap option_map enc_option].
  - unfold time_ptr. rewrite !total_number_ptr, total_hbool. unfold c_event, ev_data. raw_codecs.
    rewrite <- !app_assoc. reflexivity.
  - now rewrite total_hbool.
Qed.
Lemma total_hstu h u : total (hstu h u) = total h ++ enc c_stu (su_data u).
Proof.
  unfold hstu. rewrite !total_hevent, total_number, !total_string_ptr, total_number_ptr.
  unfold c_stu, su_data. raw_codecs. rewrite <- !app_assoc. reflexivity.
Qed.
Lemma total_fold_hstu us : forall h, total (fold_left hstu us h) = total h ++ enc_n c_stu (map su_data us).
Proof. induction us as [|u us IH]; intros h; cbn [fold_left map enc_n]; [now rewrite app_nil_r|].
  rewrite IH, total_hstu, <- app_assoc. reflexivity. Qed.
Lemma total_htrip t h : total (htrip t h) = total h ++ enc c_trip (tr_data t).
Proof.
  unfold htrip, hbool. cbv zeta. rewrite total_fold_hstu, !total_number, !total_hstring.
  unfold c_trip, enc_trip, tr_data, c_trip_hd; cbn [enc fst snd]. raw_codecs. unfold enc_bool.
  rewrite map_length. rewrite <- !app_assoc. reflexivity.
Qed.
Theorem hash_trip_stream t : hash_trip t = enc c_trip (tr_data t).
Proof. unfold hash_trip. rewrite out_flush, total_htrip. reflexivity. Qed.

(* ---------- 4. vehicles ---------- *)
Definition vid_data := (string * (string * string))%type.
Definition c_vid : codec vid_data := c_pair c_str (c_pair c_str c_str).
Definition pos_data := (option Z * (option Z * (option Z * (option Z * option Z))))%type.
Definition c_pos : codec pos_data :=
  c_pair (c_option u32) (c_pair (c_option u32) (c_pair (c_option u32) (c_pair (c_option u64) (c_option u32)))).
Definition vehicle_data := (option vid_data * (option trip_data * (option pos_data * (option Z * (option string *
                            (option Z * (option Z * (Z * (option Z * option Z)))))))))%type.
Definition c_vehicle : codec vehicle_data :=
  c_pair (c_option c_vid) (c_pair (c_option c_trip) (c_pair (c_option c_pos) (c_pair (c_option u32) (c_pair (c_option c_str)
    (c_pair (c_option i32) (c_pair (c_option i64) (c_pair i32 (c_pair (c_option i32) (c_option u32))))))))).
Definition ve_data (v : hvehicle) : vehicle_data :=
  (omap (fun i => (vi_id i, (vi_label i, vi_plate i))) (ve_id (hv v)),
  (omap tr_data (hv_trip v),
  (omap (fun p => (po_lat p, (po_lon p, (po_bearing p, (po_odo p, po_speed p))))) (ve_pos (hv v)),
  (ve_seq (hv v), (ve_stop (hv v), (ve_status (hv v), (omap fst (ve_ts (hv v)), (ve_congestion (hv v),
  (ve_occ (hv v), ve_occ_pct (hv v)))))))))).

Definition h_vid (oi : option vehicle_id) (h : hasher) : hasher :=
  match oi with None => hbool true h | Some i => hstring (vi_plate i) (hstring (vi_label i) (hstring (vi_id i) (hbool false h))) end.
Definition h_vtrip (ot : option rt_trip) (h : hasher) : hasher :=
  match ot with None => hbool true h | Some t => htrip t (hbool false h) end.
Definition h_pos (op : option rt_position) (h : hasher) : hasher :=
  match op with None => hbool true h
  | Some p => number_ptr 4 (po_speed p) (number_ptr 8 (po_odo p) (number_ptr 4 (po_bearing p)
                         (number_ptr 4 (po_lon p) (number_ptr 4 (po_lat p) (hbool false h))))) end.
Lemma total_h_vid oi h : total (h_vid oi h) = total h ++ enc (c_option c_vid) (omap (fun i => (vi_id i, (vi_label i, vi_plate i))) oi).
Proof. destruct oi as [i|]; cbn [h_vid omap option_map]; [|now rewrite total_hbool].
  rewrite !total_hstring, total_hbool. unfold c_vid. raw_codecs. cbn [enc_option enc fst snd]. rewrite <- !app_assoc. reflexivity. Qed.
Lemma total_h_vtrip ot h : total (h_vtrip ot h) = total h ++ enc (c_option c_trip) (omap tr_data ot).
Proof. destruct ot as [t|]; cbn [h_vtrip omap option_map]; [|now rewrite total_hbool].
  rewrite total_htrip, total_hbool. cbn [enc c_option enc_option]. rewrite <- !app_assoc. reflexivity. Qed.
Lemma total_h_pos op h : total (h_pos op h) = total h ++
  enc (c_option c_pos) (omap (fun p => (po_lat p, (po_lon p, (po_bearing p, (po_odo p, po_speed p))))) op).
Proof. destruct op as [p|]; cbn [h_pos omap option_map]; [|now rewrite total_hbool].
  rewrite !total_number_ptr, total_hbool. unfold c_pos. raw_codecs. cbn [enc_option enc fst snd]. raw_codecs.
  rewrite <- !app_assoc. reflexivity. Qed.
Lemma hvehicle_body_eq v h : hvehicle_body v h =
  number_ptr 4 (ve_occ_pct (hv v)) (number_ptr 4 (ve_occ (hv v)) (number 4 (ve_congestion (hv v)) (time_ptr (ve_ts (hv v))
   (number_ptr 4 (ve_status (hv v)) (string_ptr (ve_stop (hv v)) (number_ptr 4 (ve_seq (hv v))
   (h_pos (ve_pos (hv v)) (h_vtrip (hv_trip v) (h_vid (ve_id (hv v)) h))))))))).
Proof. reflexivity. Qed.
(* the vehicle encoding written out: one step of definitional unfolding, kept in its own small lemma so that the
   kernel re-checks it cheaply *)
Definition enc_vehicle_flat (v : hvehicle) : list Z :=
  enc (c_option c_vid) (omap (fun i => (vi_id i, (vi_label i, vi_plate i))) (ve_id (hv v))) ++
  enc (c_option c_trip) (omap tr_data (hv_trip v)) ++
  enc (c_option c_pos) (omap (fun p => (po_lat p, (po_lon p, (po_bearing p, (po_odo p, po_speed p))))) (ve_pos (hv v))) ++
  s_optnum 4 (ve_seq (hv v)) ++ enc_option c_str (ve_stop (hv v)) ++ s_optnum 4 (ve_status (hv v)) ++
  s_optnum 8 (omap fst (ve_ts (hv v))) ++ le_bytes 4 (ve_congestion (hv v)) ++ s_optnum 4 (ve_occ (hv v)) ++ s_optnum 4 (ve_occ_pct (hv v)).
Lemma enc_vehicle_flat_eq v : enc c_vehicle (ve_data v) = enc_vehicle_flat v.
Proof. reflexivity. Qed.
Lemma total_hvehicle v h : total (hvehicle_body v h) = total h ++ enc c_vehicle (ve_data v).
Proof.
  rewrite enc_vehicle_flat_eq, hvehicle_body_eq. unfold time_ptr, enc_vehicle_flat.
  rewrite !total_number_ptr, total_number, !total_number_ptr, total_string_ptr, total_number_ptr, total_h_pos, total_h_vtrip, total_h_vid.
  rewrite <- !app_assoc. reflexivity.
Qed.
Theorem hash_vehicle_stream v : hash_vehicle v = enc c_vehicle (ve_data v).
Proof. unfold hash_vehicle. rewrite out_flush, total_hvehicle. reflexivity. Qed.

(* ---------- 5. ranges of the Go types (what "well-formed" means: every value fits its Go kind) ---------- *)
Definition wf_trip (t : rt_trip) : Prop := wf c_trip (tr_data t).
Definition wf_vehicle (v : hvehicle) : Prop := wf c_vehicle (ve_data v).

(* ---------- 6. erasure: what the hash ignores ---------- *)
Definition erase_instant (i : instant) : instant := (fst i, "").
Definition erase_event (e : rt_event) : rt_event :=
  {| ev_time := omap erase_instant (ev_time e); ev_delay := ev_delay e; ev_unc := ev_unc e |}.
Definition erase_stu (u : rt_stu) : rt_stu :=
  {| su_seq := su_seq u; su_stop := su_stop u; su_arr := omap erase_event (su_arr u); su_dep := omap erase_event (su_dep u);
     su_track := su_track u; su_rel := su_rel u |}.
Definition erase_key (k : trip_key) : trip_key :=
  {| k_id := k_id k; k_route := k_route k; k_dir := k_dir k; k_has_time := k_has_time k; k_time := k_time k;
     k_has_date := k_has_date k; k_date := erase_instant (k_date k); k_rel := k_rel k |}.
(* object identity is not represented at all; zone names, the in-message flag and the vehicle back-reference are erased *)
Definition erase_trip (t : rt_trip) : rt_trip :=
  {| tr_key := erase_key (tr_key t); tr_stus := map erase_stu (tr_stus t); tr_vehicle := None; tr_in_msg := false |}.

Definition un_event (d : event_data) : rt_event :=
  let '(t, (dl, un)) := d in {| ev_time := omap (fun z => (z, "")) t; ev_delay := dl; ev_unc := un |}.
Definition un_stu (d : stu_data) : rt_stu :=
  let '(sq, (st, (tk, (rl, (a, dp))))) := d in
  {| su_seq := sq; su_stop := st; su_arr := omap un_event a; su_dep := omap un_event dp; su_track := tk; su_rel := rl |}.
Definition un_trip (d : trip_data) : rt_trip :=
  let '((id, (ro, (di, (hd, (da, (ht, ti)))))), (rl, us)) := d in
  {| tr_key := {| k_id := id; k_route := ro; k_dir := di; k_has_time := ht; k_time := ti; k_has_date := hd; k_date := (da, ""); k_rel := rl |};
     tr_stus := map un_stu us; tr_vehicle := None; tr_in_msg := false |}.

Lemma un_event_data e : un_event (ev_data e) = erase_event e.
Proof. destruct e as [[[z s]|] d u]; reflexivity. Qed.
Lemma un_stu_data u : un_stu (su_data u) = erase_stu u.
Proof. destruct u as [sq st a d tk rl]. unfold su_data, un_stu, erase_stu; cbn.
  destruct a as [a|]; destruct d as [d|]; cbn [omap option_map]; now rewrite ?un_event_data. Qed.
Lemma un_trip_data t : un_trip (tr_data t) = erase_trip t.
Proof. destruct t as [[id ro di ht ti hd [da z] rl] us v m]. unfold tr_data, un_trip, erase_trip; cbn.
  f_equal. rewrite map_map. apply map_ext. intros u; apply un_stu_data. Qed.
Lemma ev_data_erase e : ev_data (erase_event e) = ev_data e.
Proof. destruct e as [[[z s]|] d u]; reflexivity. Qed.
Lemma su_data_erase u : su_data (erase_stu u) = su_data u.
Proof. destruct u as [sq st [a|] [d|] tk rl]; unfold su_data, erase_stu; cbn; now rewrite ?ev_data_erase. Qed.
Lemma tr_data_erase t : tr_data (erase_trip t) = tr_data t.
Proof. destruct t as [[id ro di ht ti hd [da z] rl] us v m]. unfold tr_data, erase_trip; cbn.
  do 2 f_equal. rewrite map_map. apply map_ext. intros u; apply su_data_erase. Qed.
Lemma tr_data_eq_iff a b : tr_data a = tr_data b <-> erase_trip a = erase_trip b.
Proof. split; intros H.
  - rewrite <- !un_trip_data. now rewrite H.
  - rewrite <- (tr_data_erase a), <- (tr_data_erase b). now rewrite H. Qed.

(* same for vehicles; the trip reached through the vehicle is part of the data *)
Definition erase_vehicle (v : hvehicle) : hvehicle :=
  {| hv := {| ve_id := ve_id (hv v); ve_trip := None; ve_pos := ve_pos (hv v); ve_seq := ve_seq (hv v); ve_stop := ve_stop (hv v);
              ve_status := ve_status (hv v); ve_ts := omap erase_instant (ve_ts (hv v)); ve_congestion := ve_congestion (hv v);
              ve_occ := ve_occ (hv v); ve_occ_pct := ve_occ_pct (hv v); ve_in_msg := false |};
     hv_trip := omap erase_trip (hv_trip v) |}.
Definition un_vehicle (d : vehicle_data) : hvehicle :=
  let '(oi, (ot, (op, (sq, (st, (stat, (ts, (cong, (occ, pct))))))))) := d in
  {| hv := {| ve_id := omap (fun '(a, (b, c)) => {| vi_id := a; vi_label := b; vi_plate := c |}) oi; ve_trip := None;
              ve_pos := omap (fun '(a, (b, (c, (d, e)))) => {| po_lat := a; po_lon := b; po_bearing := c; po_odo := d; po_speed := e |}) op;
              ve_seq := sq; ve_stop := st; ve_status := stat; ve_ts := omap (fun z => (z, "")) ts; ve_congestion := cong;
              ve_occ := occ; ve_occ_pct := pct; ve_in_msg := false |};
     hv_trip := omap un_trip ot |}.
Lemma un_vehicle_data v : un_vehicle (ve_data v) = erase_vehicle v.
Proof. destruct v as [[oid otk opos sq st stat ts cong occ pct inm] otrip]. unfold ve_data, un_vehicle, erase_vehicle; cbn.
  f_equal; [f_equal|].
  - destruct oid as [[a b c]|]; reflexivity.
  - destruct opos as [[a b c d e]|]; reflexivity.
  - destruct ts as [[z s]|]; reflexivity.
  - destruct otrip as [t|]; cbn [omap option_map]; [now rewrite un_trip_data|reflexivity]. Qed.
Lemma ve_data_erase v : ve_data (erase_vehicle v) = ve_data v.
Proof. destruct v as [[oid otk opos sq st stat ts cong occ pct inm] otrip]. unfold ve_data, erase_vehicle; cbn [hv hv_trip ve_id ve_pos ve_seq ve_stop ve_status ve_ts ve_congestion ve_occ ve_occ_pct].
  destruct otrip as [t|]; destruct ts as [[z s]|]; cbn [omap option_map erase_instant fst]; now rewrite ?tr_data_erase. Qed.
Lemma ve_data_eq_iff a b : ve_data a = ve_data b <-> erase_vehicle a = erase_vehicle b.
Proof. split; intros H.
  - rewrite <- !un_vehicle_data. now rewrite H.
  - rewrite <- (ve_data_erase a), <- (ve_data_erase b). now rewrite H. Qed.

(* ---------- 7. the property ---------- *)
Theorem trip_hash_exact a b : wf_trip a -> wf_trip b -> (hash_trip a = hash_trip b <-> erase_trip a = erase_trip b).
Proof.
  intros Ha Hb. rewrite !hash_trip_stream, <- tr_data_eq_iff. split; [|now intros ->].
  apply (codec_injective c_trip); assumption.
Qed.
Theorem vehicle_hash_exact a b : wf_vehicle a -> wf_vehicle b -> (hash_vehicle a = hash_vehicle b <-> erase_vehicle a = erase_vehicle b).
Proof.
  intros Ha Hb. rewrite !hash_vehicle_stream, <- ve_data_eq_iff. split; [|now intros ->].
  apply (codec_injective c_vehicle); assumption.
Qed.
(* stronger: prefix-free, so hashing several values back to back into one hash.Hash stays unambiguous *)
Theorem trip_hash_prefix_free a b r r' : wf_trip a -> wf_trip b -> hash_trip a ++ r = hash_trip b ++ r' ->
  erase_trip a = erase_trip b /\ r = r'.
Proof. intros Ha Hb. rewrite !hash_trip_stream, <- tr_data_eq_iff. apply (codec_prefix_free c_trip); assumption. Qed.
Theorem vehicle_hash_prefix_free a b r r' : wf_vehicle a -> wf_vehicle b -> hash_vehicle a ++ r = hash_vehicle b ++ r' ->
  erase_vehicle a = erase_vehicle b /\ r = r'.
Proof. intros Ha Hb. rewrite !hash_vehicle_stream, <- ve_data_eq_iff. apply (codec_prefix_free c_vehicle); assumption. Qed.
(* a whole feed's worth: any number of trips (vehicles) written back to back into ONE hash.Hash - the stream determines
   every one of them, position by position *)
Theorem trips_hash_sequence : forall xs ys r r', Forall wf_trip xs -> Forall wf_trip ys -> length xs = length ys ->
  concat (map hash_trip xs) ++ r = concat (map hash_trip ys) ++ r' -> map erase_trip xs = map erase_trip ys /\ r = r'.
Proof.
  induction xs as [|x xs IH]; intros [|y ys] r r' Hx Hy Hl H; try discriminate Hl.
  - split; [reflexivity|exact H].
  - inversion Hx as [|? ? Hx1 Hx2]; inversion Hy as [|? ? Hy1 Hy2]; subst.
    cbn [map concat] in H. rewrite <- !app_assoc in H.
    destruct (trip_hash_prefix_free _ _ _ _ Hx1 Hy1 H) as [E H'].
    destruct (IH ys r r' Hx2 Hy2 (f_equal pred Hl) H') as [E' Hr].
    split; [cbn [map]; now rewrite E, E'|exact Hr].
Qed.
Theorem vehicles_hash_sequence : forall xs ys r r', Forall wf_vehicle xs -> Forall wf_vehicle ys -> length xs = length ys ->
  concat (map hash_vehicle xs) ++ r = concat (map hash_vehicle ys) ++ r' -> map erase_vehicle xs = map erase_vehicle ys /\ r = r'.
Proof.
  induction xs as [|x xs IH]; intros [|y ys] r r' Hx Hy Hl H; try discriminate Hl.
  - split; [reflexivity|exact H].
  - inversion Hx as [|? ? Hx1 Hx2]; inversion Hy as [|? ? Hy1 Hy2]; subst.
    cbn [map concat] in H. rewrite <- !app_assoc in H.
    destruct (vehicle_hash_prefix_free _ _ _ _ Hx1 Hy1 H) as [E H'].
    destruct (IH ys r r' Hx2 Hy2 (f_equal pred Hl) H') as [E' Hr].
    split; [cbn [map]; now rewrite E, E'|exact Hr].
Qed.
(* no value hashes to the empty stream, so lists of DIFFERENT lengths cannot share a stream either *)
Lemma hash_trip_nonempty t : hash_trip t <> [].
Proof.
  rewrite hash_trip_stream. intros H. apply (f_equal (@List.length Z)) in H. revert H.
  change (enc c_trip (tr_data t)) with (enc_trip (tr_data t)). unfold enc_trip.
  destruct (tr_data t) as [[id hd] rest]. cbn [fst snd].
  change (enc c_trip_hd (id, hd)) with (enc_str id ++ enc (c_pair c_str (c_pair u8 (c_pair c_bool (c_pair i64 (c_pair c_bool i64))))) hd).
  unfold enc_str. rewrite <- !app_assoc, app_length, le_bytes_length. cbn [List.length]. lia.
Qed.
Lemma hash_vehicle_nonempty v : hash_vehicle v <> [].
Proof.
  rewrite hash_vehicle_stream, enc_vehicle_flat_eq. unfold enc_vehicle_flat.
  destruct (ve_id (hv v)) as [i|]; cbn [omap option_map]; intros H; apply (f_equal (@List.length Z)) in H; revert H;
    change (enc (c_option c_vid)) with (enc_option c_vid); unfold enc_option; rewrite <- ?app_assoc, app_length;
    destruct (enc_bool true) eqn:Et; destruct (enc_bool false) eqn:Ef; try discriminate Et; try discriminate Ef; cbn [List.length]; lia.
Qed.
Theorem trips_hash_stream_injective : forall xs ys, Forall wf_trip xs -> Forall wf_trip ys ->
  concat (map hash_trip xs) = concat (map hash_trip ys) -> map erase_trip xs = map erase_trip ys.
Proof.
  induction xs as [|x xs IH]; intros [|y ys] Hx Hy H.
  - reflexivity.
  - exfalso. cbn [map concat] in H. symmetry in H. apply app_eq_nil in H. now apply (hash_trip_nonempty y).
  - exfalso. cbn [map concat] in H. apply app_eq_nil in H. now apply (hash_trip_nonempty x).
  - inversion Hx as [|? ? Hx1 Hx2]; inversion Hy as [|? ? Hy1 Hy2]; subst. cbn [map concat] in H.
    destruct (trip_hash_prefix_free _ _ _ _ Hx1 Hy1 H) as [E H']. cbn [map]. now rewrite E, (IH ys Hx2 Hy2 H').
Qed.
Theorem vehicles_hash_stream_injective : forall xs ys, Forall wf_vehicle xs -> Forall wf_vehicle ys ->
  concat (map hash_vehicle xs) = concat (map hash_vehicle ys) -> map erase_vehicle xs = map erase_vehicle ys.
Proof.
  induction xs as [|x xs IH]; intros [|y ys] Hx Hy H.
  - reflexivity.
  - exfalso. cbn [map concat] in H. symmetry in H. apply app_eq_nil in H. now apply (hash_vehicle_nonempty y).
  - exfalso. cbn [map concat] in H. apply app_eq_nil in H. now apply (hash_vehicle_nonempty x).
  - inversion Hx as [|? ? Hx1 Hx2]; inversion Hy as [|? ? Hy1 Hy2]; subst. cbn [map concat] in H.
    destruct (vehicle_hash_prefix_free _ _ _ _ Hx1 Hy1 H) as [E H']. cbn [map]. now rewrite E, (IH ys Hx2 Hy2 H').
Qed.
(* what is ignored: the hash factors through the erasure *)
Theorem trip_hash_ignores t : hash_trip (erase_trip t) = hash_trip t.
Proof. now rewrite !hash_trip_stream, tr_data_erase. Qed.
Theorem vehicle_hash_ignores v : hash_vehicle (erase_vehicle v) = hash_vehicle v.
Proof. now rewrite !hash_vehicle_stream, ve_data_erase. Qed.
(* the encoder is a total function: hashing cannot fail on any value, and is deterministic by construction *)
Theorem hash_trip_total t : exists bytes, hash_trip t = bytes.
Proof. eexists; reflexivity. Qed.

(* ---------- 8. non-vacuity: a concrete trip meets wf_trip; nil vs zero and string boundaries matter ---------- *)
Definition ex_event : rt_event := {| ev_time := Some (1700000000, "America/New_York"); ev_delay := Some (-30000000000); ev_unc := Some 0 |}.
Definition ex_stu : rt_stu := {| su_seq := Some 3; su_stop := Some "L03N"; su_arr := Some ex_event; su_dep := None; su_track := Some "1"; su_rel := 0 |}.
Definition ex_trip : rt_trip :=
  {| tr_key := {| k_id := "067800_L..N"; k_route := "L"; k_dir := 2; k_has_time := true; k_time := 40680000000000;
                  k_has_date := true; k_date := (1699938000, "America/New_York"); k_rel := 0 |};
     tr_stus := [ex_stu; ex_stu]; tr_vehicle := Some (Some {| vi_id := "0L 1118"; vi_label := ""; vi_plate := "" |}); tr_in_msg := true |}.
Ltac ground := lazy; repeat split; try reflexivity; try (intro; discriminate).
Example ex_trip_wf : wf_trip ex_trip.
Proof. unfold wf_trip. change (wf_trip_data (tr_data ex_trip)). unfold wf_trip_data.
  split; [ground|split; [ground|split; [ground|]]].
  unfold ex_trip, tr_data; cbn [snd fst map tr_stus]. repeat (apply Forall_cons; [ground|]). apply Forall_nil. Qed.
Example nil_vs_zero : enc (c_option i32) None <> enc (c_option i32) (Some 0).
Proof. vm_compute. congruence. Qed.
Example boundary : enc c_str "ab" ++ enc c_str "c" <> enc c_str "a" ++ enc c_str "bc".
Proof. vm_compute. congruence. Qed.
