(* Proofs/MergeProofs.v — C07, second half: for EVERY message (conflicting mentions included) the trips of the result are
   strictly sorted by TripID.Less — hence no two share an identifier — and the id-bearing vehicles are strictly sorted by
   the vehicle comparator, followed by the id-less ones in feed order. *)
From Coq Require Import Permutation Sorted.
From GV Require Import Base.Prelude Base.Dec Base.Sort Base.StrOrd Base.Lex Model.RtTypes Model.RtWire Model.Realtime Model.Purity
  Proofs.RealtimeProofs Proofs.PurityProofs.

Lemma sorted_by_key {A K} (S : sto K) (key : A -> K) (cmp : A -> A -> bool) l :
  NoDup (map key l) -> (forall x y, In x l -> In y l -> cmp x y = s_ltb S (key x) (key y)) ->
  StronglySorted (fun x y => cmp x y = true) (isort A cmp l).
Proof.
  intros Hnd Hc. rewrite (isort_ext_in cmp (by_key S key) l Hc).
  assert (Hs : StronglySorted (fun x y => by_key S key x y = true) (isort A (by_key S key) l)).
  { apply isort_sorted.
    - intros x y z. apply by_key_trans.
    - eapply NoDup_map_inv; eauto.
    - intros x y Hx Hy. unfold Sort.lt, by_key. destruct (s_tot S (key x) (key y)) as [E|[H|H]]; auto.
      left. eapply NoDup_map_inj_in; eauto. }
  assert (Hin : forall x, In x (isort A (by_key S key) l) -> In x l).
  { intros x Hx. apply (Permutation_in _ (isort_perm A (by_key S key) l)), Hx. }
  revert Hs Hin. generalize (isort A (by_key S key) l) as sl. induction sl as [|a sl IH]; intros Hs Hin; [constructor|].
  inversion Hs as [|? ? Hs' Hall]; subst. constructor; [apply IH; auto; intros; apply Hin; now right|].
  rewrite Forall_forall in *. intros y Hy. rewrite Hc; [apply Hall, Hy|apply Hin; now left|apply Hin; now right].
Qed.

Section Sorted.
Variable cm : Z -> Z -> Z -> Z.
Variable tz : option string.
Variable cfg : ext_cfg.

Theorem trips_strictly_sorted m :
  StronglySorted (fun x y => trip_less (tr_key x) (tr_key y) = true) (rt_trips (parse_message cm tz cfg m)).
Proof.
  unfold parse_message.
  set (a := fold_left (entity_step cm tz cfg) _ acc0).
  assert (Ha : acc_inv tz a) by (apply fold_entity_step_ok, acc0_ok).
  destruct Ha as [[Hnd Hf] _]. unfold finish; cbn [rt_trips].
  apply (sorted_by_key sto_trip (fun t => trip_tuple (tr_key t))).
  - rewrite map_map. rewrite Forall_forall in Hf.
    rewrite (map_ext_in _ (fun kt => trip_tuple (fst kt))).
    2:{ intros [k t] Hin. destruct (Hf _ Hin) as [E _]. cbn in *.
        destruct (glookup tk_eqb k (a_t2v a)); [exact (f_equal trip_tuple E)|]. destruct (existsb _ _); exact (f_equal trip_tuple E). }
    rewrite <- map_map. apply NoDup_map_inj_on; [|exact Hnd].
    intros x y Hx Hy. apply in_map_iff in Hx as [[k1 t1] [<- H1]], Hy as [[k2 t2] [<- H2]].
    apply (trip_tuple_inj tz); [apply (Hf _ H1)|apply (Hf _ H2)].
  - rewrite Forall_forall in Hf.
    assert (W : forall x, In x (map (fun kt : trip_key * rt_trip => let '(k, t) := kt in
                  match glookup tk_eqb k (a_t2v a) with
                  | Some vid => set_trip_vehicle t (Some (Some vid))
                  | None => if existsb (tk_eqb k) (a_t2noid a) then set_trip_vehicle t (Some None) else t end) (a_trips a)) -> key_wf tz (tr_key x)).
    { intros z Hz. apply in_map_iff in Hz as [[k t] [<- Hin]]. destruct (Hf _ Hin) as [E Hw]. cbn in *.
      destruct (glookup tk_eqb k (a_t2v a)); [cbn; now rewrite E|]. destruct (existsb _ _); cbn; now rewrite E. }
    intros x y Hx Hy. apply (trip_less_tuple tz); auto.
Qed.
(* strictly sorted by a strict order: no two entries with the same identifier *)
Corollary trip_ids_unique m : NoDup (map tr_key (rt_trips (parse_message cm tz cfg m))).
Proof.
  pose proof (trips_strictly_sorted m) as H. induction H as [|t l Hs IH Hall]; cbn; constructor; [|exact IH].
  intros Hin. apply in_map_iff in Hin as [u [E Hu]]. rewrite Forall_forall in Hall. specialize (Hall u Hu). rewrite E in Hall.
  clear - Hall. destruct (tr_key t) as [i r d ht t0 hd [u0 z] s]. unfold trip_less in Hall. cbn in Hall.
  rewrite !String.eqb_refl, !Z.eqb_refl, !Bool.eqb_reflx in Hall. cbn in Hall.
  rewrite Bool.andb_false_r in Hall. cbn in Hall. rewrite Bool.andb_false_r in Hall. cbn in Hall. rewrite Z.ltb_irrefl in Hall. discriminate.
Qed.

Definition vcmp (x y : rt_vehicle) : bool := match ve_id x, ve_id y with Some a, Some b => vid_less a b | _, _ => false end.
Lemma a_noid_idless : forall l a, (forall v, In v (a_noid a) -> ve_id v = None) ->
  forall v, In v (a_noid (fold_left (entity_step cm tz cfg) l a)) -> ve_id v = None.
Proof.
  induction l as [|[e skip] r IH]; intros a H; cbn [fold_left]; [exact H|]. apply IH. clear IH.
  assert (G : forall t v0, (forall v, In v (a_noid (add_trip_vehicle a t v0)) -> ve_id v = None)).
  { intros t v0 v. unfold add_trip_vehicle. destruct v0 as [v0|]; cbn; [|apply H]. destruct (ve_id v0) eqn:E; cbn; [apply H|].
    rewrite in_app_iff. intros [Hin|[<-|[]]]; [now apply H|]. destruct t; cbn; exact E. }
  unfold entity_step. destruct skip; [exact H|]. destruct (e_tu e); [destruct (parse_trip_update _ _ _ _); apply G|].
  destruct (e_vp e); [destruct (parse_vehicle _ _ _); apply G|]. destruct (e_alert e); [|exact H].
  destruct (parse_alert _ _ _ _). cbn. exact H.
Qed.
(* the vehicles: those with an id strictly sorted by the id comparator, then the id-less ones *)
Theorem vehicles_sorted_then_idless m : exists withid idless : list rt_vehicle,
  rt_vehicles (parse_message cm tz cfg m) = (withid ++ idless)%list /\
  StronglySorted (fun x y => vcmp x y = true) withid /\ Forall (fun v => ve_id v <> None) withid /\ Forall (fun v => ve_id v = None) idless.
Proof.
  unfold parse_message.
  set (l := combine _ _). set (a := fold_left (entity_step cm tz cfg) l acc0).
  assert (Ha : acc_inv tz a) by (apply fold_entity_step_ok, acc0_ok).
  destruct Ha as [_ [Hvn Hvf]]. unfold finish; cbn [rt_vehicles]. eexists; eexists; split; [reflexivity|].
  rewrite Forall_forall in Hvf.
  assert (Hid : forall x, In x (map (fun iv : vehicle_id * rt_vehicle => let '(id, v) := iv in
                 match glookup vi_eqb id (a_v2t a) with Some k => set_vehicle_trip v (Some k) | None => v end) (a_vehicles a)) ->
                 exists i v0, In (i, v0) (a_vehicles a) /\ ve_id x = Some i).
  { intros x Hx. apply in_map_iff in Hx as [[i v0] [<- Hin]]. exists i, v0. split; [exact Hin|]. pose proof (Hvf _ Hin) as E. cbn in *.
    destruct (glookup vi_eqb i (a_v2t a)); cbn; exact E. }
  split; [|split].
  - apply (sorted_by_key sto_vid (fun v => match ve_id v with Some i => vid_tuple i | None => ("", ("", "")) end)).
    + rewrite map_map. rewrite (map_ext_in _ (fun iv => vid_tuple (fst iv))).
      2:{ intros [i v] Hin. pose proof (Hvf _ Hin) as E. cbn in *. destruct (glookup vi_eqb i (a_v2t a)); cbn; now rewrite E. }
      rewrite <- map_map. apply NoDup_map_inj_on; [|exact Hvn]. intros x y _ _. apply vid_tuple_inj.
    + intros x y Hx Hy. destruct (Hid x Hx) as (i1 & v1 & _ & E1). destruct (Hid y Hy) as (i2 & v2 & _ & E2).
      rewrite E1, E2. apply vid_less_tuple.
  - apply Forall_forall. intros x Hx. apply (Permutation_in _ (isort_perm _ _ _)) in Hx. destruct (Hid x Hx) as (i & v0 & _ & E). congruence.
  - apply Forall_forall. intros v Hv. apply (a_noid_idless l acc0); [intros ? []|exact Hv].
Qed.
End Sorted.
