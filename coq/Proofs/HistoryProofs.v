(* Proofs/HistoryProofs.v — C14 over whole histories.  The stop-time list of a journal trip is a function of the EVENTS of
   its UID alone - the applied updates (those not ignored by the unassigned-update rule) and the feeds from which the trip
   vanished -, and every entry of the list, after any history, is accounted for by exactly one event: it carries the stop,
   arrival, departure and track of one stop of that update and that update's time as last-observed ("recorded from earlier
   feeds, unchanged since it was last observed"); it is unmarked when that update is the last event, and otherwise marked
   past with the time of the VERY NEXT event - the first feed that no longer reported it. *)
From GV Require Import Base.Prelude Base.Dec Model.Journal Proofs.JournalProofs.

Inductive ev := EvUpdate (us : list ju_stop) (t : Z) | EvVanish (t : Z).
Definition ev_time (e : ev) : Z := match e with EvUpdate _ t => t | EvVanish t => t end.
Definition stops_step (L : list j_stop) (e : ev) : list j_stop :=
  match e with EvUpdate us t => stops_after L us t | EvVanish t => map (mark t) L end.
Definition stops_of (evs : list ev) : list j_stop := fold_left stops_step evs [].

Definition born (evs : list ev) (e : j_stop) : Prop :=
  exists pre us t post u, evs = pre ++ EvUpdate us t :: post /\ In u us /\
    js_stop e = stop_id_or_empty u /\ js_arr e = us_arr u /\ js_dep e = us_dep u /\ js_track e = us_track u /\ js_last e = t /\
    js_marked e = match post with [] => None | nxt :: _ => Some (ev_time nxt) end.

Lemma in_firstn {A} (x : A) : forall n l, In x (firstn n l) -> In x l.
Proof. induction n as [|n IH]; intros [|a l] H; cbn in *; try contradiction. destruct H as [->|H]; [now left|right; now apply IH]. Qed.
Lemma born_marked evs nxt e : born evs e -> born (evs ++ [nxt]) (mark (ev_time nxt) e).
Proof.
  intros (pre & us & t & post & u & E & Hu & F1 & F2 & F3 & F4 & F5 & F6).
  exists pre, us, t, (post ++ [nxt]), u. destruct (mark_fields (ev_time nxt) e) as (M1 & M2 & M3 & M4 & M5 & M6).
  rewrite M1, M2, M3, M4, M5, M6, F6. repeat split; try assumption.
  - rewrite E, <- app_assoc. reflexivity.
  - destruct post; reflexivity.
Qed.
Lemma born_fresh evs us t u : In u us -> born (evs ++ [EvUpdate us t]) (fresh t u).
Proof. intros Hu. exists evs, us, t, [], u. repeat split; try reflexivity; assumption. Qed.

Theorem entries_born evs : Forall (born evs) (stops_of evs).
Proof.
  induction evs as [|nxt evs IH] using rev_ind; [constructor|].
  unfold stops_of in *. rewrite fold_left_app. cbn [fold_left]. set (L := fold_left stops_step evs []) in *.
  rewrite Forall_forall in *.
  assert (Marked : forall l t, ev_time nxt = t -> (forall x, In x l -> In x L) -> forall x, In x (map (mark t) l) -> born (evs ++ [nxt]) x).
  { intros l t Et Hl x Hx. apply in_map_iff in Hx as [e [<- He]]. rewrite <- Et. apply born_marked. apply IH, Hl, He. }
  destruct nxt as [us t|t]; cbn [stops_step].
  - unfold stops_after. destruct us as [|u0 us'].
    + apply (Marked L t eq_refl). auto.
    + intros x Hx. apply in_app_iff in Hx as [Hx|Hx].
      * revert x Hx. apply (Marked _ t eq_refl). intros y Hy. eapply in_firstn; eauto.
      * apply in_map_iff in Hx as [u [<- Hu]]. now apply born_fresh.
  - apply (Marked L t eq_refl). auto.
Qed.

(* ---- the events of one UID, extracted by the same fold as JournalProofs.step_uid ---- *)
Definition upd_ev (t : Z) (s : option j_trip * list ev) (u : ju_trip) : option j_trip * list ev :=
  let tr := odflt new_trip (fst s) in
  (Some (trip_update tr u t), if ignored tr u then snd s else snd s ++ [EvUpdate (ut_stops u) t]).
Definition step_ev (uid : string) (s : (option j_trip * bool) * list ev) (f : j_feed) : (option j_trip * bool) * list ev :=
  let t := jf_created f in
  let us := filter (concerns uid) (jf_trips f) in
  let r := fold_left (upd_ev t) us (fst (fst s), snd s) in
  let present := negb (is_nil us) in
  if snd (fst s) && negb present
  then ((option_map (trip_mark_past t) (fst r), present), match fst r with Some _ => snd r ++ [EvVanish t] | None => snd r end)
  else ((fst r, present), snd r).
Definition events (uid : string) (feeds : list j_feed) : list ev := snd (fold_left (step_ev uid) feeds ((None, false), [])).

(* the trip-level accounting (C15), from the same events: number of applied updates, time of the last one, and the time of
   the first feed after it from which the trip was missing *)
Definition acct_step (a : Z * Z * option Z) (e : ev) : Z * Z * option Z :=
  let '(n, l, m) := a in
  match e with
  | EvUpdate _ t => (n + 1, t, None)
  | EvVanish t => (n, l, match m with Some x => Some x | None => Some t end)
  end.
Definition acct (evs : list ev) : Z * Z * option Z := fold_left acct_step evs (jt_nupd new_trip, jt_last new_trip, jt_marked new_trip).
Definition tracks (o : option j_trip) (evs : list ev) : Prop :=
  match o with Some tr => jt_stops tr = stops_of evs /\ (jt_nupd tr, jt_last tr, jt_marked tr) = acct evs | None => evs = [] end.
Lemma acct_snoc evs e : acct (evs ++ [e]) = acct_step (acct evs) e.
Proof. unfold acct. now rewrite fold_left_app. Qed.
Lemma stops_of_snoc evs e : stops_of (evs ++ [e]) = stops_step (stops_of evs) e.
Proof. unfold stops_of. now rewrite fold_left_app. Qed.
Lemma upd_ev_tracks t : forall us o evs, tracks o evs ->
  let r := fold_left (upd_ev t) us (o, evs) in fst r = fold_left (upd1 t) us o /\ tracks (fst r) (snd r).
Proof.
  induction us as [|u us IH]; intros o evs H; cbn [fold_left]; [split; [reflexivity|exact H]|].
  apply IH. unfold upd_ev. cbv zeta. cbn [fst snd tracks].
  assert (Hs : jt_stops (odflt new_trip o) = stops_of evs /\ (jt_nupd (odflt new_trip o), jt_last (odflt new_trip o), jt_marked (odflt new_trip o)) = acct evs)
    by (destruct o as [tr|]; cbn [odflt tracks] in *; [exact H|subst; split; reflexivity]).
  destruct Hs as [Hs Ha].
  destruct (ignored (odflt new_trip o) u) eqn:I; unfold upd1; cbn [tracks].
  - unfold trip_update. rewrite I. now split.
  - split.
    + rewrite stops_of_snoc. cbn [stops_step]. rewrite <- Hs. now apply trip_update_stops.
    + rewrite acct_snoc, <- Ha. unfold trip_update. rewrite I. reflexivity.
Qed.
Lemma step_ev_spec uid s evs f : tracks (fst s) evs ->
  let r := step_ev uid (s, evs) f in fst r = step_uid uid s f /\ tracks (fst (fst r)) (snd r).
Proof.
  intros H. unfold step_ev, step_uid. cbn [fst snd].
  destruct (upd_ev_tracks (jf_created f) (filter (concerns uid) (jf_trips f)) (fst s) evs H) as [E T]. cbv zeta in E, T.
  destruct (snd s && negb (negb (is_nil (filter (concerns uid) (jf_trips f))))); cbn [fst snd]; rewrite E in *; split; try reflexivity; try exact T.
  destruct (fold_left (upd1 (jf_created f)) (filter (concerns uid) (jf_trips f)) (fst s)) as [tr|]; cbn [option_map tracks] in *; [|exact T].
  destruct T as [T Ta]. split.
  - rewrite stops_of_snoc. cbn [stops_step jt_stops trip_mark_past]. now rewrite T.
  - rewrite acct_snoc, <- Ta. reflexivity.
Qed.
Lemma history_ev uid : forall feeds s evs, tracks (fst s) evs ->
  let r := fold_left (step_ev uid) feeds (s, evs) in fst r = fold_left (step_uid uid) feeds s /\ tracks (fst (fst r)) (snd r).
Proof.
  induction feeds as [|f feeds IH]; intros s evs H; cbn [fold_left]; [split; [reflexivity|exact H]|].
  destruct (step_ev_spec uid s evs f H) as [E T]. cbv zeta in E, T.
  destruct (step_ev uid (s, evs) f) as [s' evs'] eqn:R. cbn [fst snd] in *. subst s'. apply IH, T.
Qed.

(* the entry of a UID in the journal state after any history carries exactly the stop list of its events ... *)
Theorem journal_stops_are_event_stops uid feeds tr :
  alookup uid (st_trips (fold_left apply_feed feeds jinit)) = Some tr -> jt_stops tr = stops_of (events uid feeds).
Proof.
  intros L. pose proof (history_uid uid feeds jinit) as H. cbv zeta in H. cbn [jinit st_trips st_active alookup mem existsb] in H.
  destruct (history_ev uid feeds (None, false) [] eq_refl) as [E T]. cbv zeta in E, T. unfold events.
  rewrite <- H in E. rewrite L in E. destruct (fold_left (step_ev uid) feeds (None, false, [])) as [[o b] evs]. cbn [fst snd] in *.
  injection E as -> _. exact (proj1 T).
Qed.
Theorem journal_accounting uid feeds tr :
  alookup uid (st_trips (fold_left apply_feed feeds jinit)) = Some tr -> (jt_nupd tr, jt_last tr, jt_marked tr) = acct (events uid feeds).
Proof.
  intros L. pose proof (history_uid uid feeds jinit) as H. cbv zeta in H. cbn [jinit st_trips st_active alookup mem existsb] in H.
  destruct (history_ev uid feeds (None, false) [] eq_refl) as [E T]. cbv zeta in E, T. unfold events.
  rewrite <- H in E. rewrite L in E. destruct (fold_left (step_ev uid) feeds (None, false, [])) as [[o b] evs]. cbn [fst snd] in *.
  injection E as -> _. exact (proj2 T).
Qed.
(* what acct computes, read off the event list: with the last applied update at time t followed only by vanishings *)
Definition is_vanish (e : ev) : Prop := match e with EvVanish _ => True | EvUpdate _ _ => False end.
Definition n_updates (evs : list ev) : Z := Z.of_nat (List.length (filter (fun e => match e with EvUpdate _ _ => true | EvVanish _ => false end) evs)).
Lemma acct_count : forall evs a, fst (fst (fold_left acct_step evs a)) = fst (fst a) + n_updates evs.
Proof.
  unfold n_updates. induction evs as [|e evs IH]; intros [[n l] m]; cbn [fold_left filter]; [cbn; lia|].
  rewrite IH. destruct e; cbn [acct_step fst List.length]; lia.
Qed.
Lemma acct_vanishings : forall post n l m, Forall is_vanish post ->
  fold_left acct_step post (n, l, m) = (n, l, match m with Some x => Some x | None => match post with [] => None | v :: _ => Some (ev_time v) end end).
Proof.
  induction post as [|v post IH]; intros n l m H; cbn [fold_left]; [now destruct m|].
  inversion H as [|? ? Hv Hp]; subst. destruct v as [|tv]; [destruct Hv|]. cbn [acct_step]. rewrite IH by exact Hp. destruct m; reflexivity.
Qed.
Theorem acct_spec pre us t post : Forall is_vanish post ->
  acct (pre ++ EvUpdate us t :: post) = (n_updates (pre ++ EvUpdate us t :: post), t, match post with [] => None | v :: _ => Some (ev_time v) end).
Proof.
  intros H. pose proof (acct_count (pre ++ EvUpdate us t :: post) (jt_nupd new_trip, jt_last new_trip, jt_marked new_trip)) as C.
  fold (acct (pre ++ EvUpdate us t :: post)) in C. cbn [fst jt_nupd new_trip] in C.
  unfold acct in *. rewrite fold_left_app in *. cbn [fold_left] in *.
  destruct (fold_left acct_step pre (jt_nupd new_trip, jt_last new_trip, jt_marked new_trip)) as [[n l] m]. cbn [acct_step] in *.
  rewrite acct_vanishings in * by exact H. cbn [fst] in C. f_equal. f_equal. lia.
Qed.
(* ... hence every entry is accounted for by one event, marked with the time of the next one *)
Theorem journal_entries_born uid feeds tr :
  alookup uid (st_trips (fold_left apply_feed feeds jinit)) = Some tr -> Forall (born (events uid feeds)) (jt_stops tr).
Proof. intros L. rewrite (journal_stops_are_event_stops uid feeds tr L). apply entries_born. Qed.
