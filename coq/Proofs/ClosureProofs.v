(* Proofs/ClosureProofs.v — C03 at the level of the whole result: whatever the tables (any provider, any rows, any oracles),
   every reference held by a result of ParseStatic points inside the result's own collections. *)
From Coq Require Import Permutation.
From GV Require Import Base.Prelude Base.Dec Base.Sort Model.Csv Model.Realtime Model.Static Proofs.StaticProofs.

Definition in_range {A} (l : list A) (o : option nat) : Prop := match o with Some p => (p < List.length l)%nat | None => True end.
Definition trip_closed (routes : list route) (services : list service) (shapes : list shape) (stops : list stop) (t : strip) : Prop :=
  (tp_route t < List.length routes)%nat /\ (tp_service t < List.length services)%nat /\ in_range shapes (tp_shape t) /\
  Forall (fun st => (st_stop st < List.length stops)%nat) (tp_stop_times t).
Definition closed (r : static) : Prop :=
  Forall (fun rt => (r_agency rt < List.length (x_agencies r))%nat) (x_routes r) /\
  Forall (fun s => in_range (x_stops r) (s_parent s)) (x_stops r) /\
  Forall (fun t => (t_from t < List.length (x_stops r))%nat /\ (t_to t < List.length (x_stops r))%nat) (x_transfers r) /\
  Forall (trip_closed (x_routes r) (x_services r) (x_shapes r) (x_stops r)) (x_trips r).

Lemma Forall_filter_map {A B} (f : A -> option B) (P : B -> Prop) l : (forall a b, f a = Some b -> P b) -> Forall P (filter_map f l).
Proof.
  intros H. unfold filter_map. apply Forall_forall. intros b Hb. apply in_flat_map in Hb as [a [_ Hb]].
  destruct (f a) eqn:E; [|destruct Hb]. destruct Hb as [<-|[]]. eapply H; eauto.
Qed.
Lemma nth_error_lt {A} (l : list A) i x : nth_error l i = Some x -> (i < List.length l)%nat.
Proof. intros H. apply nth_error_Some. congruence. Qed.
Lemma Forall_set_nth {A} (P : A -> Prop) i x l : P x -> Forall P l -> Forall P (set_nth i x l).
Proof. intros Hx H. revert i. induction H as [|y l Hy Hl IH]; intros [|i]; cbn; constructor; auto. Qed.

Section WithOracles.
Variable pf : string -> option Z.
Variable di : string -> string -> option Z.

Lemma routes_closed ags hdr rows : Forall (fun rt => (r_agency rt < List.length ags)%nat) (parse_routes ags hdr rows).
Proof.
  unfold parse_routes. destruct (has_columns _ _); [|constructor]. apply Forall_filter_map. intros cells r H.
  destruct (route_ref_sound _ _ _ H) as [a [Ha _]]. eapply nth_error_lt; eauto.
Qed.
Lemma transfers_closed stops hdr rows : Forall (fun t => (t_from t < List.length stops)%nat /\ (t_to t < List.length stops)%nat) (parse_transfers stops hdr rows).
Proof.
  unfold parse_transfers. destruct (has_columns _ _); [|constructor]. apply Forall_filter_map. intros cells t H.
  destruct (transfer_ref_sound _ _ _ H) as (a & b & Ha & Hb & _). split; eapply nth_error_lt; eauto.
Qed.
Lemma trips_closed routes services shapes stops hdr rows :
  Forall (trip_closed routes services shapes stops) (parse_trips routes services shapes hdr rows).
Proof.
  unfold parse_trips. destruct (has_columns _ _); [|constructor]. apply Forall_filter_map. intros cells t H.
  pose proof H as H0. destruct (trip_ref_sound _ _ _ _ _ H) as (r & s & Hr & Hs & _ & _ & Hsh). unfold trip_closed.
  repeat split; try (eapply nth_error_lt; eauto).
  - destruct (tp_shape t); [|exact I]. destruct Hsh as [sh [Hsh _]]. cbn. eapply nth_error_lt; eauto.
  - unfold trip_row in H0. destruct (required _ "route_id"), (required _ "service_id"), (required _ "trip_id").
    destruct (_ || _); [discriminate|]. destruct (find_last_index _ routes 0 None); [|discriminate].
    destruct (find_last_index _ services 0 None); [|discriminate]. inversion H0; subst. constructor.
Qed.
Lemma upd_trip_forall (P : strip -> Prop) ts i f : (forall t, P t -> P (f t)) -> Forall P ts -> Forall P (upd_trip ts i f).
Proof.
  intros Hf H. unfold upd_trip. destruct (nth_error ts i) as [t|] eqn:E; [|exact H]. apply Forall_set_nth; [|exact H].
  apply Hf. rewrite Forall_forall in H. apply H. eapply nth_error_In; eauto.
Qed.
Lemma frequencies_closed routes services shapes stops trips hdr rows :
  Forall (trip_closed routes services shapes stops) trips -> Forall (trip_closed routes services shapes stops) (parse_frequencies trips hdr rows).
Proof.
  intros H. unfold parse_frequencies. destruct (has_columns _ _); [|exact H]. revert trips H.
  induction rows as [|r rows IH]; intros trips H; cbn [fold_left]; [exact H|]. apply IH. unfold frequency_row.
  destruct (required _ "trip_id"), (required _ "start_time"), (required _ "end_time"), (required _ "headway_secs").
  destruct (_ || _); [exact H|]. destruct (find_last_index _ trips 0 None); [|exact H].
  destruct (parse_int32 _); [|exact H]. destruct (parse_gtfs_time _); [|exact H]. destruct (parse_gtfs_time _); [|exact H].
  apply upd_trip_forall; [|exact H]. intros t Ht. exact Ht.
Qed.
Lemma stop_time_row_closed routes services shapes stops trips v :
  Forall (trip_closed routes services shapes stops) trips -> Forall (trip_closed routes services shapes stops) (stop_time_row pf stops trips v).
Proof.
  intros H. unfold stop_time_row. destruct (fill_times _ _) as [[arr dep]|]; [|exact H].
  destruct (required v "stop_sequence") as [sq m1]. destruct (atoi sq); [|exact H].
  destruct (required v "stop_id") as [sid m2]. destruct (required v "trip_id") as [tid m3]. destruct (_ || _); [exact H|].
  destruct (find_last_index _ stops 0 None) as [si|] eqn:Es; [|exact H]. destruct (find_last_index _ trips 0 None); [|exact H].
  apply upd_trip_forall; [|exact H]. intros t (A & B & C & D). repeat split; auto. cbn. apply Forall_app; split; [exact D|].
  constructor; [|constructor]. cbn. apply find_last_index_spec in Es. tauto.
Qed.
Lemma stop_times_closed routes services shapes stops trips hdr rows :
  Forall (trip_closed routes services shapes stops) trips -> Forall (trip_closed routes services shapes stops) (parse_stop_times pf stops trips hdr rows).
Proof.
  intros H. unfold parse_stop_times. destruct (has_columns _ _); [|exact H].
  assert (F : Forall (trip_closed routes services shapes stops) (fold_left (fun ts cells => stop_time_row pf stops ts (view hdr cells)) rows trips)).
  { revert trips H. induction rows as [|r rows IH]; intros trips H; cbn [fold_left]; [exact H|]. apply IH, stop_time_row_closed, H. }
  revert F. generalize (fold_left (fun ts cells => stop_time_row pf stops ts (view hdr cells)) rows trips) as filled. intros filled.
  generalize (id_to_trip filled) as ids. intros ids. revert filled.
  induction ids as [|ki ids IH]; intros filled F; cbn [fold_left]; [exact F|]. apply IH. apply upd_trip_forall; [|exact F].
  intros t (A & B & C & D). repeat split; auto. cbn. rewrite Forall_forall in *. intros st Hst.
  apply D. eapply Permutation_in; [apply isort_perm|exact Hst].
Qed.

(* stops: the parent graph after linking and cycle breaking only holds indices of the stop list itself *)
Definition graph_in_range (n : nat) (g : graph) : Prop := Forall (fun o => match o with Some p => (p < n)%nat | None => True end) g.
Lemma repair_in_range n g : graph_in_range n g -> graph_in_range n (repair g).
Proof.
  intros H. unfold repair. generalize (seq 0 (List.length g)) as todo. generalize (S (List.length g)) as F. intros F todo. revert g H.
  induction todo as [|i todo IH]; intros g H; cbn [fold_left]; [exact H|]. apply IH. unfold examine. destruct (walk F g i); [exact H|].
  unfold cut. apply Forall_set_nth; [exact I|exact H].
Qed.
Lemma find_last_index_range {A} (p : A -> bool) l j : find_last_index p l 0 None = Some j -> (j < List.length l)%nat.
Proof. intros H. apply find_last_index_spec in H. tauto. Qed.
Lemma link_parents_length sp : List.length (link_parents sp) = List.length sp.
Proof. unfold link_parents. rewrite map_length. destruct (enum_from_nth (map fst sp) 0) as [_ E].
  rewrite <- (map_length fst (enum_from 0 (map fst sp))), E, seq_length, map_length. reflexivity. Qed.
Lemma link_parents_closed sp : Forall (fun s => in_range (link_parents sp) (s_parent s)) (link_parents sp).
Proof.
  assert (G : graph_in_range (List.length sp) (map s_parent (link_parents sp))).
  { rewrite link_parents_parents. apply repair_in_range. unfold graph_in_range. apply Forall_forall. intros o Ho.
    apply in_map_iff in Ho as [[s pid] [<- _]]. cbn. destruct pid; [exact I|].
    match goal with |- match ?x with _ => _ end => destruct x eqn:E end; [|exact I].
    apply find_last_index_range in E. now rewrite map_length in E. }
  unfold graph_in_range in G. rewrite Forall_forall in *. intros s Hs. unfold in_range. rewrite link_parents_length.
  apply (G (s_parent s)). now apply in_map.
Qed.
Lemma inherit_wheelchair_parents stops : map s_parent (inherit_wheelchair stops) = map s_parent stops /\ List.length (inherit_wheelchair stops) = List.length stops.
Proof.
  unfold inherit_wheelchair. generalize (seq 0 (List.length stops)) as idx. intros idx.
  assert (G : forall idx acc, map s_parent (fold_left (fun acc i =>
    match nth_error acc i with
    | Some s => match s_parent s with
                | Some p => match nth_error acc p with
                            | Some ps => if (s_type ps =? Gen.Enums.StopType_Station) && (s_wheelchair s =? Gen.Enums.WheelchairBoarding_NotSpecified)
                                         then set_nth i (set_wheelchair s (s_wheelchair ps)) acc else acc
                            | None => acc end
                | None => acc end
    | None => acc end) idx acc) = map s_parent acc).
  { induction idx0 as [|i idx0 IH]; intros acc; cbn [fold_left]; [reflexivity|]. rewrite IH.
    destruct (nth_error acc i) as [s|] eqn:E; [|reflexivity]. destruct (s_parent s) as [p|] eqn:Ep; [|reflexivity].
    destruct (nth_error acc p); [|reflexivity]. destruct (_ && _); [|reflexivity].
    clear - E Ep. revert i E. induction acc as [|x acc IHa]; intros [|i] E; cbn in *; try discriminate.
    - inversion E; subst. cbn. now rewrite Ep.
    - f_equal. now apply IHa. }
  split; [apply G|]. rewrite <- (map_length s_parent), G, map_length. reflexivity.
Qed.
Lemma stops_closed inherit hdr rows : Forall (fun s => in_range (parse_stops pf inherit hdr rows) (s_parent s)) (parse_stops pf inherit hdr rows).
Proof.
  unfold parse_stops. destruct (has_columns _ _); [|constructor].
  set (linked := link_parents _). pose proof (link_parents_closed (filter_map (fun cells => stop_row pf (view hdr cells)) rows)) as H. fold linked in H.
  destruct inherit; [|exact H]. destruct (inherit_wheelchair_parents linked) as [Em El].
  rewrite Forall_forall in *. intros s Hs. unfold in_range in *. rewrite El.
  assert (Hin : In (s_parent s) (map s_parent linked)) by (rewrite <- Em; now apply in_map).
  apply in_map_iff in Hin as [s0 [E0 H0]]. rewrite <- E0. now apply H.
Qed.

Theorem result_closed inherit tbl r : parse_tables pf di inherit tbl = Ok r -> closed r.
Proof.
  unfold parse_tables, parse_tables_gen.
  destruct (tbl "agency.txt" _) as [| |h1 r1]; try discriminate. destruct (parse_agencies h1 r1) as [agencies warns].
  destruct (tbl "routes.txt" _) as [| |h2 r2]; try discriminate.
  destruct (tbl "stops.txt" _) as [| |h3 r3]; try discriminate.
  destruct (tbl "transfers.txt" _) as [| |h4 r4] eqn:E4; try discriminate;
  destruct (tbl "calendar.txt" _) as [| |h5 r5] eqn:E5; try discriminate;
  destruct (tbl "calendar_dates.txt" _) as [| |h6 r6] eqn:E6; try discriminate;
  destruct (tbl "shapes.txt" _) as [| |h7 r7] eqn:E7; try discriminate;
  destruct (tbl "trips.txt" _) as [| |h8 r8]; try discriminate;
  destruct (tbl "frequencies.txt" _) as [| |h9 r9] eqn:E9; try discriminate;
  destruct (tbl "stop_times.txt" _) as [| |h10 r10]; try discriminate;
  intros H; inversion H; subst; clear H; unfold closed; cbn [x_agencies x_routes x_stops x_transfers x_trips x_services x_shapes];
  (split; [apply routes_closed|split; [apply stops_closed|split; [first [apply transfers_closed|constructor]|]]]);
  apply stop_times_closed; try apply frequencies_closed; apply trips_closed.
Qed.
End WithOracles.
