(* Proofs/SafetyProofs.v — C05: every guarded fragment of Model/Safety.v returns, for every input, exactly what the total
   model function returns (so it never panics and never runs out of fuel); the unguarded variants panic on witnesses. *)
From GV Require Import Base.Prelude Base.Dec Model.Csv Model.Realtime Model.Static Model.Journal Model.Safety
  Proofs.RealtimeProofs Proofs.StaticProofs Proofs.JournalProofs Gen.NyctTables.

(* ---------- the CSV reader hands out rows of the header's length only ---------- *)
Definition uni (n : option nat) (acc : list row) : Prop :=
  match n with None => acc = [] | Some k => Forall (fun r => List.length r = k) acc end.
Lemma push_rec_uni n r acc n' acc' : uni n acc -> push_rec n r acc = Some (n', acc') -> uni n' acc'.
Proof.
  unfold push_rec. destruct n as [k|]; cbn.
  - destruct (Nat.eqb_spec k (List.length r)); intros H E; inversion E; subst. constructor; auto.
  - intros -> E. inversion E; subst. cbn. repeat constructor.
Qed.
Lemma go_uniform : forall inp s n fld rc acc rows, uni n acc -> go s n fld rc acc inp = ROk rows ->
  exists k, Forall (fun r => List.length r = k) rows.
Proof.
  assert (Fin : forall n acc, uni n acc -> exists k, Forall (fun r : row => List.length r = k) (rev acc)).
  { intros [k|] acc H; cbn in H; [exists k; now apply Forall_rev|subst; exists 0%nat; constructor]. }
  induction inp as [|c inp IH]; intros s n fld rc acc rows U H.
  - cbn in H. destruct s; try discriminate;
      try (destruct (push_rec n _ acc) as [[n' acc']|] eqn:E; [|discriminate]; inversion H; subst; eapply Fin, push_rec_uni; eauto).
    inversion H; subst. eapply Fin; eauto.
  - cbn [go] in H. destruct s;
      repeat (match type of H with context [if ?b then _ else _] => destruct b end);
      try discriminate;
      try (destruct (push_rec n _ acc) as [[n' acc']|] eqn:E; [|discriminate]; eapply IH; [eapply push_rec_uni; eauto|exact H]);
      try (eapply IH; [exact U|exact H]).
Qed.
Theorem rows_have_header_length bytes hdr rows : read_all_s bytes = Some (hdr :: rows) ->
  Forall (fun r => List.length r = List.length hdr) rows.
Proof.
  unfold read_all_s, read_all, tokenize. destruct (go _ _ _ _ _ _) as [rs|] eqn:E; [|discriminate]. intros H. inversion H as [H1].
  destruct (go_uniform _ _ _ _ _ _ _ (eq_refl : uni None []) E) as [k Hk].
  destruct rs as [|h rs]; [discriminate|]. cbn in H1. inversion H1; subst. inversion Hk as [|? ? Hh Hr]; subst.
  rewrite map_length. apply Forall_forall. intros r Hin. apply in_map_iff in Hin as [r0 [<- Hin]]. rewrite map_length.
  rewrite Forall_forall in Hr. now apply Hr.
Qed.

(* ---------- csv readers ---------- *)
Lemma index_nth {A} site (l : list A) i d : (i < List.length l)%nat -> index site l i = Ok (nth i l d).
Proof. intros H. unfold index. destruct (nth_error l i) eqn:E; [now rewrite (nth_error_nth _ _ d E)|]. apply nth_error_None in E. lia. Qed.
Lemma header_index_lt hdr c i : header_index hdr c = Some i -> (i < List.length hdr)%nat.
Proof.
  unfold header_index. assert (G : forall h k j, header_map_from k h c = Some j -> (k <= j < k + List.length h)%nat).
  { induction h as [|x h IH]; intros k j; cbn; [discriminate|]. destruct (header_map_from (S k) h c) eqn:E.
    - intros H; inversion H; subst. apply IH in E. lia.
    - destruct (String.eqb x c); [|discriminate]. intros H; inversion H; subst. lia. }
  intros H. apply G in H. lia.
Qed.
(* the required columns were checked present before any row is read (MissingRequiredColumns); rows have the header's length *)
Theorem required_read_safe hdr cells c : header_index hdr c <> None ->
  required_read_m cells (col_index hdr c) = Ok (required (view hdr cells) c).
Proof.
  intros Hp. unfold required_read_m, col_index, required, view. destruct (header_index hdr c) as [i|] eqn:E; [|congruence]. cbn.
  destruct (Z.leb_spec (Z.of_nat (List.length cells)) (Z.of_nat i)).
  - rewrite nth_overflow by lia. reflexivity.
  - unfold go_index. destruct (Z.ltb_spec (Z.of_nat i) 0); [lia|]. rewrite Nat2Z.id, (index_nth _ _ _ "") by lia. cbn.
    destruct (nth i cells "") eqn:En; reflexivity.
Qed.
Theorem optional_read_safe hdr cells c : List.length cells = List.length hdr ->
  optional_read_m cells (col_index hdr c) = Ok (optional (view hdr cells) c).
Proof.
  intros Hl. unfold optional_read_m, col_index, optional, view. destruct (header_index hdr c) as [i|] eqn:E; cbn; [|reflexivity].
  destruct (Z.ltb_spec (Z.of_nat i) 0); [lia|]. unfold go_index. destruct (Z.ltb_spec (Z.of_nat i) 0); [lia|].
  apply header_index_lt in E. rewrite Nat2Z.id, (index_nth _ _ _ "") by lia. reflexivity.
Qed.
Theorem read_or_safe hdr cells c d : List.length cells = List.length hdr ->
  read_or_m cells (col_index hdr c) d = Ok (read_or (view hdr cells) c d).
Proof.
  intros Hl. unfold read_or_m, col_index, read_or, view. destruct (header_index hdr c) as [i|] eqn:E; cbn; [|reflexivity].
  destruct (Z.ltb_spec (Z.of_nat i) 0); [lia|]. unfold go_index. destruct (Z.ltb_spec (Z.of_nat i) 0); [lia|].
  apply header_index_lt in E. rewrite Nat2Z.id, (index_nth _ _ _ "") by lia. cbn. destruct (nth i cells ""); reflexivity.
Qed.
(* without the check before the loop, a missing required column indexes cells[-1] *)
Theorem required_read_unguarded_panics hdr cells c : header_index hdr c = None -> is_panic (required_read_m cells (col_index hdr c)) = true.
Proof. intros E. unfold required_read_m, col_index. rewrite E. destruct (Z.leb_spec (Z.of_nat (List.length cells)) (-1)); [lia|]. reflexivity. Qed.

(* ---------- static row loops ---------- *)
Theorem stop_time_target_safe trips tid : stop_time_target_m trips tid = Ok (find_last_index (fun t => String.eqb (tp_id t) tid) trips 0 None).
Proof.
  unfold stop_time_target_m. destruct (find_last_index _ trips 0 None) as [ti|] eqn:E; [|reflexivity].
  apply find_last_index_spec in E as [Hlt [x [Hx _]]]. unfold index. now rewrite Hx.
Qed.
Theorem shape_numbers_safe lat lon sq : shape_numbers_m lat lon sq =
  Ok (match lat, lon, sq with Some a, Some b, Some c => Some (a, b, c) | _, _, _ => None end).
Proof. destruct lat, lon, sq; reflexivity. Qed.
Theorem sole_agency_safe agencies : sole_agency_m agencies = Ok (match agencies with [_] => Some 0%nat | _ => None end).
Proof. destruct agencies as [|a [|b r]]; reflexivity. Qed.
Theorem first_zone_safe agencies : first_zone_m agencies = Ok (first_zone agencies).
Proof. destruct agencies; reflexivity. Qed.
(* walking to the root of any stop of any parsed stops.txt terminates within length+1 steps *)
Theorem root_safe sp i : (i < List.length sp)%nat -> exists r, root_m (S (List.length sp)) (link_parents sp) i = Ok r.
Proof. intros H. destruct (root_terminates_after_link sp i H) as [r Hr]. exists r. unfold root_m. now rewrite Hr. Qed.

(* ---------- extensions ---------- *)
Lemma string_len4 s : String.length s = 4%nat -> exists a b c d, s = String a (String b (String c (String d EmptyString))).
Proof. destruct s as [|a [|b [|c [|d [|e s]]]]]; cbn; try discriminate. intros _. eauto. Qed.
Theorem mswap_stop_safe s : mswap_stop_m s = Ok (mswap_stop s).
Proof.
  unfold mswap_stop_m, mswap_stop. remember buggy_station_ids as B eqn:HB. clear HB.
  destruct (Nat.eqb_spec (String.length s) 4) as [E|N]; cbn.
  - destruct (string_len4 s E) as (a & b & c & d & ->). cbn.
    destruct (existsb _ B); cbn; [|reflexivity]. destruct (Ascii.eqb d "N"); [reflexivity|]. destruct (Ascii.eqb d "S"); reflexivity.
  - destruct s as [|a [|b [|c [|d [|e s]]]]]; cbn in *; try reflexivity. congruence.
Qed.
Theorem first_update_safe {A} (stus : list A) : first_update_m stus = Ok (match stus with [] => None | u :: _ => Some u end).
Proof. destruct stus; reflexivity. Qed.
Lemma last_index_le c : forall l i best j, last_index c l i best = Some j -> (match best with Some b => (b < i)%nat | None => True end) -> (j < i + List.length l)%nat.
Proof.
  induction l as [|a l IH]; intros i best j; cbn.
  - intros -> H. lia.
  - intros H Hb. apply IH in H; [lia|]. destruct (Ascii.eqb a c); [lia|]. destruct best; [lia|exact I].
Qed.
Theorem priority_suffix_safe so : exists r, priority_suffix_m so = Ok r.
Proof.
  unfold priority_suffix_m. destruct (last_index ":" (la so) 0 None) as [i|] eqn:E; [|eauto].
  apply last_index_le in E; [|exact I]. unfold go_str_from.
  assert (L : List.length (la so) = String.length so). { unfold la. clear. induction so; cbn; auto. }
  destruct (Nat.ltb_spec (String.length so) (S i)); [lia|]. cbn. eauto.
Qed.

(* ---------- journal ---------- *)
Theorem uid_safe u : uid_m u = Ok (if (String.length (ut_id u) <? 6)%nat then None else Some (uid_of u)).
Proof. unfold uid_m, go_str_from, uid_of. destruct (String.length (ut_id u) <? 6)%nat eqn:E; reflexivity. Qed.
Theorem uid_unguarded_panics : is_panic (uid_unguarded {| ut_id := "abc"; ut_route := ""; ut_dir := 0; ut_date := 0; ut_time := 0; ut_vehicle := None; ut_stops := [] |}) = true.
Proof. reflexivity. Qed.
Theorem stop_id_safe u : stop_id_m u = Ok (stop_id_or_empty u).
Proof. unfold stop_id_m, stop_id_or_empty. destruct (us_stop u); reflexivity. Qed.
Theorem stop_id_unguarded_panics : is_panic (stop_id_unguarded {| us_stop := None; us_arr := None; us_dep := None; us_track := None |}) = true.
Proof. reflexivity. Qed.
Theorem stop_time_target_unguarded_panics : is_panic (stop_time_target_unguarded [] "ghost") = true.
Proof. reflexivity. Qed.
Theorem shape_numbers_unguarded_panics : is_panic (shape_numbers_unguarded None (Some 1) (Some 1)) = true.
Proof. reflexivity. Qed.

(* BuildJournal: every UID in activeTrips is a key of trips, so trips[tripUID] is never nil when a vanished trip is marked *)
Definition has_key {A} (k : string) (l : list (string * A)) : Prop := alookup k l <> None.
Lemma has_key_aset {A} k k' (v : A) l : has_key k (aset k' v l) <-> k = k' \/ has_key k l.
Proof.
  unfold has_key. destruct (string_dec k' k) as [->|N].
  - rewrite alookup_aset_same. split; [now left|discriminate].
  - rewrite (alookup_aset_other _ _ _ _ N). split; [now right|]. intros [E|H]; [congruence|exact H].
Qed.
Lemma has_key_amap {A} k k' (f : A -> A) l : has_key k (amap k' f l) <-> has_key k l.
Proof.
  unfold has_key, amap. induction l as [|[k2 v] l IH]; cbn; [tauto|].
  destruct (String.eqb k' k2); cbn; destruct (String.eqb k k2); try tauto; split; discriminate.
Qed.
Definition act_inv (st : jstate) : Prop := forall uid, In uid (st_active st) -> has_key uid (st_trips st).
Lemma fold_apply_trip_keys t us : forall trips na,
  let r := fold_left (apply_trip t) us (trips, na) in
  (forall k, has_key k trips -> has_key k (fst r)) /\ (forall k, In k (snd r) -> In k na \/ has_key k (fst r)).
Proof.
  induction us as [|u us IH]; intros trips na; cbn [fold_left]; [split; auto|].
  destruct (apply_trip t (trips, na) u) as [trips' na'] eqn:E. specialize (IH trips' na'). cbn zeta in *. destruct IH as [I1 I2].
  unfold apply_trip in E. destruct (String.length (ut_id u) <? 6)%nat; inversion E; subst; clear E; [split; assumption|]. split.
  - intros k Hk. apply I1. apply has_key_aset. now right.
  - intros k Hk. destruct (I2 k Hk) as [[<-|H]|H]; auto. right. apply I1. apply has_key_aset. now left.
Qed.
Lemma mark_gone_ok t gone : forall trips, (forall uid, In uid gone -> has_key uid trips) ->
  mark_gone_m t trips gone = Ok (fold_left (fun tr uid => amap uid (trip_mark_past t) tr) gone trips).
Proof.
  unfold mark_gone_m. induction gone as [|uid gone IH]; intros trips H; cbn [fold_left]; [reflexivity|].
  cbn. destruct (alookup uid trips) eqn:E; [|exfalso; apply (H uid (or_introl eq_refl)); exact E]. cbn.
  apply IH. intros k Hk. apply has_key_amap. apply H. now right.
Qed.
Lemma fold_amap_keys t gone : forall (trips : list (string * j_trip)) k,
  has_key k (fold_left (fun tr uid => amap uid (trip_mark_past t) tr) gone trips) <-> has_key k trips.
Proof. induction gone as [|g gone IH]; intros trips k; cbn [fold_left]; [tauto|]. rewrite IH. apply has_key_amap. Qed.
Theorem apply_feed_safe st f : act_inv st -> apply_feed_m st f = Ok (apply_feed st f) /\ act_inv (apply_feed st f).
Proof.
  intros Hinv. unfold apply_feed_m, apply_feed.
  pose proof (fold_apply_trip_keys (jf_created f) (jf_trips f) (st_trips st) []) as K. cbn zeta in K.
  destruct (fold_left (apply_trip (jf_created f)) (jf_trips f) (st_trips st, [])) as [trips na]. cbn [fst snd] in K. destruct K as [K1 K2].
  rewrite mark_gone_ok.
  - split; [reflexivity|]. intros uid Hu. cbn in *. apply fold_amap_keys. destruct (K2 uid Hu) as [[]|H]; exact H.
  - intros uid Hu. apply filter_In in Hu as [Hu _]. apply K1, Hinv, Hu.
Qed.
Theorem run_feeds_safe feeds : run_feeds_m feeds = Ok (fold_left apply_feed feeds jinit).
Proof.
  unfold run_feeds_m.
  assert (G : forall fs st, act_inv st -> fold_left (fun acc f => do st <- acc; apply_feed_m st f) fs (Ok st) = Ok (fold_left apply_feed fs st)).
  { induction fs as [|f fs IH]; intros st H; cbn [fold_left]; [reflexivity|]. cbn [obind].
    destruct (apply_feed_safe st f H) as [E H']. rewrite E. now apply IH. }
  apply G. intros uid [].
Qed.
(* the unguarded loop of a journal that forgot to record a trip (seen only as a reference) panics when the trip vanishes *)
Theorem mark_gone_missing_entry_panics : is_panic (mark_gone_m 5 [] ["100x"]) = true.
Proof. reflexivity. Qed.

Lemma skipn_nth_cons {A} (e : A) : forall L n, nth_error L n = Some e -> skipn n L = e :: skipn (S n) L.
Proof. induction L as [|x L IH]; intros [|n] E; cbn in *; try discriminate; [now inversion E|]. rewrite (IH n E). reflexivity. Qed.
(* createPartition's index arithmetic stays inside both slices *)
Theorem run_len_safe L k : forall us i, (k + i <= List.length L)%nat -> run_len_m L k us i = Ok (run_len (skipn (k + i) L) us).
Proof.
  induction us as [|u us IH]; intros i Hle; cbn [run_len_m].
  - destruct (skipn (k + i) L); reflexivity.
  - destruct (Nat.leb_spec (List.length L) (k + i)).
    + rewrite skipn_all2 by lia. reflexivity.
    + unfold go_index. destruct (Z.ltb_spec (Z.of_nat (k + i)) 0); [lia|]. rewrite Nat2Z.id.
      destruct (nth_error L (k + i)) as [e|] eqn:E; [|apply nth_error_None in E; lia].
      unfold index. rewrite E. cbn [obind]. rewrite stop_id_safe. cbn [obind].
      assert (S : skipn (k + i) L = e :: skipn (k + S i) L).
      { replace (k + S i)%nat with (S (k + i)) by lia. apply skipn_nth_cons, E. }
      rewrite S. cbn [run_len]. destruct (String.eqb (js_stop e) (stop_id_or_empty u)); [|reflexivity].
      rewrite IH by lia. reflexivity.
Qed.
