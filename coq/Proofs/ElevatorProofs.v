(* Proofs/ElevatorProofs.v — C17, the grouping clause, for EVERY message and every policy / flag setting: after the extension
   pass, each elevator group (the entities whose ids map to the same new id under the policy) has exactly one entity that is
   not skipped - the first member in feed order - carrying the group's new id, cause MAINTENANCE, effect ACCESSIBILITY_ISSUE
   and, as informed entities, exactly one stop selector per DISTINCT informed id of the group's members; every other member
   is skipped.  The set of informed stops does not depend on the order of the members. *)
From GV Require Import Base.Prelude Base.Dec Model.RtTypes Model.RtWire Model.Realtime Proofs.RealtimeProofs Gen.NyctTables.

(* ---------- first-occurrence de-duplication ---------- *)
Definition add_new (acc : list string) (x : string) : list string := if existsb (String.eqb x) acc then acc else acc ++ [x].
Definition dedup (l : list string) : list string := fold_left add_new l [].
Lemma existsb_eqb_in x l : existsb (String.eqb x) l = true <-> In x l.
Proof. rewrite existsb_exists. split; [intros [z [Hz Ez]]; apply String.eqb_eq in Ez; now subst|intros H; exists x; split; [exact H|apply String.eqb_refl]]. Qed.
Lemma add_new_in acc x y : In y (add_new acc x) <-> In y acc \/ y = x.
Proof.
  unfold add_new. destruct (existsb (String.eqb x) acc) eqn:E.
  - apply existsb_eqb_in in E. split; [tauto|]. intros [H|H]; [exact H|now subst].
  - rewrite in_app_iff. cbn. intuition.
Qed.
Lemma NoDup_snoc {A} (l : list A) x : NoDup l -> ~ In x l -> NoDup (l ++ [x]).
Proof. induction l as [|a l IH]; cbn; intros H N; [constructor; [intros []|constructor]|]. inversion H; subst. constructor; [rewrite in_app_iff; cbn; intuition|apply IH; tauto]. Qed.
Lemma add_new_nodup acc x : NoDup acc -> NoDup (add_new acc x).
Proof. intros H. unfold add_new. destruct (existsb (String.eqb x) acc) eqn:E; [exact H|]. apply NoDup_snoc; [exact H|]. intros Hin. apply existsb_eqb_in in Hin. congruence. Qed.
Lemma fold_add_new l : forall acc, NoDup acc -> NoDup (fold_left add_new l acc) /\ forall y, In y (fold_left add_new l acc) <-> In y acc \/ In y l.
Proof.
  induction l as [|x l IH]; intros acc H; cbn [fold_left]; [split; [exact H|intros y; cbn; tauto]|].
  destruct (IH (add_new acc x) (add_new_nodup acc x H)) as [N I]. split; [exact N|]. intros y. rewrite I, add_new_in. cbn. intuition.
Qed.
(* the distinct elements, each once: independent of the order of the list as a SET *)
Theorem dedup_spec l : NoDup (dedup l) /\ forall y, In y (dedup l) <-> In y l.
Proof. destruct (fold_add_new l [] (NoDup_nil _)) as [N I]. split; [exact N|]. intros y. rewrite (I y). cbn. tauto. Qed.
Lemma alookup_aset_eq' {A} k k' (v : A) m : alookup k (aset k' v m) = if String.eqb k' k then Some v else alookup k m.
Proof. destruct (String.eqb_spec k' k) as [->|N]; [apply alookup_aset_same|now apply alookup_aset_other]. Qed.
Lemma dedup_snoc l x : dedup (l ++ [x]) = add_new (dedup l) x.
Proof. unfold dedup. now rewrite fold_left_app. Qed.

(* ---------- set_nth ---------- *)
Lemma sn_other {A} i j (x : A) : forall l, j <> i -> nth_error (set_nth i x l) j = nth_error l j.
Proof. revert i j. induction i as [|i IH]; intros [|j] [|y l] N; cbn; try reflexivity; try congruence. apply IH. congruence. Qed.
Lemma sn_same {A} i (x : A) : forall l, (i < List.length l)%nat -> nth_error (set_nth i x l) i = Some x.
Proof. induction i as [|i IH]; intros [|y l] H; cbn in *; try lia; [reflexivity|]. apply IH. lia. Qed.
Lemma sb_other i j (x : bool) : forall l, j <> i -> nth j (set_nth i x l) false = nth j l false.
Proof. revert i j. induction i as [|i IH]; intros [|j] [|y l] N; cbn; try reflexivity; try congruence. apply IH. congruence. Qed.
Lemma sb_same i (x : bool) : forall l, (i < List.length l)%nat -> nth i (set_nth i x l) false = x.
Proof. induction i as [|i IH]; intros [|y l] H; cbn in *; try lia; [reflexivity|]. apply IH. lia. Qed.
Lemma sn_len {A} i (x : A) : forall l, List.length (set_nth i x l) = List.length l.
Proof. induction i as [|i IH]; intros [|y l]; cbn; auto. Qed.

(* ---------- the elevator branch of the extension pass ---------- *)
Section Elev.
Variables (policy : Z) (station_ids skip_opt add_meta : bool).
Let cfg := NyctAlerts policy station_ids skip_opt add_meta.

(* new id, informed id and alert of an elevator entity *)
Definition elev_info (e : entity) : option (string * string * walert) :=
  match e_tu e, e_vp e, e_alert e with
  | None, None, Some a =>
    match elev_match (la (e_id e)) with
    | Some (station, dir, elevator) =>
      let platform := (station ++ dir)%string in
      Some (if policy =? 1 then (station ++ "#EL" ++ elevator)%string
            else if policy =? 2 then ("elevator:EL" ++ elevator)%string
            else (platform ++ "#EL" ++ elevator)%string,
            if station_ids then station else platform, a)
    | None => None
    end
  | _, _, _ => None
  end.
Definition head_alert (a : walert) (s : string) : walert :=
  set_alert a [stop_selector s] (Some Alert_MAINTENANCE) (Some Alert_ACCESSIBILITY_ISSUE)
    (if add_meta then match wa_metadata a with Some js => wa_desc a ++ [(js, metadata_language)] | None => wa_desc a end else wa_desc a).
Definition mk_entity (g : string) (a : walert) : entity := {| e_id := g; e_tu := None; e_vp := None; e_alert := Some a |}.

Lemma pre_step_elev ts st i e g s a : elev_info e = Some (g, s, a) ->
  pre_step cfg ts st (i, e) =
  match alookup g (pr_elev st) with
  | Some j =>
    let ents := match nth_error (pr_entities st) j with
                | Some ej => match e_alert ej with
                             | Some aj => if has_stop s (wa_informed aj) then pr_entities st
                                          else set_nth j {| e_id := e_id ej; e_tu := e_tu ej; e_vp := e_vp ej;
                                                            e_alert := Some (set_alert aj (wa_informed aj ++ [stop_selector s]) (wa_cause aj) (wa_effect aj) (wa_desc aj)) |} (pr_entities st)
                             | None => pr_entities st end
                | None => pr_entities st end in
    {| pr_entities := set_nth i (mk_entity g a) ents; pr_skip := set_nth i true (pr_skip st); pr_elev := pr_elev st |}
  | None => {| pr_entities := set_nth i (mk_entity g (head_alert a s)) (pr_entities st); pr_skip := pr_skip st; pr_elev := aset g i (pr_elev st) |}
  end.
Proof.
  unfold elev_info, pre_step, cfg. destruct (e_tu e); [discriminate|]. destruct (e_vp e); [discriminate|]. destruct (e_alert e) as [a0|]; [|discriminate].
  destruct (elev_match (la (e_id e))) as [[[station dir] elevator]|]; [|discriminate]. intros H. inversion H; subst. reflexivity.
Qed.
Lemma pre_step_other ts st i e : elev_info e = None ->
  pr_elev (pre_step cfg ts st (i, e)) = pr_elev st /\
  (forall j, j <> i -> nth_error (pr_entities (pre_step cfg ts st (i, e))) j = nth_error (pr_entities st) j /\
                      nth j (pr_skip (pre_step cfg ts st (i, e))) false = nth j (pr_skip st) false) /\
  List.length (pr_entities (pre_step cfg ts st (i, e))) = List.length (pr_entities st) /\
  List.length (pr_skip (pre_step cfg ts st (i, e))) = List.length (pr_skip st).
Proof.
  unfold elev_info, pre_step, cfg. intros H.
  pose proof (fun A l x j N => @sn_other A i j x l N) as SN. pose proof (fun l x j N => @sb_other i j x l N) as SB.
  pose proof (fun A l x => @sn_len A i x l) as SL.
  destruct (e_tu e); [repeat split; auto|]. destruct (e_vp e); [repeat split; auto|]. destruct (e_alert e) as [a0|]; [|repeat split; auto].
  destruct (elev_match (la (e_id e))) as [[[station dir] elevator]|]; [discriminate|].
  destruct (mercury_loop skip_opt (wa_informed a0) (wa_effect a0)) as [effect sk]. cbn. repeat split; auto.
Qed.

(* ---------- the invariant of the pass over the entities ---------- *)
Variable orig : list entity.
Variable ts : option Z.
Definition contribution (g : string) (e : entity) : list string :=
  match elev_info e with Some (g', s, _) => if String.eqb g' g then [s] else [] | None => [] end.
Definition ids (g : string) (n : nat) : list string := flat_map (contribution g) (firstn n orig).
Lemma ids_step g n e : nth_error orig n = Some e -> ids g (S n) = ids g n ++ contribution g e.
Proof.
  intros H. unfold ids. assert (E : firstn (S n) orig = firstn n orig ++ [e]).
  { clear - H. revert n H. induction orig as [|x l IH]; intros [|n] H; cbn in *; try discriminate; [now inversion H|]. f_equal. now apply IH. }
  rewrite E, flat_map_app. cbn. now rewrite app_nil_r.
Qed.
Lemma member_in_ids g n i e s a : (i < n)%nat -> nth_error orig i = Some e -> elev_info e = Some (g, s, a) -> In s (ids g n).
Proof.
  intros Hlt He Hi. unfold ids. apply in_flat_map. exists e. split.
  - clear - Hlt He. revert i n Hlt He. induction orig as [|x l IH]; intros [|i] [|n] Hlt He; cbn in *; try discriminate; try lia; [inversion He; now left|]. right. eapply IH; eauto. lia.
  - unfold contribution. rewrite Hi, String.eqb_refl. now left.
Qed.
Lemma has_stop_map s D : has_stop s (map stop_selector D) = existsb (String.eqb s) D.
Proof. unfold has_stop. induction D as [|d D IH]; cbn; [reflexivity|]. rewrite IH. now rewrite (String.eqb_sym d s). Qed.

Record inv (st : pre) (n : nat) : Prop := {
  i_len : List.length (pr_entities st) = List.length orig;
  i_slen : List.length (pr_skip st) = List.length orig;
  i_head : forall g j, alookup g (pr_elev st) = Some j ->
      (j < n)%nat /\ nth j (pr_skip st) false = false /\
      exists a', nth_error (pr_entities st) j = Some (mk_entity g a') /\ wa_cause a' = Some Alert_MAINTENANCE /\
                 wa_effect a' = Some Alert_ACCESSIBILITY_ISSUE /\ wa_informed a' = map stop_selector (dedup (ids g n));
  i_none : forall g, alookup g (pr_elev st) = None -> ids g n = [];
  i_member : forall i e g s a j, (i < n)%nat -> nth_error orig i = Some e -> elev_info e = Some (g, s, a) ->
      alookup g (pr_elev st) = Some j -> i <> j -> nth i (pr_skip st) false = true;
  i_fresh : forall i, (n <= i)%nat -> nth i (pr_skip st) false = false }.

Lemma heads_distinct st n g g' j : inv st n -> alookup g (pr_elev st) = Some j -> alookup g' (pr_elev st) = Some j -> g = g'.
Proof.
  intros I H H'. destruct (i_head st n I g j H) as (_ & _ & a1 & E1 & _). destruct (i_head st n I g' j H') as (_ & _ & a2 & E2 & _).
  rewrite E1 in E2. now inversion E2.
Qed.

Lemma step_inv st n e : inv st n -> nth_error orig n = Some e -> inv (pre_step cfg ts st (n, e)) (S n).
Proof.
  intros I He. assert (Hn : (n < List.length orig)%nat) by (apply nth_error_Some; congruence).
  destruct (elev_info e) as [[[g0 s0] a0]|] eqn:Ei.
  - (* an elevator alert *)
    rewrite (pre_step_elev ts st n e g0 s0 a0 Ei). destruct (alookup g0 (pr_elev st)) as [j0|] eqn:El.
    + (* a later member of an existing group *)
      destruct (i_head st n I g0 j0 El) as (Hj0 & Hs0 & a' & Ea' & Hc & Hf & Hinf).
      rewrite Ea'. cbn [e_alert mk_entity e_id e_tu e_vp]. rewrite Hinf, has_stop_map.
      set (D := dedup (ids g0 n)) in *.
      set (ents := if existsb (String.eqb s0) D then pr_entities st else set_nth j0 _ (pr_entities st)).
      assert (Lents : List.length ents = List.length orig) by (unfold ents; destruct (existsb _ D); [apply (i_len st n I)|rewrite sn_len; apply (i_len st n I)]).
      assert (Hhead0 : exists a2, nth_error ents j0 = Some (mk_entity g0 a2) /\ wa_cause a2 = Some Alert_MAINTENANCE /\ wa_effect a2 = Some Alert_ACCESSIBILITY_ISSUE /\
                         wa_informed a2 = map stop_selector (dedup (ids g0 (S n)))).
      { rewrite (ids_step g0 n e He). unfold contribution. rewrite Ei, String.eqb_refl, dedup_snoc. fold D. unfold add_new, ents.
        destruct (existsb (String.eqb s0) D).
        - exists a'. repeat split; assumption.
        - eexists. split; [apply sn_same; rewrite (i_len st n I); lia|]. cbn. repeat split; try assumption. now rewrite map_app. }
      assert (Hother : forall j, j <> j0 -> nth_error ents j = nth_error (pr_entities st) j).
      { intros j N. unfold ents. destruct (existsb _ D); [reflexivity|now apply sn_other]. }
      constructor; cbn [pr_entities pr_skip pr_elev].
      * rewrite sn_len. exact Lents.
      * rewrite sn_len. apply (i_slen st n I).
      * intros g j Hg. destruct (i_head st n I g j Hg) as (Hj & Hs & a1 & E1 & Hc1 & Hf1 & Hi1).
        split; [lia|]. split; [rewrite sb_other by lia; exact Hs|]. rewrite sn_other by lia.
        destruct (string_dec g g0) as [->|Ng].
        -- assert (j = j0) by congruence. subst j. exact Hhead0.
        -- assert (j <> j0) by (intros ->; apply Ng; eapply heads_distinct; eauto).
           exists a1. rewrite Hother by assumption. repeat split; try assumption.
           rewrite (ids_step g n e He). unfold contribution. rewrite Ei. destruct (String.eqb_spec g0 g); [congruence|]. now rewrite app_nil_r.
      * intros g Hg. rewrite (ids_step g n e He), (i_none st n I g Hg). unfold contribution. rewrite Ei.
        destruct (String.eqb_spec g0 g); [congruence|reflexivity].
      * intros i e1 g s a j Hi He1 Hi1 Hg Nij. destruct (Nat.eq_dec i n) as [->|Ni].
        -- apply sb_same. rewrite (i_slen st n I). exact Hn.
        -- rewrite sb_other by exact Ni. eapply (i_member st n I); eauto. lia.
      * intros i Hi. rewrite sb_other by lia. apply (i_fresh st n I). lia.
    + (* the first member of a new group *)
      constructor; cbn [pr_entities pr_skip pr_elev].
      * rewrite sn_len. apply (i_len st n I).
      * apply (i_slen st n I).
      * intros g j Hg. rewrite alookup_aset_eq' in Hg. destruct (String.eqb_spec g0 g) as [Eg|Ng].
        -- subst g. inversion Hg; subst j. split; [lia|]. split; [apply (i_fresh st n I); lia|].
           exists (head_alert a0 s0). split; [apply sn_same; rewrite (i_len st n I); exact Hn|]. repeat split.
           rewrite (ids_step g0 n e He), (i_none st n I g0 El). unfold contribution. rewrite Ei, String.eqb_refl. reflexivity.
        -- destruct (i_head st n I g j Hg) as (Hj & Hs & a1 & E1 & Hc1 & Hf1 & Hi1). split; [lia|]. split; [exact Hs|].
           exists a1. rewrite sn_other by lia. repeat split; try assumption.
           rewrite (ids_step g n e He). unfold contribution. rewrite Ei. destruct (String.eqb_spec g0 g); [congruence|]. now rewrite app_nil_r.
      * intros g Hg. rewrite alookup_aset_eq' in Hg. destruct (String.eqb_spec g0 g) as [Eg|Ng]; [discriminate|].
        rewrite (ids_step g n e He), (i_none st n I g Hg). unfold contribution. rewrite Ei. destruct (String.eqb_spec g0 g); [congruence|reflexivity].
      * intros i e1 g s a j Hi He1 Hi1 Hg Nij. rewrite alookup_aset_eq' in Hg. destruct (String.eqb_spec g0 g) as [Eg|Ng].
        -- subst g. inversion Hg; subst j. assert (Hlt : (i < n)%nat) by lia.
           pose proof (member_in_ids g0 n i e1 s a Hlt He1 Hi1) as Hin. rewrite (i_none st n I g0 El) in Hin. destruct Hin.
        -- destruct (Nat.eq_dec i n) as [->|Ni]; [rewrite He in He1; inversion He1; subst e1; rewrite Ei in Hi1; inversion Hi1; congruence|].
           eapply (i_member st n I); eauto. lia.
      * intros i Hi. apply (i_fresh st n I). lia.
  - (* any other entity: the tables and every other slot are untouched *)
    destruct (pre_step_other ts st n e Ei) as (E1 & E2 & E3 & E4).
    constructor.
    + rewrite E3. apply (i_len st n I).
    + rewrite E4. apply (i_slen st n I).
    + intros g j Hg. rewrite E1 in Hg. destruct (i_head st n I g j Hg) as (Hj & Hs & a1 & Ea & Hc1 & Hf1 & Hi1).
      destruct (E2 j) as [F1 F2]; [lia|]. split; [lia|]. split; [rewrite F2; exact Hs|]. exists a1. rewrite F1. repeat split; try assumption.
      rewrite (ids_step g n e He). unfold contribution. rewrite Ei. now rewrite app_nil_r.
    + intros g Hg. rewrite E1 in Hg. rewrite (ids_step g n e He), (i_none st n I g Hg). unfold contribution. now rewrite Ei.
    + intros i e1 g s a j Hi He1 Hi1 Hg Nij. rewrite E1 in Hg. destruct (Nat.eq_dec i n) as [->|Ni]; [rewrite He in He1; inversion He1; subst; congruence|].
      destruct (E2 i Ni) as [_ F2]. rewrite F2. eapply (i_member st n I); eauto. lia.
    + intros i Hi. destruct (E2 i) as [_ F2]; [lia|]. rewrite F2. apply (i_fresh st n I). lia.
Qed.

Lemma skipn_cons_nth {A} (l : list A) : forall n x r, skipn n l = x :: r -> nth_error l n = Some x /\ skipn (S n) l = r.
Proof. induction l as [|y l IH]; intros [|n] x r H; cbn in *; try discriminate; [inversion H; split; reflexivity|]. now apply IH. Qed.
Lemma fold_inv : forall l n st, skipn n orig = l -> inv st n -> inv (fold_left (pre_step cfg ts) (enumerate n l) st) (n + List.length l).
Proof.
  induction l as [|e l IH]; intros n st Hs I; cbn [enumerate fold_left List.length]; [now rewrite Nat.add_0_r|].
  destruct (skipn_cons_nth orig n e l Hs) as [He Hs']. replace (n + S (List.length l))%nat with (S n + List.length l)%nat by lia.
  apply IH; [exact Hs'|]. now apply step_inv.
Qed.
Lemma nth_all_false {A} (l : list A) i : nth i (map (fun _ => false) l) false = false.
Proof. revert i. induction l as [|x l IH]; intros [|i]; cbn; auto. Qed.
Lemma init_inv : inv {| pr_entities := orig; pr_skip := map (fun _ => false) orig; pr_elev := [] |} 0.
Proof.
  constructor; cbn.
  - reflexivity.
  - apply map_length.
  - intros g j H. discriminate.
  - intros g _. reflexivity.
  - intros i e g s a j Hi. lia.
  - intros i _. apply nth_all_false.
Qed.
Theorem pass_inv : inv (fold_left (pre_step cfg ts) (enumerate 0 orig) {| pr_entities := orig; pr_skip := map (fun _ => false) orig; pr_elev := [] |}) (List.length orig).
Proof. apply (fold_inv orig 0 _ eq_refl init_inv). Qed.
End Elev.

(* ---------- the statement on the extension pass of a message ---------- *)
Theorem elevator_groups policy station_ids skip_opt add_meta m g :
  let cfg := NyctAlerts policy station_ids skip_opt add_meta in
  let p := pre_pass cfg m in
  let members := ids policy station_ids (fm_entities m) g (List.length (fm_entities m)) in
  members <> [] ->
  exists j a', nth_error (pr_entities p) j = Some (mk_entity g a') /\ nth j (pr_skip p) false = false /\
    wa_cause a' = Some Alert_MAINTENANCE /\ wa_effect a' = Some Alert_ACCESSIBILITY_ISSUE /\
    wa_informed a' = map stop_selector (dedup members) /\
    forall i e s a, nth_error (fm_entities m) i = Some e -> elev_info policy station_ids e = Some (g, s, a) -> i <> j -> nth i (pr_skip p) false = true.
Proof.
  cbn zeta. intros Hne. pose proof (pass_inv policy station_ids skip_opt add_meta (fm_entities m) (fm_ts m)) as I.
  fold (pre_pass (NyctAlerts policy station_ids skip_opt add_meta) m) in I. set (p := pre_pass _ m) in *.
  destruct (alookup g (pr_elev p)) as [j|] eqn:E; [|exfalso; apply Hne; exact (i_none _ _ _ _ _ I g E)].
  destruct (i_head _ _ _ _ _ I g j E) as (Hj & Hs & a' & Ea & Hc & Hf & Hi). exists j, a'. repeat split; try assumption.
  intros i e s a He Hinfo Nij. eapply (i_member _ _ _ _ _ I); eauto. apply nth_error_Some. congruence.
Qed.
