(* Proofs/LinkProofs.v — C04 at the level of the whole result, for EVERY message: a trip's vehicle reference and a vehicle's
   trip reference always lead to an element of the result's own Vehicles / Trips lists (the realtime counterpart of C03's
   closure), and they lead to each other whenever the association tables are mutually inverse. *)
From Coq Require Import Permutation Sorted.
From GV Require Import Base.Prelude Base.Dec Base.Sort Model.RtTypes Model.RtWire Model.Realtime
  Proofs.RealtimeProofs Proofs.PurityProofs Proofs.MergeProofs.

Definition tkey_in (k : trip_key) (l : list (trip_key * rt_trip)) : Prop := In k (map fst l).
Definition vkey_in (i : vehicle_id) (l : list (vehicle_id * rt_vehicle)) : Prop := In i (map fst l).

Section G3.
Context {K V : Type} (eqb : K -> K -> bool) (eqb_spec : forall a b, reflect (a = b) (eqb a b)).
Lemma gset_key_in k k' (v : V) (l : list (K * V)) : In k (map fst (gset eqb k' v l)) <-> k = k' \/ In k (map fst l).
Proof.
  rewrite (gset_keys eqb eqb_spec). destruct (existsb (eqb k') (map fst l)) eqn:E.
  - split; [tauto|]. intros [->|H]; [|exact H]. apply existsb_exists in E as [x [Hx Ex]]. destruct (eqb_spec k' x); [subst; exact Hx|discriminate].
  - rewrite in_app_iff. cbn. intuition.
Qed.
Lemma glookup_some_in k (v : V) (l : list (K * V)) : glookup eqb k l = Some v -> In (k, v) l.
Proof. induction l as [|[k' v'] l IH]; cbn; [discriminate|]. destruct (eqb_spec k k') as [->|N]; [intros E; inversion E; now left|intros E; right; auto]. Qed.
Lemma glookup_gset k k' (v : V) (l : list (K * V)) : glookup eqb k (gset eqb k' v l) = if eqb k k' then Some v else glookup eqb k l.
Proof. destruct (eqb_spec k k') as [->|N]; [apply (glookup_gset_same eqb eqb_spec)|now apply (glookup_gset_other eqb eqb_spec)]. Qed.
End G3.

Definition link_inv (a : acc) : Prop :=
  (forall k id, glookup tk_eqb k (a_t2v a) = Some id -> tkey_in k (a_trips a) /\ vkey_in id (a_vehicles a)) /\
  (forall id k, glookup vi_eqb id (a_v2t a) = Some k -> vkey_in id (a_vehicles a) /\ tkey_in k (a_trips a)) /\
  (forall k, In k (a_t2noid a) -> tkey_in k (a_trips a) /\ exists v, In v (a_noid a) /\ ve_trip v = Some k) /\
  (forall v k, In v (a_noid a) -> ve_trip v = Some k -> tkey_in k (a_trips a)) /\
  Forall (fun kt => tr_vehicle (snd kt) = None) (a_trips a) /\
  Forall (fun iv => ve_trip (snd iv) = None) (a_vehicles a).

Lemma merge_trip_keys trips new k : tkey_in k (merge_trip trips new) <-> k = tr_key new \/ tkey_in k trips.
Proof. unfold tkey_in, merge_trip. apply (gset_key_in tk_eqb tk_eqb_spec). Qed.
Lemma fold_merge_trip_keys ts : forall trips k, tkey_in k trips -> tkey_in k (fold_left merge_trip ts trips).
Proof. induction ts as [|t ts IH]; intros trips k H; cbn [fold_left]; [exact H|]. apply IH, merge_trip_keys. now right. Qed.
Lemma merge_vehicle_keys vs id new i : vkey_in i (merge_vehicle vs id new) <-> i = id \/ vkey_in i vs.
Proof. unfold vkey_in, merge_vehicle. apply (gset_key_in vi_eqb vi_eqb_spec). Qed.
Lemma merge_trip_novehicle trips new : tr_vehicle new = None -> Forall (fun kt => tr_vehicle (snd kt) = None) trips ->
  Forall (fun kt => tr_vehicle (snd kt) = None) (merge_trip trips new).
Proof.
  intros Hn H. unfold merge_trip. apply gset_forall; [|exact H]. cbn. destruct (tr_in_msg new); [exact Hn|].
  destruct (glookup tk_eqb (tr_key new) trips) as [t|] eqn:E; cbn; [|reflexivity].
  apply (glookup_forall tk_eqb tk_eqb_spec _ _ _ _ H E).
Qed.
Lemma fold_merge_trip_novehicle ts : forall trips, Forall (fun t => tr_vehicle t = None) ts -> Forall (fun kt => tr_vehicle (snd kt) = None) trips ->
  Forall (fun kt => tr_vehicle (snd kt) = None) (fold_left merge_trip ts trips).
Proof. induction ts as [|t ts IH]; intros trips Ht H; cbn [fold_left]; [exact H|]. inversion Ht; subst. apply IH; [assumption|]. now apply merge_trip_novehicle. Qed.
Lemma merge_vehicle_notrip vs id new : ve_trip new = None -> Forall (fun iv => ve_trip (snd iv) = None) vs ->
  Forall (fun iv => ve_trip (snd iv) = None) (merge_vehicle vs id new).
Proof.
  intros Hn H. unfold merge_vehicle. apply gset_forall; [|exact H]. cbn. destruct (ve_in_msg new); [exact Hn|].
  destruct (glookup vi_eqb id vs) as [v|] eqn:E; cbn; [|reflexivity].
  apply (glookup_forall vi_eqb vi_eqb_spec _ _ _ _ H E).
Qed.

Lemma add_trip_vehicle_links a t v :
  match t with Some t => tr_vehicle t = None | None => True end ->
  match v with Some v => ve_trip v = None | None => True end ->
  link_inv a -> link_inv (add_trip_vehicle a t v).
Proof.
  intros Ht Hv (I1 & I2 & I3 & I4 & I5 & I6). unfold add_trip_vehicle.
  set (trips := match t with Some t0 => merge_trip (a_trips a) t0 | None => a_trips a end).
  assert (Kt : forall k, tkey_in k (a_trips a) -> tkey_in k trips).
  { intros k H. unfold trips. destruct t; [apply merge_trip_keys; now right|exact H]. }
  assert (Kn : forall t0, t = Some t0 -> tkey_in (tr_key t0) trips).
  { intros t0 ->. unfold trips. apply merge_trip_keys. now left. }
  assert (F5 : Forall (fun kt => tr_vehicle (snd kt) = None) trips).
  { unfold trips. destruct t; [now apply merge_trip_novehicle|exact I5]. }
  destruct v as [v|].
  2:{ refine (conj _ (conj _ (conj _ (conj _ (conj _ _))))); cbn [a_trips a_vehicles a_t2v a_v2t a_noid a_t2noid a_alerts].
      - intros k id H. destruct (I1 k id H); split; auto.
      - intros id k H. destruct (I2 id k H); split; auto.
      - intros k H. destruct (I3 k H); split; auto.
      - intros v0 k Hin E. eapply Kt, I4; eauto.
      - exact F5.
      - exact I6. }
  destruct (ve_id v) as [id|] eqn:Eid.
  - (* vehicle with an id *)
    refine (conj _ (conj _ (conj _ (conj _ (conj _ _))))); cbn [a_trips a_vehicles a_t2v a_v2t a_noid a_t2noid a_alerts].
    + intros k id0 H. destruct t as [t0|].
      * rewrite (glookup_gset tk_eqb tk_eqb_spec) in H. destruct (tk_eqb_spec k (tr_key t0)) as [->|N].
        -- inversion H; subst. split; [apply Kn; reflexivity|apply merge_vehicle_keys; now left].
        -- destruct (I1 k id0 H). split; [auto|apply merge_vehicle_keys; now right].
      * destruct (I1 k id0 H). split; [auto|apply merge_vehicle_keys; now right].
    + intros id0 k H. destruct t as [t0|].
      * rewrite (glookup_gset vi_eqb vi_eqb_spec) in H. destruct (vi_eqb_spec id0 id) as [->|N].
        -- inversion H; subst. split; [apply merge_vehicle_keys; now left|apply Kn; reflexivity].
        -- destruct (I2 id0 k H). split; [apply merge_vehicle_keys; now right|auto].
      * destruct (I2 id0 k H). split; [apply merge_vehicle_keys; now right|auto].
    + intros k H. destruct (I3 k H) as [A B]. split; [auto|exact B].
    + intros v0 k Hin E. eapply Kt, I4; eauto.
    + exact F5.
    + apply merge_vehicle_notrip; [exact Hv|exact I6].
  - (* id-less vehicle *)
    refine (conj _ (conj _ (conj _ (conj _ (conj _ _))))); cbn [a_trips a_vehicles a_t2v a_v2t a_noid a_t2noid a_alerts].
    + intros k id H. destruct (I1 k id H); split; auto.
    + intros id k H. destruct (I2 id k H); split; auto.
    + intros k H. destruct t as [t0|].
      * destruct H as [<-|H].
        -- split; [apply Kn; reflexivity|]. exists (set_vehicle_trip v (Some (tr_key t0))). split; [apply in_app_iff; right; now left|reflexivity].
        -- destruct (I3 k H) as [A [v0 [Hin E]]]. split; [auto|]. exists v0. split; [apply in_app_iff; now left|exact E].
      * destruct (I3 k H) as [A [v0 [Hin E]]]. split; [auto|]. exists v0. split; [apply in_app_iff; now left|exact E].
    + intros v0 k Hin E. apply in_app_iff in Hin as [Hin|[<-|[]]]; [eapply Kt, I4; eauto|].
      destruct t as [t0|]; cbn in E; [inversion E; apply Kn; reflexivity|congruence].
    + exact F5.
    + exact I6.
Qed.

Section WithOracles.
Variable cm : Z -> Z -> Z -> Z.
Variable tz : option string.
Variable cfg : ext_cfg.
Lemma alert_trips_novehicle id al : Forall (fun t => tr_vehicle t = None) (snd (parse_alert cm tz id al)).
Proof.
  unfold parse_alert; cbn.
  assert (G : forall sels acc, Forall (fun t => tr_vehicle t = None) (aa_trips acc) -> Forall (fun t => tr_vehicle t = None) (aa_trips (fold_left (alert_step cm tz) sels acc))).
  { induction sels as [|s r IH]; intros acc H; cbn [fold_left]; [exact H|]. apply IH. unfold alert_step.
    destruct (negb (informs_something _)); cbn; [exact H|]. destruct (omap _ (sl_trip s)) as [k|]; [|exact H].
    destruct (identifies k); cbn; [|exact H]. apply Forall_app; split; [exact H|repeat constructor]. }
  apply G. constructor.
Qed.
Lemma entity_step_links a es : link_inv a -> link_inv (entity_step cm tz cfg a es).
Proof.
  intros H. destruct es as [e skip]. unfold entity_step. destruct skip; [exact H|].
  destruct (e_tu e) as [tu|].
  - unfold parse_trip_update. apply add_trip_vehicle_links; [reflexivity| |exact H]. destruct (tu_vehicle tu); [reflexivity|exact I].
  - destruct (e_vp e) as [vp|].
    + unfold parse_vehicle. apply add_trip_vehicle_links; [destruct (vp_trip vp); [reflexivity|exact I]|reflexivity|exact H].
    + destruct (e_alert e) as [al|]; [|exact H].
      pose proof (alert_trips_novehicle (e_id e) al) as Hn. destruct (parse_alert cm tz (e_id e) al) as [ra ts]. cbn in Hn.
      destruct H as (I1 & I2 & I3 & I4 & I5 & I6). refine (conj _ (conj _ (conj _ (conj _ (conj _ _))))); cbn [a_trips a_vehicles a_t2v a_v2t a_noid a_t2noid a_alerts].
      * intros k id H. destruct (I1 k id H). split; [now apply fold_merge_trip_keys|auto].
      * intros id k H. destruct (I2 id k H). split; [auto|now apply fold_merge_trip_keys].
      * intros k H. destruct (I3 k H) as [A B]. split; [now apply fold_merge_trip_keys|exact B].
      * intros v k Hin E. eapply fold_merge_trip_keys, I4; eauto.
      * now apply fold_merge_trip_novehicle.
      * exact I6.
Qed.
Lemma fold_entity_step_links l : forall a, link_inv a -> link_inv (fold_left (entity_step cm tz cfg) l a).
Proof. induction l as [|x r IH]; intros a H; cbn [fold_left]; [exact H|]. apply IH, entity_step_links, H. Qed.
Lemma acc0_links : link_inv acc0.
Proof. refine (conj _ (conj _ (conj _ (conj _ (conj _ _))))); cbn; try (intros; discriminate); try (intros; tauto); try (intros ? []); constructor. Qed.

(* membership in the sorted output lists *)
Lemma in_isort {A} (f : A -> A -> bool) x l : In x (isort A f l) <-> In x l.
Proof. split; intros H; [apply (Permutation_in _ (isort_perm A f l)), H|apply (Permutation_in _ (Permutation_sym (isort_perm A f l))), H]. Qed.

Theorem links_closed m : let r := parse_message cm tz cfg m in
  (forall t id, In t (rt_trips r) -> tr_vehicle t = Some (Some id) -> exists v, In v (rt_vehicles r) /\ ve_id v = Some id) /\
  (forall t, In t (rt_trips r) -> tr_vehicle t = Some None -> exists v, In v (rt_vehicles r) /\ ve_id v = None /\ ve_trip v = Some (tr_key t)) /\
  (forall v k, In v (rt_vehicles r) -> ve_trip v = Some k -> exists t, In t (rt_trips r) /\ tr_key t = k).
Proof.
  unfold parse_message. set (l := combine _ _). set (a := fold_left (entity_step cm tz cfg) l acc0).
  assert (La : link_inv a) by (apply fold_entity_step_links, acc0_links).
  assert (Ia : acc_inv tz a) by (apply fold_entity_step_ok, acc0_ok).
  destruct La as (I1 & I2 & I3 & I4 & I5 & I6). destruct Ia as [[_ Hf] [_ Hvf]]. rewrite Forall_forall in Hf, Hvf, I5, I6.
  assert (Noid : forall v, In v (a_noid a) -> ve_id v = None).
  { intros v Hv. apply (a_noid_idless cm tz cfg l acc0); [intros v0 Hv0; destruct Hv0|exact Hv]. }
  (* a key of the trip table yields an element of the output with that key; likewise vehicles *)
  assert (Tout : forall k, tkey_in k (a_trips a) -> exists t, In t (rt_trips (finish (match fm_ts m with Some t => in_zone tz (wrap64 t) | None => zero_instant end) a)) /\ tr_key t = k).
  { intros k Hk. apply in_map_iff in Hk as [[k' t] [E Hin]]. cbn in E. subst k'.
    exists (match glookup tk_eqb k (a_t2v a) with Some vid => set_trip_vehicle t (Some (Some vid))
            | None => if existsb (tk_eqb k) (a_t2noid a) then set_trip_vehicle t (Some None) else t end).
    split; [unfold finish; cbn [rt_trips]; apply in_isort; apply in_map_iff; exists (k, t); split; [reflexivity|exact Hin]|].
    destruct (Hf _ Hin) as [Ek _]. cbn in *. destruct (glookup tk_eqb k (a_t2v a)); [exact Ek|]. destruct (existsb _ _); exact Ek. }
  assert (Vout : forall i, vkey_in i (a_vehicles a) -> exists v, In v (rt_vehicles (finish (match fm_ts m with Some t => in_zone tz (wrap64 t) | None => zero_instant end) a)) /\ ve_id v = Some i).
  { intros i Hi. apply in_map_iff in Hi as [[i' v] [E Hin]]. cbn in E. subst i'. unfold finish; cbn [rt_vehicles].
    exists (match glookup vi_eqb i (a_v2t a) with Some k => set_vehicle_trip v (Some k) | None => v end).
    split; [apply in_app_iff; left; apply in_isort; apply in_map_iff; exists (i, v); split; [reflexivity|exact Hin]|].
    pose proof (Hvf _ Hin) as Ev. cbn in *. destruct (glookup vi_eqb i (a_v2t a)); cbn; exact Ev. }
  cbn zeta. repeat split.
  - intros t id Hin Hv. unfold finish in Hin; cbn [rt_trips] in Hin. apply in_isort in Hin. apply in_map_iff in Hin as [[k t0] [<- Hin]].
    pose proof (I5 _ Hin) as N0. cbn in N0.
    destruct (glookup tk_eqb k (a_t2v a)) as [vid|] eqn:E.
    + cbn in Hv. inversion Hv; subst. destruct (I1 k id E) as [_ Hk]. apply Vout, Hk.
    + destruct (existsb (tk_eqb k) (a_t2noid a)); cbn in Hv; congruence.
  - intros t Hin Hv. unfold finish in Hin; cbn [rt_trips] in Hin. apply in_isort in Hin. apply in_map_iff in Hin as [[k t0] [<- Hin]].
    pose proof (I5 _ Hin) as N0. cbn in N0. destruct (Hf _ Hin) as [Ek _]. cbn in Ek.
    destruct (glookup tk_eqb k (a_t2v a)) as [vid|] eqn:E; [cbn in Hv; congruence|].
    destruct (existsb (tk_eqb k) (a_t2noid a)) eqn:Ex; [|cbn in Hv; congruence].
    apply existsb_exists in Ex as [k' [Hk' Ek']]. destruct (tk_eqb_spec k k'); [subst k'|discriminate].
    destruct (I3 k Hk') as [_ [v [Hv1 Hv2]]]. exists v. split; [unfold finish; cbn [rt_vehicles]; apply in_app_iff; now right|].
    split; [now apply Noid|]. cbn. rewrite Ek. exact Hv2.
  - intros v k Hin Hv. unfold finish in Hin; cbn [rt_vehicles] in Hin. apply in_app_iff in Hin as [Hin|Hin].
    + apply in_isort in Hin. apply in_map_iff in Hin as [[i v0] [<- Hin]]. pose proof (I6 _ Hin) as N0. cbn in N0.
      destruct (glookup vi_eqb i (a_v2t a)) as [k0|] eqn:E; cbn in Hv; [inversion Hv; subst; destruct (I2 i k E) as [_ Hk]; now apply Tout|congruence].
    + apply Tout. eapply I4; eauto.
Qed.
End WithOracles.

(* ================= reciprocity for feeds whose associations form a partial bijection ================= *)
Section Reciprocity.
Variable cm : Z -> Z -> Z -> Z.
Variable tz : option string.
Variable cfg : ext_cfg.

(* the (trip, id-bearing vehicle) association one entity states *)
Definition entity_pairs (es : entity * bool) : list (trip_key * vehicle_id) :=
  let '(e, skip) := es in
  if skip then [] else
  match e_tu e with
  | Some tu => match snd (parse_trip_update cm tz cfg tu) with
               | Some v => match ve_id v with Some id => [(tr_key (fst (parse_trip_update cm tz cfg tu)), id)] | None => [] end
               | None => [] end
  | None =>
    match e_vp e with
    | Some vp => match fst (parse_vehicle cm tz vp), ve_id (snd (parse_vehicle cm tz vp)) with
                 | Some t, Some id => [(tr_key t, id)]
                 | _, _ => [] end
    | None => []
    end
  end.
Definition set_pairs (a : acc) (ps : list (trip_key * vehicle_id)) : list (trip_key * vehicle_id) * list (vehicle_id * trip_key) :=
  fold_left (fun tv p => (gset tk_eqb (fst p) (snd p) (fst tv), gset vi_eqb (snd p) (fst p) (snd tv))) ps (a_t2v a, a_v2t a).
Lemma entity_step_tables a es :
  (a_t2v (entity_step cm tz cfg a es), a_v2t (entity_step cm tz cfg a es)) = set_pairs a (entity_pairs es).
Proof.
  destruct es as [e skip]. unfold entity_step, entity_pairs, set_pairs. destruct skip; [reflexivity|].
  destruct (e_tu e) as [tu|].
  - destruct (parse_trip_update cm tz cfg tu) as [t v]. cbn [fst snd]. unfold add_trip_vehicle.
    destruct v as [v|]; [|reflexivity]. destruct (ve_id v); reflexivity.
  - destruct (e_vp e) as [vp|]; [|destruct (e_alert e); [destruct (parse_alert _ _ _ _)|]; reflexivity].
    destruct (parse_vehicle cm tz vp) as [t v]. cbn [fst snd]. unfold add_trip_vehicle.
    destruct (ve_id v); destruct t; reflexivity.
Qed.
Lemma fold_tables l : forall a,
  (a_t2v (fold_left (entity_step cm tz cfg) l a), a_v2t (fold_left (entity_step cm tz cfg) l a)) = set_pairs a (flat_map entity_pairs l).
Proof.
  induction l as [|es l IH]; intros a; cbn [fold_left flat_map]; [reflexivity|]. rewrite IH. unfold set_pairs. rewrite fold_left_app.
  f_equal. change (fold_left _ (entity_pairs es) (a_t2v a, a_v2t a)) with (set_pairs a (entity_pairs es)). now rewrite <- entity_step_tables.
Qed.
(* lookups in tables built from a list of pairs: the LAST pair with that key *)
Fixpoint last_for {A B} (eqb : A -> A -> bool) (k : A) (ps : list (A * B)) (cur : option B) : option B :=
  match ps with [] => cur | p :: r => last_for eqb k r (if eqb k (fst p) then Some (snd p) else cur) end.
Lemma set_pairs_lookup ps : forall t2v v2t k i,
  let tv := fold_left (fun tv p => (gset tk_eqb (fst p) (snd p) (fst tv), gset vi_eqb (snd p) (fst p) (snd tv))) ps (t2v, v2t) in
  glookup tk_eqb k (fst tv) = last_for tk_eqb k ps (glookup tk_eqb k t2v) /\
  glookup vi_eqb i (snd tv) = last_for vi_eqb i (map (fun p => (snd p, fst p)) ps) (glookup vi_eqb i v2t).
Proof.
  induction ps as [|p ps IH]; intros t2v v2t k i; cbn [fold_left map last_for]; [split; reflexivity|].
  destruct (IH (gset tk_eqb (fst p) (snd p) t2v) (gset vi_eqb (snd p) (fst p) v2t) k i) as [A B]. cbn zeta in A, B. cbn [fst snd] in *.
  rewrite A, B, (glookup_gset tk_eqb tk_eqb_spec), (glookup_gset vi_eqb vi_eqb_spec). split; reflexivity.
Qed.
Lemma last_for_in {A B} (eqb : A -> A -> bool) (spec : forall a b, reflect (a = b) (eqb a b)) k (ps : list (A * B)) : forall cur v,
  last_for eqb k ps cur = Some v -> In (k, v) ps \/ cur = Some v.
Proof.
  induction ps as [|p ps IH]; intros cur v H; cbn in *; [now right|]. destruct (IH _ _ H) as [Hin|E]; [left; now right|].
  destruct (spec k (fst p)) as [->|N]; [inversion E; subst; left; left; now destruct p|now right].
Qed.
Lemma last_for_some {A B} (eqb : A -> A -> bool) (spec : forall a b, reflect (a = b) (eqb a b)) k (v : B) (ps : list (A * B)) : forall cur,
  (In (k, v) ps \/ cur = Some v) -> (forall v', In (k, v') ps -> v' = v) -> last_for eqb k ps cur = Some v.
Proof.
  induction ps as [|p ps IH]; intros cur Hin Hf; cbn [last_for]; [destruct Hin as [[]|E]; exact E|].
  apply IH; [|intros v' H'; apply Hf; now right]. destruct (spec k (fst p)) as [E|N].
  - right. f_equal. apply Hf. left. destruct p; cbn in *; now subst.
  - destruct Hin as [[E|Hin]|E]; [subst p; cbn in N; congruence|now left|now right].
Qed.

(* the associations of a feed form a partial bijection: a trip is paired with one vehicle id only, and vice versa *)
Definition bijective (ps : list (trip_key * vehicle_id)) : Prop :=
  forall k i k' i', In (k, i) ps -> In (k', i') ps -> (k = k' <-> i = i').
Theorem tables_mutually_inverse l : let ps := flat_map entity_pairs l in bijective ps ->
  let a := fold_left (entity_step cm tz cfg) l acc0 in
  forall k i, glookup tk_eqb k (a_t2v a) = Some i <-> glookup vi_eqb i (a_v2t a) = Some k.
Proof.
  cbn zeta. intros Hb k i. pose proof (fold_tables l acc0) as E. unfold set_pairs in E.
  destruct (set_pairs_lookup (flat_map entity_pairs l) (a_t2v acc0) (a_v2t acc0) k i) as [A B]. cbn zeta in A, B. rewrite <- E in A, B. cbn [fst snd] in A, B.
  rewrite A, B. cbn [acc0 a_t2v a_v2t glookup]. set (ps := flat_map entity_pairs l) in *.
  assert (Sw : forall k0 i0, In (i0, k0) (map (fun p : trip_key * vehicle_id => (snd p, fst p)) ps) <-> In (k0, i0) ps).
  { intros k0 i0. rewrite in_map_iff. split; [intros [[k1 i1] [E1 H1]]; cbn in E1; inversion E1; subst; exact H1|intros H; exists (k0, i0); split; [reflexivity|exact H]]. }
  split; intros H.
  - apply (last_for_in tk_eqb tk_eqb_spec) in H as [Hin|H]; [|discriminate].
    apply (last_for_some vi_eqb vi_eqb_spec); [left; now apply Sw|]. intros k' Hk'. apply Sw in Hk'. symmetry. apply (Hb k i k' i Hin Hk'). reflexivity.
  - apply (last_for_in vi_eqb vi_eqb_spec) in H as [Hin|H]; [|discriminate]. apply Sw in Hin.
    apply (last_for_some tk_eqb tk_eqb_spec); [now left|]. intros i' Hi'. symmetry. apply (Hb k i k i' Hin Hi'). reflexivity.
Qed.

(* hence, in the result: the trip's vehicle reference and that vehicle's trip reference lead to each other *)
Theorem links_reciprocal m : let p := pre_pass cfg m in let l := combine (pr_entities p) (pr_skip p) in
  bijective (flat_map entity_pairs l) ->
  let r := parse_message cm tz cfg m in
  (forall t i, In t (rt_trips r) -> tr_vehicle t = Some (Some i) -> exists v, In v (rt_vehicles r) /\ ve_id v = Some i /\ ve_trip v = Some (tr_key t)) /\
  (forall v i k, In v (rt_vehicles r) -> ve_id v = Some i -> ve_trip v = Some k -> exists t, In t (rt_trips r) /\ tr_key t = k /\ tr_vehicle t = Some (Some i)).
Proof.
  cbn zeta. intros Hb. pose proof (tables_mutually_inverse _ Hb) as Inv. cbn zeta in Inv.
  unfold parse_message. set (l := combine _ _) in *. set (a := fold_left (entity_step cm tz cfg) l acc0) in *.
  assert (La : link_inv a) by (apply fold_entity_step_links, acc0_links).
  assert (Ia : acc_inv tz a) by (apply fold_entity_step_ok, acc0_ok).
  destruct La as (I1 & I2 & I3 & I4 & I5 & I6). destruct Ia as [[_ Hf] [_ Hvf]]. rewrite Forall_forall in Hf, Hvf, I5, I6.
  assert (Noid : forall v, In v (a_noid a) -> ve_id v = None).
  { intros v Hv. apply (a_noid_idless cm tz cfg l acc0); [intros v0 Hv0; destruct Hv0|exact Hv]. }
  split.
  - intros t i Hin Hv. unfold finish in Hin; cbn [rt_trips] in Hin. apply in_isort in Hin. apply in_map_iff in Hin as [[k t0] [<- Hin]].
    pose proof (I5 _ Hin) as N0. cbn in N0. destruct (Hf _ Hin) as [Ek _]. cbn in Ek.
    destruct (glookup tk_eqb k (a_t2v a)) as [vid|] eqn:E; [|destruct (existsb (tk_eqb k) (a_t2noid a)); cbn in Hv; congruence].
    cbn in Hv. inversion Hv; subst vid. destruct (I1 k i E) as [_ Hk]. apply in_map_iff in Hk as [[i' v0] [Ei Hvin]]. cbn in Ei. subst i'.
    exists (match glookup vi_eqb i (a_v2t a) with Some k0 => set_vehicle_trip v0 (Some k0) | None => v0 end). split; [|split].
    + unfold finish; cbn [rt_vehicles]. apply in_app_iff. left. apply in_isort. apply in_map_iff. exists (i, v0). split; [reflexivity|exact Hvin].
    + pose proof (Hvf _ Hvin) as Ev. cbn in Ev. destruct (glookup vi_eqb i (a_v2t a)); cbn; exact Ev.
    + apply Inv in E. rewrite E. cbn. now rewrite Ek.
  - intros v i k Hin Hid Hv. unfold finish in Hin; cbn [rt_vehicles] in Hin. apply in_app_iff in Hin as [Hin|Hin]; [|rewrite (Noid v Hin) in Hid; discriminate].
    apply in_isort in Hin. apply in_map_iff in Hin as [[i0 v0] [<- Hin]]. pose proof (I6 _ Hin) as N0. pose proof (Hvf _ Hin) as Ev. cbn in N0, Ev.
    destruct (glookup vi_eqb i0 (a_v2t a)) as [k0|] eqn:E; cbn in Hv, Hid; [|congruence].
    rewrite Ev in Hid. inversion Hid; subst i0. inversion Hv; subst k0. destruct (I2 i k E) as [_ Hk]. apply in_map_iff in Hk as [[k' t0] [Ek' Htin]]. cbn in Ek'. subst k'.
    destruct (Hf _ Htin) as [Ek _]. cbn in Ek. apply Inv in E.
    exists (set_trip_vehicle t0 (Some (Some i))). split; [|split; [exact Ek|reflexivity]].
    unfold finish; cbn [rt_trips]. apply in_isort. apply in_map_iff. exists (k, t0). split; [now rewrite E|exact Htin].
Qed.
End Reciprocity.
