(* Proofs/ServiceProofs.v — C11 as one statement, for every calendar.txt and calendar_dates.txt whatsoever: the service stored
   under an id is determined by that id's own rows only — its LAST valid calendar row (if any), then its valid type-1 / type-2
   exception rows in file order, each appending its date to the added / removed list and stretching the range to cover it. *)
From GV Require Import Base.Prelude Base.Dec Base.Sort Model.Csv Model.Realtime Model.Static Proofs.StaticProofs.

Section WithOracles.
Variable di : string -> string -> option Z.
Variable zone : string.

(* what a calendar row contributes *)
Definition c_contrib (v : rowview) : option (string * service) :=
  let '(sd, m1) := required v "start_date" in
  match di zone sd with
  | None => None
  | Some start =>
    let '(ed, m2) := required v "end_date" in
    match di zone ed with
    | None => None
    | Some en =>
      let '(sid, m3) := required v "service_id" in
      let days := map (fun c => required v c) day_cols in
      if m1 || m2 || m3 || existsb snd days then None else
      Some (sid, {| sv_id := sid; sv_days := map (fun d => String.eqb (fst d) "1") days; sv_start := start; sv_end := en; sv_added := []; sv_removed := [] |})
    end
  end.
Lemma calendar_row_contrib m v : calendar_row di zone m v = match c_contrib v with Some (sid, s) => aset sid s m | None => m end.
Proof.
  unfold calendar_row, c_contrib. destruct (required v "start_date") as [sd m1]. destruct (di zone sd); [|reflexivity].
  destruct (required v "end_date") as [ed m2]. destruct (di zone ed); [|reflexivity]. destruct (required v "service_id") as [sid m3].
  destruct (_ || _); reflexivity.
Qed.
(* what a calendar_dates row contributes: service id, date, added (true) / removed (false) *)
Definition d_contrib (v : rowview) : option (string * (Z * bool)) :=
  let '(sid, m1) := required v "service_id" in
  let '(ds, m2) := required v "date" in
  match di zone ds with
  | None => None
  | Some d =>
    let '(et, m3) := required v "exception_type" in
    if m1 || m2 || m3 then None else
    if String.eqb et "1" then Some (sid, (d, true)) else if String.eqb et "2" then Some (sid, (d, false)) else None
  end.
(* one exception applied to what the service is so far (None: no service under that id yet) *)
Definition apply_exc (sid : string) (cur : option service) (x : Z * bool) : service :=
  let '(d, added) := x in
  let base := match cur with
              | Some s => {| sv_id := sid; sv_days := sv_days s; sv_start := if d <? sv_start s then d else sv_start s; sv_end := if sv_end s <? d then d else sv_end s;
                             sv_added := sv_added s; sv_removed := sv_removed s |}
              | None => {| sv_id := sid; sv_days := [false; false; false; false; false; false; false]; sv_start := d; sv_end := d; sv_added := []; sv_removed := [] |}
              end in
  if added then {| sv_id := sid; sv_days := sv_days base; sv_start := sv_start base; sv_end := sv_end base; sv_added := sv_added base ++ [d]; sv_removed := sv_removed base |}
  else {| sv_id := sid; sv_days := sv_days base; sv_start := sv_start base; sv_end := sv_end base; sv_added := sv_added base; sv_removed := sv_removed base ++ [d] |}.
Lemma calendar_date_row_contrib m v :
  calendar_date_row di zone m v = match d_contrib v with Some (sid, x) => aset sid (apply_exc sid (alookup sid m) x) m | None => m end.
Proof.
  unfold calendar_date_row, d_contrib, apply_exc. destruct (required v "service_id") as [sid m1]. destruct (required v "date") as [ds m2].
  destruct (di zone ds) as [d|]; [|reflexivity]. destruct (required v "exception_type") as [et m3]. destruct (_ || _); [reflexivity|].
  destruct (String.eqb et "1"); [destruct (alookup sid m); reflexivity|]. destruct (String.eqb et "2"); [destruct (alookup sid m); reflexivity|reflexivity].
Qed.

(* keyed updates of an association list: what is stored under k depends only on the updates keyed k *)
Definition upd (m : list (string * service)) (u : string * (option service -> service)) : list (string * service) :=
  aset (fst u) (snd u (alookup (fst u) m)) m.
Lemma fold_upd_lookup k : forall us m,
  alookup k (fold_left upd us m) = fold_left (fun cur u => if String.eqb (fst u) k then Some (snd u cur) else cur) us (alookup k m).
Proof.
  induction us as [|u us IH]; intros m; cbn [fold_left]; [reflexivity|]. rewrite IH. f_equal. unfold upd.
  destruct (String.eqb_spec (fst u) k) as [->|N]; [apply alookup_aset_same|now apply alookup_aset_other].
Qed.

Definition cal_updates (hdr : list string) (rows : list (list string)) : list (string * (option service -> service)) :=
  filter_map (fun cells => match c_contrib (view hdr cells) with Some (sid, s) => Some (sid, fun _ => s) | None => None end) rows.
Definition date_updates (hdr : list string) (rows : list (list string)) : list (string * (option service -> service)) :=
  filter_map (fun cells => match d_contrib (view hdr cells) with Some (sid, x) => Some (sid, fun cur => apply_exc sid cur x) | None => None end) rows.
Lemma parse_calendar_updates m hdr rows : parse_calendar di zone m hdr rows =
  if has_columns hdr (["start_date"; "end_date"; "service_id"] ++ day_cols) then fold_left upd (cal_updates hdr rows) m else m.
Proof.
  unfold parse_calendar. destruct (has_columns _ _); [|reflexivity]. revert m. unfold cal_updates, filter_map.
  induction rows as [|r rows IH]; intros m; cbn [fold_left flat_map]; [reflexivity|]. rewrite calendar_row_contrib.
  destruct (c_contrib (view hdr r)) as [[sid s]|]; cbn [app fold_left]; apply IH.
Qed.
Lemma parse_calendar_dates_updates m hdr rows : parse_calendar_dates di zone m hdr rows =
  if has_columns hdr ["service_id"; "date"; "exception_type"] then fold_left upd (date_updates hdr rows) m else m.
Proof.
  unfold parse_calendar_dates. destruct (has_columns _ _); [|reflexivity]. revert m. unfold date_updates, filter_map.
  induction rows as [|r rows IH]; intros m; cbn [fold_left flat_map]; [reflexivity|]. rewrite calendar_date_row_contrib.
  destruct (d_contrib (view hdr r)) as [[sid x]|]; cbn [app fold_left]; apply IH.
Qed.

(* the rows of one service *)
Definition own_calendar (sid : string) (hdr : list string) (rows : list (list string)) : list service :=
  filter_map (fun cells => match c_contrib (view hdr cells) with Some (sid', s) => if String.eqb sid' sid then Some s else None | None => None end) rows.
Definition own_exceptions (sid : string) (hdr : list string) (rows : list (list string)) : list (Z * bool) :=
  filter_map (fun cells => match d_contrib (view hdr cells) with Some (sid', x) => if String.eqb sid' sid then Some x else None | None => None end) rows.
Lemma fold_cal_updates sid hdr rows : forall cur,
  fold_left (fun cur u => if String.eqb (fst u) sid then Some (snd u cur) else cur) (cal_updates hdr rows) cur =
  fold_left (fun _ s => Some s) (own_calendar sid hdr rows) cur.
Proof.
  unfold cal_updates, own_calendar, filter_map. induction rows as [|r rows IH]; intros cur; cbn [flat_map fold_left]; [reflexivity|].
  destruct (c_contrib (view hdr r)) as [[sid' s]|]; cbn [app fold_left fst snd]; [|apply IH]. destruct (String.eqb sid' sid); cbn [app fold_left]; apply IH.
Qed.
Lemma fold_date_updates sid hdr rows : forall cur,
  fold_left (fun cur u => if String.eqb (fst u) sid then Some (snd u cur) else cur) (date_updates hdr rows) cur =
  fold_left (fun cur x => Some (apply_exc sid cur x)) (own_exceptions sid hdr rows) cur.
Proof.
  unfold date_updates, own_exceptions, filter_map. induction rows as [|r rows IH]; intros cur; cbn [flat_map fold_left]; [reflexivity|].
  destruct (d_contrib (view hdr r)) as [[sid' x]|]; cbn [app fold_left fst snd]; [|apply IH].
  destruct (String.eqb_spec sid' sid) as [->|N]; cbn [app fold_left]; apply IH.
Qed.

(* C11: the service of an id is its last valid calendar row, then its exceptions in file order *)
Theorem service_of_id sid h1 rows1 h2 rows2 :
  has_columns h1 (["start_date"; "end_date"; "service_id"] ++ day_cols) = true -> has_columns h2 ["service_id"; "date"; "exception_type"] = true ->
  alookup sid (parse_calendar_dates di zone (parse_calendar di zone [] h1 rows1) h2 rows2) =
  fold_left (fun cur x => Some (apply_exc sid cur x)) (own_exceptions sid h2 rows2)
            (fold_left (fun _ s => Some s) (own_calendar sid h1 rows1) None).
Proof.
  intros H1 H2. rewrite parse_calendar_dates_updates, H2, parse_calendar_updates, H1, !fold_upd_lookup. cbn [alookup].
  now rewrite fold_cal_updates, fold_date_updates.
Qed.
(* consequences: the added dates are the type-1 dates in file order, the removed dates the type-2 ones, after whatever the
   calendar row left (nothing) *)
Lemma exceptions_lists sid xs : forall cur,
  match fold_left (fun cur x => Some (apply_exc sid cur x)) xs cur with
  | Some s => sv_added s = match cur with Some c => sv_added c | None => [] end ++ map fst (filter snd xs) /\
              sv_removed s = match cur with Some c => sv_removed c | None => [] end ++ map fst (filter (fun x => negb (snd x)) xs)
  | None => cur = None /\ xs = []
  end.
Proof.
  induction xs as [|[d ad] xs IH]; intros cur; cbn [fold_left filter map].
  - destruct cur; [now rewrite !app_nil_r|tauto].
  - specialize (IH (Some (apply_exc sid cur (d, ad)))). destruct (fold_left _ xs _) as [s|]; [|destruct IH; discriminate].
    destruct IH as [A R]. rewrite A, R. unfold apply_exc. destruct ad, cur; cbn; now rewrite <- ?app_assoc.
Qed.
End WithOracles.
