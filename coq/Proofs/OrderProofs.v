(* Proofs/OrderProofs.v — C08 at the level of the whole file: the rows of stop_times.txt may come in any order (trips
   interleaved, sequences unsorted).  Provided no trip receives two rows with the same stop_sequence, every permutation of the
   rows yields the same trips, stop times included. *)
From Coq Require Import Permutation Sorted.
From GV Require Import Base.Prelude Base.Dec Base.Sort Model.Csv Model.Realtime Model.Static Model.Purity
  Proofs.StaticProofs Proofs.PurityProofs Proofs.InertProofs.

(* update at an index, structurally *)
Fixpoint upd_at {A} (i : nat) (f : A -> A) (l : list A) : list A :=
  match l, i with [], _ => [] | x :: r, O => f x :: r | x :: r, S i' => x :: upd_at i' f r end.
Lemma upd_trip_at ts i f : upd_trip ts i f = upd_at i f ts.
Proof.
  unfold upd_trip. revert i. induction ts as [|a ts IH]; intros [|i]; cbn; try reflexivity.
  specialize (IH i). destruct (nth_error ts i); cbn; now rewrite <- IH.
Qed.

(* two trips that differ at most in the ORDER of their stop times *)
Definition sim (a b : strip) : Prop := set_stop_times a [] = set_stop_times b [] /\ Permutation (tp_stop_times a) (tp_stop_times b).
Lemma sim_refl a : sim a a. Proof. split; reflexivity. Qed.
Lemma sim_trans a b c : sim a b -> sim b c -> sim a c.
Proof. intros [A1 A2] [B1 B2]. split; [congruence|eapply Permutation_trans; eauto]. Qed.
Lemma sim_id a b : sim a b -> tp_id a = tp_id b.
Proof. intros [E _]. exact (f_equal tp_id E). Qed.
Definition simL : list strip -> list strip -> Prop := Forall2 sim.
Lemma simL_refl l : simL l l. Proof. induction l; constructor; auto using sim_refl. Qed.
Lemma simL_trans l1 l2 l3 : simL l1 l2 -> simL l2 l3 -> simL l1 l3.
Proof. unfold simL. intros H. revert l3. induction H as [|a b l1 l2 Hab H IH]; intros l3 H3; inversion H3; subst; constructor; [eapply sim_trans; eassumption|apply IH; assumption]. Qed.
Lemma simL_ids l1 l2 : simL l1 l2 -> map tp_id l1 = map tp_id l2.
Proof. induction 1 as [|a b l1 l2 Hab H IH]; cbn; [reflexivity|]. f_equal; [now apply sim_id|exact IH]. Qed.
Lemma simL_upd l1 l2 i f : simL l1 l2 -> (forall a b, sim a b -> sim (f a) (f b)) -> simL (upd_at i f l1) (upd_at i f l2).
Proof. intros H Hf. revert i. induction H as [|a b l1 l2 Hab H IH]; intros [|i]; cbn; constructor; auto. apply IH. Qed.

Definition app_st (x : stoptime) (t : strip) : strip := set_stop_times t (tp_stop_times t ++ [x]).
Lemma app_st_sim x a b : sim a b -> sim (app_st x a) (app_st x b).
Proof. intros [E P]. split; [destruct a, b; cbn in *; exact E|cbn; now apply Permutation_app_tail]. Qed.
Lemma app_st_comm x y a : sim (app_st y (app_st x a)) (app_st x (app_st y a)).
Proof. split; [destruct a; reflexivity|]. cbn. rewrite <- !app_assoc. apply Permutation_app_head. apply perm_swap. Qed.
Lemma upd_at_comm i j x y : forall ts, simL (upd_at j (app_st y) (upd_at i (app_st x) ts)) (upd_at i (app_st x) (upd_at j (app_st y) ts)).
Proof.
  revert j. induction i as [|i IH]; intros [|j] [|t ts]; cbn; try constructor; try apply simL_refl; try apply sim_refl.
  - apply app_st_comm.
  - apply IH.
Qed.

(* a row's contribution depends on the trips only through their ids *)
Definition ops := list (nat * stoptime).
Definition apply_ops (o : ops) (ts : list strip) : list strip := fold_left (fun ts c => upd_at (fst c) (app_st (snd c)) ts) o ts.
Lemma upd_at_ids i x ts : map tp_id (upd_at i (app_st x) ts) = map tp_id ts.
Proof. revert i. induction ts as [|t ts IH]; intros [|i]; cbn; try reflexivity. f_equal. apply IH. Qed.
Lemma apply_ops_sim o : forall t1 t2, simL t1 t2 -> simL (apply_ops o t1) (apply_ops o t2).
Proof. induction o as [|c o IH]; intros t1 t2 H; cbn; [exact H|]. apply IH. apply simL_upd; [exact H|]. intros a b. apply app_st_sim. Qed.
Lemma apply_ops_perm o o' : Permutation o o' -> forall t1 t2, simL t1 t2 -> simL (apply_ops o t1) (apply_ops o' t2).
Proof.
  induction 1 as [|c o o' P IH|c d o|o1 o2 o3 P1 IH1 P2 IH2]; intros t1 t2 H.
  - exact H.
  - cbn. apply IH. apply simL_upd; [exact H|]. intros a b. apply app_st_sim.
  - cbn. apply apply_ops_sim. eapply simL_trans; [apply upd_at_comm|].
    apply simL_upd; [|intros a b; apply app_st_sim]. apply simL_upd; [exact H|intros a b; apply app_st_sim].
  - eapply simL_trans; [apply IH1, simL_refl|]. now apply IH2.
Qed.

Section WithOracles.
Variable pf : string -> option Z.
(* what a row contributes: the index of the trip it names (the last one with that id) and the stop time *)
Definition contrib (stops : list stop) (trips : list strip) (v : rowview) : option (nat * stoptime) :=
  let a := parse_gtfs_time (optional v "arrival_time") in
  let d := parse_gtfs_time (optional v "departure_time") in
  match fill_times a d with
  | None => None
  | Some (arr, dep) =>
    let '(sq, m1) := required v "stop_sequence" in
    match atoi sq with
    | None => None
    | Some q =>
      let '(sid, m2) := required v "stop_id" in
      let '(tid, m3) := required v "trip_id" in
      if m1 || m2 || m3 then None else
      match find_last_index (fun s => String.eqb (s_id s) sid) stops 0 None, find_last_index (fun t => String.eqb (tp_id t) tid) trips 0 None with
      | Some si, Some ti =>
        Some (ti, {| st_stop := si; st_arr := arr; st_dep := dep; st_seq := q; st_headsign := optional v "stop_headsign";
              st_pickup := Gen.Enums.parsePickupDropOffPolicy (read_or v "pickup_type" "0"); st_dropoff := Gen.Enums.parsePickupDropOffPolicy (read_or v "drop_off_type" "0");
              st_cpickup := Gen.Enums.parsePickupDropOffPolicy (read_or v "continuous_pickup" ""); st_cdropoff := Gen.Enums.parsePickupDropOffPolicy (read_or v "continuous_drop_off" "");
              st_dist := parse_float64 pf (optional v "shape_dist_traveled"); st_exact := String.eqb (read_or v "timepoint" "1") "1" |})
      | _, _ => None
      end
    end
  end.
Lemma row_is_contrib stops ts v : stop_time_row pf stops ts v = match contrib stops ts v with Some (ti, x) => upd_at ti (app_st x) ts | None => ts end.
Proof.
  unfold stop_time_row, contrib. destruct (fill_times _ _) as [[arr dep]|]; [|reflexivity].
  destruct (required v "stop_sequence") as [sq m1]. destruct (atoi sq); [|reflexivity].
  destruct (required v "stop_id") as [sid m2]. destruct (required v "trip_id") as [tid m3]. destruct (_ || _); [reflexivity|].
  destruct (find_last_index _ stops 0 None); [|reflexivity]. destruct (find_last_index _ ts 0 None); [|reflexivity].
  apply upd_trip_at.
Qed.
Lemma contrib_ids stops ts ts' v : map tp_id ts = map tp_id ts' -> contrib stops ts v = contrib stops ts' v.
Proof.
  intros E. unfold contrib. destruct (fill_times _ _) as [[arr dep]|]; [|reflexivity].
  destruct (required v "stop_sequence") as [sq m1]. destruct (atoi sq); [|reflexivity].
  destruct (required v "stop_id") as [sid m2]. destruct (required v "trip_id") as [tid m3]. destruct (_ || _); [reflexivity|].
  rewrite (find_last_index_ids (fun id => String.eqb id tid) ts ts' 0 None E). reflexivity.
Qed.
Lemma fold_rows_ops stops hdr trips rows : forall ts, map tp_id ts = map tp_id trips ->
  fold_left (fun ts cells => stop_time_row pf stops ts (view hdr cells)) rows ts =
  apply_ops (filter_map (fun cells => contrib stops trips (view hdr cells)) rows) ts.
Proof.
  induction rows as [|r rows IH]; intros ts E; [reflexivity|]. cbn [fold_left]. rewrite row_is_contrib, (contrib_ids stops ts trips _ E).
  unfold filter_map. cbn [flat_map]. destruct (contrib stops trips (view hdr r)) as [[ti x]|]; cbn [app].
  - unfold apply_ops. cbn [fold_left fst snd]. apply IH. now rewrite upd_at_ids.
  - apply IH, E.
Qed.
End WithOracles.

(* ---- the map from trip id to trip index, and the final per-trip sort ---- *)
Lemma id_to_trip_ids l1 l2 : map tp_id l1 = map tp_id l2 -> id_to_trip l1 = id_to_trip l2.
Proof.
  unfold id_to_trip. generalize (@nil (string * nat)) as m. generalize 0%nat as i. revert l2.
  induction l1 as [|a l1 IH]; intros [|b l2] i m E; cbn in *; try discriminate; [reflexivity|]. inversion E as [[E1 E2]]. rewrite E1. now apply IH.
Qed.
Lemma alookup_aset_eq {A} k k' (v : A) m : alookup k (aset k' v m) = if String.eqb k' k then Some v else alookup k m.
Proof. destruct (String.eqb_spec k' k) as [->|N]; [apply alookup_aset_same|now apply alookup_aset_other]. Qed.
Lemma id_to_trip_lookup tid : forall l i m,
  alookup tid (fold_left (fun m it => aset (tp_id (snd it)) (fst it) m) (enum_from i l) m) =
  find_last_index (fun t : strip => String.eqb (tp_id t) tid) l i (alookup tid m).
Proof. induction l as [|x l IH]; intros i m; cbn; [reflexivity|]. rewrite IH, alookup_aset_eq. reflexivity. Qed.
Lemma alookup_in_values {A} k (v : A) m : alookup k m = Some v -> In v (map snd m).
Proof. induction m as [|[k' v'] m IH]; cbn; [discriminate|]. destruct (String.eqb k k'); [intros E; inversion E; now left|intros E; right; auto]. Qed.
Lemma target_is_mapped trips tid ti : find_last_index (fun t : strip => String.eqb (tp_id t) tid) trips 0 None = Some ti -> In ti (map snd (id_to_trip trips)).
Proof. intros H. apply (alookup_in_values tid). unfold id_to_trip. rewrite id_to_trip_lookup. exact H. Qed.
Lemma contrib_target pf stops trips v ti x : contrib pf stops trips v = Some (ti, x) -> In ti (map snd (id_to_trip trips)).
Proof.
  unfold contrib. destruct (fill_times _ _) as [[arr dep]|]; [|discriminate].
  destruct (required v "stop_sequence") as [sq m1]. destruct (atoi sq); [|discriminate].
  destruct (required v "stop_id") as [sid m2]. destruct (required v "trip_id") as [tid m3]. destruct (_ || _); [discriminate|].
  destruct (find_last_index _ stops 0 None); [|discriminate]. destruct (find_last_index _ trips 0 None) eqn:E; [|discriminate].
  intros H. inversion H; subst. eapply target_is_mapped; eauto.
Qed.

(* indices outside J keep empty stop times *)
Definition empty_outside (J : list nat) (ts : list strip) : Prop := forall i t, ~ In i J -> nth_error ts i = Some t -> tp_stop_times t = [].
Lemma nth_error_upd_at_other {A} (f : A -> A) : forall l i j, i <> j -> nth_error (upd_at j f l) i = nth_error l i.
Proof. induction l as [|x l IH]; intros [|i] [|j] N; cbn; try reflexivity; try congruence. apply IH. congruence. Qed.
Lemma nth_error_upd_at_same {A} (f : A -> A) : forall l i, nth_error (upd_at i f l) i = option_map f (nth_error l i).
Proof. induction l as [|x l IH]; intros [|i]; cbn; try reflexivity. apply IH. Qed.
Lemma apply_ops_empty_outside J o : Forall (fun c => In (fst c) J) o -> forall ts, empty_outside J ts -> empty_outside J (apply_ops o ts).
Proof.
  induction 1 as [|c o Hc Ho IH]; intros ts H; cbn; [exact H|]. apply IH. intros i t Hi E.
  assert (N : i <> fst c) by (intros ->; contradiction). rewrite nth_error_upd_at_other in E by exact N. eapply H; eauto.
Qed.

(* the final pass, index by index *)
Definition finalize (J : list nat) (ts : list strip) : list strip := fold_left (fun ts j => upd_at j sort_stop_times ts) J ts.
Lemma finalize_nth J : NoDup J -> forall ts i, nth_error (finalize J ts) i = if in_dec Nat.eq_dec i J then option_map sort_stop_times (nth_error ts i) else nth_error ts i.
Proof.
  induction 1 as [|j J Hj Hnd IH]; intros ts i; cbn [finalize fold_left]; [reflexivity|]. fold (finalize J (upd_at j sort_stop_times ts)). rewrite IH.
  destruct (in_dec Nat.eq_dec i J) as [Hi|Hi]; destruct (in_dec Nat.eq_dec i (j :: J)) as [Hi'|Hi']; cbn in Hi'.
  - assert (N : i <> j) by (intros ->; contradiction). now rewrite nth_error_upd_at_other.
  - exfalso. apply Hi'. now right.
  - destruct Hi' as [<-|Hi']; [|contradiction]. apply nth_error_upd_at_same.
  - assert (N : i <> j) by (intros ->; apply Hi'; now left). now rewrite nth_error_upd_at_other.
Qed.
Lemma finalize_is_fold (I : list (string * nat)) ts :
  fold_left (fun ts ki => upd_trip ts (snd ki) sort_stop_times) I ts = finalize (map snd I) ts.
Proof. revert ts. induction I as [|ki I IH]; intros ts; cbn; [reflexivity|]. rewrite upd_trip_at. apply IH. Qed.

Lemma nth_error_ext' {A} : forall l1 l2 : list A, (forall i, nth_error l1 i = nth_error l2 i) -> l1 = l2.
Proof.
  induction l1 as [|a l1 IH]; intros [|b l2] H; try reflexivity; try (specialize (H 0%nat); discriminate).
  f_equal; [specialize (H 0%nat); cbn in H; congruence|]. apply IH. intros i. exact (H (S i)).
Qed.
Lemma Forall2_len {A B} (R : A -> B -> Prop) l1 l2 : Forall2 R l1 l2 -> List.length l1 = List.length l2.
Proof. induction 1; cbn; congruence. Qed.
Section WithOracles2.
Variable pf : string -> option Z.
Theorem stop_times_rows_any_order stops trips hdr rows rows' :
  Permutation rows rows' ->
  Forall (fun t => tp_stop_times t = []) trips ->
  (forall t, In t (fold_left (fun ts cells => stop_time_row pf stops ts (view hdr cells)) rows trips) -> NoDup (map st_seq (tp_stop_times t))) ->
  parse_stop_times pf stops trips hdr rows = parse_stop_times pf stops trips hdr rows'.
Proof.
  intros P Hempty Hdistinct. unfold parse_stop_times. destruct (has_columns _ _); [|reflexivity].
  set (f1 := fold_left _ rows trips) in *. set (f2 := fold_left _ rows' trips).
  rewrite !finalize_is_fold.
  (* the two filled lists are similar *)
  assert (S12 : simL f1 f2).
  { unfold f1, f2. rewrite !(fold_rows_ops pf stops hdr trips) by reflexivity. apply apply_ops_perm; [|apply simL_refl].
    unfold filter_map. apply Permutation_flat_map, P. }
  assert (Eids1 : map tp_id f1 = map tp_id trips).
  { assert (G : forall rs ts, map tp_id (fold_left (fun ts cells => stop_time_row pf stops ts (view hdr cells)) rs ts) = map tp_id ts).
    { induction rs as [|r rs IH]; intros ts; cbn [fold_left]; [reflexivity|]. rewrite IH. apply stop_time_row_ids. }
    apply G. }
  assert (Eids12 : map tp_id f1 = map tp_id f2) by (apply simL_ids, S12).
  rewrite <- (id_to_trip_ids f1 f2 Eids12). rewrite (id_to_trip_ids f1 trips Eids1).
  set (J := map snd (id_to_trip trips)).
  assert (HJ : NoDup J) by (apply id_to_trip_values; [exact pf|exact (fun _ _ => None)]).
  (* outside J nothing was appended *)
  assert (Out1 : empty_outside J f1).
  { unfold f1. rewrite (fold_rows_ops pf stops hdr trips) by reflexivity. apply apply_ops_empty_outside.
    - apply Forall_forall. intros [ti x] Hin. unfold filter_map in Hin. apply in_flat_map in Hin as [cells [_ Hin]].
      destruct (contrib pf stops trips (view hdr cells)) as [[ti' x']|] eqn:E; [|destruct Hin]. destruct Hin as [Hin|[]]. inversion Hin; subst.
      cbn. eapply contrib_target; eauto.
    - intros i t _ E. rewrite Forall_forall in Hempty. apply Hempty. eapply nth_error_In; eauto. }
  (* index by index *)
  apply nth_error_ext'. intros i. rewrite !finalize_nth by exact HJ.
  assert (Hi : forall t1 t2, nth_error f1 i = Some t1 -> nth_error f2 i = Some t2 -> sim t1 t2).
  { clear - S12. revert i. induction S12 as [|a b l1 l2 Hab H IH]; intros [|i] t1 t2 E1 E2; cbn in *; try discriminate.
    - inversion E1; inversion E2; subst. exact Hab.
    - eapply IH; eauto. }
  assert (Hlen : nth_error f1 i = None <-> nth_error f2 i = None).
  { rewrite !nth_error_None. apply Forall2_len in S12. rewrite S12. tauto. }
  destruct (nth_error f1 i) as [t1|] eqn:E1, (nth_error f2 i) as [t2|] eqn:E2;
    try (destruct Hlen as [A B]; first [specialize (A eq_refl)|specialize (B eq_refl)]; discriminate).
  2:{ destruct (in_dec Nat.eq_dec i J); reflexivity. }
  destruct (Hi t1 t2 eq_refl eq_refl) as [Ef Pst].
  destruct (in_dec Nat.eq_dec i J) as [Hin|Hout]; cbn [option_map]; f_equal.
  - unfold sort_stop_times.
    assert (Es : isort stoptime (fun a b => st_seq a <? st_seq b) (tp_stop_times t1) = isort stoptime (fun a b => st_seq a <? st_seq b) (tp_stop_times t2)).
    { apply stop_times_row_order; [exact Pst|]. apply Hdistinct. eapply nth_error_In; eauto. }
    rewrite Es. destruct t1, t2; cbn in *. inversion Ef; subst. reflexivity.
  - pose proof (Out1 i t1 Hout E1) as Z1. rewrite Z1 in Pst. apply Permutation_nil in Pst.
    destruct t1, t2; cbn in *. inversion Ef; subst. reflexivity.
Qed.
End WithOracles2.

(* ================= shapes.txt: rows in any order ================= *)
Lemma perm_filter {A} (p : A -> bool) l l' : Permutation l l' -> Permutation (filter p l) (filter p l').
Proof.
  induction 1 as [|x l l' P IH|x y l|l1 l2 l3 P1 IH1 P2 IH2]; cbn.
  - constructor.
  - destruct (p x); [now constructor|exact IH].
  - destruct (p x), (p y); try reflexivity. apply perm_swap.
  - eapply Permutation_trans; eassumption.
Qed.
Section Shapes.
Variable pf : string -> option Z.
(* what a row contributes: its shape id and the point *)
Definition s_contrib (v : rowview) : option (string * shape_row) :=
  let '(sid, m1) := required v "shape_id" in
  let '(lat, m2) := required v "shape_pt_lat" in
  let '(lon, m3) := required v "shape_pt_lon" in
  let '(sq, m4) := required v "shape_pt_sequence" in
  if m1 || m2 || m3 || m4 then None else
  match parse_float64 pf lat, parse_float64 pf lon, parse_int32 sq with
  | Some la', Some lo, Some q => Some (sid, {| sr_lat := la'; sr_lon := lo; sr_seq := q; sr_dist := parse_float64 pf (optional v "shape_dist_traveled") |})
  | _, _, _ => None
  end.
Definition s_add (m : list (string * list shape_row)) (c : string * shape_row) : list (string * list shape_row) :=
  aset (fst c) (odflt [] (alookup (fst c) m) ++ [snd c]) m.
Lemma shapes_row_is_contrib m v : shapes_row pf m v = match s_contrib v with Some c => s_add m c | None => m end.
Proof.
  unfold shapes_row, s_contrib, s_add. destruct (required v "shape_id") as [sid m1]. destruct (required v "shape_pt_lat") as [lat m2].
  destruct (required v "shape_pt_lon") as [lon m3]. destruct (required v "shape_pt_sequence") as [sq m4]. destruct (_ || _); [reflexivity|].
  destruct (parse_float64 pf lat); [|reflexivity]. destruct (parse_float64 pf lon); [|reflexivity]. destruct (parse_int32 sq); reflexivity.
Qed.
Lemma fold_shapes_contribs hdr rows : forall m,
  fold_left (fun m cells => shapes_row pf m (view hdr cells)) rows m = fold_left s_add (filter_map (fun cells => s_contrib (view hdr cells)) rows) m.
Proof.
  induction rows as [|r rows IH]; intros m; [reflexivity|]. cbn [fold_left]. rewrite shapes_row_is_contrib. unfold filter_map. cbn [flat_map].
  destruct (s_contrib (view hdr r)); cbn [app fold_left]; apply IH.
Qed.
(* the rows of shape sid, in file order *)
Definition rows_of (sid : string) (cs : list (string * shape_row)) : list shape_row :=
  map snd (filter (fun c => String.eqb (fst c) sid) cs).
Lemma s_add_lookup m c sid : alookup sid (s_add m c) = if String.eqb (fst c) sid then Some (odflt [] (alookup sid m) ++ [snd c]) else alookup sid m.
Proof. unfold s_add. rewrite alookup_aset_eq. destruct (String.eqb_spec (fst c) sid) as [->|]; reflexivity. Qed.
Lemma fold_s_add_lookup sid : forall cs m,
  odflt [] (alookup sid (fold_left s_add cs m)) = odflt [] (alookup sid m) ++ rows_of sid cs.
Proof.
  induction cs as [|c cs IH]; intros m; cbn [fold_left]; [unfold rows_of; cbn; now rewrite app_nil_r|].
  rewrite IH, s_add_lookup. unfold rows_of. cbn [filter]. destruct (String.eqb (fst c) sid); cbn [map odflt]; [now rewrite <- app_assoc|reflexivity].
Qed.
Lemma fold_s_add_keys : forall cs m sid, In sid (map fst (fold_left s_add cs m)) <-> In sid (map fst m) \/ In sid (map fst cs).
Proof.
  induction cs as [|c cs IH]; intros m sid; cbn [fold_left map]; [cbn; tauto|]. rewrite IH. unfold s_add. rewrite aset_keys_in. cbn. intuition.
Qed.
Lemma fold_s_add_nodup : forall cs m, NoDup (map fst m) -> NoDup (map fst (fold_left s_add cs m)).
Proof. induction cs as [|c cs IH]; intros m H; cbn [fold_left]; [exact H|]. apply IH. unfold s_add. now apply aset_nodup. Qed.
Lemma alookup_in {A} k (v : A) m : NoDup (map fst m) -> (In (k, v) m <-> alookup k m = Some v).
Proof.
  induction m as [|[k' v'] m IH]; cbn; intros H; [split; [tauto|discriminate]|]. inversion H as [|? ? Hn Hnd]; subst.
  destruct (String.eqb_spec k k') as [->|N].
  - split; [intros [E|Hin]; [now inversion E|exfalso; apply Hn; change k' with (fst (k', v)); now apply in_map]|intros E; inversion E; now left].
  - rewrite <- (IH Hnd). split; [intros [E|Hin]; [inversion E; congruence|exact Hin]|tauto].
Qed.

Definition seq_lt_s (a b : shape_row) : bool := sr_seq a <? sr_seq b.
Lemma shape_rows_order l l' : Permutation l l' -> NoDup (map sr_seq l) -> isort shape_row seq_lt_s l = isort shape_row seq_lt_s l'.
Proof.
  intros P H. apply (isort_by_key_perm Base.Lex.sto_Z sr_seq); auto.
Qed.

Theorem shapes_rows_any_order hdr rows rows' :
  Permutation rows rows' ->
  (forall sid, NoDup (map sr_seq (rows_of sid (filter_map (fun cells => s_contrib (view hdr cells)) rows)))) ->
  parse_shapes pf hdr rows = parse_shapes pf hdr rows'.
Proof.
  intros P Hd. unfold parse_shapes. destruct (has_columns _ _); [|reflexivity]. rewrite !fold_shapes_contribs.
  set (cs := filter_map _ rows) in *. set (cs' := filter_map _ rows').
  assert (Pc : Permutation cs cs') by (unfold cs, cs', filter_map; apply Permutation_flat_map, P).
  set (m := fold_left s_add cs []). set (m' := fold_left s_add cs' []).
  assert (Nm : NoDup (map fst m)) by (apply fold_s_add_nodup; constructor).
  assert (Nm' : NoDup (map fst m')) by (apply fold_s_add_nodup; constructor).
  (* the two maps hold, per shape id, permutations of the same rows; hence equal shapes *)
  assert (Hshape : forall sid l l', alookup sid m = Some l -> alookup sid m' = Some l' ->
            shape_of (sid, l) = shape_of (sid, l')).
  { intros sid l l' E E'. pose proof (fold_s_add_lookup sid cs []) as A. pose proof (fold_s_add_lookup sid cs' []) as A'.
    fold m in A. fold m' in A'. rewrite E in A. rewrite E' in A'. cbn in A, A'. subst l l'. unfold shape_of. cbn [fst snd]. f_equal. f_equal.
    apply shape_rows_order; [|apply Hd]. unfold rows_of. apply Permutation_map.
    apply perm_filter, Pc. }
  assert (Hkeys : forall sid, In sid (map fst m) <-> In sid (map fst m')).
  { intros sid. unfold m, m'. rewrite !fold_s_add_keys. cbn. split; intros [[]|H]; right;
      [eapply Permutation_in; [apply Permutation_map; exact Pc|exact H]|eapply Permutation_in; [apply Permutation_map, Permutation_sym; exact Pc|exact H]]. }
  (* the two shape lists have pairwise distinct ids and the same elements *)
  assert (Hin : forall x, In x (map shape_of m) -> In x (map shape_of m')).
  { intros x Hx. apply in_map_iff in Hx as [[sid l] [<- Hl]]. apply (alookup_in _ _ _ Nm) in Hl.
    assert (Hk : In sid (map fst m')) by (apply Hkeys; apply in_map_iff; exists (sid, l); split; [reflexivity|now apply (alookup_in _ _ _ Nm)]).
    apply in_map_iff in Hk as [[sid' l'] [E Hl']]. cbn in E. subst sid'. apply in_map_iff. exists (sid, l'). split; [|exact Hl'].
    symmetry. apply Hshape; [exact Hl|now apply (alookup_in _ _ _ Nm')]. }
  assert (Hin' : forall x, In x (map shape_of m') -> In x (map shape_of m)).
  { intros x Hx. apply in_map_iff in Hx as [[sid l'] [<- Hl']]. apply (alookup_in _ _ _ Nm') in Hl'.
    assert (Hk : In sid (map fst m)) by (apply Hkeys; apply in_map_iff; exists (sid, l'); split; [reflexivity|now apply (alookup_in _ _ _ Nm')]).
    apply in_map_iff in Hk as [[sid' l] [E Hl]]. cbn in E. subst sid'. apply in_map_iff. exists (sid, l). split; [|exact Hl].
    apply Hshape; [now apply (alookup_in _ _ _ Nm)|exact Hl']. }
  assert (Kid : forall mm, map sh_id (map shape_of mm) = map fst mm) by (intros mm; rewrite map_map; reflexivity).
  apply (isort_by_key_perm Base.Lex.sto_string sh_id).
  - apply NoDup_Permutation.
    + apply (NoDup_map_inv sh_id). rewrite Kid. exact Nm.
    + apply (NoDup_map_inv sh_id). rewrite Kid. exact Nm'.
    + intros x. split; [apply Hin|apply Hin'].
  - rewrite Kid. exact Nm.
  - reflexivity.
Qed.
End Shapes.
