(* Proofs/JournalProofs.v — C14 / C15 lemmas about Model/Journal.v. *)
From GV Require Import Base.Prelude Base.Dec Model.Journal.
From Coq Require Import Sorted Permutation.

(* ---------- 1. stop-time list after an applied update (C14) ---------- *)
Lemma update_is_fresh e u t : stop_update e u t = fresh t u. Proof. reflexivity. Qed.

Lemma map_combine_snd {A B C} (f : B -> C) : forall (l1 : list A) (l2 : list B), List.length l1 = List.length l2 ->
  map (fun '(a, b) => f b) (combine l1 l2) = map f l2.
Proof. induction l1; destruct l2; cbn; intros; try lia; auto. f_equal. apply IHl1. lia. Qed.

Lemma run_len_le L us : (run_len L us <= List.length L /\ run_len L us <= List.length us)%nat.
Proof. revert us; induction L as [|e L IH]; destruct us as [|u us]; cbn; try lia.
  destruct (String.eqb _ _); [|lia]. specialize (IH us). lia. Qed.

Definition is_marked (e : j_stop) : Prop := js_marked e <> None.
Lemma mark_marked t e : is_marked (mark t e).
Proof. unfold is_marked, mark. destruct (js_marked e) eqn:E; cbn; congruence. Qed.
Lemma mark_once t t' e : mark t' (mark t e) = mark t e.
Proof. unfold mark at 1. destruct (js_marked (mark t e)) eqn:E; [reflexivity|]. now apply mark_marked in E. Qed.
Lemma mark_id t e : is_marked e -> mark t e = e.
Proof. unfold is_marked, mark. destruct (js_marked e); congruence. Qed.
(* marking changes nothing but the mark, and only sets it to t when it was absent *)
Lemma mark_fields t e : js_stop (mark t e) = js_stop e /\ js_arr (mark t e) = js_arr e /\ js_dep (mark t e) = js_dep e /\
  js_track (mark t e) = js_track e /\ js_last (mark t e) = js_last e /\
  js_marked (mark t e) = match js_marked e with Some m => Some m | None => Some t end.
Proof. unfold mark. destruct (js_marked e) eqn:E; cbn; rewrite ?E; repeat split. Qed.

(* the stop list an applied update produces: the three-way partition of the code collapses to two parts *)
Definition stops_after (L : list j_stop) (us : list ju_stop) (t : Z) : list j_stop :=
  match us with
  | [] => map (mark t) L
  | u0 :: _ => map (mark t) (firstn (first_index (stop_id_or_empty u0) L) L) ++ map (fresh t) us
  end.

Lemma partition_stops L us t :
  let p := create_partition L us in
  (map (mark t) (p_past p) ++ map (fun '(e, u) => stop_update e u t) (p_updated p)) ++ map (fresh t) (p_new p) = stops_after L us t.
Proof.
  unfold create_partition, stops_after. destruct us as [|u0 us'].
  - cbn. now rewrite !app_nil_r.
  - set (us := u0 :: us'). set (k := first_index (stop_id_or_empty u0) L). set (j := run_len (skipn k L) us).
    cbn [p_past p_updated p_new]. rewrite <- app_assoc. f_equal.
    replace (map (fresh t) us) with (map (fresh t) (firstn j us ++ skipn j us)) by now rewrite firstn_skipn.
    rewrite map_app. f_equal.
    erewrite (map_ext _ (fun p => let '(_, u) := p in fresh t u)) by (intros [? ?]; reflexivity).
    apply map_combine_snd. pose proof (run_len_le (skipn k L) us) as H. fold j in H.
    rewrite !firstn_length. lia.
Qed.

Theorem trip_update_stops tr u t : ignored tr u = false ->
  jt_stops (trip_update tr u t) = stops_after (jt_stops tr) (ut_stops u) t.
Proof. intros H. unfold trip_update. rewrite H. cbn [jt_stops]. apply partition_stops. Qed.

Lemma first_index_opt_spec s L i : first_index_opt s L = Some i ->
  (i < List.length L)%nat /\ option_map js_stop (nth_error L i) = Some s /\
  forall j, (j < i)%nat -> option_map js_stop (nth_error L j) <> Some s.
Proof.
  revert i; induction L as [|e L IH]; cbn; intros i H; [discriminate|].
  destruct (String.eqb_spec (js_stop e) s) as [E|N].
  - injection H as <-. cbn. repeat split; [lia|now rewrite E|lia].
  - destruct (first_index_opt s L) as [i'|]; [|discriminate]. injection H as <-.
    destruct (IH i' eq_refl) as [H1 [H2 H3]]. cbn. repeat split; [lia|exact H2|].
    intros [|j] Hj; cbn; [congruence|]. apply H3. lia.
Qed.
Lemma first_index_found s L i : first_index_opt s L = Some i -> first_index s L = i.
Proof. unfold first_index. now intros ->. Qed.
Lemma first_index_opt_in s L : In s (map js_stop L) -> exists i, first_index_opt s L = Some i.
Proof. induction L as [|e L IH]; cbn; [tauto|]. intros [E|H].
  - rewrite E, String.eqb_refl. eauto.
  - destruct (String.eqb (js_stop e) s); [eauto|]. destruct (IH H) as [i ->]. cbn. eauto. Qed.

(* no drop: if the first updated stop is already in the list, every entry before (its first occurrence) survives *)
Theorem no_drop L u0 us t i : first_index_opt (stop_id_or_empty u0) L = Some i ->
  firstn i (stops_after L (u0 :: us) t) = map (mark t) (firstn i L).
Proof.
  intros H. unfold stops_after. rewrite (first_index_found _ _ _ H).
  destruct (first_index_opt_spec _ _ _ H) as [Hi _].
  rewrite firstn_app, map_length, firstn_length, firstn_all2 by (rewrite map_length, firstn_length; lia).
  replace (i - Nat.min i (List.length L))%nat with 0%nat by lia. cbn. now rewrite app_nil_r.
Qed.

(* ---------- 2. per-trip invariant over all histories (C14 / C15) ---------- *)
(* P = past entries (all marked), C = current entries: exactly those of the last applied update, stamped with its time and
   unmarked — or all marked once the trip itself has been marked past *)
Definition trip_ok (tr : j_trip) : Prop :=
  exists P C, jt_stops tr = P ++ C /\ Forall is_marked P /\
    match jt_marked tr with
    | Some _ => Forall is_marked C
    | None => Forall (fun e => js_marked e = None /\ js_last e = jt_last tr) C
    end.

Lemma Forall_map_mark t l : Forall is_marked (map (mark t) l).
Proof. induction l; cbn; constructor; auto using mark_marked. Qed.

Lemma trip_ok_new : trip_ok new_trip.
Proof. exists [], []. cbn. repeat split; constructor. Qed.

Lemma trip_ok_update tr u t : trip_ok tr -> trip_ok (trip_update tr u t).
Proof.
  intros H. destruct (ignored tr u) eqn:I.
  - unfold trip_update. now rewrite I.
  - unfold trip_ok. rewrite trip_update_stops by exact I.
    assert (Em : jt_marked (trip_update tr u t) = None) by (unfold trip_update; now rewrite I).
    assert (El : jt_last (trip_update tr u t) = t) by (unfold trip_update; now rewrite I).
    rewrite Em, El. unfold stops_after. destruct (ut_stops u) as [|u0 us].
    + exists (map (mark t) (jt_stops tr)), []. rewrite app_nil_r. repeat split; [apply Forall_map_mark|constructor].
    + eexists _, _. split; [reflexivity|]. split; [apply Forall_map_mark|].
      apply Forall_forall. intros e He. apply in_map_iff in He as [x [<- _]]. cbn. auto.
Qed.

Lemma trip_ok_mark_past tr t : trip_ok (trip_mark_past t tr).
Proof.
  exists (map (mark t) (jt_stops tr)), []. cbn [jt_stops trip_mark_past]. rewrite app_nil_r. split; [reflexivity|].
  split; [apply Forall_map_mark|]. cbn [jt_marked trip_mark_past]. destruct (jt_marked tr); constructor.
Qed.

(* C15: bookkeeping facts of one update / one mark *)
Lemma unassigned_update_ignored tr u t : jt_assigned tr = true -> ut_vehicle u = None -> trip_update tr u t = tr.
Proof. intros A V. unfold trip_update, ignored. now rewrite A, V. Qed.
Lemma update_count tr u t : jt_nupd (trip_update tr u t) = jt_nupd tr + (if ignored tr u then 0 else 1).
Proof. unfold trip_update. destruct (ignored tr u); cbn; lia. Qed.
Lemma update_fields tr u t : ignored tr u = false ->
  let tr' := trip_update tr u t in
  jt_uid tr' = uid_of u /\ jt_id tr' = ut_id u /\ jt_route tr' = ut_route u /\ jt_dir tr' = ut_dir u /\ jt_start tr' = start_of u /\
  jt_vehicle tr' = match ut_vehicle u with Some (Some id) => id | _ => "" end /\
  jt_assigned tr' = (jt_assigned tr || is_some (ut_vehicle u)) /\ jt_last tr' = t /\ jt_marked tr' = None.
Proof. intros I. unfold trip_update. rewrite I. cbn. repeat split. Qed.
Lemma mark_past_fields tr t :
  let tr' := trip_mark_past t tr in
  jt_marked tr' = (match jt_marked tr with Some m => Some m | None => Some t end) /\ Forall is_marked (jt_stops tr') /\
  jt_uid tr' = jt_uid tr /\ jt_nupd tr' = jt_nupd tr /\ jt_last tr' = jt_last tr /\ jt_assigned tr' = jt_assigned tr /\ jt_start tr' = jt_start tr.
Proof. cbn. repeat split. apply Forall_map_mark. Qed.
Lemma mark_past_once t t' tr : trip_mark_past t' (trip_mark_past t tr) = trip_mark_past t tr.
Proof. unfold trip_mark_past. cbn. f_equal.
  - rewrite map_map. apply map_ext. intros e. apply mark_once.
  - destruct (jt_marked tr); reflexivity. Qed.
Lemma assigned_monotone tr u t : jt_assigned tr = true -> jt_assigned (trip_update tr u t) = true.
Proof. intros A. unfold trip_update. destruct (ignored tr u); [exact A|]. cbn. now rewrite A. Qed.

(* ---------- 3. association-list facts ---------- *)
Lemma alookup_amap {A} k k' (f : A -> A) l : alookup k (amap k' f l) = if String.eqb k' k then option_map f (alookup k l) else alookup k l.
Proof.
  induction l as [|[k2 v] l IH]; cbn [amap map alookup]; [now destruct (String.eqb k' k)|].
  destruct (String.eqb_spec k' k2) as [->|N1]; cbn [alookup].
  - destruct (String.eqb_spec k k2) as [->|N2].
    + now rewrite String.eqb_refl.
    + fold (amap k2 f l). rewrite IH. reflexivity.
  - destruct (String.eqb_spec k k2) as [->|N2].
    + destruct (String.eqb_spec k' k2); [congruence|reflexivity].
    + fold (amap k' f l). exact IH.
Qed.
Lemma amap_keys {A} k (f : A -> A) l : map fst (amap k f l) = map fst l.
Proof. induction l as [|[k2 v] l IH]; cbn; [reflexivity|]. destruct (String.eqb k k2); cbn; f_equal; exact IH. Qed.
Lemma aset_keys {A} k (v : A) l : map fst (aset k v l) = if existsb (String.eqb k) (map fst l) then map fst l else map fst l ++ [k].
Proof. induction l as [|[k2 v2] l IH]; cbn; [reflexivity|].
  destruct (String.eqb_spec k k2) as [->|N]; cbn; [reflexivity|]. rewrite IH. destruct (existsb _ _); reflexivity. Qed.
Lemma existsb_eqb_in k l : existsb (String.eqb k) l = true <-> In k l.
Proof. rewrite existsb_exists. split; [intros [x [H E]]; apply String.eqb_eq in E; now subst|intros H; exists k; now rewrite String.eqb_refl]. Qed.
Lemma NoDup_snoc {A} (l : list A) x : NoDup l -> ~ In x l -> NoDup (l ++ [x]).
Proof. induction l as [|a l IH]; cbn; intros H N; [constructor; [tauto|constructor]|].
  inversion H; subst. constructor; [|apply IH; tauto]. rewrite in_app_iff. cbn. intros [?|[?|[]]]; [tauto|subst; tauto]. Qed.
Lemma aset_nodup {A} k (v : A) l : NoDup (map fst l) -> NoDup (map fst (aset k v l)).
Proof. intros H. rewrite aset_keys. destruct (existsb _ _) eqn:E; [exact H|].
  apply NoDup_snoc; [exact H|]. intros I. apply existsb_eqb_in in I. congruence. Qed.
Lemma alookup_in {A} k (v : A) l : alookup k l = Some v -> In (k, v) l.
Proof. induction l as [|[k2 v2] l IH]; cbn; [discriminate|]. destruct (String.eqb_spec k k2) as [->|N]; [intros [= ->]; now left|intros H; right; auto]. Qed.
Lemma in_alookup {A} k (v : A) l : NoDup (map fst l) -> In (k, v) l -> alookup k l = Some v.
Proof. induction l as [|[k2 v2] l IH]; cbn; [tauto|]. intros H [E|I].
  - injection E as -> ->. now rewrite String.eqb_refl.
  - inversion H; subst. destruct (String.eqb_spec k k2) as [->|N]; [|auto].
    exfalso. apply H2. apply in_map_iff. exists (k2, v). auto. Qed.

(* ---------- 4. one feed, seen from one UID (C15: trips are accounted independently of each other) ---------- *)
Definition concerns (uid : string) (u : ju_trip) : bool := negb (String.length (ut_id u) <? 6)%nat && String.eqb (uid_of u) uid.
Definition upd1 (t : Z) (o : option j_trip) (u : ju_trip) : option j_trip := Some (trip_update (odflt new_trip o) u t).
Definition is_nil {A} (l : list A) : bool := match l with [] => true | _ => false end.
(* per-UID state: the entry (if any) and whether the UID occurred in the previous feed *)
Definition step_uid (uid : string) (s : option j_trip * bool) (f : j_feed) : option j_trip * bool :=
  let t := jf_created f in
  let us := filter (concerns uid) (jf_trips f) in
  let o' := fold_left (upd1 t) us (fst s) in
  let present := negb (is_nil us) in
  (if snd s && negb present then option_map (trip_mark_past t) o' else o', present).

Lemma mem_cons s x l : mem s (x :: l) = String.eqb s x || mem s l. Proof. reflexivity. Qed.

Lemma apply_trip_uid uid t trips na u :
  alookup uid (fst (apply_trip t (trips, na) u)) = (if concerns uid u then upd1 t (alookup uid trips) u else alookup uid trips) /\
  mem uid (snd (apply_trip t (trips, na) u)) = (mem uid na || concerns uid u).
Proof.
  unfold apply_trip, concerns. destruct (String.length (ut_id u) <? 6)%nat eqn:L; cbn [negb andb fst snd].
  - now rewrite orb_false_r.
  - rewrite mem_cons. destruct (String.eqb_spec (uid_of u) uid) as [E|N].
    + rewrite E, alookup_aset_same, String.eqb_refl. cbn [orb]. rewrite orb_true_r. split; [|reflexivity].
      unfold upd1, odflt. reflexivity.
    + rewrite alookup_aset_other by exact N. destruct (String.eqb_spec uid (uid_of u)); [congruence|]. cbn [orb]. now rewrite orb_false_r.
Qed.
Lemma fold_apply_trip uid t : forall us acc,
  let r := fold_left (apply_trip t) us acc in
  alookup uid (fst r) = fold_left (upd1 t) (filter (concerns uid) us) (alookup uid (fst acc)) /\
  mem uid (snd r) = (mem uid (snd acc) || negb (is_nil (filter (concerns uid) us))).
Proof.
  induction us as [|u us IH]; intros [trips na]; cbn [fold_left filter fst snd].
  - cbn. now rewrite orb_false_r.
  - specialize (IH (apply_trip t (trips, na) u)). cbv zeta in IH. destruct IH as [IH1 IH2].
    destruct (apply_trip_uid uid t trips na u) as [A1 A2]. rewrite IH1, IH2, A1, A2.
    destruct (concerns uid u); cbn [fold_left is_nil negb].
    + now rewrite !orb_true_r.
    + now rewrite orb_false_r.
Qed.

Lemma fold_mark uid t : forall gone trips,
  alookup uid (fold_left (fun tr k => amap k (trip_mark_past t) tr) gone trips) =
  if mem uid gone then option_map (trip_mark_past t) (alookup uid trips) else alookup uid trips.
Proof.
  induction gone as [|g gone IH]; intros trips; cbn [fold_left]; [reflexivity|].
  rewrite IH, alookup_amap, mem_cons. destruct (String.eqb_spec g uid) as [->|N].
  - rewrite String.eqb_refl. cbn [orb]. destruct (mem uid gone); [|reflexivity].
    destruct (alookup uid trips); cbn; [now rewrite mark_past_once|reflexivity].
  - destruct (String.eqb_spec uid g); [congruence|]. reflexivity.
Qed.
Lemma mem_filter s p l : mem s (filter p l) = mem s l && p s.
Proof. induction l as [|x l IH]; cbn [filter]; [reflexivity|]. destruct (p x) eqn:P.
  - rewrite !mem_cons, IH. destruct (String.eqb_spec s x) as [->|N]; [now rewrite P|reflexivity].
  - rewrite mem_cons, IH. destruct (String.eqb_spec s x) as [->|N]; [rewrite P; cbn; now rewrite andb_false_r|reflexivity].
Qed.

Theorem apply_feed_uid st f uid :
  let st' := apply_feed st f in
  (alookup uid (st_trips st'), mem uid (st_active st')) = step_uid uid (alookup uid (st_trips st), mem uid (st_active st)) f.
Proof.
  unfold apply_feed, step_uid. cbn [fst snd].
  pose proof (fold_apply_trip uid (jf_created f) (jf_trips f) (st_trips st, [])) as H. cbv zeta in H.
  destruct (fold_left (apply_trip (jf_created f)) (jf_trips f) (st_trips st, [])) as [trips na] eqn:F.
  cbn [fst snd] in H. destruct H as [H1 H2]. cbn [st_trips st_active]. f_equal; [|exact H2].
  rewrite fold_mark, mem_filter, H1, H2. cbn [mem existsb orb].
  destruct (mem uid (st_active st)); cbn [andb]; [|reflexivity].
  destruct (is_nil (filter (concerns uid) (jf_trips f))); reflexivity.
Qed.

(* over a whole history: the entry of a UID is a fold over the feeds that looks only at that UID's own updates *)
Theorem history_uid uid : forall feeds st,
  let st' := fold_left apply_feed feeds st in
  (alookup uid (st_trips st'), mem uid (st_active st')) = fold_left (step_uid uid) feeds (alookup uid (st_trips st), mem uid (st_active st)).
Proof.
  induction feeds as [|f feeds IH]; intros st; cbn [fold_left]; [reflexivity|].
  rewrite <- apply_feed_uid. apply IH.
Qed.

(* ---------- 5. whole-journal invariant and the output (C15) ---------- *)
From GV Require Import Base.Sort Base.StrOrd.
Definition entry_ok (kv : string * j_trip) : Prop := jt_uid (snd kv) = fst kv /\ trip_ok (snd kv).
Definition trips_ok (l : list (string * j_trip)) : Prop := NoDup (map fst l) /\ Forall entry_ok l.
Definition state_ok (st : jstate) : Prop := trips_ok (st_trips st).

Lemma aset_forall {A} (Q : string * A -> Prop) k v l : Q (k, v) -> Forall Q l -> Forall Q (aset k v l).
Proof. intros Hq. induction l as [|[k2 v2] l IH]; cbn; intros H; [repeat constructor; exact Hq|].
  inversion H; subst. destruct (String.eqb k k2); constructor; auto. Qed.
Lemma amap_forall {A} (Q : string * A -> Prop) k f l : (forall k' v, Q (k', v) -> Q (k', f v)) -> Forall Q l -> Forall Q (amap k f l).
Proof. intros Hf. induction l as [|[k2 v2] l IH]; cbn; intros H; [constructor|].
  inversion H; subst. destruct (String.eqb k k2); constructor; auto. Qed.

Lemma uid_update tr u t k : (ignored tr u = true -> jt_uid tr = k) -> uid_of u = k -> jt_uid (trip_update tr u t) = k.
Proof. intros Hi E. unfold trip_update. destruct (ignored tr u); [auto|exact E]. Qed.

Lemma apply_trip_ok t acc u : trips_ok (fst acc) -> trips_ok (fst (apply_trip t acc u)).
Proof.
  destruct acc as [trips na]. unfold apply_trip. destruct (String.length (ut_id u) <? 6)%nat; [auto|]. cbn [fst].
  intros [Hn Hf]. split; [now apply aset_nodup|]. apply aset_forall; [|exact Hf]. unfold entry_ok. cbn [fst snd].
  destruct (alookup (uid_of u) trips) as [e|] eqn:L.
  - apply alookup_in in L. rewrite Forall_forall in Hf. destruct (Hf _ L) as [Hu Hok]. cbn [fst snd] in *.
    split; [apply uid_update; auto|now apply trip_ok_update].
  - split; [apply uid_update; [|reflexivity]|apply trip_ok_update, trip_ok_new]. unfold ignored. cbn. discriminate.
Qed.
Lemma fold_apply_trip_ok t us : forall acc, trips_ok (fst acc) -> trips_ok (fst (fold_left (apply_trip t) us acc)).
Proof. induction us as [|u us IH]; intros acc H; cbn [fold_left]; [exact H|]. apply IH. now apply apply_trip_ok. Qed.
Lemma fold_mark_ok t gone : forall trips, trips_ok trips -> trips_ok (fold_left (fun tr k => amap k (trip_mark_past t) tr) gone trips).
Proof. induction gone as [|g gone IH]; intros trips H; cbn [fold_left]; [exact H|]. apply IH. destruct H as [Hn Hf].
  split; [now rewrite amap_keys|]. apply amap_forall; [|exact Hf]. intros k v [Hu _]. split; [exact Hu|apply trip_ok_mark_past]. Qed.

Theorem apply_feed_ok st f : state_ok st -> state_ok (apply_feed st f).
Proof.
  unfold state_ok, apply_feed. intros H.
  pose proof (fold_apply_trip_ok (jf_created f) (jf_trips f) (st_trips st, []) H) as H'.
  destruct (fold_left (apply_trip (jf_created f)) (jf_trips f) (st_trips st, [])) as [trips na]. cbn [st_trips fst] in *.
  now apply fold_mark_ok.
Qed.
Theorem history_ok feeds : state_ok (fold_left apply_feed feeds jinit).
Proof. assert (G : forall fs st, state_ok st -> state_ok (fold_left apply_feed fs st)).
  { induction fs as [|f fs IH]; intros st H; cbn [fold_left]; [exact H|]. apply IH. now apply apply_feed_ok. }
  apply G. split; constructor. Qed.

(* the output *)
Definition slt (a b : string) : Prop := String.ltb a b = true.
Lemma slt_irrefl x : ~ slt x x. Proof. unfold slt. rewrite sltb_irrefl. discriminate. Qed.
Lemma ssort_sorted l : NoDup l -> StronglySorted slt (ssort l).
Proof. intros H. unfold ssort. apply (isort_sorted string String.ltb sltb_trans l H). intros x y _ _. apply sltb_total. Qed.
Lemma ssort_in l x : In x (ssort l) <-> In x l.
Proof. unfold ssort. split; intros H; [apply (Permutation_in _ (isort_perm string String.ltb l)), H|apply (Permutation_in _ (Permutation_sym (isort_perm string String.ltb l))), H]. Qed.
Lemma filter_keys_nodup {A} (p : string * A -> bool) l : NoDup (map fst l) -> NoDup (map fst (filter p l)).
Proof. induction l as [|x l IH]; cbn; intros H; [constructor|]. inversion H; subst. destruct (p x); cbn; [|auto].
  constructor; [|auto]. intros I. apply H2. apply in_map_iff in I as [y [E Hy]]. apply filter_In in Hy as [Hy _]. apply in_map_iff. eauto. Qed.

Lemma lookup_all st ids : state_ok st -> (forall k, In k ids -> In k (map fst (st_trips st))) ->
  map jt_uid (flat_map (fun uid => match alookup uid (st_trips st) with Some tr => [tr] | None => [] end) ids) = ids.
Proof.
  intros [Hn Hf] Hin. induction ids as [|k ids IH]; cbn [flat_map]; [reflexivity|].
  destruct (alookup k (st_trips st)) as [tr|] eqn:L.
  - cbn [app map]. f_equal; [|apply IH; intros; apply Hin; now right].
    apply alookup_in in L. rewrite Forall_forall in Hf. apply (Hf _ L).
  - exfalso. specialize (Hin k (or_introl eq_refl)). apply in_map_iff in Hin as [[k' v] [E Hv]]. cbn in E. subst k'.
    rewrite (in_alookup _ _ _ Hn Hv) in L. discriminate.
Qed.

(* sorted by UID, without duplicates *)
Theorem journal_sorted st a b : state_ok st -> StronglySorted slt (map jt_uid (journal_of st a b)).
Proof.
  intros H. unfold journal_of. rewrite lookup_all; [|exact H|].
  - apply ssort_sorted. apply filter_keys_nodup. apply H.
  - intros k Hk. apply (proj1 (ssort_in _ _)) in Hk. apply in_map_iff in Hk as [kv [E Hk]]. apply filter_In in Hk as [Hk _]. apply in_map_iff; eauto.
Qed.
(* exactly the entries whose start lies in the window and that were assigned *)
Theorem journal_selection st a b tr : state_ok st ->
  (In tr (journal_of st a b) <-> In (jt_uid tr, tr) (st_trips st) /\ selected a b tr = true).
Proof.
  intros [Hn Hf]. unfold journal_of. rewrite in_flat_map. split.
  - intros [k [Hk Hl]]. apply (proj1 (ssort_in _ _)) in Hk. destruct (alookup k (st_trips st)) as [tr'|] eqn:L; [|destruct Hl].
    destruct Hl as [<-|[]]. apply alookup_in in L. pose proof L as L'. rewrite Forall_forall in Hf. apply Hf in L'. destruct L' as [Hu _]. cbn in Hu.
    rewrite Hu. split; [exact L|]. apply in_map_iff in Hk as [[k' v] [E Hv]]. cbn in E. subst k'. apply filter_In in Hv as [Hv Hs].
    pose proof (in_alookup _ _ _ Hn Hv) as E1. pose proof (in_alookup _ _ _ Hn L) as E2. rewrite E1 in E2. injection E2 as ->. exact Hs.
  - intros [Hi Hs]. exists (jt_uid tr). split.
    + apply (proj2 (ssort_in _ _)). apply in_map_iff. exists (jt_uid tr, tr). split; [reflexivity|]. apply filter_In. auto.
    + rewrite (in_alookup _ _ _ Hn Hi). now left.
Qed.

(* ---------- 6. the UID (C15): injective on NYCT-style ids, not in general (K1) ---------- *)
Lemma bytes_of_app a b : bytes_of (a ++ b)%string = bytes_of a ++ bytes_of b.
Proof. unfold bytes_of. induction a as [|c a IH]; cbn; [reflexivity|]. f_equal. exact IH. Qed.
Lemma bytes_of_str_of_bytes l : Forall (fun c => 0 <= c < 256) l -> bytes_of (str_of_bytes l) = l.
Proof. unfold bytes_of, str_of_bytes. rewrite list_ascii_of_string_of_list_ascii, map_map.
  induction l as [|c l IH]; intros H; cbn [map]; [reflexivity|]. inversion H; subst. f_equal; [|auto].
  unfold byte_of. rewrite N_ascii_embedding by lia. lia. Qed.
Lemma digit_range c : is_digit c = true -> 0 <= c < 256.
Proof. unfold is_digit. intros H. apply andb_true_iff in H as [A B]. apply Z.leb_le in A, B. lia. Qed.
Definition nyct_like (u : ju_trip) : Prop := 0 <= start_of u /\ no_leading_digit (bytes_of (sdrop 6 (ut_id u))).
Theorem uid_injective_nyct u1 u2 : nyct_like u1 -> nyct_like u2 -> uid_of u1 = uid_of u2 ->
  start_of u1 = start_of u2 /\ sdrop 6 (ut_id u1) = sdrop 6 (ut_id u2).
Proof.
  intros [P1 N1] [P2 N2] E. apply (f_equal bytes_of) in E. unfold uid_of, show_Zs, show_Z in E. rewrite !bytes_of_app in E.
  destruct (start_of u1 <? 0) eqn:L1; [apply Z.ltb_lt in L1; lia|]. destruct (start_of u2 <? 0) eqn:L2; [apply Z.ltb_lt in L2; lia|].
  rewrite !bytes_of_str_of_bytes in E.
  - destruct (show_suffix_injective _ _ _ _ P1 P2 N1 N2 E) as [A B]. split; [exact A|now apply bytes_of_inj].
  - eapply Forall_impl; [|apply (show_nat_digits _ P2)]. apply digit_range.
  - eapply Forall_impl; [|apply (show_nat_digits _ P1)]. apply digit_range.
Qed.
Definition k1_a : ju_trip := {| ut_id := "0000000x"; ut_route := ""; ut_dir := 0; ut_date := 10; ut_time := 0; ut_vehicle := Some (Some "v"); ut_stops := [] |}.
Definition k1_b : ju_trip := {| ut_id := "000000x"; ut_route := ""; ut_dir := 0; ut_date := 100; ut_time := 0; ut_vehicle := Some (Some "v"); ut_stops := [] |}.
(* the unguarded statement "one entry per distinct (start instant, id suffix)" is false of the model, as of the code *)
Example uid_collision_refuted : uid_of k1_a = uid_of k1_b /\ (start_of k1_a, sdrop 6 (ut_id k1_a)) <> (start_of k1_b, sdrop 6 (ut_id k1_b)) /\
  List.length (build_journal [{| jf_created := 1000; jf_trips := [k1_a; k1_b] |}] (ns (-1000000)) (ns 1000000)) = 1%nat.
Proof. split; [vm_compute; reflexivity|]. split; [intros H; inversion H|vm_compute; reflexivity]. Qed.
Example nyct_like_example : nyct_like {| ut_id := "067800_L..N"; ut_route := "L"; ut_dir := 2; ut_date := 1699938000; ut_time := 40680000000000; ut_vehicle := None; ut_stops := [] |}.
Proof. split; [vm_compute; discriminate|vm_compute; reflexivity]. Qed.
