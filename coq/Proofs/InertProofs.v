(* Proofs/InertProofs.v — C09 at the level of whole files: rows that a file's row function rejects for one of the property's
   causes (required value missing; required number, time or date unparseable; required reference naming an id that does not
   exist) can be inserted anywhere in the file, in any number, without changing what the file contributes. *)
From GV Require Import Base.Prelude Base.Dec Base.Sort Model.Csv Model.Realtime Model.Static Proofs.StaticProofs.

Section WithOracles.
Variable pf : string -> option Z.
Variable di : string -> string -> option Z.

(* the causes, per file, on the row view *)
Definition route_bad ags (v : rowview) : Prop :=
  snd (required v "route_id") = true \/ snd (required v "route_type") = true \/
  (optional v "agency_id" <> "" /\ find_index (fun a => String.eqb (ag_id a) (optional v "agency_id")) ags 0 = None) \/
  (optional v "agency_id" = "" /\ List.length ags <> 1%nat).
Definition stop_bad (v : rowview) : Prop := snd (required v "stop_id") = true.
Definition transfer_bad stops (v : rowview) : Prop :=
  snd (required v "from_stop_id") = true \/ snd (required v "to_stop_id") = true \/
  find_last_index (fun s => String.eqb (s_id s) (fst (required v "from_stop_id"))) stops 0 None = None \/
  find_last_index (fun s => String.eqb (s_id s) (fst (required v "to_stop_id"))) stops 0 None = None.
Definition trip_bad routes services (v : rowview) : Prop :=
  snd (required v "route_id") = true \/ snd (required v "service_id") = true \/ snd (required v "trip_id") = true \/
  find_last_index (fun r => String.eqb (r_id r) (fst (required v "route_id"))) routes 0 None = None \/
  find_last_index (fun s => String.eqb (sv_id s) (fst (required v "service_id"))) services 0 None = None.
Definition stop_time_bad stops (trips : list strip) (v : rowview) : Prop :=
  (parse_gtfs_time (optional v "arrival_time") = None /\ parse_gtfs_time (optional v "departure_time") = None) \/
  atoi (fst (required v "stop_sequence")) = None \/
  snd (required v "stop_sequence") = true \/ snd (required v "stop_id") = true \/ snd (required v "trip_id") = true \/
  find_last_index (fun s => String.eqb (s_id s) (fst (required v "stop_id"))) stops 0 None = None \/
  find_last_index (fun t => String.eqb (tp_id t) (fst (required v "trip_id"))) trips 0 None = None.
Definition frequency_bad (trips : list strip) (v : rowview) : Prop :=
  snd (required v "trip_id") = true \/ snd (required v "start_time") = true \/ snd (required v "end_time") = true \/ snd (required v "headway_secs") = true \/
  find_last_index (fun t => String.eqb (tp_id t) (fst (required v "trip_id"))) trips 0 None = None \/ parse_int32 (fst (required v "headway_secs")) = None \/
  parse_gtfs_time (fst (required v "start_time")) = None \/ parse_gtfs_time (fst (required v "end_time")) = None.
Definition shape_bad (v : rowview) : Prop :=
  snd (required v "shape_id") = true \/ snd (required v "shape_pt_lat") = true \/ snd (required v "shape_pt_lon") = true \/ snd (required v "shape_pt_sequence") = true \/
  parse_float64 pf (fst (required v "shape_pt_lat")) = None \/ parse_float64 pf (fst (required v "shape_pt_lon")) = None \/ parse_int32 (fst (required v "shape_pt_sequence")) = None.
Definition calendar_bad zone (v : rowview) : Prop :=
  di zone (fst (required v "start_date")) = None \/ di zone (fst (required v "end_date")) = None \/ snd (required v "start_date") = true \/ snd (required v "end_date") = true \/
  snd (required v "service_id") = true \/ existsb snd (map (fun c => required v c) day_cols) = true.
Definition calendar_date_bad zone (v : rowview) : Prop :=
  di zone (fst (required v "date")) = None \/ snd (required v "service_id") = true \/ snd (required v "date") = true \/ snd (required v "exception_type") = true.

Theorem routes_file_inert ags hdr r1 bad r2 : Forall (fun cells => route_bad ags (view hdr cells)) bad ->
  parse_routes ags hdr (r1 ++ bad ++ r2) = parse_routes ags hdr (r1 ++ r2).
Proof. intros H. unfold parse_routes. destruct (has_columns _ _); [|reflexivity]. apply filter_map_inert.
  eapply Forall_impl; [|exact H]. intros cells Hc. now apply route_rejected. Qed.
Theorem stops_file_inert inherit hdr r1 bad r2 : Forall (fun cells => stop_bad (view hdr cells)) bad ->
  parse_stops pf inherit hdr (r1 ++ bad ++ r2) = parse_stops pf inherit hdr (r1 ++ r2).
Proof. intros H. unfold parse_stops. destruct (has_columns _ _); [|reflexivity].
  rewrite (filter_map_inert (fun cells => stop_row pf (view hdr cells)) r1 bad r2); [reflexivity|].
  eapply Forall_impl; [|exact H]. intros cells Hc. now apply stop_rejected. Qed.
Theorem transfers_file_inert stops hdr r1 bad r2 : Forall (fun cells => transfer_bad stops (view hdr cells)) bad ->
  parse_transfers stops hdr (r1 ++ bad ++ r2) = parse_transfers stops hdr (r1 ++ r2).
Proof. intros H. unfold parse_transfers. destruct (has_columns _ _); [|reflexivity]. apply filter_map_inert.
  eapply Forall_impl; [|exact H]. intros cells Hc. now apply transfer_rejected. Qed.
Theorem trips_file_inert routes services shapes hdr r1 bad r2 : Forall (fun cells => trip_bad routes services (view hdr cells)) bad ->
  parse_trips routes services shapes hdr (r1 ++ bad ++ r2) = parse_trips routes services shapes hdr (r1 ++ r2).
Proof. intros H. unfold parse_trips. destruct (has_columns _ _); [|reflexivity]. apply filter_map_inert.
  eapply Forall_impl; [|exact H]. intros cells Hc. now apply trip_rejected. Qed.
Theorem shapes_file_inert hdr r1 bad r2 : Forall (fun cells => shape_bad (view hdr cells)) bad ->
  parse_shapes pf hdr (r1 ++ bad ++ r2) = parse_shapes pf hdr (r1 ++ r2).
Proof. intros H. unfold parse_shapes. destruct (has_columns _ _); [|reflexivity].
  rewrite (fold_inert (fun m cells => shapes_row pf m (view hdr cells)) r1 bad r2); [reflexivity|].
  eapply Forall_impl; [|exact H]. intros cells Hc m. now apply shape_rejected. Qed.
Theorem calendar_file_inert zone m hdr r1 bad r2 : Forall (fun cells => calendar_bad zone (view hdr cells)) bad ->
  parse_calendar di zone m hdr (r1 ++ bad ++ r2) = parse_calendar di zone m hdr (r1 ++ r2).
Proof. intros H. unfold parse_calendar. destruct (has_columns _ _); [|reflexivity]. apply fold_inert.
  eapply Forall_impl; [|exact H]. intros cells Hc s. now apply calendar_rejected. Qed.
Theorem calendar_dates_file_inert zone m hdr r1 bad r2 : Forall (fun cells => calendar_date_bad zone (view hdr cells)) bad ->
  parse_calendar_dates di zone m hdr (r1 ++ bad ++ r2) = parse_calendar_dates di zone m hdr (r1 ++ r2).
Proof. intros H. unfold parse_calendar_dates. destruct (has_columns _ _); [|reflexivity]. apply fold_inert.
  eapply Forall_impl; [|exact H]. intros cells Hc s. now apply calendar_date_rejected. Qed.

(* stop_times.txt and frequencies.txt: the row loops rewrite trips in place but never change a trip's id, so "names an
   unknown trip" means the same thing before and after any number of rows *)
Lemma find_last_index_ids (p : string -> bool) : forall l l' i best, map tp_id l = map tp_id l' ->
  find_last_index (fun t => p (tp_id t)) l i best = find_last_index (fun t => p (tp_id t)) l' i best.
Proof. induction l as [|x l IH]; intros [|y l'] i best E; cbn in *; try discriminate; [reflexivity|]. inversion E as [[E1 E2]]. rewrite E1. now apply IH. Qed.
Lemma upd_trip_ids ts i f : (forall t, tp_id (f t) = tp_id t) -> map tp_id (upd_trip ts i f) = map tp_id ts.
Proof.
  intros Hf. unfold upd_trip. destruct (nth_error ts i) as [t|] eqn:E; [|reflexivity].
  revert i E. induction ts as [|x ts IH]; intros [|i] E; cbn in *; try discriminate; [inversion E; subst; now rewrite Hf|]. f_equal. now apply IH.
Qed.
Lemma stop_time_row_ids stops trips v : map tp_id (stop_time_row pf stops trips v) = map tp_id trips.
Proof.
  unfold stop_time_row. destruct (fill_times _ _) as [[arr dep]|]; [|reflexivity].
  destruct (required v "stop_sequence") as [sq m1]. destruct (atoi sq); [|reflexivity].
  destruct (required v "stop_id") as [sid m2]. destruct (required v "trip_id") as [tid m3]. destruct (_ || _); [reflexivity|].
  destruct (find_last_index _ stops 0 None); [|reflexivity]. destruct (find_last_index _ trips 0 None); [|reflexivity].
  apply upd_trip_ids. reflexivity.
Qed.
Lemma frequency_row_ids trips v : map tp_id (frequency_row trips v) = map tp_id trips.
Proof.
  unfold frequency_row. destruct (required v "trip_id"), (required v "start_time"), (required v "end_time"), (required v "headway_secs").
  destruct (_ || _); [reflexivity|]. destruct (find_last_index _ trips 0 None); [|reflexivity].
  destruct (parse_int32 _); [|reflexivity]. destruct (parse_gtfs_time _); [|reflexivity]. destruct (parse_gtfs_time _); [|reflexivity].
  apply upd_trip_ids. reflexivity.
Qed.
Lemma stop_time_bad_ids stops trips trips' v : map tp_id trips = map tp_id trips' -> stop_time_bad stops trips v -> stop_time_bad stops trips' v.
Proof. intros E H. unfold stop_time_bad in *.
  rewrite <- (find_last_index_ids (fun id => String.eqb id (fst (required v "trip_id"))) trips trips' 0 None E). exact H. Qed.
Lemma frequency_bad_ids trips trips' v : map tp_id trips = map tp_id trips' -> frequency_bad trips v -> frequency_bad trips' v.
Proof. intros E H. unfold frequency_bad in *.
  rewrite <- (find_last_index_ids (fun id => String.eqb id (fst (required v "trip_id"))) trips trips' 0 None E). exact H. Qed.
(* a fold whose rejected rows are judged against a property of the state that every step preserves *)
Lemma fold_inert_inv {A S} (step : S -> A -> S) (I : S -> S -> Prop) (bad_row : S -> A -> Prop) :
  (forall s, I s s) -> (forall s s' a, I s s' -> I s (step s' a)) ->
  (forall s s' a, I s s' -> bad_row s a -> step s' a = s') ->
  forall r1 bad r2 s0, Forall (bad_row s0) bad -> fold_left step (r1 ++ bad ++ r2) s0 = fold_left step (r1 ++ r2) s0.
Proof.
  intros Hr Hs Hb r1 bad r2 s0 H. rewrite !fold_left_app. f_equal.
  assert (Hi : I s0 (fold_left step r1 s0)).
  { assert (G : forall l s, I s0 s -> I s0 (fold_left step l s)) by (induction l as [|a l IH]; intros s Hs0; cbn; [exact Hs0|apply IH, Hs, Hs0]). apply G, Hr. }
  revert Hi. generalize (fold_left step r1 s0) as s. induction H as [|a bad Ha Hbad IH]; intros s Hi; cbn [fold_left]; [reflexivity|].
  rewrite (Hb s0 s a Hi Ha). now apply IH.
Qed.
Theorem stop_times_file_inert stops trips hdr r1 bad r2 : Forall (fun cells => stop_time_bad stops trips (view hdr cells)) bad ->
  parse_stop_times pf stops trips hdr (r1 ++ bad ++ r2) = parse_stop_times pf stops trips hdr (r1 ++ r2).
Proof.
  intros H. unfold parse_stop_times. destruct (has_columns _ _); [|reflexivity].
  rewrite (fold_inert_inv (fun ts cells => stop_time_row pf stops ts (view hdr cells)) (fun s s' => map tp_id s = map tp_id s')
             (fun s cells => stop_time_bad stops s (view hdr cells))); auto.
  - intros s s' a E. rewrite stop_time_row_ids. exact E.
  - intros s s' a E Hb. apply (stop_time_rejected pf di). change (stop_time_bad stops s' (view hdr a)). eapply stop_time_bad_ids; eauto.
Qed.
Theorem frequencies_file_inert trips hdr r1 bad r2 : Forall (fun cells => frequency_bad trips (view hdr cells)) bad ->
  parse_frequencies trips hdr (r1 ++ bad ++ r2) = parse_frequencies trips hdr (r1 ++ r2).
Proof.
  intros H. unfold parse_frequencies. destruct (has_columns _ _); [|reflexivity].
  apply (fold_inert_inv (fun ts cells => frequency_row ts (view hdr cells)) (fun s s' => map tp_id s = map tp_id s')
             (fun s cells => frequency_bad s (view hdr cells))); auto.
  - intros s s' a E. rewrite frequency_row_ids. exact E.
  - intros s s' a E Hb. apply (frequency_rejected pf di). change (frequency_bad s' (view hdr a)). eapply frequency_bad_ids; eauto.
Qed.
End WithOracles.
