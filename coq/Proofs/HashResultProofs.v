(* Proofs/HashResultProofs.v — C13 composed with C02 / C07: within ONE parsed result the hash streams tell the trips apart.
   The hash ignores zone names (C13); every trip identifier of a result carries the configured zone (C02, ZoneProofs) and the
   identifiers are pairwise distinct (C07, MergeProofs) - so two trips of one result with the same stream are the same trip. *)
From GV Require Import Base.Prelude Base.Codec Model.RtTypes Model.RtWire Model.Realtime Model.Hash
  Proofs.HashProofs Proofs.PurityProofs Proofs.MergeProofs Proofs.ZoneProofs.

Lemma erase_key_inj_zoned tz k1 k2 : key_wf tz k1 -> key_wf tz k2 -> erase_key k1 = erase_key k2 -> k1 = k2.
Proof.
  destruct k1 as [i1 r1 d1 ht1 t1 hd1 [z1 n1] rl1], k2 as [i2 r2 d2 ht2 t2 hd2 [z2 n2] rl2].
  unfold key_wf, erase_key, erase_instant. cbn. intros [_ [F1 T1]] [_ [F2 T2]] E. injection E as -> -> -> -> -> -> -> ->.
  f_equal. destruct hd2.
  - rewrite (T1 eq_refl) in *. now rewrite (T2 eq_refl).
  - specialize (F1 eq_refl). specialize (F2 eq_refl). congruence.
Qed.
Lemma nodup_map_inj {A B} (f : A -> B) l : NoDup (map f l) -> forall a b, In a l -> In b l -> f a = f b -> a = b.
Proof.
  induction l as [|x l IH]; intros ND a b Ha Hb E; [destruct Ha|]. cbn [map] in ND. inversion ND as [|? ? Hnot ND']; subst.
  destruct Ha as [->|Ha], Hb as [->|Hb].
  - reflexivity.
  - exfalso. apply Hnot. rewrite E. now apply in_map.
  - exfalso. apply Hnot. rewrite <- E. now apply in_map.
  - now apply IH.
Qed.

Section HashResult.
Variable cm : Z -> Z -> Z -> Z.
Variable tz : option string.
Variable cfg : ext_cfg.
Theorem result_trip_hashes_distinct m t1 t2 :
  In t1 (rt_trips (parse_message cm tz cfg m)) -> In t2 (rt_trips (parse_message cm tz cfg m)) ->
  wf_trip t1 -> wf_trip t2 -> hash_trip t1 = hash_trip t2 -> t1 = t2.
Proof.
  intros H1 H2 W1 W2 E. apply (trip_hash_exact t1 t2 W1 W2) in E.
  destruct (parse_message_zoned cm tz cfg m) as [_ [Hz _]]. rewrite Forall_forall in Hz.
  destruct (Hz _ H1) as [K1 _], (Hz _ H2) as [K2 _].
  apply (nodup_map_inj tr_key _ (trip_ids_unique cm tz cfg m) t1 t2 H1 H2).
  apply (erase_key_inj_zoned tz _ _ K1 K2). exact (f_equal tr_key E).
Qed.
End HashResult.
