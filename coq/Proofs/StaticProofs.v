(* Proofs/StaticProofs.v — lemmas about Model/Static.v for C01, C03, C05, C08, C09, C10, C11. *)
From GV Require Import Base.Prelude Base.Dec Base.Sort Base.StrOrd Model.Csv Model.Realtime Model.Static Gen.Enums Proofs.RealtimeProofs.
From Coq Require Import Permutation Sorted.

(* ================= row views (DESIGN 4.4a) ================= *)
Fixpoint assoc (c : string) (cols : list (string * string)) : option string :=
  match cols with [] => None | (k, x) :: cols' => if String.eqb k c then Some x else assoc c cols' end.
Lemma hm_notin i hdr c : ~ In c hdr -> header_map_from i hdr c = None.
Proof. revert i; induction hdr as [|h hdr IH]; cbn; intros i H; [reflexivity|].
  rewrite IH by tauto. destruct (String.eqb_spec h c); [tauto|reflexivity]. Qed.
Lemma view_assoc_from cols : forall i pre c, NoDup (map fst cols) -> List.length pre = i ->
  option_map (fun j => nth j (pre ++ map snd cols) "") (header_map_from i (map fst cols) c) = assoc c cols.
Proof.
  induction cols as [|[k x] cols IH]; intros i pre c Hnd Hlen; cbn; [reflexivity|].
  inversion Hnd as [|? ? Hk Hnd']; subst.
  destruct (String.eqb_spec k c) as [->|N].
  - rewrite hm_notin by exact Hk. cbn. rewrite app_nth2 by auto. now rewrite Nat.sub_diag.
  - specialize (IH (S (List.length pre)) (pre ++ [x]) c Hnd'). rewrite <- app_assoc in IH. cbn in IH.
    rewrite <- IH by (rewrite app_length; cbn; lia).
    destruct (header_map_from (S (List.length pre)) (map fst cols) c); reflexivity.
Qed.
(* the value read under a header name is the value written under that name *)
Theorem view_assoc cols c : NoDup (map fst cols) -> view (map fst cols) (map snd cols) c = assoc c cols.
Proof. intros H. unfold view, header_index. now apply (view_assoc_from cols 0 []). Qed.
Lemma assoc_In c x cols : NoDup (map fst cols) -> In (c, x) cols -> assoc c cols = Some x.
Proof. induction cols as [|[k y] cols IH]; cbn; intros Hnd HI; [contradiction|]. destruct HI as [E|I]; inversion Hnd; subst.
  - injection E as -> ->. now rewrite String.eqb_refl.
  - destruct (String.eqb_spec k c) as [->|]; [|auto]. exfalso. apply H1. change c with (fst (c, x)). now apply in_map. Qed.
Lemma assoc_Some_In c x cols : assoc c cols = Some x -> In (c, x) cols.
Proof. induction cols as [|[k y] cols IH]; cbn; [discriminate|]. destruct (String.eqb_spec k c) as [->|]; [intros [= ->]; auto|auto]. Qed.
Theorem assoc_perm c cols cols' : Permutation cols cols' -> NoDup (map fst cols) -> assoc c cols' = assoc c cols.
Proof.
  intros P Hnd. assert (Hnd' : NoDup (map fst cols')) by (eapply Permutation_NoDup; [apply Permutation_map; exact P|exact Hnd]).
  destruct (assoc c cols) as [x|] eqn:E.
  - apply assoc_In; auto. eapply Permutation_in; [exact P|]. now apply assoc_Some_In.
  - destruct (assoc c cols') as [y|] eqn:E'; [|reflexivity].
    apply assoc_Some_In in E'. apply (Permutation_in _ (Permutation_sym P)) in E'.
    rewrite (assoc_In _ _ _ Hnd E') in E. discriminate.
Qed.
(* column order is irrelevant *)
Theorem view_column_order cols cols' c : Permutation cols cols' -> NoDup (map fst cols) ->
  view (map fst cols') (map snd cols') c = view (map fst cols) (map snd cols) c.
Proof. intros P H. rewrite !view_assoc; auto; [now apply assoc_perm|].
  eapply Permutation_NoDup; [apply Permutation_map; exact P|exact H]. Qed.
(* unknown extra columns are irrelevant to the known names *)
Lemma assoc_app_other c extra cols : ~ In c (map fst extra) -> assoc c (extra ++ cols) = assoc c cols.
Proof. induction extra as [|[k y] extra IH]; cbn; intros H; [reflexivity|].
  destruct (String.eqb_spec k c); [tauto|apply IH; tauto]. Qed.
Theorem view_extra_columns extra cols c : NoDup (map fst (extra ++ cols)) -> ~ In c (map fst extra) ->
  view (map fst (extra ++ cols)) (map snd (extra ++ cols)) c = view (map fst cols) (map snd cols) c.
Proof. intros H N. rewrite !view_assoc; [now apply assoc_app_other| |exact H].
  rewrite map_app in H. clear N. induction (map fst extra) as [|x l IH]; [exact H|]. inversion H; subst. auto. Qed.

(* blank = absent: the three readers factor through "squash" *)
Definition squash (v : rowview) : rowview := fun c => match v c with Some "" => None | x => x end.
Lemma optional_squash v c : optional (squash v) c = optional v c.
Proof. unfold optional, squash. destruct (v c) as [[|]|]; reflexivity. Qed.
Lemma read_or_squash v c d : read_or (squash v) c d = read_or v c d.
Proof. unfold read_or, squash. destruct (v c) as [[|]|]; reflexivity. Qed.
Lemma required_squash v c : required (squash v) c = required v c.
Proof. unfold required, squash. destruct (v c) as [[|]|]; reflexivity. Qed.
(* a present-but-blank cell and an absent column are the same view after squashing *)
Definition blank_col (c0 : string) (v : rowview) : rowview := fun c => if String.eqb c c0 then Some "" else v c.
Definition drop_col (c0 : string) (v : rowview) : rowview := fun c => if String.eqb c c0 then None else v c.
Lemma squash_blank_drop c0 v c : squash (blank_col c0 v) c = squash (drop_col c0 v) c.
Proof. unfold squash, blank_col, drop_col. destruct (String.eqb c c0); reflexivity. Qed.
Theorem readers_blank_absent c0 v c d :
  optional (blank_col c0 v) c = optional (drop_col c0 v) c /\ read_or (blank_col c0 v) c d = read_or (drop_col c0 v) c d /\
  required (blank_col c0 v) c = required (drop_col c0 v) c.
Proof. unfold optional, read_or, required, blank_col, drop_col. destruct (String.eqb c c0); repeat split. Qed.
(* and both yield the default: read_or returns d, which the decoders map like the explicit GTFS default *)
Theorem read_or_default c0 v d : read_or (blank_col c0 v) c0 d = d /\ read_or (drop_col c0 v) c0 d = d.
Proof. unfold read_or, blank_col, drop_col. rewrite String.eqb_refl. split; reflexivity. Qed.

(* ================= C09 / C08: structure of the row loops ================= *)
Lemma filter_map_app {A B} (f : A -> option B) l1 l2 : filter_map f (l1 ++ l2) = filter_map f l1 ++ filter_map f l2.
Proof. unfold filter_map. apply flat_map_app. Qed.
(* rows on which the row function yields nothing are inert, wherever they are inserted *)
Theorem filter_map_inert {A B} (f : A -> option B) r1 bad r2 : Forall (fun r => f r = None) bad ->
  filter_map f (r1 ++ bad ++ r2) = filter_map f (r1 ++ r2).
Proof. intros H. rewrite !filter_map_app. f_equal. replace (filter_map f bad) with (@nil B); [reflexivity|].
  induction H as [|r bad Hr _ IH]; [reflexivity|]. unfold filter_map in *. cbn. now rewrite Hr. Qed.
Theorem fold_inert {A S} (step : S -> A -> S) r1 bad r2 st : Forall (fun r => forall s, step s r = s) bad ->
  fold_left step (r1 ++ bad ++ r2) st = fold_left step (r1 ++ r2) st.
Proof. intros H. rewrite !fold_left_app. f_equal. induction H as [|r bad Hr _ IH]; [reflexivity|]. cbn. now rewrite Hr. Qed.

(* rejection causes, per file: the row function yields nothing / leaves the state alone *)
Lemma required_blank v c : (v c = Some "" \/ v c = None) -> required v c = ("", true).
Proof. unfold required. intros [-> | ->]; reflexivity. Qed.
Lemma route_rejected ags v :
  (snd (required v "route_id") = true \/ snd (required v "route_type") = true \/
   (optional v "agency_id" <> "" /\ find_index (fun a => String.eqb (ag_id a) (optional v "agency_id")) ags 0 = None) \/
   (optional v "agency_id" = "" /\ List.length ags <> 1%nat)) -> route_row ags v = None.
Proof.
  unfold route_row. destruct (required v "route_id") as [rid m1]. destruct (required v "route_type") as [rt m2]. cbn [snd].
  intros [H|[H|[[N F]|[E L]]]].
  - subst. destruct (optional v "agency_id"); [destruct ags as [|? [|]]|destruct (find_index _ _ _)]; reflexivity.
  - subst. destruct (optional v "agency_id"); [destruct ags as [|? [|]]|destruct (find_index _ _ _)]; try reflexivity; now rewrite orb_true_r.
  - destruct (optional v "agency_id"); [congruence|]. now rewrite F.
  - rewrite E. destruct ags as [|? [|]]; cbn in L; try reflexivity; congruence.
Qed.
Section WithOracles.
Variable pf : string -> option Z.
Variable di : string -> string -> option Z.

Lemma stop_rejected v : snd (required v "stop_id") = true -> stop_row pf v = None.
Proof. unfold stop_row. destruct (required v "stop_id") as [sid m]. cbn [snd]. now intros ->. Qed.
Ltac done_or_absurd H := first [reflexivity | exfalso; cbn in H; intuition (try congruence; try discriminate)].
Lemma transfer_rejected stops v :
  (snd (required v "from_stop_id") = true \/ snd (required v "to_stop_id") = true \/
   find_last_index (fun s => String.eqb (s_id s) (fst (required v "from_stop_id"))) stops 0 None = None \/
   find_last_index (fun s => String.eqb (s_id s) (fst (required v "to_stop_id"))) stops 0 None = None) -> transfer_row stops v = None.
Proof.
  unfold transfer_row. destruct (required v "from_stop_id") as [f m1]. destruct (required v "to_stop_id") as [t m2]. cbn [fst snd].
  intros H. destruct m1, m2; cbn [orb]; try reflexivity.
  destruct (find_last_index (fun s => String.eqb (s_id s) f) stops 0 None) eqn:A; destruct (find_last_index (fun s => String.eqb (s_id s) t) stops 0 None) eqn:B; done_or_absurd H.
Qed.
Lemma trip_rejected routes services shapes v :
  (snd (required v "route_id") = true \/ snd (required v "service_id") = true \/ snd (required v "trip_id") = true \/
   find_last_index (fun r => String.eqb (r_id r) (fst (required v "route_id"))) routes 0 None = None \/
   find_last_index (fun s => String.eqb (sv_id s) (fst (required v "service_id"))) services 0 None = None) -> trip_row routes services shapes v = None.
Proof.
  unfold trip_row. destruct (required v "route_id") as [r m1]. destruct (required v "service_id") as [sv m2]. destruct (required v "trip_id") as [t m3]. cbn [fst snd].
  intros H. destruct m1, m2, m3; cbn [orb]; try reflexivity.
  destruct (find_last_index (fun x => String.eqb (r_id x) r) routes 0 None) eqn:A; destruct (find_last_index (fun x => String.eqb (sv_id x) sv) services 0 None) eqn:B; done_or_absurd H.
Qed.
(* stop_times.txt: every cause leaves every trip untouched (in particular: no dereference of an unknown trip) *)
Lemma stop_time_rejected stops trips v :
  ((parse_gtfs_time (optional v "arrival_time") = None /\ parse_gtfs_time (optional v "departure_time") = None) \/
   atoi (fst (required v "stop_sequence")) = None \/
   snd (required v "stop_sequence") = true \/ snd (required v "stop_id") = true \/ snd (required v "trip_id") = true \/
   find_last_index (fun s => String.eqb (s_id s) (fst (required v "stop_id"))) stops 0 None = None \/
   find_last_index (fun t => String.eqb (tp_id t) (fst (required v "trip_id"))) trips 0 None = None) -> stop_time_row pf stops trips v = trips.
Proof.
  unfold stop_time_row. destruct (required v "stop_sequence") as [sq m1]. destruct (required v "stop_id") as [sid m2]. destruct (required v "trip_id") as [tid m3]. cbn [fst snd].
  intros H. destruct (parse_gtfs_time (optional v "arrival_time")) as [a|] eqn:A; destruct (parse_gtfs_time (optional v "departure_time")) as [d|] eqn:D;
    try reflexivity; (destruct (atoi sq) eqn:Q; [|reflexivity]); destruct m1, m2, m3; cbn [orb]; try reflexivity;
    destruct (find_last_index (fun x => String.eqb (s_id x) sid) stops 0 None) eqn:S1; destruct (find_last_index (fun x => String.eqb (tp_id x) tid) trips 0 None) eqn:S2; done_or_absurd H.
Qed.
Lemma shape_rejected m v :
  (snd (required v "shape_id") = true \/ snd (required v "shape_pt_lat") = true \/ snd (required v "shape_pt_lon") = true \/ snd (required v "shape_pt_sequence") = true \/
   parse_float64 pf (fst (required v "shape_pt_lat")) = None \/ parse_float64 pf (fst (required v "shape_pt_lon")) = None \/ parse_int32 (fst (required v "shape_pt_sequence")) = None) ->
  shapes_row pf m v = m.
Proof.
  unfold shapes_row. destruct (required v "shape_id") as [a m1]. destruct (required v "shape_pt_lat") as [b m2]. destruct (required v "shape_pt_lon") as [c m3].
  destruct (required v "shape_pt_sequence") as [d m4]. cbn [fst snd].
  intros H. destruct m1, m2, m3, m4; cbn [orb]; try reflexivity.
  destruct (parse_float64 pf b) eqn:A; destruct (parse_float64 pf c) eqn:B; destruct (parse_int32 d) eqn:C; done_or_absurd H.
Qed.
Lemma frequency_rejected trips v :
  (snd (required v "trip_id") = true \/ snd (required v "start_time") = true \/ snd (required v "end_time") = true \/ snd (required v "headway_secs") = true \/
   find_last_index (fun t => String.eqb (tp_id t) (fst (required v "trip_id"))) trips 0 None = None \/ parse_int32 (fst (required v "headway_secs")) = None \/
   parse_gtfs_time (fst (required v "start_time")) = None \/ parse_gtfs_time (fst (required v "end_time")) = None) -> frequency_row trips v = trips.
Proof.
  unfold frequency_row. destruct (required v "trip_id") as [a m1]. destruct (required v "start_time") as [b m2]. destruct (required v "end_time") as [c m3].
  destruct (required v "headway_secs") as [d m4]. cbn [fst snd].
  intros H. destruct m1, m2, m3, m4; cbn [orb]; try reflexivity.
  destruct (find_last_index (fun x => String.eqb (tp_id x) a) trips 0 None) eqn:F; [|reflexivity].
  destruct (parse_int32 d) eqn:A; destruct (parse_gtfs_time b) eqn:B; destruct (parse_gtfs_time c) eqn:C; done_or_absurd H.
Qed.
Lemma calendar_rejected zone m v :
  (di zone (fst (required v "start_date")) = None \/ di zone (fst (required v "end_date")) = None \/ snd (required v "start_date") = true \/ snd (required v "end_date") = true \/
   snd (required v "service_id") = true \/ existsb snd (map (fun c => required v c) day_cols) = true) -> calendar_row di zone m v = m.
Proof.
  unfold calendar_row. destruct (required v "start_date") as [a m1]. destruct (required v "end_date") as [b m2]. destruct (required v "service_id") as [c m3]. cbn [fst snd].
  intros H. destruct (di zone a) eqn:A; [|reflexivity]. destruct (di zone b) eqn:B; [|reflexivity].
  destruct m1, m2, m3; cbn [orb]; try reflexivity. destruct (existsb snd (map (fun c0 => required v c0) day_cols)) eqn:E; done_or_absurd H.
Qed.
Lemma calendar_date_rejected zone m v :
  (di zone (fst (required v "date")) = None \/ snd (required v "service_id") = true \/ snd (required v "date") = true \/ snd (required v "exception_type") = true) ->
  calendar_date_row di zone m v = m.
Proof.
  unfold calendar_date_row. destruct (required v "service_id") as [a m1]. destruct (required v "date") as [b m2]. destruct (required v "exception_type") as [c m3]. cbn [fst snd].
  intros H. destruct (di zone b) eqn:B; [|reflexivity]. destruct m1, m2, m3; cbn [orb]; done_or_absurd H.
Qed.
End WithOracles.

(* ================= C03 / C05: the stop hierarchy is a forest, Root terminates ================= *)
Lemma set_nth_length {A} i (x : A) l : List.length (set_nth i x l) = List.length l.
Proof. revert i; induction l; destruct i; cbn; auto. Qed.
Lemma nth_set_nth_same {A} i (x d : A) l : (i < List.length l)%nat -> nth i (set_nth i x l) d = x.
Proof. revert i; induction l; destruct i; cbn; intros; try lia; auto. apply IHl; lia. Qed.
Lemma nth_set_nth_other {A} i j (x d : A) l : i <> j -> nth i (set_nth j x l) d = nth i l d.
Proof. revert i j; induction l; destruct i, j; cbn; intros; try congruence; auto. Qed.
Lemma parent_cut_same g i : parent_of (cut g i) i = None.
Proof. unfold parent_of, cut. destruct (lt_dec i (List.length g)).
  - now apply nth_set_nth_same.
  - apply nth_overflow. rewrite set_nth_length. lia. Qed.
Lemma parent_cut_other g i j : i <> j -> parent_of (cut g j) i = parent_of g i.
Proof. intros. unfold parent_of, cut. now apply nth_set_nth_other. Qed.
(* cutting an edge never makes a terminating walk run out of fuel *)
Lemma walk_cut_mono f : forall g i j r, walk f g i = Some r -> exists r', walk f (cut g j) i = Some r'.
Proof.
  induction f as [|f IH]; intros g i j r H; [discriminate|]. cbn [walk] in *.
  destruct (Nat.eq_dec i j) as [->|N].
  - rewrite parent_cut_same. eauto.
  - rewrite parent_cut_other by exact N. destruct (parent_of g i) as [p|]; [eapply IH; eauto|eauto].
Qed.
Definition term (F : nat) (g : graph) (i : nat) := exists r, walk F g i = Some r.
Lemma examine_term F g i : term (S F) (examine (S F) g i) i.
Proof. unfold examine, term. destruct (walk (S F) g i) eqn:W; [eauto|]. cbn [walk]. rewrite parent_cut_same. eauto. Qed.
Lemma examine_mono F g i j : term F g j -> term F (examine F g i) j.
Proof. unfold examine, term. intros [r H]. destruct (walk F g i); [eauto|]. eapply walk_cut_mono; eauto. Qed.
Lemma fold_examine_inv F : forall todo g done,
  (forall j, In j done -> term (S F) g j) ->
  forall j, In j (done ++ todo) -> term (S F) (fold_left (examine (S F)) todo g) j.
Proof.
  induction todo as [|i todo IH]; intros g done Hd j Hj; cbn [fold_left].
  - rewrite app_nil_r in Hj. auto.
  - apply (IH _ (done ++ [i])).
    + intros x Hx. apply in_app_or in Hx as [Hx|[<-|[]]]; [apply examine_mono; auto|apply examine_term].
    + now rewrite <- app_assoc.
Qed.
(* after the repair every walk ends within length+1 steps: Root() terminates *)
Theorem repair_terminates g i : (i < List.length g)%nat -> term (S (List.length g)) (repair g) i.
Proof. intros Hi. unfold repair. apply (fold_examine_inv (List.length g) _ g []); [intros ? []|]. cbn [app]. apply in_seq. lia. Qed.
(* and termination rules out being one's own ancestor *)
Fixpoint anc (k : nat) (g : graph) (i : nat) : option nat :=
  match k with O => Some i | S k' => match parent_of g i with None => None | Some p => anc k' g p end end.
Lemma anc_add a : forall b g i, anc (a + b) g i = match anc a g i with Some x => anc b g x | None => None end.
Proof. induction a as [|a IH]; intros b g i; cbn [plus anc]; [reflexivity|]. destruct (parent_of g i); [apply IH|reflexivity]. Qed.
Lemma walk_ends F : forall g i r, walk F g i = Some r -> exists t, anc t g i = Some r /\ parent_of g r = None.
Proof. induction F as [|F IH]; intros g i r H; [discriminate|]. cbn [walk] in H.
  destruct (parent_of g i) as [p|] eqn:P.
  - destruct (IH _ _ _ H) as [t [A N]]. exists (S t). cbn [anc]. rewrite P. auto.
  - injection H as <-. exists 0%nat. auto. Qed.
Lemma cyc_total g i k : anc (S k) g i = Some i -> forall t, anc t g i <> None.
Proof.
  intros C t. induction t as [t IH] using lt_wf_ind.
  destruct (le_lt_dec (S k) t) as [L|L].
  - replace t with (S k + (t - S k))%nat by lia. rewrite anc_add, C. apply IH. lia.
  - intros N. replace (S k) with (t + (S k - t))%nat in C by lia. rewrite anc_add, N in C. discriminate.
Qed.
Theorem no_self_ancestor F g i k : term F g i -> anc (S k) g i <> Some i.
Proof. intros [r H] C. destruct (walk_ends _ _ _ _ H) as [t [A N]]. apply (cyc_total g i k C (t + 1)). rewrite anc_add, A. cbn [anc]. now rewrite N. Qed.
(* a repair cuts nothing on a forest: acyclic input is left alone (so C01/C09/C10 are unaffected by the pass) *)
Lemma fold_examine_id F : forall todo g, (forall i, In i todo -> term F g i) -> fold_left (examine F) todo g = g.
Proof. induction todo as [|i todo IH]; intros g H; cbn [fold_left]; [reflexivity|].
  assert (E : examine F g i = g) by (unfold examine; destruct (H i (or_introl eq_refl)) as [r ->]; reflexivity).
  rewrite E. apply IH. intros j Hj. apply H. now right. Qed.
Theorem repair_id_on_forest g : (forall i, (i < List.length g)%nat -> term (S (List.length g)) g i) -> repair g = g.
Proof. intros H. unfold repair. apply fold_examine_id. intros i Hi. apply in_seq in Hi. apply H. lia. Qed.
Lemma repair_length g : List.length (repair g) = List.length g.
Proof. unfold repair. generalize (seq 0 (List.length g)). generalize (S (List.length g)). intros F todo. revert g.
  induction todo as [|i todo IH]; intros g; cbn [fold_left]; [reflexivity|]. rewrite IH. unfold examine. destruct (walk F g i); [reflexivity|apply set_nth_length]. Qed.

(* the parents of the stops ParseStatic returns are exactly the repaired graph *)
Lemma enum_from_nth {A} (l : list A) : forall i, map snd (enum_from i l) = l /\ map fst (enum_from i l) = seq i (List.length l).
Proof. induction l as [|x l IH]; intros i; cbn; [auto|]. destruct (IH (S i)) as [A1 A2]. now rewrite A1, A2. Qed.
Lemma map_nth_seq {A} (d : A) l : map (fun i => nth i l d) (seq 0 (List.length l)) = l.
Proof. induction l as [|x l IH]; [reflexivity|]. cbn [List.length seq map nth]. f_equal.
  rewrite <- seq_shift, map_map. cbn [nth]. exact IH. Qed.
Lemma link_parents_parents sp : map s_parent (link_parents sp) = repair (map (fun p => match snd p with
   | EmptyString => None | pid => find_last_index (fun s => String.eqb (s_id s) pid) (map fst sp) 0 None end) sp).
Proof.
  unfold link_parents. set (g := repair _). rewrite map_map.
  assert (L : List.length g = List.length (map fst sp)) by (unfold g; rewrite repair_length, !map_length; reflexivity).
  rewrite (map_ext _ (fun ip => parent_of g (fst ip))) by (intros [i s]; reflexivity).
  rewrite <- map_map. rewrite (proj2 (enum_from_nth (map fst sp) 0)). rewrite <- L. unfold parent_of. apply map_nth_seq.
Qed.
Theorem root_terminates_after_link sp i : (i < List.length sp)%nat ->
  exists r, root_fuel (S (List.length sp)) (link_parents sp) i = Some r.
Proof. intros H. unfold root_fuel. rewrite link_parents_parents. set (g0 := map _ sp).
  assert (L : List.length g0 = List.length sp) by (unfold g0; apply map_length). rewrite <- L. apply repair_terminates. lia. Qed.
Theorem no_stop_is_its_own_ancestor sp i k : (i < List.length sp)%nat -> anc (S k) (map s_parent (link_parents sp)) i <> Some i.
Proof. intros H. rewrite link_parents_parents. set (g0 := map _ sp). apply (no_self_ancestor (S (List.length g0))).
  apply repair_terminates. unfold g0. rewrite map_length. exact H. Qed.

(* references are in range: every index the model produces points into the collection it was looked up in *)
Lemma find_last_index_lt {A} (p : A -> bool) : forall l i best j, find_last_index p l i best = Some j ->
  (best = Some j \/ (i <= j < i + List.length l)%nat /\ exists x, nth_error l (j - i) = Some x /\ p x = true).
Proof.
  induction l as [|x l IH]; intros i best j H; cbn in *; [auto|].
  apply IH in H as [H|[H1 [y [H2 H3]]]].
  - destruct (p x) eqn:P; [|auto]. injection H as <-. right. split; [lia|]. exists x. rewrite Nat.sub_diag. auto.
  - right. split; [lia|]. exists y. split; [|exact H3]. replace (j - i)%nat with (S (j - S i)) by lia. exact H2.
Qed.
Theorem find_last_index_spec {A} (p : A -> bool) l j : find_last_index p l 0 None = Some j ->
  (j < List.length l)%nat /\ exists x, nth_error l j = Some x /\ p x = true.
Proof. intros H. apply find_last_index_lt in H as [H|[H1 [x H2]]]; [discriminate|]. rewrite Nat.sub_0_r in H2. split; [lia|eauto]. Qed.
Lemma find_index_spec {A} (p : A -> bool) : forall l i j, find_index p l i = Some j -> (i <= j < i + List.length l)%nat /\ exists x, nth_error l (j - i) = Some x /\ p x = true.
Proof. induction l as [|x l IH]; intros i j H; cbn in *; [discriminate|]. destruct (p x) eqn:P.
  - injection H as <-. split; [lia|]. exists x. now rewrite Nat.sub_diag.
  - apply IH in H as [H1 [y [H2 H3]]]. split; [lia|]. exists y. split; [|exact H3]. replace (j - i)%nat with (S (j - S i)) by lia. exact H2. Qed.

Section Refs.
Variable pf : string -> option Z.
(* a produced route is bound to an agency of the result whose id is the one the row names (the unique agency when it names none) *)
Theorem route_ref_sound ags v r : route_row ags v = Some r ->
  exists a, nth_error ags (r_agency r) = Some a /\ (optional v "agency_id" = "" /\ ags = [a] \/ optional v "agency_id" <> "" /\ ag_id a = optional v "agency_id").
Proof.
  unfold route_row. destruct (required v "route_id") as [rid m1]. destruct (required v "route_type") as [rt m2].
  destruct (optional v "agency_id") as [|c s] eqn:E.
  - destruct ags as [|a [|b l]]; try discriminate. destruct (m1 || m2); [discriminate|]. intros [= <-]. exists a. cbn. auto.
  - destruct (find_index _ ags 0) as [ai|] eqn:F; [|discriminate]. destruct (m1 || m2); [discriminate|]. intros [= <-]. cbn [r_agency].
    apply find_index_spec in F as [_ [a [Ha Pa]]]. rewrite Nat.sub_0_r in Ha. exists a. split; [exact Ha|]. right. split; [discriminate|]. now apply String.eqb_eq in Pa.
Qed.
Theorem transfer_ref_sound stops v t : transfer_row stops v = Some t ->
  exists a b, nth_error stops (t_from t) = Some a /\ nth_error stops (t_to t) = Some b /\
    s_id a = fst (required v "from_stop_id") /\ s_id b = fst (required v "to_stop_id") /\ s_id a <> s_id b.
Proof.
  unfold transfer_row. destruct (required v "from_stop_id") as [f m1]. destruct (required v "to_stop_id") as [t' m2]. cbn [fst].
  destruct (m1 || m2); [discriminate|]. destruct (find_last_index _ stops 0 None) as [fi|] eqn:F; [|discriminate].
  destruct (find_last_index (fun s => String.eqb (s_id s) t') stops 0 None) as [ti|] eqn:T; [|discriminate].
  destruct (String.eqb_spec f t') as [|N]; [discriminate|]. intros [= <-]. cbn [t_from t_to].
  apply find_last_index_spec in F as [_ [a [Ha Pa]]]. apply find_last_index_spec in T as [_ [b [Hb Pb]]].
  apply String.eqb_eq in Pa, Pb. exists a, b. repeat split; auto. congruence.
Qed.
Theorem trip_ref_sound routes services shapes v t : trip_row routes services shapes v = Some t ->
  exists r s, nth_error routes (tp_route t) = Some r /\ nth_error services (tp_service t) = Some s /\
    r_id r = fst (required v "route_id") /\ sv_id s = fst (required v "service_id") /\
    match tp_shape t with Some k => exists sh, nth_error shapes k = Some sh /\ sh_id sh = optional v "shape_id" | None => True end.
Proof.
  unfold trip_row. destruct (required v "route_id") as [r m1]. destruct (required v "service_id") as [sv m2]. destruct (required v "trip_id") as [tid m3]. cbn [fst].
  destruct (m1 || m2 || m3); [discriminate|]. destruct (find_last_index _ routes 0 None) as [ri|] eqn:R; [|discriminate].
  destruct (find_last_index _ services 0 None) as [si|] eqn:S; [|discriminate]. intros [= <-]. cbn [tp_route tp_service tp_shape].
  apply find_last_index_spec in R as [_ [a [Ha Pa]]]. apply find_last_index_spec in S as [_ [b [Hb Pb]]]. apply String.eqb_eq in Pa, Pb.
  exists a, b. repeat split; auto. destruct (optional v "shape_id") as [|c s0] eqn:E; [exact I|].
  destruct (find_last_index _ shapes 0 None) as [k|] eqn:K; [|exact I]. apply find_last_index_spec in K as [_ [sh [Hs Ps]]]. apply String.eqb_eq in Ps. eauto.
Qed.
End Refs.

(* ================= C08: sorted by sequence; the row order of stop_times.txt / shapes.txt is irrelevant ================= *)
Definition seq_lt (a b : stoptime) : bool := st_seq a <? st_seq b.
Theorem stop_times_row_order l l' : Permutation l l' -> NoDup (map st_seq l) ->
  isort stoptime seq_lt l = isort stoptime seq_lt l'.
Proof.
  intros P H. apply isort_perm_invariant; auto.
  - intros x. unfold lt, seq_lt. rewrite Z.ltb_irrefl. discriminate.
  - intros x y z. unfold lt, seq_lt. rewrite !Z.ltb_lt. lia.
  - apply (NoDup_map_inv st_seq). exact H.
  - intros x y Hx Hy. unfold lt, seq_lt. rewrite !Z.ltb_lt. destruct (Z.lt_trichotomy (st_seq x) (st_seq y)) as [?|[E|?]]; auto.
    left. clear P. induction l as [|a l IH]; [destruct Hx|]. cbn in H. inversion H; subst. destruct Hx as [->|Hx], Hy as [->|Hy]; auto.
    + exfalso. apply H2. rewrite E. now apply in_map.
    + exfalso. apply H2. rewrite <- E. now apply in_map.
Qed.
Theorem stop_times_sorted l : NoDup (map st_seq l) -> StronglySorted (fun a b => st_seq a < st_seq b) (isort stoptime seq_lt l).
Proof.
  intros H. assert (S : StronglySorted (lt stoptime seq_lt) (isort stoptime seq_lt l)).
  { apply isort_sorted.
    - intros x y z. unfold lt, seq_lt. rewrite !Z.ltb_lt. lia.
    - apply (NoDup_map_inv st_seq). exact H.
    - intros x y Hx Hy. unfold lt, seq_lt. rewrite !Z.ltb_lt. destruct (Z.lt_trichotomy (st_seq x) (st_seq y)) as [?|[E|?]]; auto.
      left. induction l as [|a l IH]; [destruct Hx|]. cbn in H. inversion H; subst. destruct Hx as [->|Hx], Hy as [->|Hy]; auto.
      + exfalso. apply H2. rewrite E. now apply in_map.
      + exfalso. apply H2. rewrite <- E. now apply in_map. }
  revert S. generalize (isort stoptime seq_lt l). intros s S. induction S; constructor; auto.
  eapply Forall_impl; [|exact H0]. intros b Hb. unfold lt, seq_lt in Hb. now apply Z.ltb_lt.
Qed.
(* file order is kept by the append-in-row-order loops: the result of a file is the concatenation of the results of its parts *)
Theorem routes_keep_file_order ags hdr r1 r2 : parse_routes ags hdr (r1 ++ r2) = parse_routes ags hdr r1 ++ parse_routes ags hdr r2.
Proof. unfold parse_routes. destruct (has_columns _ _); [apply filter_map_app|reflexivity]. Qed.
Theorem transfers_keep_file_order stops hdr r1 r2 : parse_transfers stops hdr (r1 ++ r2) = parse_transfers stops hdr r1 ++ parse_transfers stops hdr r2.
Proof. unfold parse_transfers. destruct (has_columns _ _); [apply filter_map_app|reflexivity]. Qed.
Theorem trips_keep_file_order ro sv sh hdr r1 r2 : parse_trips ro sv sh hdr (r1 ++ r2) = parse_trips ro sv sh hdr r1 ++ parse_trips ro sv sh hdr r2.
Proof. unfold parse_trips. destruct (has_columns _ _); [apply filter_map_app|reflexivity]. Qed.

(* ================= C11: services ================= *)
Definition svc_ok (s : service) : Prop := Forall (fun d => sv_start s <= d <= sv_end s) (sv_added s ++ sv_removed s).
Definition svcs_ok (m : list (string * service)) : Prop := Forall (fun kv => svc_ok (snd kv) /\ sv_id (snd kv) = fst kv) m.
Lemma aset_forall' {A} (Q : string * A -> Prop) k v l : Q (k, v) -> Forall Q l -> Forall Q (aset k v l).
Proof. intros Hq. induction l as [|[k2 v2] l IH]; cbn; intros H; [repeat constructor; exact Hq|].
  inversion H; subst. destruct (String.eqb k k2); constructor; auto. Qed.
Lemma alookup_forall {A} (Q : string * A -> Prop) k v l : Forall Q l -> alookup k l = Some v -> Q (k, v).
Proof. induction l as [|[k2 v2] l IH]; cbn; intros H L; [discriminate|]. inversion H; subst.
  destruct (String.eqb_spec k k2) as [->|N]; [injection L as <-; assumption|auto]. Qed.
Section Svc.
Variable di : string -> string -> option Z.
Lemma calendar_row_ok zone m v : svcs_ok m -> svcs_ok (calendar_row di zone m v).
Proof.
  intros H. unfold calendar_row. destruct (required v "start_date") as [a m1]. destruct (di zone a); [|exact H].
  destruct (required v "end_date") as [b m2]. destruct (di zone b); [|exact H]. destruct (required v "service_id") as [c m3].
  destruct (m1 || m2 || m3 || _); [exact H|]. apply aset_forall'; [|exact H]. split; [constructor|reflexivity].
Qed.
Lemma calendar_date_row_ok zone m v : svcs_ok m -> svcs_ok (calendar_date_row di zone m v).
Proof.
  intros H. unfold calendar_date_row. destruct (required v "service_id") as [sid m1]. destruct (required v "date") as [ds m2].
  destruct (di zone ds) as [d|]; [|exact H]. destruct (required v "exception_type") as [et m3]. destruct (m1 || m2 || m3); [exact H|].
  set (base := match alookup sid m with Some s => _ | None => _ end).
  assert (B : Forall (fun x => sv_start base <= x <= sv_end base) (sv_added base ++ sv_removed base) /\ sv_start base <= d <= sv_end base).
  { unfold base. destruct (alookup sid m) as [s|] eqn:L.
    - destruct (alookup_forall _ _ _ _ H L) as [Hs _]. unfold svc_ok in Hs. cbn [sv_start sv_end sv_added sv_removed snd] in *. split.
      + eapply Forall_impl; [|exact Hs]. intros x Hx. cbn in Hx. destruct (d <? sv_start s) eqn:E1; destruct (sv_end s <? d) eqn:E2;
          rewrite ?Z.ltb_lt, ?Z.ltb_ge in *; lia.
      + destruct (d <? sv_start s) eqn:E1; destruct (sv_end s <? d) eqn:E2; rewrite ?Z.ltb_lt, ?Z.ltb_ge in *; lia.
    - cbn. split; [constructor|lia]. }
  destruct B as [B1 B2]. destruct (String.eqb et "1"); [|destruct (String.eqb et "2"); [|exact H]]; (apply aset_forall'; [|exact H]); (split; [|reflexivity]);
    unfold svc_ok; cbn [snd sv_start sv_end sv_added sv_removed].
  - rewrite <- app_assoc. apply Forall_app in B1 as [Ba Br]. apply Forall_app; split; [exact Ba|]. apply Forall_app; split; [repeat constructor; lia|exact Br].
  - rewrite app_assoc. apply Forall_app; split; [exact B1|repeat constructor; lia].
Qed.
(* every service's range covers every one of its exception dates; one service per id *)
Theorem services_range zone hdr1 rows1 hdr2 rows2 :
  svcs_ok (parse_calendar_dates di zone (parse_calendar di zone [] hdr1 rows1) hdr2 rows2).
Proof.
  assert (A : svcs_ok (parse_calendar di zone [] hdr1 rows1)).
  { unfold parse_calendar. destruct (has_columns _ _); [|constructor]. generalize (@nil (string * service)) (Forall_nil (fun kv : string * service => svc_ok (snd kv) /\ sv_id (snd kv) = fst kv)).
    induction rows1 as [|r rows IH]; intros m Hm; cbn [fold_left]; [exact Hm|]. apply IH. now apply calendar_row_ok. }
  unfold parse_calendar_dates. destruct (has_columns _ _); [|exact A]. revert A. generalize (parse_calendar di zone [] hdr1 rows1).
  induction rows2 as [|r rows IH]; intros m Hm; cbn [fold_left]; [exact Hm|]. apply IH. now apply calendar_date_row_ok.
Qed.
End Svc.

(* ================= C10: decoders on the defaults; one-sided stop times ================= *)
Theorem decoder_defaults :
  parsePickupDropOffPolicy "0" = PickupDropOffPolicy_Yes /\ parsePickupDropOffPolicy "" = PickupDropOffPolicy_No /\ parsePickupDropOffPolicy "1" = PickupDropOffPolicy_No /\
  parseTransferType "" = TransferType_Recommended /\ parseTransferType "0" = TransferType_Recommended /\
  parseExactTimes "" = FrequencyBased /\ parseExactTimes "0" = FrequencyBased /\
  parseDirectionID_GTFSStatic "" = DirectionID_Unspecified /\
  parseWheelchairBoarding "" = WheelchairBoarding_NotSpecified /\ parseWheelchairBoarding "0" = WheelchairBoarding_NotSpecified /\
  parseBikesAllowed "" = BikesAllowed_NotSpecified /\ parseBikesAllowed "0" = BikesAllowed_NotSpecified /\
  parseStopType "" false = StopType_Stop /\ parseStopType "0" false = StopType_Stop.
Proof. repeat split. Qed.
(* every GTFS digit decodes to the enum value with that number *)
Theorem decoder_digits :
  (forall d, In d [0; 1; 2; 3; 4; 5; 6; 7; 11; 12] -> parseRouteType_GTFSStatic (show_Zs d) = d) /\
  (forall d, In d [0; 1; 2; 3] -> parsePickupDropOffPolicy (show_Zs d) = d /\ parseTransferType (show_Zs d) = d) /\
  (forall d, In d [0; 1; 2] -> parseWheelchairBoarding (show_Zs d) = d /\ parseBikesAllowed (show_Zs d) = d) /\
  (forall d, In d [1; 2; 3; 4] -> forall b, parseStopType (show_Zs d) b = d) /\
  parseDirectionID_GTFSStatic "0" = DirectionID_False /\ parseDirectionID_GTFSStatic "1" = DirectionID_True /\ parseExactTimes "1" = ScheduleBased.
Proof. repeat split; intros; cbn in H; repeat (destruct H as [<-|H]; [vm_compute; reflexivity|]); destruct H. Qed.

(* ================= C01 / C10: scalars ================= *)
Theorem fill_times_rule : (forall x, fill_times (Some x) None = Some (x, x)) /\ (forall y, fill_times None (Some y) = Some (y, y)) /\
  (forall x y, fill_times (Some x) (Some y) = Some (x, y)) /\ fill_times None None = None.
Proof. repeat split. Qed.

Lemma a_digit_range a : a_digit a = true -> 48 <= bval a <= 57.
Proof. unfold a_digit, is_digit. intros H. apply andb_true_iff in H as [A B]. apply Z.leb_le in A, B. lia. Qed.
Lemma wrap64_small' t : 0 <= t < 2 ^ 63 -> wrap64 t = t. Proof. apply wrap64_small. Qed.
Lemma two_digits_val a b : digits_val [a; b] = 10 * (bval a - 48) + (bval b - 48).
Proof. unfold digits_val, acc_digits, dval. cbn [map fold_left]. lia. Qed.
(* reading two digits into piece number i *)
Lemma time_pieces_two a b rest i p0 p1 p2 : a_digit a = true -> a_digit b = true ->
  time_pieces (a :: b :: rest) i p0 p1 p2 =
  match i with
  | O => time_pieces rest i (wrap64 (10 * wrap64 (10 * p0 + (bval a - 48)) + (bval b - 48))) p1 p2
  | S O => time_pieces rest i p0 (wrap64 (10 * wrap64 (10 * p1 + (bval a - 48)) + (bval b - 48))) p2
  | _ => time_pieces rest i p0 p1 (wrap64 (10 * wrap64 (10 * p2 + (bval a - 48)) + (bval b - 48)))
  end.
Proof. intros A B. unfold a_digit in A, B. cbn [time_pieces]. rewrite A, B. destruct i as [|[|i]]; reflexivity. Qed.
Lemma parse_gtfs_time_nonempty s : la s <> [] -> parse_gtfs_time s =
  match time_pieces (la s) 0 0 0 0 with Some (h, m, sec) => Some (wrap64 (wrap64 ((h * 60 + m) * 60 + sec) * 1000000000)) | None => None end.
Proof. destruct s; [intros H; now elim H|reflexivity]. Qed.
(* HH:MM:SS, two digits each (so up to 99:59:59, past 24:00:00 included), is that many seconds *)
Theorem parse_gtfs_time_hms h m s : 0 <= h < 100 -> 0 <= m < 100 -> 0 <= s < 100 ->
  parse_gtfs_time (hms h m s) = Some (((h * 60 + m) * 60 + s) * 1000000000).
Proof.
  intros Hh Hm Hs. destruct (two_digit h Hh) as (h1 & h2 & Eh & Dh1 & Dh2 & Vh).
  destruct (two_digit m Hm) as (m1 & m2 & Em & Dm1 & Dm2 & Vm). destruct (two_digit s Hs) as (s1 & s2 & Es & Ds1 & Ds2 & Vs).
  assert (L : la (hms h m s) = h1 :: h2 :: ":"%char :: m1 :: m2 :: ":"%char :: s1 :: s2 :: []).
  { unfold hms. rewrite !la_app, Eh, Em, Es. reflexivity. }
  rewrite parse_gtfs_time_nonempty by (rewrite L; discriminate). rewrite L.
  rewrite two_digits_val in Vh, Vm, Vs.
  pose proof (a_digit_range _ Dh1). pose proof (a_digit_range _ Dh2). pose proof (a_digit_range _ Dm1). pose proof (a_digit_range _ Dm2).
  pose proof (a_digit_range _ Ds1). pose proof (a_digit_range _ Ds2).
  unfold a_digit in Dh1, Dh2, Dm1, Dm2, Ds1, Ds2. cbn [time_pieces]. rewrite Dh1, Dh2, Dm1, Dm2, Ds1, Ds2. cbv iota.
  change (is_digit (bval ":"%char)) with false. cbv iota. change (bval ":"%char =? 58) with true. cbv iota.
  rewrite (wrap64_small' (10 * 0 + (bval h1 - 48))), (wrap64_small' (10 * 0 + (bval m1 - 48))), (wrap64_small' (10 * 0 + (bval s1 - 48))) by lia.
  replace (10 * (10 * 0 + (bval h1 - 48)) + (bval h2 - 48)) with h by lia. replace (10 * (10 * 0 + (bval m1 - 48)) + (bval m2 - 48)) with m by lia.
  replace (10 * (10 * 0 + (bval s1 - 48)) + (bval s2 - 48)) with s by lia.
  rewrite (wrap64_small' h), (wrap64_small' m), (wrap64_small' s) by lia. rewrite (wrap64_small' ((h * 60 + m) * 60 + s)) by lia.
  rewrite wrap64_small' by lia. reflexivity.
Qed.
(* anything that is not digits, colons and white space is rejected; so is the empty cell *)
Theorem parse_gtfs_time_empty : parse_gtfs_time "" = None. Proof. reflexivity. Qed.
