(* Proofs/PurityProofs.v — C06: (1) the iteration-order adversary of Model/Purity.v cannot change any parser output;
   (2) a ParseRealtime call neither reads state left by earlier calls nor changes the caller's options. *)
From Coq Require Import Permutation Sorted.
From GV Require Import Base.Prelude Base.Dec Base.Sort Base.StrOrd Base.Lex Model.RtTypes Model.RtWire Model.Realtime Model.Static Model.Purity
  Gen.Enums Gen.NyctTables Proofs.RealtimeProofs Proofs.StaticProofs.

(* ---------- generic: sorting by a key erases a permutation ---------- *)
Lemma NoDup_map_inj_in {A B} (f : A -> B) l x y : NoDup (map f l) -> In x l -> In y l -> f x = f y -> x = y.
Proof.
  induction l as [|a l IH]; cbn; intros Hnd Hx Hy E; [destruct Hx|]. inversion Hnd as [|? ? Hn Hnd']; subst.
  destruct Hx as [<-|Hx], Hy as [<-|Hy]; auto.
  - exfalso. apply Hn. rewrite E. now apply in_map.
  - exfalso. apply Hn. rewrite <- E. now apply in_map.
Qed.
Lemma insert_ext_in {A} (f g : A -> A -> bool) x l : (forall y, In y l -> f y x = g y x) -> insert A f x l = insert A g x l.
Proof. induction l as [|y l IH]; intros H; cbn; [reflexivity|]. rewrite (H y (or_introl eq_refl)).
  destruct (g y x); [|reflexivity]. f_equal. apply IH. intros z Hz. apply H. now right. Qed.
Lemma isort_ext_in {A} (f g : A -> A -> bool) l : (forall x y, In x l -> In y l -> f x y = g x y) -> isort A f l = isort A g l.
Proof.
  induction l as [|x l IH]; intros H; cbn; [reflexivity|].
  rewrite IH by (intros a b Ha Hb; apply H; now right).
  apply insert_ext_in. intros y Hy. apply H; [right|now left].
  apply (Permutation_in _ (isort_perm A g l)), Hy.
Qed.
(* the kernel: elements with pairwise distinct keys, key order strict and total, comparator agrees with the key order on the
   elements present *)
Theorem isort_by_key_perm {A K} (S : sto K) (key : A -> K) (cmp : A -> A -> bool) l l' :
  Permutation l l' -> NoDup (map key l) ->
  (forall x y, In x l -> In y l -> cmp x y = s_ltb S (key x) (key y)) ->
  isort A cmp l = isort A cmp l'.
Proof.
  intros P Hnd Hc.
  rewrite (isort_ext_in cmp (by_key S key) l Hc).
  rewrite (isort_ext_in cmp (by_key S key) l').
  2:{ intros x y Hx Hy. apply Hc; eapply Permutation_in; try apply Permutation_sym; eauto. }
  apply isort_perm_invariant; auto.
  - intros x Hx. eapply by_key_irrefl; exact Hx.
  - intros x y z. apply by_key_trans.
  - eapply NoDup_map_inv; eauto.
  - intros x y Hx Hy. unfold Sort.lt, by_key. destruct (s_tot S (key x) (key y)) as [E|[H|H]]; auto.
    left. eapply NoDup_map_inj_in; eauto.
Qed.

(* folding commuting updates over a permuted list *)
Lemma fold_left_perm_commute {S A} (f : S -> A -> S) l l' :
  Permutation l l' -> (forall a b s, In a l -> In b l -> f (f s a) b = f (f s b) a) -> forall s, fold_left f l s = fold_left f l' s.
Proof.
  induction 1 as [|x l l' P IH|x y l|l1 l2 l3 P1 IH1 P2 IH2]; intros Hc s; cbn.
  - reflexivity.
  - apply IH. intros a b s' Ha Hb. apply Hc; now right.
  - rewrite (Hc y x s); [reflexivity|now left|now right; left].
  - rewrite IH1 by exact Hc. apply IH2. intros a b s' Ha Hb.
    apply Hc; eapply Permutation_in; try apply Permutation_sym; eauto.
Qed.

(* association lists: aset keeps keys unique *)
Lemma aset_nodup {A} k (v : A) l : NoDup (map fst l) -> NoDup (map fst (aset k v l)).
Proof.
  induction l as [|[k' v'] l IH]; cbn; intros H; [constructor; [intros []|constructor]|].
  inversion H as [|? ? Hn Hnd]; subst. destruct (String.eqb_spec k k') as [->|N]; cbn.
  - constructor; auto.
  - constructor; [|auto]. rewrite aset_keys_in. intros [E|E]; [congruence|contradiction].
Qed.

(* ---------- realtime: the alert fallback ---------- *)
Section RT.
Variable sh : shuffler.
Hypothesis sh_fair : fair sh.
Variable cm : Z -> Z -> Z -> Z.
Variable tz : option string.

Lemma fallback_entities_unfold acc : fallback_entities acc = flat_map (fallback_of acc) (isort string String.ltb (map fst (aa_from_trips acc))).
Proof. reflexivity. Qed.
Lemma dirs_update_nodup k m : NoDup (map fst m) -> NoDup (map fst (dirs_update k m)).
Proof. unfold dirs_update. destruct (k_dir k =? DirectionID_Unspecified); [apply aset_nodup|].
  destruct (odflt _ _) as [f t]. apply aset_nodup. Qed.
Lemma alert_step_from_trips_nodup acc s : NoDup (map fst (aa_from_trips acc)) -> NoDup (map fst (aa_from_trips (alert_step cm tz acc s))).
Proof.
  intros H. unfold alert_step.
  set (ft := match omap (parse_trip_descriptor cm tz) (sl_trip s) with
             | Some k => if negb (identifies k) && negb (String.eqb (k_route k) "") then dirs_update k (aa_from_trips acc) else aa_from_trips acc
             | None => aa_from_trips acc end).
  assert (Hft : NoDup (map fst ft)).
  { unfold ft. destruct (omap _ _) as [k|]; [|exact H]. destruct (_ && _); [now apply dirs_update_nodup|exact H]. }
  destruct (negb (informs_something _)); [exact Hft|].
  destruct (omap _ _) as [k|]; [destruct (identifies k)|]; exact Hft.
Qed.
Lemma fold_alert_step_nodup sels : forall acc, NoDup (map fst (aa_from_trips acc)) ->
  NoDup (map fst (aa_from_trips (fold_left (alert_step cm tz) sels acc))).
Proof. induction sels as [|s r IH]; intros acc H; cbn [fold_left]; [exact H|]. apply IH, alert_step_from_trips_nodup, H. Qed.

Theorem fallback_order_free site acc : NoDup (map fst (aa_from_trips acc)) -> fallback_entities_sh sh site acc = fallback_entities acc.
Proof.
  intros H. rewrite fallback_entities_unfold. unfold fallback_entities_sh. f_equal.
  symmetry. apply (isort_by_key_perm sto_string (fun s => s) String.ltb).
  - apply Permutation_sym, sh_fair.
  - now rewrite map_id.
  - reflexivity.
Qed.
Theorem parse_alert_order_free site id a : parse_alert_sh sh cm tz site id a = parse_alert cm tz id a.
Proof. unfold parse_alert_sh, parse_alert. rewrite fallback_order_free; [reflexivity|]. apply fold_alert_step_nodup. constructor. Qed.
End RT.

(* ---------- realtime: TripID.Less and the vehicle comparator are lexicographic strict total orders ---------- *)
Definition key_wf (tz : option string) (k : trip_key) : Prop :=
  (k_has_time k = false -> k_time k = 0) /\ (k_has_date k = false -> k_date k = zero_instant) /\
  (k_has_date k = true -> snd (k_date k) = zone_name tz).
Definition trip_tuple (k : trip_key) := (k_id k, (k_route k, (k_dir k, (k_has_time k, (k_time k, (k_has_date k, (fst (k_date k), k_rel k))))))).
Definition sto_trip :=
  sto_lex String.eqb Seqb_spec' sto_string (sto_lex String.eqb Seqb_spec' sto_string (sto_lex Z.eqb Zeqb_spec' sto_Z
  (sto_lex Bool.eqb Beqb_spec' sto_bool (sto_lex Z.eqb Zeqb_spec' sto_Z (sto_lex Bool.eqb Beqb_spec' sto_bool (sto_lex Z.eqb Zeqb_spec' sto_Z sto_Z)))))).
Lemma trip_less_tuple tz a b : key_wf tz a -> key_wf tz b -> trip_less a b = s_ltb sto_trip (trip_tuple a) (trip_tuple b).
Proof.
  destruct a as [ia ra da hta ta hda [ua za] sa], b as [ib rb db htb tb hdb [ub zb] sb].
  unfold key_wf, trip_less, trip_tuple, sto_trip; cbn. intros (A1 & A2 & A3) (B1 & B2 & B3).
  unfold lex_ltb at 1; cbn. destruct (String.eqb ia ib); cbn; [|reflexivity].
  unfold lex_ltb at 1; cbn. destruct (String.eqb ra rb); cbn; [|reflexivity].
  unfold lex_ltb at 1; cbn. destruct (da =? db); cbn; [|reflexivity].
  unfold lex_ltb at 1; cbn. destruct hta, htb; cbn; try reflexivity.
  - unfold lex_ltb at 1; cbn. destruct (ta =? tb); cbn; [|reflexivity].
    unfold lex_ltb at 1; cbn. destruct hda, hdb; cbn; try reflexivity.
    pose proof (A2 eq_refl) as E1. pose proof (B2 eq_refl) as E2. inversion E1; inversion E2; subst. unfold lex_ltb; cbn. reflexivity.
  - rewrite (A1 eq_refl), (B1 eq_refl). unfold lex_ltb at 1; cbn.
    unfold lex_ltb at 1; cbn. destruct hda, hdb; cbn; try reflexivity.
    pose proof (A2 eq_refl) as E1. pose proof (B2 eq_refl) as E2. inversion E1; inversion E2; subst. unfold lex_ltb; cbn. reflexivity.
Qed.
Lemma trip_tuple_inj tz a b : key_wf tz a -> key_wf tz b -> trip_tuple a = trip_tuple b -> a = b.
Proof.
  destruct a as [ia ra da hta ta hda [ua za] sa], b as [ib rb db htb tb hdb [ub zb] sb].
  unfold key_wf, trip_tuple; cbn. intros (A1 & A2 & A3) (B1 & B2 & B3) E. inversion E; subst.
  destruct hdb.
  - rewrite (A3 eq_refl), (B3 eq_refl). reflexivity.
  - pose proof (A2 eq_refl) as E1. pose proof (B2 eq_refl) as E2. inversion E1; inversion E2; subst. reflexivity.
Qed.
Definition vid_tuple (v : vehicle_id) := (vi_id v, (vi_label v, vi_plate v)).
Definition sto_vid := sto_lex String.eqb Seqb_spec' sto_string (sto_lex String.eqb Seqb_spec' sto_string sto_string).
Lemma vid_less_tuple a b : vid_less a b = s_ltb sto_vid (vid_tuple a) (vid_tuple b).
Proof. destruct a, b. reflexivity. Qed.
Lemma vid_tuple_inj a b : vid_tuple a = vid_tuple b -> a = b.
Proof. destruct a, b. unfold vid_tuple; cbn. intros E; inversion E; reflexivity. Qed.

Lemma parse_trip_descriptor_wf cm tz td : key_wf tz (parse_trip_descriptor cm tz td).
Proof.
  unfold parse_trip_descriptor.
  destruct (parse_start_time (td_start_time td)) as [ht t] eqn:E1. destruct (parse_start_date cm tz (td_start_date td)) as [hd d] eqn:E2.
  unfold key_wf; cbn. repeat split; intros ->.
  - unfold parse_start_time in E1. destruct (td_start_time td) as [s|]; [|now inversion E1].
    destruct (la s) as [|? [|? [|? [|? [|? [|? [|? [|? [|? ?]]]]]]]]]; try now inversion E1.
    destruct (_ && _); now inversion E1.
  - unfold parse_start_date in E2. destruct (td_start_date td) as [s|]; [|now inversion E2].
    destruct (la s) as [|? [|? [|? [|? [|? [|? [|? [|? [|? ?]]]]]]]]]; try now inversion E2.
    destruct (forallb _ _); now inversion E2.
  - unfold parse_start_date in E2. destruct (td_start_date td) as [s|]; [|now inversion E2].
    destruct (la s) as [|? [|? [|? [|? [|? [|? [|? [|? [|? ?]]]]]]]]]; try now inversion E2.
    destruct (forallb _ _); now inversion E2.
Qed.

(* ---------- realtime: what the accumulators of the main loop guarantee ---------- *)
Section G2.
Context {K V : Type} (eqb : K -> K -> bool) (eqb_spec : forall a b, reflect (a = b) (eqb a b)).
Lemma gset_nodup k (v : V) l : NoDup (map fst l) -> NoDup (map fst (gset eqb k v l)).
Proof.
  intros H. rewrite (gset_keys eqb eqb_spec). destruct (existsb (eqb k) (map fst l)) eqn:E; [exact H|].
  induction (map fst l) as [|x r IH]; cbn; [constructor; [intros []|constructor]|].
  inversion H as [|? ? Hn Hnd]; subst. cbn in E. apply Bool.orb_false_iff in E as [E1 E2]. constructor; [|auto].
  rewrite in_app_iff. cbn. intros [Hin|[Hk|[]]]; [exact (Hn Hin)|]. rewrite <- Hk in E1. destruct (eqb_spec k k); congruence.
Qed.
Lemma gset_forall (Q : K * V -> Prop) k v l : Q (k, v) -> Forall Q l -> Forall Q (gset eqb k v l).
Proof. intros Hq H. induction H as [|[k' v'] l Hx Hl IH]; cbn; [repeat constructor; exact Hq|].
  destruct (eqb k k'); constructor; auto. Qed.
Lemma glookup_forall (Q : K * V -> Prop) k v l : Forall Q l -> glookup eqb k l = Some v -> Q (k, v).
Proof. intros H. induction H as [|[k' v'] l Hx Hl IH]; cbn; [discriminate|].
  destruct (eqb_spec k k') as [->|N]; [intros E; inversion E; subst; exact Hx|exact IH]. Qed.
End G2.

Definition trips_ok (tz : option string) (l : list (trip_key * rt_trip)) : Prop :=
  NoDup (map fst l) /\ Forall (fun kt => tr_key (snd kt) = fst kt /\ key_wf tz (fst kt)) l.
Definition vehicles_ok (l : list (vehicle_id * rt_vehicle)) : Prop :=
  NoDup (map fst l) /\ Forall (fun iv => ve_id (snd iv) = Some (fst iv)) l.
Definition acc_inv (tz : option string) (a : acc) : Prop := trips_ok tz (a_trips a) /\ vehicles_ok (a_vehicles a).

Lemma merge_trip_ok tz trips new : key_wf tz (tr_key new) -> trips_ok tz trips -> trips_ok tz (merge_trip trips new).
Proof.
  intros Hw [Hnd Hf]. unfold merge_trip. split; [apply (gset_nodup tk_eqb tk_eqb_spec), Hnd|].
  apply gset_forall; [|exact Hf]. cbn. split; [|exact Hw]. destruct (tr_in_msg new); reflexivity.
Qed.
Lemma fold_merge_trip_ok tz ts : forall trips, Forall (fun t => key_wf tz (tr_key t)) ts -> trips_ok tz trips -> trips_ok tz (fold_left merge_trip ts trips).
Proof. induction ts as [|t r IH]; intros trips Hf H; cbn [fold_left]; [exact H|]. inversion Hf; subst. apply IH; [assumption|]. now apply merge_trip_ok. Qed.
Lemma merge_vehicle_ok vs id new : ve_id new = Some id -> vehicles_ok vs -> vehicles_ok (merge_vehicle vs id new).
Proof.
  intros Hid [Hnd Hf]. unfold merge_vehicle. split; [apply (gset_nodup vi_eqb vi_eqb_spec), Hnd|].
  apply gset_forall; [|exact Hf]. cbn. destruct (ve_in_msg new); [exact Hid|reflexivity].
Qed.
Lemma add_trip_vehicle_ok tz a t v : match t with Some t => key_wf tz (tr_key t) | None => True end ->
  acc_inv tz a -> acc_inv tz (add_trip_vehicle a t v).
Proof.
  intros Hw [Ht Hv]. unfold add_trip_vehicle.
  assert (Ht' : trips_ok tz (match t with Some t0 => merge_trip (a_trips a) t0 | None => a_trips a end)).
  { destruct t as [t0|]; [now apply merge_trip_ok|exact Ht]. }
  destruct v as [v|]; [|split; assumption].
  destruct (ve_id v) as [id|] eqn:E; split; cbn; try assumption. now apply merge_vehicle_ok.
Qed.
Lemma alert_step_trips_wf cm tz acc s : Forall (fun t => key_wf tz (tr_key t)) (aa_trips acc) ->
  Forall (fun t => key_wf tz (tr_key t)) (aa_trips (alert_step cm tz acc s)).
Proof.
  intros H. unfold alert_step. destruct (negb (informs_something _)); cbn; [exact H|].
  destruct (omap (parse_trip_descriptor cm tz) (sl_trip s)) as [k|] eqn:E; [|exact H].
  destruct (identifies k); cbn; [|exact H]. apply Forall_app; split; [exact H|]. constructor; [|constructor]. cbn.
  destruct (sl_trip s); inversion E; subst. apply parse_trip_descriptor_wf.
Qed.
Lemma parse_alert_trips_wf cm tz id a : Forall (fun t => key_wf tz (tr_key t)) (snd (parse_alert cm tz id a)).
Proof.
  unfold parse_alert; cbn.
  assert (G : forall sels acc, Forall (fun t => key_wf tz (tr_key t)) (aa_trips acc) ->
              Forall (fun t => key_wf tz (tr_key t)) (aa_trips (fold_left (alert_step cm tz) sels acc))).
  { induction sels as [|s r IH]; intros acc H; cbn [fold_left]; [exact H|]. apply IH, alert_step_trips_wf, H. }
  apply G. constructor.
Qed.
Lemma entity_step_ok cm tz cfg a es : acc_inv tz a -> acc_inv tz (entity_step cm tz cfg a es).
Proof.
  intros H. destruct es as [e skip]. unfold entity_step. destruct skip; [exact H|].
  destruct (e_tu e) as [tu|].
  - unfold parse_trip_update. apply add_trip_vehicle_ok; [|exact H]. cbn. apply parse_trip_descriptor_wf.
  - destruct (e_vp e) as [vp|].
    + unfold parse_vehicle. apply add_trip_vehicle_ok; [|exact H]. destruct (vp_trip vp); cbn; [apply parse_trip_descriptor_wf|exact I].
    + destruct (e_alert e) as [al|]; [|exact H].
      pose proof (parse_alert_trips_wf cm tz (e_id e) al) as Hw. destruct (parse_alert cm tz (e_id e) al) as [ra ts]. cbn in Hw.
      destruct H as [Ht Hv]. split; cbn; [|exact Hv]. now apply fold_merge_trip_ok.
Qed.
Lemma fold_entity_step_ok cm tz cfg l : forall a, acc_inv tz a -> acc_inv tz (fold_left (entity_step cm tz cfg) l a).
Proof. induction l as [|x r IH]; intros a H; cbn [fold_left]; [exact H|]. apply IH, entity_step_ok, H. Qed.
Lemma acc0_ok tz : acc_inv tz acc0.
Proof. repeat split; cbn; constructor. Qed.

Lemma NoDup_map_inj_on {A B} (f : A -> B) l : (forall x y, In x l -> In y l -> f x = f y -> x = y) -> NoDup l -> NoDup (map f l).
Proof.
  induction l as [|a l IH]; intros Hi Hnd; cbn; [constructor|]. inversion Hnd as [|? ? Hn Hnd']; subst. constructor.
  - intros Hin. apply in_map_iff in Hin as [x [E Hx]]. apply Hn. rewrite <- (Hi x a); auto; [now right|now left].
  - apply IH; auto. intros x y Hx Hy. apply Hi; now right.
Qed.

(* ---------- realtime: the two range-then-sort sites of ParseRealtime ---------- *)
Section Finish.
Variable sh : shuffler.
Hypothesis sh_fair : fair sh.
Theorem finish_order_free tz created a : acc_inv tz a -> finish_sh sh created a = finish created a.
Proof.
  intros [[Hnd Hf] [Hvn Hvf]]. unfold finish_sh, finish. f_equal.
  - (* trips *)
    symmetry. apply (isort_by_key_perm sto_trip (fun t => trip_tuple (tr_key t))).
    + apply Permutation_map, Permutation_sym, sh_fair.
    + rewrite map_map. rewrite Forall_forall in Hf.
      rewrite (map_ext_in _ (fun kt => trip_tuple (fst kt))).
      2:{ intros [k t] Hin. destruct (Hf _ Hin) as [E _]. cbn in *.
          destruct (glookup tk_eqb k (a_t2v a)); [exact (f_equal trip_tuple E)|]. destruct (existsb _ _); exact (f_equal trip_tuple E). }
      rewrite <- map_map. apply NoDup_map_inj_on; [|exact Hnd].
      intros x y Hx Hy. apply in_map_iff in Hx as [[k1 t1] [<- H1]], Hy as [[k2 t2] [<- H2]].
      apply (trip_tuple_inj tz); [apply (Hf _ H1)|apply (Hf _ H2)].
    + intros x y Hx Hy. rewrite Forall_forall in Hf.
      assert (W : forall x, In x (map (fun kt : trip_key * rt_trip => let '(k, t) := kt in
                    match glookup tk_eqb k (a_t2v a) with
                    | Some vid => set_trip_vehicle t (Some (Some vid))
                    | None => if existsb (tk_eqb k) (a_t2noid a) then set_trip_vehicle t (Some None) else t end) (a_trips a)) -> key_wf tz (tr_key x)).
      { intros z Hz. apply in_map_iff in Hz as [[k t] [<- Hin]]. destruct (Hf _ Hin) as [E Hw]. cbn in *.
        destruct (glookup tk_eqb k (a_t2v a)); [cbn; now rewrite E|]. destruct (existsb _ _); cbn; now rewrite E. }
      apply (trip_less_tuple tz); auto.
  - (* vehicles *)
    f_equal. symmetry.
    apply (isort_by_key_perm sto_vid (fun v => match ve_id v with Some i => vid_tuple i | None => ("", ("", "")) end)).
    + apply Permutation_map, Permutation_sym, sh_fair.
    + rewrite map_map. rewrite Forall_forall in Hvf.
      rewrite (map_ext_in _ (fun iv => vid_tuple (fst iv))).
      2:{ intros [i v] Hin. pose proof (Hvf _ Hin) as E. cbn in *. destruct (glookup vi_eqb i (a_v2t a)); cbn; now rewrite E. }
      rewrite <- map_map. apply NoDup_map_inj_on; [|exact Hvn]. intros x y _ _. apply vid_tuple_inj.
    + intros x y Hx Hy. rewrite Forall_forall in Hvf.
      apply in_map_iff in Hx as [[i1 v1] [<- H1]], Hy as [[i2 v2] [<- H2]].
      pose proof (Hvf _ H1) as E1. pose proof (Hvf _ H2) as E2. cbn in *.
      destruct (glookup vi_eqb i1 (a_v2t a)), (glookup vi_eqb i2 (a_v2t a)); cbn; rewrite E1, E2; apply vid_less_tuple.
Qed.

Lemma fold_entity_step_sh cm tz cfg l : forall i a,
  fold_left (entity_step_sh sh cm tz cfg) (enumerate i l) a = fold_left (entity_step cm tz cfg) l a.
Proof.
  induction l as [|[e skip] r IH]; intros i a; cbn [enumerate fold_left]; [reflexivity|]. rewrite IH. f_equal.
  unfold entity_step_sh, entity_step. destruct skip; [reflexivity|].
  destruct (e_tu e); [reflexivity|]. destruct (e_vp e); [reflexivity|]. destruct (e_alert e); [|reflexivity].
  now rewrite (parse_alert_order_free sh sh_fair cm tz).
Qed.
Theorem parse_message_order_free cm tz cfg m : parse_message_sh sh cm tz cfg m = parse_message cm tz cfg m.
Proof.
  unfold parse_message_sh, parse_message. rewrite fold_entity_step_sh. apply (finish_order_free tz).
  apply fold_entity_step_ok, acc0_ok.
Qed.
End Finish.

(* ---------- static: the three range sites of ParseStatic ---------- *)
Section StaticOrder.
Variable sh : shuffler.
Hypothesis sh_fair : fair sh.
Variable pf : string -> option Z.
Variable di : string -> string -> option Z.

Definition svc_keys_ok (m : list (string * service)) : Prop := NoDup (map fst m) /\ Forall (fun kv => sv_id (snd kv) = fst kv) m.
Lemma svc_keys_aset k v m : sv_id v = k -> svc_keys_ok m -> svc_keys_ok (aset k v m).
Proof. intros E [H1 H2]. split; [now apply aset_nodup|]. apply aset_forall'; [exact E|exact H2]. Qed.
Lemma calendar_row_keys zone m v : svc_keys_ok m -> svc_keys_ok (calendar_row di zone m v).
Proof.
  intros H. unfold calendar_row. destruct (required v "start_date") as [sd m1]. destruct (di zone sd); [|exact H].
  destruct (required v "end_date") as [ed m2]. destruct (di zone ed); [|exact H].
  destruct (required v "service_id") as [sid m3]. destruct (_ || _); [exact H|]. now apply svc_keys_aset.
Qed.
Lemma calendar_date_row_keys zone m v : svc_keys_ok m -> svc_keys_ok (calendar_date_row di zone m v).
Proof.
  intros H. unfold calendar_date_row. destruct (required v "service_id") as [sid m1]. destruct (required v "date") as [ds m2].
  destruct (di zone ds); [|exact H]. destruct (required v "exception_type") as [et m3]. destruct (_ || _); [exact H|].
  destruct (String.eqb et "1"); [apply svc_keys_aset; [reflexivity|exact H]|].
  destruct (String.eqb et "2"); [apply svc_keys_aset; [reflexivity|exact H]|exact H].
Qed.
Lemma parse_calendar_keys zone m hdr rows : svc_keys_ok m -> svc_keys_ok (parse_calendar di zone m hdr rows).
Proof.
  intros H. unfold parse_calendar. destruct (has_columns _ _); [|exact H].
  revert m H. induction rows as [|r rows IH]; intros m H; cbn [fold_left]; [exact H|]. apply IH, calendar_row_keys, H.
Qed.
Lemma parse_calendar_dates_keys zone m hdr rows : svc_keys_ok m -> svc_keys_ok (parse_calendar_dates di zone m hdr rows).
Proof.
  intros H. unfold parse_calendar_dates. destruct (has_columns _ _); [|exact H].
  revert m H. induction rows as [|r rows IH]; intros m H; cbn [fold_left]; [exact H|]. apply IH, calendar_date_row_keys, H.
Qed.
Theorem services_order_free m : svc_keys_ok m -> services_of_sh sh m = services_of m.
Proof.
  intros [Hnd Hf]. unfold services_of_sh, services_of. symmetry.
  apply (isort_by_key_perm sto_string sv_id).
  - apply Permutation_map, Permutation_sym, sh_fair.
  - rewrite map_map. rewrite (map_ext_in _ fst); [exact Hnd|]. rewrite Forall_forall in Hf. intros kv Hin. apply Hf, Hin.
  - reflexivity.
Qed.

Lemma shapes_row_keys m v : NoDup (map fst m) -> NoDup (map fst (shapes_row pf m v)).
Proof.
  intros H. unfold shapes_row. destruct (required v "shape_id") as [sid m1]. destruct (required v "shape_pt_lat") as [lat m2].
  destruct (required v "shape_pt_lon") as [lon m3]. destruct (required v "shape_pt_sequence") as [sq m4].
  destruct (_ || _); [exact H|]. destruct (parse_float64 pf lat); [|exact H]. destruct (parse_float64 pf lon); [|exact H].
  destruct (parse_int32 sq); [|exact H]. now apply aset_nodup.
Qed.
Theorem shapes_order_free hdr rows : parse_shapes_sh sh pf hdr rows = parse_shapes pf hdr rows.
Proof.
  unfold parse_shapes_sh, parse_shapes. destruct (has_columns _ _); [|reflexivity].
  set (m := fold_left _ rows []). symmetry.
  assert (Hnd : NoDup (map fst m)).
  { unfold m. assert (G : forall rs m0, NoDup (map fst m0) -> NoDup (map fst (fold_left (fun m cells => shapes_row pf m (view hdr cells)) rs m0))).
    { induction rs as [|r rs IH]; intros m0 H0; cbn [fold_left]; [exact H0|]. apply IH, shapes_row_keys, H0. }
    apply G. constructor. }
  apply (isort_by_key_perm sto_string sh_id).
  - apply Permutation_map, Permutation_sym, sh_fair.
  - rewrite map_map. cbn. exact Hnd.
  - reflexivity.
Qed.

(* the per-trip sorts touch distinct trips *)
Lemma aset_values_nodup k (v : nat) l : NoDup (map snd l) -> ~ In v (map snd l) -> NoDup (map snd (aset k v l)).
Proof.
  induction l as [|[k' v'] l IH]; cbn; intros Hnd Hn; [constructor; [intros []|constructor]|].
  inversion Hnd as [|? ? Hx Hnd']; subst. destruct (String.eqb k k'); cbn.
  - constructor; [tauto|exact Hnd'].
  - constructor; [|apply IH; tauto]. intros Hin. apply in_map_iff in Hin as [[k2 v2] [E Hin]]. cbn in E. subst v2.
    assert (In (k2, v') l \/ (k2, v') = (k, v)).
    { clear - Hin. induction l as [|[a b] l IH]; cbn in *; [destruct Hin as [E|[]]; right; now symmetry|].
      destruct (String.eqb k a); cbn in Hin; destruct Hin as [E|Hin]; auto. destruct (IH Hin); auto. }
    destruct H as [H|H]; [apply Hx; apply in_map_iff; exists (k2, v'); auto|inversion H; subst; tauto].
Qed.
Lemma aset_values_in k (v : nat) l x : In x (map snd (aset k v l)) -> x = v \/ In x (map snd l).
Proof. induction l as [|[k' v'] l IH]; cbn; [intros [<-|[]]; now left|]. destruct (String.eqb k k'); cbn; [intros [<-|H]; auto|]. intros [E|H]; [tauto|]. destruct (IH H); tauto. Qed.
Lemma id_to_trip_values (trips : list strip) : NoDup (map snd (id_to_trip trips)).
Proof.
  unfold id_to_trip.
  assert (G : forall l i m, NoDup (map snd m) -> (forall x, In x (map snd m) -> (x < i)%nat) ->
              NoDup (map snd (fold_left (fun m it => aset (tp_id (snd it)) (fst it) m) (enum_from i l) m))).
  { induction l as [|t l IH]; intros i m Hnd Hlt; cbn [enum_from fold_left]; [exact Hnd|]. apply IH; cbn.
    - apply aset_values_nodup; [exact Hnd|]. intros Hin. apply Hlt in Hin. lia.
    - intros x Hx. apply aset_values_in in Hx as [->|Hx]; [lia|]. apply Hlt in Hx. lia. }
  apply G; [constructor|intros x []].
Qed.
Lemma upd_trip_commute ts i j f : upd_trip (upd_trip ts i f) j f = upd_trip (upd_trip ts j f) i f.
Proof.
  destruct (Nat.eq_dec i j) as [->|N]; [reflexivity|]. unfold upd_trip.
  destruct (nth_error ts i) as [ti|] eqn:Ei, (nth_error ts j) as [tj|] eqn:Ej; rewrite ?Ei, ?Ej; try reflexivity.
  - assert (Hj : nth_error (set_nth i (f ti) ts) j = Some tj).
    { clear Ei. revert i j N Ej. induction ts as [|t ts IH]; intros [|i] [|j] N E; cbn in *; try congruence; auto. }
    assert (Hi : nth_error (set_nth j (f tj) ts) i = Some ti).
    { clear Ej Hj. revert i j N Ei. induction ts as [|t ts IH]; intros [|i] [|j] N E; cbn in *; try congruence; auto. }
    rewrite Hj, Hi. clear - N. revert i j N. induction ts as [|t ts IH]; intros [|i] [|j] N; cbn; try reflexivity; [congruence|]. rewrite IH; auto.
  - assert (Hj : nth_error (set_nth i (f ti) ts) j = None).
    { clear Ei. revert i j N Ej. induction ts as [|t ts IH]; intros [|i] [|j] N E; cbn in *; try congruence; auto. }
    now rewrite Hj.
  - assert (Hi : nth_error (set_nth j (f tj) ts) i = None).
    { clear Ej. revert i j N Ei. induction ts as [|t ts IH]; intros [|i] [|j] N E; cbn in *; try congruence; auto. }
    now rewrite Hi.
Qed.
Theorem stop_times_order_free stops trips hdr rows : parse_stop_times_sh sh pf stops trips hdr rows = parse_stop_times pf stops trips hdr rows.
Proof.
  unfold parse_stop_times_sh, parse_stop_times. destruct (has_columns _ _); [|reflexivity].
  set (filled := fold_left _ rows trips). symmetry. apply fold_left_perm_commute; [apply Permutation_sym, sh_fair|].
  intros a b s _ _. apply upd_trip_commute.
Qed.

Theorem parse_static_order_free inherit ms : parse_static_sh sh pf di inherit ms = parse_static pf di inherit ms.
Proof.
  unfold parse_static_sh, parse_static, parse_static_gen, parse_tables_gen.
  destruct (open_file "agency.txt" _ ms); try reflexivity. destruct (parse_agencies hdr rows) as [agencies warns].
  destruct (open_file "routes.txt" _ ms); try reflexivity.
  destruct (open_file "stops.txt" _ ms); try reflexivity.
  assert (S0 : forall z h r, svc_keys_ok (parse_calendar di z [] h r)) by (intros; apply parse_calendar_keys; split; constructor).
  assert (S1 : forall z m h r, svc_keys_ok m -> services_of_sh sh (parse_calendar_dates di z m h r) = services_of (parse_calendar_dates di z m h r))
    by (intros; apply services_order_free, parse_calendar_dates_keys; assumption).
  assert (S2 : svc_keys_ok []) by (split; constructor).
  destruct (open_file "transfers.txt" _ ms); try reflexivity;
  destruct (open_file "calendar.txt" _ ms); try reflexivity;
  destruct (open_file "calendar_dates.txt" _ ms); try reflexivity;
  rewrite ?S1, ?services_order_free by auto;
  destruct (open_file "shapes.txt" _ ms); try reflexivity;
  rewrite ?shapes_order_free;
  destruct (open_file "trips.txt" _ ms); try reflexivity;
  destruct (open_file "frequencies.txt" _ ms); try reflexivity;
  destruct (open_file "stop_times.txt" _ ms); try reflexivity;
  rewrite stop_times_order_free; reflexivity.
Qed.
End StaticOrder.

(* ---------- history: what a ParseRealtime call reads and leaves behind ---------- *)
Definition cfg_of (o : rt_opts) : ext_cfg := match ro_ext o with Some x => xo_cfg x | None => NoExt end.
Lemma pre_pass_from_nil cfg m : pre_pass_from [] cfg m = pre_pass cfg m. Proof. reflexivity. Qed.
Lemma parse_message_from_fresh cm tz x m : xo_elev x = [] -> fst (parse_message_from cm tz x m) = parse_message cm tz (xo_cfg x) m.
Proof. intros E. unfold parse_message_from, parse_message. cbn. rewrite E. reflexivity. Qed.
Theorem call_result cm o m : fst (call cm o (Some m)) = Ok (parse_message cm (ro_tz o) (cfg_of o) m).
Proof. unfold call. cbn [fst]. rewrite parse_message_from_fresh by reflexivity. unfold cfg_of, for_message. cbn. destruct (ro_ext o); reflexivity. Qed.
Theorem call_opts_untouched cm o m : snd (call cm o m) = o.
Proof. unfold call. destruct m; reflexivity. Qed.
(* the result depends on the options only through the zone and the extension's configuration: whatever the shared
   extension value has accumulated is not read *)
Theorem call_equivalent_options cm o o' m : ro_tz o = ro_tz o' -> cfg_of o = cfg_of o' -> fst (call cm o m) = fst (call cm o' m).
Proof. intros E1 E2. destruct m as [m|]; [|reflexivity]. now rewrite !call_result, E1, E2. Qed.
Theorem run_history_free cm : forall ms o, run (call cm) o ms = (map (fun m => fst (call cm o m)) ms, o).
Proof.
  induction ms as [|m r IH]; intros o; cbn [run map]; [reflexivity|].
  destruct (call cm o m) as [res o1] eqn:E. pose proof (call_opts_untouched cm o m) as H. rewrite E in H. cbn in H. subst o1.
  rewrite IH. reflexivity.
Qed.
