(* Proofs/AlertProofs.v — C12, the completeness half, for every alert: the informed entities of a parsed alert are EXACTLY,
   in selector order, one entity per selector that informs something (with its trip identifier kept only when it identifies
   a trip), followed by the route fallbacks in route id order; and the fallback routes are exactly the routes named only by
   non-identifying trip descriptors and not informed explicitly. *)
From GV Require Import Base.Prelude Base.Dec Base.Sort Base.StrOrd Model.RtTypes Model.RtWire Model.Realtime Model.Static Model.Purity
  Proofs.RealtimeProofs Proofs.PurityProofs Gen.Enums.

Section WithOracles.
Variable cm : Z -> Z -> Z -> Z.
Variable tz : option string.

(* the entity a selector stands for *)
Definition entity_of (s : selector) : informed_entity :=
  {| ie_agency := sl_agency s; ie_route := sl_route s; ie_route_type := route_type_rt (sl_route_type s);
     ie_dir := direction_rt (sl_direction s); ie_trip := omap (parse_trip_descriptor cm tz) (sl_trip s); ie_stop := sl_stop s |}.
Definition drop_trip (e : informed_entity) : informed_entity :=
  {| ie_agency := ie_agency e; ie_route := ie_route e; ie_route_type := ie_route_type e; ie_dir := ie_dir e; ie_trip := None; ie_stop := ie_stop e |}.
(* what a selector contributes to the alert's informed entities: nothing if it informs nothing *)
Definition represent (s : selector) : option informed_entity :=
  let e := entity_of s in
  if negb (informs_something e) then None else
  match ie_trip e with
  | Some k => if identifies k then Some e else Some (drop_trip e)
  | None => Some e
  end.
Lemma alert_step_entities acc s :
  aa_entities (alert_step cm tz acc s) = aa_entities acc ++ match represent s with Some e => [e] | None => [] end.
Proof.
  unfold alert_step, represent, entity_of. cbn [ie_trip].
  destruct (negb (informs_something _)); cbn [aa_entities]; [now rewrite app_nil_r|].
  destruct (omap (parse_trip_descriptor cm tz) (sl_trip s)) as [k|]; [destruct (identifies k)|]; reflexivity.
Qed.
Theorem informed_entities_exact id a :
  al_informed (fst (parse_alert cm tz id a)) =
  filter_map represent (wa_informed a) ++
  fallback_entities (fold_left (alert_step cm tz) (wa_informed a) {| aa_entities := []; aa_trips := []; aa_routes := []; aa_from_trips := [] |}).
Proof.
  unfold parse_alert. cbn [fst al_informed]. f_equal.
  assert (G : forall sels acc, aa_entities (fold_left (alert_step cm tz) sels acc) = aa_entities acc ++ filter_map represent sels).
  { induction sels as [|s r IH]; intros acc; cbn [fold_left]; [unfold filter_map; cbn; now rewrite app_nil_r|].
    rewrite IH, alert_step_entities, <- app_assoc. unfold filter_map. cbn [flat_map]. reflexivity. }
  rewrite G. reflexivity.
Qed.
(* hence: every selector that informs something is represented, in order, with exactly its values *)
Corollary selectors_represented id a s : In s (wa_informed a) -> informs_something (entity_of s) = true ->
  exists e, represent s = Some e /\ In e (al_informed (fst (parse_alert cm tz id a))) /\
    ie_agency e = sl_agency s /\ ie_route e = sl_route s /\ ie_route_type e = route_type_rt (sl_route_type s) /\ ie_stop e = sl_stop s /\
    ie_dir e = direction_rt (sl_direction s).
Proof.
  intros Hin Hi. unfold represent. rewrite Hi. cbn [negb].
  assert (R : forall e, represent s = Some e -> In e (al_informed (fst (parse_alert cm tz id a)))).
  { intros e He. rewrite informed_entities_exact. apply in_app_iff. left. unfold filter_map. apply in_flat_map. exists s. split; [exact Hin|]. rewrite He. now left. }
  unfold represent in R. rewrite Hi in R. cbn [negb] in R.
  destruct (ie_trip (entity_of s)) as [k|]; [destruct (identifies k)|]; eexists; (split; [reflexivity|]); (split; [apply R; reflexivity|]); repeat split.
Qed.

(* the fallback: which routes get a route-level entity, and with which direction *)
Definition route_only (s : selector) : option trip_key :=
  match omap (parse_trip_descriptor cm tz) (sl_trip s) with
  | Some k => if negb (identifies k) && negb (String.eqb (k_route k) "") then Some k else None
  | None => None
  end.
Lemma alert_step_tables acc s :
  aa_routes (alert_step cm tz acc s) = match sl_route s with Some r => r :: aa_routes acc | None => aa_routes acc end /\
  aa_from_trips (alert_step cm tz acc s) = match route_only s with Some k => dirs_update k (aa_from_trips acc) | None => aa_from_trips acc end.
Proof.
  unfold alert_step, route_only. destruct (omap (parse_trip_descriptor cm tz) (sl_trip s)) as [k|]; cbn.
  - destruct (negb (informs_something _)); cbn; [destruct (_ && _); split; reflexivity|]. destruct (identifies k); cbn; destruct (negb (k_route k =? "")%string); split; reflexivity.
  - destruct (negb (informs_something _)); cbn; split; reflexivity.
Qed.
(* a route is informed by fallback exactly when some selector names it only through a non-identifying trip descriptor
   and no selector names it explicitly *)
Theorem fallback_routes (a : walert) r :
  In r (flat_map (fun e => match ie_route e, ie_agency e, ie_stop e, ie_trip e with Some x, None, None, None => [x] | _, _, _, _ => [] end)
        (fallback_entities (fold_left (alert_step cm tz) (wa_informed a) {| aa_entities := []; aa_trips := []; aa_routes := []; aa_from_trips := [] |}))) ->
  (exists s k, In s (wa_informed a) /\ route_only s = Some k /\ k_route k = r) /\ ~ In (Some r) (map sl_route (wa_informed a)).
Proof.
  set (acc := fold_left _ _ _).
  assert (T : forall sels acc0, let acc1 := fold_left (alert_step cm tz) sels acc0 in
     (forall x, In x (aa_routes acc1) <-> In x (aa_routes acc0) \/ In (Some x) (map sl_route sels)) /\
     (forall x, In x (map fst (aa_from_trips acc1)) -> In x (map fst (aa_from_trips acc0)) \/ exists s k, In s sels /\ route_only s = Some k /\ k_route k = x)).
  { induction sels as [|s sels IH]; intros acc0; cbn [fold_left map]; [cbn; split; [intros; tauto|intros; tauto]|].
    destruct (IH (alert_step cm tz acc0 s)) as [I1 I2]. destruct (alert_step_tables acc0 s) as [E1 E2]. split.
    - intros x. rewrite I1, E1. cbn. destruct (sl_route s) as [r0|]; cbn; split; intros H; intuition (try congruence).
    - intros x Hx. destruct (I2 x Hx) as [H|[s0 [k [Hs [Hr Hk]]]]]; [|right; exists s0, k; cbn; tauto].
      rewrite E2 in H. destruct (route_only s) as [k|] eqn:Er; [|now left].
      unfold dirs_update in H. destruct (k_dir k =? DirectionID_Unspecified).
      + apply aset_keys_in in H as [->|H]; [right; exists s, k; cbn; tauto|now left].
      + destruct (odflt _ _) as [f t]. apply aset_keys_in in H as [->|H]; [right; exists s, k; cbn; tauto|now left]. }
  destruct (T (wa_informed a) {| aa_entities := []; aa_trips := []; aa_routes := []; aa_from_trips := [] |}) as [T1 T2]. fold acc in T1, T2.
  intros H. apply in_flat_map in H as [e [He Hr]]. unfold fallback_entities in He. apply in_flat_map in He as [x [Hx He]].
  destruct (existsb (String.eqb x) (aa_routes acc)) eqn:Ex; [destruct He|]. destruct (alookup x (aa_from_trips acc)) as [[f t]|]; [|destruct He].
  destruct He as [<-|[]]. cbn in Hr. destruct Hr as [<-|[]].
  apply (Permutation.Permutation_in _ (isort_perm _ _ _)) in Hx. split.
  - destruct (T2 x Hx) as [[]|H]; exact H.
  - intros Hin. assert (Hi : In x (aa_routes acc)) by (apply T1; now right).
    assert (existsb (String.eqb x) (aa_routes acc) = true) by (apply existsb_exists; exists x; split; [exact Hi|apply String.eqb_refl]). congruence.
Qed.
End WithOracles.
