(* Proofs/TimeProofs.v — C01 / C10: white space (in the sense of unicode.IsSpace, ASCII or not) around a GTFS time is not part
   of the value: for every run of white-space characters before and after, the padded HH:MM:SS cell parses to the same
   duration as the bare one.  (parseGtfsTimeToDuration skips white space wherever it stands; spreadsheet exports pad cells
   with NO-BREAK SPACE and friends.) *)
From GV Require Import Base.Prelude Base.Dec Model.Realtime Model.Static Proofs.RealtimeProofs Proofs.StaticProofs.

(* one white-space character, as the bytes of its UTF-8 encoding *)
Inductive space_char : list ascii -> Prop :=
| sc_ascii a : ascii_space (bval a) = true -> space_char [a]
| sc_two a b : space2 (bval a) (bval b) = true -> space_char [a; b]
| sc_three a b c : space3 (bval a) (bval b) (bval c) = true -> space_char [a; b; c].
Inductive spaces : list ascii -> Prop :=
| sp_nil : spaces []
| sp_cons t l : space_char t -> spaces l -> spaces (t ++ l).

Example nbsp_is_space : space_char (la (String "194" (String "160" ""))). Proof. apply sc_two. reflexivity. Qed.
Example ideographic_is_space : space_char (la (String "227" (String "128" (String "128" "")))). Proof. apply sc_three. reflexivity. Qed.
Example tab_is_space : space_char (la (String "009" "")). Proof. apply sc_ascii. reflexivity. Qed.

Lemma skip_space_char t l i p0 p1 p2 : space_char t -> time_pieces (t ++ l) i p0 p1 p2 = time_pieces l i p0 p1 p2.
Proof.
  intros [a Ha|a b Hab|a b c Habc]; cbn [app time_pieces].
  - assert (D : is_digit (bval a) = false).
    { unfold ascii_space in Ha. unfold is_digit. destruct (48 <=? bval a) eqn:E1; [|reflexivity]. destruct (bval a <=? 57) eqn:E2; [|reflexivity].
      apply Z.leb_le in E1, E2. exfalso. apply orb_true_iff in Ha as [Ha|Ha]; [apply andb_true_iff in Ha as [A B]; apply Z.leb_le in A, B; lia|apply Z.eqb_eq in Ha; lia]. }
    assert (C : (bval a =? 58) = false).
    { apply Z.eqb_neq. unfold ascii_space in Ha. apply orb_true_iff in Ha as [Ha|Ha]; [apply andb_true_iff in Ha as [A B]; apply Z.leb_le in A, B; lia|apply Z.eqb_eq in Ha; lia]. }
    now rewrite D, C, Ha.
  - unfold space2 in Hab. apply andb_true_iff in Hab as [A B]. apply Z.eqb_eq in A.
    assert (D : is_digit (bval a) = false) by (rewrite A; reflexivity).
    assert (C : (bval a =? 58) = false) by (rewrite A; reflexivity).
    assert (S : ascii_space (bval a) = false) by (rewrite A; reflexivity).
    rewrite D, C, S. unfold space2. rewrite A. cbn [Z.eqb Pos.eqb andb]. now rewrite B.
  - assert (V : bval a = 225 \/ bval a = 226 \/ bval a = 227).
    { unfold space3 in Habc. repeat (apply orb_true_iff in Habc as [Habc|Habc]);
        repeat (apply andb_true_iff in Habc as [Habc ?]); apply Z.eqb_eq in Habc; lia. }
    assert (D : is_digit (bval a) = false) by (destruct V as [->|[->| ->]]; reflexivity).
    assert (C : (bval a =? 58) = false) by (destruct V as [->|[->| ->]]; reflexivity).
    assert (S : ascii_space (bval a) = false) by (destruct V as [->|[->| ->]]; reflexivity).
    assert (T : space2 (bval a) (bval b) = false) by (unfold space2; destruct V as [->|[->| ->]]; reflexivity).
    now rewrite D, C, S, T, Habc.
Qed.
Lemma skip_spaces ws l i p0 p1 p2 : spaces ws -> time_pieces (ws ++ l) i p0 p1 p2 = time_pieces l i p0 p1 p2.
Proof. induction 1 as [|t r Ht Hr IH]; [reflexivity|]. rewrite <- app_assoc, skip_space_char by exact Ht. exact IH. Qed.

(* reading HH:MM:SS and going on with whatever follows *)
Lemma time_pieces_hms h m s rest : 0 <= h < 100 -> 0 <= m < 100 -> 0 <= s < 100 ->
  time_pieces (la (hms h m s) ++ rest) 0 0 0 0 = time_pieces rest 2 h m s.
Proof.
  intros Hh Hm Hs. destruct (two_digit h Hh) as (h1 & h2 & Eh & Dh1 & Dh2 & Vh).
  destruct (two_digit m Hm) as (m1 & m2 & Em & Dm1 & Dm2 & Vm). destruct (two_digit s Hs) as (s1 & s2 & Es & Ds1 & Ds2 & Vs).
  assert (L : la (hms h m s) = h1 :: h2 :: ":"%char :: m1 :: m2 :: ":"%char :: s1 :: s2 :: []).
  { unfold hms. rewrite !la_app, Eh, Em, Es. reflexivity. }
  rewrite L. rewrite two_digits_val in Vh, Vm, Vs.
  pose proof (a_digit_range _ Dh1). pose proof (a_digit_range _ Dh2). pose proof (a_digit_range _ Dm1). pose proof (a_digit_range _ Dm2).
  pose proof (a_digit_range _ Ds1). pose proof (a_digit_range _ Ds2).
  cbn [app]. rewrite (time_pieces_two h1 h2) by assumption.
  assert (Colon : forall r i p0 p1 p2, time_pieces (":"%char :: r) i p0 p1 p2 = match i with S (S _) => None | _ => time_pieces r (S i) p0 p1 p2 end) by reflexivity.
  rewrite Colon. rewrite (time_pieces_two m1 m2) by assumption. rewrite Colon. rewrite (time_pieces_two s1 s2) by assumption.
  rewrite (wrap64_small' (10 * 0 + (bval h1 - 48))), (wrap64_small' (10 * 0 + (bval m1 - 48))), (wrap64_small' (10 * 0 + (bval s1 - 48))) by lia.
  replace (10 * (10 * 0 + (bval h1 - 48)) + (bval h2 - 48)) with h by lia. replace (10 * (10 * 0 + (bval m1 - 48)) + (bval m2 - 48)) with m by lia.
  replace (10 * (10 * 0 + (bval s1 - 48)) + (bval s2 - 48)) with s by lia.
  now rewrite (wrap64_small' h), (wrap64_small' m), (wrap64_small' s) by lia.
Qed.

Lemma la_string_of_list l : la (string_of_list_ascii l) = l.
Proof. unfold la. apply list_ascii_of_string_of_list_ascii. Qed.

Theorem parse_gtfs_time_padded ws1 ws2 h m s : spaces ws1 -> spaces ws2 -> 0 <= h < 100 -> 0 <= m < 100 -> 0 <= s < 100 ->
  parse_gtfs_time (string_of_list_ascii ws1 ++ hms h m s ++ string_of_list_ascii ws2) = Some (((h * 60 + m) * 60 + s) * 1000000000).
Proof.
  intros W1 W2 Hh Hm Hs.
  assert (NE : la (string_of_list_ascii ws1 ++ hms h m s ++ string_of_list_ascii ws2) <> []).
  { rewrite !la_app. destruct (two_digit h Hh) as (h1 & h2 & Eh & _). unfold hms. rewrite !la_app, Eh.
    destruct (la (string_of_list_ascii ws1)); discriminate. }
  rewrite parse_gtfs_time_nonempty by exact NE. rewrite !la_app, !la_string_of_list.
  rewrite skip_spaces by exact W1. rewrite time_pieces_hms by assumption.
  rewrite <- (app_nil_r ws2), skip_spaces by exact W2. cbn [time_pieces].
  rewrite (wrap64_small' ((h * 60 + m) * 60 + s)) by lia. rewrite wrap64_small' by lia. reflexivity.
Qed.
