(* Proofs/ZoneProofs.v — C02, "in the configured zone", for EVERY message and every extension configuration: every instant
   of the parsed result - the creation time when the header has a timestamp, the start date of every trip identifier
   (in Trips, in Vehicles' trip references and in alerts' informed entities), every arrival / departure time, every
   vehicle timestamp and every bound of every alert period - carries the configured zone (UTC when none is configured). *)
From Coq Require Import Permutation.
From GV Require Import Base.Prelude Base.Dec Base.Sort Model.RtTypes Model.RtWire Model.Realtime Proofs.RealtimeProofs Proofs.PurityProofs.

Section Zone.
Variable cm : Z -> Z -> Z -> Z.
Variable tz : option string.
Variable cfg : ext_cfg.

Definition inst_ok (i : instant) : Prop := snd i = zone_name tz.
Definition oinst_ok (o : option instant) : Prop := match o with Some i => inst_ok i | None => True end.
Definition event_ok (e : option rt_event) : Prop := match e with Some e => oinst_ok (ev_time e) | None => True end.
Definition stu_ok (u : rt_stu) : Prop := event_ok (su_arr u) /\ event_ok (su_dep u).
Definition okey_ok (o : option trip_key) : Prop := match o with Some k => key_wf tz k | None => True end.
Definition trip_zoned (t : rt_trip) : Prop := key_wf tz (tr_key t) /\ Forall stu_ok (tr_stus t).
Definition vehicle_zoned (v : rt_vehicle) : Prop := okey_ok (ve_trip v) /\ oinst_ok (ve_ts v).
Definition alert_zoned (a : rt_alert) : Prop :=
  Forall (fun p => oinst_ok (fst p) /\ oinst_ok (snd p)) (al_periods a) /\ Forall (fun e => okey_ok (ie_trip e)) (al_informed a).
Definition result_zoned (m : feed_message) (r : realtime) : Prop :=
  (fm_ts m <> None -> inst_ok (rt_created r)) /\ Forall trip_zoned (rt_trips r) /\ Forall vehicle_zoned (rt_vehicles r) /\ Forall alert_zoned (rt_alerts r).

Lemma opt_ts_ok o : oinst_ok (opt_ts tz o).
Proof. destruct o; cbn; reflexivity. Qed.
Lemma convert_event_ok o : event_ok (convert_event tz o).
Proof. destruct o as [e|]; cbn; [|exact I]. destruct (se_time e); cbn; reflexivity. Qed.
Lemma convert_stu_ok c u : stu_ok (convert_stu tz c u).
Proof. split; apply convert_event_ok. Qed.
Lemma bare_trip_zoned k : key_wf tz k -> trip_zoned (bare_trip k).
Proof. intros H. split; [exact H|constructor]. Qed.

Definition zinv (a : acc) : Prop :=
  Forall (fun kt => trip_zoned (snd kt)) (a_trips a) /\ Forall (fun iv => vehicle_zoned (snd iv)) (a_vehicles a) /\
  Forall (fun p => key_wf tz (snd p)) (a_v2t a) /\ Forall vehicle_zoned (a_noid a) /\ Forall alert_zoned (a_alerts a).

Lemma merge_trip_zoned trips new : trip_zoned new -> Forall (fun kt => trip_zoned (snd kt)) trips -> Forall (fun kt => trip_zoned (snd kt)) (merge_trip trips new).
Proof.
  intros Hn H. unfold merge_trip. apply gset_forall; [|exact H]. cbn [snd]. destruct (tr_in_msg new); [exact Hn|].
  destruct (glookup tk_eqb (tr_key new) trips) as [old|] eqn:E.
  - pose proof (glookup_forall tk_eqb tk_eqb_spec _ _ _ _ H E) as Ho. cbn [snd] in Ho. split; [exact (proj1 Hn)|exact (proj2 Ho)].
  - split; [exact (proj1 Hn)|constructor].
Qed.
Lemma fold_merge_trip_zoned ts : forall trips, Forall trip_zoned ts -> Forall (fun kt => trip_zoned (snd kt)) trips ->
  Forall (fun kt => trip_zoned (snd kt)) (fold_left merge_trip ts trips).
Proof. induction ts as [|t r IH]; intros trips Hf H; cbn [fold_left]; [exact H|]. inversion Hf; subst. apply IH; [assumption|]. now apply merge_trip_zoned. Qed.
Lemma merge_vehicle_zoned vs id new : vehicle_zoned new -> Forall (fun iv => vehicle_zoned (snd iv)) vs ->
  Forall (fun iv => vehicle_zoned (snd iv)) (merge_vehicle vs id new).
Proof.
  intros Hn H. unfold merge_vehicle. apply gset_forall; [|exact H]. cbn [snd]. destruct (ve_in_msg new); [exact Hn|].
  destruct (glookup vi_eqb id vs) as [old|] eqn:E.
  - exact (glookup_forall vi_eqb vi_eqb_spec _ _ _ _ H E).
  - split; exact I.
Qed.
Lemma add_trip_vehicle_zoned a t v : match t with Some t => trip_zoned t | None => True end -> match v with Some v => vehicle_zoned v | None => True end ->
  zinv a -> zinv (add_trip_vehicle a t v).
Proof.
  intros Ht Hv (I1 & I2 & I3 & I4 & I5). unfold add_trip_vehicle.
  assert (T : Forall (fun kt => trip_zoned (snd kt)) (match t with Some t0 => merge_trip (a_trips a) t0 | None => a_trips a end))
    by (destruct t; [now apply merge_trip_zoned|exact I1]).
  destruct v as [v|]; [|repeat split; assumption].
  destruct (ve_id v) as [id|]; repeat split; cbn [a_trips a_vehicles a_v2t a_noid a_alerts]; try assumption.
  - now apply merge_vehicle_zoned.
  - destruct t as [t0|]; [|exact I3]. apply gset_forall; [exact (proj1 Ht)|exact I3].
  - apply Forall_app; split; [exact I4|]. constructor; [|constructor]. destruct t as [t0|]; [|exact Hv].
    split; [exact (proj1 Ht)|exact (proj2 Hv)].
Qed.

Lemma alert_step_entities_ok acc s : Forall (fun e => okey_ok (ie_trip e)) (aa_entities acc) ->
  Forall (fun e => okey_ok (ie_trip e)) (aa_entities (alert_step cm tz acc s)).
Proof.
  intros H. unfold alert_step. destruct (negb (informs_something _)); cbn [aa_entities]; [exact H|].
  destruct (omap (parse_trip_descriptor cm tz) (sl_trip s)) as [k|] eqn:E.
  - assert (Wk : key_wf tz k) by (destruct (sl_trip s); inversion E; subst; apply parse_trip_descriptor_wf).
    destruct (identifies k); cbn [aa_entities]; apply Forall_app; (split; [exact H|]); (constructor; [|constructor]); cbn [ie_trip okey_ok]; [exact Wk|exact I].
  - cbn [aa_entities]. apply Forall_app; split; [exact H|]. constructor; [exact I|constructor].
Qed.
Lemma alert_step_trips_ok acc s : Forall trip_zoned (aa_trips acc) -> Forall trip_zoned (aa_trips (alert_step cm tz acc s)).
Proof.
  intros H. unfold alert_step. destruct (negb (informs_something _)); cbn [aa_trips]; [exact H|].
  destruct (omap (parse_trip_descriptor cm tz) (sl_trip s)) as [k|] eqn:E; [|exact H].
  destruct (identifies k); cbn [aa_trips]; [|exact H]. apply Forall_app; split; [exact H|]. constructor; [|constructor].
  apply bare_trip_zoned. destruct (sl_trip s); inversion E; subst. apply parse_trip_descriptor_wf.
Qed.
Lemma parse_alert_zoned id a : alert_zoned (fst (parse_alert cm tz id a)) /\ Forall trip_zoned (snd (parse_alert cm tz id a)).
Proof.
  unfold parse_alert. cbn [fst snd]. split; [split; cbn [al_periods al_informed]|].
  - apply Forall_forall. intros p Hp. apply in_map_iff in Hp as [q [<- _]]. split; apply opt_ts_ok.
  - apply Forall_app. split.
    + assert (G : forall sels acc, Forall (fun e => okey_ok (ie_trip e)) (aa_entities acc) ->
                  Forall (fun e => okey_ok (ie_trip e)) (aa_entities (fold_left (alert_step cm tz) sels acc))).
      { induction sels as [|s r IH]; intros acc H; cbn [fold_left]; [exact H|]. apply IH, alert_step_entities_ok, H. }
      apply G. constructor.
    + unfold fallback_entities. apply Forall_forall. intros e He. apply in_flat_map in He as [r [_ He]].
      destruct (existsb _ _); [destruct He|]. destruct (alookup r _) as [[f t]|]; [|destruct He]. destruct He as [<-|[]]. exact I.
  - assert (G : forall sels acc, Forall trip_zoned (aa_trips acc) -> Forall trip_zoned (aa_trips (fold_left (alert_step cm tz) sels acc))).
    { induction sels as [|s r IH]; intros acc H; cbn [fold_left]; [exact H|]. apply IH, alert_step_trips_ok, H. }
    apply G. constructor.
Qed.

Lemma entity_step_zoned a es : zinv a -> zinv (entity_step cm tz cfg a es).
Proof.
  intros H. destruct es as [e skip]. unfold entity_step. destruct skip; [exact H|].
  destruct (e_tu e) as [tu|].
  - unfold parse_trip_update. apply add_trip_vehicle_zoned; [| |exact H].
    + split; cbn [tr_key tr_stus]; [apply parse_trip_descriptor_wf|]. apply Forall_forall. intros u Hu. apply in_map_iff in Hu as [w [<- _]]. apply convert_stu_ok.
    + destruct (tu_vehicle tu); [split; exact I|exact I].
  - destruct (e_vp e) as [vp|].
    + unfold parse_vehicle. apply add_trip_vehicle_zoned; [| |exact H].
      * destruct (vp_trip vp); cbn [omap]; [apply bare_trip_zoned, parse_trip_descriptor_wf|exact I].
      * split; cbn [ve_trip ve_ts]; [exact I|apply opt_ts_ok].
    + destruct (e_alert e) as [al|]; [|exact H].
      destruct (parse_alert_zoned (e_id e) al) as [Za Zt]. destruct (parse_alert cm tz (e_id e) al) as [ra ts]. cbn [fst snd] in Za, Zt.
      destruct H as (I1 & I2 & I3 & I4 & I5). repeat split; cbn [a_trips a_vehicles a_v2t a_noid a_alerts]; try assumption.
      * now apply fold_merge_trip_zoned.
      * apply Forall_app; split; [exact I5|]. constructor; [exact Za|constructor].
Qed.
Lemma fold_entity_step_zoned l : forall a, zinv a -> zinv (fold_left (entity_step cm tz cfg) l a).
Proof. induction l as [|x r IH]; intros a H; cbn [fold_left]; [exact H|]. apply IH, entity_step_zoned, H. Qed.
Lemma acc0_zoned : zinv acc0.
Proof. repeat split; constructor. Qed.

Theorem parse_message_zoned m : result_zoned m (parse_message cm tz cfg m).
Proof.
  unfold parse_message. set (a := fold_left (entity_step cm tz cfg) _ acc0).
  assert (Ha : zinv a) by (apply fold_entity_step_zoned, acc0_zoned). destruct Ha as (I1 & I2 & I3 & I4 & I5).
  unfold finish. repeat split; cbn [rt_created rt_trips rt_vehicles rt_alerts].
  - intros Hts. destruct (fm_ts m); [reflexivity|now elim Hts].
  - apply Forall_forall. intros t Ht. apply (Permutation_in _ (isort_perm _ _ _)) in Ht. apply in_map_iff in Ht as [[k t0] [<- Hin]].
    rewrite Forall_forall in I1. pose proof (I1 _ Hin) as Z0. cbn [snd] in Z0.
    destruct (glookup tk_eqb k (a_t2v a)); [exact Z0|]. destruct (existsb _ _); exact Z0.
  - apply Forall_app. split; [|exact I4].
    apply Forall_forall. intros v Hv. apply (Permutation_in _ (isort_perm _ _ _)) in Hv. apply in_map_iff in Hv as [[id v0] [<- Hin]].
    rewrite Forall_forall in I2. pose proof (I2 _ Hin) as Z0. cbn [snd] in Z0.
    destruct (glookup vi_eqb id (a_v2t a)) as [k|] eqn:E; [|exact Z0].
    split; cbn [ve_trip ve_ts set_vehicle_trip]; [|exact (proj2 Z0)]. exact (glookup_forall vi_eqb vi_eqb_spec _ _ _ _ I3 E).
  - exact I5.
Qed.
End Zone.
