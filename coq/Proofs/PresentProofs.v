(* Proofs/PresentProofs.v — C01 / C10 at the level of whole files: a file's contribution depends on its bytes only through, row
   by row, the values found under each column NAME, blank and absent being the same (the "squashed view").  Hence column
   order, unknown extra columns, and spelling an optional value as a blank cell or by dropping its column are all invisible
   to every row loop. *)
From Coq Require Import Permutation.
From GV Require Import Base.Prelude Base.Dec Base.Sort Model.Csv Model.Realtime Model.Static Proofs.StaticProofs.

(* two row views that agree under every name once blank cells are read as absent *)
Definition same_view (v v' : rowview) : Prop := forall c, squash v c = squash v' c.
Lemma required_same v v' c : same_view v v' -> required v c = required v' c.
Proof. intros H. rewrite <- (required_squash v), <- (required_squash v'). unfold required. now rewrite H. Qed.
Lemma optional_same v v' c : same_view v v' -> optional v c = optional v' c.
Proof. intros H. rewrite <- (optional_squash v), <- (optional_squash v'). unfold optional. now rewrite H. Qed.
Lemma read_or_same v v' c d : same_view v v' -> read_or v c d = read_or v' c d.
Proof. intros H. rewrite <- (read_or_squash v), <- (read_or_squash v'). unfold read_or. now rewrite H. Qed.
Ltac same H := repeat first [rewrite (required_same _ _ _ H) | rewrite (optional_same _ _ _ H) | rewrite (read_or_same _ _ _ _ H)].

Section WithOracles.
Variable pf : string -> option Z.
Variable di : string -> string -> option Z.

Lemma route_row_same ags v v' : same_view v v' -> route_row ags v = route_row ags v'.
Proof. intros H. unfold route_row. same H. reflexivity. Qed.
Lemma stop_row_same v v' : same_view v v' -> stop_row pf v = stop_row pf v'.
Proof. intros H. unfold stop_row. same H. reflexivity. Qed.
Lemma transfer_row_same stops v v' : same_view v v' -> transfer_row stops v = transfer_row stops v'.
Proof. intros H. unfold transfer_row. same H. reflexivity. Qed.
Lemma trip_row_same routes services shapes v v' : same_view v v' -> trip_row routes services shapes v = trip_row routes services shapes v'.
Proof. intros H. unfold trip_row. same H. reflexivity. Qed.
Lemma stop_time_row_same stops trips v v' : same_view v v' -> stop_time_row pf stops trips v = stop_time_row pf stops trips v'.
Proof. intros H. unfold stop_time_row. same H. reflexivity. Qed.
Lemma frequency_row_same trips v v' : same_view v v' -> frequency_row trips v = frequency_row trips v'.
Proof. intros H. unfold frequency_row. same H. reflexivity. Qed.
Lemma shapes_row_same m v v' : same_view v v' -> shapes_row pf m v = shapes_row pf m v'.
Proof. intros H. unfold shapes_row. same H. reflexivity. Qed.
Lemma calendar_row_same zone m v v' : same_view v v' -> calendar_row di zone m v = calendar_row di zone m v'.
Proof. intros H. unfold calendar_row. same H. rewrite (map_ext _ (fun c => required v' c)) by (intros c; apply required_same, H). reflexivity. Qed.
Lemma calendar_date_row_same zone m v v' : same_view v v' -> calendar_date_row di zone m v = calendar_date_row di zone m v'.
Proof. intros H. unfold calendar_date_row. same H. reflexivity. Qed.

(* two presentations of one table: same number of rows, row by row the same squashed view *)
Definition same_table (h : list string) (rows : list (list string)) (h' : list string) (rows' : list (list string)) : Prop :=
  Forall2 (fun r r' => same_view (view h r) (view h' r')) rows rows'.
Lemma filter_map_same {B} (f f' : list string -> option B) rows rows' (R : list string -> list string -> Prop) :
  (forall r r', R r r' -> f r = f' r') -> Forall2 R rows rows' -> filter_map f rows = filter_map f' rows'.
Proof. intros Hf H. unfold filter_map. induction H as [|r r' rows rows' Hr H IH]; cbn; [reflexivity|]. rewrite (Hf r r' Hr), IH. reflexivity. Qed.
Lemma fold_same {S} (f f' : S -> list string -> S) rows rows' (R : list string -> list string -> Prop) :
  (forall s r r', R r r' -> f s r = f' s r') -> Forall2 R rows rows' -> forall s, fold_left f rows s = fold_left f' rows' s.
Proof. intros Hf H. induction H as [|r r' rows rows' Hr H IH]; intros s; cbn; [reflexivity|]. rewrite (Hf s r r' Hr). apply IH. Qed.

Variables (h h' : list string) (rows rows' : list (list string)).
Hypothesis T : same_table h rows h' rows'.

Theorem routes_presentation ags : has_columns h ["route_id"; "route_type"] = has_columns h' ["route_id"; "route_type"] ->
  parse_routes ags h rows = parse_routes ags h' rows'.
Proof. intros E. unfold parse_routes. rewrite E. destruct (has_columns h' _); [|reflexivity].
  eapply filter_map_same; [|exact T]. intros r r' Hr. now apply route_row_same. Qed.
Theorem stops_presentation inherit : has_columns h ["stop_id"] = has_columns h' ["stop_id"] ->
  parse_stops pf inherit h rows = parse_stops pf inherit h' rows'.
Proof. intros E. unfold parse_stops. rewrite E. destruct (has_columns h' _); [|reflexivity].
  rewrite (filter_map_same (fun cells => stop_row pf (view h cells)) (fun cells => stop_row pf (view h' cells)) rows rows' _ (fun r r' Hr => stop_row_same _ _ Hr) T). reflexivity. Qed.
Theorem transfers_presentation stops : has_columns h ["from_stop_id"; "to_stop_id"] = has_columns h' ["from_stop_id"; "to_stop_id"] ->
  parse_transfers stops h rows = parse_transfers stops h' rows'.
Proof. intros E. unfold parse_transfers. rewrite E. destruct (has_columns h' _); [|reflexivity].
  eapply filter_map_same; [|exact T]. intros r r' Hr. now apply transfer_row_same. Qed.
Theorem trips_presentation routes services shapes : has_columns h ["route_id"; "service_id"; "trip_id"] = has_columns h' ["route_id"; "service_id"; "trip_id"] ->
  parse_trips routes services shapes h rows = parse_trips routes services shapes h' rows'.
Proof. intros E. unfold parse_trips. rewrite E. destruct (has_columns h' _); [|reflexivity].
  eapply filter_map_same; [|exact T]. intros r r' Hr. now apply trip_row_same. Qed.
Theorem stop_times_presentation stops trips : has_columns h ["stop_id"; "stop_sequence"; "trip_id"] = has_columns h' ["stop_id"; "stop_sequence"; "trip_id"] ->
  parse_stop_times pf stops trips h rows = parse_stop_times pf stops trips h' rows'.
Proof. intros E. unfold parse_stop_times. rewrite E. destruct (has_columns h' _); [|reflexivity].
  rewrite (fold_same (fun ts cells => stop_time_row pf stops ts (view h cells)) (fun ts cells => stop_time_row pf stops ts (view h' cells)) rows rows' _
             (fun s r r' Hr => stop_time_row_same stops s _ _ Hr) T). reflexivity. Qed.
Theorem frequencies_presentation trips : has_columns h ["trip_id"; "start_time"; "end_time"; "headway_secs"] = has_columns h' ["trip_id"; "start_time"; "end_time"; "headway_secs"] ->
  parse_frequencies trips h rows = parse_frequencies trips h' rows'.
Proof. intros E. unfold parse_frequencies. rewrite E. destruct (has_columns h' _); [|reflexivity].
  eapply fold_same; [|exact T]. intros s r r' Hr. now apply frequency_row_same. Qed.
Theorem shapes_presentation : has_columns h ["shape_id"; "shape_pt_lat"; "shape_pt_lon"; "shape_pt_sequence"] = has_columns h' ["shape_id"; "shape_pt_lat"; "shape_pt_lon"; "shape_pt_sequence"] ->
  parse_shapes pf h rows = parse_shapes pf h' rows'.
Proof. intros E. unfold parse_shapes. rewrite E. destruct (has_columns h' _); [|reflexivity].
  rewrite (fold_same (fun m cells => shapes_row pf m (view h cells)) (fun m cells => shapes_row pf m (view h' cells)) rows rows' _
             (fun s r r' Hr => shapes_row_same s _ _ Hr) T). reflexivity. Qed.
Theorem calendar_presentation zone m : has_columns h (["start_date"; "end_date"; "service_id"] ++ day_cols) = has_columns h' (["start_date"; "end_date"; "service_id"] ++ day_cols) ->
  parse_calendar di zone m h rows = parse_calendar di zone m h' rows'.
Proof. intros E. unfold parse_calendar. rewrite E. destruct (has_columns h' _); [|reflexivity].
  eapply fold_same; [|exact T]. intros s r r' Hr. now apply calendar_row_same. Qed.
Theorem calendar_dates_presentation zone m : has_columns h ["service_id"; "date"; "exception_type"] = has_columns h' ["service_id"; "date"; "exception_type"] ->
  parse_calendar_dates di zone m h rows = parse_calendar_dates di zone m h' rows'.
Proof. intros E. unfold parse_calendar_dates. rewrite E. destruct (has_columns h' _); [|reflexivity].
  eapply fold_same; [|exact T]. intros s r r' Hr. now apply calendar_date_row_same. Qed.
End WithOracles.

(* ---- instances of [same_view]: what a presentation may change ---- *)
(* column order *)
Theorem same_view_column_order cols cols' : Permutation cols cols' -> NoDup (map fst cols) ->
  same_view (view (map fst cols') (map snd cols')) (view (map fst cols) (map snd cols)).
Proof. intros P H c. unfold squash. now rewrite (view_column_order cols cols' c P H). Qed.
(* a blank cell and a dropped column *)
Theorem same_view_blank_dropped c0 v : same_view (blank_col c0 v) (drop_col c0 v).
Proof. intros c. apply squash_blank_drop. Qed.
