(* Proofs/RealtimeProofs.v — lemmas about Model/Realtime.v for C02, C04, C07, C12, C16, C17. *)
From GV Require Import Base.Prelude Base.Dec Base.Sort Model.RtTypes Model.RtWire Model.Realtime Gen.Enums Gen.NyctTables.
From Coq Require Import Permutation.

(* ---------- strings <-> byte lists ---------- *)
Lemma la_app a b : la (a ++ b)%string = la a ++ la b.
Proof. unfold la. induction a as [|c a IH]; cbn; [reflexivity|]. now rewrite IH. Qed.
Lemma la_of_list l : la (string_of_list_ascii l) = l.
Proof. apply list_ascii_of_string_of_list_ascii. Qed.

(* ---------- two-digit fields: "%02d" then the digit reader (C02 start time, C16) ---------- *)
Definition two_digit_ok (v : Z) : bool :=
  match la (pad2s v) with
  | [a; b] => a_digit a && a_digit b && (digits_val [a; b] =? v)
  | _ => false
  end.
Lemma two_digit_all : forallb (fun n => two_digit_ok (Z.of_nat n)) (seq 0 100) = true.
Proof. vm_compute. reflexivity. Qed.
Lemma two_digit v : 0 <= v < 100 -> exists a b, la (pad2s v) = [a; b] /\ a_digit a = true /\ a_digit b = true /\ digits_val [a; b] = v.
Proof.
  intros H. pose proof two_digit_all as A. rewrite forallb_forall in A.
  specialize (A (Z.to_nat v)). rewrite Z2Nat.id in A by lia. assert (I : In (Z.to_nat v) (seq 0 100)) by (apply in_seq; lia).
  specialize (A I). unfold two_digit_ok in A. destruct (la (pad2s v)) as [|a [|b [|c r]]]; try discriminate.
  apply andb_true_iff in A as [A C]. apply andb_true_iff in A as [A B]. apply Z.eqb_eq in C. eauto 10.
Qed.

(* HH:MM:SS with HH < 100, MM, SS < 100 reads back as that many seconds, as a duration in nanoseconds *)
Definition hms (h m s : Z) : string := (pad2s h ++ ":" ++ pad2s m ++ ":" ++ pad2s s)%string.
Theorem parse_start_time_hms h m s : 0 <= h < 100 -> 0 <= m < 100 -> 0 <= s < 100 ->
  parse_start_time (Some (hms h m s)) = (true, ((h * 60 + m) * 60 + s) * 1000000000).
Proof.
  intros Hh Hm Hs. destruct (two_digit h Hh) as (h1 & h2 & Eh & Dh1 & Dh2 & Vh).
  destruct (two_digit m Hm) as (m1 & m2 & Em & Dm1 & Dm2 & Vm). destruct (two_digit s Hs) as (s1 & s2 & Es & Ds1 & Ds2 & Vs).
  unfold parse_start_time, hms. rewrite !la_app, Eh, Em, Es. cbn [la list_ascii_of_string app].
  rewrite Dh1, Dh2, Dm1, Dm2, Ds1, Ds2. cbn [andb Ascii.eqb Bool.eqb]. rewrite Vh, Vm, Vs. reflexivity.
Qed.

(* C16: the start time derived from an NYCT origin time n (hundredths of a minute) is n*6/10 seconds, for every n < 600000 *)
Theorem origin_start_time_parses n : 0 <= n < 600000 ->
  parse_start_time (Some (origin_start_time n)) = (true, (n * 6 / 10) * 1000000000).
Proof.
  intros H. unfold origin_start_time. set (s := n * 6 / 10). set (m := s / 60).
  assert (Hs : 0 <= s < 360000) by (unfold s; split; [apply Z.div_pos; lia|apply Z.div_lt_upper_bound; lia]).
  assert (Hm : 0 <= m < 6000) by (unfold m; split; [apply Z.div_pos; lia|apply Z.div_lt_upper_bound; lia]).
  change (pad2s (m / 60) ++ ":" ++ pad2s (m mod 60) ++ ":" ++ pad2s (s mod 60))%string with (hms (m / 60) (m mod 60) (s mod 60)).
  rewrite parse_start_time_hms.
  - f_equal. f_equal. pose proof (Z.div_mod m 60). pose proof (Z.div_mod s 60). fold m in H1. lia.
  - split; [apply Z.div_pos; lia|apply Z.div_lt_upper_bound; lia].
  - pose proof (Z.mod_pos_bound m 60). lia.
  - pose proof (Z.mod_pos_bound s 60). lia.
Qed.

(* ---------- C16: the M-train platform swap ---------- *)
Definition in_buggy (a b c : ascii) : bool := existsb (String.eqb (string_of_list_ascii [a; b; c])) buggy_station_ids.
Lemma mswap_stop_cases s :
  (exists a b c, la s = [a; b; c; "N"%char] /\ in_buggy a b c = true /\ mswap_stop s = string_of_list_ascii [a; b; c; "S"%char]) \/
  (exists a b c, la s = [a; b; c; "S"%char] /\ in_buggy a b c = true /\ mswap_stop s = string_of_list_ascii [a; b; c; "N"%char]) \/
  mswap_stop s = s.
Proof.
  unfold mswap_stop. destruct (la s) as [|a [|b [|c [|d [|e r]]]]] eqn:L; auto.
  fold (in_buggy a b c). destruct (in_buggy a b c) eqn:B; auto.
  destruct (Ascii.eqb_spec d "N"%char) as [->|N]; [left; eauto 10|].
  destruct (Ascii.eqb_spec d "S"%char) as [->|S]; [right; left; eauto 10|auto].
Qed.
Lemma mswap_stop_of4 a b c d : in_buggy a b c = true ->
  mswap_stop (string_of_list_ascii [a; b; c; d]) =
  if Ascii.eqb d "N" then string_of_list_ascii [a; b; c; "S"%char] else if Ascii.eqb d "S" then string_of_list_ascii [a; b; c; "N"%char] else string_of_list_ascii [a; b; c; d].
Proof. intros B. unfold mswap_stop. rewrite la_of_list. fold (in_buggy a b c). now rewrite B. Qed.
Lemma string_of_la s : string_of_list_ascii (la s) = s. Proof. apply string_of_list_ascii_of_string. Qed.
(* its own inverse *)
Theorem mswap_involutive s : mswap_stop (mswap_stop s) = s.
Proof.
  destruct (mswap_stop_cases s) as [(a & b & c & L & B & E)|[(a & b & c & L & B & E)|E]].
  - rewrite E, mswap_stop_of4 by exact B. change (Ascii.eqb "S"%char "N"%char) with false. change (Ascii.eqb "S"%char "S"%char) with true.
    cbv iota. rewrite <- L. apply string_of_la.
  - rewrite E, mswap_stop_of4 by exact B. change (Ascii.eqb "N"%char "N"%char) with true. cbv iota. rewrite <- L. apply string_of_la.
  - now rewrite E, E.
Qed.
(* touches nothing else: a changed stop is a four-byte N/S platform of a listed station, and only its last byte changes *)
Theorem mswap_scope s : mswap_stop s <> s ->
  exists a b c d d', la s = [a; b; c; d] /\ in_buggy a b c = true /\ la (mswap_stop s) = [a; b; c; d'] /\
    ((d = "N"%char /\ d' = "S"%char) \/ (d = "S"%char /\ d' = "N"%char)).
Proof.
  intros H. destruct (mswap_stop_cases s) as [(a & b & c & L & B & E)|[(a & b & c & L & B & E)|E]]; [| |congruence].
  - exists a, b, c, "N"%char, "S"%char. rewrite E, la_of_list. repeat split; auto.
  - exists a, b, c, "S"%char, "N"%char. rewrite E, la_of_list. repeat split; auto.
Qed.
Theorem mswap_tu_route tu : String.eqb (odflt "" (td_route_id (tu_trip tu))) "M" = false -> mswap_tu tu = tu.
Proof. intros H. unfold mswap_tu. now rewrite H. Qed.

(* ---------- C16: direction, vehicle, track, stale filter, transparency ---------- *)
Theorem nyct_direction td n : td_nyct td = Some n ->
  let '(td', _, _) := nyct_update_desc td in
  td_direction_id td' = Some (if odflt NyctTripDescriptor_NORTH (nt_direction n) =? NyctTripDescriptor_NORTH then 0 else 1).
Proof. intros H. unfold nyct_update_desc. rewrite H. reflexivity. Qed.
Theorem nyct_direction_key cm tz td n : td_nyct td = Some n ->
  let '(td', _, _) := nyct_update_desc td in
  k_dir (parse_trip_descriptor cm tz td') =
    if odflt NyctTripDescriptor_NORTH (nt_direction n) =? NyctTripDescriptor_NORTH then DirectionID_False else DirectionID_True.
Proof. intros H. unfold nyct_update_desc. rewrite H. unfold parse_trip_descriptor. cbn [td_start_time td_start_date td_direction_id].
  destruct (parse_start_time _), (parse_start_date _ _ _). cbn [k_dir]. destruct (_ =? NyctTripDescriptor_NORTH); reflexivity. Qed.
Theorem nyct_vehicle td n : td_nyct td = Some n ->
  let '(_, vd, assigned) := nyct_update_desc td in
  assigned = odflt false (nt_is_assigned n) /\
  vd = if assigned then Some {| vd_id := Some (odflt "" (nt_train_id n)); vd_label := None; vd_plate := None |} else None.
Proof. intros H. unfold nyct_update_desc. rewrite H. split; reflexivity. Qed.
Theorem nyct_start_time td n o : td_nyct td = Some n -> trip_id_origin (odflt "" (td_trip_id td)) = Some o ->
  let '(td', _, _) := nyct_update_desc td in td_start_time td' = Some (origin_start_time o).
Proof. intros H O. unfold nyct_update_desc. rewrite H, O. reflexivity. Qed.
Theorem nyct_transparent_desc td : td_nyct td = None -> nyct_update_desc td = (td, None, false).
Proof. intros H. unfold nyct_update_desc. now rewrite H. Qed.
Theorem track_rule f p u : get_track (NyctTrips f p) u =
  match stu_nyct u with Some n => match ns_actual n with Some a => Some a | None => ns_sched n end | None => None end.
Proof. reflexivity. Qed.
Theorem track_other cfg u : (forall f p, cfg <> NyctTrips f p) -> get_track cfg u = None.
Proof. intros H. destruct cfg; try reflexivity. exfalso. eapply H; reflexivity. Qed.
(* the stale rule, with the boundary explicit: equal to the feed timestamp is NOT stale *)
Definition first_time (u : st_update) : Z := if ev_time0 (stu_dep u) =? 0 then ev_time0 (stu_arr u) else ev_time0 (stu_dep u).
Theorem stale_iff assigned stus ts : is_stale assigned stus ts = true <->
  assigned = false /\ match stus with [] => True | u :: _ => first_time u = 0 \/ first_time u < wrap64 ts end.
Proof.
  unfold is_stale. destruct assigned; [split; [discriminate|intros [? _]; discriminate]|].
  destruct stus as [|u r]; [tauto|]. fold (first_time u). destruct (first_time u =? 0) eqn:E.
  - apply Z.eqb_eq in E. tauto.
  - apply Z.eqb_neq in E. rewrite Z.ltb_lt. tauto.
Qed.
Theorem skip_iff filter preserve ts tu :
  snd (nyct_update_trip filter preserve ts tu) = true <->
  (exists n, td_nyct (tu_trip tu) = Some n /\ filter = true /\ is_stale (odflt false (nt_is_assigned n)) (tu_stus (if preserve then tu else mswap_tu tu)) ts = true).
Proof.
  unfold nyct_update_trip. set (tu' := if preserve then tu else mswap_tu tu).
  assert (T : td_nyct (tu_trip tu') = td_nyct (tu_trip tu)) by (unfold tu', mswap_tu; destruct preserve; [reflexivity|destruct (String.eqb _ _); reflexivity]).
  unfold nyct_update_desc. destruct (td_nyct (tu_trip tu')) as [n|] eqn:N; cbn [snd fst is_some andb].
  - rewrite <- T. split; [intros H; apply andb_true_iff in H as [H1 H2]; exists n; auto|intros (n' & E & -> & S); injection E as <-; now rewrite S].
  - rewrite <- T. split; [discriminate|intros (n' & E & _); discriminate].
Qed.

(* ---------- C02: conversions, written once ---------- *)
Theorem direction_rule o : direction_rt o = match o with None => DirectionID_Unspecified | Some d => if d =? 0 then DirectionID_False else DirectionID_True end.
Proof. reflexivity. Qed.
Theorem event_conversion tz e : convert_event tz (Some e) =
  Some {| ev_time := omap (fun t => (t, zone_name tz)) (se_time e); ev_delay := omap (fun d => d * 1000000000) (se_delay e); ev_unc := se_unc e |}.
Proof. reflexivity. Qed.
Theorem absent_event tz : convert_event tz None = None. Proof. reflexivity. Qed.
Theorem zone_default : zone_name None = "UTC" /\ forall z, zone_name (Some z) = z. Proof. split; reflexivity. Qed.
Theorem timestamps_in_zone tz o : opt_ts tz o = omap (fun t => (wrap64 t, zone_name tz)) o. Proof. reflexivity. Qed.
Lemma wrap64_small t : 0 <= t < 2 ^ 63 -> wrap64 t = t.
Proof. intros H. unfold wrap64. rewrite Z.mod_small by lia. destruct (t <? 2 ^ 63) eqn:E; [reflexivity|apply Z.ltb_ge in E; lia]. Qed.
Theorem start_date_rule cm tz y1 y2 y3 y4 m1 m2 d1 d2 : forallb a_digit [y1; y2; y3; y4; m1; m2; d1; d2] = true ->
  parse_start_date cm tz (Some (string_of_list_ascii [y1; y2; y3; y4; m1; m2; d1; d2])) =
  (true, (cm (digits_val [y1; y2; y3; y4]) (digits_val [m1; m2]) (digits_val [d1; d2]), zone_name tz)).
Proof. intros H. unfold parse_start_date. rewrite la_of_list, H. reflexivity. Qed.
Theorem absent_descriptor_fields cm tz td : td_start_time td = None -> td_start_date td = None -> td_direction_id td = None ->
  let k := parse_trip_descriptor cm tz td in
  k_has_time k = false /\ k_time k = 0 /\ k_has_date k = false /\ k_date k = zero_instant /\ k_dir k = DirectionID_Unspecified.
Proof. intros A B C. unfold parse_trip_descriptor. rewrite A, B, C. cbn. repeat split. Qed.
Theorem stu_conversion tz u : convert_stu tz NoExt u =
  {| su_seq := stu_seq u; su_stop := stu_stop u; su_arr := convert_event tz (stu_arr u); su_dep := convert_event tz (stu_dep u);
     su_track := None; su_rel := odflt TripUpdate_StopTimeUpdate_SCHEDULED (stu_rel u) |}.
Proof. reflexivity. Qed.

(* ---------- C07 / C04: the merge discipline ---------- *)
Lemma tk_eqb_spec a b : reflect (a = b) (tk_eqb a b).
Proof. unfold tk_eqb. destruct (trip_key_eq_dec a b); constructor; assumption. Qed.
Lemma vi_eqb_spec a b : reflect (a = b) (vi_eqb a b).
Proof. unfold vi_eqb. destruct (vehicle_id_eq_dec a b); constructor; assumption. Qed.
Section G.
Context {K V : Type} (eqb : K -> K -> bool) (eqb_spec : forall a b, reflect (a = b) (eqb a b)).
Lemma glookup_gset_same k (v : V) l : glookup eqb k (gset eqb k v l) = Some v.
Proof. induction l as [|[k' v'] l IH]; cbn; [destruct (eqb_spec k k); congruence|].
  destruct (eqb_spec k k') as [->|N]; cbn; [destruct (eqb_spec k' k'); congruence|]. destruct (eqb_spec k k'); [congruence|exact IH]. Qed.
Lemma glookup_gset_other k k' (v : V) l : k <> k' -> glookup eqb k (gset eqb k' v l) = glookup eqb k l.
Proof. intros N. induction l as [|[k2 v2] l IH]; cbn; [destruct (eqb_spec k k'); congruence|].
  destruct (eqb_spec k' k2) as [->|N2]; cbn; [destruct (eqb_spec k k2); congruence|]. destruct (eqb_spec k k2); [reflexivity|exact IH]. Qed.
Lemma gset_keys k (v : V) l : map fst (gset eqb k v l) = if existsb (eqb k) (map fst l) then map fst l else map fst l ++ [k].
Proof. induction l as [|[k2 v2] l IH]; cbn; [reflexivity|]. destruct (eqb_spec k k2) as [->|N]; cbn; [reflexivity|]. rewrite IH. destruct (existsb _ _); reflexivity. Qed.
End G.

(* one merge: an in-message mention replaces, a bare one only creates / keeps *)
Lemma lookup_merge_trip k trips new :
  glookup tk_eqb k (merge_trip trips new) =
  if tk_eqb k (tr_key new)
  then Some (if tr_in_msg new then new else set_trip_key (match glookup tk_eqb k trips with Some t => t | None => bare_trip k end) k)
  else glookup tk_eqb k trips.
Proof.
  unfold merge_trip. destruct (tk_eqb_spec k (tr_key new)) as [->|N].
  - now rewrite (glookup_gset_same tk_eqb tk_eqb_spec).
  - now rewrite (glookup_gset_other tk_eqb tk_eqb_spec) by exact N.
Qed.
(* the entry of a key after a sequence of mentions: its own entity's data if it has one (the last one), else a bare entry *)
Fixpoint final_trip (k : trip_key) (ms : list rt_trip) (cur : option rt_trip) : option rt_trip :=
  match ms with
  | [] => cur
  | m :: r => final_trip k r (if tk_eqb k (tr_key m)
                              then Some (if tr_in_msg m then m else set_trip_key (match cur with Some t => t | None => bare_trip k end) k)
                              else cur)
  end.
Theorem fold_merge_trip k : forall ms trips, glookup tk_eqb k (fold_left merge_trip ms trips) = final_trip k ms (glookup tk_eqb k trips).
Proof. induction ms as [|m r IH]; intros trips; cbn [fold_left final_trip]; [reflexivity|]. now rewrite IH, lookup_merge_trip. Qed.

Definition well_keyed (cur : option rt_trip) (k : trip_key) : Prop := match cur with Some t => tr_key t = k | None => True end.
Lemma set_key_same t : set_trip_key t (tr_key t) = t. Proof. destruct t; reflexivity. Qed.
(* own entity wins, wherever it sits: if every in-message mention of k equals t (conflict-freeness) and t occurs, the entry is t *)
Theorem own_entity_wins k t : tr_key t = k -> tr_in_msg t = true -> forall ms cur,
  (forall m, In m ms -> tr_key m = k -> tr_in_msg m = true -> m = t) -> well_keyed cur k ->
  (In t ms \/ cur = Some t) -> final_trip k ms cur = Some t.
Proof.
  intros Hk Hin. induction ms as [|m r IH]; intros cur Hcf Hwk H; cbn [final_trip].
  - destruct H as [[]|H]; exact H.
  - apply IH.
    + intros m' Hm'. apply Hcf. now right.
    + destruct (tk_eqb_spec k (tr_key m)) as [E|N]; [|exact Hwk]. cbn. destruct (tr_in_msg m); [now symmetry|reflexivity].
    + destruct (tk_eqb_spec k (tr_key m)) as [E|N].
      * destruct (tr_in_msg m) eqn:I.
        -- right. f_equal. apply Hcf; [now left|now symmetry|exact I].
        -- destruct H as [[->|H]|H]; [congruence|now left|]. right. subst cur. rewrite <- Hk. now rewrite set_key_same.
      * destruct H as [[->|H]|H]; [congruence|now left|now right].
Qed.
(* a key that is only referenced gets a bare entry: not in message, no stop time updates *)
Theorem bare_only k : forall ms cur, (forall m, In m ms -> tr_key m = k -> tr_in_msg m = false) ->
  (match cur with Some t => tr_in_msg t = false /\ tr_stus t = [] | None => True end) ->
  match final_trip k ms cur with Some t => tr_in_msg t = false /\ tr_stus t = [] | None => True end.
Proof.
  induction ms as [|m r IH]; intros cur H Hc; cbn [final_trip]; [exact Hc|]. apply IH; [intros; apply H; auto; now right|].
  destruct (tk_eqb_spec k (tr_key m)) as [E|N]; [|exact Hc]. rewrite (H m (or_introl eq_refl) (eq_sym E)).
  destruct cur as [t|]; cbn; [exact Hc|auto].
Qed.

(* C04: an association installs both directions at once, and finish resolves them *)
Theorem association_recorded a t v id : ve_id v = Some id ->
  let a' := add_trip_vehicle a (Some t) (Some v) in
  glookup tk_eqb (tr_key t) (a_t2v a') = Some id /\ glookup vi_eqb id (a_v2t a') = Some (tr_key t).
Proof. intros H. unfold add_trip_vehicle. rewrite H. cbn [a_t2v a_v2t]. split;
  [apply (glookup_gset_same tk_eqb tk_eqb_spec)|apply (glookup_gset_same vi_eqb vi_eqb_spec)]. Qed.
Theorem association_idless a t v : ve_id v = None ->
  let a' := add_trip_vehicle a (Some t) (Some v) in
  In (tr_key t) (a_t2noid a') /\ exists v', In v' (a_noid a') /\ ve_trip v' = Some (tr_key t).
Proof. intros H. unfold add_trip_vehicle. rewrite H. cbn [a_t2noid a_noid]. split; [now left|].
  eexists. split; [apply in_or_app; right; left; reflexivity|]. reflexivity. Qed.

(* ---------- C12: alert normalisation ---------- *)
Definition ent_ok (e : informed_entity) : Prop :=
  informs_something e = true /\ match ie_trip e with Some k => identifies k = true | None => True end.
Definition acc_ok (acc : alert_acc) : Prop :=
  Forall ent_ok (aa_entities acc) /\
  forall e k, In e (aa_entities acc) -> ie_trip e = Some k -> In (bare_trip k) (aa_trips acc).
Lemma alert_step_ok cm tz acc s : acc_ok acc -> acc_ok (alert_step cm tz acc s).
Proof.
  intros [H1 H2]. unfold alert_step.
  set (ko := omap (parse_trip_descriptor cm tz) (sl_trip s)).
  set (e := {| ie_agency := sl_agency s; ie_route := sl_route s; ie_route_type := route_type_rt (sl_route_type s);
               ie_dir := direction_rt (sl_direction s); ie_trip := ko; ie_stop := sl_stop s |}).
  destruct (informs_something e) eqn:Hinf; cbn [negb]; [|split; [exact H1|exact H2]].
  destruct ko as [k|] eqn:KO.
  - destruct (identifies k) eqn:Id.
    + split; cbn [aa_entities aa_trips].
      * apply Forall_app; split; [exact H1|]. constructor; [|constructor]. split; [exact Hinf|]. cbn. exact Id.
      * intros e' k' He' Hk'. apply in_app_or in He' as [He'|[<-|[]]]; apply in_or_app; [left; eauto|right; left]. cbn in Hk'. now injection Hk' as <-.
    + split; cbn [aa_entities aa_trips].
      * apply Forall_app; split; [exact H1|]. constructor; [|constructor]. split; [|exact I].
        unfold informs_something in *. subst e. cbn [ie_agency ie_route ie_route_type ie_trip ie_stop] in *. rewrite Id in Hinf. exact Hinf.
      * intros e' k' He' Hk'. apply in_app_or in He' as [He'|[<-|[]]]; [eauto|discriminate].
  - split; cbn [aa_entities aa_trips].
    + apply Forall_app; split; [exact H1|]. constructor; [|constructor]. split; [exact Hinf|exact I].
    + intros e' k' He' Hk'. apply in_app_or in He' as [He'|[<-|[]]]; [eauto|discriminate].
Qed.
Lemma route_entity_ok r d : ent_ok (route_entity r d).
Proof. split; [reflexivity|exact I]. Qed.
Theorem parse_alert_ok cm tz id a :
  Forall ent_ok (al_informed (fst (parse_alert cm tz id a))) /\
  forall e k, In e (al_informed (fst (parse_alert cm tz id a))) -> ie_trip e = Some k -> In (bare_trip k) (snd (parse_alert cm tz id a)).
Proof.
  unfold parse_alert. cbn [fst snd al_informed].
  set (acc := fold_left (alert_step cm tz) (wa_informed a) _).
  assert (A : acc_ok acc).
  { unfold acc. generalize (wa_informed a). intros l.
    assert (G : forall l acc0, acc_ok acc0 -> acc_ok (fold_left (alert_step cm tz) l acc0)).
    { induction l0 as [|s l0 IH]; intros acc0 H0; cbn [fold_left]; [exact H0|]. apply IH. now apply alert_step_ok. }
    apply G. split; [constructor|intros ? ? []]. }
  destruct A as [A1 A2]. split.
  - apply Forall_app; split; [exact A1|]. apply Forall_forall. intros e He. unfold fallback_entities in He.
    apply in_flat_map in He as [r [_ He]]. destruct (existsb _ _); [destruct He|]. destruct (alookup r _) as [[f t]|]; [|destruct He].
    destruct He as [<-|[]]. apply route_entity_ok.
  - intros e k He Hk. apply in_app_or in He as [He|He]; [eauto|].
    exfalso. unfold fallback_entities in He. apply in_flat_map in He as [r [_ He]]. destruct (existsb _ _); [destruct He|].
    destruct (alookup r _) as [[f t]|]; [|destruct He]. destruct He as [<-|[]]. discriminate.
Qed.

(* ---------- C17: the Mercury loop and the elevator id ---------- *)
Theorem mercury_skip_iff skip_opt : forall sels eff,
  snd (mercury_loop skip_opt sels eff) = true <->
  skip_opt = true /\ exists s p, In s sels /\ priority_of s = Some p /\ existsb (Z.eqb p) timetabled_no_service = true.
Proof.
  induction sels as [|s r IH]; intros eff; cbn [mercury_loop].
  - cbn. split; [discriminate|intros [_ (s & p & [] & _)]].
  - destruct (priority_of s) as [p|] eqn:P.
    + destruct skip_opt; cbn [andb].
      * destruct (existsb (Z.eqb p) timetabled_no_service) eqn:T; cbn [snd].
        -- split; [intros _; split; [reflexivity|exists s, p; auto with datatypes]|reflexivity].
        -- rewrite IH. split; intros [_ (s' & p' & I & Pp & Tt)]; (split; [reflexivity|]).
           ++ exists s', p'. auto with datatypes.
           ++ destruct I as [<-|I]; [rewrite P in Pp; injection Pp as <-; congruence|exists s', p'; auto].
      * rewrite IH. split; intros [H _]; discriminate.
    + rewrite IH. split; intros [H (s' & p' & I & Pp & Tt)]; (split; [exact H|]).
      * exists s', p'. auto with datatypes.
      * destruct I as [<-|I]; [congruence|exists s', p'; auto].
Qed.
(* the effect is the table's value for the last selector whose priority is in the table (when the alert is not skipped) *)
Fixpoint last_effect (sels : list selector) (eff : option Z) : option Z :=
  match sels with
  | [] => eff
  | s :: r => last_effect r (match priority_of s with
                             | Some p => match zlookup p priority_to_effect with Some e => Some e | None => eff end
                             | None => eff end)
  end.
Theorem mercury_effect : forall sels eff, snd (mercury_loop false sels eff) = false /\ fst (mercury_loop false sels eff) = last_effect sels eff.
Proof. induction sels as [|s r IH]; intros eff; cbn [mercury_loop last_effect]; [split; reflexivity|].
  destruct (priority_of s) as [p|]; cbn [andb]; apply IH. Qed.
Theorem elevator_ids : elev_match (la "A27N#EL123") = Some ("A27", "N", "123") /\ elev_match (la "A27#EL123") = Some ("A27", "", "123") /\
  elev_match (la "lmm:alert:77") = None /\ elev_match (la "XA27S#EL9") = Some ("A27", "S", "9").
Proof. repeat split; vm_compute; reflexivity. Qed.
(* adding a stop through the duplicate check keeps the informed stops duplicate-free *)
Definition stops_of (l : list selector) : list string := flat_map (fun e => match sl_stop e with Some x => [x] | None => [] end) l.
Lemma has_stop_in s l : has_stop s l = true <-> In s (stops_of l).
Proof. unfold has_stop, stops_of. rewrite existsb_exists, in_flat_map. split.
  - intros [e [He H]]. exists e. split; [exact He|]. destruct (sl_stop e); [apply String.eqb_eq in H; subst; now left|discriminate].
  - intros [e [He H]]. exists e. split; [exact He|]. destruct (sl_stop e); [destruct H as [->|[]]; apply String.eqb_refl|destruct H]. Qed.
Theorem add_stop_nodup s l : NoDup (stops_of l) ->
  NoDup (stops_of (if has_stop s l then l else l ++ [stop_selector s])) /\
  (forall x, In x (stops_of (if has_stop s l then l else l ++ [stop_selector s])) <-> x = s \/ In x (stops_of l)).
Proof.
  intros H. destruct (has_stop s l) eqn:E.
  - split; [exact H|]. intros x. apply has_stop_in in E. split; [auto|intros [->|?]; auto].
  - assert (N : ~ In s (stops_of l)) by (intros I; apply has_stop_in in I; congruence).
    unfold stops_of. rewrite flat_map_app. cbn [flat_map stop_selector sl_stop app]. split.
    + fold (stops_of l). clear E. induction (stops_of l) as [|y r IH]; cbn; [constructor; [tauto|constructor]|].
      inversion H; subst. constructor; [rewrite in_app_iff; cbn; intros [?|[?|[]]]; [tauto|subst; apply N; now left]|apply IH; auto]. intros I; apply N; now right.
    + intros x. rewrite in_app_iff. cbn [In]. split; [intros [?|[?|[]]]; auto|intros [->|?]; auto].
Qed.
