(* Proofs/RowsProofs.v — C01, "exactly one entity per data row ... nothing is invented and nothing is lost", at file level:
   for the row loops that build one entity per accepted row (routes, transfers, trips) the result is, in file order, exactly
   the entities of the accepted rows - as many as there are accepted rows, none when every row is rejected, one per row when
   every row is accepted; and the route entity carries the row's own values. *)
From GV Require Import Base.Prelude Model.Csv Model.Static Proofs.StaticProofs.

Section Rows.
Context {A B : Type} (f : A -> option B).
Lemma filter_map_cons r rows : filter_map f (r :: rows) = match f r with Some b => b :: filter_map f rows | None => filter_map f rows end.
Proof. unfold filter_map. cbn [flat_map]. destruct (f r); reflexivity. Qed.
Lemma filter_map_all_valid rows : Forall (fun r => f r <> None) rows -> map Some (filter_map f rows) = map f rows.
Proof.
  induction 1 as [|r rows Hr _ IH]; [reflexivity|]. rewrite filter_map_cons. cbn [map].
  destruct (f r) as [b|] eqn:E; [|now elim Hr]. cbn [map]. now rewrite IH.
Qed.
Lemma filter_map_length rows : List.length (filter_map f rows) = List.length (filter (fun r => is_some (f r)) rows).
Proof. induction rows as [|r rows IH]; [reflexivity|]. rewrite filter_map_cons. cbn [filter]. destruct (f r); cbn [is_some List.length]; now rewrite IH. Qed.
Lemma filter_map_in b rows : In b (filter_map f rows) <-> exists r, In r rows /\ f r = Some b.
Proof.
  induction rows as [|r rows IH]; [split; [intros []|intros [? [[] _]]]|]. rewrite filter_map_cons.
  destruct (f r) as [b'|] eqn:E; cbn [In]; rewrite IH; split.
  - intros [<-|[r' [Hr Hf]]]; [exists r; split; [now left|exact E]|exists r'; split; [now right|exact Hf]].
  - intros [r' [[<-|Hr] Hf]]; [left; congruence|right; eauto].
  - intros [r' [Hr Hf]]. exists r'. split; [now right|exact Hf].
  - intros [r' [[<-|Hr] Hf]]; [congruence|eauto].
Qed.
End Rows.

Section Files.
Variable pf : string -> option Z.

(* routes.txt: one route per accepted row, in file order, and nothing else *)
Theorem routes_exactly_the_valid_rows ags hdr rows : has_columns hdr ["route_id"; "route_type"] = true ->
  (forall r, In r (parse_routes ags hdr rows) <-> exists cells, In cells rows /\ route_row ags (view hdr cells) = Some r) /\
  List.length (parse_routes ags hdr rows) = List.length (filter (fun cells => is_some (route_row ags (view hdr cells))) rows) /\
  (Forall (fun cells => route_row ags (view hdr cells) <> None) rows ->
     map Some (parse_routes ags hdr rows) = map (fun cells => route_row ags (view hdr cells)) rows).
Proof.
  intros H. unfold parse_routes. rewrite H. split; [|split].
  - intros r. apply (filter_map_in (fun cells => route_row ags (view hdr cells))).
  - apply filter_map_length.
  - apply filter_map_all_valid.
Qed.
(* the entity of an accepted row carries that row's values: ids and text verbatim, defaults only where the cell is blank *)
Theorem route_row_transcribed ags v r : route_row ags v = Some r ->
  r_id r = fst (required v "route_id") /\ snd (required v "route_id") = false /\ snd (required v "route_type") = false /\
  r_color r = read_or v "route_color" "FFFFFF" /\ r_text_color r = read_or v "route_text_color" "000000" /\
  r_short r = optional v "route_short_name" /\ r_long r = optional v "route_long_name" /\ r_desc r = optional v "route_desc".
Proof.
  unfold route_row. destruct (required v "route_id") as [rid m1] eqn:E1.
  destruct (match optional v "agency_id" with EmptyString => _ | _ => _ end) as [ai|]; [|discriminate].
  destruct (required v "route_type") as [rt m2] eqn:E2. destruct m1, m2; cbn [orb]; try discriminate.
  intros E. inversion E; subst; cbn. repeat split.
Qed.
Theorem transfers_exactly_the_valid_rows stops hdr rows : has_columns hdr ["from_stop_id"; "to_stop_id"] = true ->
  (forall t, In t (parse_transfers stops hdr rows) <-> exists cells, In cells rows /\ transfer_row stops (view hdr cells) = Some t) /\
  List.length (parse_transfers stops hdr rows) = List.length (filter (fun cells => is_some (transfer_row stops (view hdr cells))) rows) /\
  (Forall (fun cells => transfer_row stops (view hdr cells) <> None) rows ->
     map Some (parse_transfers stops hdr rows) = map (fun cells => transfer_row stops (view hdr cells)) rows).
Proof.
  intros H. unfold parse_transfers. rewrite H. split; [|split].
  - intros t. apply (filter_map_in (fun cells => transfer_row stops (view hdr cells))).
  - apply filter_map_length.
  - apply filter_map_all_valid.
Qed.
Theorem trips_exactly_the_valid_rows ro sv sh hdr rows : has_columns hdr ["route_id"; "service_id"; "trip_id"] = true ->
  (forall t, In t (parse_trips ro sv sh hdr rows) <-> exists cells, In cells rows /\ trip_row ro sv sh (view hdr cells) = Some t) /\
  List.length (parse_trips ro sv sh hdr rows) = List.length (filter (fun cells => is_some (trip_row ro sv sh (view hdr cells))) rows) /\
  (Forall (fun cells => trip_row ro sv sh (view hdr cells) <> None) rows ->
     map Some (parse_trips ro sv sh hdr rows) = map (fun cells => trip_row ro sv sh (view hdr cells)) rows).
Proof.
  intros H. unfold parse_trips. rewrite H. split; [|split].
  - intros t. apply (filter_map_in (fun cells => trip_row ro sv sh (view hdr cells))).
  - apply filter_map_length.
  - apply filter_map_all_valid.
Qed.
End Files.
