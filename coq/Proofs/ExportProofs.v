(* Proofs/ExportProofs.v — C20: what Model/Export.v renders is read back by the CSV reader model (Model/Csv.v, the same one
   that is validated against encoding/csv) as exactly the rows that were rendered. *)
From Coq Require Import List Ascii String Arith ZArith Lia Bool.
Import ListNotations.
From GV Require Import Model.Csv Proofs.CsvProofs Model.Journal Model.Export.
Local Open Scope char_scope.

Definition l (s : string) : list ascii := list_ascii_of_string s.
Lemma l_app a b : l (a ++ b)%string = l a ++ l b.
Proof. unfold l. induction a as [|c a IH]; cbn; [reflexivity|]. now rewrite IH. Qed.

(* a cell is clean when it contains none of: comma, double quote, LF, CR *)
Definition clean (s : string) : Prop := needs_quote (l s) = false /\ ~ In CR (l s).
Definition nostyle (_ : cell) : bool := false.

Lemma print_cell_clean s : needs_quote (l s) = false -> print_cell (qchoice nostyle false (l s)) (l s) = l s.
Proof. intros H. unfold print_cell, qchoice, nostyle. cbn. now rewrite H. Qed.

Lemma l_concat_comma cells : cells <> [] -> Forall clean cells ->
  l (String.concat "," cells) = print_cells nostyle false (map l cells).
Proof.
  induction cells as [|x [|y r] IH]; intros Hne Hc; [congruence| |].
  - cbn [String.concat map print_cells]. inversion Hc as [|? ? [Hq _] _]; subst. now rewrite print_cell_clean.
  - inversion Hc as [|? ? [Hq _] Hr]; subst.
    change (String.concat "," (x :: y :: r)) with (x ++ "," ++ String.concat "," (y :: r))%string.
    rewrite !l_app. change (map l (x :: y :: r)) with (l x :: map l (y :: r)).
    change (print_cells nostyle false (l x :: map l (y :: r))) with
      (print_cell (qchoice nostyle false (l x)) (l x) ++ COMMA :: print_cells nostyle false (map l (y :: r))).
    rewrite print_cell_clean by exact Hq. rewrite IH by (auto; discriminate). reflexivity.
Qed.

Definition row_ok (k : nat) (r : list string) : Prop := List.length r = k /\ Forall clean r.

Lemma is_single_long (r : list cell) : (2 <= List.length r)%nat -> is_single r = false.
Proof. destruct r as [|a [|b r]]; cbn; intros; try lia; reflexivity. Qed.

Lemma l_line k r : (2 <= k)%nat -> row_ok k r -> l (line r) = print_row nostyle (map l r).
Proof. intros Hk [Hl Hc]. unfold line, print_row. rewrite l_app, l_concat_comma; [|destruct r; [cbn in Hl; lia|discriminate]|exact Hc].
  rewrite is_single_long by (rewrite map_length; lia). reflexivity. Qed.

Lemma sapp_nil_r (a : string) : (a ++ "")%string = a.
Proof. induction a as [|c a IH]; cbn; [reflexivity|now rewrite IH]. Qed.
Lemma concat_empty_cons a rest : String.concat "" (a :: rest) = (a ++ String.concat "" rest)%string.
Proof. destruct rest as [|b rest]; [cbn; now rewrite sapp_nil_r|reflexivity]. Qed.
Lemma l_export_rows k rows : (2 <= k)%nat -> Forall (row_ok k) rows ->
  l (export_rows rows) = print_rows nostyle (map (map l) rows).
Proof.
  intros Hk. unfold export_rows, print_rows. induction rows as [|r rows IH]; intros H; [reflexivity|].
  inversion H; subst. cbn [map List.concat]. rewrite concat_empty_cons, l_app, (l_line k) by assumption. f_equal. now apply IH.
Qed.

(* no CR anywhere in the rendering *)
Lemma no_cr_cells q r : Forall (fun c => ~ In CR c /\ needs_quote c = false) r -> ~ In CR (print_cells nostyle q r).
Proof.
  induction r as [|x [|y r] IH]; intros H; [cbn; tauto| |].
  - inversion H as [|? ? [Hx Hq] _]; subst. cbn [print_cells]. unfold print_cell, qchoice, nostyle. cbn [orb].
    destruct (q && match x with [] => true | _ => false end) eqn:E.
    + cbn [orb]. destruct x; [|rewrite andb_false_r in E; discriminate]. cbn. intros [A|[A|[]]]; discriminate.
    + cbn [orb]. now rewrite Hq.
  - inversion H as [|? ? [Hx Hq] Hr]; subst.
    change (print_cells nostyle q (x :: y :: r)) with (print_cell (qchoice nostyle q x) x ++ COMMA :: print_cells nostyle q (y :: r)).
    rewrite in_app_iff. intros [A|[A|A]].
    + unfold print_cell, qchoice, nostyle in A. cbn [orb] in A.
      destruct (q && match x with [] => true | _ => false end) eqn:E; cbn [orb] in A.
      * destruct x; [|rewrite andb_false_r in E; discriminate]. cbn in A. destruct A as [A|[A|[]]]; discriminate.
      * rewrite Hq in A. contradiction.
    + discriminate.
    + now apply IH in A.
Qed.
Lemma no_cr_rows rows : Forall (Forall (fun c => ~ In CR c /\ needs_quote c = false)) rows -> ~ In CR (print_rows nostyle rows).
Proof. unfold print_rows. induction rows as [|r rows IH]; intros H; cbn; [tauto|]. inversion H; subst.
  unfold print_row. rewrite !in_app_iff. intros [[A|A]|A].
  - now apply no_cr_cells in A.
  - cbn in A. destruct A as [A|[]]. discriminate.
  - now apply IH in A. Qed.

Lemma cells_back r : map cell_s (map l r) = r.
Proof. rewrite map_map. rewrite (map_ext _ (fun x => x)); [apply map_id|]. intros s. apply string_of_list_ascii_of_string. Qed.

(* the generic statement: k >= 2 clean cells per row, and the rendering does not begin with a byte-order mark *)
Theorem read_export_rows k rows : (2 <= k)%nat -> Forall (row_ok k) rows ->
  strip_bom (l (export_rows rows)) = l (export_rows rows) ->
  read_all_s (export_rows rows) = Some rows.
Proof.
  intros Hk H Hb. unfold read_all_s, read_all. fold (l (export_rows rows)). rewrite Hb, (l_export_rows k) by assumption.
  rewrite normalise_no_cr.
  - rewrite (csv_roundtrip nostyle _ k).
    + f_equal. rewrite map_map. rewrite (map_ext _ (fun r => r)); [apply map_id|]. intros r. apply cells_back.
    + apply Forall_forall. intros r Hr. apply in_map_iff in Hr as [r0 [<- Hr0]]. rewrite Forall_forall in H. destruct (H _ Hr0) as [Hl _].
      rewrite map_length. split; [destruct r0; [cbn in Hl; lia|discriminate]|exact Hl].
  - apply no_cr_rows. apply Forall_forall. intros r Hr. apply in_map_iff in Hr as [r0 [<- Hr0]]. rewrite Forall_forall in H.
    destruct (H _ Hr0) as [_ Hc]. apply Forall_forall. intros c Hc'. apply in_map_iff in Hc' as [s [<- Hs]].
    rewrite Forall_forall in Hc. destruct (Hc _ Hs). auto.
Qed.

(* decimal renderings are clean *)
Lemma clean_digits ds : Forall (fun c => Dec.is_digit c = true \/ c = 45%Z) ds -> clean (Prelude.str_of_bytes ds).
Proof.
  unfold clean, l, Prelude.str_of_bytes. rewrite list_ascii_of_string_of_list_ascii. induction ds as [|c ds IH]; intros H; [split; [reflexivity|cbn; tauto]|].
  inversion H as [|? ? Hc Hr]; subst. destruct (IH Hr) as [I1 I2]. cbn [map needs_quote existsb In].
  assert (R : (48 <= c <= 57 \/ c = 45)%Z).
  { destruct Hc as [Hc| ->]; [left|right; reflexivity]. unfold Dec.is_digit in Hc. apply andb_true_iff in Hc as [A B]. apply Z.leb_le in A, B. lia. }
  assert (E : special (ascii_of_N (Z.to_N c)) = false /\ ascii_of_N (Z.to_N c) <> CR).
  { destruct R as [R| ->]; [|split; [reflexivity|discriminate]].
    assert (c = 48 \/ c = 49 \/ c = 50 \/ c = 51 \/ c = 52 \/ c = 53 \/ c = 54 \/ c = 55 \/ c = 56 \/ c = 57)%Z as D by lia.
    repeat (destruct D as [->|D]; [split; [reflexivity|discriminate]|]). subst c. split; [reflexivity|discriminate]. }
  destruct E as [E1 E2]. split.
  - fold (needs_quote (map (fun z => ascii_of_N (Z.to_N z)) ds)). now rewrite E1, I1.
  - intros [A|A]; [congruence|contradiction].
Qed.
Lemma clean_show_Z z : clean (Dec.show_Zs z).
Proof.
  unfold Dec.show_Zs. apply clean_digits. unfold Dec.show_Z.
  assert (G : forall n, (0 <= n)%Z -> Forall (fun c => Dec.is_digit c = true \/ c = 45%Z) (Dec.show_nat n)).
  { intros n Hn. eapply Forall_impl; [|apply (Dec.show_nat_digits n Hn)]. auto. }
  destruct (z <? 0)%Z eqn:E; [apply Z.ltb_lt in E; constructor; [now right|apply G; lia]|apply Z.ltb_ge in E; apply G; lia].
Qed.
Lemma clean_empty : clean "". Proof. split; [reflexivity|cbn; tauto]. Qed.
Lemma clean_ounix o : clean (ounix o). Proof. destruct o; [apply clean_show_Z|apply clean_empty]. Qed.
Lemma clean_dir d : clean (dir_s d).
Proof. unfold dir_s. destruct (d =? 2)%Z; [split; [reflexivity|cbn; intros [A|[]]; discriminate]|].
  destruct (d =? 1)%Z; [split; [reflexivity|cbn; intros [A|[]]; discriminate]|apply clean_empty]. Qed.

(* the property's side condition: ids, vehicle id, stop ids and tracks free of CSV metacharacters *)
Definition clean_stop (s : j_stop) : Prop := clean (js_stop s) /\ clean (ostr (js_track s)).
Definition clean_trip (t : j_trip) : Prop :=
  clean (jt_uid t) /\ clean (jt_id t) /\ clean (jt_route t) /\ clean (jt_vehicle t) /\ Forall clean_stop (jt_stops t).

Lemma header_trips_ok : row_ok 11 header_trips.
Proof. split; [reflexivity|]. repeat constructor; try reflexivity; cbn; intuition discriminate. Qed.
Lemma header_stops_ok : row_ok 7 header_stops.
Proof. split; [reflexivity|]. repeat constructor; try reflexivity; cbn; intuition discriminate. Qed.
Lemma trip_cells_ok t : clean_trip t -> row_ok 11 (trip_cells t).
Proof. intros (A & B & C & D & _). split; [reflexivity|]. unfold trip_cells.
  repeat (apply Forall_cons; [solve [auto using clean_show_Z, clean_ounix, clean_dir]|]). apply Forall_nil. Qed.
Lemma stop_cells_ok uid s : clean uid -> clean_stop s -> row_ok 7 (stop_cells uid s).
Proof. intros U [A B]. split; [reflexivity|]. unfold stop_cells. repeat (apply Forall_cons; [solve [auto using clean_show_Z, clean_ounix]|]). apply Forall_nil. Qed.

Theorem export_trips_reads_back j : Forall clean_trip j -> read_all_s (export_trips j) = Some (trips_table j).
Proof.
  intros H. unfold export_trips. apply (read_export_rows 11); [lia| |].
  - constructor; [apply header_trips_ok|]. apply Forall_forall. intros r Hr. apply in_map_iff in Hr as [t [<- Ht]].
    rewrite Forall_forall in H. now apply trip_cells_ok, H.
  - unfold export_rows, trips_table. cbn [map String.concat]. destruct (map line (map trip_cells j)); reflexivity.
Qed.
Theorem export_stop_times_reads_back j : Forall clean_trip j -> read_all_s (export_stop_times j) = Some (stops_table j).
Proof.
  intros H. unfold export_stop_times. apply (read_export_rows 7); [lia| |].
  - constructor; [apply header_stops_ok|]. apply Forall_forall. intros r Hr. apply in_flat_map in Hr as [t [Ht Hr]].
    apply in_map_iff in Hr as [s [<- Hs]]. rewrite Forall_forall in H. destruct (H _ Ht) as (A & _ & _ & _ & S).
    rewrite Forall_forall in S. now apply stop_cells_ok; [|apply S].
  - unfold export_rows, stops_table. cbn [map String.concat].
    destruct (map line (flat_map (fun t => map (stop_cells (jt_uid t)) (jt_stops t)) j)); reflexivity.
Qed.
(* row counts: one row per trip, one per stop time, in journal order (immediate from the tables) *)
Lemma trips_table_length j : List.length (trips_table j) = S (List.length j).
Proof. unfold trips_table. cbn. now rewrite map_length. Qed.
Lemma stops_table_length j : List.length (stops_table j) = S (list_sum (map (fun t => List.length (jt_stops t)) j)).
Proof. unfold stops_table. cbn [List.length]. f_equal. induction j as [|t j IH]; [reflexivity|].
  cbn [flat_map map list_sum]. now rewrite app_length, map_length, IH. Qed.

(* the key: the stop-time rows can be JOINED back to their trips - selecting the rows whose first cell is a trip's UID gives
   exactly that trip's stop times, in order, whenever the journal's UIDs are pairwise distinct (C15: they are) *)
Definition key_is (u : string) (r : list string) : bool := String.eqb (hd EmptyString r) u.
Definition stop_rows (j : list j_trip) : list (list string) := flat_map (fun t => map (stop_cells (jt_uid t)) (jt_stops t)) j.
Lemma filter_key_map u u' ss : filter (key_is u) (map (stop_cells u') ss) = if String.eqb u' u then map (stop_cells u') ss else [].
Proof. induction ss as [|s ss IH]; cbn [map filter]; [now destruct (String.eqb u' u)|].
  unfold key_is at 1. change (hd EmptyString (stop_cells u' s)) with u'. rewrite IH. now destruct (String.eqb u' u). Qed.
Lemma filter_key_none u j : ~ In u (map jt_uid j) -> filter (key_is u) (stop_rows j) = [].
Proof. unfold stop_rows. induction j as [|x j IH]; intros H; [reflexivity|]. cbn [flat_map]. rewrite filter_app, filter_key_map.
  destruct (String.eqb_spec (jt_uid x) u) as [e|ne]; [exfalso; apply H; left; exact e|].
  rewrite IH; [reflexivity|]. intros Hin; apply H; right; exact Hin. Qed.
Theorem stop_rows_join j : NoDup (map jt_uid j) -> forall t, In t j ->
  filter (key_is (jt_uid t)) (stop_rows j) = map (stop_cells (jt_uid t)) (jt_stops t).
Proof.
  induction j as [|x j IH]; intros ND t Hin; [destruct Hin|]. cbn [map] in ND. inversion ND as [|? ? Hnot ND']; subst.
  unfold stop_rows. cbn [flat_map]. rewrite filter_app, filter_key_map. destruct Hin as [->|Hin].
  - rewrite String.eqb_refl. fold (stop_rows j). rewrite (filter_key_none _ _ Hnot). apply app_nil_r.
  - destruct (String.eqb_spec (jt_uid x) (jt_uid t)) as [e|ne].
    + exfalso. apply Hnot. rewrite e. apply in_map. exact Hin.
    + cbn [app]. apply IH; assumption.
Qed.
Theorem stops_table_is j : stops_table j = header_stops :: stop_rows j.
Proof. reflexivity. Qed.

(* composed with C15: EVERY journal BuildJournal returns, after any history and for any window, exports to stop-time rows that
   join back to its trips *)
From Coq Require Import Sorted.
From GV Require Import Base.StrOrd Proofs.JournalProofs Proofs.HistoryProofs.
Lemma sorted_slt_nodup (us : list string) : StronglySorted slt us -> NoDup us.
Proof. induction 1 as [|u us Hs IH Hall]; constructor; [|exact IH]. intros Hin.
  rewrite Forall_forall in Hall. specialize (Hall _ Hin). unfold slt in Hall. rewrite sltb_irrefl in Hall. discriminate. Qed.
Theorem journal_export_join feeds a b t : In t (build_journal feeds a b) ->
  filter (key_is (jt_uid t)) (stop_rows (build_journal feeds a b)) = map (stop_cells (jt_uid t)) (jt_stops t).
Proof. apply stop_rows_join. apply sorted_slt_nodup. apply journal_sorted, history_ok. Qed.
