(* Proofs/MentionProofs.v — C02 / C07: for EVERY message, the identifiers of the result's trips are exactly the trip
   descriptors mentioned anywhere in the (non-skipped) entities - by a trip update, by a vehicle position, or by an alert's
   identifying informed entity - and (with MergeProofs.trip_ids_unique) each exactly once.  Likewise the id-bearing vehicles. *)
From Coq Require Import Permutation.
From GV Require Import Base.Prelude Base.Dec Base.Sort Model.RtTypes Model.RtWire Model.Realtime
  Proofs.RealtimeProofs Proofs.PurityProofs Proofs.MergeProofs Proofs.LinkProofs.

Section WithOracles.
Variable cm : Z -> Z -> Z -> Z.
Variable tz : option string.
Variable cfg : ext_cfg.

(* the trip identifiers one entity mentions *)
Definition entity_trip_keys (es : entity * bool) : list trip_key :=
  let '(e, skip) := es in
  if skip then [] else
  match e_tu e with
  | Some tu => [parse_trip_descriptor cm tz (tu_trip tu)]
  | None =>
    match e_vp e with
    | Some vp => match vp_trip vp with Some td => [parse_trip_descriptor cm tz td] | None => [] end
    | None => match e_alert e with Some al => map tr_key (snd (parse_alert cm tz (e_id e) al)) | None => [] end
    end
  end.
Lemma fold_merge_trip_keys_iff ts : forall trips k, tkey_in k (fold_left merge_trip ts trips) <-> tkey_in k trips \/ In k (map tr_key ts).
Proof.
  induction ts as [|t ts IH]; intros trips k; cbn [fold_left map]; [cbn; tauto|]. rewrite IH, merge_trip_keys. cbn. intuition.
Qed.
Lemma add_trip_vehicle_tkeys a t v k : tkey_in k (a_trips (add_trip_vehicle a t v)) <-> tkey_in k (a_trips a) \/ match t with Some t => k = tr_key t | None => False end.
Proof.
  unfold add_trip_vehicle. destruct v as [v|]; [destruct (ve_id v)|]; cbn [a_trips]; destruct t as [t|]; try rewrite merge_trip_keys; tauto.
Qed.
Lemma entity_step_tkeys a es k : tkey_in k (a_trips (entity_step cm tz cfg a es)) <-> tkey_in k (a_trips a) \/ In k (entity_trip_keys es).
Proof.
  destruct es as [e skip]. unfold entity_step, entity_trip_keys. destruct skip; [cbn; tauto|].
  destruct (e_tu e) as [tu|].
  - unfold parse_trip_update. rewrite add_trip_vehicle_tkeys. cbn. intuition.
  - destruct (e_vp e) as [vp|].
    + unfold parse_vehicle. rewrite add_trip_vehicle_tkeys. destruct (vp_trip vp); cbn; intuition.
    + destruct (e_alert e) as [al|]; [|cbn; tauto]. destruct (parse_alert cm tz (e_id e) al) as [ra ts]. cbn [a_trips snd].
      apply fold_merge_trip_keys_iff.
Qed.
Lemma fold_entity_step_tkeys l : forall a k, tkey_in k (a_trips (fold_left (entity_step cm tz cfg) l a)) <-> tkey_in k (a_trips a) \/ In k (flat_map entity_trip_keys l).
Proof.
  induction l as [|es l IH]; intros a k; cbn [fold_left flat_map]; [cbn; tauto|]. rewrite IH, entity_step_tkeys, in_app_iff. tauto.
Qed.

Theorem trips_are_the_mentioned m : let p := pre_pass cfg m in
  forall k, In k (map tr_key (rt_trips (parse_message cm tz cfg m))) <-> In k (flat_map entity_trip_keys (combine (pr_entities p) (pr_skip p))).
Proof.
  cbn zeta. intros k. unfold parse_message. set (l := combine _ _). set (a := fold_left (entity_step cm tz cfg) l acc0).
  assert (Ia : acc_inv tz a) by (apply fold_entity_step_ok, acc0_ok). destruct Ia as [[_ Hf] _]. rewrite Forall_forall in Hf.
  transitivity (tkey_in k (a_trips a)).
  - unfold finish; cbn [rt_trips]. unfold tkey_in. split.
    + intros H. apply in_map_iff in H as [t [<- Ht]]. apply in_isort in Ht. apply in_map_iff in Ht as [[k0 t0] [<- Hin]].
      destruct (Hf _ Hin) as [Ek _]. cbn in Ek. apply in_map_iff. exists (k0, t0). split; [|exact Hin]. cbn.
      destruct (glookup tk_eqb k0 (a_t2v a)); [now rewrite <- Ek|]. destruct (existsb _ _); now rewrite <- Ek.
    + intros H. apply in_map_iff in H as [[k0 t0] [E Hin]]. cbn in E. subst k0. destruct (Hf _ Hin) as [Ek _]. cbn in Ek.
      apply in_map_iff.
      exists (match glookup tk_eqb k (a_t2v a) with Some vid => set_trip_vehicle t0 (Some (Some vid))
              | None => if existsb (tk_eqb k) (a_t2noid a) then set_trip_vehicle t0 (Some None) else t0 end).
      split; [destruct (glookup tk_eqb k (a_t2v a)); [exact Ek|]; destruct (existsb _ _); exact Ek|].
      apply in_isort. apply in_map_iff. exists (k, t0). split; [reflexivity|exact Hin].
  - unfold a. rewrite fold_entity_step_tkeys. cbn. tauto.
Qed.
End WithOracles.
