(* Proofs/TransparencyProofs.v — C16, the transparency clause at the level of the whole message: a message that carries no NYCT
   data (no NYCT trip descriptor, no NYCT stop time update) and that the M-train platform fix does not apply to parses, under
   the nycttrips extension with ANY flag setting, to exactly what it parses to without extension. *)
From GV Require Import Base.Prelude Base.Dec Model.RtTypes Model.RtWire Model.Realtime Proofs.RealtimeProofs.

Definition td_plain (td : trip_desc) : Prop := td_nyct td = None.
Definition entity_plain (preserve : bool) (e : entity) : Prop :=
  match e_tu e with
  | Some tu => td_plain (tu_trip tu) /\ Forall (fun u => stu_nyct u = None) (tu_stus tu) /\
               (preserve = true \/ String.eqb (odflt "" (td_route_id (tu_trip tu))) "M" = false)
  | None => match e_vp e with Some vp => match vp_trip vp with Some td => td_plain td | None => True end | None => True end
  end.

Lemma set_nth_same {A} (l : list A) : forall i x, nth_error l i = Some x -> set_nth i x l = l.
Proof. induction l as [|y l IH]; intros [|i] x H; cbn in *; try discriminate; [now inversion H|]. f_equal. now apply IH. Qed.
Lemma set_nth_false (l : list bool) : forall i, nth i l false = false -> set_nth i false l = l.
Proof. induction l as [|y l IH]; intros [|i] H; cbn in *; try reflexivity; [now subst|]. f_equal. now apply IH. Qed.
Lemma all_false_nth {A} (l : list A) i : nth i (map (fun _ => false) l) false = false.
Proof. revert i. induction l as [|x l IH]; intros [|i]; cbn; auto. Qed.

Lemma nyct_trip_plain filter preserve ts tu : td_plain (tu_trip tu) ->
  (preserve = true \/ String.eqb (odflt "" (td_route_id (tu_trip tu))) "M" = false) ->
  nyct_update_trip filter preserve ts tu = (tu, false).
Proof.
  intros Hp Hm. unfold nyct_update_trip.
  assert (E : (if preserve then tu else mswap_tu tu) = tu) by (destruct Hm as [->|H]; [reflexivity|destruct preserve; [reflexivity|now apply mswap_tu_route]]).
  rewrite E. rewrite (nyct_transparent_desc _ Hp). unfold td_plain in Hp. rewrite Hp. cbn. destruct tu; reflexivity.
Qed.
Lemma nyct_vehicle_plain vp : match vp_trip vp with Some td => td_plain td | None => True end -> nyct_update_vehicle vp = vp.
Proof. intros H. unfold nyct_update_vehicle. destruct (vp_trip vp) as [td|] eqn:E; [|reflexivity]. rewrite (nyct_transparent_desc _ H). destruct vp; cbn in *; now rewrite E. Qed.

Theorem pre_pass_transparent filter preserve m : Forall (entity_plain preserve) (fm_entities m) ->
  pre_pass (NyctTrips filter preserve) m = pre_pass NoExt m.
Proof.
  intros H. unfold pre_pass.
  set (st0 := {| pr_entities := fm_entities m; pr_skip := map (fun _ => false) (fm_entities m); pr_elev := [] |}).
  assert (G : forall l i, (forall k e, nth_error l k = Some e -> nth_error (fm_entities m) (i + k) = Some e /\ entity_plain preserve e) ->
                fold_left (pre_step (NyctTrips filter preserve) (fm_ts m)) (enumerate i l) st0 = st0).
  { induction l as [|e l IH]; intros i Hl; cbn [enumerate fold_left]; [reflexivity|].
    destruct (Hl 0%nat e eq_refl) as [He Hp]. rewrite Nat.add_0_r in He.
    assert (S0 : pre_step (NyctTrips filter preserve) (fm_ts m) st0 (i, e) = st0).
    { unfold pre_step, entity_plain in *. destruct (e_tu e) as [tu|] eqn:Et.
      - destruct Hp as (P1 & _ & P3). rewrite (nyct_trip_plain filter preserve _ tu P1 P3). unfold st0; cbn.
        rewrite set_nth_same, set_nth_false; [reflexivity|apply all_false_nth|]. rewrite He. f_equal. destruct e; cbn in *; now rewrite Et.
      - destruct (e_vp e) as [vp|] eqn:Ev; [|reflexivity]. rewrite (nyct_vehicle_plain vp Hp). unfold st0; cbn.
        rewrite set_nth_same, set_nth_false; [reflexivity|apply all_false_nth|]. rewrite He. f_equal. destruct e; cbn in *; now rewrite Et, Ev. }
    rewrite S0. apply IH. intros k e' Hk. destruct (Hl (S k) e' Hk) as [A B]. split; [|exact B]. now replace (S i + k)%nat with (i + S k)%nat by lia. }
  rewrite G.
  - assert (G0 : forall l i, fold_left (pre_step NoExt (fm_ts m)) (enumerate i l) st0 = st0) by (induction l as [|e l IH]; intros i; cbn; auto).
    now rewrite G0.
  - intros k e Hk. split; [exact Hk|]. rewrite Forall_forall in H. apply H. eapply nth_error_In; eauto.
Qed.

(* without NYCT stop time data the track is absent whatever the configuration *)
Lemma convert_stu_plain tz f p u : stu_nyct u = None -> convert_stu tz (NyctTrips f p) u = convert_stu tz NoExt u.
Proof. intros H. unfold convert_stu, get_track. now rewrite H. Qed.
Lemma entity_step_plain cm tz f p a e sk : entity_plain p e -> entity_step cm tz (NyctTrips f p) a (e, sk) = entity_step cm tz NoExt a (e, sk).
Proof.
  intros H. unfold entity_step. destruct sk; [reflexivity|]. unfold entity_plain in H. destruct (e_tu e) as [tu|]; [|reflexivity].
  destruct H as (_ & Hs & _). unfold parse_trip_update. f_equal. f_equal. f_equal.
  induction Hs as [|u l Hu Hl IH]; cbn; [reflexivity|]. now rewrite (convert_stu_plain tz f p u Hu), IH.
Qed.
Theorem nycttrips_transparent cm tz filter preserve m : Forall (entity_plain preserve) (fm_entities m) ->
  parse_message cm tz (NyctTrips filter preserve) m = parse_message cm tz NoExt m.
Proof.
  intros H. unfold parse_message. rewrite (pre_pass_transparent filter preserve m H). f_equal.
  set (p := pre_pass NoExt m).
  assert (Ep : pr_entities p = fm_entities m).
  { unfold p, pre_pass. assert (G0 : forall l i st, fold_left (pre_step NoExt (fm_ts m)) (enumerate i l) st = st) by (induction l as [|e l IH]; intros i st; cbn; auto). now rewrite G0. }
  rewrite Ep. generalize (pr_skip p) as sk. clear Ep. clear p. generalize acc0 as a. induction H as [|e l He Hl IH]; intros a sk; cbn [combine fold_left]; [reflexivity|].
  destruct sk as [|s sk]; cbn [combine fold_left]; [reflexivity|]. rewrite (entity_step_plain cm tz filter preserve a e s He). apply IH.
Qed.

(* ================= nyctalerts: alerts without NYCT data and without an elevator id pass through unchanged ================= *)
From GV Require Import Gen.NyctTables.
Definition alert_plain (add_meta : bool) (e : entity) : Prop :=
  match e_tu e, e_vp e, e_alert e with
  | None, None, Some a =>
    elev_match (la (e_id e)) = None /\ has_prefix "lmm:planned_work" (e_id e) = false /\ has_prefix "lmm:alert" (e_id e) = false /\
    Forall (fun s => priority_of s = None) (wa_informed a) /\ (add_meta = false \/ wa_metadata a = None)
  | _, _, _ => True
  end.
(* what the extension does to such an alert on the wire: only an absent cause becomes an explicit UNKNOWN_CAUSE *)
Definition norm_entity (e : entity) : entity :=
  match e_tu e, e_vp e, e_alert e with
  | None, None, Some a => {| e_id := e_id e; e_tu := None; e_vp := None;
                             e_alert := Some (set_alert a (wa_informed a) (Some (odflt Alert_UNKNOWN_CAUSE (wa_cause a))) (wa_effect a) (wa_desc a)) |}
  | _, _, _ => e
  end.
Lemma mercury_loop_plain skip_opt sels eff : Forall (fun s => priority_of s = None) sels -> mercury_loop skip_opt sels eff = (eff, false).
Proof. induction 1 as [|s l Hs Hl IH]; cbn; [reflexivity|]. now rewrite Hs. Qed.
Lemma set_nth_middle {A} (x y : A) suf : forall l1 n, List.length l1 = n -> set_nth n x (l1 ++ y :: suf) = l1 ++ x :: suf.
Proof. induction l1 as [|z l1 IH]; intros n <-; cbn; [reflexivity|]. now rewrite IH. Qed.

Theorem pre_pass_alerts_plain policy station_ids skip_opt add_meta m : Forall (alert_plain add_meta) (fm_entities m) ->
  let p := pre_pass (NyctAlerts policy station_ids skip_opt add_meta) m in
  pr_entities p = map norm_entity (fm_entities m) /\ pr_skip p = map (fun _ => false) (fm_entities m).
Proof.
  intros H. cbn zeta. unfold pre_pass.
  (* generalised over the processed prefix: entities = map norm prefix ++ suffix *)
  assert (G : forall suf pre st,
    pr_entities st = map norm_entity pre ++ suf -> pr_skip st = map (fun _ => false) (pre ++ suf) -> pr_elev st = [] ->
    Forall (alert_plain add_meta) suf ->
    let st' := fold_left (pre_step (NyctAlerts policy station_ids skip_opt add_meta) (fm_ts m)) (enumerate (List.length pre) suf) st in
    pr_entities st' = map norm_entity (pre ++ suf) /\ pr_skip st' = map (fun _ => false) (pre ++ suf)).
  { induction suf as [|e suf IH]; intros pre st He Hs Hel Hp; cbn [enumerate fold_left].
    - rewrite app_nil_r in *. split; assumption.
    - inversion Hp as [|? ? Hpe Hps]; subst.
      set (st1 := pre_step (NyctAlerts policy station_ids skip_opt add_meta) (fm_ts m) st (List.length pre, e)).
      assert (S1 : pr_entities st1 = map norm_entity (pre ++ [e]) ++ suf /\ pr_skip st1 = map (fun _ => false) ((pre ++ [e]) ++ suf) /\ pr_elev st1 = []).
      { unfold st1, pre_step, alert_plain, norm_entity in *. rewrite map_app. cbn [map].
        destruct (e_tu e); [rewrite <- !app_assoc; cbn; repeat split; assumption|].
        destruct (e_vp e); [rewrite <- !app_assoc; cbn; repeat split; assumption|].
        destruct (e_alert e) as [a|]; [|rewrite <- !app_assoc; cbn; repeat split; assumption].
        destruct Hpe as (P1 & P2 & P3 & P4 & P5). rewrite P1, P2, P3, (mercury_loop_plain skip_opt _ _ P4).
        assert (Ed : (if add_meta then match wa_metadata a with Some js => wa_desc a ++ [(js, metadata_language)] | None => wa_desc a end else wa_desc a) = wa_desc a)
          by (destruct P5 as [-> | ->]; [reflexivity|destruct add_meta; reflexivity]).
        rewrite Ed. cbn [pr_entities pr_skip pr_elev]. rewrite <- !app_assoc. cbn [app]. repeat split; [| |exact Hel].
        + rewrite He. apply set_nth_middle. apply map_length.
        + rewrite Hs. rewrite !map_app. cbn [map]. apply set_nth_middle. apply map_length. }
      destruct S1 as (A & B & C).
      specialize (IH (pre ++ [e]) st1 A B C Hps). rewrite app_length in IH. cbn [List.length] in IH. rewrite Nat.add_1_r in IH.
      rewrite <- app_assoc in IH. exact IH. }
  apply (G (fm_entities m) []); [reflexivity|reflexivity|reflexivity|exact H].
Qed.

Lemma parse_alert_norm cm tz id a :
  parse_alert cm tz id (set_alert a (wa_informed a) (Some (odflt Alert_UNKNOWN_CAUSE (wa_cause a))) (wa_effect a) (wa_desc a)) = parse_alert cm tz id a.
Proof. unfold parse_alert, set_alert. cbn. destruct (wa_cause a); reflexivity. Qed.
Lemma entity_step_norm cm tz policy station_ids skip_opt add_meta acc e :
  entity_step cm tz (NyctAlerts policy station_ids skip_opt add_meta) acc (norm_entity e, false) = entity_step cm tz NoExt acc (e, false).
Proof.
  unfold entity_step, norm_entity. destruct (e_tu e) as [tu|] eqn:Et.
  - rewrite Et. unfold parse_trip_update. f_equal.
  - destruct (e_vp e) as [vp|] eqn:Ev; [rewrite Et, Ev; reflexivity|]. destruct (e_alert e) as [a|] eqn:Ea; [|rewrite Et, Ev, Ea; reflexivity].
    cbn [e_tu e_vp e_alert e_id]. now rewrite parse_alert_norm.
Qed.
Theorem nyctalerts_transparent cm tz policy station_ids skip_opt add_meta m : Forall (alert_plain add_meta) (fm_entities m) ->
  parse_message cm tz (NyctAlerts policy station_ids skip_opt add_meta) m = parse_message cm tz NoExt m.
Proof.
  intros H. unfold parse_message. destruct (pre_pass_alerts_plain policy station_ids skip_opt add_meta m H) as [E1 E2]. cbn zeta in E1, E2. rewrite E1, E2.
  assert (E0 : pr_entities (pre_pass NoExt m) = fm_entities m /\ pr_skip (pre_pass NoExt m) = map (fun _ => false) (fm_entities m)).
  { unfold pre_pass. assert (G0 : forall l i st, fold_left (pre_step NoExt (fm_ts m)) (enumerate i l) st = st) by (induction l as [|e l IH]; intros i st; cbn; auto). rewrite G0. split; reflexivity. }
  destruct E0 as [F1 F2]. rewrite F1, F2. f_equal. clear.
  generalize acc0 as a. induction (fm_entities m) as [|e l IH]; intros a; cbn [map combine fold_left]; [reflexivity|].
  rewrite entity_step_norm. apply IH.
Qed.

(* ================= the characters of the NYCT trip id: every character consumes between one and four bytes, never more than there are ================= *)
Lemma rune_len_bounds a r : (1 <= rune_len (a :: r) <= 4)%nat /\ (rune_len (a :: r) <= List.length (a :: r))%nat.
Proof.
  unfold rune_len. cbn [List.length].
  destruct (bval a <? 128); [split; lia|].
  destruct (in_range 194 223 a).
  { destruct r as [|b r]; [split; lia|]. destruct (cont b); cbn [List.length]; split; lia. }
  destruct (in_range 224 239 a).
  { destruct r as [|b [|d r]]; cbn [List.length]; try (split; lia).
    destruct ((if bval a =? 224 then in_range 160 191 b else if bval a =? 237 then in_range 128 159 b else cont b) && cont d); split; lia. }
  destruct (in_range 240 244 a).
  { destruct r as [|b [|d [|e r]]]; cbn [List.length]; try (split; lia).
    destruct ((if bval a =? 240 then in_range 144 191 b else if bval a =? 244 then in_range 128 143 b else cont b) && cont d && cont e); split; lia. }
  split; lia.
Qed.
Lemma drop_char_shorter l r : drop_char l = Some r -> (List.length r < List.length l)%nat /\ (List.length l <= List.length r + 4)%nat.
Proof.
  unfold drop_char. destruct l as [|a l0]; [discriminate|]. destruct (not_nl a); [|discriminate]. intros E.
  assert (R : r = skipn (rune_len (a :: l0)) (a :: l0)) by (injection E as <-; reflexivity). rewrite R. clear E R.
  destruct (rune_len_bounds a l0) as [[B1 B2] B3]. rewrite skipn_length.
  remember (rune_len (a :: l0)) as n. remember (List.length (a :: l0)) as k. clear - B1 B2 B3. lia.
Qed.
