(* Proofs/DirSourceProofs.v — C19 *)
From GV Require Import Base.Prelude Base.Sort Base.StrOrd Model.DirSource.
From Coq Require Import Sorted Permutation.

Section P.
Variables (B R : Type) (parse : B -> option R).
Notation dir := (dir B).
Notation load := (load B R parse).
Notation next := (next B R parse).
Notation drain := (drain B R parse).

(* the first name that loads, and what is left after it *)
Fixpoint first_good (d : dir) (names : list string) : option R * list string :=
  match names with
  | [] => (None, [])
  | n :: rest => match load d n with Some r => (Some r, rest) | None => first_good d rest end
  end.
Definition goods (d : dir) (names : list string) : list R :=
  flat_map (fun n => match load d n with Some r => [r] | None => [] end) names.

Lemma next_spec d : forall names fuel, (List.length names < fuel)%nat -> next fuel d names = Ok (first_good d names).
Proof.
  induction names as [|n rest IH]; intros fuel H; (destruct fuel as [|f]; [lia|]); cbn [DirSource.next first_good]; [reflexivity|].
  destruct (load d n); [reflexivity|]. apply IH. cbn in H. lia.
Qed.
Lemma first_good_rest d names : (List.length (snd (first_good d names)) <= List.length names)%nat /\
  (fst (first_good d names) <> None -> List.length (snd (first_good d names)) < List.length names)%nat.
Proof. induction names as [|n rest IH]; cbn [first_good]; [cbn; split; [lia|congruence]|].
  destruct (load d n); cbn [fst snd List.length]; [split; lia|]. destruct IH as [A C]. split; [lia|intros H; specialize (C H); lia]. Qed.
Lemma goods_first d names : goods d names =
  match first_good d names with (Some r, rest) => r :: goods d rest | (None, _) => [] end.
Proof. induction names as [|n rest IH]; cbn [goods flat_map first_good]; [reflexivity|].
  destruct (load d n); [reflexivity|]. cbn [app]. exact IH. Qed.
Lemma first_good_none d names rest : first_good d names = (None, rest) -> rest = [].
Proof. induction names as [|n r IH]; cbn [first_good]; [now intros [= <-]|]. destruct (load d n); [discriminate|exact IH]. Qed.

Theorem drain_spec d : forall calls names, (List.length names < calls)%nat -> drain calls d names = Ok (goods d names).
Proof.
  induction calls as [|c IH]; intros names H; [lia|]. cbn [DirSource.drain]. rewrite next_spec by lia. rewrite goods_first.
  destruct (first_good d names) as [[r|] rest] eqn:E; [|reflexivity].
  pose proof (first_good_rest d names) as [_ L]. rewrite E in L. cbn [fst snd] in L.
  rewrite IH; [reflexivity|]. assert (Some r <> None) as N by discriminate. specialize (L N). lia.
Qed.

(* the stream of a directory: every loadable file exactly once, in sorted name order; never out of fuel *)
Theorem source_stream d : drain (S (List.length d)) d (new_source B d) = Ok (goods d (new_source B d)).
Proof. apply drain_spec. unfold new_source. rewrite (Permutation_length (isort_perm string String.ltb (map fst d))), map_length. lia. Qed.
Theorem source_sorted d : NoDup (map fst d) -> StronglySorted (fun a b => String.ltb a b = true) (new_source B d).
Proof. intros H. unfold new_source. apply (isort_sorted string String.ltb sltb_trans _ H). intros x y _ _. apply sltb_total. Qed.
Theorem source_names d n : In n (new_source B d) <-> In n (map fst d).
Proof. unfold new_source. split; intros H; [apply (Permutation_in _ (isort_perm string String.ltb _)), H|apply (Permutation_in _ (Permutation_sym (isort_perm string String.ltb _))), H]. Qed.
(* once Next has returned nil it keeps returning nil *)
Theorem next_then_ends d names fuel rest : next fuel d names = Ok (None, rest) -> rest = [] /\ forall f, next (S f) d rest = Ok (None, []).
Proof. intros H. assert (rest = []).
  { revert names H. induction fuel as [|f IH]; intros names H; [discriminate|]. cbn [DirSource.next] in H.
    destruct names as [|n r]; [now injection H as <-|]. destruct (load d n); [discriminate|]. eapply IH; eauto. }
  subst. split; [reflexivity|]. intros f. reflexivity. Qed.

(* bad entries are inert: removing every entry that does not load changes nothing *)
Definition good_only (d : dir) : dir := filter (fun kv => is_some (load d (fst kv))) d.
Lemma alookup_filter {A} (p : string * A -> bool) n : forall l, NoDup (map fst l) ->
  alookup n (filter p l) = match alookup n l with Some e => if p (n, e) then Some e else None | None => None end.
Proof.
  induction l as [|[k v] l IH]; intros H; cbn [filter alookup]; [reflexivity|]. inversion H as [|? ? Hk Hl]; subst.
  destruct (String.eqb_spec n k) as [->|N].
  - destruct (p (k, v)) eqn:P; cbn [alookup]; [now rewrite String.eqb_refl|].
    rewrite IH by exact Hl. destruct (alookup k l) as [e|] eqn:L; [|reflexivity].
    exfalso. apply Hk. clear -L. induction l as [|[k2 v2] l IH]; cbn in *; [discriminate|].
    destruct (String.eqb_spec k k2); [now left|right; auto].
  - destruct (p (k, v)); cbn [alookup]; [destruct (String.eqb_spec n k); [congruence|]|]; apply IH; exact Hl.
Qed.
Lemma load_good_only d n : NoDup (map fst d) -> load (good_only d) n = load d n.
Proof.
  intros Hn. unfold good_only, DirSource.load at 1. rewrite alookup_filter by exact Hn. cbn [fst].
  unfold DirSource.load. destruct (alookup n d) as [[b|]|]; [|reflexivity|reflexivity].
  destruct (parse b) eqn:P; cbn [is_some]; [exact P|reflexivity].
Qed.
Definition slt (a b : string) : Prop := String.ltb a b = true.
Lemma slt_irrefl x : ~ slt x x. Proof. unfold slt. rewrite sltb_irrefl. discriminate. Qed.
Lemma filter_sorted (p : string -> bool) l : StronglySorted slt l -> StronglySorted slt (filter p l).
Proof. induction l as [|x l IH]; intros H; cbn; [constructor|]. inversion H; subst. destruct (p x); [|auto].
  constructor; [auto|]. rewrite Forall_forall in *. intros y Hy. apply filter_In in Hy as [Hy _]. auto. Qed.
Lemma map_fst_filter (d : dir) (g : string -> bool) : map fst (filter (fun kv => g (fst kv)) d) = filter g (map fst d).
Proof. induction d as [|[k v] d IH]; cbn; [reflexivity|]. destruct (g k); cbn; now rewrite IH. Qed.
Lemma NoDup_filter {A} (p : A -> bool) l : NoDup l -> NoDup (filter p l).
Proof. induction l as [|x l IH]; intros H; cbn; [constructor|]. inversion H; subst. destruct (p x); [constructor; [rewrite filter_In; tauto|auto]|auto]. Qed.

Theorem good_only_same_stream d : NoDup (map fst d) ->
  goods (good_only d) (new_source B (good_only d)) = goods d (new_source B d).
Proof.
  intros Hn. set (g := fun n => is_some (load d n)).
  assert (E : new_source B (good_only d) = filter g (new_source B d)).
  { apply (sorted_unique string String.ltb slt_irrefl sltb_trans).
    - apply source_sorted. unfold good_only. change (fun kv : string * entry B => is_some (load d (fst kv))) with (fun kv : string * entry B => g (fst kv)).
      rewrite map_fst_filter. now apply NoDup_filter.
    - apply filter_sorted. now apply source_sorted.
    - intros x. rewrite filter_In, !source_names. unfold good_only.
      change (fun kv : string * entry B => is_some (load d (fst kv))) with (fun kv : string * entry B => g (fst kv)).
      rewrite map_fst_filter, filter_In. tauto. }
  rewrite E. generalize (new_source B d). intros names. unfold goods. induction names as [|n names IH]; [reflexivity|].
  cbn [filter]. unfold g at 1. destruct (load d n) as [r|] eqn:L; cbn [is_some flat_map].
  - rewrite load_good_only by exact Hn. rewrite L. cbn [app]. f_equal. exact IH.
  - rewrite L. cbn [app]. exact IH.
Qed.
End P.
