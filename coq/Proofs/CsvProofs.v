(* Proofs/CsvProofs.v — round trip: tokenizing any printing (arbitrary optional quoting) of rectangular rows gives the rows back.
   (DESIGN App. D.1)  Used by C20 (export is parseable) and C01 (presentation independence). *)
From Coq Require Import List Ascii String Arith Lia Bool.
Import ListNotations.
From GV Require Import Model.Csv.
Local Open Scope char_scope.

(* ---------- printer with arbitrary quoting style ---------- *)
Definition special (c : ascii) : bool := Ascii.eqb c NL || Ascii.eqb c DQ || Ascii.eqb c COMMA.
Definition needs_quote (x : cell) : bool := existsb special x.
Fixpoint escape (x : cell) : list ascii :=
  match x with [] => [] | c :: x' => if Ascii.eqb c DQ then DQ :: DQ :: escape x' else c :: escape x' end.
Definition print_cell (q : bool) (x : cell) : list ascii :=
  if q || needs_quote x then DQ :: escape x ++ [DQ] else x.

Section Style.
Variable style : cell -> bool.   (* arbitrary optional-quoting choice *)

(* a raw first cell that is empty in a one-cell row would be an empty line: force quotes there *)
Definition qchoice (single : bool) (x : cell) : bool :=
  style x || (single && match x with [] => true | _ => false end).

Fixpoint print_cells (single : bool) (r : row) : list ascii :=
  match r with
  | [] => []
  | [x] => print_cell (qchoice single x) x
  | x :: r' => print_cell (qchoice single x) x ++ COMMA :: print_cells single r'
  end.
Definition is_single (r : row) : bool := match r with [_] => true | _ => false end.
Definition print_row (r : row) : list ascii := print_cells (is_single r) r ++ [NL].
Definition print_rows (rs : list row) : list ascii := List.concat (map print_row rs).

(* ---------- proof ---------- *)
Lemma eqb_NL_DQ : Ascii.eqb NL DQ = false. Proof. reflexivity. Qed.

Lemma go_escape_quo : forall x n fld rc acc rest,
  go Quo n fld rc acc (escape x ++ rest) = go Quo n (rev x ++ fld) rc acc rest.
Proof.
  induction x as [|c x IH]; intros; cbn [escape app rev]; [reflexivity|].
  destruct (Ascii.eqb c DQ) eqn:E.
  - apply Ascii.eqb_eq in E; subst c. cbn [app go]. rewrite Ascii.eqb_refl. cbv iota.
    rewrite IH. now rewrite <- app_assoc.
  - cbn [app go]. rewrite E. rewrite IH. now rewrite <- app_assoc.
Qed.

Lemma go_raw_unq : forall x n fld rc acc rest,
  needs_quote x = false ->
  go Unq n fld rc acc (x ++ rest) = go Unq n (rev x ++ fld) rc acc rest.
Proof.
  induction x as [|c x IH]; intros n fld rc acc rest H; cbn [app rev]; [reflexivity|].
  cbn [needs_quote existsb] in H. apply orb_false_iff in H as [Hc Hx].
  unfold special in Hc. apply orb_false_iff in Hc as [Hc H3]. apply orb_false_iff in Hc as [H1 H2].
  cbn [go]. rewrite H1, H2, H3. rewrite IH by exact Hx. now rewrite <- app_assoc.
Qed.

Definition no_cr (x : cell) := ~ In CR x.  (* not needed by this automaton; needed by normalise step *)

(* after printing a cell (from FieldStart or RecStart-with-nonempty-line), we are in a state from which
   a following COMMA or NL finishes the field with content x *)
Inductive after_cell (n : option nat) (x : cell) (rc : row) (acc : list row) : (list ascii -> res) -> Prop :=
| AC : forall k, (forall rest, k (COMMA :: rest) = go FieldStart n [] (x :: rc) acc rest) ->
                 (forall rest, k (NL :: rest) =
                    match push_rec n (rev (x :: rc)) acc with
                    | Some (n', acc') => go RecStart n' [] [] acc' rest
                    | None => RErr FieldCount end) ->
                 after_cell n x rc acc k.

Lemma cell_from_fieldstart : forall q x n rc acc,
  exists k, after_cell n x rc acc k /\
    forall rest, go FieldStart n [] rc acc (print_cell q x ++ rest) = k rest.
Proof.
  intros q x n rc acc. unfold print_cell.
  destruct (q || needs_quote x) eqn:Q.
  - exists (fun rest => go QuoQ n (rev x) rc acc rest). split.
    + constructor; intros rest; cbn [go]; rewrite ?eqb_NL_DQ; try reflexivity.
      * replace (Ascii.eqb COMMA DQ) with false by reflexivity. rewrite Ascii.eqb_refl. now rewrite rev_involutive.
      * replace (Ascii.eqb NL COMMA) with false by reflexivity. rewrite Ascii.eqb_refl. now rewrite rev_involutive.
    + intros rest. cbn [app go]. replace (Ascii.eqb DQ NL) with false by reflexivity. rewrite Ascii.eqb_refl.
      rewrite <- app_assoc. rewrite go_escape_quo. cbn [app go]. rewrite Ascii.eqb_refl. now rewrite app_nil_r.
  - apply orb_false_iff in Q as [_ Q].
    destruct x as [|c x].
    + exists (fun rest => go FieldStart n [] rc acc rest). split.
      * constructor; intros rest; cbn [go].
        -- replace (Ascii.eqb COMMA NL) with false by reflexivity. replace (Ascii.eqb COMMA DQ) with false by reflexivity.
           rewrite Ascii.eqb_refl. reflexivity.
        -- rewrite Ascii.eqb_refl. reflexivity.
      * reflexivity.
    + exists (fun rest => go Unq n (rev (c :: x)) rc acc rest). split.
      * constructor; intros rest; cbn [go].
        -- replace (Ascii.eqb COMMA NL) with false by reflexivity. rewrite Ascii.eqb_refl. now rewrite rev_involutive.
        -- rewrite Ascii.eqb_refl. now rewrite rev_involutive.
      * intros rest. pose proof Q as Q'. cbn [needs_quote existsb] in Q. apply orb_false_iff in Q as [Hc Hx].
        unfold special in Hc. apply orb_false_iff in Hc as [Hc H3]. apply orb_false_iff in Hc as [H1 H2].
        cbn [app go]. rewrite H1, H2, H3. rewrite go_raw_unq by exact Hx. reflexivity.
Qed.

(* the rest of a row, starting at FieldStart, with the reversed cells so far in rc *)
Lemma cells_from_fieldstart : forall single r n rc acc rest, r <> [] ->
  go FieldStart n [] rc acc (print_cells single r ++ NL :: rest) =
  match push_rec n (rev rc ++ r) acc with
  | Some (n', acc') => go RecStart n' [] [] acc' rest
  | None => RErr FieldCount end.
Proof.
  induction r as [|x r IH]; intros n rc acc rest Hne; [congruence|].
  destruct r as [|y r].
  - cbn [print_cells]. destruct (cell_from_fieldstart (qchoice single x) x n rc acc) as [k [Hk Hgo]].
    rewrite Hgo. destruct Hk as [k _ HNL]. rewrite HNL. cbn [rev]. reflexivity.
  - change (print_cells single (x :: y :: r)) with (print_cell (qchoice single x) x ++ COMMA :: print_cells single (y :: r)).
    rewrite <- app_assoc. destruct (cell_from_fieldstart (qchoice single x) x n rc acc) as [k [Hk Hgo]].
    rewrite Hgo. destruct Hk as [k HC _]. cbn [app]. rewrite HC. rewrite IH by discriminate.
    cbn [rev]. now rewrite <- app_assoc.
Qed.

(* RecStart behaves like FieldStart on a printed row, because a printed row never starts with NL
   (the only way to print an empty line is a single empty raw cell, which qchoice forbids) *)
Lemma recstart_nonNL : forall c s n acc, Ascii.eqb c NL = false ->
  go RecStart n [] [] acc (c :: s) = go FieldStart n [] [] acc (c :: s).
Proof.
  intros c s n acc H. cbn [go]. rewrite H. destruct (Ascii.eqb c DQ); [reflexivity|].
  destruct (Ascii.eqb c COMMA); reflexivity.
Qed.

Lemma print_cell_head : forall q x tail,
  (exists c s, print_cell q x ++ tail = c :: s /\ Ascii.eqb c NL = false) \/
  (q = false /\ x = [] /\ print_cell q x ++ tail = tail).
Proof.
  intros q x tail. unfold print_cell. destruct (q || needs_quote x) eqn:Q.
  - left. exists DQ, (escape x ++ [DQ] ++ tail). split; [cbn [app]; now rewrite <- app_assoc|reflexivity].
  - apply orb_false_iff in Q as [Q1 Q2]. destruct x as [|c x].
    + right. auto.
    + left. exists c, (x ++ tail). split; [reflexivity|].
      cbn [needs_quote existsb] in Q2. apply orb_false_iff in Q2 as [Hc _]. unfold special in Hc.
      apply orb_false_iff in Hc as [Hc _]. apply orb_false_iff in Hc as [Hc _]. exact Hc.
Qed.

Lemma print_row_head : forall r tail, r <> [] ->
  exists c s, print_cells (is_single r) r ++ tail = c :: s /\ Ascii.eqb c NL = false.
Proof.
  intros r tail Hne. destruct r as [|x [|y r]]; [congruence| |].
  - cbn [print_cells is_single]. destruct (print_cell_head (qchoice true x) x tail) as [H|[Hq [Hx _]]]; [exact H|].
    subst x. unfold qchoice in Hq. cbn in Hq. rewrite orb_true_r in Hq. discriminate.
  - change (print_cells (is_single (x :: y :: r)) (x :: y :: r)) with
      (print_cell (qchoice false x) x ++ COMMA :: print_cells false (y :: r)).
    rewrite <- app_assoc.
    destruct (print_cell_head (qchoice false x) x ((COMMA :: print_cells false (y :: r)) ++ tail)) as [H|[_ [_ E]]]; [exact H|].
    rewrite E. cbn [app]. eexists _, _. split; reflexivity.
Qed.

Lemma recstart_as_fieldstart : forall r n acc rest, r <> [] ->
  go RecStart n [] [] acc (print_cells (is_single r) r ++ NL :: rest) =
  go FieldStart n [] [] acc (print_cells (is_single r) r ++ NL :: rest).
Proof.
  intros r n acc rest Hne. destruct (print_row_head r (NL :: rest) Hne) as [c [s [E H]]].
  rewrite E. apply recstart_nonNL; exact H.
Qed.

Lemma rows_from_recstart : forall rs n acc,
  Forall (fun r => r <> []) rs ->
  go RecStart n [] [] acc (print_rows rs) =
  (fix walk (rs : list row) (n : option nat) (acc : list row) : res :=
     match rs with
     | [] => ROk (rev acc)
     | r :: rs' => match push_rec n r acc with
                   | Some (n', acc') => walk rs' n' acc'
                   | None => RErr FieldCount end
     end) rs n acc.
Proof.
  induction rs as [|r rs IH]; intros n acc H; [reflexivity|].
  inversion H as [|? ? Hr Hrs]; subst.
  unfold print_rows. cbn [map List.concat]. unfold print_row at 1. rewrite <- app_assoc. cbn [app].
  rewrite recstart_as_fieldstart by exact Hr. rewrite cells_from_fieldstart by exact Hr. cbn [rev app].
  destruct (push_rec n r acc) as [[n' acc']|]; [|reflexivity]. apply IH; exact Hrs.
Qed.

Theorem csv_roundtrip : forall rs k,
  Forall (fun r => r <> [] /\ List.length r = k) rs ->
  tokenize (print_rows rs) = ROk rs.
Proof.
  intros rs k H. unfold tokenize. rewrite rows_from_recstart.
  2:{ eapply Forall_impl; [|exact H]. now intros r [? _]. }
  assert (G : forall rs n acc, Forall (fun r => r <> [] /\ List.length r = k) rs -> (n = None \/ n = Some k) ->
     (fix walk (rs : list row) (n : option nat) (acc : list row) : res :=
     match rs with
     | [] => ROk (rev acc)
     | r :: rs' => match push_rec n r acc with
                   | Some (n', acc') => walk rs' n' acc'
                   | None => RErr FieldCount end
     end) rs n acc = ROk (rev acc ++ rs)).
  { clear. induction rs as [|r rs IH]; intros n acc H Hn; [now rewrite app_nil_r|].
    inversion H as [|? ? [Hr Hl] Hrs]; subst. unfold push_rec.
    destruct Hn as [->| ->].
    - rewrite IH by auto. cbn [rev]. now rewrite <- app_assoc.
    - rewrite Nat.eqb_refl. rewrite IH by auto. cbn [rev]. now rewrite <- app_assoc. }
  rewrite G by auto. reflexivity.
Qed.
End Style.

(* CR-free text is a fixed point of readLine's rewrites *)
Lemma normalise_no_cr : forall inp, ~ In CR inp -> normalise inp = inp.
Proof.
  induction inp as [|c inp IH]; intros H; [reflexivity|]. cbn [normalise].
  destruct (Ascii.eqb c CR) eqn:E.
  - apply Ascii.eqb_eq in E. subst c. exfalso. apply H. now left.
  - rewrite IH; [reflexivity|]. intros H'. apply H. now right.
Qed.

(* ---------- presentation: byte-order mark, CRLF line ends, optional final newline ---------- *)
Lemma strip_bom_bom text : strip_bom (B_EF :: B_BB :: B_BF :: text) = text.
Proof. reflexivity. Qed.
Theorem read_all_bom text : read_all (B_EF :: B_BB :: B_BF :: text) = tokenize (normalise text).
Proof. reflexivity. Qed.
(* writing every line end as CR LF changes nothing *)
Definition crlf (text : list ascii) : list ascii := flat_map (fun c => if Ascii.eqb c NL then [CR; NL] else [c]) text.
Theorem normalise_crlf text : ~ In CR text -> normalise (crlf text) = text.
Proof.
  induction text as [|c text IH]; intros H; [reflexivity|]. cbn [crlf flat_map].
  assert (Hc : c <> CR) by (intros ->; apply H; now left). assert (Ht : ~ In CR text) by (intros I; apply H; now right).
  destruct (Ascii.eqb_spec c NL) as [->|N].
  - cbn [app normalise]. rewrite Ascii.eqb_refl. change (Ascii.eqb CR CR) with true. cbv iota.
    change (flat_map _ text) with (crlf text). cbn [normalise]. change (Ascii.eqb NL CR) with false. cbv iota. now rewrite IH.
  - cbn [app normalise]. destruct (Ascii.eqb_spec c CR); [congruence|]. change (flat_map _ text) with (crlf text). now rewrite IH.
Qed.
(* a final newline is optional: the reader treats end of input like a line end *)
Theorem final_newline_optional : forall inp s n fld rc acc, go s n fld rc acc (inp ++ [NL]) = go s n fld rc acc inp.
Proof.
  induction inp as [|c inp IH]; intros s n fld rc acc.
  - cbn [app]. destruct s; cbn [go]; rewrite ?Ascii.eqb_refl; try reflexivity;
      try (destruct (push_rec n (rev (rev fld :: rc)) acc) as [[n' acc']|]; reflexivity).
  - cbn [app]. destruct s; cbn [go];
      repeat match goal with |- context [if ?b then _ else _] => destruct b end;
      try (destruct (push_rec n (rev (rev fld :: rc)) acc) as [[n' acc']|]); try reflexivity; apply IH.
Qed.
Corollary tokenize_final_newline inp : tokenize (inp ++ [NL]) = tokenize inp.
Proof. apply final_newline_optional. Qed.
