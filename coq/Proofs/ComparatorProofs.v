(* Proofs/ComparatorProofs.v — the comparison functions translated from the Go source on every run (Gen/Comparators.v:
   TripID.Less and the callbacks of every sort.Slice) are extensionally the comparisons the model sorts with - WHENEVER the
   translator could translate them (gen_X_note = ""; a comparison written outside the translated fragment of Go, e.g. one
   that delegates to a three-way compare helper, leaves a note instead, and the tie for it is the correspondence run alone).  The proofs
   treat every atomic comparison as an opaque boolean, so they survive rewrites of the Go code that keep the decision
   tree (reordered operands of &&, else-if instead of early return, > instead of <, ...) and break when it changes. *)
From Coq Require Import Sorted.
From GV Require Import Base.Prelude Base.Sort Model.RtTypes Model.RtWire Model.Realtime Model.Static Gen.Comparators
  Proofs.RealtimeProofs Proofs.PurityProofs Proofs.MergeProofs.

Ltac abstract_atoms :=
  repeat match goal with
  | |- context [String.eqb ?x ?y] => rewrite ?(String.eqb_sym y x); let v := fresh "c" in generalize (String.eqb x y); intro v
  | |- context [String.ltb ?x ?y] => let v := fresh "c" in generalize (String.ltb x y); intro v
  | |- context [Z.eqb ?x ?y] => rewrite ?(Z.eqb_sym y x); let v := fresh "c" in generalize (Z.eqb x y); intro v
  | |- context [Z.ltb ?x ?y] => let v := fresh "c" in generalize (Z.ltb x y); intro v
  end.
Ltac untranslated H := exfalso; vm_compute in H; discriminate H.
Ltac decide_tree :=
  repeat (cbn [negb andb orb Bool.eqb]; match goal with |- context [if ?c then _ else _] => is_var c; destruct c end);
  cbn [negb andb orb Bool.eqb]; try reflexivity; repeat match goal with c : bool |- _ => destruct c end; reflexivity.

Lemma gen_trip_less_ok : gen_trip_less_note = "" -> forall a b, gen_trip_less a b = trip_less a b.
Proof.
  intros H a b. first [
    unfold gen_trip_less, trip_less; destruct a as [i r d ht t hd [dt dz] s], b as [i' r' d' ht' t' hd' [dt' dz'] s'];
    cbn [k_id k_route k_dir k_has_time k_time k_has_date k_date k_rel fst]; abstract_atoms; decide_tree
  | untranslated H ].
Qed.
Lemma gen_vehicle_less_ok : gen_vehicle_less_note = "" -> forall a b, gen_vehicle_less a b = vid_less a b.
Proof. intros H a b. first [ unfold gen_vehicle_less, vid_less; abstract_atoms; decide_tree | untranslated H ]. Qed.
Lemma gen_service_less_ok : gen_service_less_note = "" -> forall a b, gen_service_less a b = String.ltb (sv_id a) (sv_id b).
Proof. intros H a b. first [ unfold gen_service_less; abstract_atoms; decide_tree | untranslated H ]. Qed.
Lemma gen_stop_time_less_ok : gen_stop_time_less_note = "" -> forall a b, gen_stop_time_less a b = (st_seq a <? st_seq b).
Proof. intros H a b. first [ unfold gen_stop_time_less; abstract_atoms; decide_tree | untranslated H ]. Qed.
Lemma gen_shape_row_less_ok : gen_shape_row_less_note = "" -> forall a b, gen_shape_row_less a b = (sr_seq a <? sr_seq b).
Proof. intros H a b. first [ unfold gen_shape_row_less; abstract_atoms; decide_tree | untranslated H ]. Qed.
Lemma gen_shape_less_ok : gen_shape_less_note = "" -> forall a b, gen_shape_less a b = String.ltb (sh_id a) (sh_id b).
Proof. intros H a b. first [ unfold gen_shape_less; abstract_atoms; decide_tree | untranslated H ]. Qed.

(* the sortedness theorems restated over the comparison code as the source has it now *)
Theorem trips_sorted_by_source_less cm tz cfg m : gen_trip_less_note = "" ->
  StronglySorted (fun x y => gen_trip_less (tr_key x) (tr_key y) = true) (rt_trips (parse_message cm tz cfg m)).
Proof.
  intros Hn. pose proof (trips_strictly_sorted cm tz cfg m) as H. induction H as [|t l Hs IH Hall]; constructor; [exact IH|].
  rewrite Forall_forall in *. intros y Hy. rewrite (gen_trip_less_ok Hn). now apply Hall.
Qed.
