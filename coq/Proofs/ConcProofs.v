(* Proofs/ConcProofs.v — C18: calls that only read shared memory cannot race and cannot influence one another, under every
   schedule and for any number of calls; the library's entry points are such calls. *)
From GV Require Import Base.Prelude Model.RtTypes Model.RtWire Model.Realtime Model.Static Model.Purity Model.Conc Proofs.PurityProofs.

Section Generic.
Context {R : Type}.
(* p is p0 after some of its reads, all answered from store s *)
Inductive reach (s : store) (p0 : prog R) : prog R -> Prop :=
| reach_refl : reach s p0 p0
| reach_read l k : reach s p0 (Rd l k) -> reach s p0 (k (s l)).
Lemma reach_solo s p0 p : reach s p0 p -> solo s p0 = solo s p.
Proof. induction 1 as [|l k H IH]; [reflexivity|]. rewrite IH. reflexivity. Qed.
Lemma reach_wfree s p0 p : reach s p0 p -> wfree p0 -> wfree p.
Proof. induction 1 as [|l k H IH]; intros W; [exact W|]. apply (IH W). Qed.

Definition inv (s : store) (ps : list (prog R)) (c : config R) : Prop :=
  c_store c = s /\ Forall2 (reach s) ps (c_threads c) /\ Forall (fun a => a_write a = false) (c_log c).

Lemma Forall2_set_nth {A B} (P : A -> B -> Prop) : forall l1 l2 i a y, Forall2 P l1 l2 -> nth_error l1 i = Some a -> P a y -> Forall2 P l1 (set_nth' i y l2).
Proof.
  intros l1 l2 i a y H. revert i. induction H as [|x z l1 l2 Hxz H IH]; intros [|i] E Py; cbn in *; try discriminate.
  - inversion E; subst. constructor; assumption.
  - constructor; [assumption|]. now apply IH.
Qed.
Lemma Forall2_nth {A B} (P : A -> B -> Prop) : forall l1 l2 i y, Forall2 P l1 l2 -> nth_error l2 i = Some y -> exists a, nth_error l1 i = Some a /\ P a y.
Proof.
  intros l1 l2 i y H. revert i. induction H as [|x z l1 l2 Hxz H IH]; intros [|i] E; cbn in *; try discriminate.
  - inversion E; subst. eauto.
  - now apply IH.
Qed.

Lemma step_inv s (ps : list (prog R)) c i : Forall wfree ps -> inv s ps c -> inv s ps (step c i).
Proof.
  intros W (Hs & Hf & Hl). unfold step. destruct (nth_error (c_threads c) i) as [p|] eqn:E; [|repeat split; assumption].
  destruct (Forall2_nth _ _ _ _ _ Hf E) as [p0 [E0 Hr]].
  assert (W0 : wfree p0) by (rewrite Forall_forall in W; apply W; eapply nth_error_In; eauto).
  destruct p as [r|l k|l v k].
  - repeat split; assumption.
  - repeat split; cbn; [exact Hs| |].
    + eapply Forall2_set_nth; eauto. rewrite Hs. now apply reach_read.
    + apply Forall_app; split; [exact Hl|repeat constructor].
  - exfalso. exact (reach_wfree _ _ _ Hr W0).
Qed.
Lemma exec_inv s (ps : list (prog R)) sched : Forall wfree ps -> inv s ps (exec s ps sched).
Proof.
  intros W. unfold exec.
  assert (G : forall sched c, inv s ps c -> inv s ps (fold_left step sched c)).
  { induction sched0 as [|i r IH]; intros c H; cbn [fold_left]; [exact H|]. apply IH, step_inv; assumption. }
  apply G. repeat split; cbn; [|constructor].
  clear. induction ps as [|p ps IH]; constructor; [constructor|exact IH].
Qed.

(* for every schedule: the shared memory is as it was, every call that has returned has returned what it returns when run
   alone, and the execution contains no data race *)
Theorem readonly_sharing s (ps : list (prog R)) sched : Forall wfree ps ->
  let c := exec s ps sched in
  c_store c = s /\
  (forall i p r, nth_error (c_threads c) i = Some p -> result_of p = Some r -> exists p0, nth_error ps i = Some p0 /\ fst (solo s p0) = r) /\
  ~ racy (c_log c).
Proof.
  intros W c. destruct (exec_inv s ps sched W) as (Hs & Hf & Hl). fold c in Hs, Hf, Hl. split; [exact Hs|]. split.
  - intros i p r E Hr. destruct (Forall2_nth _ _ _ _ _ Hf E) as [p0 [E0 Hre]]. exists p0. split; [exact E0|].
    rewrite (reach_solo _ _ _ Hre). destruct p; cbn in Hr; try discriminate. now inversion Hr.
  - intros (a & b & Ha & Hb & Hc). rewrite Forall_forall in Hl. unfold conflict in Hc.
    rewrite (Hl a Ha), (Hl b Hb) in Hc. cbn in Hc. now rewrite Bool.andb_false_r in Hc.
Qed.
(* a call alone leaves the shared memory unchanged *)
Lemma wfree_solo_store s (p : prog R) : wfree p -> snd (solo s p) = s.
Proof. induction p as [r|l k IH|l v k IH]; cbn; intros W; [reflexivity|apply IH; apply W|destruct W]. Qed.
End Generic.

(* ---- the entry points only read ---- *)
Lemma read_all_wfree {R} vars (k : prog R) : wfree k -> wfree (read_all vars k).
Proof. induction vars as [|v r IH]; cbn; intros W; [exact W|]. intros _. now apply IH. Qed.
Theorem parse_realtime_reads_only cm o b : wfree (parse_realtime_prog cm o b).
Proof. cbn. repeat intro. exact I. Qed.
Theorem parse_static_reads_only pf di inherit b : wfree (parse_static_prog pf di inherit b).
Proof. cbn. intros z. exact I. Qed.
Theorem read_result_reads_only {R} (f : val -> R) r : wfree (read_result_prog f r).
Proof. cbn. intros v. exact I. Qed.
Lemma read_all_solo {R} s vars (k : prog R) : solo s (read_all vars k) = solo s k.
Proof. induction vars as [|v r IH]; cbn; [reflexivity|exact IH]. Qed.
(* what a ParseRealtime call computes from the shared memory: the history-free call of C06 on the options and bytes it reads *)
Theorem parse_realtime_solo cm s o b :
  fst (solo s (parse_realtime_prog cm o b)) =
  fst (call cm {| ro_tz := as_tz (s (LTimezone o)); ro_ext := omap new_ext (as_ext (s (LExtSlot o))) |} (as_msg (s (LInput b)))).
Proof. reflexivity. Qed.

Lemma pmap_wfree {A B} (f : A -> B) p : wfree p -> wfree (pmap f p).
Proof. induction p as [r|l k IH|l v k IH]; cbn; intros W; [exact I|intros v; apply IH, W|destruct W]. Qed.
Lemma pmap_solo {A B} (f : A -> B) p : forall s, solo s (pmap f p) = (f (fst (solo s p)), snd (solo s p)).
Proof. induction p as [r|l k IH|l v k IH]; cbn; intros s; [reflexivity|apply IH|apply IH]. Qed.
Theorem entries_read_only cm pf di e : wfree (prog_of cm pf di e).
Proof. destruct e; cbn [prog_of]; apply pmap_wfree; [apply parse_realtime_reads_only|apply parse_static_reads_only|apply read_result_reads_only]. Qed.
Theorem entry_alone cm pf di s e : fst (solo s (prog_of cm pf di e)) = alone cm pf di s e.
Proof. destruct e; cbn [prog_of]; rewrite pmap_solo; reflexivity. Qed.
(* any number of ParseRealtime / ParseStatic calls and result readers, on any inputs and options values (shared or not),
   under any schedule *)
Theorem concurrent_entries cm pf di s es sched :
  let c := exec s (map (prog_of cm pf di) es) sched in
  c_store c = s /\
  (forall i p r, nth_error (c_threads c) i = Some p -> result_of p = Some r -> exists e, nth_error es i = Some e /\ r = alone cm pf di s e) /\
  ~ racy (c_log c).
Proof.
  intros c. assert (W : Forall wfree (map (prog_of cm pf di) es)).
  { apply Forall_forall. intros p Hp. apply in_map_iff in Hp as [e [<- _]]. apply entries_read_only. }
  destruct (readonly_sharing s _ sched W) as (H1 & H2 & H3). fold c in H1, H2, H3. split; [exact H1|]. split; [|exact H3].
  intros i p r E Hr. destruct (H2 i p r E Hr) as [p0 [E0 Hs]]. rewrite nth_error_map in E0.
  destruct (nth_error es i) as [e|]; [|discriminate]. exists e. split; [reflexivity|]. cbn in E0. inversion E0 as [E1]. rewrite <- Hs, <- E1. apply entry_alone.
Qed.
