(* Properties/C20.v — C20: CSV export is a complete, parseable rendering of the journal.
   Model/Export.v = the two text/templates' output (tied by the "export" engine: byte-for-byte equality with the real
   ExportToCsv on every generated journal); read_all_s = Model/Csv.v, the model of the standard CSV reader.
   clean_trip: uid, trip id, route id, vehicle id, stop ids and tracks contain no comma, double quote, CR or LF. *)
From GV Require Import Base.Prelude Base.Dec Model.Csv Model.Journal Model.Export Proofs.ExportProofs Gen.Footprint.

(* read back with a standard CSV reader, the trips table is the header plus exactly one row per journal trip, in order *)
Theorem C20_trips_read_back : forall j, Forall clean_trip j ->
  read_all_s (export_trips j) = Some (header_trips :: map trip_cells j).
Proof. exact export_trips_reads_back. Qed.
Print Assumptions C20_trips_read_back.

(* ... and the stop-times table is the header plus one row per journal stop time, in journal order, keyed by its trip's UID *)
Theorem C20_stop_times_read_back : forall j, Forall clean_trip j ->
  read_all_s (export_stop_times j) = Some (header_stops :: flat_map (fun t => map (stop_cells (jt_uid t)) (jt_stops t)) j).
Proof. exact export_stop_times_reads_back. Qed.
Print Assumptions C20_stop_times_read_back.

(* row counts, as the property words them: one row per journal trip, one per journal stop time (plus the header) *)
Theorem C20_row_counts : forall j,
  List.length (header_trips :: map trip_cells j) = S (List.length j) /\
  List.length (header_stops :: stop_rows j) = S (list_sum (map (fun t => List.length (jt_stops t)) j)).
Proof. intros j. split; [exact (trips_table_length j)|exact (stops_table_length j)]. Qed.
Print Assumptions C20_row_counts.
(* "each stop-time row keyed by its trip's UID": the rows read back can be joined to their trips - selecting the rows whose
   first cell is the UID of a journal trip gives exactly that trip's stop times, in journal order, for every journal whose
   UIDs are pairwise distinct (C15_sorted_nodup: every journal BuildJournal returns) *)
Theorem C20_rows_join_by_uid : forall j, NoDup (map jt_uid j) -> forall t, In t j ->
  filter (key_is (jt_uid t)) (stop_rows j) = map (stop_cells (jt_uid t)) (jt_stops t).
Proof. exact stop_rows_join. Qed.
Print Assumptions C20_rows_join_by_uid.

(* ... in particular for every journal BuildJournal can return: any history of feeds, any window *)
Theorem C20_built_journal_rows_join : forall feeds a b t, In t (build_journal feeds a b) ->
  filter (key_is (jt_uid t)) (stop_rows (build_journal feeds a b)) = map (stop_cells (jt_uid t)) (jt_stops t).
Proof. exact journal_export_join. Qed.
Print Assumptions C20_built_journal_rows_join.

(* the values: every integer cell (Unix seconds, counters) reads back as the number; absent optionals are empty cells;
   direction is 0 / 1 / blank; strings are verbatim by definition of trip_cells / stop_cells *)
Theorem C20_integers_read_back : forall z, read_Z (show_Z z) = z.
Proof. exact read_show_Z. Qed.
Print Assumptions C20_integers_read_back.
Theorem C20_cells : forall t s uid,
  trip_cells t = [jt_uid t; jt_id t; jt_route t; dir_s (jt_dir t); show_Zs (jt_start t); jt_vehicle t; show_Zs (jt_last t);
                  ounix (jt_marked t); show_Zs (jt_nupd t); show_Zs (jt_nchg t); show_Zs (jt_nrew t)] /\
  stop_cells uid s = [uid; js_stop s; ostr (js_track s); ounix (js_arr s); ounix (js_dep s); show_Zs (js_last s); ounix (js_marked s)] /\
  dir_s 2 = "0" /\ dir_s 1 = "1" /\ dir_s 0 = "" /\ ounix None = "" /\ ostr None = "".
Proof. intros. repeat split. Qed.
Print Assumptions C20_cells.

Definition ex_journal : list j_trip :=
  [{| jt_uid := "1699978680_L..N"; jt_id := "067800_L..N"; jt_route := "L"; jt_dir := 2; jt_start := 1699978680; jt_vehicle := "0L 1118";
      jt_assigned := true; jt_last := 1699979000; jt_marked := None; jt_nupd := 12; jt_nchg := 0; jt_nrew := -1;
      jt_stops := [{| js_stop := "L03N"; js_arr := Some 1699979100; js_dep := None; js_track := Some "1"; js_last := 1699979000; js_marked := None |};
                   {| js_stop := "L05N"; js_arr := None; js_dep := None; js_track := None; js_last := 1699978900; js_marked := Some 1699979000 |}] |}].
Example C20_example_clean : Forall clean_trip ex_journal.
Proof. repeat constructor; cbn; intuition discriminate. Qed.
Example C20_example_bytes : export_stop_times ex_journal =
  String.concat (String "010" "") ["trip_uid,stop_id,track,arrival_time,departure_time,last_observed,marked_past";
     "1699978680_L..N,L03N,1,1699979100,,1699979000,"; "1699978680_L..N,L05N,,,,1699978900,1699979000"; ""].
Proof. vm_compute. reflexivity. Qed.

(* tie to the source: the two templates Model/Export.v renders, verbatim as they stand in journal/ now *)
Example C20_template_sources : template_sources = [
  ("journal/trips.csv.tmpl", "trip_uid,trip_id,route_id,direction_id,start_time,vehicle_id,last_observed,marked_past,num_updates,num_schedule_changes,num_schedule_rewrites
{{ range . -}}
{{ .TripUID }},{{ .TripID }},{{ .RouteID }},{{ FormatDirectionID .DirectionID }},{{ .StartTime.Unix }},{{ .VehicleID }},{{ .LastObserved.Unix }},{{ NullableUnix .MarkedPast }},{{ .NumUpdates }},{{ .NumScheduleChanges }},{{ .NumScheduleRewrites }}
{{ end -}}
");
  ("journal/stop_times.csv.tmpl", "trip_uid,stop_id,track,arrival_time,departure_time,last_observed,marked_past
{{ range $trip := . -}}
{{- range .StopTimes -}}
{{- $trip.TripUID }},{{ .StopID }},{{ NullableString .Track }},{{ NullableUnix .ArrivalTime }},{{ NullableUnix .DepartureTime }},{{ .LastObserved.Unix }},{{ NullableUnix .MarkedPast }}
{{ end -}}
{{ end -}}
")
].
Proof. reflexivity. Qed.
