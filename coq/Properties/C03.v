(* Properties/C03.v — C03: the static result is referentially closed and the stop hierarchy is a forest.
   References are indices into the result's own collections (DESIGN 4.2); that the real pointers ARE elements of those
   collections is checked by address on every run (a pointer to a copy would project to "foreign" and break the correspondence). *)
From GV Require Import Base.Prelude Model.Realtime Model.Static Proofs.StaticProofs Proofs.ClosureProofs.

(* the whole result, for ANY tables whatsoever (any provider of opened files, any rows - malformed, dangling, duplicated -,
   any number and date oracles): every reference the result holds is an index into the result's own collection:
   route -> agencies, stop -> stops (parent), transfer -> stops (both ends), trip -> routes / services / shapes,
   stop time -> stops.  (That the real pointers ARE those elements is checked by address on every run.) *)
Theorem C03_result_closed : forall pf di inherit tbl r, parse_tables pf di inherit tbl = Ok r -> closed r.
Proof. exact result_closed. Qed.
Print Assumptions C03_result_closed.
Corollary C03_parse_static_closed : forall pf di inherit ms r, parse_static pf di inherit ms = Ok r -> closed r.
Proof. intros pf di inherit ms r H. exact (result_closed pf di inherit _ r H). Qed.
Print Assumptions C03_parse_static_closed.
(* the forest, for EVERY stops.txt whatsoever (self parents, mutual parents, long cycles, duplicates): after linking,
   walking from any stop to its root terminates within length+1 steps, and no stop is its own ancestor *)
Theorem C03_root_terminates : forall sp i, (i < List.length sp)%nat ->
  exists r, root_fuel (S (List.length sp)) (link_parents sp) i = Some r.
Proof. exact root_terminates_after_link. Qed.
Print Assumptions C03_root_terminates.
Theorem C03_forest : forall sp i k, (i < List.length sp)%nat -> anc (S k) (map s_parent (link_parents sp)) i <> Some i.
Proof. exact no_stop_is_its_own_ancestor. Qed.
Print Assumptions C03_forest.
(* the repair pass changes nothing on an acyclic hierarchy *)
Theorem C03_forest_untouched : forall g, (forall i, (i < List.length g)%nat -> term (S (List.length g)) g i) -> repair g = g.
Proof. exact repair_id_on_forest. Qed.
Print Assumptions C03_forest_untouched.
(* references: a produced entity is bound to the element whose id the referring row names; required references exist *)
Theorem C03_route_agency : forall ags v r, route_row ags v = Some r ->
  exists a, nth_error ags (r_agency r) = Some a /\ (optional v "agency_id" = "" /\ ags = [a] \/ optional v "agency_id" <> "" /\ ag_id a = optional v "agency_id").
Proof. exact route_ref_sound. Qed.
Print Assumptions C03_route_agency.
Theorem C03_transfer_stops : forall stops v t, transfer_row stops v = Some t ->
  exists a b, nth_error stops (t_from t) = Some a /\ nth_error stops (t_to t) = Some b /\
    s_id a = fst (required v "from_stop_id") /\ s_id b = fst (required v "to_stop_id") /\ s_id a <> s_id b.
Proof. exact transfer_ref_sound. Qed.
Print Assumptions C03_transfer_stops.
Theorem C03_trip_refs : forall routes services shapes v t, trip_row routes services shapes v = Some t ->
  exists r s, nth_error routes (tp_route t) = Some r /\ nth_error services (tp_service t) = Some s /\
    r_id r = fst (required v "route_id") /\ sv_id s = fst (required v "service_id") /\
    match tp_shape t with Some k => exists sh, nth_error shapes k = Some sh /\ sh_id sh = optional v "shape_id" | None => True end.
Proof. exact trip_ref_sound. Qed.
Print Assumptions C03_trip_refs.
(* a parent / stop-time / frequency reference is found by id among the result's own elements (last one with that id) *)
Theorem C03_lookup_by_id : forall (A : Type) (p : A -> bool) l j, find_last_index p l 0 None = Some j ->
  (j < List.length l)%nat /\ exists x, nth_error l j = Some x /\ p x = true.
Proof. exact @find_last_index_spec. Qed.
Print Assumptions C03_lookup_by_id.
Example C03_example_cycle :
  let mk id := {| s_id := id; s_code := ""; s_name := ""; s_desc := ""; s_zone := ""; s_lon := None; s_lat := None; s_url := ""; s_type := 0; s_parent := None; s_timezone := ""; s_wheelchair := 0; s_platform := "" |} in
  map s_parent (link_parents [(mk "S1", "S2"); (mk "S2", "S1"); (mk "S3", "S1")]) = [None; Some 0%nat; Some 0%nat].
Proof. vm_compute. reflexivity. Qed.
