(* Properties/C15.v — C15: the journal holds one correctly accounted entry per assigned trip in the window.
   Model: Model/Journal.v (journal/journal.go, tied by the "journal" engine on every prefix of random histories x windows). *)
From GV Require Import Base.Prelude Base.Dec Model.Journal Proofs.JournalProofs Proofs.HistoryProofs.
From Coq Require Import Sorted.

(* the output is sorted by UID in the strict bytewise order: sorted and without duplicates *)
Theorem C15_sorted_nodup : forall feeds a b,
  StronglySorted slt (map jt_uid (build_journal feeds a b)).
Proof. intros. apply journal_sorted, history_ok. Qed.
Print Assumptions C15_sorted_nodup.

(* exactly the recorded trips whose start lies in [a,b] (bounds inclusive, given in nanoseconds: any instants, not only
   whole seconds) and that were seen with a vehicle *)
Theorem C15_selection : forall feeds a b tr,
  In tr (build_journal feeds a b) <->
  In (jt_uid tr, tr) (st_trips (fold_left apply_feed feeds jinit)) /\ (a <= ns (jt_start tr) <= b) /\ jt_assigned tr = true.
Proof.
  intros. unfold build_journal. rewrite journal_selection by apply history_ok. unfold selected.
  rewrite !andb_true_iff, !negb_true_iff, !Z.ltb_ge. tauto.
Qed.
Print Assumptions C15_selection.

(* one entry per UID, accounted independently of all other trips: the entry of a UID after any history is a fold over
   the feeds that looks only at that UID's own updates (step_uid: apply them in feed order to the entry - a fresh one with
   counters -1 when absent -, then mark it past iff the UID occurred in the previous feed and not in this one).
   This also shows that the order in which Go ranges over activeTrips is unobservable. *)
Theorem C15_per_uid : forall uid feeds,
  alookup uid (st_trips (fold_left apply_feed feeds jinit)) = fst (fold_left (step_uid uid) feeds (None, false)).
Proof. intros. pose proof (history_uid uid feeds jinit) as H. cbv zeta in H. cbn [jinit st_trips st_active alookup mem existsb] in H. now rewrite <- H. Qed.
Print Assumptions C15_per_uid.

(* bookkeeping of one update: identifier fields and vehicle id of the update, the feed's time, mark cleared *)
Theorem C15_update_fields : forall tr u t, ignored tr u = false ->
  let tr' := trip_update tr u t in
  jt_uid tr' = uid_of u /\ jt_id tr' = ut_id u /\ jt_route tr' = ut_route u /\ jt_dir tr' = ut_dir u /\ jt_start tr' = start_of u /\
  jt_vehicle tr' = match ut_vehicle u with Some (Some id) => id | _ => "" end /\
  jt_assigned tr' = (jt_assigned tr || is_some (ut_vehicle u)) /\ jt_last tr' = t /\ jt_marked tr' = None.
Proof. exact update_fields. Qed.
Print Assumptions C15_update_fields.
Theorem C15_update_count : forall tr u t, jt_nupd (trip_update tr u t) = jt_nupd tr + (if ignored tr u then 0 else 1).
Proof. exact update_count. Qed.
Print Assumptions C15_update_count.
(* once a trip has been seen with a vehicle, updates that lack one do not alter its recorded data *)
Theorem C15_unassigned_ignored : forall tr u t, jt_assigned tr = true -> ut_vehicle u = None -> trip_update tr u t = tr.
Proof. exact unassigned_update_ignored. Qed.
Print Assumptions C15_unassigned_ignored.
(* marking a trip past keeps the first mark, marks all stops, changes nothing else that is accounted *)
Theorem C15_mark_past : forall tr t,
  let tr' := trip_mark_past t tr in
  jt_marked tr' = (match jt_marked tr with Some m => Some m | None => Some t end) /\ Forall is_marked (jt_stops tr') /\
  jt_uid tr' = jt_uid tr /\ jt_nupd tr' = jt_nupd tr /\ jt_last tr' = jt_last tr /\ jt_assigned tr' = jt_assigned tr /\ jt_start tr' = jt_start tr.
Proof. exact mark_past_fields. Qed.
Print Assumptions C15_mark_past.

(* ---- accounting over whole histories, from the events of the UID alone (HistoryProofs.events: its applied updates and the
   feeds from which it vanished): the number of applied updates, the time of the last one, and the marked-past time - the time
   of the first feed after the last applied update from which the trip was missing, none if there is no such feed ---- *)
Theorem C15_accounting_from_events : forall uid feeds tr,
  alookup uid (st_trips (fold_left apply_feed feeds jinit)) = Some tr -> (jt_nupd tr, jt_last tr, jt_marked tr) = acct (events uid feeds).
Proof. exact journal_accounting. Qed.
Print Assumptions C15_accounting_from_events.
Theorem C15_accounting_spec : forall pre us t post, Forall is_vanish post ->
  acct (pre ++ EvUpdate us t :: post) = (n_updates (pre ++ EvUpdate us t :: post), t, match post with [] => None | v :: _ => Some (ev_time v) end).
Proof. exact acct_spec. Qed.
Print Assumptions C15_accounting_spec.

(* the UID determines (start instant, id suffix) for NYCT-style ids (start >= 1970, suffix not starting with a digit) ... *)
Theorem C15_uid_injective_partial : forall u1 u2, nyct_like u1 -> nyct_like u2 -> uid_of u1 = uid_of u2 ->
  start_of u1 = start_of u2 /\ sdrop 6 (ut_id u1) = sdrop 6 (ut_id u2).
Proof. exact uid_injective_nyct. Qed.
Print Assumptions C15_uid_injective_partial.
(* ... the full statement "one entry per distinct (start instant, trip-id suffix)" is FALSE of the faithful model and of the
   code (known finding K1): two trips with different (start, suffix) share a UID and collapse into one journal entry *)
Theorem C15_uid_injective_refuted :
  uid_of k1_a = uid_of k1_b /\ (start_of k1_a, sdrop 6 (ut_id k1_a)) <> (start_of k1_b, sdrop 6 (ut_id k1_b)) /\
  List.length (build_journal [{| jf_created := 1000; jf_trips := [k1_a; k1_b] |}] (ns (-1000000)) (ns 1000000)) = 1%nat.
Proof. exact uid_collision_refuted. Qed.
Print Assumptions C15_uid_injective_refuted.
Example C15_nyct_like_example : nyct_like {| ut_id := "067800_L..N"; ut_route := "L"; ut_dir := 2; ut_date := 1699938000; ut_time := 40680000000000; ut_vehicle := None; ut_stops := [] |}.
Proof. exact nyct_like_example. Qed.
