(* Properties/C07.v — C07: realtime entities merge order-independently into unique, sorted trips/vehicles.
   Proved here: the merge discipline of tripsById over ANY sequence of mentions (an in-message mention replaces, a bare one only
   creates or keeps), hence own-entity-wins wherever the entity sits, and bare entries for trips that are only referenced.
   and, for EVERY message and extension configuration, strict sortedness of the result's trips by TripID.Less (hence unique
   identifiers) and of its id-bearing vehicles by the id comparator, id-less vehicles last.  Order independence of the final
   lists under permutation of the entities is decided on the real results by the rt_merge engine (every message parsed in 5
   entity orders) together with C06_realtime_order_free (no dependence on map iteration). *)
From Coq Require Import Sorted.
From GV Require Import Base.Prelude Model.RtTypes Model.RtWire Model.Realtime Proofs.RealtimeProofs Proofs.MergeProofs Gen.Comparators Proofs.ComparatorProofs.

Theorem C07_merge_characterised : forall k ms trips,
  glookup tk_eqb k (fold_left merge_trip ms trips) = final_trip k ms (glookup tk_eqb k trips).
Proof. exact fold_merge_trip. Qed.
Print Assumptions C07_merge_characterised.
(* own entity wins: if all in-message mentions of k carry the same data t (conflict-freeness) and t occurs anywhere
   in the sequence - before or after any number of bare mentions from vehicle positions, trip updates or alerts - the entry is t *)
Theorem C07_own_entity_wins : forall k t, tr_key t = k -> tr_in_msg t = true -> forall ms,
  (forall m, In m ms -> tr_key m = k -> tr_in_msg m = true -> m = t) -> In t ms ->
  glookup tk_eqb k (fold_left merge_trip ms []) = Some t.
Proof. intros k t Hk Hi ms Hcf Hin. rewrite fold_merge_trip. apply own_entity_wins; auto. exact I. Qed.
Print Assumptions C07_own_entity_wins.
(* a trip that is merely referenced gets a bare entry: not in message, no stop time updates *)
Theorem C07_bare_only : forall k ms, (forall m, In m ms -> tr_key m = k -> tr_in_msg m = false) ->
  match glookup tk_eqb k (fold_left merge_trip ms []) with Some t => tr_in_msg t = false /\ tr_stus t = [] | None => True end.
Proof. intros k ms H. rewrite fold_merge_trip. apply bare_only; [exact H|exact I]. Qed.
Print Assumptions C07_bare_only.
(* no two entries with the same identifier: the accumulator is keyed *)
Theorem C07_keys_unique : forall ms, NoDup (map fst (fold_left merge_trip ms [])).
Proof.
  assert (G : forall ms trips, NoDup (map fst trips) -> NoDup (map fst (fold_left merge_trip ms trips))).
  { induction ms as [|m r IH]; intros trips H; cbn [fold_left]; [exact H|]. apply IH. unfold merge_trip.
    rewrite (gset_keys tk_eqb tk_eqb_spec). destruct (existsb _ _) eqn:E; [exact H|].
    clear IH. induction (map fst trips) as [|x l IHl]; cbn; [constructor; [tauto|constructor]|].
    inversion H; subst. cbn in E. apply Bool.orb_false_iff in E as [E1 E2]. constructor; [|auto].
    rewrite in_app_iff. cbn. intros [?|[?|[]]]; [tauto|]. subst. destruct (tk_eqb_spec (tr_key m) (tr_key m)); congruence. }
  intros. apply G. constructor.
Qed.
Print Assumptions C07_keys_unique.
(* for every message: the trips come out strictly sorted by TripID.Less, so no two carry the same identifier *)
Theorem C07_trips_strictly_sorted : forall cm tz cfg m,
  StronglySorted (fun x y => trip_less (tr_key x) (tr_key y) = true) (rt_trips (parse_message cm tz cfg m)).
Proof. exact trips_strictly_sorted. Qed.
Print Assumptions C07_trips_strictly_sorted.
Theorem C07_trip_ids_unique : forall cm tz cfg m, NoDup (map tr_key (rt_trips (parse_message cm tz cfg m))).
Proof. exact trip_ids_unique. Qed.
Print Assumptions C07_trip_ids_unique.
(* the vehicles: id-bearing ones strictly sorted by (id, label, licence plate), then the id-less ones *)
Theorem C07_vehicles_sorted : forall cm tz cfg m, exists withid idless : list rt_vehicle,
  rt_vehicles (parse_message cm tz cfg m) = (withid ++ idless)%list /\
  StronglySorted (fun x y => vcmp x y = true) withid /\ Forall (fun v => ve_id v <> None) withid /\ Forall (fun v => ve_id v = None) idless.
Proof. exact vehicles_sorted_then_idless. Qed.
Print Assumptions C07_vehicles_sorted.
(* ---- tie to the source: TripID.Less and the callback of sort.Slice(result.Vehicles, ...) are TRANSLATED from realtime.go on
   every run (Gen/Comparators.v); they are the comparisons the model sorts with, and the trips are sorted by that very code. (gen_X_note = "" says that the
   translator could translate the comparison; on the current source it can - C07_comparators_translated below - and when a rewrite
   takes the code outside the translated fragment the note is non-empty and the tie for that comparison is the correspondence run.) ---- *)
Theorem C07_comparators_from_source :
  (gen_trip_less_note = "" -> forall a b, gen_trip_less a b = trip_less a b) /\ (gen_vehicle_less_note = "" -> forall a b, gen_vehicle_less a b = vid_less a b).
Proof. exact (conj gen_trip_less_ok gen_vehicle_less_ok). Qed.
Print Assumptions C07_comparators_from_source.
Theorem C07_sorted_by_source_less : forall cm tz cfg m, gen_trip_less_note = "" ->
  StronglySorted (fun x y => gen_trip_less (tr_key x) (tr_key y) = true) (rt_trips (parse_message cm tz cfg m)).
Proof. exact trips_sorted_by_source_less. Qed.
Print Assumptions C07_sorted_by_source_less.
Example C07_example :
  let k := {| k_id := "t1"; k_route := ""; k_dir := 0; k_has_time := false; k_time := 0; k_has_date := false; k_date := zero_instant; k_rel := 0 |} in
  let own := {| tr_key := k; tr_stus := [{| su_seq := Some 1; su_stop := Some "A"; su_arr := None; su_dep := None; su_track := None; su_rel := 0 |}]; tr_vehicle := None; tr_in_msg := true |} in
  glookup tk_eqb k (fold_left merge_trip [bare_trip k; own; bare_trip k] []) = Some own.
Proof. vm_compute. reflexivity. Qed.
