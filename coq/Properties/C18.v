(* Properties/C18.v — C18: concurrent parsing is race-free and equals sequential parsing.  (PARTIAL: see the note at the end.)
   What is proved: in the model of Model/Conc.v — calls as trees of accesses to the memory that more than one call can
   reach, executions as arbitrary interleavings — any number of ParseRealtime / ParseStatic calls and result readers, on the
   same or different inputs, sharing options values or not, under EVERY schedule: leave the shared memory as it was, each
   return what they return when run alone, and never perform two conflicting accesses.  The same statements are refuted for
   the calls as they were before the repairs S12 and S13.
   What is not provable here: that the compiled Go code performs exactly the shared accesses the programs list.  That tie is
   (a) the footprint extracted from the current source (Gen/Footprint.v): every assignment that can reach caller-visible
   memory and every package-level variable, compared below with the list the model accounts for; and (b) the race-detector
   runs of the 'conc' engine (a `go build -race` harness running the real entry points from many goroutines on shared
   buffers and one shared options / extension value, comparing every result with its solo result). *)
From GV Require Import Base.Prelude Model.RtTypes Model.RtWire Model.Realtime Model.Static Model.Purity Model.Conc Proofs.ConcProofs Gen.Footprint.

Theorem C18_readonly_sharing : forall (R : Type) s (ps : list (prog R)) sched, Forall wfree ps ->
  let c := exec s ps sched in
  c_store c = s /\
  (forall i p r, nth_error (c_threads c) i = Some p -> result_of p = Some r -> exists p0, nth_error ps i = Some p0 /\ fst (solo s p0) = r) /\
  ~ racy (c_log c).
Proof. exact @readonly_sharing. Qed.
Print Assumptions C18_readonly_sharing.
Theorem C18_entry_points_read_only : forall cm pf di e, wfree (prog_of cm pf di e).
Proof. exact entries_read_only. Qed.
Print Assumptions C18_entry_points_read_only.
Theorem C18_concurrent_equals_sequential : forall cm pf di s es sched,
  let c := exec s (map (prog_of cm pf di) es) sched in
  c_store c = s /\
  (forall i p r, nth_error (c_threads c) i = Some p -> result_of p = Some r -> exists e, nth_error es i = Some e /\ r = alone cm pf di s e) /\
  ~ racy (c_log c).
Proof. exact concurrent_entries. Qed.
Print Assumptions C18_concurrent_equals_sequential.
(* the solo answer of a ParseRealtime call is C06's history-free call on the options and bytes it reads *)
Theorem C18_solo_is_the_pure_call : forall cm s o b,
  fst (solo s (parse_realtime_prog cm o b)) =
  fst (call cm {| ro_tz := as_tz (s (LTimezone o)); ro_ext := omap new_ext (as_ext (s (LExtSlot o))) |} (as_msg (s (LInput b)))).
Proof. exact parse_realtime_solo. Qed.
Print Assumptions C18_solo_is_the_pure_call.

(* ---- non-vacuity and refutations ---- *)
Definition elevator_alert : walert :=
  {| wa_periods := []; wa_informed := []; wa_cause := None; wa_effect := None; wa_url := []; wa_header := []; wa_desc := []; wa_metadata := None |}.
Definition elevator_msg : feed_message :=
  {| fm_ts := Some 1700000000; fm_entities := [{| e_id := "A27N#EL123"; e_tu := None; e_vp := None; e_alert := Some elevator_alert |}] |}.
Definition mem (ext : option ext_cfg) : store := fun l =>
  match l with LExtSlot _ => VExt ext | LTimezone _ => VTz None | LElevMap _ => VElev [] | LInput _ => VMsg (Some elevator_msg) | LPackage _ => VConst | LResult _ => VConst end.
Definition cm0 : Z -> Z -> Z -> Z := fun _ _ _ => 0.
Definition n_alerts (o : option (outcome realtime)) : nat := match o with Some (Ok r) => List.length (rt_alerts r) | _ => 0%nat end.
Definition round_robin (n : nat) : list nat := flat_map (fun _ => [0%nat; 1%nat]) (seq 0 n).
(* two repaired calls sharing one options value with a nyctalerts extension and one input buffer, interleaved step by step:
   both finish, both see the alert *)
Example C18_example_two_calls :
  let c := exec (mem (Some (NyctAlerts 0 false false false))) [parse_realtime_prog cm0 0 0; parse_realtime_prog cm0 0 0] (round_robin 12) in
  map (fun p => n_alerts (result_of p)) (c_threads c) = [1%nat; 1%nat] /\ existsb a_write (c_log c) = false.
Proof. vm_compute. split; reflexivity. Qed.
(* S12: two unrepaired calls with a nil Extension slot both write it *)
Example C18_unrepaired_races_on_options :
  let c := exec (mem None) [parse_realtime_unrepaired cm0 0 0; parse_realtime_unrepaired cm0 0 0] (round_robin 12) in
  existsb (fun a => existsb (conflict a) (c_log c)) (c_log c) = true.
Proof. vm_compute. reflexivity. Qed.
(* S13: two unrepaired calls sharing a nyctalerts extension race on its map, and under this schedule one of them
   loses the alert it would have returned alone *)
Example C18_unrepaired_differs_from_sequential :
  let s := mem (Some (NyctAlerts 0 false false false)) in
  let c := exec s [parse_realtime_unrepaired cm0 0 0; parse_realtime_unrepaired cm0 0 0] (seq 0 0 ++ [0;0;0;0;0;0;0;0;1;1;1;1;1;1;1;1]%nat) in
  map (fun p => n_alerts (result_of p)) (c_threads c) = [1%nat; 0%nat] /\
  n_alerts (Some (fst (solo s (parse_realtime_unrepaired cm0 0 0)))) = 1%nat /\
  existsb (fun a => existsb (conflict a) (c_log c)) (c_log c) = true.
Proof. vm_compute. repeat split; reflexivity. Qed.

(* ---- tie to the source (regenerated on every run) ---- *)
(* the writes whose target outlives the call: rooted in a package-level variable, in an options value, in an input byte slice,
   or in the receiver of an extension method (function names left out: extracting a helper is not a change).  The only one is
   the elevator map of the PER-MESSAGE extension value (ForMessage), which no other call can reach.  The complete list of
   assignments through receivers / pointer, map and slice parameters (all of them into objects the call itself created) is
   in Gen/Footprint.v [shared_writes] for the reader; it is not pinned, because routine refactoring changes it. *)
(* every entry the translator extracts from the CURRENT source is one of the accounted ones (an entry that disappears - a variable
   turned into a function, a loop rewritten - needs no new account; a new entry breaks this) *)
Example C18_critical_writes_accounted : let accounted : list (string * string) := [("extensions/nyctalerts/nyctalerts.go", "e.elevatorAlerts[newID]")] in
  forallb (fun x => existsb (fun y => String.eqb (fst x) (fst y) && String.eqb (snd x) (snd y)) accounted) (critical_writes) = true.
Proof. vm_compute. reflexivity. Qed.
(* the package-level variables: exactly the read-only regexps, tables and templates the programs read *)
(* every entry the translator extracts from the CURRENT source is one of the accounted ones (an entry that disappears - a variable
   turned into a function, a loop rewritten - needs no new account; a new entry breaks this) *)
Example C18_package_vars_accounted : let accounted : list string := [
  "elevatorAlertIDRegex"; "priortyToEffect"; "timetabledNoServicePriorities"; "TripIDRegex";
  "funcMap"; "stopTimesCsv"; "stopTimesCsvTmpl"; "tripsCsv"; "tripsCsvTmpl"; "startDateRegex"; "startTimeRegex"] in
  forallb (fun x => existsb (String.eqb x) accounted) (map snd package_vars) = true.
Proof. vm_compute. reflexivity. Qed.
