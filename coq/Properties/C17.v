(* Properties/C17.v — C17: NYCT alerts extension groups elevator alerts and maps Mercury data as documented.
   Model: the NyctAlerts part of Model/Realtime.v (extensions/nyctalerts), priority tables regenerated from the source
   (Gen/NyctTables.v); tied by the rt_nyctalerts engine for all 3 x 2 x 2 x 2 configurations and two entity orders.
   The grouping statement over whole feeds ("exactly one output alert per group, informed stops = the distinct ids of the
   members") is decided on the real results by the engine's specification oracle; proved here: the step that keeps the
   informed stops duplicate-free and order-insensitive as a set, the skip rule, the effect rule, the id matcher on examples. *)
From GV Require Import Base.Prelude Model.RtTypes Model.RtWire Model.Realtime Proofs.RealtimeProofs Gen.NyctTables Proofs.ElevatorProofs Proofs.TransparencyProofs Gen.Footprint.

(* adding a member's platform / station id through the duplicate check: no duplicates, and the set grows by exactly that id *)
Theorem C17_add_stop : forall s l, NoDup (stops_of l) ->
  NoDup (stops_of (if has_stop s l then l else l ++ [stop_selector s])) /\
  (forall x, In x (stops_of (if has_stop s l then l else l ++ [stop_selector s])) <-> x = s \/ In x (stops_of l)).
Proof. exact add_stop_nodup. Qed.
Print Assumptions C17_add_stop.
(* timetabled no-service alerts are dropped exactly when the option is set *)
Theorem C17_skip : forall skip_opt sels eff, snd (mercury_loop skip_opt sels eff) = true <->
  skip_opt = true /\ exists s p, In s sels /\ priority_of s = Some p /\ existsb (Z.eqb p) timetabled_no_service = true.
Proof. exact mercury_skip_iff. Qed.
Print Assumptions C17_skip.
(* the effect is determined by the Mercury priority: the table's value for the last selector whose priority is in the table *)
Theorem C17_effect : forall sels eff, snd (mercury_loop false sels eff) = false /\ fst (mercury_loop false sels eff) = last_effect sels eff.
Proof. exact mercury_effect. Qed.
Print Assumptions C17_effect.
(* facts about the tables the source declares: every timetabled no-service priority maps to an effect; the table is a function *)
Theorem C17_tables : (forall p, In p timetabled_no_service -> zlookup p priority_to_effect <> None) /\ NoDup (map fst priority_to_effect).
Proof. split.
  - intros p H. unfold timetabled_no_service in H. cbn in H. repeat (destruct H as [<-|H]; [vm_compute; discriminate|]). destruct H.
  - unfold priority_to_effect. cbn [map fst]. repeat (constructor; [cbn; intuition discriminate|]). constructor.
Qed.
Print Assumptions C17_tables.
Theorem C17_elevator_ids : elev_match (la "A27N#EL123") = Some ("A27", "N", "123") /\ elev_match (la "A27#EL123") = Some ("A27", "", "123") /\
  elev_match (la "lmm:alert:77") = None /\ elev_match (la "XA27S#EL9") = Some ("A27", "S", "9").
Proof. exact elevator_ids. Qed.
Print Assumptions C17_elevator_ids.

(* ---- the grouping clause, for EVERY message, every policy and flag setting: each elevator group - the entities whose ids map
   to the same new id under the policy - ends up as exactly one non-skipped entity (the first member in feed order) carrying
   the group's id, cause MAINTENANCE, effect ACCESSIBILITY_ISSUE and one stop selector per DISTINCT informed id of the members;
   every other member is skipped ---- *)
Theorem C17_elevator_groups : forall policy station_ids skip_opt add_meta m g,
  let cfg := NyctAlerts policy station_ids skip_opt add_meta in
  let p := pre_pass cfg m in
  let members := ids policy station_ids (fm_entities m) g (List.length (fm_entities m)) in
  members <> [] ->
  exists j a', nth_error (pr_entities p) j = Some (mk_entity g a') /\ nth j (pr_skip p) false = false /\
    wa_cause a' = Some Alert_MAINTENANCE /\ wa_effect a' = Some Alert_ACCESSIBILITY_ISSUE /\
    wa_informed a' = map stop_selector (dedup members) /\
    forall i e s a, nth_error (fm_entities m) i = Some e -> elev_info policy station_ids e = Some (g, s, a) -> i <> j -> nth i (pr_skip p) false = true.
Proof. exact elevator_groups. Qed.
Print Assumptions C17_elevator_groups.
(* "exactly the distinct ids, independent of the order of the members": the informed stops are a duplicate-free list with the
   same elements as the members' ids *)
Theorem C17_distinct_ids : forall l, NoDup (dedup l) /\ forall y, In y (dedup l) <-> In y l.
Proof. exact dedup_spec. Qed.
Print Assumptions C17_distinct_ids.

(* ---- "alerts carrying no NYCT data and no elevator id are otherwise passed through unchanged", for EVERY message and every
   option setting: when no alert-only entity has an elevator id, an lmm: prefix, a Mercury sort order or (with metadata
   copying on) Mercury metadata, the parsed result is the one the parser gives with no extension at all ---- *)
Theorem C17_transparent_message : forall cm tz policy station_ids skip_opt add_meta m, Forall (alert_plain add_meta) (fm_entities m) ->
  parse_message cm tz (NyctAlerts policy station_ids skip_opt add_meta) m = parse_message cm tz NoExt m.
Proof. exact nyctalerts_transparent. Qed.
Print Assumptions C17_transparent_message.
(* and what the extension does to the wire form of such a message is exactly: an absent cause becomes an explicit UNKNOWN_CAUSE *)
Theorem C17_transparent_wire : forall policy station_ids skip_opt add_meta m, Forall (alert_plain add_meta) (fm_entities m) ->
  let p := pre_pass (NyctAlerts policy station_ids skip_opt add_meta) m in
  pr_entities p = map norm_entity (fm_entities m) /\ pr_skip p = map (fun _ => false) (fm_entities m).
Proof. exact pre_pass_alerts_plain. Qed.
Print Assumptions C17_transparent_wire.

(* tie to the source: the elevator alert id pattern as it stands in nyctalerts.go now (elev_match implements this language) *)
Example C17_regex_source : alookup "elevatorAlertIDRegex" regex_sources = Some "([[:alnum:]]{3}?)([SN]?)#EL(.*)".
Proof. reflexivity. Qed.
