(* Properties/C10.v — C10: blank = absent = GTFS default; fill-in and inheritance rules apply, nothing else. *)
From GV Require Import Base.Prelude Model.Realtime Model.Static Proofs.StaticProofs Proofs.PresentProofs Gen.Enums Proofs.RealtimeProofs Proofs.TimeProofs.

(* the three column readers cannot tell a present-but-blank cell from an absent column - every row loop reads rows only through them *)
Theorem C10_blank_is_absent : forall c0 v c d,
  optional (blank_col c0 v) c = optional (drop_col c0 v) c /\ read_or (blank_col c0 v) c d = read_or (drop_col c0 v) c d /\
  required (blank_col c0 v) c = required (drop_col c0 v) c.
Proof. exact readers_blank_absent. Qed.
Print Assumptions C10_blank_is_absent.
(* ... and both yield the default passed at the call site *)
Theorem C10_default : forall c0 v d, read_or (blank_col c0 v) c0 d = d /\ read_or (drop_col c0 v) c0 d = d.
Proof. exact read_or_default. Qed.
Print Assumptions C10_default.
(* the decoders (regenerated from enums.go) map a blank to the GTFS default, like the explicit default digit:
   regular pickup/drop-off ("0" is passed at those two call sites), no continuous pickup/drop-off, recommended transfer,
   frequency-based exact_times, unspecified direction, wheelchair and bikes information, location type stop *)
Theorem C10_decoder_defaults :
  parsePickupDropOffPolicy "0" = PickupDropOffPolicy_Yes /\ parsePickupDropOffPolicy "" = PickupDropOffPolicy_No /\ parsePickupDropOffPolicy "1" = PickupDropOffPolicy_No /\
  parseTransferType "" = TransferType_Recommended /\ parseTransferType "0" = TransferType_Recommended /\
  parseExactTimes "" = FrequencyBased /\ parseExactTimes "0" = FrequencyBased /\
  parseDirectionID_GTFSStatic "" = DirectionID_Unspecified /\
  parseWheelchairBoarding "" = WheelchairBoarding_NotSpecified /\ parseWheelchairBoarding "0" = WheelchairBoarding_NotSpecified /\
  parseBikesAllowed "" = BikesAllowed_NotSpecified /\ parseBikesAllowed "0" = BikesAllowed_NotSpecified /\
  parseStopType "" false = StopType_Stop /\ parseStopType "0" false = StopType_Stop.
Proof. exact decoder_defaults. Qed.
Print Assumptions C10_decoder_defaults.
(* a stop time giving only one of arrival and departure takes the same value for the other *)
Theorem C10_one_sided : (forall x, fill_times (Some x) None = Some (x, x)) /\ (forall y, fill_times None (Some y) = Some (y, y)) /\
  (forall x y, fill_times (Some x) (Some y) = Some (x, y)) /\ fill_times None None = None.
Proof. exact fill_times_rule. Qed.
Print Assumptions C10_one_sided.
(* enabling inheritance changes nothing but wheelchair boarding: every other field of every stop, their number and order *)
Theorem C10_inheritance_only_wheelchair : forall stops,
  map (fun s => set_wheelchair s 0) (inherit_wheelchair stops) = map (fun s => set_wheelchair s 0) stops.
Proof.
  intros stops. unfold inherit_wheelchair. generalize (seq 0 (List.length stops)). intros l. revert stops.
  induction l as [|i l IH]; intros stops; cbn [fold_left]; [reflexivity|]. rewrite IH. clear IH.
  destruct (nth_error stops i) as [s|] eqn:E; [|reflexivity]. destruct (s_parent s) as [p|]; [|reflexivity].
  destruct (nth_error stops p) as [ps|]; [|reflexivity]. destruct (_ && _); [|reflexivity].
  revert i E. induction stops as [|x stops IHs]; intros [|i] E; cbn in *; try discriminate; [injection E as ->; reflexivity|]. f_equal. now apply IHs.
Qed.
Print Assumptions C10_inheritance_only_wheelchair.

(* ---- whole files: a row whose cell under c0 is blank and the same row with column c0 dropped have the same squashed view,
   and every row loop factors through it (Properties/C01.v, C01_*_presentation, applies to any two tables related row by row by
   [same_view]): spelling an optional value as a blank cell, or by leaving its column out of the file, gives the same result ---- *)
Theorem C10_blank_cell_is_dropped_column : forall c0 v, same_view (blank_col c0 v) (drop_col c0 v).
Proof. exact same_view_blank_dropped. Qed.
Print Assumptions C10_blank_cell_is_dropped_column.
Theorem C10_row_loops_read_squashed_views : forall pf stops trips v v', same_view v v' -> stop_time_row pf stops trips v = stop_time_row pf stops trips v'.
Proof. exact stop_time_row_same. Qed.
Print Assumptions C10_row_loops_read_squashed_views.

(* ---- a time that is "given" is given whatever white space surrounds it: for every run of white-space characters
   (unicode.IsSpace: ASCII or NO-BREAK SPACE, NEL, the U+2000 block, IDEOGRAPHIC SPACE, ...) before and after, the padded
   HH:MM:SS cell is that many seconds - so a one-sided stop time whose only time is padded is still filled in from it ---- *)
Theorem C10_padded_time_is_given : forall ws1 ws2 h m s, spaces ws1 -> spaces ws2 -> 0 <= h < 100 -> 0 <= m < 100 -> 0 <= s < 100 ->
  parse_gtfs_time (string_of_list_ascii ws1 ++ hms h m s ++ string_of_list_ascii ws2) = Some (((h * 60 + m) * 60 + s) * 1000000000).
Proof. exact parse_gtfs_time_padded. Qed.
Print Assumptions C10_padded_time_is_given.
Example C10_padding_example : spaces (la (String "194" (String "160" (String "009" (String "227" (String "128" (String "128" ""))))))).
Proof. apply (sp_cons [_; _]); [apply sc_two; reflexivity|]. apply (sp_cons [_]); [apply sc_ascii; reflexivity|]. apply (sp_cons [_; _; _] []); [apply sc_three; reflexivity|constructor]. Qed.
