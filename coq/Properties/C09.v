(* Properties/C09.v — C09: rejected static rows are inert, and reported warnings describe the offending row.
   `rejected` causes are those of the property (required value missing; required number, time or date unparseable;
   required reference naming an id that does not exist), stated per file on the row view. *)
From GV Require Import Base.Prelude Model.Realtime Model.Static Proofs.StaticProofs Proofs.InertProofs.

(* the generic facts: a row the row function rejects contributes nothing, wherever it is inserted and however many there are *)
Theorem C09_inert_filter : forall (A B : Type) (f : A -> option B) r1 bad r2, Forall (fun r => f r = None) bad ->
  filter_map f (r1 ++ bad ++ r2) = filter_map f (r1 ++ r2).
Proof. exact @filter_map_inert. Qed.
Print Assumptions C09_inert_filter.
Theorem C09_inert_fold : forall (A S : Type) (step : S -> A -> S) r1 bad r2 st, Forall (fun r => forall s, step s r = s) bad ->
  fold_left step (r1 ++ bad ++ r2) st = fold_left step (r1 ++ r2) st.
Proof. exact @fold_inert. Qed.
Print Assumptions C09_inert_fold.
(* per file: each cause of the property makes the row function reject *)
Theorem C09_routes : forall ags v,
  (snd (required v "route_id") = true \/ snd (required v "route_type") = true \/
   (optional v "agency_id" <> "" /\ find_index (fun a => String.eqb (ag_id a) (optional v "agency_id")) ags 0 = None) \/
   (optional v "agency_id" = "" /\ List.length ags <> 1%nat)) -> route_row ags v = None.
Proof. exact route_rejected. Qed.
Print Assumptions C09_routes.
Theorem C09_stops : forall pf v, snd (required v "stop_id") = true -> stop_row pf v = None.
Proof. exact stop_rejected. Qed.
Print Assumptions C09_stops.
Theorem C09_transfers : forall stops v,
  (snd (required v "from_stop_id") = true \/ snd (required v "to_stop_id") = true \/
   find_last_index (fun s => String.eqb (s_id s) (fst (required v "from_stop_id"))) stops 0 None = None \/
   find_last_index (fun s => String.eqb (s_id s) (fst (required v "to_stop_id"))) stops 0 None = None) -> transfer_row stops v = None.
Proof. exact (transfer_rejected (fun _ => None) (fun _ _ => None)). Qed.
Print Assumptions C09_transfers.
Theorem C09_trips : forall routes services shapes v,
  (snd (required v "route_id") = true \/ snd (required v "service_id") = true \/ snd (required v "trip_id") = true \/
   find_last_index (fun r => String.eqb (r_id r) (fst (required v "route_id"))) routes 0 None = None \/
   find_last_index (fun s => String.eqb (sv_id s) (fst (required v "service_id"))) services 0 None = None) -> trip_row routes services shapes v = None.
Proof. exact (trip_rejected (fun _ => None) (fun _ _ => None)). Qed.
Print Assumptions C09_trips.
Theorem C09_stop_times : forall pf stops trips v,
  ((parse_gtfs_time (optional v "arrival_time") = None /\ parse_gtfs_time (optional v "departure_time") = None) \/
   atoi (fst (required v "stop_sequence")) = None \/
   snd (required v "stop_sequence") = true \/ snd (required v "stop_id") = true \/ snd (required v "trip_id") = true \/
   find_last_index (fun s => String.eqb (s_id s) (fst (required v "stop_id"))) stops 0 None = None \/
   find_last_index (fun t => String.eqb (tp_id t) (fst (required v "trip_id"))) trips 0 None = None) -> stop_time_row pf stops trips v = trips.
Proof. intros pf. exact (stop_time_rejected pf (fun _ _ => None)). Qed.
Print Assumptions C09_stop_times.
Theorem C09_shapes : forall pf m v,
  (snd (required v "shape_id") = true \/ snd (required v "shape_pt_lat") = true \/ snd (required v "shape_pt_lon") = true \/ snd (required v "shape_pt_sequence") = true \/
   parse_float64 pf (fst (required v "shape_pt_lat")) = None \/ parse_float64 pf (fst (required v "shape_pt_lon")) = None \/ parse_int32 (fst (required v "shape_pt_sequence")) = None) ->
  shapes_row pf m v = m.
Proof. intros pf. exact (shape_rejected pf (fun _ _ => None)). Qed.
Print Assumptions C09_shapes.
Theorem C09_frequencies : forall trips v,
  (snd (required v "trip_id") = true \/ snd (required v "start_time") = true \/ snd (required v "end_time") = true \/ snd (required v "headway_secs") = true \/
   find_last_index (fun t => String.eqb (tp_id t) (fst (required v "trip_id"))) trips 0 None = None \/ parse_int32 (fst (required v "headway_secs")) = None \/
   parse_gtfs_time (fst (required v "start_time")) = None \/ parse_gtfs_time (fst (required v "end_time")) = None) -> frequency_row trips v = trips.
Proof. exact (frequency_rejected (fun _ => None) (fun _ _ => None)). Qed.
Print Assumptions C09_frequencies.
Theorem C09_calendar : forall di zone m v,
  (di zone (fst (required v "start_date")) = None \/ di zone (fst (required v "end_date")) = None \/ snd (required v "start_date") = true \/ snd (required v "end_date") = true \/
   snd (required v "service_id") = true \/ existsb snd (map (fun c => required v c) day_cols) = true) -> calendar_row di zone m v = m.
Proof. exact (calendar_rejected (fun _ => None)). Qed.
Print Assumptions C09_calendar.
Theorem C09_calendar_dates : forall di zone m v,
  (di zone (fst (required v "date")) = None \/ snd (required v "service_id") = true \/ snd (required v "date") = true \/ snd (required v "exception_type") = true) ->
  calendar_date_row di zone m v = m.
Proof. exact (calendar_date_rejected (fun _ => None)). Qed.
Print Assumptions C09_calendar_dates.
(* the warning for a rejected agency row names the file, the 1-based row number and exactly that row's cells *)
Theorem C09_warning_content : forall hdr n cells w, agency_row hdr n cells = inr w ->
  w_file w = "agency.txt" /\ w_row w = n /\ w_content w = cells /\ w_header w = hdr.
Proof. intros hdr n cells w. unfold agency_row. destruct (required _ "agency_name") as [a m1]. destruct (required _ "agency_url") as [b m2].
  destruct (required _ "agency_timezone") as [c m3]. destruct m1, m2, m3; cbn; intros H; inversion H; subst; cbn; auto. Qed.
Print Assumptions C09_warning_content.

(* ---- whole files: rows rejected for one of the property's causes, inserted anywhere in the file in any number, leave what
   the file contributes unchanged.  For stop_times.txt and frequencies.txt "names an unknown trip" is judged against the
   trips as they are when the file is opened: the row loops rewrite trips in place but never change a trip's id. ---- *)
Theorem C09_routes_file : forall (pf : string -> option Z) (di : string -> string -> option Z) ags hdr r1 bad r2, Forall (fun cells => route_bad ags (view hdr cells)) bad ->
  parse_routes ags hdr (r1 ++ bad ++ r2) = parse_routes ags hdr (r1 ++ r2).
Proof. intros. eapply routes_file_inert; eassumption. Qed.
Print Assumptions C09_routes_file.
Theorem C09_stops_file : forall (pf : string -> option Z) (di : string -> string -> option Z) inherit hdr r1 bad r2, Forall (fun cells => stop_bad (view hdr cells)) bad ->
  parse_stops pf inherit hdr (r1 ++ bad ++ r2) = parse_stops pf inherit hdr (r1 ++ r2).
Proof. intros. eapply stops_file_inert; eassumption. Qed.
Print Assumptions C09_stops_file.
Theorem C09_transfers_file : forall (pf : string -> option Z) (di : string -> string -> option Z) stops hdr r1 bad r2, Forall (fun cells => transfer_bad stops (view hdr cells)) bad ->
  parse_transfers stops hdr (r1 ++ bad ++ r2) = parse_transfers stops hdr (r1 ++ r2).
Proof. intros. eapply transfers_file_inert; eassumption. Qed.
Print Assumptions C09_transfers_file.
Theorem C09_trips_file : forall (pf : string -> option Z) (di : string -> string -> option Z) routes services shapes hdr r1 bad r2, Forall (fun cells => trip_bad routes services (view hdr cells)) bad ->
  parse_trips routes services shapes hdr (r1 ++ bad ++ r2) = parse_trips routes services shapes hdr (r1 ++ r2).
Proof. intros. eapply trips_file_inert; eassumption. Qed.
Print Assumptions C09_trips_file.
Theorem C09_stop_times_file : forall (pf : string -> option Z) (di : string -> string -> option Z) stops trips hdr r1 bad r2, Forall (fun cells => stop_time_bad stops trips (view hdr cells)) bad ->
  parse_stop_times pf stops trips hdr (r1 ++ bad ++ r2) = parse_stop_times pf stops trips hdr (r1 ++ r2).
Proof. intros. eapply stop_times_file_inert; eassumption. Qed.
Print Assumptions C09_stop_times_file.
Theorem C09_frequencies_file : forall (pf : string -> option Z) (di : string -> string -> option Z) trips hdr r1 bad r2, Forall (fun cells => frequency_bad trips (view hdr cells)) bad ->
  parse_frequencies trips hdr (r1 ++ bad ++ r2) = parse_frequencies trips hdr (r1 ++ r2).
Proof. intros. eapply frequencies_file_inert; eassumption. Qed.
Print Assumptions C09_frequencies_file.
Theorem C09_shapes_file : forall (pf : string -> option Z) (di : string -> string -> option Z) hdr r1 bad r2, Forall (fun cells => shape_bad pf (view hdr cells)) bad ->
  parse_shapes pf hdr (r1 ++ bad ++ r2) = parse_shapes pf hdr (r1 ++ r2).
Proof. intros. eapply shapes_file_inert; eassumption. Qed.
Print Assumptions C09_shapes_file.
Theorem C09_calendar_file : forall (pf : string -> option Z) (di : string -> string -> option Z) zone m hdr r1 bad r2, Forall (fun cells => calendar_bad di zone (view hdr cells)) bad ->
  parse_calendar di zone m hdr (r1 ++ bad ++ r2) = parse_calendar di zone m hdr (r1 ++ r2).
Proof. intros. eapply calendar_file_inert; eassumption. Qed.
Print Assumptions C09_calendar_file.
Theorem C09_calendar_dates_file : forall (pf : string -> option Z) (di : string -> string -> option Z) zone m hdr r1 bad r2, Forall (fun cells => calendar_date_bad di zone (view hdr cells)) bad ->
  parse_calendar_dates di zone m hdr (r1 ++ bad ++ r2) = parse_calendar_dates di zone m hdr (r1 ++ r2).
Proof. intros. eapply calendar_dates_file_inert; eassumption. Qed.
Print Assumptions C09_calendar_dates_file.
