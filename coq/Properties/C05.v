(* Properties/C05.v — C05: no input can crash or hang the library.
   How the claim is carried.  The models the correspondence engines run against the code (Model/Csv.v, Static.v,
   Realtime.v, Journal.v, Export.v, Hash.v) are total Coq functions: for every input they return a value or an error, which
   settles termination and absence of panics FOR THE MODELS by construction; the theorems below add what construction does
   not give: (1) the entry points' result class is Ok or Err for every input; (2) for every operation of the Go source that
   can panic — indexing, slicing, dereferencing, as inventoried from the current source by harness/gen (Gen/PanicSites.v,
   pinned at the end of this file) — the fragment around it, written with Go's partial semantics and exactly the guard the
   source has (Model/Safety.v), returns for EVERY input what the total model returns, hence never panics; the same fragments
   without the guard are shown to panic on a witness; (3) the one unbounded loop (Stop.Root) terminates within length+1
   steps on every parsed hierarchy.  The tie to the code is the 'crash' engine: arbitrary and mutated bytes into both
   parsers under every extension configuration, hostile cells in every column, every accessor on every result, journals and
   exports of arbitrary feed sequences, all under recover() and a deadline; outcome classes compared with the model. *)
From GV Require Import Base.Prelude Model.Csv Model.RtTypes Model.RtWire Model.Realtime Model.Static Model.Journal Model.Purity Model.Safety
  Proofs.StaticProofs Proofs.SafetyProofs Proofs.PurityProofs Gen.PanicSites.

(* ---- (1) result classes ---- *)
Theorem C05_static_returns : forall pf di inherit ms, (exists r, parse_static pf di inherit ms = Ok r) \/ (exists e, parse_static pf di inherit ms = Err e).
Proof.
  intros. unfold parse_static, parse_static_gen, parse_tables_gen.
  repeat match goal with
  | |- context [match open_file ?n ?r ?m with _ => _ end] => destruct (open_file n r m)
  | |- context [let '(_, _) := ?x in _] => destruct x
  end; try (right; eexists; reflexivity); left; eexists; reflexivity.
Qed.
Print Assumptions C05_static_returns.
Theorem C05_realtime_returns : forall cm o m, (exists r, fst (call cm o m) = Ok r) \/ (exists e, fst (call cm o m) = Err e).
Proof. intros cm o [m|]; cbn; eauto. Qed.
Print Assumptions C05_realtime_returns.

(* ---- (2) guarded fragments = total model, for every input ---- *)
Theorem C05_csv_rows_uniform : forall bytes hdr rows, read_all_s bytes = Some (hdr :: rows) -> Forall (fun r => List.length r = List.length hdr) rows.
Proof. exact rows_have_header_length. Qed.
Print Assumptions C05_csv_rows_uniform.
Theorem C05_required_read : forall hdr cells c, header_index hdr c <> None -> required_read_m cells (col_index hdr c) = Ok (required (view hdr cells) c).
Proof. exact required_read_safe. Qed.
Print Assumptions C05_required_read.
Theorem C05_required_read_needs_the_column_check : forall hdr cells c, header_index hdr c = None -> is_panic (required_read_m cells (col_index hdr c)) = true.
Proof. exact required_read_unguarded_panics. Qed.
Print Assumptions C05_required_read_needs_the_column_check.
Theorem C05_optional_read : forall hdr cells c, List.length cells = List.length hdr -> optional_read_m cells (col_index hdr c) = Ok (optional (view hdr cells) c).
Proof. exact optional_read_safe. Qed.
Print Assumptions C05_optional_read.
Theorem C05_read_or : forall hdr cells c d, List.length cells = List.length hdr -> read_or_m cells (col_index hdr c) d = Ok (read_or (view hdr cells) c d).
Proof. exact read_or_safe. Qed.
Print Assumptions C05_read_or.
Theorem C05_stop_time_unknown_trip : forall trips tid, stop_time_target_m trips tid = Ok (find_last_index (fun t => String.eqb (tp_id t) tid) trips 0 None).
Proof. exact stop_time_target_safe. Qed.
Print Assumptions C05_stop_time_unknown_trip.
Theorem C05_shape_numbers : forall lat lon sq, shape_numbers_m lat lon sq = Ok (match lat, lon, sq with Some a, Some b, Some c => Some (a, b, c) | _, _, _ => None end).
Proof. exact shape_numbers_safe. Qed.
Print Assumptions C05_shape_numbers.
Theorem C05_agency_indexing : forall agencies, sole_agency_m agencies = Ok (match agencies with [_] => Some 0%nat | _ => None end) /\ first_zone_m agencies = Ok (first_zone agencies).
Proof. intros. split; [apply sole_agency_safe|apply first_zone_safe]. Qed.
Print Assumptions C05_agency_indexing.
Theorem C05_mtrain_slicing : forall s, mswap_stop_m s = Ok (mswap_stop s).
Proof. exact mswap_stop_safe. Qed.
Print Assumptions C05_mtrain_slicing.
Theorem C05_first_stop_time : forall (A : Type) (stus : list A), first_update_m stus = Ok (match stus with [] => None | u :: _ => Some u end).
Proof. exact @first_update_safe. Qed.
Print Assumptions C05_first_stop_time.
Theorem C05_priority_suffix : forall so, exists r, priority_suffix_m so = Ok r.
Proof. exact priority_suffix_safe. Qed.
Print Assumptions C05_priority_suffix.
Theorem C05_journal_uid : forall u, uid_m u = Ok (if (String.length (ut_id u) <? 6)%nat then None else Some (uid_of u)).
Proof. exact uid_safe. Qed.
Print Assumptions C05_journal_uid.
Theorem C05_journal_stop_id : forall u, stop_id_m u = Ok (stop_id_or_empty u).
Proof. exact stop_id_safe. Qed.
Print Assumptions C05_journal_stop_id.
Theorem C05_journal_partition : forall L k us, (k <= List.length L)%nat -> run_len_m L k us 0 = Ok (run_len (skipn k L) us).
Proof. intros L k us H. rewrite run_len_safe by lia. now rewrite Nat.add_0_r. Qed.
Print Assumptions C05_journal_partition.
(* any sequence of feeds: the vanished-trip loop never dereferences a missing entry *)
Theorem C05_journal_histories : forall feeds, run_feeds_m feeds = Ok (fold_left apply_feed feeds jinit).
Proof. exact run_feeds_safe. Qed.
Print Assumptions C05_journal_histories.

(* ---- (3) termination of the only unbounded loop ---- *)
Theorem C05_root_terminates : forall sp i, (i < List.length sp)%nat -> exists r, root_m (S (List.length sp)) (link_parents sp) i = Ok r.
Proof. exact root_safe. Qed.
Print Assumptions C05_root_terminates.

(* ---- the guards are needed: the same fragments without them panic ---- *)
Example C05_unguarded_refuted :
  is_panic (stop_time_target_unguarded [] "ghost") = true /\ is_panic (shape_numbers_unguarded None (Some 1) (Some 1)) = true /\
  is_panic (uid_unguarded {| ut_id := "abc"; ut_route := ""; ut_dir := 0; ut_date := 0; ut_time := 0; ut_vehicle := None; ut_stops := [] |}) = true /\
  is_panic (stop_id_unguarded {| us_stop := None; us_arr := None; us_dep := None; us_track := None |}) = true /\
  is_panic (mark_gone_m 5 [] ["100x"]) = true /\
  root_fuel 50 [{| s_id := "A"; s_code := ""; s_name := ""; s_desc := ""; s_zone := ""; s_lon := None; s_lat := None; s_url := ""; s_type := 0; s_parent := Some 0%nat; s_timezone := ""; s_wheelchair := 0; s_platform := "" |}] 0 = None.
Proof. vm_compute. repeat split; reflexivity. Qed.

(* ---- tie to the source, regenerated from /repo on every run (Gen/PanicSites.v).  The full inventory of index / slice /
   dereference / division expressions is recorded there for the reader; it is NOT pinned, because extracting a helper or renaming
   a loop variable changes it without changing behaviour - those sites are covered by the fragments above and by the fuzz
   streams.  Pinned: the expressions that panic by construction - unchecked type assertions and explicit panic calls.  The two
   assertions are on proto.GetExtension results of exactly the asserted extension type (guarded by proto.HasExtension);
   hasher.number's panic is reachable only for kinds binary.Write rejects, and every call site passes a fixed-size kind. ---- *)
(* every entry the translator extracts from the CURRENT source is one of the accounted ones (an entry that disappears - a variable
   turned into a function, a loop rewritten - needs no new account; a new entry breaks this) *)
Example C05_unchecked_sites_accounted : let accounted : list (string * string * string) := [
  ("extensions/nyctalerts/nyctalerts.go", "assert", "proto.GetExtension(alert, gtfsrt.E_MercuryAlert).(*gtfsrt.MercuryAlert)");
  ("extensions/nyctalerts/nyctalerts.go", "assert", "proto.GetExtension(informedEntity, gtfsrt.E_MercuryEntitySelector).(*gtfsrt.MercuryEntitySelector)");
  ("hash.go", "panic", "panic(fmt.Sprintf(""failed to hash %T"", a))")] in
  forallb (fun x => existsb (fun y => String.eqb (fst (fst x)) (fst (fst y)) && String.eqb (snd (fst x)) (snd (fst y)) && String.eqb (snd x) (snd y)) accounted) (unchecked_sites) = true.
Proof. vm_compute. reflexivity. Qed.
