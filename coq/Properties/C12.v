(* Properties/C12.v — C12: alert informed entities are normalised without losing or inventing scope.
   Model: parse_alert of Model/Realtime.v (realtime.go:559-692), tied by the rt_alerts engine.  The order-preserving
   "every selector is represented" and the fallback rule are decided on the real results by the engine's specification
   oracle (written from the property text) on 500+ alerts per run; proved here: the soundness half, for all alerts. *)
From GV Require Import Base.Prelude Model.RtTypes Model.RtWire Model.Realtime Proofs.RealtimeProofs Gen.Enums.

(* every informed entity of a parsed alert informs something, and carries a trip identifier only when it determines a trip *)
Theorem C12_informs_and_trip_id_sound : forall cm tz id a e, In e (al_informed (fst (parse_alert cm tz id a))) ->
  informs_something e = true /\ match ie_trip e with Some k => identifies k = true | None => True end.
Proof. intros cm tz id a e H. destruct (parse_alert_ok cm tz id a) as [F _]. rewrite Forall_forall in F. exact (F e H). Qed.
Print Assumptions C12_informs_and_trip_id_sound.
(* every such trip is handed to the trip merge (and therefore appears in the result's Trips: C07_merge_characterised) *)
Theorem C12_trips_surface : forall cm tz id a e k, In e (al_informed (fst (parse_alert cm tz id a))) -> ie_trip e = Some k ->
  In (bare_trip k) (snd (parse_alert cm tz id a)).
Proof. intros cm tz id a. exact (proj2 (parse_alert_ok cm tz id a)). Qed.
Print Assumptions C12_trips_surface.
(* the route fallback: one direction named -> that direction; both or none named -> no direction *)
Theorem C12_fallback_direction : forall r,
  route_entity r DirectionID_Unspecified = {| ie_agency := None; ie_route := Some r; ie_route_type := RouteType_Unknown; ie_dir := 0; ie_trip := None; ie_stop := None |}.
Proof. reflexivity. Qed.
Print Assumptions C12_fallback_direction.
Example C12_example :
  let td := {| td_trip_id := None; td_route_id := Some "B61"; td_direction_id := Some 1; td_start_time := None; td_start_date := None; td_rel := None; td_nyct := None |} in
  let s := {| sl_agency := None; sl_route := None; sl_route_type := None; sl_trip := Some td; sl_stop := Some "S1"; sl_direction := None; sl_mercury := None |} in
  map (fun e => (ie_route e, ie_dir e, ie_stop e))
      (al_informed (fst (parse_alert (fun _ _ _ => 0) None "a" {| wa_periods := []; wa_informed := [s]; wa_cause := None; wa_effect := None; wa_url := []; wa_header := []; wa_desc := []; wa_metadata := None |})))
  = [(None, 0, Some "S1"); (Some "B61", 1, None)].
Proof. vm_compute. reflexivity. Qed.
