(* Properties/C12.v — C12: alert informed entities are normalised without losing or inventing scope.
   Model: parse_alert of Model/Realtime.v (realtime.go:559-692), tied by the rt_alerts engine.  The order-preserving
   "every selector is represented" and the fallback rule are decided on the real results by the engine's specification
   oracle (written from the property text) on 500+ alerts per run; proved here, for all alerts: the soundness half AND the
   completeness half (the informed entities are exactly, in order, the representation of each selector that informs something,
   then the route fallbacks; a route is informed by fallback only if a non-identifying trip descriptor names it and no selector
   names it explicitly). *)
From GV Require Import Base.Prelude Model.RtTypes Model.RtWire Model.Realtime Model.Static Proofs.RealtimeProofs Proofs.AlertProofs Gen.Enums.

(* every informed entity of a parsed alert informs something, and carries a trip identifier only when it determines a trip *)
Theorem C12_informs_and_trip_id_sound : forall cm tz id a e, In e (al_informed (fst (parse_alert cm tz id a))) ->
  informs_something e = true /\ match ie_trip e with Some k => identifies k = true | None => True end.
Proof. intros cm tz id a e H. destruct (parse_alert_ok cm tz id a) as [F _]. rewrite Forall_forall in F. exact (F e H). Qed.
Print Assumptions C12_informs_and_trip_id_sound.
(* every such trip is handed to the trip merge (and therefore appears in the result's Trips: C07_merge_characterised) *)
Theorem C12_trips_surface : forall cm tz id a e k, In e (al_informed (fst (parse_alert cm tz id a))) -> ie_trip e = Some k ->
  In (bare_trip k) (snd (parse_alert cm tz id a)).
Proof. intros cm tz id a. exact (proj2 (parse_alert_ok cm tz id a)). Qed.
Print Assumptions C12_trips_surface.
(* the route fallback: one direction named -> that direction; both or none named -> no direction *)
Theorem C12_fallback_direction : forall r,
  route_entity r DirectionID_Unspecified = {| ie_agency := None; ie_route := Some r; ie_route_type := RouteType_Unknown; ie_dir := 0; ie_trip := None; ie_stop := None |}.
Proof. reflexivity. Qed.
Print Assumptions C12_fallback_direction.
(* the informed entities of a parsed alert are EXACTLY: one entity per selector that informs something, in selector order (its
   trip identifier kept only when it identifies a trip), followed by the fallback route entities *)
Theorem C12_informed_entities_exact : forall cm tz id a,
  al_informed (fst (parse_alert cm tz id a)) =
  filter_map (represent cm tz) (wa_informed a) ++
  fallback_entities (fold_left (alert_step cm tz) (wa_informed a) {| aa_entities := []; aa_trips := []; aa_routes := []; aa_from_trips := [] |}).
Proof. exact informed_entities_exact. Qed.
Print Assumptions C12_informed_entities_exact.
Theorem C12_selectors_represented : forall cm tz id a s, In s (wa_informed a) -> informs_something (entity_of cm tz s) = true ->
  exists e, represent cm tz s = Some e /\ In e (al_informed (fst (parse_alert cm tz id a))) /\
    ie_agency e = sl_agency s /\ ie_route e = sl_route s /\ ie_route_type e = route_type_rt (sl_route_type s) /\ ie_stop e = sl_stop s /\
    ie_dir e = direction_rt (sl_direction s).
Proof. exact selectors_represented. Qed.
Print Assumptions C12_selectors_represented.
(* a route informed by fallback is named by a non-identifying trip descriptor of some selector and by no selector's route_id *)
Theorem C12_fallback_routes : forall cm tz a r,
  In r (flat_map (fun e => match ie_route e, ie_agency e, ie_stop e, ie_trip e with Some x, None, None, None => [x] | _, _, _, _ => [] end)
        (fallback_entities (fold_left (alert_step cm tz) (wa_informed a) {| aa_entities := []; aa_trips := []; aa_routes := []; aa_from_trips := [] |}))) ->
  (exists s k, In s (wa_informed a) /\ route_only cm tz s = Some k /\ k_route k = r) /\ ~ In (Some r) (map sl_route (wa_informed a)).
Proof. exact fallback_routes. Qed.
Print Assumptions C12_fallback_routes.
Example C12_example :
  let td := {| td_trip_id := None; td_route_id := Some "B61"; td_direction_id := Some 1; td_start_time := None; td_start_date := None; td_rel := None; td_nyct := None |} in
  let s := {| sl_agency := None; sl_route := None; sl_route_type := None; sl_trip := Some td; sl_stop := Some "S1"; sl_direction := None; sl_mercury := None |} in
  map (fun e => (ie_route e, ie_dir e, ie_stop e))
      (al_informed (fst (parse_alert (fun _ _ _ => 0) None "a" {| wa_periods := []; wa_informed := [s]; wa_cause := None; wa_effect := None; wa_url := []; wa_header := []; wa_desc := []; wa_metadata := None |})))
  = [(None, 0, Some "S1"); (Some "B61", 1, None)].
Proof. vm_compute. reflexivity. Qed.
