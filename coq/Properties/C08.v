(* Properties/C08.v — C08: static output order: file order kept, sequences sorted, row order irrelevant. *)
From GV Require Import Base.Prelude Base.Sort Model.Realtime Model.Static Proofs.StaticProofs Proofs.OrderProofs Gen.Comparators Proofs.ComparatorProofs.
From Coq Require Import Permutation Sorted.

(* within a trip the stop times are in ascending stop_sequence (distinct sequences) *)
Theorem C08_stop_times_sorted : forall l, NoDup (map st_seq l) -> StronglySorted (fun a b => st_seq a < st_seq b) (isort stoptime seq_lt l).
Proof. exact stop_times_sorted. Qed.
Print Assumptions C08_stop_times_sorted.
(* consequently the rows may come in any order: any permutation of a trip's rows gives the same list *)
Theorem C08_row_order_irrelevant : forall l l', Permutation l l' -> NoDup (map st_seq l) -> isort stoptime seq_lt l = isort stoptime seq_lt l'.
Proof. exact stop_times_row_order. Qed.
Print Assumptions C08_row_order_irrelevant.
(* every other collection keeps the row order of its file: the loops are order-preserving filters *)
Theorem C08_routes_file_order : forall ags hdr r1 r2, parse_routes ags hdr (r1 ++ r2) = parse_routes ags hdr r1 ++ parse_routes ags hdr r2.
Proof. exact routes_keep_file_order. Qed.
Print Assumptions C08_routes_file_order.
Theorem C08_transfers_file_order : forall stops hdr r1 r2, parse_transfers stops hdr (r1 ++ r2) = parse_transfers stops hdr r1 ++ parse_transfers stops hdr r2.
Proof. exact transfers_keep_file_order. Qed.
Print Assumptions C08_transfers_file_order.
Theorem C08_trips_file_order : forall ro sv sh hdr r1 r2, parse_trips ro sv sh hdr (r1 ++ r2) = parse_trips ro sv sh hdr r1 ++ parse_trips ro sv sh hdr r2.
Proof. exact trips_keep_file_order. Qed.
Print Assumptions C08_trips_file_order.
(* the general fact all sorted collections (stop times, shape points, shapes, services) rest on: sorting erases input order *)
Theorem C08_sorting_erases_order : forall (A : Type) (ltb : A -> A -> bool),
  (forall x, ~ lt A ltb x x) -> (forall x y z, lt A ltb x y -> lt A ltb y z -> lt A ltb x z) ->
  forall l l', Permutation l l' -> NoDup l -> total_on A ltb l -> isort A ltb l = isort A ltb l'.
Proof. exact isort_perm_invariant. Qed.
Print Assumptions C08_sorting_erases_order.

(* ---- the whole file: stop_times.txt rows in ANY order (trips interleaved, sequences unsorted) give the same trips, stop
   times included, provided no trip receives two rows with the same stop_sequence.  The hypothesis on [trips] is what
   ParseStatic guarantees: trips come from trips.txt (and frequencies.txt) with no stop times yet. ---- *)
Theorem C08_stop_times_rows_any_order : forall pf stops trips hdr rows rows',
  Permutation rows rows' ->
  Forall (fun t => tp_stop_times t = []) trips ->
  (forall t, In t (fold_left (fun ts cells => stop_time_row pf stops ts (view hdr cells)) rows trips) -> NoDup (map st_seq (tp_stop_times t))) ->
  parse_stop_times pf stops trips hdr rows = parse_stop_times pf stops trips hdr rows'.
Proof. exact stop_times_rows_any_order. Qed.
Print Assumptions C08_stop_times_rows_any_order.
(* shapes.txt: the rows of different shapes interleaved and unsorted in any way give the same shapes (points in sequence
   order, shapes by id), provided no shape has two accepted rows with the same shape_pt_sequence *)
Theorem C08_shapes_rows_any_order : forall pf hdr rows rows',
  Permutation rows rows' ->
  (forall sid, NoDup (map sr_seq (rows_of sid (filter_map (fun cells => s_contrib pf (view hdr cells)) rows)))) ->
  parse_shapes pf hdr rows = parse_shapes pf hdr rows'.
Proof. exact shapes_rows_any_order. Qed.
Print Assumptions C08_shapes_rows_any_order.

(* ---- tie to the source: the callbacks of sort.Slice(trip.StopTimes, ...), sort.Slice(rows, ...) and sort.Slice(shapes, ...)
   are TRANSLATED from static.go on every run (Gen/Comparators.v) and are the comparisons the model sorts with ---- *)
Theorem C08_comparators_from_source :
  (gen_stop_time_less_note = "" -> forall a b, gen_stop_time_less a b = (st_seq a <? st_seq b)) /\
  (gen_shape_row_less_note = "" -> forall a b, gen_shape_row_less a b = (sr_seq a <? sr_seq b)) /\
  (gen_shape_less_note = "" -> forall a b, gen_shape_less a b = String.ltb (sh_id a) (sh_id b)).
Proof. exact (conj gen_stop_time_less_ok (conj gen_shape_row_less_ok gen_shape_less_ok)). Qed.
Print Assumptions C08_comparators_from_source.
