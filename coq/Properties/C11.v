(* Properties/C11.v — C11: services merge calendar.txt and calendar_dates.txt correctly. *)
From GV Require Import Base.Prelude Base.Sort Model.Realtime Model.Static Proofs.StaticProofs Proofs.JournalProofs Proofs.ServiceProofs.
From Coq Require Import Permutation.

(* for every calendar.txt and calendar_dates.txt whatsoever, every date oracle and zone: each service's start..end range covers
   every one of its added and removed dates, and each service is stored under its own id *)
Theorem C11_range : forall di zone hdr1 rows1 hdr2 rows2,
  Forall (fun kv => Forall (fun d => sv_start (snd kv) <= d <= sv_end (snd kv)) (sv_added (snd kv) ++ sv_removed (snd kv)) /\ sv_id (snd kv) = fst kv)
         (parse_calendar_dates di zone (parse_calendar di zone [] hdr1 rows1) hdr2 rows2).
Proof. exact services_range. Qed.
Print Assumptions C11_range.
(* the zone: every date of every service is the date oracle applied to the cell's lexeme in the FIRST agency's zone (UTC without agencies) *)
Theorem C11_zone : forall a rest, first_zone (a :: rest) = ag_timezone a /\ first_zone [] = "UTC".
Proof. intros. split; reflexivity. Qed.
Print Assumptions C11_zone.
(* exception rows whose type is neither 1 nor 2 neither create nor stretch a service *)
Theorem C11_other_types_ignored : forall di zone m v, fst (required v "exception_type") <> "1" -> fst (required v "exception_type") <> "2" ->
  calendar_date_row di zone m v = m.
Proof.
  intros di zone m v N1 N2. unfold calendar_date_row. destruct (required v "service_id") as [a m1]. destruct (required v "date") as [b m2].
  destruct (di zone b); [|reflexivity]. destruct (required v "exception_type") as [c m3]. cbn [fst] in *. destruct (m1 || m2 || m3); [reflexivity|].
  destruct (String.eqb_spec c "1"); [congruence|]. destruct (String.eqb_spec c "2"); [congruence|]. reflexivity.
Qed.
Print Assumptions C11_other_types_ignored.
(* added / removed dates are appended in file order: a type-1 row appends its date to the added list of its service *)
Theorem C11_added_in_file_order : forall di zone m v sid ds d, required v "service_id" = (sid, false) -> required v "date" = (ds, false) ->
  required v "exception_type" = ("1", false) -> di zone ds = Some d ->
  exists s, alookup sid (calendar_date_row di zone m v) = Some s /\
    sv_added s = match alookup sid m with Some s0 => sv_added s0 | None => [] end ++ [d] /\
    sv_removed s = match alookup sid m with Some s0 => sv_removed s0 | None => [] end.
Proof.
  intros di zone m v sid ds d H1 H2 H3 H4. unfold calendar_date_row. rewrite H1, H2, H4, H3. cbn [orb]. cbn [String.eqb Ascii.eqb Bool.eqb].
  eexists. split; [apply alookup_aset_same|]. destruct (alookup sid m); cbn; auto.
Qed.
Print Assumptions C11_added_in_file_order.

(* ---- the whole statement, for every calendar.txt and calendar_dates.txt whatsoever: what is stored under a service id is
   determined by that id's own rows only - its LAST valid calendar row if any, then its valid type-1 / type-2 exception rows in
   file order, each appending its date and stretching the range ([apply_exc]); a service with exceptions only starts from
   all-false weekdays and the range [d, d] of its first exception ---- *)
Theorem C11_service_of_id : forall di zone sid h1 rows1 h2 rows2,
  has_columns h1 (["start_date"; "end_date"; "service_id"] ++ day_cols) = true -> has_columns h2 ["service_id"; "date"; "exception_type"] = true ->
  alookup sid (parse_calendar_dates di zone (parse_calendar di zone [] h1 rows1) h2 rows2) =
  fold_left (fun cur x => Some (apply_exc sid cur x)) (own_exceptions di zone sid h2 rows2)
            (fold_left (fun _ s => Some s) (own_calendar di zone sid h1 rows1) None).
Proof. exact service_of_id. Qed.
Print Assumptions C11_service_of_id.
(* the added dates are exactly the type-1 dates in file order, the removed dates the type-2 ones *)
Theorem C11_exception_lists : forall sid xs cur,
  match fold_left (fun cur x => Some (apply_exc sid cur x)) xs cur with
  | Some s => sv_added s = match cur with Some c => sv_added c | None => [] end ++ map fst (filter snd xs) /\
              sv_removed s = match cur with Some c => sv_removed c | None => [] end ++ map fst (filter (fun x => negb (snd x)) xs)
  | None => cur = None /\ xs = []
  end.
Proof. intros sid xs cur. apply (exceptions_lists (fun _ _ => None) EmptyString). Qed.
Print Assumptions C11_exception_lists.
