(* Properties/C02.v — C02: realtime parse transcribes every wire field faithfully, in the configured zone.
   Model/Realtime.v = realtime.go, tied on every run by the rt_transcribe engine (full projection of *gtfs.Realtime compared
   with parse_message on the decoded tree, 8 zone options).  Each conversion is written once in the model; the theorems
   state them.  The whole-message statement "exactly one Trip per distinct descriptor, fields of its own entity" is
   C07_own_entity_wins / C07_bare_only (Properties/C07.v) together with these per-field conversions. *)
From GV Require Import Base.Prelude Model.RtTypes Model.RtWire Model.Realtime Proofs.RealtimeProofs Proofs.MergeProofs Proofs.MentionProofs Gen.Enums Gen.NyctTables Gen.Footprint Proofs.PurityProofs Proofs.ZoneProofs.

(* HH:MM:SS becomes that duration (ns), for every two-digit H, M, S - hours past 24 included *)
Theorem C02_start_time : forall h m s, 0 <= h < 100 -> 0 <= m < 100 -> 0 <= s < 100 ->
  parse_start_time (Some (hms h m s)) = (true, ((h * 60 + m) * 60 + s) * 1000000000).
Proof. exact parse_start_time_hms. Qed.
Print Assumptions C02_start_time.
(* YYYYMMDD becomes local midnight of that civil date in the configured zone: the digits reach the time oracle unchanged *)
Theorem C02_start_date : forall cm tz y1 y2 y3 y4 m1 m2 d1 d2, forallb a_digit [y1; y2; y3; y4; m1; m2; d1; d2] = true ->
  parse_start_date cm tz (Some (string_of_list_ascii [y1; y2; y3; y4; m1; m2; d1; d2])) =
  (true, (cm (digits_val [y1; y2; y3; y4]) (digits_val [m1; m2]) (digits_val [d1; d2]), zone_name tz)).
Proof. exact start_date_rule. Qed.
Print Assumptions C02_start_date.
(* direction 0/1 becomes False/True; absent stays unspecified *)
Theorem C02_direction : forall o, direction_rt o = match o with None => DirectionID_Unspecified | Some d => if d =? 0 then DirectionID_False else DirectionID_True end.
Proof. exact direction_rule. Qed.
Print Assumptions C02_direction.
(* a stop time event: the instant in the configured zone, the delay in whole seconds (as ns), the uncertainty; absent fields stay absent *)
Theorem C02_event : forall tz e, convert_event tz (Some e) =
  Some {| ev_time := omap (fun t => (t, zone_name tz)) (se_time e); ev_delay := omap (fun d => d * 1000000000) (se_delay e); ev_unc := se_unc e |}.
Proof. exact event_conversion. Qed.
Print Assumptions C02_event.
Theorem C02_absent_event : forall tz, convert_event tz None = None.
Proof. exact absent_event. Qed.
Print Assumptions C02_absent_event.
Theorem C02_stop_time_update : forall tz u, convert_stu tz NoExt u =
  {| su_seq := stu_seq u; su_stop := stu_stop u; su_arr := convert_event tz (stu_arr u); su_dep := convert_event tz (stu_dep u);
     su_track := None; su_rel := odflt TripUpdate_StopTimeUpdate_SCHEDULED (stu_rel u) |}.
Proof. exact stu_conversion. Qed.
Print Assumptions C02_stop_time_update.
(* Unix timestamps (uint64 on the wire) become the same instants in the configured zone; UTC when none is given *)
Theorem C02_timestamps : forall tz o, opt_ts tz o = omap (fun t => (wrap64 t, zone_name tz)) o.
Proof. exact timestamps_in_zone. Qed.
Print Assumptions C02_timestamps.
Theorem C02_timestamp_range : forall t, 0 <= t < 2 ^ 63 -> wrap64 t = t.
Proof. exact wrap64_small. Qed.
Print Assumptions C02_timestamp_range.
Theorem C02_zone_default : zone_name None = "UTC" /\ forall z, zone_name (Some z) = z.
Proof. exact zone_default. Qed.
Print Assumptions C02_zone_default.
(* a descriptor without start time, start date and direction gets has-flags false and zero values: nothing fabricated *)
Theorem C02_absent_descriptor_fields : forall cm tz td, td_start_time td = None -> td_start_date td = None -> td_direction_id td = None ->
  let k := parse_trip_descriptor cm tz td in
  k_has_time k = false /\ k_time k = 0 /\ k_has_date k = false /\ k_date k = zero_instant /\ k_dir k = DirectionID_Unspecified.
Proof. exact absent_descriptor_fields. Qed.
Print Assumptions C02_absent_descriptor_fields.
Example C02_example : parse_start_time (Some "25:10:30") = (true, 90630 * 1000000000).
Proof. vm_compute. reflexivity. Qed.

(* ---- exactly one Trip per distinct trip descriptor mentioned anywhere, for EVERY message and extension configuration: the
   identifiers of the result's trips are exactly the descriptors mentioned by the (non-skipped) entities - in a trip update,
   in a vehicle position, or as an identifying informed entity of an alert - and no identifier occurs twice ---- *)
Theorem C02_trips_are_the_mentioned : forall cm tz cfg m, let p := pre_pass cfg m in
  forall k, In k (map tr_key (rt_trips (parse_message cm tz cfg m))) <-> In k (flat_map (entity_trip_keys cm tz) (combine (pr_entities p) (pr_skip p))).
Proof. exact trips_are_the_mentioned. Qed.
Print Assumptions C02_trips_are_the_mentioned.
Theorem C02_one_trip_per_descriptor : forall cm tz cfg m, NoDup (map tr_key (rt_trips (parse_message cm tz cfg m))).
Proof. exact trip_ids_unique. Qed.
Print Assumptions C02_one_trip_per_descriptor.

(* ---- "in the configured zone", for EVERY message, every zone option and every extension configuration: every instant of
   the result carries the configured zone (UTC when none) - the creation time (when the header has a timestamp; otherwise it
   is Go's zero time), the start date of every trip identifier wherever it occurs (Trips, Vehicles' trip references, alerts'
   informed entities), every arrival / departure time, every vehicle timestamp and both bounds of every alert period ---- *)
Theorem C02_every_instant_in_the_configured_zone : forall cm tz cfg m,
  let r := parse_message cm tz cfg m in
  (fm_ts m <> None -> snd (rt_created r) = zone_name tz) /\
  Forall (fun t => key_wf tz (tr_key t) /\ Forall (stu_ok tz) (tr_stus t)) (rt_trips r) /\
  Forall (fun v => okey_ok tz (ve_trip v) /\ oinst_ok tz (ve_ts v)) (rt_vehicles r) /\
  Forall (fun a => Forall (fun p => oinst_ok tz (fst p) /\ oinst_ok tz (snd p)) (al_periods a) /\ Forall (fun e => okey_ok tz (ie_trip e)) (al_informed a)) (rt_alerts r).
Proof. exact parse_message_zoned. Qed.
Print Assumptions C02_every_instant_in_the_configured_zone.
(* what the predicates say: a trip identifier's start date is in the zone when it has one (and is Go's zero time otherwise) *)
Example C02_zone_predicates : forall tz k i, (key_wf tz k -> k_has_date k = true -> snd (k_date k) = zone_name tz) /\ (oinst_ok tz (Some i) <-> snd i = zone_name tz).
Proof. intros tz k i. split; [intros (_ & _ & H); exact H|reflexivity]. Qed.

(* tie to the source: the two patterns the descriptor parser matches with, as they stand in realtime.go now (parse_start_time /
   parse_start_date of the model implement exactly these languages) *)
Example C02_regex_sources : alookup "startTimeRegex" regex_sources = Some "^([0-9]{2}):([0-9]{2}):([0-9]{2})$" /\
                            alookup "startDateRegex" regex_sources = Some "^([0-9]{4})([0-9]{2})([0-9]{2})$".
Proof. split; reflexivity. Qed.
