(* Properties/C01.v — C01: static parse transcribes every valid row faithfully, whatever the presentation.
   Model: Model/Csv.v (encoding/csv + BOM handling, on the file BYTES) and Model/Static.v (static.go), tied on every run by the
   static_c01 engine: the whole *gtfs.Static (pointers as indices recovered by address) is compared with the model's result on
   the archive's member bytes, and the Go-side oracle compares it with `denote`, an independent reading of the abstract feed
   (enums by digit, H:MM:SS as seconds, dates as midnight in the FIRST agency's zone, references by id), under 3 presentations.
   PARTIAL composite: the per-layer theorems below are proved for all inputs; the single composite statement
   "parse (present p f) = denote f for every well-formed feed f and presentation p" is not assembled in Coq - it is what the
   engine's denote oracle decides on every generated feed.  (DESIGN §8 C01, fallback rule) *)
From Coq Require Import List Ascii String.
From GV Require Import Base.Prelude Base.Dec Model.Csv Proofs.CsvProofs Model.Realtime Model.Static Proofs.RealtimeProofs Proofs.StaticProofs Proofs.PresentProofs Gen.Enums Proofs.RowsProofs.
From Coq Require Import Permutation.

(* --- CSV layer: any quoting style, CRLF, byte-order mark, final newline --- *)
Theorem C01_csv_roundtrip : forall (style : cell -> bool) rs k, Forall (fun r => r <> [] /\ List.length r = k) rs ->
  tokenize (print_rows style rs) = ROk rs.
Proof. exact csv_roundtrip. Qed.
Print Assumptions C01_csv_roundtrip.
Theorem C01_bom : forall text, read_all (B_EF :: B_BB :: B_BF :: text) = tokenize (normalise text).
Proof. exact read_all_bom. Qed.
Print Assumptions C01_bom.
Theorem C01_crlf : forall text, ~ In CR text -> normalise (crlf text) = text.
Proof. exact normalise_crlf. Qed.
Print Assumptions C01_crlf.
Theorem C01_final_newline : forall inp, tokenize (inp ++ [NL]) = tokenize inp.
Proof. exact tokenize_final_newline. Qed.
Print Assumptions C01_final_newline.
(* --- header layer: the value read under a column name is the value written under that name, whatever the column order and
       whatever unknown extra columns are present --- *)
Theorem C01_value_under_header : forall cols c, NoDup (map fst cols) -> view (map fst cols) (map snd cols) c = assoc c cols.
Proof. exact view_assoc. Qed.
Print Assumptions C01_value_under_header.
Theorem C01_column_order : forall cols cols' c, Permutation cols cols' -> NoDup (map fst cols) ->
  view (map fst cols') (map snd cols') c = view (map fst cols) (map snd cols) c.
Proof. exact view_column_order. Qed.
Print Assumptions C01_column_order.
Theorem C01_extra_columns : forall extra cols c, NoDup (map fst (extra ++ cols)) -> ~ In c (map fst extra) ->
  view (map fst (extra ++ cols)) (map snd (extra ++ cols)) c = view (map fst cols) (map snd cols) c.
Proof. exact view_extra_columns. Qed.
Print Assumptions C01_extra_columns.
(* --- scalars: times (past 24:00:00 included), enums by their GTFS digit --- *)
Theorem C01_times : forall h m s, 0 <= h < 100 -> 0 <= m < 100 -> 0 <= s < 100 ->
  parse_gtfs_time (hms h m s) = Some (((h * 60 + m) * 60 + s) * 1000000000).
Proof. exact parse_gtfs_time_hms. Qed.
Print Assumptions C01_times.
Theorem C01_enums :
  (forall d, In d [0; 1; 2; 3; 4; 5; 6; 7; 11; 12] -> parseRouteType_GTFSStatic (show_Zs d) = d) /\
  (forall d, In d [0; 1; 2; 3] -> parsePickupDropOffPolicy (show_Zs d) = d /\ parseTransferType (show_Zs d) = d) /\
  (forall d, In d [0; 1; 2] -> parseWheelchairBoarding (show_Zs d) = d /\ parseBikesAllowed (show_Zs d) = d) /\
  (forall d, In d [1; 2; 3; 4] -> forall b, parseStopType (show_Zs d) b = d) /\
  parseDirectionID_GTFSStatic "0" = DirectionID_False /\ parseDirectionID_GTFSStatic "1" = DirectionID_True /\ parseExactTimes "1" = ScheduleBased.
Proof. exact decoder_digits. Qed.
Print Assumptions C01_enums.
(* --- one entity per valid row, in file order: the row loops are order-preserving filters --- *)
Theorem C01_routes_one_per_row : forall ags hdr r1 r2, parse_routes ags hdr (r1 ++ r2) = parse_routes ags hdr r1 ++ parse_routes ags hdr r2.
Proof. exact routes_keep_file_order. Qed.
Print Assumptions C01_routes_one_per_row.
(* ---- whole files: a file's contribution depends on the file only through, row by row, the values found under each column
   NAME (blank and absent being the same).  Two presentations of one table - any column order, any unknown extra columns - give
   the same routes / stops / transfers / trips / stop times / frequencies / shapes / services. ---- *)
Theorem C01_column_order_is_same_view : forall cols cols', Permutation cols cols' -> NoDup (map fst cols) ->
  same_view (view (map fst cols') (map snd cols')) (view (map fst cols) (map snd cols)).
Proof. exact same_view_column_order. Qed.
Print Assumptions C01_column_order_is_same_view.
Theorem C01_routes_presentation : forall h h' rows rows', same_table h rows h' rows' -> forall ags,
  has_columns h ["route_id"; "route_type"] = has_columns h' ["route_id"; "route_type"] -> parse_routes ags h rows = parse_routes ags h' rows'.
Proof. exact routes_presentation. Qed.
Print Assumptions C01_routes_presentation.
Theorem C01_stops_presentation : forall pf h h' rows rows', same_table h rows h' rows' -> forall inherit,
  has_columns h ["stop_id"] = has_columns h' ["stop_id"] -> parse_stops pf inherit h rows = parse_stops pf inherit h' rows'.
Proof. exact stops_presentation. Qed.
Print Assumptions C01_stops_presentation.
Theorem C01_transfers_presentation : forall h h' rows rows', same_table h rows h' rows' -> forall stops,
  has_columns h ["from_stop_id"; "to_stop_id"] = has_columns h' ["from_stop_id"; "to_stop_id"] -> parse_transfers stops h rows = parse_transfers stops h' rows'.
Proof. exact transfers_presentation. Qed.
Print Assumptions C01_transfers_presentation.
Theorem C01_trips_presentation : forall h h' rows rows', same_table h rows h' rows' -> forall routes services shapes,
  has_columns h ["route_id"; "service_id"; "trip_id"] = has_columns h' ["route_id"; "service_id"; "trip_id"] ->
  parse_trips routes services shapes h rows = parse_trips routes services shapes h' rows'.
Proof. exact trips_presentation. Qed.
Print Assumptions C01_trips_presentation.
Theorem C01_stop_times_presentation : forall pf h h' rows rows', same_table h rows h' rows' -> forall stops trips,
  has_columns h ["stop_id"; "stop_sequence"; "trip_id"] = has_columns h' ["stop_id"; "stop_sequence"; "trip_id"] ->
  parse_stop_times pf stops trips h rows = parse_stop_times pf stops trips h' rows'.
Proof. exact stop_times_presentation. Qed.
Print Assumptions C01_stop_times_presentation.
Theorem C01_frequencies_presentation : forall h h' rows rows', same_table h rows h' rows' -> forall trips,
  has_columns h ["trip_id"; "start_time"; "end_time"; "headway_secs"] = has_columns h' ["trip_id"; "start_time"; "end_time"; "headway_secs"] ->
  parse_frequencies trips h rows = parse_frequencies trips h' rows'.
Proof. exact frequencies_presentation. Qed.
Print Assumptions C01_frequencies_presentation.
Theorem C01_shapes_presentation : forall pf h h' rows rows', same_table h rows h' rows' ->
  has_columns h ["shape_id"; "shape_pt_lat"; "shape_pt_lon"; "shape_pt_sequence"] = has_columns h' ["shape_id"; "shape_pt_lat"; "shape_pt_lon"; "shape_pt_sequence"] ->
  parse_shapes pf h rows = parse_shapes pf h' rows'.
Proof. exact shapes_presentation. Qed.
Print Assumptions C01_shapes_presentation.
Theorem C01_calendar_presentation : forall di h h' rows rows', same_table h rows h' rows' -> forall zone m,
  has_columns h (["start_date"; "end_date"; "service_id"] ++ day_cols) = has_columns h' (["start_date"; "end_date"; "service_id"] ++ day_cols) ->
  parse_calendar di zone m h rows = parse_calendar di zone m h' rows'.
Proof. exact calendar_presentation. Qed.
Print Assumptions C01_calendar_presentation.
Theorem C01_calendar_dates_presentation : forall di h h' rows rows', same_table h rows h' rows' -> forall zone m,
  has_columns h ["service_id"; "date"; "exception_type"] = has_columns h' ["service_id"; "date"; "exception_type"] ->
  parse_calendar_dates di zone m h rows = parse_calendar_dates di zone m h' rows'.
Proof. exact calendar_dates_presentation. Qed.
Print Assumptions C01_calendar_dates_presentation.
(* ---- "exactly one entity per data row ... nothing is invented and nothing is lost", at file level, for the loops that build one
   entity per accepted row: the result holds exactly the entities of the accepted rows (membership both ways), as many as there
   are accepted rows, and - when every row is accepted, as in a well-formed feed - one per row, in file order; the entity of a
   row carries that row's own values ---- *)
Theorem C01_routes_exactly_the_valid_rows : forall ags hdr rows, has_columns hdr ["route_id"; "route_type"] = true ->
  (forall r, In r (parse_routes ags hdr rows) <-> exists cells, In cells rows /\ route_row ags (view hdr cells) = Some r) /\
  List.length (parse_routes ags hdr rows) = List.length (filter (fun cells => is_some (route_row ags (view hdr cells))) rows) /\
  (Forall (fun cells => route_row ags (view hdr cells) <> None) rows ->
     map Some (parse_routes ags hdr rows) = map (fun cells => route_row ags (view hdr cells)) rows).
Proof. exact routes_exactly_the_valid_rows. Qed.
Print Assumptions C01_routes_exactly_the_valid_rows.
Theorem C01_route_row_transcribed : forall ags v r, route_row ags v = Some r ->
  r_id r = fst (required v "route_id") /\ snd (required v "route_id") = false /\ snd (required v "route_type") = false /\
  r_color r = read_or v "route_color" "FFFFFF" /\ r_text_color r = read_or v "route_text_color" "000000" /\
  r_short r = optional v "route_short_name" /\ r_long r = optional v "route_long_name" /\ r_desc r = optional v "route_desc".
Proof. exact route_row_transcribed. Qed.
Print Assumptions C01_route_row_transcribed.
Theorem C01_transfers_exactly_the_valid_rows : forall stops hdr rows, has_columns hdr ["from_stop_id"; "to_stop_id"] = true ->
  (forall t, In t (parse_transfers stops hdr rows) <-> exists cells, In cells rows /\ transfer_row stops (view hdr cells) = Some t) /\
  List.length (parse_transfers stops hdr rows) = List.length (filter (fun cells => is_some (transfer_row stops (view hdr cells))) rows) /\
  (Forall (fun cells => transfer_row stops (view hdr cells) <> None) rows ->
     map Some (parse_transfers stops hdr rows) = map (fun cells => transfer_row stops (view hdr cells)) rows).
Proof. exact transfers_exactly_the_valid_rows. Qed.
Print Assumptions C01_transfers_exactly_the_valid_rows.
Theorem C01_trips_exactly_the_valid_rows : forall ro sv sh hdr rows, has_columns hdr ["route_id"; "service_id"; "trip_id"] = true ->
  (forall t, In t (parse_trips ro sv sh hdr rows) <-> exists cells, In cells rows /\ trip_row ro sv sh (view hdr cells) = Some t) /\
  List.length (parse_trips ro sv sh hdr rows) = List.length (filter (fun cells => is_some (trip_row ro sv sh (view hdr cells))) rows) /\
  (Forall (fun cells => trip_row ro sv sh (view hdr cells) <> None) rows ->
     map Some (parse_trips ro sv sh hdr rows) = map (fun cells => trip_row ro sv sh (view hdr cells)) rows).
Proof. exact trips_exactly_the_valid_rows. Qed.
Print Assumptions C01_trips_exactly_the_valid_rows.

Example C01_example : read_all_s "a,b
""x,""""y"",
" = Some [["a"; "b"]; ["x,""y"; ""]].
Proof. vm_compute. reflexivity. Qed.
