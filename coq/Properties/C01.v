(* Properties/C01.v — C01: static parse transcribes every valid row faithfully, whatever the presentation.
   Model: Model/Csv.v (encoding/csv + BOM handling, on the file BYTES) and Model/Static.v (static.go), tied on every run by the
   static_c01 engine: the whole *gtfs.Static (pointers as indices recovered by address) is compared with the model's result on
   the archive's member bytes, and the Go-side oracle compares it with `denote`, an independent reading of the abstract feed
   (enums by digit, H:MM:SS as seconds, dates as midnight in the FIRST agency's zone, references by id), under 3 presentations.
   PARTIAL composite: the per-layer theorems below are proved for all inputs; the single composite statement
   "parse (present p f) = denote f for every well-formed feed f and presentation p" is not assembled in Coq - it is what the
   engine's denote oracle decides on every generated feed.  (DESIGN §8 C01, fallback rule) *)
From Coq Require Import List Ascii String.
From GV Require Import Base.Prelude Base.Dec Model.Csv Proofs.CsvProofs Model.Realtime Model.Static Proofs.RealtimeProofs Proofs.StaticProofs Gen.Enums.
From Coq Require Import Permutation.

(* --- CSV layer: any quoting style, CRLF, byte-order mark, final newline --- *)
Theorem C01_csv_roundtrip : forall (style : cell -> bool) rs k, Forall (fun r => r <> [] /\ List.length r = k) rs ->
  tokenize (print_rows style rs) = ROk rs.
Proof. exact csv_roundtrip. Qed.
Print Assumptions C01_csv_roundtrip.
Theorem C01_bom : forall text, read_all (B_EF :: B_BB :: B_BF :: text) = tokenize (normalise text).
Proof. exact read_all_bom. Qed.
Print Assumptions C01_bom.
Theorem C01_crlf : forall text, ~ In CR text -> normalise (crlf text) = text.
Proof. exact normalise_crlf. Qed.
Print Assumptions C01_crlf.
Theorem C01_final_newline : forall inp, tokenize (inp ++ [NL]) = tokenize inp.
Proof. exact tokenize_final_newline. Qed.
Print Assumptions C01_final_newline.
(* --- header layer: the value read under a column name is the value written under that name, whatever the column order and
       whatever unknown extra columns are present --- *)
Theorem C01_value_under_header : forall cols c, NoDup (map fst cols) -> view (map fst cols) (map snd cols) c = assoc c cols.
Proof. exact view_assoc. Qed.
Print Assumptions C01_value_under_header.
Theorem C01_column_order : forall cols cols' c, Permutation cols cols' -> NoDup (map fst cols) ->
  view (map fst cols') (map snd cols') c = view (map fst cols) (map snd cols) c.
Proof. exact view_column_order. Qed.
Print Assumptions C01_column_order.
Theorem C01_extra_columns : forall extra cols c, NoDup (map fst (extra ++ cols)) -> ~ In c (map fst extra) ->
  view (map fst (extra ++ cols)) (map snd (extra ++ cols)) c = view (map fst cols) (map snd cols) c.
Proof. exact view_extra_columns. Qed.
Print Assumptions C01_extra_columns.
(* --- scalars: times (past 24:00:00 included), enums by their GTFS digit --- *)
Theorem C01_times : forall h m s, 0 <= h < 100 -> 0 <= m < 100 -> 0 <= s < 100 ->
  parse_gtfs_time (hms h m s) = Some (((h * 60 + m) * 60 + s) * 1000000000).
Proof. exact parse_gtfs_time_hms. Qed.
Print Assumptions C01_times.
Theorem C01_enums :
  (forall d, In d [0; 1; 2; 3; 4; 5; 6; 7; 11; 12] -> parseRouteType_GTFSStatic (show_Zs d) = d) /\
  (forall d, In d [0; 1; 2; 3] -> parsePickupDropOffPolicy (show_Zs d) = d /\ parseTransferType (show_Zs d) = d) /\
  (forall d, In d [0; 1; 2] -> parseWheelchairBoarding (show_Zs d) = d /\ parseBikesAllowed (show_Zs d) = d) /\
  (forall d, In d [1; 2; 3; 4] -> forall b, parseStopType (show_Zs d) b = d) /\
  parseDirectionID_GTFSStatic "0" = DirectionID_False /\ parseDirectionID_GTFSStatic "1" = DirectionID_True /\ parseExactTimes "1" = ScheduleBased.
Proof. exact decoder_digits. Qed.
Print Assumptions C01_enums.
(* --- one entity per valid row, in file order: the row loops are order-preserving filters --- *)
Theorem C01_routes_one_per_row : forall ags hdr r1 r2, parse_routes ags hdr (r1 ++ r2) = parse_routes ags hdr r1 ++ parse_routes ags hdr r2.
Proof. exact routes_keep_file_order. Qed.
Print Assumptions C01_routes_one_per_row.
Example C01_example : read_all_s "a,b
""x,""""y"",
" = Some [["a"; "b"]; ["x,""y"; ""]].
Proof. vm_compute. reflexivity. Qed.
