(* Properties/C04.v — C04: trips and vehicles associated in a feed point at each other.
   In the model a pointer is the key of the object it reaches (DESIGN 4.2); that what is reached has the same content as the
   top-level entry is checked on the real result by the rt_links engine (coherence flags), not proved. *)
From GV Require Import Base.Prelude Model.RtTypes Model.RtWire Model.Realtime Proofs.RealtimeProofs Proofs.LinkProofs.

(* an entity associating trip t with a vehicle that has an id records both directions at once *)
Theorem C04_association_recorded : forall a t v id, ve_id v = Some id ->
  let a' := add_trip_vehicle a (Some t) (Some v) in
  glookup tk_eqb (tr_key t) (a_t2v a') = Some id /\ glookup vi_eqb id (a_v2t a') = Some (tr_key t).
Proof. exact association_recorded. Qed.
Print Assumptions C04_association_recorded.
(* ... and with a vehicle without id (label-less, or no descriptor at all): the trip is marked as linked to an id-less vehicle
   and that vehicle's trip reference is the trip *)
Theorem C04_association_idless : forall a t v, ve_id v = None ->
  let a' := add_trip_vehicle a (Some t) (Some v) in
  In (tr_key t) (a_t2noid a') /\ exists v', In v' (a_noid a') /\ ve_trip v' = Some (tr_key t).
Proof. exact association_idless. Qed.
Print Assumptions C04_association_idless.
(* an entity that names no vehicle (or no trip) records no association *)
Theorem C04_no_association : forall a t, let a' := add_trip_vehicle a (Some t) None in
  a_t2v a' = a_t2v a /\ a_v2t a' = a_v2t a /\ a_t2noid a' = a_t2noid a /\ a_noid a' = a_noid a.
Proof. intros. cbn. repeat split. Qed.
Print Assumptions C04_no_association.
(* the final resolution: a trip's vehicle reference is exactly what the association tables say *)
Theorem C04_resolution : forall created a k t, In (k, t) (a_trips a) ->
  exists t', In t' (rt_trips (finish created a)) /\ tr_key t' = tr_key t /\
   tr_vehicle t' = match glookup tk_eqb k (a_t2v a) with Some vid => Some (Some vid)
                   | None => if existsb (tk_eqb k) (a_t2noid a) then Some None else tr_vehicle t end.
Proof.
  intros created a k t H. unfold finish. cbn [rt_trips].
  set (f := fun kt : trip_key * rt_trip => let '(k, t) := kt in match glookup tk_eqb k (a_t2v a) with
     | Some vid => set_trip_vehicle t (Some (Some vid)) | None => if existsb (tk_eqb k) (a_t2noid a) then set_trip_vehicle t (Some None) else t end).
  exists (f (k, t)). split.
  - apply (Permutation.Permutation_in _ (Permutation.Permutation_sym (Sort.isort_perm _ _ _))). apply in_map. exact H.
  - unfold f. destruct (glookup tk_eqb k (a_t2v a)); [split; reflexivity|]. destruct (existsb _ _); split; reflexivity.
Qed.
Print Assumptions C04_resolution.

(* ---- the whole result, for EVERY message and extension configuration (conflicting and repeated mentions included): a trip's
   vehicle reference leads to an element of the result's Vehicles with that id (or to an id-less vehicle whose own trip
   reference names this trip), and a vehicle's trip reference leads to an element of the result's Trips with that key.
   (Reciprocity for conflict-free feeds is the association lemmas above plus the engine's oracle on the real pointers.) ---- *)
Theorem C04_links_closed : forall cm tz cfg m, let r := parse_message cm tz cfg m in
  (forall t id, In t (rt_trips r) -> tr_vehicle t = Some (Some id) -> exists v, In v (rt_vehicles r) /\ ve_id v = Some id) /\
  (forall t, In t (rt_trips r) -> tr_vehicle t = Some None -> exists v, In v (rt_vehicles r) /\ ve_id v = None /\ ve_trip v = Some (tr_key t)) /\
  (forall v k, In v (rt_vehicles r) -> ve_trip v = Some k -> exists t, In t (rt_trips r) /\ tr_key t = k).
Proof. exact links_closed. Qed.
Print Assumptions C04_links_closed.

(* ---- reciprocity, for every message whose associations with id-bearing vehicles form a partial bijection (each trip paired with
   one vehicle id only and vice versa - the property's quantifier), whatever the entity order and however the association is
   expressed (trip update, vehicle position, or both): the association tables are mutually inverse, and in the result the
   trip's vehicle reference and that vehicle's trip reference lead to each other ---- *)
Theorem C04_tables_mutually_inverse : forall cm tz cfg l, bijective (flat_map (entity_pairs cm tz cfg) l) ->
  let a := fold_left (entity_step cm tz cfg) l acc0 in
  forall k i, glookup tk_eqb k (a_t2v a) = Some i <-> glookup vi_eqb i (a_v2t a) = Some k.
Proof. exact tables_mutually_inverse. Qed.
Print Assumptions C04_tables_mutually_inverse.
Theorem C04_links_reciprocal : forall cm tz cfg m, let p := pre_pass cfg m in let l := combine (pr_entities p) (pr_skip p) in
  bijective (flat_map (entity_pairs cm tz cfg) l) ->
  let r := parse_message cm tz cfg m in
  (forall t i, In t (rt_trips r) -> tr_vehicle t = Some (Some i) -> exists v, In v (rt_vehicles r) /\ ve_id v = Some i /\ ve_trip v = Some (tr_key t)) /\
  (forall v i k, In v (rt_vehicles r) -> ve_id v = Some i -> ve_trip v = Some k -> exists t, In t (rt_trips r) /\ tr_key t = k /\ tr_vehicle t = Some (Some i)).
Proof. exact links_reciprocal. Qed.
Print Assumptions C04_links_reciprocal.
