(* Properties/C13.v — C13: trip and vehicle hashes change exactly when the data changes.
   Only statements, each closed by a lemma of Proofs/HashProofs.v, with Print Assumptions beneath.
   hash_trip / hash_vehicle : the exact byte stream Model/Hash.v (= hash.go, tied by the "hash" engine) hands to the
   caller's hash function.  erase_* : drop zone names, the in-message flag and the vehicle back-reference (what the
   property says the hash ignores); object identity is not represented in the model at all.
   wf_* : every number fits the width of its Go type (always true of Go values) and strings are shorter than 2^64. *)
From GV Require Import Base.Prelude Base.Codec Model.RtTypes Model.RtWire Model.Realtime Model.Hash Proofs.HashProofs Proofs.HashResultProofs.

(* same hash input  <->  same data fields (ids, per update: sequence, stop, track, relationship, presence and values of
   arrival/departure time, delay, uncertainty; None is distinguished from Some 0 by the presence byte) *)
Theorem C13_trip_hash_exact : forall a b, wf_trip a -> wf_trip b ->
  (hash_trip a = hash_trip b <-> erase_trip a = erase_trip b).
Proof. exact trip_hash_exact. Qed.
Print Assumptions C13_trip_hash_exact.

Theorem C13_vehicle_hash_exact : forall a b, wf_vehicle a -> wf_vehicle b ->
  (hash_vehicle a = hash_vehicle b <-> erase_vehicle a = erase_vehicle b).
Proof. exact vehicle_hash_exact. Qed.
Print Assumptions C13_vehicle_hash_exact.

(* stronger than injectivity: prefix-free, so feeding several values into one hash.Hash stays unambiguous *)
Theorem C13_trip_hash_prefix_free : forall a b r r', wf_trip a -> wf_trip b ->
  hash_trip a ++ r = hash_trip b ++ r' -> erase_trip a = erase_trip b /\ r = r'.
Proof. exact trip_hash_prefix_free. Qed.
Print Assumptions C13_trip_hash_prefix_free.

Theorem C13_vehicle_hash_prefix_free : forall a b r r', wf_vehicle a -> wf_vehicle b ->
  hash_vehicle a ++ r = hash_vehicle b ++ r' -> erase_vehicle a = erase_vehicle b /\ r = r'.
Proof. exact vehicle_hash_prefix_free. Qed.
Print Assumptions C13_vehicle_hash_prefix_free.

(* any number of trips / vehicles hashed back to back into one hash.Hash: the stream fixes the data of each, in order *)
Theorem C13_trips_hash_sequence : forall xs ys r r', Forall wf_trip xs -> Forall wf_trip ys -> length xs = length ys ->
  concat (map hash_trip xs) ++ r = concat (map hash_trip ys) ++ r' -> map erase_trip xs = map erase_trip ys /\ r = r'.
Proof. exact trips_hash_sequence. Qed.
Print Assumptions C13_trips_hash_sequence.
Theorem C13_vehicles_hash_sequence : forall xs ys r r', Forall wf_vehicle xs -> Forall wf_vehicle ys -> length xs = length ys ->
  concat (map hash_vehicle xs) ++ r = concat (map hash_vehicle ys) ++ r' -> map erase_vehicle xs = map erase_vehicle ys /\ r = r'.
Proof. exact vehicles_hash_sequence. Qed.
Print Assumptions C13_vehicles_hash_sequence.
(* without the equal-length hypothesis: no value hashes to the empty stream, so whole streams of lists of any two lengths
   coincide only when the lists agree item by item *)
Theorem C13_trips_hash_stream_injective : forall xs ys, Forall wf_trip xs -> Forall wf_trip ys ->
  concat (map hash_trip xs) = concat (map hash_trip ys) -> map erase_trip xs = map erase_trip ys.
Proof. exact trips_hash_stream_injective. Qed.
Print Assumptions C13_trips_hash_stream_injective.
Theorem C13_vehicles_hash_stream_injective : forall xs ys, Forall wf_vehicle xs -> Forall wf_vehicle ys ->
  concat (map hash_vehicle xs) = concat (map hash_vehicle ys) -> map erase_vehicle xs = map erase_vehicle ys.
Proof. exact vehicles_hash_stream_injective. Qed.
Print Assumptions C13_vehicles_hash_stream_injective.
Theorem C13_vehicle_flush_discipline : forall v, hash_vehicle v = enc c_vehicle (ve_data v).
Proof. exact hash_vehicle_stream. Qed.
Print Assumptions C13_vehicle_flush_discipline.

(* composed with C02 (every identifier of a result carries the configured zone) and C07 (identifiers pairwise distinct): within
   ONE parsed result, for every message, zone and extension configuration, two trips with the same hash stream are the same trip -
   the zone name the hash ignores cannot make two of a result's trips collide *)
Theorem C13_result_trip_hashes_distinct : forall cm tz cfg m t1 t2,
  In t1 (rt_trips (parse_message cm tz cfg m)) -> In t2 (rt_trips (parse_message cm tz cfg m)) ->
  wf_trip t1 -> wf_trip t2 -> hash_trip t1 = hash_trip t2 -> t1 = t2.
Proof. exact result_trip_hashes_distinct. Qed.
Print Assumptions C13_result_trip_hashes_distinct.

(* what is ignored: zone presentation of equal instants, the in-message flag, Trip.Vehicle / Vehicle.Trip key *)
Theorem C13_trip_hash_ignores : forall t, hash_trip (erase_trip t) = hash_trip t.
Proof. exact trip_hash_ignores. Qed.
Print Assumptions C13_trip_hash_ignores.
Theorem C13_vehicle_hash_ignores : forall v, hash_vehicle (erase_vehicle v) = hash_vehicle v.
Proof. exact vehicle_hash_ignores. Qed.
Print Assumptions C13_vehicle_hash_ignores.

(* the buffer/flush discipline of hash.go (numbers buffered, strings written directly) amounts to plain concatenation *)
Theorem C13_flush_discipline : forall t, hash_trip t = enc c_trip (tr_data t).
Proof. exact hash_trip_stream. Qed.
Print Assumptions C13_flush_discipline.

(* non-vacuity: a concrete NYCT-like trip satisfies wf_trip; nil vs zero and a shifted string boundary give different streams *)
Example C13_example_wf : wf_trip ex_trip.
Proof. exact ex_trip_wf. Qed.
Example C13_example_nil_vs_zero : enc (c_option i32) None <> enc (c_option i32) (Some 0).
Proof. exact nil_vs_zero. Qed.
Example C13_example_boundary : enc c_str "ab" ++ enc c_str "c" <> enc c_str "a" ++ enc c_str "bc".
Proof. exact boundary. Qed.
