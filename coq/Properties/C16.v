(* Properties/C16.v — C16: NYCT trips extension derives standard fields and is transparent otherwise.
   Model: the NyctTrips part of Model/Realtime.v (extensions/nycttrips), the station set regenerated from the source
   (Gen/NyctTables.v); tied by the rt_nycttrips engine for all four option combinations. *)
From GV Require Import Base.Prelude Model.RtTypes Model.RtWire Model.Realtime Proofs.RealtimeProofs Gen.Enums Gen.NyctTables Gen.Footprint Proofs.TransparencyProofs.

(* the start time is the origin time (hundredths of a minute) truncated to whole seconds - for EVERY origin time 000000-599999 *)
Theorem C16_start_time : forall n, 0 <= n < 600000 ->
  parse_start_time (Some (origin_start_time n)) = (true, (n * 6 / 10) * 1000000000).
Proof. exact origin_start_time_parses. Qed.
Print Assumptions C16_start_time.
Theorem C16_start_time_installed : forall td n o, td_nyct td = Some n -> trip_id_origin (odflt "" (td_trip_id td)) = Some o ->
  let '(td', _, _) := nyct_update_desc td in td_start_time td' = Some (origin_start_time o).
Proof. exact nyct_start_time. Qed.
Print Assumptions C16_start_time_installed.
(* direction: False for NORTH (also when absent: the proto default), True otherwise (SOUTH) *)
Theorem C16_direction : forall cm tz td n, td_nyct td = Some n ->
  let '(td', _, _) := nyct_update_desc td in
  k_dir (parse_trip_descriptor cm tz td') =
    if odflt NyctTripDescriptor_NORTH (nt_direction n) =? NyctTripDescriptor_NORTH then DirectionID_False else DirectionID_True.
Proof. exact nyct_direction_key. Qed.
Print Assumptions C16_direction.
(* an assigned trip gets a vehicle descriptor whose id is the train id *)
Theorem C16_vehicle_from_train_id : forall td n, td_nyct td = Some n ->
  let '(_, vd, assigned) := nyct_update_desc td in
  assigned = odflt false (nt_is_assigned n) /\
  vd = if assigned then Some {| vd_id := Some (odflt "" (nt_train_id n)); vd_label := None; vd_plate := None |} else None.
Proof. exact nyct_vehicle. Qed.
Print Assumptions C16_vehicle_from_train_id.
(* track: the actual track when present, otherwise the scheduled one; nothing without the extension *)
Theorem C16_track : forall f p u, get_track (NyctTrips f p) u =
  match stu_nyct u with Some n => match ns_actual n with Some a => Some a | None => ns_sched n end | None => None end.
Proof. exact track_rule. Qed.
Print Assumptions C16_track.
(* stale filter: dropped exactly when the trip carries NYCT data, filtering is on, it is unassigned and the departure (else
   arrival) time of its first stop is missing (or there is no stop) or strictly earlier than the feed timestamp *)
Theorem C16_stale : forall filter preserve ts tu, snd (nyct_update_trip filter preserve ts tu) = true <->
  (exists n, td_nyct (tu_trip tu) = Some n /\ filter = true /\
     is_stale (odflt false (nt_is_assigned n)) (tu_stus (if preserve then tu else mswap_tu tu)) ts = true).
Proof. exact skip_iff. Qed.
Print Assumptions C16_stale.
Theorem C16_stale_rule : forall assigned stus ts, is_stale assigned stus ts = true <->
  assigned = false /\ match stus with [] => True | u :: _ => first_time u = 0 \/ first_time u < wrap64 ts end.
Proof. exact stale_iff. Qed.
Print Assumptions C16_stale_rule.
(* transparency: a descriptor without NYCT data is left alone, no vehicle is installed, nothing is skipped *)
Theorem C16_transparent : forall td, td_nyct td = None -> nyct_update_desc td = (td, None, false).
Proof. exact nyct_transparent_desc. Qed.
Print Assumptions C16_transparent.
(* the M-train swap: its own inverse, touches only N/S platforms of the listed stations and only the last byte, only on route M *)
Theorem C16_mswap_involutive : forall s, mswap_stop (mswap_stop s) = s.
Proof. exact mswap_involutive. Qed.
Print Assumptions C16_mswap_involutive.
Theorem C16_mswap_scope : forall s, mswap_stop s <> s ->
  exists a b c d d', la s = [a; b; c; d] /\ in_buggy a b c = true /\ la (mswap_stop s) = [a; b; c; d'] /\
    ((d = "N"%char /\ d' = "S"%char) \/ (d = "S"%char /\ d' = "N"%char)).
Proof. exact mswap_scope. Qed.
Print Assumptions C16_mswap_scope.
Theorem C16_mswap_only_route_M : forall tu, String.eqb (odflt "" (td_route_id (tu_trip tu))) "M" = false -> mswap_tu tu = tu.
Proof. exact mswap_tu_route. Qed.
Print Assumptions C16_mswap_only_route_M.
(* the station set the source declares is the documented one *)
Theorem C16_station_set : forall s, In s buggy_station_ids <-> In s ["M11"; "M12"; "M13"; "M14"; "M16"; "M18"].
Proof. intros s. unfold buggy_station_ids. cbn. tauto. Qed.
Print Assumptions C16_station_set.
Example C16_example : mswap_stop "M11N" = "M11S" /\ mswap_stop "M11X" = "M11X" /\ mswap_stop "M15N" = "M15N" /\ origin_start_time 67800 = "11:18:00".
Proof. vm_compute. repeat split. Qed.

(* tie to the source: the NYCT trip id pattern as it stands in nycttrips.go now (trip_id_origin implements this language) *)
Example C16_regex_source : alookup "TripIDRegex" regex_sources = Some "^([0-9]{6})_([[:alnum:]]{1,2})..([SN])([[:alnum:]]*)$".
Proof. reflexivity. Qed.

(* ---- "transparent otherwise", for the whole message: a message without NYCT data (no NYCT trip descriptor, no NYCT stop time
   update) to which the M-train platform fix does not apply (fix disabled, or no trip update on route M) parses under the nycttrips
   extension - with ANY stale-filter / platform flags - to exactly the result it parses to without extension ---- *)
Theorem C16_transparent_message : forall cm tz filter preserve m, Forall (entity_plain preserve) (fm_entities m) ->
  parse_message cm tz (NyctTrips filter preserve) m = parse_message cm tz NoExt m.
Proof. exact nycttrips_transparent. Qed.
Print Assumptions C16_transparent_message.

(* the two free positions of the NYCT trip id are CHARACTERS: how many bytes one character takes (utf8.DecodeRune's width;
   a byte that starts no valid encoding is a character of its own), and an id with multi-byte characters there still yields
   its origin time *)
Example C16_rune_widths :
  rune_len (la "a") = 1%nat /\ rune_len (la (String "194" (String "183" ""))) = 2%nat /\ rune_len (la (String "230" (String "151" (String "165" "")))) = 3%nat /\
  rune_len (la (String "240" (String "159" (String "152" (String "128" ""))))) = 4%nat /\ rune_len (la (String "255" "a")) = 1%nat /\
  rune_len (la (String "226" (String "130" "."))) = 1%nat /\ rune_len (la (String "192" (String "128" ""))) = 1%nat /\ rune_len (la (String "237" (String "160" (String "128" "")))) = 1%nat.
Proof. vm_compute. repeat split. Qed.
Example C16_multibyte_trip_id :
  trip_id_origin ("063000_GS" ++ String "226" (String "128" (String "162" "")) ++ ".S01R") = Some 63000 /\
  trip_id_origin ("000150_A" ++ String "194" (String "183" (String "194" (String "183" ""))) ++ "N") = Some 150 /\
  trip_id_origin ("197778_A" ++ String "226" (String "130" "") ++ ".S01R") = None.
Proof. vm_compute. repeat split. Qed.
(* every character of the free positions consumes between one and four bytes of the id, never more than there are *)
Theorem C16_characters_consume_bytes : forall l r, drop_char l = Some r -> (List.length r < List.length l)%nat /\ (List.length l <= List.length r + 4)%nat.
Proof. exact drop_char_shorter. Qed.
Print Assumptions C16_characters_consume_bytes.
