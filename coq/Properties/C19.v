(* Properties/C19.v — C19: the directory feed source replays files in name order and survives bad files.
   Model/DirSource.v: a directory as os.ReadDir / os.ReadFile show it (name -> readable bytes | unreadable), ParseRealtime
   as a parameter.  goods d names = the parse results of the names that read and parse, in the order of names.
   PARTIAL on the OS: real file-system behaviour is sampled by the "dirsource" engine on real temporary directories. *)
From GV Require Import Base.Prelude Base.Sort Model.DirSource Proofs.DirSourceProofs Model.Journal.
From Coq Require Import Sorted.

Section C19.
Variables (B R : Type) (parse : B -> option R).
(* calling Next until nil yields exactly the parse of each readable, parseable file once, in sorted name order;
   the loop never runs out of fuel (it terminates) *)
Theorem C19_sequence : forall d : dir B,
  drain B R parse (S (List.length d)) d (new_source B d) = Ok (goods B R parse d (new_source B d)).
Proof. exact (source_stream B R parse). Qed.
(* the order is the lexicographic (bytewise) order of all listed names, each listed name once *)
Theorem C19_name_order : forall d : dir B, NoDup (map fst d) ->
  StronglySorted (fun a b => String.ltb a b = true) (new_source B d) /\ forall n, In n (new_source B d) <-> In n (map fst d).
Proof. intros d H. split; [now apply source_sorted|apply source_names]. Qed.
(* and then it ends: once nil, always nil *)
Theorem C19_then_ends : forall (d : dir B) names fuel rest, next B R parse fuel d names = Ok (None, rest) ->
  rest = [] /\ forall f, next B R parse (S f) d rest = Ok (None, []).
Proof. exact (next_then_ends B R parse). Qed.
(* entries that cannot be read or do not parse are inert: the stream (hence the journal built from it) equals the
   stream of the directory's good files alone *)
Theorem C19_bad_files_inert : forall d : dir B, NoDup (map fst d) ->
  goods B R parse (good_only B R parse d) (new_source B (good_only B R parse d)) = goods B R parse d (new_source B d).
Proof. exact (good_only_same_stream B R parse). Qed.
End C19.
Print Assumptions C19_sequence.
Print Assumptions C19_name_order.
Print Assumptions C19_then_ends.
Print Assumptions C19_bad_files_inert.

(* composed with the journal builder (the source's only consumer in the library): the journal built from a directory, for
   any window, is the journal built from its good files alone - whatever parser turns bytes into feeds *)
Theorem C19_journal_from_directory : forall (B : Type) (parse : B -> option j_feed) (d : dir B) a b, NoDup (map fst d) ->
  build_journal (goods B j_feed parse (good_only B j_feed parse d) (new_source B (good_only B j_feed parse d))) a b =
  build_journal (goods B j_feed parse d (new_source B d)) a b.
Proof. intros B parse d a b H. exact (f_equal (fun s => build_journal s a b) (good_only_same_stream B j_feed parse d H)). Qed.
Print Assumptions C19_journal_from_directory.

Example C19_example :
  drain (option Z) Z (fun b => b) 5 [("b.pb", File (Some 2)); ("sub", Unreadable); ("a.pb", File (Some 1)); ("corrupt", File None)]
        (new_source (option Z) [("b.pb", File (Some 2)); ("sub", Unreadable); ("a.pb", File (Some 1)); ("corrupt", File None)]) = Ok [1; 2].
Proof. vm_compute. reflexivity. Qed.
