(* Properties/C06.v — C06: parsing is a pure function of bytes and options: deterministic and history-free.
   Two adversaries are quantified over.  (1) The Go runtime's map iteration order: [sh] is ANY family of permutations, a
   different one at every range statement executed; the parsers with every range statement routed through it are
   *_sh (Model/Purity.v).  (2) The caller's history: any sequence of earlier ParseRealtime calls made with the same
   options value and the same extension object.  That the input bytes are not written and that separate processes agree are
   observations of the engine (not expressible in a pure model): see evidence/C06.json. *)
From Coq Require Import Permutation.
From GV Require Import Base.Prelude Model.RtTypes Model.RtWire Model.Realtime Model.Static Model.Purity Proofs.PurityProofs Gen.Footprint Gen.Comparators Proofs.ComparatorProofs.

(* ---- determinism: no output of ParseRealtime depends on the order in which any map was iterated ---- *)
Theorem C06_realtime_order_free : forall sh, fair sh -> forall cm tz cfg m,
  parse_message_sh sh cm tz cfg m = parse_message cm tz cfg m.
Proof. exact parse_message_order_free. Qed.
Print Assumptions C06_realtime_order_free.
Corollary C06_realtime_any_two_runs : forall sh1 sh2, fair sh1 -> fair sh2 -> forall cm tz cfg m,
  parse_message_sh sh1 cm tz cfg m = parse_message_sh sh2 cm tz cfg m.
Proof. intros. rewrite !parse_message_order_free; auto. Qed.
Print Assumptions C06_realtime_any_two_runs.
(* ---- determinism: nor does any output of ParseStatic (services, shapes, per-trip stop-time sort) ---- *)
Theorem C06_static_order_free : forall sh, fair sh -> forall pf di inherit ms,
  parse_static_sh sh pf di inherit ms = parse_static pf di inherit ms.
Proof. exact parse_static_order_free. Qed.
Print Assumptions C06_static_order_free.
Corollary C06_static_any_two_runs : forall sh1 sh2, fair sh1 -> fair sh2 -> forall pf di inherit ms,
  parse_static_sh sh1 pf di inherit ms = parse_static_sh sh2 pf di inherit ms.
Proof. intros. rewrite !parse_static_order_free; auto. Qed.
Print Assumptions C06_static_any_two_runs.
(* the sorts are what makes this true: the comparators are strict total orders on the keys the accumulators can hold *)
Theorem C06_trip_order_total : forall tz a b, key_wf tz a -> key_wf tz b -> a = b \/ trip_less a b = true \/ trip_less b a = true.
Proof.
  intros tz a b Ha Hb. rewrite (trip_less_tuple tz a b Ha Hb), (trip_less_tuple tz b a Hb Ha).
  destruct (Base.Lex.s_tot sto_trip (trip_tuple a) (trip_tuple b)) as [E|H]; [left; now apply (trip_tuple_inj tz)|now right].
Qed.
Print Assumptions C06_trip_order_total.

(* ---- history: a call returns what a lone call returns, and leaves the caller's options as they were ---- *)
Theorem C06_history_free : forall cm ms o, run (call cm) o ms = (map (fun m => fst (call cm o m)) ms, o).
Proof. exact run_history_free. Qed.
Print Assumptions C06_history_free.
Theorem C06_opts_untouched : forall cm o m, snd (call cm o m) = o.
Proof. exact call_opts_untouched. Qed.
Print Assumptions C06_opts_untouched.
(* equivalent options: the same zone and the same extension configuration — whatever the extension VALUE has been through *)
Theorem C06_equivalent_options : forall cm o o' m, ro_tz o = ro_tz o' -> cfg_of o = cfg_of o' -> fst (call cm o m) = fst (call cm o' m).
Proof. exact call_equivalent_options. Qed.
Print Assumptions C06_equivalent_options.
Theorem C06_call_is_parse_message : forall cm o m, fst (call cm o (Some m)) = Ok (parse_message cm (ro_tz o) (cfg_of o) m).
Proof. exact call_result. Qed.
Print Assumptions C06_call_is_parse_message.

(* ---- the statements have content: the same theorems are FALSE of the code as it was before the repairs S12 / S13 ---- *)
Definition elevator_alert : walert :=
  {| wa_periods := []; wa_informed := []; wa_cause := None; wa_effect := None; wa_url := []; wa_header := []; wa_desc := []; wa_metadata := None |}.
Definition elevator_msg : feed_message :=
  {| fm_ts := Some 1700000000; fm_entities := [{| e_id := "A27N#EL123"; e_tu := None; e_vp := None; e_alert := Some elevator_alert |}] |}.
Definition shared_opts : rt_opts := {| ro_tz := None; ro_ext := Some (new_ext (NyctAlerts 0 false false false)) |}.
Definition n_alerts (o : outcome realtime) : nat := match o with Ok r => List.length (rt_alerts r) | _ => 0%nat end.
(* S13: the second parse with one extension value drops the elevator alert ... *)
Example C06_unrepaired_history_refuted :
  map n_alerts (fst (run (call_unrepaired (fun _ _ _ => 0)) shared_opts [Some elevator_msg; Some elevator_msg])) = [1%nat; 0%nat].
Proof. vm_compute. reflexivity. Qed.
(* ... and on the repaired call it does not *)
Example C06_history_example :
  map n_alerts (fst (run (call (fun _ _ _ => 0)) shared_opts [Some elevator_msg; Some elevator_msg])) = [1%nat; 1%nat].
Proof. vm_compute. reflexivity. Qed.
(* S12: the unrepaired call writes the caller's nil Extension slot *)
Example C06_unrepaired_opts_refuted :
  ro_ext (snd (call_unrepaired (fun _ _ _ => 0) {| ro_tz := None; ro_ext := None |} (Some elevator_msg))) <> None.
Proof. vm_compute. discriminate. Qed.
(* the adversary is not trivial: reversing every iteration is fair, and without the sorts it would show *)
Example C06_reversing_fair : fair reversing.
Proof. intros A n l. apply Permutation_sym, Permutation_rev. Qed.
Example C06_reversing_changes_iteration : reversing _ 0%nat [1; 2; 3] = [3; 2; 1].
Proof. reflexivity. Qed.

(* ---- tie to the source: the range-over-map statements and the package-level variables of the library, as extracted from
   the current source by harness/gen (Gen/Footprint.v), are exactly the ones the models account for: the three sites of
   ParseRealtime and the three of ParseStatic are the adversary's sites above (the two of BuildJournal are C15's); the
   package variables are compiled regexps, constant tables and templates — no cache, no "last seen" state ---- *)
(* every entry the translator extracts from the CURRENT source is one of the accounted ones (an entry that disappears - a variable
   turned into a function, a loop rewritten - needs no new account; a new entry breaks this) *)
Example C06_range_sites_modelled : let accounted : list (string * string) := [
  ("journal/journal.go", "activeTrips");
  ("journal/journal.go", "trips");
  ("realtime.go", "informedRoutesFromTripIDs");
  ("realtime.go", "tripsById");
  ("realtime.go", "vehiclesByID");
  ("static.go", "idToTrip");
  ("static.go", "serviceIdToService");
  ("static.go", "shapeIDToRowData")] in
  forallb (fun x => existsb (fun y => String.eqb (fst x) (fst y) && String.eqb (snd x) (snd y)) accounted) (range_over_map) = true.
Proof. vm_compute. reflexivity. Qed.
(* every entry the translator extracts from the CURRENT source is one of the accounted ones (an entry that disappears - a variable
   turned into a function, a loop rewritten - needs no new account; a new entry breaks this) *)
Example C06_package_state_modelled : let accounted : list (string * string) := [
  ("extensions/nyctalerts/nyctalerts.go", "elevatorAlertIDRegex");
  ("extensions/nyctalerts/nyctalerts.go", "priortyToEffect");
  ("extensions/nyctalerts/nyctalerts.go", "timetabledNoServicePriorities");
  ("extensions/nycttrips/nycttrips.go", "TripIDRegex");
  ("journal/export.go", "funcMap");
  ("journal/export.go", "stopTimesCsv");
  ("journal/export.go", "stopTimesCsvTmpl");
  ("journal/export.go", "tripsCsv");
  ("journal/export.go", "tripsCsvTmpl");
  ("realtime.go", "startDateRegex");
  ("realtime.go", "startTimeRegex")] in
  forallb (fun x => existsb (fun y => String.eqb (fst x) (fst y) && String.eqb (snd x) (snd y)) accounted) (package_vars) = true.
Proof. vm_compute. reflexivity. Qed.

(* ---- every collection that is assembled by ranging over a map is sorted afterwards, by comparison code that is TRANSLATED
   from the source on every run (Gen/Comparators.v) and proved to be the comparison of the model; the order-freedom
   theorems above are about sorting with exactly these ---- *)
Theorem C06_sorting_from_source :
  (gen_trip_less_note = "" -> forall a b, gen_trip_less a b = trip_less a b) /\ (gen_vehicle_less_note = "" -> forall a b, gen_vehicle_less a b = vid_less a b) /\
  (gen_service_less_note = "" -> forall a b, gen_service_less a b = String.ltb (sv_id a) (sv_id b)) /\
  (gen_stop_time_less_note = "" -> forall a b, gen_stop_time_less a b = (st_seq a <? st_seq b)) /\
  (gen_shape_row_less_note = "" -> forall a b, gen_shape_row_less a b = (sr_seq a <? sr_seq b)) /\
  (gen_shape_less_note = "" -> forall a b, gen_shape_less a b = String.ltb (sh_id a) (sh_id b)).
Proof. exact (conj gen_trip_less_ok (conj gen_vehicle_less_ok (conj gen_service_less_ok (conj gen_stop_time_less_ok (conj gen_shape_row_less_ok gen_shape_less_ok))))). Qed.
Print Assumptions C06_sorting_from_source.
