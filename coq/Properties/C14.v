(* Properties/C14.v — C14: the journal keeps passed stops and tracks the latest prediction for the rest.
   Model: Model/Journal.v (journal/journal.go, tied by the "journal" engine on every prefix of random histories).
   stops_after L us t: the required list after an update with stops us at feed time t is applied to a trip whose list is L:
     no stops      -> every entry of L, marked past (t where it had no mark yet);
     u0 :: _       -> the entries of L before the first occurrence of u0's stop (all of L dropped when it does not occur),
                      each unchanged except that an unmarked one is marked t, followed by exactly the update's stops in
                      order, carrying its arrival, departure and track, stamped t and not marked past. *)
From GV Require Import Base.Prelude Model.Journal Proofs.JournalProofs.

(* an applied update (one not ignored by the unassigned-update rule) yields exactly that list *)
Theorem C14_shape : forall tr u t, ignored tr u = false ->
  jt_stops (trip_update tr u t) = stops_after (jt_stops tr) (ut_stops u) t.
Proof. exact trip_update_stops. Qed.
Print Assumptions C14_shape.

(* marking never alters an entry's data, never overwrites an existing mark, and an entry is marked only once *)
Theorem C14_mark_preserves : forall t e,
  js_stop (mark t e) = js_stop e /\ js_arr (mark t e) = js_arr e /\ js_dep (mark t e) = js_dep e /\
  js_track (mark t e) = js_track e /\ js_last (mark t e) = js_last e /\
  js_marked (mark t e) = match js_marked e with Some m => Some m | None => Some t end.
Proof. exact mark_fields. Qed.
Print Assumptions C14_mark_preserves.
Theorem C14_mark_once : forall t t' e, mark t' (mark t e) = mark t e.
Proof. exact mark_once. Qed.
Print Assumptions C14_mark_once.

(* as long as the first stop of an update is already in the list, no entry before it is dropped *)
Theorem C14_no_drop : forall L u0 us t i, first_index_opt (stop_id_or_empty u0) L = Some i ->
  firstn i (stops_after L (u0 :: us) t) = map (mark t) (firstn i L).
Proof. exact no_drop. Qed.
Print Assumptions C14_no_drop.
Theorem C14_first_stop_found : forall s L, In s (map js_stop L) -> exists i, first_index_opt s L = Some i.
Proof. exact first_index_opt_in. Qed.
Print Assumptions C14_first_stop_found.

(* over every history: each journal entry's list is past ++ current, every past entry is marked; the current entries are
   unmarked and stamped with the trip's last-observed time, or all marked once the trip itself is marked past *)
Theorem C14_history_invariant : forall feeds, state_ok (fold_left apply_feed feeds jinit).
Proof. exact history_ok. Qed.
Print Assumptions C14_history_invariant.

Example C14_example :
  let L := [fresh 5 {| us_stop := Some "A"; us_arr := Some 7; us_dep := None; us_track := None |};
            fresh 5 {| us_stop := Some "B"; us_arr := Some 8; us_dep := None; us_track := None |};
            fresh 5 {| us_stop := Some "C"; us_arr := Some 9; us_dep := None; us_track := None |}] in
  let us := [{| us_stop := Some "B"; us_arr := Some 18; us_dep := Some 19; us_track := Some "1" |};
             {| us_stop := Some "D"; us_arr := None; us_dep := None; us_track := None |}] in
  stops_after L us 10 = [mark 10 (fresh 5 {| us_stop := Some "A"; us_arr := Some 7; us_dep := None; us_track := None |});
     fresh 10 {| us_stop := Some "B"; us_arr := Some 18; us_dep := Some 19; us_track := Some "1" |};
     fresh 10 {| us_stop := Some "D"; us_arr := None; us_dep := None; us_track := None |}].
Proof. vm_compute. reflexivity. Qed.
