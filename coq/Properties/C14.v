(* Properties/C14.v — C14: the journal keeps passed stops and tracks the latest prediction for the rest.
   Model: Model/Journal.v (journal/journal.go, tied by the "journal" engine on every prefix of random histories).
   stops_after L us t: the required list after an update with stops us at feed time t is applied to a trip whose list is L:
     no stops      -> every entry of L, marked past (t where it had no mark yet);
     u0 :: _       -> the entries of L before the first occurrence of u0's stop (all of L dropped when it does not occur),
                      each unchanged except that an unmarked one is marked t, followed by exactly the update's stops in
                      order, carrying its arrival, departure and track, stamped t and not marked past. *)
From GV Require Import Base.Prelude Model.Journal Proofs.JournalProofs Proofs.HistoryProofs.

(* an applied update (one not ignored by the unassigned-update rule) yields exactly that list *)
Theorem C14_shape : forall tr u t, ignored tr u = false ->
  jt_stops (trip_update tr u t) = stops_after (jt_stops tr) (ut_stops u) t.
Proof. exact trip_update_stops. Qed.
Print Assumptions C14_shape.

(* marking never alters an entry's data, never overwrites an existing mark, and an entry is marked only once *)
Theorem C14_mark_preserves : forall t e,
  js_stop (mark t e) = js_stop e /\ js_arr (mark t e) = js_arr e /\ js_dep (mark t e) = js_dep e /\
  js_track (mark t e) = js_track e /\ js_last (mark t e) = js_last e /\
  js_marked (mark t e) = match js_marked e with Some m => Some m | None => Some t end.
Proof. exact mark_fields. Qed.
Print Assumptions C14_mark_preserves.
Theorem C14_mark_once : forall t t' e, mark t' (mark t e) = mark t e.
Proof. exact mark_once. Qed.
Print Assumptions C14_mark_once.

(* as long as the first stop of an update is already in the list, no entry before it is dropped *)
Theorem C14_no_drop : forall L u0 us t i, first_index_opt (stop_id_or_empty u0) L = Some i ->
  firstn i (stops_after L (u0 :: us) t) = map (mark t) (firstn i L).
Proof. exact no_drop. Qed.
Print Assumptions C14_no_drop.
Theorem C14_first_stop_found : forall s L, In s (map js_stop L) -> exists i, first_index_opt s L = Some i.
Proof. exact first_index_opt_in. Qed.
Print Assumptions C14_first_stop_found.

(* over every history: each journal entry's list is past ++ current, every past entry is marked; the current entries are
   unmarked and stamped with the trip's last-observed time, or all marked once the trip itself is marked past *)
Theorem C14_history_invariant : forall feeds, state_ok (fold_left apply_feed feeds jinit).
Proof. exact history_ok. Qed.
Print Assumptions C14_history_invariant.

(* ---- over whole histories, through BuildJournal's state: the stop list of the entry of a UID is a function of that UID's
   EVENTS alone (events uid feeds: its applied updates - those not ignored by the unassigned-update rule - and the feeds
   from which it vanished, in feed order), and EVERY entry of the list is accounted for by exactly one of them: it carries the
   stop, arrival, departure and track of one stop of that update and that update's feed time as last-observed (recorded
   from an earlier feed and unchanged since); it is unmarked when that update is the last event, and otherwise marked past
   with the time of the VERY NEXT event - the first feed that no longer reported it ---- *)
Theorem C14_stops_from_events : forall uid feeds tr,
  alookup uid (st_trips (fold_left apply_feed feeds jinit)) = Some tr -> jt_stops tr = stops_of (events uid feeds).
Proof. exact journal_stops_are_event_stops. Qed.
Print Assumptions C14_stops_from_events.
Theorem C14_every_entry_accounted : forall uid feeds tr,
  alookup uid (st_trips (fold_left apply_feed feeds jinit)) = Some tr ->
  Forall (fun e => exists pre us t post u, events uid feeds = pre ++ EvUpdate us t :: post /\ In u us /\
            js_stop e = stop_id_or_empty u /\ js_arr e = us_arr u /\ js_dep e = us_dep u /\ js_track e = us_track u /\ js_last e = t /\
            js_marked e = match post with [] => None | nxt :: _ => Some (ev_time nxt) end) (jt_stops tr).
Proof. exact journal_entries_born. Qed.
Print Assumptions C14_every_entry_accounted.
(* non-vacuity: a three-feed history of one trip (update A B C at 10; update B C at 20; absent at 30) has these events *)
Example C14_events_example :
  let st s := {| us_stop := Some s; us_arr := None; us_dep := None; us_track := None |} in
  let u stops := {| ut_id := "067800_L..N"; ut_route := "L"; ut_dir := 2; ut_date := 1699938000; ut_time := 0; ut_vehicle := Some (Some "v"); ut_stops := stops |} in
  let feeds := [{| jf_created := 10; jf_trips := [u [st "A"; st "B"; st "C"]] |}; {| jf_created := 20; jf_trips := [u [st "B"; st "C"]] |}; {| jf_created := 30; jf_trips := [] |}] in
  events "1699938000_L..N" feeds = [EvUpdate [st "A"; st "B"; st "C"] 10; EvUpdate [st "B"; st "C"] 20; EvVanish 30] /\
  map js_marked (stops_of (events "1699938000_L..N" feeds)) = [Some 20; Some 30; Some 30].
Proof. vm_compute. split; reflexivity. Qed.

Example C14_example :
  let L := [fresh 5 {| us_stop := Some "A"; us_arr := Some 7; us_dep := None; us_track := None |};
            fresh 5 {| us_stop := Some "B"; us_arr := Some 8; us_dep := None; us_track := None |};
            fresh 5 {| us_stop := Some "C"; us_arr := Some 9; us_dep := None; us_track := None |}] in
  let us := [{| us_stop := Some "B"; us_arr := Some 18; us_dep := Some 19; us_track := Some "1" |};
             {| us_stop := Some "D"; us_arr := None; us_dep := None; us_track := None |}] in
  stops_after L us 10 = [mark 10 (fresh 5 {| us_stop := Some "A"; us_arr := Some 7; us_dep := None; us_track := None |});
     fresh 10 {| us_stop := Some "B"; us_arr := Some 18; us_dep := Some 19; us_track := Some "1" |};
     fresh 10 {| us_stop := Some "D"; us_arr := None; us_dep := None; us_track := None |}].
Proof. vm_compute. reflexivity. Qed.
