(* Model/Safety.v — C05: the operations of the Go code that can panic, with Go's partial semantics (indexing and slicing
   out of range, nil dereference), and the code fragments around them written with exactly the guards the source has.
   Each fragment [*_m] is the panic-aware twin of a function of the total models (Model/Csv.v, Static.v, Realtime.v,
   Journal.v), which are the ones the correspondence engines run against the code; Proofs/SafetyProofs.v shows for every
   input that the twin never panics and returns what the total function returns.  The [*_unguarded] variants are the same
   fragments without the guard (the code as it was before a repair, or as a careless edit would leave it).
   Termination: every model function is a Coq function (structural recursion over the input), except the walk to a
   stop's root, which takes fuel; Proofs shows length+1 fuel always suffices after the cycle-breaking pass.  No proofs here. *)
From GV Require Import Base.Prelude Base.Dec Model.Csv Model.Realtime Model.Static Model.Journal.

(* ---------- Go's partial operations ---------- *)
Definition go_index {A} (site : string) (l : list A) (i : Z) : outcome A :=           (* l[i] *)
  if i <? 0 then Panic site else index site l (Z.to_nat i).
Fixpoint stake (n : nat) (s : string) : string :=
  match n, s with O, _ => EmptyString | S n', String a s' => String a (stake n' s') | S _, EmptyString => EmptyString end.
Definition go_str_from (site : string) (s : string) (n : nat) : outcome string :=       (* s[n:] *)
  if (String.length s <? n)%nat then Panic site else Ok (sdrop n s).
Definition go_str_to (site : string) (s : string) (n : nat) : outcome string :=         (* s[:n] *)
  if (String.length s <? n)%nat then Panic site else Ok (stake n s).
Definition go_str_at (site : string) (s : string) (n : nat) : outcome ascii :=          (* s[n] *)
  match String.get n s with Some a => Ok a | None => Panic site end.

(* ---------- csv/csv.go: the three readers, on the column index the File computed from the header (-1: absent) ---------- *)
Definition col_index (hdr : list string) (c : string) : Z := match header_index hdr c with Some i => Z.of_nat i | None => -1 end.
(* RequiredColumn.Read: if c.i >= len(r.cells) || r.cells[c.i] == "" { missing } *)
Definition required_read_m (cells : list string) (i : Z) : outcome (string * bool) :=
  if Z.of_nat (List.length cells) <=? i then Ok ("", true) else
  do x <- go_index "csv.go:92 r.cells[c.i]" cells i;
  Ok (if String.eqb x "" then ("", true) else (x, false)).
(* OptionalColumn.Read: if c.i < 0 { return "" }; return cells[c.i] *)
Definition optional_read_m (cells : list string) (i : Z) : outcome string :=
  if i <? 0 then Ok "" else go_index "csv.go:117 cells[c.i]" cells i.
(* OptionalColumn.ReadOr *)
Definition read_or_m (cells : list string) (i : Z) (d : string) : outcome string :=
  if i <? 0 then Ok d else do x <- go_index "csv.go:126 cells[c.i]" cells i; Ok (if String.eqb x "" then d else x).

(* ---------- static.go: row loops that dereference the result of a lookup or of a number parse ---------- *)
(* parseScheduledStopTimes: idToTrip[tripID] may be nil; the row is skipped (repair S2).  Returns the trip index to append to *)
Definition stop_time_target_m (trips : list strip) (tid : string) : outcome (option nat) :=
  match find_last_index (fun t => String.eqb (tp_id t) tid) trips 0 None with
  | None => Ok None                                   (* if currentTrip == nil { continue } *)
  | Some ti => do _ <- index "static.go currentTrip.StopTimes" trips ti; Ok (Some ti)
  end.
Definition stop_time_target_unguarded (trips : list strip) (tid : string) : outcome (option nat) :=
  do ti <- deref "static.go:807 cap(thisTrip.StopTimes) on a nil trip" (find_last_index (fun t => String.eqb (tp_id t) tid) trips 0 None);
  Ok (Some ti).
(* parseShapes: *shapePtLat, *shapePtLon, *shapePtSequence after the nil checks (repair S3) *)
Definition shape_numbers_m (lat lon : option Z) (sq : option Z) : outcome (option (Z * Z * Z)) :=
  match lat, lon, sq with
  | Some _, Some _, Some _ => do a <- deref "static.go *shapePtLat" lat; do b <- deref "static.go *shapePtLon" lon; do c <- deref "static.go *shapePtSequence" sq; Ok (Some (a, b, c))
  | _, _, _ => Ok None                                (* continue *)
  end.
Definition shape_numbers_unguarded (lat lon : option Z) (sq : option Z) : outcome (option (Z * Z * Z)) :=
  do a <- deref "static.go:891 *shapePtLat" lat; do b <- deref "static.go:892 *shapePtLon" lon; do c <- deref "static.go:893 *shapePtSequence" sq; Ok (Some (a, b, c)).
(* parseRoutes: agencies[0] only when len(agencies) == 1 *)
Definition sole_agency_m (agencies : list agency) : outcome (option nat) :=
  if Nat.eqb (List.length agencies) 1 then do _ <- go_index "static.go agencies[0]" agencies 0; Ok (Some 0%nat) else Ok None.
(* ParseStatic: result.Agencies[0].Timezone only when len(result.Agencies) > 0 *)
Definition first_zone_m (agencies : list agency) : outcome string :=
  if Nat.ltb 0 (List.length agencies) then do a <- go_index "static.go result.Agencies[0]" agencies 0; Ok (ag_timezone a) else Ok "UTC".
(* Stop.Root: for { if stop.Parent == nil { return stop }; stop = stop.Parent } — with fuel *)
Definition root_m (fuel : nat) (stops : list stop) (i : nat) : outcome nat :=
  match root_fuel fuel stops i with Some r => Ok r | None => OutOfFuel end.

(* ---------- extensions ---------- *)
(* nycttrips fixMTrainPlatformsInBushwick: if len(stopID) != 4 { continue }; stopID[:3]; stopID[3] *)
Definition mswap_stop_m (s : string) : outcome string :=
  if negb (Nat.eqb (String.length s) 4) then Ok s else
  do st <- go_str_to "nycttrips.go stopID[:3]" s 3;
  if negb (existsb (String.eqb st) Gen.NyctTables.buggy_station_ids) then Ok s else
  do d <- go_str_at "nycttrips.go stopID[3]" s 3;
  if Ascii.eqb d "N" then Ok (st ++ "S")%string else if Ascii.eqb d "S" then Ok (st ++ "N")%string else Ok s.
(* nycttrips isStaleUnassignedTrip: if len(stopTimes) == 0 { return true }; stopTimes[0] *)
Definition first_update_m {A} (stus : list A) : outcome (option A) :=
  match stus with [] => Ok None | _ => do u <- go_index "nycttrips.go stopTimes[0]" stus 0; Ok (Some u) end.
(* nyctalerts getPriorityFromInformedEntity: i := strings.LastIndex(sortOrder, ":"); if i < 0 { return }; sortOrder[i+1:] *)
Definition priority_suffix_m (so : string) : outcome (option string) :=
  match last_index ":" (la so) 0 None with
  | None => Ok None
  | Some i => do s <- go_str_from "nyctalerts.go sortOrder[i+1:]" so (S i); Ok (Some s)
  end.

(* ---------- journal/journal.go ---------- *)
(* BuildJournal: if len(tripUpdate.ID.ID) < 6 { continue }; ... ID[6:]  (repair S14) *)
Definition uid_m (u : ju_trip) : outcome (option string) :=
  if (String.length (ut_id u) <? 6)%nat then Ok None else
  do suffix <- go_str_from "journal.go ID.ID[6:]" (ut_id u) 6; Ok (Some (show_Zs (start_of u) ++ suffix)%string).
Definition uid_unguarded (u : ju_trip) : outcome (option string) :=
  do suffix <- go_str_from "journal.go:128 ID.ID[6:]" (ut_id u) 6; Ok (Some (show_Zs (start_of u) ++ suffix)%string).
(* stopIDOrEmpty *)
Definition stop_id_m (u : ju_stop) : outcome string :=
  match us_stop u with None => Ok "" | Some _ => deref "journal.go *stopTimeUpdate.StopID" (us_stop u) end.
Definition stop_id_unguarded (u : ju_stop) : outcome string := deref "journal.go:251 *updates[0].StopID" (us_stop u).
(* BuildJournal: for tripUID := range activeTrips { if !newActiveTrips[tripUID] { trips[tripUID].markPast(createdAt) } }:
   trips[tripUID] is a *Trip, nil when the key is absent *)
Definition mark_gone_m (t : Z) (trips : list (string * j_trip)) (gone : list string) : outcome (list (string * j_trip)) :=
  fold_left (fun acc uid => do tr <- acc; do _ <- deref "journal.go trips[tripUID].markPast on a missing entry" (alookup uid tr); Ok (amap uid (trip_mark_past t) tr))
            gone (Ok trips).
Definition apply_feed_m (st : jstate) (f : j_feed) : outcome jstate :=
  let t := jf_created f in
  let '(trips, newActive) := fold_left (apply_trip t) (jf_trips f) (st_trips st, []) in
  let gone := filter (fun uid => negb (mem uid newActive)) (st_active st) in
  do trips' <- mark_gone_m t trips gone; Ok {| st_trips := trips'; st_active := newActive |}.
Definition run_feeds_m (feeds : list j_feed) : outcome jstate :=
  fold_left (fun acc f => do st <- acc; apply_feed_m st f) feeds (Ok jinit).
(* createPartition: stopTimes[firstUpdatedStopTimeIndex+i] behind `if firstUpdatedStopTimeIndex+i >= len(stopTimes) { break }`,
   updates[updateIndex] with updateIndex ranging over updates *)
Fixpoint run_len_m (L : list j_stop) (k : nat) (us : list ju_stop) (i : nat) : outcome nat :=
  match us with
  | [] => Ok 0%nat
  | u :: us' =>
    if (List.length L <=? k + i)%nat then Ok 0%nat else
    do e <- go_index "journal.go stopTimes[firstUpdatedStopTimeIndex+i]" L (Z.of_nat (k + i));
    do sid <- stop_id_m u;
    if String.eqb (js_stop e) sid then do n <- run_len_m L k us' (S i); Ok (S n) else Ok 0%nat
  end.
