(* Model/Conc.v — C18: calls as programs over the memory that more than one call can reach.
   A call's private memory (its maps, slices, the decoded message, the per-message extension) is not modelled: the call is a
   tree of accesses to SHARED locations ending in its result.  Shared locations: the caller's options struct (Extension
   slot, Timezone), the extension value it points to (the nyctalerts elevatorAlerts map), the input buffers, the
   package-level variables (regexps, tables, templates), and results handed from one goroutine to another.
   An execution of several calls is any interleaving of their accesses, chosen by a schedule (list of thread numbers).
   There is no synchronisation in the library, so two accesses by different threads are always unordered: a data race is
   a pair of accesses to one location from different threads of which at least one is a write.  No proofs here. *)
From GV Require Import Base.Prelude Model.RtTypes Model.RtWire Model.Realtime Model.Static Model.Purity.

Inductive loc :=
| LExtSlot (o : nat)          (* opts.Extension of options value o *)
| LTimezone (o : nat)         (* opts.Timezone of options value o *)
| LElevMap (o : nat)          (* the elevatorAlerts map inside the extension value options o points to *)
| LInput (b : nat)            (* input buffer b (realtime message bytes / zip archive bytes) *)
| LPackage (v : string)       (* a package-level variable *)
| LResult (r : nat).          (* a result object that was returned by an earlier call *)
Definition loc_eqb (a b : loc) : bool :=
  match a, b with
  | LExtSlot x, LExtSlot y | LTimezone x, LTimezone y | LElevMap x, LElevMap y | LInput x, LInput y | LResult x, LResult y => Nat.eqb x y
  | LPackage x, LPackage y => String.eqb x y
  | _, _ => false
  end.

(* what a location can hold *)
Inductive val :=
| VExt (x : option ext_cfg)              (* nil | an extension with this configuration *)
| VTz (z : option string)
| VElev (ids : list string)
| VMsg (m : option feed_message)          (* bytes, as what proto.Unmarshal makes of them *)
| VZip (ms : list (string * string))      (* bytes, as the archive's members *)
| VConst                                   (* a read-only table / regexp / template *)
| VTrip (t : rt_trip).
Definition store := loc -> val.
Definition upd (s : store) (l : loc) (v : val) : store := fun l' => if loc_eqb l l' then v else s l'.

(* a call: reads and writes of shared locations, then a result *)
Inductive prog (R : Type) :=
| Ret (r : R)
| Rd (l : loc) (k : val -> prog R)
| Wr (l : loc) (v : val) (k : prog R).
Arguments Ret {R}. Arguments Rd {R}. Arguments Wr {R}.

(* running a call alone *)
Fixpoint solo {R} (s : store) (p : prog R) : R * store :=
  match p with
  | Ret r => (r, s)
  | Rd l k => solo s (k (s l))
  | Wr l v k => solo (upd s l v) k
  end.

(* a call that never writes shared memory *)
Fixpoint wfree {R} (p : prog R) : Prop :=
  match p with Ret _ => True | Rd _ k => forall v, wfree (k v) | Wr _ _ _ => False end.

(* ---- concurrent execution ---- *)
Record access := { a_thread : nat; a_loc : loc; a_write : bool }.
Record config (R : Type) := { c_store : store; c_threads : list (prog R); c_log : list access }.
Arguments c_store {R}. Arguments c_threads {R}. Arguments c_log {R}.
Fixpoint set_nth' {A} (i : nat) (x : A) (l : list A) : list A :=
  match l, i with [], _ => [] | _ :: r, O => x :: r | y :: r, S i' => y :: set_nth' i' x r end.
(* thread i performs its next access (a finished or non-existent thread does nothing) *)
Definition step {R} (c : config R) (i : nat) : config R :=
  match nth_error (c_threads c) i with
  | Some (Rd l k) => {| c_store := c_store c; c_threads := set_nth' i (k (c_store c l)) (c_threads c);
                        c_log := c_log c ++ [{| a_thread := i; a_loc := l; a_write := false |}] |}
  | Some (Wr l v k) => {| c_store := upd (c_store c) l v; c_threads := set_nth' i k (c_threads c);
                          c_log := c_log c ++ [{| a_thread := i; a_loc := l; a_write := true |}] |}
  | _ => c
  end.
Definition exec {R} (s : store) (ps : list (prog R)) (sched : list nat) : config R :=
  fold_left step sched {| c_store := s; c_threads := ps; c_log := [] |}.
Definition result_of {R} (p : prog R) : option R := match p with Ret r => Some r | _ => None end.
Definition finished {R} (c : config R) : Prop := Forall (fun p => result_of p <> None) (c_threads c).

Definition conflict (a b : access) : bool :=
  negb (Nat.eqb (a_thread a) (a_thread b)) && loc_eqb (a_loc a) (a_loc b) && (a_write a || a_write b).
Definition racy (log : list access) : Prop := exists a b, In a log /\ In b log /\ conflict a b = true.

(* ---- the library's entry points as programs ---- *)
Definition as_ext (v : val) : option ext_cfg := match v with VExt x => x | _ => None end.
Definition as_tz (v : val) : option string := match v with VTz z => z | _ => None end.
Definition as_msg (v : val) : option feed_message := match v with VMsg m => m | _ => None end.
Definition as_zip (v : val) : list (string * string) := match v with VZip ms => ms | _ => [] end.
Definition as_elev (v : val) : list string := match v with VElev l => l | _ => [] end.

(* the package-level variables ParseRealtime's code path can read *)
Definition rt_package_reads : list string :=
  ["startDateRegex"; "startTimeRegex"; "TripIDRegex"; "elevatorAlertIDRegex"; "priortyToEffect"; "timetabledNoServicePriorities"].
Fixpoint read_all {R} (vars : list string) (k : prog R) : prog R :=
  match vars with [] => k | v :: r => Rd (LPackage v) (fun _ => read_all r k) end.

(* ParseRealtime(input b, options o), realtime.go:264-278 as repaired: the options are read, never written; a nil Extension is
   replaced on a private copy; a per-message extension (ForMessage) is used, so the shared extension's map is not touched *)
Definition parse_realtime_prog (cm : Z -> Z -> Z -> Z) (o b : nat) : prog (outcome realtime) :=
  Rd (LExtSlot o) (fun e => Rd (LTimezone o) (fun z => Rd (LInput b) (fun m =>
    read_all rt_package_reads
      (Ret (fst (call cm {| ro_tz := as_tz z; ro_ext := omap new_ext (as_ext e) |} (as_msg m))))))).
(* the same call before the repairs: S12 writes the Extension slot when it is nil; S13 reads and writes the shared map *)
Definition parse_realtime_unrepaired (cm : Z -> Z -> Z -> Z) (o b : nat) : prog (outcome realtime) :=
  Rd (LExtSlot o) (fun e =>
    let fill k := match as_ext e with None => Wr (LExtSlot o) (VExt (Some NoExt)) k | Some _ => k end in
    fill (Rd (LTimezone o) (fun z => Rd (LInput b) (fun m => Rd (LElevMap o) (fun el =>
      let cfg := odflt NoExt (as_ext e) in
      let '(res, o') := call_unrepaired cm {| ro_tz := as_tz z; ro_ext := Some {| xo_cfg := cfg; xo_elev := as_elev el |} |} (as_msg m) in
      Wr (LElevMap o) (VElev (match ro_ext o' with Some x => xo_elev x | None => [] end)) (Ret res)))))).

(* ParseStatic(input b, options by value): reads the archive only *)
Section StaticProg.
Variable pf : string -> option Z.
Variable di : string -> string -> option Z.
Definition parse_static_prog (inherit : bool) (b : nat) : prog (outcome static) :=
  Rd (LInput b) (fun z => Ret (parse_static pf di inherit (as_zip z))).
End StaticProg.

(* reading / hashing / walking a result returned by call r: reads that result only *)
Definition read_result_prog {R} (f : val -> R) (r : nat) : prog R := Rd (LResult r) (fun v => Ret (f v)).

(* any mix of entry points running at once *)
Fixpoint pmap {A B} (f : A -> B) (p : prog A) : prog B :=
  match p with Ret r => Ret (f r) | Rd l k => Rd l (fun v => pmap f (k v)) | Wr l v k => Wr l v (pmap f k) end.
Inductive entry :=
| EParseRealtime (opts input : nat)
| EParseStatic (inherit : bool) (input : nat)
| EReadResult (r : nat).
Inductive answer := ARealtime (r : outcome realtime) | AStatic (r : outcome static) | ARead (v : val).
Section Entries.
Variable cm : Z -> Z -> Z -> Z.
Variable pf : string -> option Z.
Variable di : string -> string -> option Z.
Definition prog_of (e : entry) : prog answer :=
  match e with
  | EParseRealtime o b => pmap ARealtime (parse_realtime_prog cm o b)
  | EParseStatic inh b => pmap AStatic (parse_static_prog pf di inh b)
  | EReadResult r => pmap ARead (read_result_prog (fun v => v) r)
  end.
(* what each entry point returns when it runs alone on memory s *)
Definition alone (s : store) (e : entry) : answer :=
  match e with
  | EParseRealtime o b => ARealtime (fst (call cm {| ro_tz := as_tz (s (LTimezone o)); ro_ext := omap new_ext (as_ext (s (LExtSlot o))) |} (as_msg (s (LInput b)))))
  | EParseStatic inh b => AStatic (parse_static pf di inh (as_zip (s (LInput b))))
  | EReadResult r => ARead (s (LResult r))
  end.
End Entries.
