(* Model/RtTypes.v — the Go result types of realtime.go as Gallina records (DESIGN 4.1, 4.2, App. E).
   Field order follows the Go structs.  Pointers into heap objects are modelled by keys:
   a trip refers to its vehicle by the vehicle's id (or "the id-less one attached to me"),
   a vehicle refers to its trip by the trip key. *)
From GV Require Import Base.Prelude.

(* time.Time as produced by the parser: whole Unix seconds + the name of its *time.Location *)
Definition instant := (Z * string)%type.
Definition zero_instant : instant := (-62135596800, "UTC").     (* time.Time{} *)

(* gtfs.StopTimeEvent *)
Record rt_event := { ev_time : option instant; ev_delay : option Z (* time.Duration, ns *); ev_unc : option Z }.
(* gtfs.StopTimeUpdate *)
Record rt_stu := { su_seq : option Z; su_stop : option string; su_arr : option rt_event; su_dep : option rt_event;
                   su_track : option string; su_rel : Z }.
(* gtfs.TripID *)
Record trip_key := { k_id : string; k_route : string; k_dir : Z;
                     k_has_time : bool; k_time : Z (* time.Duration, ns *);
                     k_has_date : bool; k_date : instant; k_rel : Z }.
(* gtfs.VehicleID *)
Record vehicle_id := { vi_id : string; vi_label : string; vi_plate : string }.
(* gtfs.Position: float bit patterns (float32: 32 bits, Odometer float64: 64 bits) *)
Record rt_position := { po_lat : option Z; po_lon : option Z; po_bearing : option Z; po_odo : option Z; po_speed : option Z }.

(* gtfs.Trip.  tr_vehicle: None = nil; Some None = points at an id-less vehicle; Some (Some id) = at vehicle id *)
Record rt_trip := { tr_key : trip_key; tr_stus : list rt_stu; tr_vehicle : option (option vehicle_id); tr_in_msg : bool }.
(* gtfs.Vehicle *)
Record rt_vehicle := { ve_id : option vehicle_id; ve_trip : option trip_key; ve_pos : option rt_position;
                       ve_seq : option Z; ve_stop : option string; ve_status : option Z; ve_ts : option instant;
                       ve_congestion : Z; ve_occ : option Z; ve_occ_pct : option Z; ve_in_msg : bool }.
(* gtfs.AlertInformedEntity, gtfs.Alert *)
Record informed_entity := { ie_agency : option string; ie_route : option string; ie_route_type : Z; ie_dir : Z;
                            ie_trip : option trip_key; ie_stop : option string }.
Record rt_alert := { al_id : string; al_cause : Z; al_effect : Z;
                     al_periods : list (option instant * option instant);
                     al_informed : list informed_entity;
                     al_header : list (string * string); al_desc : list (string * string); al_url : list (string * string) }.
(* gtfs.Realtime *)
Record realtime := { rt_created : instant; rt_trips : list rt_trip; rt_vehicles : list rt_vehicle; rt_alerts : list rt_alert }.

(* decidable equality, computable (used by the case files) *)
Definition Z_eq_dec := Z.eq_dec.
Definition instant_eq_dec : forall a b : instant, {a = b} + {a <> b} := pair_eq_dec Z.eq_dec string_dec.
Definition oZ_eq_dec := option_eq_dec Z.eq_dec.
Definition ostr_eq_dec := option_eq_dec string_dec.
Definition oinst_eq_dec := option_eq_dec instant_eq_dec.
Definition rt_event_eq_dec : forall a b : rt_event, {a = b} + {a <> b}.
Proof. decide equality; auto using oZ_eq_dec, oinst_eq_dec. Defined.
Definition rt_stu_eq_dec : forall a b : rt_stu, {a = b} + {a <> b}.
Proof. decide equality; auto using Z.eq_dec, oZ_eq_dec, ostr_eq_dec, (option_eq_dec rt_event_eq_dec). Defined.
Definition trip_key_eq_dec : forall a b : trip_key, {a = b} + {a <> b}.
Proof. decide equality; auto using Z.eq_dec, string_dec, bool_dec, instant_eq_dec. Defined.
Definition vehicle_id_eq_dec : forall a b : vehicle_id, {a = b} + {a <> b}.
Proof. decide equality; auto using string_dec. Defined.
Definition rt_position_eq_dec : forall a b : rt_position, {a = b} + {a <> b}.
Proof. decide equality; auto using oZ_eq_dec. Defined.
Definition rt_trip_eq_dec : forall a b : rt_trip, {a = b} + {a <> b}.
Proof. decide equality; auto using bool_dec, trip_key_eq_dec, (list_eq_dec rt_stu_eq_dec),
  (option_eq_dec (option_eq_dec vehicle_id_eq_dec)). Defined.
Definition rt_vehicle_eq_dec : forall a b : rt_vehicle, {a = b} + {a <> b}.
Proof. decide equality; auto using bool_dec, Z.eq_dec, oZ_eq_dec, ostr_eq_dec, oinst_eq_dec,
  (option_eq_dec vehicle_id_eq_dec), (option_eq_dec trip_key_eq_dec), (option_eq_dec rt_position_eq_dec). Defined.
Definition informed_entity_eq_dec : forall a b : informed_entity, {a = b} + {a <> b}.
Proof. decide equality; auto using Z.eq_dec, ostr_eq_dec, (option_eq_dec trip_key_eq_dec). Defined.
Definition text_eq_dec : forall a b : list (string * string), {a = b} + {a <> b} :=
  list_eq_dec (pair_eq_dec string_dec string_dec).
Definition rt_alert_eq_dec : forall a b : rt_alert, {a = b} + {a <> b}.
Proof. decide equality; auto using Z.eq_dec, string_dec, text_eq_dec, (list_eq_dec informed_entity_eq_dec),
  (list_eq_dec (pair_eq_dec oinst_eq_dec oinst_eq_dec)). Defined.
Definition realtime_eq_dec : forall a b : realtime, {a = b} + {a <> b}.
Proof. decide equality; auto using instant_eq_dec, (list_eq_dec rt_trip_eq_dec), (list_eq_dec rt_vehicle_eq_dec),
  (list_eq_dec rt_alert_eq_dec). Defined.
