(* Model/Hash.v — hash.go, line by line.  The hasher has two sinks: the caller's hash.Hash (h.h) and a
   bytes.Buffer (h.b) in which binary.Write accumulates fixed-width numbers until flush().  The model keeps
   both so that the flush discipline is part of what is checked, not assumed. *)
From GV Require Import Base.Prelude Model.RtTypes.

Record hasher := { h_out : list Z (* bytes handed to hash.Hash.Write, in order *); h_buf : list Z (* bytes.Buffer *) }.
Definition h_init : hasher := {| h_out := []; h_buf := [] |}.

(* hash.go:34-37 *)
Definition flush (h : hasher) : hasher := {| h_out := h_out h ++ h_buf h; h_buf := [] |}.
(* hash.go:120-125, one instance per Go kind width *)
Definition number (k : nat) (n : Z) (h : hasher) : hasher := {| h_out := h_out h; h_buf := h_buf h ++ le_bytes k n |}.
Definition hbool (b : bool) : hasher -> hasher := number 1 (if b then 1 else 0).
(* hash.go:100-104 *)
Definition hstring (s : string) (h : hasher) : hasher :=
  let h1 := flush (number 8 (Z.of_nat (String.length s)) h) in
  {| h_out := h_out h1 ++ bytes_of s; h_buf := h_buf h1 |}.
(* hash.go:106-111: hashNumberPtr *)
Definition number_ptr (k : nat) (o : option Z) (h : hasher) : hasher :=
  match o with None => hbool true h | Some n => number k n (hbool false h) end.
(* hash.go:113-118 *)
Definition string_ptr (o : option string) (h : hasher) : hasher :=
  match o with None => hbool true h | Some s => hstring s (hbool false h) end.
(* hash.go:127-134: only Unix() of the instant is hashed *)
Definition time_ptr (o : option instant) : hasher -> hasher := number_ptr 8 (omap fst o).

(* hash.go:55-68 *)
Definition hevent (e : option rt_event) (h : hasher) : hasher :=
  match e with
  | None => hbool true h
  | Some ev => number_ptr 4 (ev_unc ev) (number_ptr 8 (ev_delay ev) (time_ptr (ev_time ev) (hbool false h)))
  end.
(* hash.go:49-69, one iteration *)
Definition hstu (h : hasher) (u : rt_stu) : hasher :=
  hevent (su_dep u) (hevent (su_arr u) (number 4 (su_rel u) (string_ptr (su_track u) (string_ptr (su_stop u)
    (number_ptr 4 (su_seq u) h))))).
(* hash.go:39-70 *)
Definition htrip (t : rt_trip) (h : hasher) : hasher :=
  let k := tr_key t in
  let h := hstring (k_id k) h in
  let h := hstring (k_route k) h in
  let h := number 1 (k_dir k) h in
  let h := hbool (k_has_date k) h in
  let h := number 8 (fst (k_date k)) h in
  let h := hbool (k_has_time k) h in
  let h := number 8 (k_time k) h in
  let h := number 8 (Z.of_nat (List.length (tr_stus t))) h in
  let h := number 4 (k_rel k) h in
  fold_left hstu (tr_stus t) h.

(* a vehicle together with the trip object its Trip pointer reaches *)
Record hvehicle := { hv : rt_vehicle; hv_trip : option rt_trip }.
(* hash.go:72-98 *)
Definition hvehicle_body (v : hvehicle) (h : hasher) : hasher :=
  let h := match ve_id (hv v) with
           | None => hbool true h
           | Some i => hstring (vi_plate i) (hstring (vi_label i) (hstring (vi_id i) (hbool false h))) end in
  let h := match hv_trip v with None => hbool true h | Some t => htrip t (hbool false h) end in
  let h := match ve_pos (hv v) with
           | None => hbool true h
           | Some p => number_ptr 4 (po_speed p) (number_ptr 8 (po_odo p) (number_ptr 4 (po_bearing p)
                         (number_ptr 4 (po_lon p) (number_ptr 4 (po_lat p) (hbool false h))))) end in
  let h := number_ptr 4 (ve_seq (hv v)) h in
  let h := string_ptr (ve_stop (hv v)) h in
  let h := number_ptr 4 (ve_status (hv v)) h in
  let h := time_ptr (ve_ts (hv v)) h in
  let h := number 4 (ve_congestion (hv v)) h in
  let h := number_ptr 4 (ve_occ (hv v)) h in
  number_ptr 4 (ve_occ_pct (hv v)) h.

(* hash.go:14-27: what the caller's hash function receives *)
Definition hash_trip (t : rt_trip) : list Z := h_out (flush (htrip t h_init)).
Definition hash_vehicle (v : hvehicle) : list Z := h_out (flush (hvehicle_body v h_init)).
