(* Model/Realtime.v — realtime.go (ParseRealtime and its helpers), extensions/nycttrips and extensions/nyctalerts,
   function by function with the same accumulators (tripsById, vehiclesByID, tripIDToVehicleID, vehicleIDToTripID,
   vehiclesWithNoID, tripIDToVehicleWithNoID; informedRoutes, informedRoutesFromTripIDs; elevatorAlerts).
   Pointers into heap objects are keys (DESIGN 4.2).  Oracles: [cm y m d] = time.Date(y, m, d, 0,0,0,0, zone).Unix().
   No proofs here. *)
From GV Require Import Base.Prelude Base.Dec Base.Sort Model.RtTypes Model.RtWire Gen.Enums Gen.NyctTables.

(* ---------- small string / byte helpers ---------- *)
Definition la (s : string) : list ascii := list_ascii_of_string s.
Definition bval (a : ascii) : Z := byte_of a.
Definition a_digit (a : ascii) : bool := is_digit (bval a).
Definition a_alnum (a : ascii) : bool :=
  let c := bval a in is_digit c || ((65 <=? c) && (c <=? 90)) || ((97 <=? c) && (c <=? 122)).
Definition wrap64 (z : Z) : Z := let m := z mod 2 ^ 64 in if m <? 2 ^ 63 then m else m - 2 ^ 64.
Definition wrap32 (z : Z) : Z := let m := z mod 2 ^ 32 in if m <? 2 ^ 31 then m else m - 2 ^ 32.
Definition digits_val (l : list ascii) : Z := acc_digits (map bval l) 0.
Fixpoint starts_with (p s : list ascii) : bool :=
  match p, s with [], _ => true | a :: p', b :: s' => Ascii.eqb a b && starts_with p' s' | _ :: _, [] => false end.
Definition has_prefix (p s : string) : bool := starts_with (la p) (la s).

(* strconv.Atoi: optional sign, at least one digit, nothing else; int64 range *)
Definition atoi (s : string) : option Z :=
  let l := la s in
  let '(neg, ds) := match l with
                    | a :: r => if Ascii.eqb a "-" then (true, r) else if Ascii.eqb a "+" then (false, r) else (false, l)
                    | [] => (false, []) end in
  match ds with
  | [] => None
  | _ => if forallb a_digit ds then
           let v := digits_val ds in let v := if neg then - v else v in
           if (- 2 ^ 63 <=? v) && (v <? 2 ^ 63) then Some v else None
         else None
  end.

(* ---------- time zone ---------- *)
Definition zone_name (tz : option string) : string := odflt "UTC" tz.          (* timezoneOrUTC *)
Definition in_zone (tz : option string) (unix : Z) : instant := (unix, zone_name tz).   (* time.Unix(x,0).In(zone) *)
Definition opt_ts (tz : option string) (o : option Z) : option instant := omap (fun t => in_zone tz (wrap64 t)) o.   (* convertOptionalTimestamp: int64(uint64) *)

(* ---------- trip descriptors (realtime.go:483-535, enums.go:60-68) ---------- *)
Definition direction_rt (o : option Z) : Z :=
  match o with None => DirectionID_Unspecified | Some d => if d =? 0 then DirectionID_False else DirectionID_True end.
(* ^([0-9]{2}):([0-9]{2}):([0-9]{2})$ *)
Definition parse_start_time (o : option string) : bool * Z :=
  match o with
  | None => (false, 0)
  | Some s =>
    match la s with
    | [h1; h2; c1; m1; m2; c2; s1; s2] =>
      if a_digit h1 && a_digit h2 && Ascii.eqb c1 ":" && a_digit m1 && a_digit m2 && Ascii.eqb c2 ":" && a_digit s1 && a_digit s2
      then (true, ((digits_val [h1; h2] * 60 + digits_val [m1; m2]) * 60 + digits_val [s1; s2]) * 1000000000)
      else (false, 0)
    | _ => (false, 0)
    end
  end.
Section Oracles.
Variable cm : Z -> Z -> Z -> Z.     (* time.Date(y, time.Month(m), d, 0, 0, 0, 0, zone).Unix() for the configured zone *)
Variable tz : option string.

(* ^([0-9]{4})([0-9]{2})([0-9]{2})$ *)
Definition parse_start_date (o : option string) : bool * instant :=
  match o with
  | None => (false, zero_instant)
  | Some s =>
    match la s with
    | [y1; y2; y3; y4; m1; m2; d1; d2] =>
      if forallb a_digit [y1; y2; y3; y4; m1; m2; d1; d2]
      then (true, (cm (digits_val [y1; y2; y3; y4]) (digits_val [m1; m2]) (digits_val [d1; d2]), zone_name tz))
      else (false, zero_instant)
    | _ => (false, zero_instant)
    end
  end.
Definition parse_trip_descriptor (td : trip_desc) : trip_key :=
  let '(ht, t) := parse_start_time (td_start_time td) in
  let '(hd, d) := parse_start_date (td_start_date td) in
  {| k_id := odflt "" (td_trip_id td); k_route := odflt "" (td_route_id td); k_dir := direction_rt (td_direction_id td);
     k_has_time := ht; k_time := t; k_has_date := hd; k_date := d; k_rel := odflt TripDescriptor_SCHEDULED (td_rel td) |}.

(* realtime.go:537-557 *)
Definition parse_vehicle_descriptor (o : option veh_desc) : option vehicle_id :=
  match o with
  | None => None
  | Some v =>
    let id := {| vi_id := odflt "" (vd_id v); vi_label := odflt "" (vd_label v); vi_plate := odflt "" (vd_plate v) |} in
    if String.eqb (vi_id id) "" && String.eqb (vi_label id) "" && String.eqb (vi_plate id) "" then None else Some id
  end.

(* ---------- extension: GetTrack ---------- *)
Definition get_track (cfg : ext_cfg) (u : st_update) : option string :=
  match cfg with
  | NyctTrips _ _ => match stu_nyct u with
                     | Some n => match ns_actual n with Some a => Some a | None => ns_sched n end
                     | None => None end
  | _ => None
  end.

(* ---------- trip updates and vehicle positions (realtime.go:378-465) ---------- *)
Definition convert_event (o : option st_event) : option rt_event :=
  omap (fun e => {| ev_time := omap (fun t => in_zone tz t) (se_time e);
                    ev_delay := omap (fun d => d * 1000000000) (se_delay e);
                    ev_unc := se_unc e |}) o.
Definition convert_stu (cfg : ext_cfg) (u : st_update) : rt_stu :=
  {| su_seq := stu_seq u; su_stop := stu_stop u; su_arr := convert_event (stu_arr u); su_dep := convert_event (stu_dep u);
     su_track := get_track cfg u; su_rel := odflt TripUpdate_StopTimeUpdate_SCHEDULED (stu_rel u) |}.
Definition bare_vehicle (id : option vehicle_id) (inmsg : bool) : rt_vehicle :=
  {| ve_id := id; ve_trip := None; ve_pos := None; ve_seq := None; ve_stop := None; ve_status := None; ve_ts := None;
     ve_congestion := 0; ve_occ := None; ve_occ_pct := None; ve_in_msg := inmsg |}.
Definition bare_trip (k : trip_key) : rt_trip := {| tr_key := k; tr_stus := []; tr_vehicle := None; tr_in_msg := false |}.
Definition parse_trip_update (cfg : ext_cfg) (tu : trip_update) : rt_trip * option rt_vehicle :=
  ({| tr_key := parse_trip_descriptor (tu_trip tu); tr_stus := map (convert_stu cfg) (tu_stus tu); tr_vehicle := None; tr_in_msg := true |},
   match tu_vehicle tu with None => None | Some v => Some (bare_vehicle (parse_vehicle_descriptor (Some v)) false) end).
Definition parse_vehicle (vp : veh_pos) : option rt_trip * rt_vehicle :=
  (omap (fun td => bare_trip (parse_trip_descriptor td)) (vp_trip vp),
   {| ve_id := parse_vehicle_descriptor (vp_vehicle vp);
      ve_trip := None;
      ve_pos := omap (fun p => {| po_lat := ps_lat p; po_lon := ps_lon p; po_bearing := ps_bearing p; po_odo := ps_odo p; po_speed := ps_speed p |}) (vp_position vp);
      ve_seq := vp_seq vp; ve_stop := vp_stop vp; ve_status := vp_status vp; ve_ts := opt_ts tz (vp_ts vp);
      ve_congestion := odflt VehiclePosition_UNKNOWN_CONGESTION_LEVEL (vp_cong vp); ve_occ := vp_occ vp; ve_occ_pct := vp_occ_pct vp; ve_in_msg := true |}).

(* ---------- alerts (realtime.go:559-692) ---------- *)
Definition route_type_rt (o : option Z) : Z :=
  match o with None => RouteType_Unknown | Some v => parseRouteType_GTFSStatic (show_Zs v) end.
Definition identifies (k : trip_key) : bool :=      (* tripIDUniquelyIdentifiesTrip on a non-nil id *)
  negb (String.eqb (k_id k) "") ||
  (negb (String.eqb (k_route k) "") && negb (k_dir k =? DirectionID_Unspecified) && k_has_time k && k_has_date k).
Definition informs_something (e : informed_entity) : bool :=
  is_some (ie_agency e) || is_some (ie_route e) || negb (ie_route_type e =? RouteType_Unknown) ||
  match ie_trip e with Some k => identifies k | None => false end || is_some (ie_stop e).
(* informedRoutesFromTripIDs: route id -> (False informed?, True informed?) *)
Definition dirs_update (k : trip_key) (m : list (string * (bool * bool))) : list (string * (bool * bool)) :=
  if k_dir k =? DirectionID_Unspecified then aset (k_route k) (true, true) m
  else let '(f, t) := odflt (false, false) (alookup (k_route k) m) in
       aset (k_route k) (if k_dir k =? DirectionID_False then (true, t) else (f, true)) m.
Record alert_acc := { aa_entities : list informed_entity; aa_trips : list rt_trip; aa_routes : list string; aa_from_trips : list (string * (bool * bool)) }.
Definition alert_step (acc : alert_acc) (s : selector) : alert_acc :=
  let ko := omap parse_trip_descriptor (sl_trip s) in
  let from_trips := match ko with
                    | Some k => if negb (identifies k) && negb (String.eqb (k_route k) "") then dirs_update k (aa_from_trips acc) else aa_from_trips acc
                    | None => aa_from_trips acc end in
  let routes := match sl_route s with Some r => r :: aa_routes acc | None => aa_routes acc end in
  let e := {| ie_agency := sl_agency s; ie_route := sl_route s; ie_route_type := route_type_rt (sl_route_type s);
              ie_dir := direction_rt (sl_direction s); ie_trip := ko; ie_stop := sl_stop s |} in
  if negb (informs_something e) then {| aa_entities := aa_entities acc; aa_trips := aa_trips acc; aa_routes := routes; aa_from_trips := from_trips |}
  else match ko with
       | Some k => if identifies k
                   then {| aa_entities := aa_entities acc ++ [e]; aa_trips := aa_trips acc ++ [bare_trip k]; aa_routes := routes; aa_from_trips := from_trips |}
                   else {| aa_entities := aa_entities acc ++ [{| ie_agency := ie_agency e; ie_route := ie_route e; ie_route_type := ie_route_type e; ie_dir := ie_dir e; ie_trip := None; ie_stop := ie_stop e |}];
                           aa_trips := aa_trips acc; aa_routes := routes; aa_from_trips := from_trips |}
       | None => {| aa_entities := aa_entities acc ++ [e]; aa_trips := aa_trips acc; aa_routes := routes; aa_from_trips := from_trips |}
       end.
Definition route_entity (r : string) (d : Z) : informed_entity :=
  {| ie_agency := None; ie_route := Some r; ie_route_type := RouteType_Unknown; ie_dir := d; ie_trip := None; ie_stop := None |}.
(* the fallback entities, in sorted route id order *)
Definition fallback_entities (acc : alert_acc) : list informed_entity :=
  flat_map (fun r =>
    if existsb (String.eqb r) (aa_routes acc) then [] else
    match alookup r (aa_from_trips acc) with
    | Some (f, t) => [route_entity r (if f && t then DirectionID_Unspecified else if f then DirectionID_False else DirectionID_True)]
    | None => []
    end) (isort string String.ltb (map fst (aa_from_trips acc))).
Definition parse_alert (id : string) (a : walert) : rt_alert * list rt_trip :=
  let acc := fold_left alert_step (wa_informed a) {| aa_entities := []; aa_trips := []; aa_routes := []; aa_from_trips := [] |} in
  ({| al_id := id; al_cause := odflt Alert_UNKNOWN_CAUSE (wa_cause a); al_effect := odflt Alert_UNKNOWN_EFFECT (wa_effect a);
      al_periods := map (fun p => (opt_ts tz (fst p), opt_ts tz (snd p))) (wa_periods a);
      al_informed := aa_entities acc ++ fallback_entities acc;
      al_header := wa_header a; al_desc := wa_desc a; al_url := wa_url a |}, aa_trips acc).
End Oracles.

(* ================= extensions/nycttrips ================= *)
(* TripIDRegex: six digits, underscore, 1-2 alnum, two arbitrary CHARACTERS (not LF), S or N, alnum until the end.  Go's regexp
   reads the id rune by rune: `.` consumes one UTF-8 encoded character (1-4 bytes); a byte that does not start a valid encoding
   is read as U+FFFD and consumes that one byte.  rune_len is the width utf8.DecodeRune reports (the exact validity ranges:
   no overlong forms, no surrogates, nothing above U+10FFFF). *)
Definition not_nl (a : ascii) : bool := negb (Ascii.eqb a "010").
Definition in_range (lo hi : Z) (a : ascii) : bool := (lo <=? bval a) && (bval a <=? hi).
Definition cont (a : ascii) : bool := in_range 128 191 a.
Definition rune_len (l : list ascii) : nat :=
  match l with
  | [] => 0%nat
  | a :: r =>
    let c := bval a in
    if c <? 128 then 1%nat
    else if in_range 194 223 a then match r with b :: _ => if cont b then 2%nat else 1%nat | [] => 1%nat end
    else if in_range 224 239 a then
      match r with
      | b :: d :: _ =>
        let ok2 := if c =? 224 then in_range 160 191 b else if c =? 237 then in_range 128 159 b else cont b in
        if ok2 && cont d then 3%nat else 1%nat
      | _ => 1%nat end
    else if in_range 240 244 a then
      match r with
      | b :: d :: e :: _ =>
        let ok2 := if c =? 240 then in_range 144 191 b else if c =? 244 then in_range 128 143 b else cont b in
        if ok2 && cont d && cont e then 4%nat else 1%nat
      | _ => 1%nat end
    else 1%nat
  end.
(* one character that is not LF: the rest of the list after it *)
Definition drop_char (l : list ascii) : option (list ascii) :=
  match l with
  | [] => None
  | a :: _ => if not_nl a then Some (skipn (rune_len l) l) else None
  end.
Definition tail_ok (l : list ascii) : bool :=     (* two characters, S or N, alnum to the end *)
  match drop_char l with
  | Some l1 => match drop_char l1 with
               | Some (d :: r) => (Ascii.eqb d "S" || Ascii.eqb d "N") && forallb a_alnum r
               | _ => false end
  | None => false
  end.
Definition trip_id_origin (s : string) : option Z :=
  match la s with
  | d1 :: d2 :: d3 :: d4 :: d5 :: d6 :: u :: r =>
    if forallb a_digit [d1; d2; d3; d4; d5; d6] && Ascii.eqb u "_" &&
       match r with
       | a :: r1 => a_alnum a && (tail_ok r1 || match r1 with b :: r2 => a_alnum b && tail_ok r2 | [] => false end)
       | [] => false end
    then Some (digits_val [d1; d2; d3; d4; d5; d6]) else None
  | _ => None
  end.
Definition pad2s (n : Z) : string := str_of_bytes (pad2 n).
Definition origin_start_time (n : Z) : string :=
  let s := (n * 6) / 10 in let m := s / 60 in
  (pad2s (m / 60) ++ ":" ++ pad2s (m mod 60) ++ ":" ++ pad2s (s mod 60))%string.
(* updateTripOrVehicle on the trip descriptor; also says which vehicle descriptor to install and whether assigned *)
Definition nyct_update_desc (td : trip_desc) : trip_desc * option veh_desc * bool :=
  match td_nyct td with
  | None => (td, None, false)
  | Some n =>
    let assigned := odflt false (nt_is_assigned n) in
    let dir := if odflt NyctTripDescriptor_NORTH (nt_direction n) =? NyctTripDescriptor_NORTH then 0 else 1 in
    let st := match trip_id_origin (odflt "" (td_trip_id td)) with Some o => Some (origin_start_time o) | None => td_start_time td end in
    ({| td_trip_id := td_trip_id td; td_route_id := td_route_id td; td_direction_id := Some dir; td_start_time := st;
        td_start_date := td_start_date td; td_rel := td_rel td; td_nyct := td_nyct td |},
     if assigned then Some {| vd_id := Some (odflt "" (nt_train_id n)); vd_label := None; vd_plate := None |} else None,
     assigned)
  end.
(* fixMTrainPlatformsInBushwick *)
Definition mswap_stop (s : string) : string :=
  match la s with
  | [a; b; c; d] =>
    if existsb (String.eqb (string_of_list_ascii [a; b; c])) buggy_station_ids then
      if Ascii.eqb d "N" then string_of_list_ascii [a; b; c; "S"%char]
      else if Ascii.eqb d "S" then string_of_list_ascii [a; b; c; "N"%char] else s
    else s
  | _ => s
  end.
Definition mswap_stu (u : st_update) : st_update :=
  let s := odflt "" (stu_stop u) in
  if String.eqb (mswap_stop s) s then u else
  {| stu_seq := stu_seq u; stu_stop := Some (mswap_stop s); stu_arr := stu_arr u; stu_dep := stu_dep u; stu_rel := stu_rel u; stu_nyct := stu_nyct u |}.
Definition mswap_tu (tu : trip_update) : trip_update :=
  if String.eqb (odflt "" (td_route_id (tu_trip tu))) "M"
  then {| tu_trip := tu_trip tu; tu_vehicle := tu_vehicle tu; tu_stus := map mswap_stu (tu_stus tu) |} else tu.
(* isStaleUnassignedTrip *)
Definition ev_time0 (o : option st_event) : Z := match o with Some e => odflt 0 (se_time e) | None => 0 end.
Definition is_stale (assigned : bool) (stus : list st_update) (ts : Z) : bool :=
  if assigned then false else
  match stus with
  | [] => true
  | u :: _ => let t := if ev_time0 (stu_dep u) =? 0 then ev_time0 (stu_arr u) else ev_time0 (stu_dep u) in
              if t =? 0 then true else t <? wrap64 ts
  end.
Definition nyct_update_trip (filter preserve : bool) (ts : Z) (tu : trip_update) : trip_update * bool :=
  let tu := if preserve then tu else mswap_tu tu in
  let '(td, vd, assigned) := nyct_update_desc (tu_trip tu) in
  ({| tu_trip := td; tu_vehicle := match vd with Some v => Some v | None => tu_vehicle tu end; tu_stus := tu_stus tu |},
   is_some (td_nyct (tu_trip tu)) && filter && is_stale assigned (tu_stus tu) ts).
Definition nyct_update_vehicle (vp : veh_pos) : veh_pos :=
  match vp_trip vp with
  | None => vp
  | Some td0 =>
    let '(td, vd, _) := nyct_update_desc td0 in
    {| vp_trip := Some td; vp_vehicle := match vd with Some v => Some v | None => vp_vehicle vp end; vp_position := vp_position vp;
       vp_seq := vp_seq vp; vp_stop := vp_stop vp; vp_status := vp_status vp; vp_ts := vp_ts vp; vp_cong := vp_cong vp; vp_occ := vp_occ vp; vp_occ_pct := vp_occ_pct vp |}
  end.

(* ================= extensions/nyctalerts ================= *)
(* elevatorAlertIDRegex: three alnum, optional S or N, the literal #EL, then the rest of the line; unanchored, leftmost match *)
Fixpoint upto_nl (l : list ascii) : list ascii := match l with [] => [] | a :: r => if Ascii.eqb a "010" then [] else a :: upto_nl r end.
Definition hash_el : list ascii := la "#EL".
Fixpoint elev_match (l : list ascii) : option (string * string * string) :=
  match l with
  | [] => None
  | a :: r0 =>
    match r0 with
    | b :: c :: r =>
      if a_alnum a && a_alnum b && a_alnum c then
        match r with
        | d :: r' =>
          if (Ascii.eqb d "S" || Ascii.eqb d "N") && starts_with hash_el r'
          then Some (string_of_list_ascii [a; b; c], string_of_list_ascii [d], string_of_list_ascii (upto_nl (skipn 3 r')))
          else if starts_with hash_el r
               then Some (string_of_list_ascii [a; b; c], "", string_of_list_ascii (upto_nl (skipn 3 r)))
               else elev_match r0
        | [] => elev_match r0
        end
      else elev_match r0
    | _ => None
    end
  end.
Definition metadata_language : string := "github.com/jamespfennell/gtfs/extensions/nyctalerts/Metadata".
Definition stop_selector (s : string) : selector :=
  {| sl_agency := None; sl_route := None; sl_route_type := None; sl_trip := None; sl_stop := Some s; sl_direction := None; sl_mercury := None |}.
Definition set_alert (a : walert) (informed : list selector) (cause effect : option Z) (desc : list (string * string)) : walert :=
  {| wa_periods := wa_periods a; wa_informed := informed; wa_cause := cause; wa_effect := effect; wa_url := wa_url a; wa_header := wa_header a;
     wa_desc := desc; wa_metadata := wa_metadata a |}.
(* getPriorityFromInformedEntity *)
Fixpoint last_index (c : ascii) (l : list ascii) (i : nat) (best : option nat) : option nat :=
  match l with [] => best | a :: r => last_index c r (S i) (if Ascii.eqb a c then Some i else best) end.
Definition priority_of (s : selector) : option Z :=
  match sl_mercury s with
  | None => None
  | Some so => match last_index ":" (la so) 0 None with
               | None => None
               | Some i => omap wrap32 (atoi (string_of_list_ascii (skipn (S i) (la so))))
               end
  end.
Fixpoint zlookup {A} (k : Z) (l : list (Z * A)) : option A :=
  match l with [] => None | (k', v) :: r => if k =? k' then Some v else zlookup k r end.
(* the loop over informed entities of UpdateAlert: (effect, skip?) *)
Fixpoint mercury_loop (skip_opt : bool) (sels : list selector) (effect : option Z) : option Z * bool :=
  match sels with
  | [] => (effect, false)
  | s :: r =>
    match priority_of s with
    | None => mercury_loop skip_opt r effect
    | Some p =>
      let effect := match zlookup p priority_to_effect with Some e => Some e | None => effect end in
      if skip_opt && existsb (Z.eqb p) timetabled_no_service then (effect, true) else mercury_loop skip_opt r effect
    end
  end.

(* the extension pre-pass over all entities (realtime.go:279-289): rewritten entities and skip flags.
   elev: new alert id -> index of the entity that holds the deduplicated alert *)
Fixpoint set_nth {A} (i : nat) (x : A) (l : list A) : list A :=
  match l, i with [], _ => [] | _ :: r, O => x :: r | y :: r, S i' => y :: set_nth i' x r end.
Definition has_stop (s : string) (l : list selector) : bool :=
  existsb (fun e => match sl_stop e with Some x => String.eqb x s | None => false end) l.
Record pre := { pr_entities : list entity; pr_skip : list bool; pr_elev : list (string * nat) }.
Definition pre_step (cfg : ext_cfg) (ts : option Z) (st : pre) (ie : nat * entity) : pre :=
  let '(i, e) := ie in
  let keep e' sk := {| pr_entities := set_nth i e' (pr_entities st); pr_skip := set_nth i sk (pr_skip st); pr_elev := pr_elev st |} in
  match cfg with
  | NoExt => st
  | NyctTrips filter preserve =>
    match e_tu e with
    | Some tu => let '(tu', sk) := nyct_update_trip filter preserve (odflt 0 ts) tu in
                 keep {| e_id := e_id e; e_tu := Some tu'; e_vp := e_vp e; e_alert := e_alert e |} sk
    | None => match e_vp e with
              | Some vp => keep {| e_id := e_id e; e_tu := None; e_vp := Some (nyct_update_vehicle vp); e_alert := e_alert e |} false
              | None => st end
    end
  | NyctAlerts policy station_ids skip_opt add_meta =>
    match e_tu e, e_vp e, e_alert e with
    | None, None, Some a =>
      match elev_match (la (e_id e)) with
      | Some (station, dir, elevator) =>
        let platform := (station ++ dir)%string in
        let informed_id := if station_ids then station else platform in
        let new_id := if policy =? 1 then (station ++ "#EL" ++ elevator)%string
                      else if policy =? 2 then ("elevator:EL" ++ elevator)%string
                      else (platform ++ "#EL" ++ elevator)%string in
        match alookup new_id (pr_elev st) with
        | Some j =>   (* already exists: the earlier alert gains the stop, this entity is skipped *)
          let ents := match nth_error (pr_entities st) j with
                      | Some ej => match e_alert ej with
                                   | Some aj => if has_stop informed_id (wa_informed aj) then pr_entities st
                                                else set_nth j {| e_id := e_id ej; e_tu := e_tu ej; e_vp := e_vp ej;
                                                                  e_alert := Some (set_alert aj (wa_informed aj ++ [stop_selector informed_id]) (wa_cause aj) (wa_effect aj) (wa_desc aj)) |} (pr_entities st)
                                   | None => pr_entities st end
                      | None => pr_entities st end in
          {| pr_entities := set_nth i {| e_id := new_id; e_tu := None; e_vp := None; e_alert := Some a |} ents; pr_skip := set_nth i true (pr_skip st); pr_elev := pr_elev st |}
        | None =>
          {| pr_entities := set_nth i {| e_id := new_id; e_tu := None; e_vp := None;
                                         (* not a duplicate: UpdateAlert goes on (cause stays MAINTENANCE: the new id never starts with "lmm:"; no Mercury selector is left; metadata may be added) *)
                                         e_alert := Some (set_alert a [stop_selector informed_id] (Some Alert_MAINTENANCE) (Some Alert_ACCESSIBILITY_ISSUE)
                                                            (if add_meta then match wa_metadata a with Some js => wa_desc a ++ [(js, metadata_language)] | None => wa_desc a end else wa_desc a)) |} (pr_entities st);
             pr_skip := pr_skip st; pr_elev := aset new_id i (pr_elev st) |}
        end
      | None =>
        let cause := if has_prefix "lmm:planned_work" (e_id e) then Alert_MAINTENANCE
                     else if has_prefix "lmm:alert" (e_id e) then Alert_TECHNICAL_PROBLEM else odflt Alert_UNKNOWN_CAUSE (wa_cause a) in
        let '(effect, sk) := mercury_loop skip_opt (wa_informed a) (wa_effect a) in
        let desc := if sk then wa_desc a else
                    if add_meta then match wa_metadata a with Some js => wa_desc a ++ [(js, metadata_language)] | None => wa_desc a end else wa_desc a in
        keep {| e_id := e_id e; e_tu := None; e_vp := None; e_alert := Some (set_alert a (wa_informed a) (Some cause) effect desc) |} sk
      end
    | _, _, _ => st
    end
  end.
Fixpoint enumerate {A} (i : nat) (l : list A) : list (nat * A) := match l with [] => [] | x :: r => (i, x) :: enumerate (S i) r end.
(* NB: the pre-pass reads entity i from the *current* array (a later elevator alert may have been rewritten by an earlier one? no:
   only earlier entities are rewritten by later ones), so iterating over the original list is exact *)
Definition pre_pass (cfg : ext_cfg) (m : feed_message) : pre :=
  fold_left (pre_step cfg (fm_ts m)) (enumerate 0 (fm_entities m))
    {| pr_entities := fm_entities m; pr_skip := map (fun _ => false) (fm_entities m); pr_elev := [] |}.

(* ================= ParseRealtime main pass (realtime.go:291-376) ================= *)
Fixpoint glookup {K V} (eqb : K -> K -> bool) (k : K) (l : list (K * V)) : option V :=
  match l with [] => None | (k', v) :: r => if eqb k k' then Some v else glookup eqb k r end.
Fixpoint gset {K V} (eqb : K -> K -> bool) (k : K) (v : V) (l : list (K * V)) : list (K * V) :=
  match l with [] => [(k, v)] | (k', v') :: r => if eqb k k' then (k, v) :: r else (k', v') :: gset eqb k v r end.
Definition tk_eqb (a b : trip_key) : bool := if trip_key_eq_dec a b then true else false.
Definition vi_eqb (a b : vehicle_id) : bool := if vehicle_id_eq_dec a b then true else false.

Definition set_trip_key (t : rt_trip) (k : trip_key) : rt_trip := {| tr_key := k; tr_stus := tr_stus t; tr_vehicle := tr_vehicle t; tr_in_msg := tr_in_msg t |}.
(* mergeTrip on tripsById[new.ID] (created empty when absent) *)
Definition merge_trip (trips : list (trip_key * rt_trip)) (new : rt_trip) : list (trip_key * rt_trip) :=
  let k := tr_key new in
  let old := match glookup tk_eqb k trips with Some t => t | None => bare_trip k end in
  gset tk_eqb k (if tr_in_msg new then new else set_trip_key old k) trips.
Definition set_vehicle_id (v : rt_vehicle) (id : option vehicle_id) : rt_vehicle :=
  {| ve_id := id; ve_trip := ve_trip v; ve_pos := ve_pos v; ve_seq := ve_seq v; ve_stop := ve_stop v; ve_status := ve_status v; ve_ts := ve_ts v;
     ve_congestion := ve_congestion v; ve_occ := ve_occ v; ve_occ_pct := ve_occ_pct v; ve_in_msg := ve_in_msg v |}.
Definition set_vehicle_trip (v : rt_vehicle) (k : option trip_key) : rt_vehicle :=
  {| ve_id := ve_id v; ve_trip := k; ve_pos := ve_pos v; ve_seq := ve_seq v; ve_stop := ve_stop v; ve_status := ve_status v; ve_ts := ve_ts v;
     ve_congestion := ve_congestion v; ve_occ := ve_occ v; ve_occ_pct := ve_occ_pct v; ve_in_msg := ve_in_msg v |}.
Definition merge_vehicle (vs : list (vehicle_id * rt_vehicle)) (id : vehicle_id) (new : rt_vehicle) : list (vehicle_id * rt_vehicle) :=
  let old := match glookup vi_eqb id vs with Some v => v | None => bare_vehicle None false end in
  gset vi_eqb id (if ve_in_msg new then new else set_vehicle_id old (Some id)) vs.

Record acc := { a_trips : list (trip_key * rt_trip); a_vehicles : list (vehicle_id * rt_vehicle);
                a_t2v : list (trip_key * vehicle_id); a_v2t : list (vehicle_id * trip_key);
                a_noid : list rt_vehicle; a_t2noid : list trip_key; a_alerts : list rt_alert }.
Definition acc0 : acc := {| a_trips := []; a_vehicles := []; a_t2v := []; a_v2t := []; a_noid := []; a_t2noid := []; a_alerts := [] |}.

Section Main.
Variable cm : Z -> Z -> Z -> Z.
Variable tz : option string.
Variable cfg : ext_cfg.

Definition add_trip_vehicle (a : acc) (trip : option rt_trip) (vehicle : option rt_vehicle) : acc :=
  let trips := match trip with Some t => merge_trip (a_trips a) t | None => a_trips a end in
  match vehicle with
  | None => {| a_trips := trips; a_vehicles := a_vehicles a; a_t2v := a_t2v a; a_v2t := a_v2t a; a_noid := a_noid a; a_t2noid := a_t2noid a; a_alerts := a_alerts a |}
  | Some v =>
    match ve_id v with
    | Some id =>
      {| a_trips := trips; a_vehicles := merge_vehicle (a_vehicles a) id v;
         a_t2v := match trip with Some t => gset tk_eqb (tr_key t) id (a_t2v a) | None => a_t2v a end;
         a_v2t := match trip with Some t => gset vi_eqb id (tr_key t) (a_v2t a) | None => a_v2t a end;
         a_noid := a_noid a; a_t2noid := a_t2noid a; a_alerts := a_alerts a |}
    | None =>
      {| a_trips := trips; a_vehicles := a_vehicles a; a_t2v := a_t2v a; a_v2t := a_v2t a;
         a_noid := a_noid a ++ [match trip with Some t => set_vehicle_trip v (Some (tr_key t)) | None => v end];
         a_t2noid := match trip with Some t => tr_key t :: a_t2noid a | None => a_t2noid a end; a_alerts := a_alerts a |}
    end
  end.
Definition entity_step (a : acc) (es : entity * bool) : acc :=
  let '(e, skip) := es in
  if skip then a else
  match e_tu e with
  | Some tu => let '(t, v) := parse_trip_update cm tz cfg tu in add_trip_vehicle a (Some t) v
  | None =>
    match e_vp e with
    | Some vp => let '(t, v) := parse_vehicle cm tz vp in add_trip_vehicle a t (Some v)
    | None =>
      match e_alert e with
      | Some al => let '(ra, ts) := parse_alert cm tz (e_id e) al in
                   {| a_trips := fold_left merge_trip ts (a_trips a); a_vehicles := a_vehicles a; a_t2v := a_t2v a; a_v2t := a_v2t a;
                      a_noid := a_noid a; a_t2noid := a_t2noid a; a_alerts := a_alerts a ++ [ra] |}
      | None => a
      end
    end
  end.

(* TripID.Less (realtime.go:58-82) *)
Definition trip_less (a b : trip_key) : bool :=
  if negb (String.eqb (k_id a) (k_id b)) then String.ltb (k_id a) (k_id b)
  else if negb (String.eqb (k_route a) (k_route b)) then String.ltb (k_route a) (k_route b)
  else if negb (k_dir a =? k_dir b) then k_dir a <? k_dir b
  else if negb (Bool.eqb (k_has_time a) (k_has_time b)) then negb (k_has_time a) && k_has_time b
  else if k_has_time a && negb (k_time a =? k_time b) then k_time a <? k_time b
  else if negb (Bool.eqb (k_has_date a) (k_has_date b)) then negb (k_has_date a) && k_has_date b
  else if k_has_date a && negb (fst (k_date a) =? fst (k_date b)) then fst (k_date a) <? fst (k_date b)
  else k_rel a <? k_rel b.
Definition vid_less (a b : vehicle_id) : bool :=
  if negb (String.eqb (vi_id a) (vi_id b)) then String.ltb (vi_id a) (vi_id b)
  else if negb (String.eqb (vi_label a) (vi_label b)) then String.ltb (vi_label a) (vi_label b)
  else String.ltb (vi_plate a) (vi_plate b).
Definition set_trip_vehicle (t : rt_trip) (v : option (option vehicle_id)) : rt_trip :=
  {| tr_key := tr_key t; tr_stus := tr_stus t; tr_vehicle := v; tr_in_msg := tr_in_msg t |}.

Definition finish (created : instant) (a : acc) : realtime :=
  let trips := map (fun kt => let '(k, t) := kt in
                      match glookup tk_eqb k (a_t2v a) with
                      | Some vid => set_trip_vehicle t (Some (Some vid))
                      | None => if existsb (tk_eqb k) (a_t2noid a) then set_trip_vehicle t (Some None) else t
                      end) (a_trips a) in
  let vehicles := map (fun iv => let '(id, v) := iv in
                         match glookup vi_eqb id (a_v2t a) with Some k => set_vehicle_trip v (Some k) | None => v end) (a_vehicles a) in
  {| rt_created := created;
     rt_trips := isort rt_trip (fun x y => trip_less (tr_key x) (tr_key y)) trips;
     rt_vehicles := isort rt_vehicle (fun x y => match ve_id x, ve_id y with Some a, Some b => vid_less a b | _, _ => false end) vehicles ++ a_noid a;
     rt_alerts := a_alerts a |}.

Definition parse_message (m : feed_message) : realtime :=
  let created := match fm_ts m with Some t => in_zone tz (wrap64 t) | None => zero_instant end in
  let p := pre_pass cfg m in
  finish created (fold_left entity_step (combine (pr_entities p) (pr_skip p)) acc0).
End Main.
