(* Model/Static.v — static.go (ParseStatic and its per-file row loops) and csv/csv.go's column readers, on top of
   Model/Csv.v.  Pointers into result slices are indices (DESIGN 4.2).  Every row loop sees a row only through the three
   readers bound to a column NAME; the model gives it the row as a view (DESIGN 4.4a).
   Oracles (Section variables): parse_float = bits of strconv.ParseFloat(strings.TrimSpace(s), 64);
   date_in zone s = time.ParseInLocation("20060102", s, LoadLocation(zone) or UTC).Unix().  No proofs here. *)
From GV Require Import Base.Prelude Base.Dec Base.Sort Model.Csv Model.Realtime Gen.Enums.

(* ---------- csv/csv.go: header map and readers ---------- *)
Definition rowview := string -> option string.      (* None: the column is absent; Some "": blank cell *)
Fixpoint header_map_from (i : nat) (hdr : list string) (c : string) : option nat :=     (* m[colHeader] = i : the last wins *)
  match hdr with
  | [] => None
  | h :: hdr' => match header_map_from (S i) hdr' c with
                 | Some j => Some j
                 | None => if String.eqb h c then Some i else None end
  end.
Definition header_index (hdr : list string) (c : string) : option nat := header_map_from 0 hdr c.
Definition view (hdr cells : list string) : rowview :=
  fun c => option_map (fun i => nth i cells "") (header_index hdr c).
(* RequiredColumn.Read: (value, missing?) *)
Definition required (v : rowview) (c : string) : string * bool :=
  match v c with Some "" => ("", true) | Some s => (s, false) | None => ("", true) end.
Definition optional (v : rowview) (c : string) : string := odflt "" (v c).                              (* OptionalColumn.Read *)
Definition read_or (v : rowview) (c d : string) : string := match v c with Some "" => d | Some s => s | None => d end.   (* ReadOr *)
Definition has_columns (hdr : list string) (cs : list string) : bool := forallb (fun c => is_some (header_index hdr c)) cs.
Definition missing_columns (hdr : list string) (cs : list string) : list string := filter (fun c => negb (is_some (header_index hdr c))) cs.

(* ---------- result types ---------- *)
Record agency := { ag_id : string; ag_name : string; ag_url : string; ag_timezone : string; ag_lang : string; ag_phone : string; ag_fare_url : string; ag_email : string }.
Record route := { r_id : string; r_agency : nat; r_color : string; r_text_color : string; r_short : string; r_long : string; r_desc : string;
                  r_type : Z; r_url : string; r_sort_order : option Z; r_cpickup : Z; r_cdropoff : Z }.
Record stop := { s_id : string; s_code : string; s_name : string; s_desc : string; s_zone : string; s_lon : option Z; s_lat : option Z; s_url : string;
                 s_type : Z; s_parent : option nat; s_timezone : string; s_wheelchair : Z; s_platform : string }.
Record transfer := { t_from : nat; t_to : nat; t_type : Z; t_min_time : option Z }.
Record service := { sv_id : string; sv_days : list bool; sv_start : Z; sv_end : Z; sv_added : list Z; sv_removed : list Z }.
Record shape := { sh_id : string; sh_points : list (Z * Z * option Z) }.
Record stoptime := { st_stop : nat; st_arr : Z; st_dep : Z; st_seq : Z; st_headsign : string; st_pickup : Z; st_dropoff : Z;
                     st_cpickup : Z; st_cdropoff : Z; st_dist : option Z; st_exact : bool }.
Record frequency := { f_start : Z; f_end : Z; f_headway : Z; f_exact : Z }.
Record strip := { tp_route : nat; tp_service : nat; tp_id : string; tp_headsign : string; tp_short : string; tp_dir : Z; tp_block : string;
                  tp_wheelchair : Z; tp_bikes : Z; tp_stop_times : list stoptime; tp_shape : option nat; tp_freqs : list frequency }.
Record warning := { w_kind : string; w_agency_id : string; w_columns : list string; w_file : string; w_row : nat; w_content : list string; w_header : list string }.
Record static := { x_agencies : list agency; x_routes : list route; x_stops : list stop; x_transfers : list transfer; x_services : list service;
                   x_trips : list strip; x_shapes : list shape; x_warnings : list warning }.

(* ---------- scalars ---------- *)
(* parseGtfsTimeToDuration: the cell is read rune by rune (Go's `range s`): digits accumulate into the current of three
   pieces, ':' advances (a third ':' fails), white space in the sense of unicode.IsSpace is skipped, anything else fails
   (an invalid UTF-8 byte reads as U+FFFD, which is not white space); "" fails.  Result in nanoseconds.
   unicode.IsSpace is: TAB LF VT FF CR SPACE, U+0085, U+00A0, U+1680, U+2000..U+200A, U+2028, U+2029, U+202F, U+205F, U+3000;
   space2 / space3 recognise the UTF-8 encodings of the non-ASCII ones (no other encoding of them is valid UTF-8). *)
Definition ascii_space (c : Z) : bool := ((9 <=? c) && (c <=? 13)) || (c =? 32).
Definition space2 (c1 c2 : Z) : bool := (c1 =? 194) && ((c2 =? 133) || (c2 =? 160)).
Definition space3 (c1 c2 c3 : Z) : bool :=
  ((c1 =? 225) && (c2 =? 154) && (c3 =? 128)) ||
  ((c1 =? 226) && (c2 =? 128) && (((128 <=? c3) && (c3 <=? 138)) || (c3 =? 168) || (c3 =? 169) || (c3 =? 175))) ||
  ((c1 =? 226) && (c2 =? 129) && (c3 =? 159)) ||
  ((c1 =? 227) && (c2 =? 128) && (c3 =? 128)).
Fixpoint time_pieces (l : list ascii) (i : nat) (p0 p1 p2 : Z) : option (Z * Z * Z) :=
  match l with
  | [] => Some (p0, p1, p2)
  | a :: r =>
    let c := bval a in
    if is_digit c then
      match i with
      | O => time_pieces r i (wrap64 (10 * p0 + (c - 48))) p1 p2
      | S O => time_pieces r i p0 (wrap64 (10 * p1 + (c - 48))) p2
      | _ => time_pieces r i p0 p1 (wrap64 (10 * p2 + (c - 48)))
      end
    else if c =? 58 then (match i with S (S _) => None | _ => time_pieces r (S i) p0 p1 p2 end)
    else if ascii_space c then time_pieces r i p0 p1 p2
    else match r with
         | b :: r1 =>
           if space2 c (bval b) then time_pieces r1 i p0 p1 p2
           else match r1 with
                | d :: r2 => if space3 c (bval b) (bval d) then time_pieces r2 i p0 p1 p2 else None
                | [] => None
                end
         | [] => None
         end
  end.
Definition parse_gtfs_time (s : string) : option Z :=
  match s with
  | EmptyString => None
  | _ => match time_pieces (la s) 0 0 0 0 with
         | Some (h, m, sec) => Some (wrap64 (wrap64 ((h * 60 + m) * 60 + sec) * 1000000000))
         | None => None end
  end.
(* strconv.ParseInt(s, 10, 32) *)
Definition parse_int32 (s : string) : option Z :=
  match s with EmptyString => None | _ => match atoi s with Some v => if (- 2 ^ 31 <=? v) && (v <? 2 ^ 31) then Some v else None | None => None end end.
(* parseRouteSortOrder: Atoi then int32(i) *)
Definition parse_sort_order (s : string) : option Z := match s with EmptyString => None | _ => omap wrap32 (atoi s) end.

Section Oracles.
Variable parse_float : string -> option Z.
Variable date_in : string -> string -> option Z.
Definition parse_float64 (s : string) : option Z := match s with EmptyString => None | _ => parse_float s end.

(* ---------- agency.txt (static.go:316-355) ---------- *)
Definition agency_row (hdr : list string) (n : nat) (cells : list string) : agency + warning :=
  let v := view hdr cells in
  let '(name, m1) := required v "agency_name" in
  let id := read_or v "agency_id" (name ++ "_id") in
  let '(url, m2) := required v "agency_url" in
  let '(tzn, m3) := required v "agency_timezone" in
  let missing := (if m1 then ["agency_name"] else []) ++ (if m2 then ["agency_url"] else []) ++ (if m3 then ["agency_timezone"] else []) in
  match missing with
  | [] => inl {| ag_id := id; ag_name := name; ag_url := url; ag_timezone := tzn; ag_lang := optional v "agency_lang"; ag_phone := optional v "agency_phone";
                 ag_fare_url := optional v "agency_fare_url"; ag_email := optional v "agency_email" |}
  | _ => inr {| w_kind := "AgencyMissingValues"; w_agency_id := id; w_columns := missing; w_file := "agency.txt"; w_row := n; w_content := cells; w_header := hdr |}
  end.
Fixpoint enum_from {A} (i : nat) (l : list A) : list (nat * A) := match l with [] => [] | x :: r => (i, x) :: enum_from (S i) r end.
Definition parse_agencies (hdr : list string) (rows : list (list string)) : list agency * list warning :=
  match missing_columns hdr ["agency_name"; "agency_url"; "agency_timezone"] with
  | [] => let rs := map (fun nr => agency_row hdr (fst nr) (snd nr)) (enum_from 1 rows) in
          (flat_map (fun r => match r with inl a => [a] | inr _ => [] end) rs, flat_map (fun r => match r with inl _ => [] | inr w => [w] end) rs)
  | miss => ([], [{| w_kind := "MissingColumns"; w_agency_id := ""; w_columns := miss; w_file := "agency.txt"; w_row := 0; w_content := hdr; w_header := hdr |}])
  end.

(* ---------- routes.txt (static.go:357-421) ---------- *)
Fixpoint find_index {A} (p : A -> bool) (l : list A) (i : nat) : option nat :=
  match l with [] => None | x :: r => if p x then Some i else find_index p r (S i) end.
Fixpoint find_last_index {A} (p : A -> bool) (l : list A) (i : nat) (best : option nat) : option nat :=
  match l with [] => best | x :: r => find_last_index p r (S i) (if p x then Some i else best) end.
Definition route_row (agencies : list agency) (v : rowview) : option route :=
  let '(rid, m1) := required v "route_id" in
  let aid := optional v "agency_id" in
  let ag := match aid with
            | EmptyString => match agencies with [_] => Some 0%nat | _ => None end
            | _ => find_index (fun a => String.eqb (ag_id a) aid) agencies 0 end in
  match ag with
  | None => None
  | Some ai =>
    let '(rt, m2) := required v "route_type" in
    if m1 || m2 then None else
    Some {| r_id := rid; r_agency := ai; r_color := read_or v "route_color" "FFFFFF"; r_text_color := read_or v "route_text_color" "000000";
            r_short := optional v "route_short_name"; r_long := optional v "route_long_name"; r_desc := optional v "route_desc";
            r_type := parseRouteType_GTFSStatic rt; r_url := optional v "route_url"; r_sort_order := parse_sort_order (optional v "route_sort_order");
            r_cpickup := parsePickupDropOffPolicy (read_or v "continuous_pickup" ""); r_cdropoff := parsePickupDropOffPolicy (read_or v "continuous_drop_off" "") |}
  end.
Definition filter_map {A B} (f : A -> option B) (l : list A) : list B := flat_map (fun a => match f a with Some b => [b] | None => [] end) l.
Definition parse_routes (agencies : list agency) (hdr : list string) (rows : list (list string)) : list route :=
  if has_columns hdr ["route_id"; "route_type"] then filter_map (fun cells => route_row agencies (view hdr cells)) rows else [].

(* ---------- stops.txt (static.go:435-520) ---------- *)
Definition stop_row (v : rowview) : option (stop * string) :=
  let '(sid, m) := required v "stop_id" in
  let parent := optional v "parent_station" in
  if m then None else
  Some ({| s_id := sid; s_code := optional v "stop_code"; s_name := optional v "stop_name"; s_desc := optional v "stop_desc"; s_zone := optional v "zone_id";
           s_lon := parse_float64 (optional v "stop_lon"); s_lat := parse_float64 (optional v "stop_lat"); s_url := optional v "stop_url";
           s_type := parseStopType (optional v "location_type") (negb (String.eqb parent "")); s_parent := None; s_timezone := optional v "stop_timezone";
           s_wheelchair := parseWheelchairBoarding (optional v "wheelchair_boarding"); s_platform := optional v "platform_code" |}, parent).
Definition set_parent (s : stop) (p : option nat) : stop :=
  {| s_id := s_id s; s_code := s_code s; s_name := s_name s; s_desc := s_desc s; s_zone := s_zone s; s_lon := s_lon s; s_lat := s_lat s; s_url := s_url s;
     s_type := s_type s; s_parent := p; s_timezone := s_timezone s; s_wheelchair := s_wheelchair s; s_platform := s_platform s |}.
Definition set_wheelchair (s : stop) (w : Z) : stop :=
  {| s_id := s_id s; s_code := s_code s; s_name := s_name s; s_desc := s_desc s; s_zone := s_zone s; s_lon := s_lon s; s_lat := s_lat s; s_url := s_url s;
     s_type := s_type s; s_parent := s_parent s; s_timezone := s_timezone s; s_wheelchair := w; s_platform := s_platform s |}.
(* the parent relation as a graph on indices; Stop.Root with explicit fuel; the cycle-breaking pass (static.go, after linking) *)
Definition graph := list (option nat).
Definition parent_of (g : graph) (i : nat) : option nat := nth i g None.
Fixpoint walk (fuel : nat) (g : graph) (i : nat) : option nat :=
  match fuel with O => None | S f => match parent_of g i with None => Some i | Some p => walk f g p end end.
Definition cut (g : graph) (i : nat) : graph := set_nth i None g.
Definition examine (F : nat) (g : graph) (i : nat) : graph := match walk F g i with Some _ => g | None => cut g i end.
Definition repair (g : graph) : graph := fold_left (examine (S (List.length g))) (seq 0 (List.length g)) g.
Definition link_parents (sp : list (stop * string)) : list stop :=
  let stops := map fst sp in
  let g0 := map (fun p => match snd p with
                          | EmptyString => None
                          | pid => find_last_index (fun s => String.eqb (s_id s) pid) stops 0 None end) sp in
  let g := repair g0 in
  map (fun ip => set_parent (snd ip) (parent_of g (fst ip))) (enum_from 0 stops).
Definition inherit_wheelchair (stops : list stop) : list stop :=
  (* the loop runs in order and reads the parent's CURRENT value: a parent earlier in the slice has already been updated *)
  fold_left (fun acc i =>
    match nth_error acc i with
    | Some s => match s_parent s with
                | Some p => match nth_error acc p with
                            | Some ps => if (s_type ps =? StopType_Station) && (s_wheelchair s =? WheelchairBoarding_NotSpecified)
                                         then set_nth i (set_wheelchair s (s_wheelchair ps)) acc else acc
                            | None => acc end
                | None => acc end
    | None => acc end) (seq 0 (List.length stops)) stops.
Definition parse_stops (inherit : bool) (hdr : list string) (rows : list (list string)) : list stop :=
  if has_columns hdr ["stop_id"] then
    let linked := link_parents (filter_map (fun cells => stop_row (view hdr cells)) rows) in
    if inherit then inherit_wheelchair linked else linked
  else [].

(* ---------- transfers.txt (static.go:522-566) ---------- *)
Definition transfer_row (stops : list stop) (v : rowview) : option transfer :=
  let '(f, m1) := required v "from_stop_id" in
  let '(t, m2) := required v "to_stop_id" in
  if m1 || m2 then None else
  match find_last_index (fun s => String.eqb (s_id s) f) stops 0 None, find_last_index (fun s => String.eqb (s_id s) t) stops 0 None with
  | Some fi, Some ti => if String.eqb f t then None else
                        Some {| t_from := fi; t_to := ti; t_type := parseTransferType (optional v "transfer_type"); t_min_time := parse_int32 (optional v "min_transfer_time") |}
  | _, _ => None
  end.
Definition parse_transfers (stops : list stop) (hdr : list string) (rows : list (list string)) : list transfer :=
  if has_columns hdr ["from_stop_id"; "to_stop_id"] then filter_map (fun cells => transfer_row stops (view hdr cells)) rows else [].

(* ---------- calendar.txt, calendar_dates.txt (static.go:577-679) ---------- *)
Definition day_cols : list string := ["monday"; "tuesday"; "wednesday"; "thursday"; "friday"; "saturday"; "sunday"].
Definition calendar_row (zone : string) (m : list (string * service)) (v : rowview) : list (string * service) :=
  let '(sd, m1) := required v "start_date" in
  match date_in zone sd with
  | None => m
  | Some start =>
    let '(ed, m2) := required v "end_date" in
    match date_in zone ed with
    | None => m
    | Some en =>
      let '(sid, m3) := required v "service_id" in
      let days := map (fun c => required v c) day_cols in
      if m1 || m2 || m3 || existsb snd days then m else
      aset sid {| sv_id := sid; sv_days := map (fun d => String.eqb (fst d) "1") days; sv_start := start; sv_end := en; sv_added := []; sv_removed := [] |} m
    end
  end.
Definition parse_calendar (zone : string) (m : list (string * service)) (hdr : list string) (rows : list (list string)) : list (string * service) :=
  if has_columns hdr (["start_date"; "end_date"; "service_id"] ++ day_cols) then fold_left (fun m cells => calendar_row zone m (view hdr cells)) rows m else m.
Definition calendar_date_row (zone : string) (m : list (string * service)) (v : rowview) : list (string * service) :=
  let '(sid, m1) := required v "service_id" in
  let '(ds, m2) := required v "date" in
  match date_in zone ds with
  | None => m
  | Some d =>
    let '(et, m3) := required v "exception_type" in
    if m1 || m2 || m3 then m else
    let base := match alookup sid m with
                | Some s => {| sv_id := sid; sv_days := sv_days s; sv_start := if d <? sv_start s then d else sv_start s; sv_end := if sv_end s <? d then d else sv_end s;
                               sv_added := sv_added s; sv_removed := sv_removed s |}
                | None => {| sv_id := sid; sv_days := [false; false; false; false; false; false; false]; sv_start := d; sv_end := d; sv_added := []; sv_removed := [] |}
                end in
    if String.eqb et "1" then aset sid {| sv_id := sid; sv_days := sv_days base; sv_start := sv_start base; sv_end := sv_end base; sv_added := sv_added base ++ [d]; sv_removed := sv_removed base |} m
    else if String.eqb et "2" then aset sid {| sv_id := sid; sv_days := sv_days base; sv_start := sv_start base; sv_end := sv_end base; sv_added := sv_added base; sv_removed := sv_removed base ++ [d] |} m
    else m
  end.
Definition parse_calendar_dates (zone : string) (m : list (string * service)) (hdr : list string) (rows : list (list string)) : list (string * service) :=
  if has_columns hdr ["service_id"; "date"; "exception_type"] then fold_left (fun m cells => calendar_date_row zone m (view hdr cells)) rows m else m.
(* PostProcess: the map's values, sorted by service id *)
Definition services_of (m : list (string * service)) : list service :=
  isort service (fun a b => String.ltb (sv_id a) (sv_id b)) (map snd m).

(* ---------- shapes.txt (static.go:865-935) ---------- *)
Record shape_row := { sr_lat : Z; sr_lon : Z; sr_seq : Z; sr_dist : option Z }.
Definition shapes_row (m : list (string * list shape_row)) (v : rowview) : list (string * list shape_row) :=
  let '(sid, m1) := required v "shape_id" in
  let '(lat, m2) := required v "shape_pt_lat" in
  let '(lon, m3) := required v "shape_pt_lon" in
  let '(sq, m4) := required v "shape_pt_sequence" in
  if m1 || m2 || m3 || m4 then m else
  match parse_float64 lat, parse_float64 lon, parse_int32 sq with
  | Some la', Some lo, Some q => aset sid (odflt [] (alookup sid m) ++ [{| sr_lat := la'; sr_lon := lo; sr_seq := q; sr_dist := parse_float64 (optional v "shape_dist_traveled") |}]) m
  | _, _, _ => m
  end.
Definition parse_shapes (hdr : list string) (rows : list (list string)) : list shape :=
  if has_columns hdr ["shape_id"; "shape_pt_lat"; "shape_pt_lon"; "shape_pt_sequence"] then
    let m := fold_left (fun m cells => shapes_row m (view hdr cells)) rows [] in
    isort shape (fun a b => String.ltb (sh_id a) (sh_id b))
      (map (fun kv => {| sh_id := fst kv; sh_points := map (fun r => (sr_lat r, sr_lon r, sr_dist r)) (isort shape_row (fun a b => sr_seq a <? sr_seq b) (snd kv)) |}) m)
  else [].

(* ---------- trips.txt (static.go:681-750) ---------- *)
Definition trip_row (routes : list route) (services : list service) (shapes : list shape) (v : rowview) : option strip :=
  let '(rid, m1) := required v "route_id" in
  let '(sid, m2) := required v "service_id" in
  let '(tid, m3) := required v "trip_id" in
  if m1 || m2 || m3 then None else
  match find_last_index (fun r => String.eqb (r_id r) rid) routes 0 None, find_last_index (fun s => String.eqb (sv_id s) sid) services 0 None with
  | Some ri, Some si =>
    Some {| tp_route := ri; tp_service := si; tp_id := tid; tp_headsign := optional v "trip_headsign"; tp_short := optional v "trip_short_name";
            tp_dir := parseDirectionID_GTFSStatic (read_or v "direction_id" ""); tp_block := optional v "block_id";
            tp_wheelchair := parseWheelchairBoarding (optional v "wheelchair_accessible"); tp_bikes := parseBikesAllowed (read_or v "bikes_allowed" "");
            tp_stop_times := [];
            tp_shape := match optional v "shape_id" with EmptyString => None | shid => find_last_index (fun s => String.eqb (sh_id s) shid) shapes 0 None end;
            tp_freqs := [] |}
  | _, _ => None
  end.
Definition parse_trips (routes : list route) (services : list service) (shapes : list shape) (hdr : list string) (rows : list (list string)) : list strip :=
  if has_columns hdr ["route_id"; "service_id"; "trip_id"] then filter_map (fun cells => trip_row routes services shapes (view hdr cells)) rows else [].

Definition upd_trip (trips : list strip) (i : nat) (f : strip -> strip) : list strip :=
  match nth_error trips i with Some t => set_nth i (f t) trips | None => trips end.
Definition add_freq (t : strip) (f : frequency) : strip :=
  {| tp_route := tp_route t; tp_service := tp_service t; tp_id := tp_id t; tp_headsign := tp_headsign t; tp_short := tp_short t; tp_dir := tp_dir t; tp_block := tp_block t;
     tp_wheelchair := tp_wheelchair t; tp_bikes := tp_bikes t; tp_stop_times := tp_stop_times t; tp_shape := tp_shape t; tp_freqs := tp_freqs t ++ [f] |}.
Definition set_stop_times (t : strip) (l : list stoptime) : strip :=
  {| tp_route := tp_route t; tp_service := tp_service t; tp_id := tp_id t; tp_headsign := tp_headsign t; tp_short := tp_short t; tp_dir := tp_dir t; tp_block := tp_block t;
     tp_wheelchair := tp_wheelchair t; tp_bikes := tp_bikes t; tp_stop_times := l; tp_shape := tp_shape t; tp_freqs := tp_freqs t |}.

(* ---------- frequencies.txt (static.go:937-990) ---------- *)
Definition frequency_row (trips : list strip) (v : rowview) : list strip :=
  let '(tid, m1) := required v "trip_id" in
  let '(st, m2) := required v "start_time" in
  let '(en, m3) := required v "end_time" in
  let '(hw, m4) := required v "headway_secs" in
  if m1 || m2 || m3 || m4 then trips else
  match find_last_index (fun t => String.eqb (tp_id t) tid) trips 0 None with
  | None => trips
  | Some ti =>
    match parse_int32 hw, parse_gtfs_time st, parse_gtfs_time en with
    | Some h, Some s, Some e => upd_trip trips ti (fun t => add_freq t {| f_start := s; f_end := e; f_headway := h * 1000000000; f_exact := parseExactTimes (optional v "exact_times") |})
    | _, _, _ => trips
    end
  end.
Definition parse_frequencies (trips : list strip) (hdr : list string) (rows : list (list string)) : list strip :=
  if has_columns hdr ["trip_id"; "start_time"; "end_time"; "headway_secs"] then fold_left (fun ts cells => frequency_row ts (view hdr cells)) rows trips else trips.

(* ---------- stop_times.txt (static.go:752-836) ---------- *)
(* static.go:775-785: neither parses -> the row is skipped; only one parses -> the other takes the same value *)
Definition fill_times (a d : option Z) : option (Z * Z) :=
  match a, d with
  | None, None => None
  | Some x, None => Some (x, x)
  | None, Some y => Some (y, y)
  | Some x, Some y => Some (x, y)
  end.
Definition stop_time_row (stops : list stop) (trips : list strip) (v : rowview) : list strip :=
  let a := parse_gtfs_time (optional v "arrival_time") in
  let d := parse_gtfs_time (optional v "departure_time") in
  match fill_times a d with
  | None => trips
  | Some (arr, dep) =>
    let '(sq, m1) := required v "stop_sequence" in
    match atoi sq with
    | None => trips
    | Some q =>
      let '(sid, m2) := required v "stop_id" in
      let '(tid, m3) := required v "trip_id" in
      if m1 || m2 || m3 then trips else
      match find_last_index (fun s => String.eqb (s_id s) sid) stops 0 None, find_last_index (fun t => String.eqb (tp_id t) tid) trips 0 None with
      | Some si, Some ti =>
        upd_trip trips ti (fun t => set_stop_times t (tp_stop_times t ++
          [{| st_stop := si; st_arr := arr; st_dep := dep; st_seq := q; st_headsign := optional v "stop_headsign";
              st_pickup := parsePickupDropOffPolicy (read_or v "pickup_type" "0"); st_dropoff := parsePickupDropOffPolicy (read_or v "drop_off_type" "0");
              st_cpickup := parsePickupDropOffPolicy (read_or v "continuous_pickup" ""); st_cdropoff := parsePickupDropOffPolicy (read_or v "continuous_drop_off" "");
              st_dist := parse_float64 (optional v "shape_dist_traveled"); st_exact := String.eqb (read_or v "timepoint" "1") "1" |}]))
      | _, _ => trips
      end
    end
  end.
(* static.go:786-788, 842-846: idToTrip holds, for every trip id, the LAST trip with that id; after the rows are read the code
   ranges over that map and sorts each trip's stop times in place.  The map as an association list (trip id, index) *)
Definition id_to_trip (trips : list strip) : list (string * nat) :=
  fold_left (fun m it => aset (tp_id (snd it)) (fst it) m) (enum_from 0 trips) [].
Definition sort_stop_times (t : strip) : strip :=
  set_stop_times t (isort stoptime (fun a b => st_seq a <? st_seq b) (tp_stop_times t)).
Definition parse_stop_times (stops : list stop) (trips : list strip) (hdr : list string) (rows : list (list string)) : list strip :=
  if has_columns hdr ["stop_id"; "stop_sequence"; "trip_id"] then
    let filled := fold_left (fun ts cells => stop_time_row stops ts (view hdr cells)) rows trips in
    fold_left (fun ts ki => upd_trip ts (snd ki) sort_stop_times) (id_to_trip filled) filled
  else trips.

(* ---------- ParseStatic (static.go:165-302): the file table in its fixed order ---------- *)
Definition member (name : string) (ms : list (string * string)) : option string :=      (* the last member with that name *)
  fold_left (fun acc m => if String.eqb (fst m) name then Some (snd m) else acc) ms None.
Inductive opened := Absent | Bad | Rows (hdr : list string) (rows : list (list string)).
(* csv.New fails when the first record is malformed or there is none; a CSV error in a LATER record fails the parse only if
   the file's row loop runs, i.e. if all of the file's required columns are present (otherwise the function returns before
   reading a row and the rest of the file is never looked at) *)
Definition open_file (name : string) (required_cols : list string) (ms : list (string * string)) : opened :=
  match member name ms with
  | None => Absent
  | Some bytes =>
    match read_header_s bytes with
    | None => Bad                              (* "CSV file contains no rows", or a malformed header record *)
    | Some hdr =>
      match read_all_s bytes with
      | Some (_ :: rows) => Rows hdr rows
      | _ => if has_columns hdr required_cols then Bad else Rows hdr []
      end
    end
  end.
Definition first_zone (agencies : list agency) : string := match agencies with a :: _ => ag_timezone a | [] => "UTC" end.

(* the three places where the Go code ranges over a map (services, shapes, the per-trip stop-time sort) are parameters:
   ParseStatic itself is the instance below; Model/Purity.v instantiates them with iteration-order adversaries (C06) *)
(* a provider of opened tables: file name -> the file's required columns -> what opening it gives.  ParseStatic's provider
   opens archive members (open_file); whole-result theorems are stated for every provider *)
Definition tables := string -> list string -> opened.
Definition parse_tables_gen (services_of' : list (string * service) -> list service)
    (parse_shapes' : list string -> list (list string) -> list shape)
    (parse_stop_times' : list stop -> list strip -> list string -> list (list string) -> list strip)
    (inherit : bool) (tbl : tables) : outcome static :=
  match tbl "agency.txt" ["agency_name"; "agency_url"; "agency_timezone"] with
  | Absent => Err "no agency.txt" | Bad => Err "agency.txt"
  | Rows h1 r1 =>
    let '(agencies, warns) := parse_agencies h1 r1 in
    let zone := first_zone agencies in
    match tbl "routes.txt" ["route_id"; "route_type"] with
    | Absent => Err "no routes.txt" | Bad => Err "routes.txt"
    | Rows h2 r2 =>
      let routes := parse_routes agencies h2 r2 in
      match tbl "stops.txt" ["stop_id"] with
      | Absent => Err "no stops.txt" | Bad => Err "stops.txt"
      | Rows h3 r3 =>
        let stops := parse_stops inherit h3 r3 in
        match tbl "transfers.txt" ["from_stop_id"; "to_stop_id"] with
        | Bad => Err "transfers.txt"
        | tf =>
          let transfers := match tf with Rows h r => parse_transfers stops h r | _ => [] end in
          match tbl "calendar.txt" (["start_date"; "end_date"; "service_id"] ++ day_cols) with
          | Bad => Err "calendar.txt"
          | cf =>
            let m1 := match cf with Rows h r => parse_calendar zone [] h r | _ => [] end in
            match tbl "calendar_dates.txt" ["service_id"; "date"; "exception_type"] with
            | Bad => Err "calendar_dates.txt"
            | cdf =>
              let services := services_of' (match cdf with Rows h r => parse_calendar_dates zone m1 h r | _ => m1 end) in
              match tbl "shapes.txt" ["shape_id"; "shape_pt_lat"; "shape_pt_lon"; "shape_pt_sequence"] with
              | Bad => Err "shapes.txt"
              | sf =>
                let shapes := match sf with Rows h r => parse_shapes' h r | _ => [] end in
                match tbl "trips.txt" ["route_id"; "service_id"; "trip_id"] with
                | Absent => Err "no trips.txt" | Bad => Err "trips.txt"
                | Rows h8 r8 =>
                  let trips := parse_trips routes services shapes h8 r8 in
                  match tbl "frequencies.txt" ["trip_id"; "start_time"; "end_time"; "headway_secs"] with
                  | Bad => Err "frequencies.txt"
                  | ff =>
                    let trips := match ff with Rows h r => parse_frequencies trips h r | _ => trips end in
                    match tbl "stop_times.txt" ["stop_id"; "stop_sequence"; "trip_id"] with
                    | Absent => Err "no stop_times.txt" | Bad => Err "stop_times.txt"
                    | Rows h10 r10 =>
                      Ok {| x_agencies := agencies; x_routes := routes; x_stops := stops; x_transfers := transfers; x_services := services;
                            x_trips := parse_stop_times' stops trips h10 r10; x_shapes := shapes; x_warnings := warns |}
                    end
                  end
                end
              end
            end
          end
        end
      end
    end
  end.
Definition parse_static_gen services_of' parse_shapes' parse_stop_times' (inherit : bool) (ms : list (string * string)) : outcome static :=
  parse_tables_gen services_of' parse_shapes' parse_stop_times' inherit (fun name req => open_file name req ms).
Definition parse_tables : bool -> tables -> outcome static := parse_tables_gen services_of parse_shapes parse_stop_times.
Definition parse_static : bool -> list (string * string) -> outcome static := parse_static_gen services_of parse_shapes parse_stop_times.
End Oracles.
(* Stop.Root with explicit fuel on a result *)
Definition root_fuel (fuel : nat) (stops : list stop) (i : nat) : option nat := walk fuel (map s_parent stops) i.

(* decidable equality for the case files *)
Definition agency_eq_dec : forall a b : agency, {a = b} + {a <> b}. Proof. decide equality; apply string_dec. Defined.
Definition onat_eq_dec := option_eq_dec Nat.eq_dec.
Definition route_eq_dec : forall a b : route, {a = b} + {a <> b}.
Proof. decide equality; auto using string_dec, Z.eq_dec, Nat.eq_dec, (option_eq_dec Z.eq_dec). Defined.
Definition stop_eq_dec : forall a b : stop, {a = b} + {a <> b}.
Proof. decide equality; auto using string_dec, Z.eq_dec, onat_eq_dec, (option_eq_dec Z.eq_dec). Defined.
Definition transfer_eq_dec : forall a b : transfer, {a = b} + {a <> b}.
Proof. decide equality; auto using Z.eq_dec, Nat.eq_dec, (option_eq_dec Z.eq_dec). Defined.
Definition service_eq_dec : forall a b : service, {a = b} + {a <> b}.
Proof. decide equality; auto using string_dec, Z.eq_dec, (list_eq_dec Z.eq_dec), (list_eq_dec bool_dec). Defined.
Definition shape_eq_dec : forall a b : shape, {a = b} + {a <> b}.
Proof. decide equality; auto using string_dec, (list_eq_dec (pair_eq_dec (pair_eq_dec Z.eq_dec Z.eq_dec) (option_eq_dec Z.eq_dec))). Defined.
Definition stoptime_eq_dec : forall a b : stoptime, {a = b} + {a <> b}.
Proof. decide equality; auto using string_dec, Z.eq_dec, Nat.eq_dec, bool_dec, (option_eq_dec Z.eq_dec). Defined.
Definition frequency_eq_dec : forall a b : frequency, {a = b} + {a <> b}.
Proof. decide equality; apply Z.eq_dec. Defined.
Definition strip_eq_dec : forall a b : strip, {a = b} + {a <> b}.
Proof. decide equality; auto using string_dec, Z.eq_dec, Nat.eq_dec, onat_eq_dec, (list_eq_dec stoptime_eq_dec), (list_eq_dec frequency_eq_dec). Defined.
Definition warning_eq_dec : forall a b : warning, {a = b} + {a <> b}.
Proof. decide equality; auto using string_dec, Nat.eq_dec, (list_eq_dec string_dec). Defined.
Definition static_eq_dec : forall a b : static, {a = b} + {a <> b}.
Proof. decide equality; auto using (list_eq_dec agency_eq_dec), (list_eq_dec route_eq_dec), (list_eq_dec stop_eq_dec), (list_eq_dec transfer_eq_dec),
  (list_eq_dec service_eq_dec), (list_eq_dec strip_eq_dec), (list_eq_dec shape_eq_dec), (list_eq_dec warning_eq_dec). Defined.
