(* Model/Purity.v — what C06 needs on top of the parser models:
   (1) Go map iteration as an adversary.  Every `for k, v := range m` in realtime.go / static.go visits the entries of m in
       an order the runtime chooses afresh for every loop.  The models keep a map as an association list in first-insertion
       order; a range statement sees [sh site l] where [sh] is ANY function returning a permutation of its argument
       ([fair]).  The *_sh functions below are the parsers with every range statement routed through the adversary.
   (2) what survives a ParseRealtime call: the caller's options struct (its Extension slot) and the extension VALUE the
       caller shares between calls (for nyctalerts: the elevatorAlerts map inside it).  [call] is one ParseRealtime call
       as a step on that store; [run] is a history of calls made with one options value.
   No proofs here. *)
From Coq Require Import Permutation.
From GV Require Import Base.Prelude Base.Dec Base.Sort Model.RtTypes Model.RtWire Model.Realtime Model.Static Gen.Enums Gen.NyctTables.

(* ---------- (1) the iteration-order adversary ---------- *)
Definition shuffler := forall A : Type, nat -> list A -> list A.
Definition fair (sh : shuffler) : Prop := forall A n (l : list A), Permutation (sh A n l) l.
Definition no_shuffle : shuffler := fun _ _ l => l.
Definition reversing : shuffler := fun A _ l => rev l.

Section Shuffled.
Variable sh : shuffler.

(* realtime.go:648-652: collect the keys of informedRoutesFromTripIDs by ranging over it, sort.Strings, then iterate *)
Definition fallback_of (acc : alert_acc) (r : string) : list informed_entity :=
  if existsb (String.eqb r) (aa_routes acc) then [] else
  match alookup r (aa_from_trips acc) with
  | Some (f, t) => [route_entity r (if f && t then DirectionID_Unspecified else if f then DirectionID_False else DirectionID_True)]
  | None => []
  end.
Definition fallback_entities_sh (site : nat) (acc : alert_acc) : list informed_entity :=
  flat_map (fallback_of acc) (isort string String.ltb (sh string site (map fst (aa_from_trips acc)))).

Section RT.
Variable cm : Z -> Z -> Z -> Z.
Variable tz : option string.
Variable cfg : ext_cfg.

Definition parse_alert_sh (site : nat) (id : string) (a : walert) : rt_alert * list rt_trip :=
  let acc := fold_left (alert_step cm tz) (wa_informed a) {| aa_entities := []; aa_trips := []; aa_routes := []; aa_from_trips := [] |} in
  ({| al_id := id; al_cause := odflt Alert_UNKNOWN_CAUSE (wa_cause a); al_effect := odflt Alert_UNKNOWN_EFFECT (wa_effect a);
      al_periods := map (fun p => (opt_ts tz (fst p), opt_ts tz (snd p))) (wa_periods a);
      al_informed := aa_entities acc ++ fallback_entities_sh site acc;
      al_header := wa_header a; al_desc := wa_desc a; al_url := wa_url a |}, aa_trips acc).

(* the main loop; the i-th entity's alert uses range site 2 + i *)
Definition entity_step_sh (a : acc) (ies : nat * (entity * bool)) : acc :=
  let '(i, (e, skip)) := ies in
  if skip then a else
  match e_tu e with
  | Some tu => let '(t, v) := parse_trip_update cm tz cfg tu in add_trip_vehicle a (Some t) v
  | None =>
    match e_vp e with
    | Some vp => let '(t, v) := parse_vehicle cm tz vp in add_trip_vehicle a t (Some v)
    | None =>
      match e_alert e with
      | Some al => let '(ra, ts) := parse_alert_sh (2 + i) (e_id e) al in
                   {| a_trips := fold_left merge_trip ts (a_trips a); a_vehicles := a_vehicles a; a_t2v := a_t2v a; a_v2t := a_v2t a;
                      a_noid := a_noid a; a_t2noid := a_t2noid a; a_alerts := a_alerts a ++ [ra] |}
      | None => a
      end
    end
  end.

(* realtime.go:367-398: range tripsById (site 0) then sort.Slice; range vehiclesByID (site 1) then sort.Slice *)
Definition finish_sh (created : instant) (a : acc) : realtime :=
  let trips := map (fun kt : trip_key * rt_trip => let '(k, t) := kt in
                      match glookup tk_eqb k (a_t2v a) with
                      | Some vid => set_trip_vehicle t (Some (Some vid))
                      | None => if existsb (tk_eqb k) (a_t2noid a) then set_trip_vehicle t (Some None) else t
                      end) (sh _ 0%nat (a_trips a)) in
  let vehicles := map (fun iv : vehicle_id * rt_vehicle => let '(id, v) := iv in
                         match glookup vi_eqb id (a_v2t a) with Some k => set_vehicle_trip v (Some k) | None => v end) (sh _ 1%nat (a_vehicles a)) in
  {| rt_created := created;
     rt_trips := isort rt_trip (fun x y => trip_less (tr_key x) (tr_key y)) trips;
     rt_vehicles := isort rt_vehicle (fun x y => match ve_id x, ve_id y with Some a, Some b => vid_less a b | _, _ => false end) vehicles ++ a_noid a;
     rt_alerts := a_alerts a |}.

Definition parse_message_sh (m : feed_message) : realtime :=
  let created := match fm_ts m with Some t => in_zone tz (wrap64 t) | None => zero_instant end in
  let p := pre_pass cfg m in
  finish_sh created (fold_left entity_step_sh (enumerate 0 (combine (pr_entities p) (pr_skip p))) acc0).
End RT.

(* static.go:236-241: range serviceIdToService (site 0), append, sort.Slice by id *)
Definition services_of_sh (m : list (string * service)) : list service :=
  isort service (fun a b => String.ltb (sv_id a) (sv_id b)) (map snd (sh _ 0%nat m)).
(* static.go:921-945: range shapeIDToRowData (site 1): sort the rows, build the shape, append; then sort.Slice by id *)
Definition shape_of (kv : string * list shape_row) : shape :=
  {| sh_id := fst kv; sh_points := map (fun r => (sr_lat r, sr_lon r, sr_dist r)) (isort shape_row (fun a b => sr_seq a <? sr_seq b) (snd kv)) |}.
Section StaticSh.
Variable parse_float : string -> option Z.
Variable date_in : string -> string -> option Z.
Definition parse_shapes_sh (hdr : list string) (rows : list (list string)) : list shape :=
  if has_columns hdr ["shape_id"; "shape_pt_lat"; "shape_pt_lon"; "shape_pt_sequence"] then
    let m := fold_left (fun m cells => shapes_row parse_float m (view hdr cells)) rows [] in
    isort shape (fun a b => String.ltb (sh_id a) (sh_id b)) (map shape_of (sh _ 1%nat m))
  else [].
(* static.go:842-846: range idToTrip (site 2), sort that trip's stop times in place *)
Definition parse_stop_times_sh (stops : list stop) (trips : list strip) (hdr : list string) (rows : list (list string)) : list strip :=
  if has_columns hdr ["stop_id"; "stop_sequence"; "trip_id"] then
    let filled := fold_left (fun ts cells => stop_time_row parse_float stops ts (view hdr cells)) rows trips in
    fold_left (fun ts ki => upd_trip ts (snd ki) sort_stop_times) (sh _ 2%nat (id_to_trip filled)) filled
  else trips.
Definition parse_static_sh : bool -> list (string * string) -> outcome static :=
  parse_static_gen parse_float date_in services_of_sh parse_shapes_sh parse_stop_times_sh.
End StaticSh.
End Shuffled.

(* ---------- (2) the store a ParseRealtime call can see and touch ---------- *)
(* an extension VALUE held by the caller: its configuration and, for nyctalerts, the ids in its elevatorAlerts map
   (the alerts those ids point at belong to messages parsed earlier) *)
Record ext_obj := { xo_cfg : ext_cfg; xo_elev : list string }.
(* nyctalerts.Extension(opts) / nycttrips.Extension(opts) / extensions.NoExtension(): a fresh value *)
Definition new_ext (cfg : ext_cfg) : ext_obj := {| xo_cfg := cfg; xo_elev := [] |}.
(* ParseRealtimeOptions as the caller holds it: Timezone, and Extension = nil | a pointer to an extension value *)
Record rt_opts := { ro_tz : option string; ro_ext : option ext_obj }.

(* the pre-pass run on an extension value whose map already holds [elev0]: ids seen in earlier messages map to alerts that
   are not in this message — index [length entities] stands for "an alert object outside this message" *)
Definition pre_pass_from (elev0 : list string) (cfg : ext_cfg) (m : feed_message) : pre :=
  fold_left (pre_step cfg (fm_ts m)) (enumerate 0 (fm_entities m))
    {| pr_entities := fm_entities m; pr_skip := map (fun _ => false) (fm_entities m);
       pr_elev := map (fun k => (k, List.length (fm_entities m))) elev0 |}.
Definition parse_message_from (cm : Z -> Z -> Z -> Z) (tz : option string) (x : ext_obj) (m : feed_message) : realtime * ext_obj :=
  let created := match fm_ts m with Some t => in_zone tz (wrap64 t) | None => zero_instant end in
  let p := pre_pass_from (xo_elev x) (xo_cfg x) m in
  (finish created (fold_left (entity_step cm tz (xo_cfg x)) (combine (pr_entities p) (pr_skip p)) acc0),
   {| xo_cfg := xo_cfg x; xo_elev := map fst (pr_elev p) |}).

(* extension.ForMessage (nyctalerts.go): same options, empty map; ParseRealtime uses it for this message only *)
Definition for_message (x : ext_obj) : ext_obj := {| xo_cfg := xo_cfg x; xo_elev := [] |}.

(* one ParseRealtime(content, opts) call.  [m] = None: proto.Unmarshal fails.  Returns the result and the caller's options
   as they are after the call (realtime.go:264-278: a nil Extension is filled in on a COPY; a per-message extension replaces
   the shared one on a COPY) *)
Definition call (cm : Z -> Z -> Z -> Z) (o : rt_opts) (m : option feed_message) : outcome realtime * rt_opts :=
  let x := match ro_ext o with Some x => x | None => new_ext NoExt end in
  let x' := for_message x in
  match m with
  | None => (Err "failed to parse input as a GTFS Realtime message", o)
  | Some m => (Ok (fst (parse_message_from cm (ro_tz o) x' m)), o)
  end.
(* the same call as the code was before the repairs S12 (opts.Extension written) and S13 (the shared map used directly):
   kept to show that the history theorems are not vacuous — see Properties/C06.v *)
Definition call_unrepaired (cm : Z -> Z -> Z -> Z) (o : rt_opts) (m : option feed_message) : outcome realtime * rt_opts :=
  let x := match ro_ext o with Some x => x | None => new_ext NoExt end in
  match m with
  | None => (Err "failed to parse input as a GTFS Realtime message", {| ro_tz := ro_tz o; ro_ext := Some x |})
  | Some m => let '(r, x2) := parse_message_from cm (ro_tz o) x m in (Ok r, {| ro_tz := ro_tz o; ro_ext := Some x2 |})
  end.

(* a history of calls with one options value: the results in call order and the options afterwards *)
Fixpoint run (step : rt_opts -> option feed_message -> outcome realtime * rt_opts) (o : rt_opts) (ms : list (option feed_message))
  : list (outcome realtime) * rt_opts :=
  match ms with
  | [] => ([], o)
  | m :: r => let '(res, o1) := step o m in let '(rs, o2) := run step o1 r in (res :: rs, o2)
  end.

(* for the case files: observed results of a history (None = ParseRealtime returned an error) against [run (call cm)] *)
Fixpoint same_results (a : list (outcome realtime)) (b : list (option realtime)) : bool :=
  match a, b with
  | [], [] => true
  | Ok r :: a', Some w :: b' => (if realtime_eq_dec r w then true else false) && same_results a' b'
  | Err _ :: a', None :: b' => same_results a' b'
  | _, _ => false
  end.
Definition table_cm (tbl : list ((Z * Z * Z) * Z)) : Z -> Z -> Z -> Z :=
  fun y mo d => match find (fun e => let '((y', m', d'), _) := e in (y =? y') && (mo =? m') && (d =? d')) tbl with Some (_, v) => v | None => 0 end.
Definition check_history (c : (rt_opts * list ((Z * Z * Z) * Z)) * (list (option feed_message) * list (option realtime))) : bool :=
  let '((o, tbl), (ms, want)) := c in same_results (fst (run (call (table_cm tbl)) o ms)) want.
