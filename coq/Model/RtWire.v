(* Model/RtWire.v — the decoded GTFS-realtime message tree (proto2: every optional field an option), with the NYCT
   extension payloads inline.  Field names follow the proto.  This is what proto.Unmarshal hands to ParseRealtime;
   protobuf decoding itself is an oracle (DESIGN 4.4): the harness emits this tree from the decoded message. *)
From GV Require Import Base.Prelude.

Record nyct_trip := { nt_train_id : option string; nt_is_assigned : option bool; nt_direction : option Z }.
Record trip_desc := { td_trip_id : option string; td_route_id : option string; td_direction_id : option Z;
                      td_start_time : option string; td_start_date : option string; td_rel : option Z;
                      td_nyct : option nyct_trip }.
Record veh_desc := { vd_id : option string; vd_label : option string; vd_plate : option string }.
Record st_event := { se_delay : option Z; se_time : option Z; se_unc : option Z }.
Record nyct_stu := { ns_sched : option string; ns_actual : option string }.
Record st_update := { stu_seq : option Z; stu_stop : option string; stu_arr : option st_event; stu_dep : option st_event;
                      stu_rel : option Z; stu_nyct : option nyct_stu }.
Record trip_update := { tu_trip : trip_desc; tu_vehicle : option veh_desc; tu_stus : list st_update }.
Record position := { ps_lat : option Z; ps_lon : option Z; ps_bearing : option Z; ps_odo : option Z; ps_speed : option Z }.  (* IEEE bits *)
Record veh_pos := { vp_trip : option trip_desc; vp_vehicle : option veh_desc; vp_position : option position;
                    vp_seq : option Z; vp_stop : option string; vp_status : option Z; vp_ts : option Z;
                    vp_cong : option Z; vp_occ : option Z; vp_occ_pct : option Z }.
Record selector := { sl_agency : option string; sl_route : option string; sl_route_type : option Z;
                     sl_trip : option trip_desc; sl_stop : option string; sl_direction : option Z;
                     sl_mercury : option string (* MercuryEntitySelector.sort_order when the extension is present *) }.
Record walert := { wa_periods : list (option Z * option Z); wa_informed : list selector;
                   wa_cause : option Z; wa_effect : option Z;
                   wa_url : list (string * string); wa_header : list (string * string); wa_desc : list (string * string);  (* (GetText, GetLanguage) *)
                   wa_metadata : option string  (* Some json iff the MercuryAlert extension is present: json.Marshal(Metadata{...}) as the code builds it — oracle *) }.
Record entity := { e_id : string; e_tu : option trip_update; e_vp : option veh_pos; e_alert : option walert }.
Record feed_message := { fm_ts : option Z; fm_entities : list entity }.

(* extension configuration (extensions.Extension values the library bundles) *)
Inductive ext_cfg :=
| NoExt
| NyctTrips (filter_stale preserve_m : bool)
| NyctAlerts (policy : Z (* 0 none, 1 station, 2 complex *)) (station_ids skip_timetabled add_metadata : bool).
