(* Model/Export.v — journal/export.go with the two templates trips.csv.tmpl / stop_times.csv.tmpl, as their output:
   a header line, then one line per trip / per stop time, every line terminated by "\n" (the templates' trim markers
   remove all other white space; DESIGN App. A).  Values print as text/template prints them: strings verbatim,
   integers and Unix times in decimal, nil pointers as the empty string, direction as 0 / 1 / empty. *)
From GV Require Import Base.Prelude Base.Dec Model.Journal.

Definition dir_s (d : Z) : string := if d =? 2 then "0" else if d =? 1 then "1" else "".   (* FormatDirectionID: False=2, True=1 *)
Definition ounix (o : option Z) : string := match o with Some z => show_Zs z | None => "" end.   (* NullableUnix *)
Definition ostr (o : option string) : string := odflt "" o.                                       (* NullableString *)

Definition header_trips : list string :=
  ["trip_uid"; "trip_id"; "route_id"; "direction_id"; "start_time"; "vehicle_id"; "last_observed"; "marked_past";
   "num_updates"; "num_schedule_changes"; "num_schedule_rewrites"].
Definition header_stops : list string :=
  ["trip_uid"; "stop_id"; "track"; "arrival_time"; "departure_time"; "last_observed"; "marked_past"].
Definition trip_cells (t : j_trip) : list string :=
  [jt_uid t; jt_id t; jt_route t; dir_s (jt_dir t); show_Zs (jt_start t); jt_vehicle t; show_Zs (jt_last t); ounix (jt_marked t);
   show_Zs (jt_nupd t); show_Zs (jt_nchg t); show_Zs (jt_nrew t)].
Definition stop_cells (uid : string) (s : j_stop) : list string :=
  [uid; js_stop s; ostr (js_track s); ounix (js_arr s); ounix (js_dep s); show_Zs (js_last s); ounix (js_marked s)].

Definition nl : string := String "010" "".
Definition line (cells : list string) : string := String.concat "," cells ++ nl.
Definition export_rows (rows : list (list string)) : string := String.concat "" (map line rows).

Definition trips_table (j : list j_trip) : list (list string) := header_trips :: map trip_cells j.
Definition stops_table (j : list j_trip) : list (list string) :=
  header_stops :: flat_map (fun t => map (stop_cells (jt_uid t)) (jt_stops t)) j.
Definition export_trips (j : list j_trip) : string := export_rows (trips_table j).
Definition export_stop_times (j : list j_trip) : string := export_rows (stops_table j).
