(* Model/Csv.v — the CSV layer of the static parser: x/text BOMOverride (UTF-8 BOM only), encoding/csv's reader on the
   configuration csv/csv.go uses (Comma=',', no Comment, LazyQuotes=false, TrimLeadingSpace=false, FieldsPerRecord=0:
   fixed by the first record), read from /usr/lib/go-1.23/src/encoding/csv/reader.go (DESIGN App. A).
   readLine's two rewrites (\r\n -> \n on every line, a trailing \r before EOF dropped) are a pre-pass [normalise];
   readRecord is the five-state automaton [go].  No proofs here. *)
From Coq Require Import List Ascii String Arith Lia Bool.
Import ListNotations.
Local Open Scope char_scope.

(* ---------- model: tokenizer on normalised text (only \n line ends) ---------- *)
Definition cell := list ascii.
Definition row := list cell.
Inductive cerr := BareQuote | Quote | FieldCount.
Inductive res := ROk (rows : list row) | RErr (e : cerr).

Definition NL : ascii := "010".
Definition CR : ascii := "013".
Definition COMMA : ascii := ",".
Definition DQ : ascii := """".

Inductive st := RecStart | FieldStart | Unq | Quo | QuoQ.

(* finish a record: check the field count against the first record *)
Definition push_rec (n : option nat) (r : row) (acc : list row) : option (option nat * list row) :=
  match n with
  | None => Some (Some (List.length r), r :: acc)
  | Some k => if Nat.eqb k (List.length r) then Some (n, r :: acc) else None
  end.

Fixpoint go (s : st) (n : option nat) (fld : cell) (rc : row) (acc : list row) (inp : list ascii) : res :=
  let endfield := rev fld :: rc in
  let endrec k := match push_rec n (rev endfield) acc with
                  | Some (n', acc') => k n' acc'
                  | None => RErr FieldCount end in
  match inp with
  | [] =>
    match s with
    | RecStart => ROk (rev acc)
    | FieldStart | Unq | QuoQ => endrec (fun _ acc' => ROk (rev acc'))
    | Quo => RErr Quote
    end
  | c :: inp' =>
    match s with
    | RecStart =>
      if Ascii.eqb c NL then go RecStart n [] [] acc inp'
      else if Ascii.eqb c DQ then go Quo n [] [] acc inp'
      else if Ascii.eqb c COMMA then go FieldStart n [] [ [] ] acc inp'
      else go Unq n [c] [] acc inp'
    | FieldStart =>
      if Ascii.eqb c NL then endrec (fun n' acc' => go RecStart n' [] [] acc' inp')
      else if Ascii.eqb c DQ then go Quo n [] rc acc inp'
      else if Ascii.eqb c COMMA then go FieldStart n [] endfield acc inp'
      else go Unq n [c] rc acc inp'
    | Unq =>
      if Ascii.eqb c NL then endrec (fun n' acc' => go RecStart n' [] [] acc' inp')
      else if Ascii.eqb c COMMA then go FieldStart n [] endfield acc inp'
      else if Ascii.eqb c DQ then RErr BareQuote
      else go Unq n (c :: fld) rc acc inp'
    | Quo =>
      if Ascii.eqb c DQ then go QuoQ n fld rc acc inp'
      else go Quo n (c :: fld) rc acc inp'
    | QuoQ =>
      if Ascii.eqb c DQ then go Quo n (DQ :: fld) rc acc inp'
      else if Ascii.eqb c COMMA then go FieldStart n [] endfield acc inp'
      else if Ascii.eqb c NL then endrec (fun n' acc' => go RecStart n' [] [] acc' inp')
      else RErr Quote
    end
  end.

Definition tokenize (inp : list ascii) : res := go RecStart None [] [] [] inp.


(* ---------- readLine's rewrites as a pre-pass over the whole input ---------- *)
(* every "\r\n" becomes "\n"; a final line without "\n" that ends in "\r" loses that "\r" *)
Fixpoint normalise (inp : list ascii) : list ascii :=
  match inp with
  | [] => []
  | c :: inp' =>
    if Ascii.eqb c CR then
      match inp' with
      | [] => []                                   (* trailing \r before EOF *)
      | d :: _ => if Ascii.eqb d NL then normalise inp' else c :: normalise inp'
      end
    else c :: normalise inp'
  end.

(* ---------- BOMOverride(Nop): a leading EF BB BF is dropped, the rest passes through unchanged ---------- *)
Definition B_EF : ascii := "239". Definition B_BB : ascii := "187". Definition B_BF : ascii := "191".
Definition strip_bom (inp : list ascii) : list ascii :=
  match inp with
  | a :: b :: c :: r => if Ascii.eqb a B_EF && Ascii.eqb b B_BB && Ascii.eqb c B_BF then r else inp
  | _ => inp
  end.
(* inputs starting with a UTF-16 BOM are transcoded by the real reader: outside this model *)
Definition B_FF : ascii := "255". Definition B_FE : ascii := "254".
Definition utf16_bom (inp : list ascii) : bool :=
  match inp with
  | a :: b :: _ => (Ascii.eqb a B_FF && Ascii.eqb b B_FE) || (Ascii.eqb a B_FE && Ascii.eqb b B_FF)
  | _ => false
  end.

(* csv.New reads ONE record (the header) and fails only if that record is malformed or absent; the later records are read
   by the row loop, if it runs.  [go1] is [go] stopped at the end of the first record. *)
Inductive res1 := R1Ok (r : row) (rest : list ascii) | R1Err | R1None.
Fixpoint go1 (s : st) (fld : cell) (rc : row) (inp : list ascii) : res1 :=
  let endfield := rev fld :: rc in
  match inp with
  | [] => match s with RecStart => R1None | FieldStart | Unq | QuoQ => R1Ok (rev endfield) [] | Quo => R1Err end
  | c :: inp' =>
    match s with
    | RecStart =>
      if Ascii.eqb c NL then go1 RecStart [] [] inp'
      else if Ascii.eqb c DQ then go1 Quo [] [] inp'
      else if Ascii.eqb c COMMA then go1 FieldStart [] [ [] ] inp'
      else go1 Unq [c] [] inp'
    | FieldStart =>
      if Ascii.eqb c NL then R1Ok (rev endfield) inp'
      else if Ascii.eqb c DQ then go1 Quo [] rc inp'
      else if Ascii.eqb c COMMA then go1 FieldStart [] endfield inp'
      else go1 Unq [c] rc inp'
    | Unq =>
      if Ascii.eqb c NL then R1Ok (rev endfield) inp'
      else if Ascii.eqb c COMMA then go1 FieldStart [] endfield inp'
      else if Ascii.eqb c DQ then R1Err
      else go1 Unq (c :: fld) rc inp'
    | Quo =>
      if Ascii.eqb c DQ then go1 QuoQ fld rc inp'
      else go1 Quo (c :: fld) rc inp'
    | QuoQ =>
      if Ascii.eqb c DQ then go1 Quo (DQ :: fld) rc inp'
      else if Ascii.eqb c COMMA then go1 FieldStart [] endfield inp'
      else if Ascii.eqb c NL then R1Ok (rev endfield) inp'
      else R1Err
    end
  end.
Definition read_header (inp : list ascii) : res1 := go1 RecStart [] [] (normalise (strip_bom inp)).

(* what csv.New + NextRow* see when every row is read: all records of the file, or an error *)
Definition read_all (inp : list ascii) : res := tokenize (normalise (strip_bom inp)).

Definition cell_s (c : cell) : string := string_of_list_ascii c.
Definition read_header_s (s : string) : option (list string) :=
  match read_header (list_ascii_of_string s) with R1Ok r _ => Some (map cell_s r) | _ => None end.
Definition read_all_s (s : string) : option (list (list string)) :=
  match read_all (list_ascii_of_string s) with
  | ROk rows => Some (map (map cell_s) rows)
  | RErr _ => None
  end.
