(* Model/DirSource.v — journal.DirectoryGtfsrtSource (journal/journal.go:67-116).
   The file system is modelled by what os.ReadDir / os.ReadFile show of it: a directory is a list of (name, entry);
   an entry is a readable file with its bytes, or something ReadFile fails on (a sub-directory, a dangling link, a file
   removed after the listing).  gtfs.ParseRealtime with the journal's fixed options is a Section variable. *)
From GV Require Import Base.Prelude Base.Sort.

Section DirSource.
Variables (B R : Type) (parse : B -> option R).
Inductive entry := File (bytes : B) | Unreadable.
Definition dir := list (string * entry).

(* NewDirectoryGtfsrtSource: the names, sorted (sort.Strings) *)
Definition new_source (d : dir) : list string := isort string String.ltb (map fst d).

(* what reading + parsing one name yields *)
Definition load (d : dir) (n : string) : option R :=
  match alookup n d with Some (File b) => parse b | _ => None end.

(* Next: the loop that continues past read and parse errors; explicit fuel, one unit per iteration *)
Fixpoint next (fuel : nat) (d : dir) (names : list string) : outcome (option R * list string) :=
  match fuel with
  | O => OutOfFuel
  | S f =>
    match names with
    | [] => Ok (None, [])
    | n :: rest => match load d n with Some r => Ok (Some r, rest) | None => next f d rest end
    end
  end.

(* calling Next until it returns nil: the stream a consumer (BuildJournal) sees *)
Fixpoint drain (calls : nat) (d : dir) (names : list string) : outcome (list R) :=
  match calls with
  | O => OutOfFuel
  | S c =>
    match next (S (List.length names)) d names with
    | Ok (Some r, rest) => match drain c d rest with Ok l => Ok (r :: l) | e => e end
    | Ok (None, _) => Ok []
    | Err e => Err e | Panic s => Panic s | OutOfFuel => OutOfFuel
    end
  end.
End DirSource.
Arguments File {B}. Arguments Unreadable {B}.
