(* Model/Journal.v — journal/journal.go: BuildJournal, Trip.update, createPartition, StopTime.update / markPast,
   Trip.markPast, function by function with the same accumulators (trips, activeTrips, newActiveTrips).
   Times are Unix seconds (Z); a *time.Time is an option.  The map[string]*Trip is an association list keyed by UID
   (only lookups, inserts and a final sort.Strings of the keys observe it).  No proofs here. *)
From GV Require Import Base.Prelude Base.Dec Base.Sort.

(* --- what BuildJournal reads of a gtfs.Realtime (harness/eng_journal.go projects exactly these fields) --- *)
Record ju_stop := { us_stop : option string;          (* StopTimeUpdate.StopID *)
                    us_arr : option Z;                 (* GetArrival().Time *)
                    us_dep : option Z;                 (* GetDeparture().Time *)
                    us_track : option string }.        (* NyctTrack *)
Record ju_trip := { ut_id : string; ut_route : string; ut_dir : Z;
                    ut_date : Z;                       (* ID.StartDate, Unix seconds *)
                    ut_time : Z;                       (* ID.StartTime, nanoseconds *)
                    ut_vehicle : option (option string);   (* None: Vehicle == nil; Some None: vehicle without ID; Some (Some id) *)
                    ut_stops : list ju_stop }.
Record j_feed := { jf_created : Z; jf_trips : list ju_trip }.

(* --- journal.StopTime, journal.Trip --- *)
Record j_stop := { js_stop : string; js_arr : option Z; js_dep : option Z; js_track : option string;
                   js_last : Z; js_marked : option Z }.
Record j_trip := { jt_uid : string; jt_id : string; jt_route : string; jt_dir : Z; jt_start : Z; jt_vehicle : string;
                   jt_assigned : bool; jt_stops : list j_stop; jt_last : Z; jt_marked : option Z;
                   jt_nupd : Z; jt_nchg : Z; jt_nrew : Z }.

Definition set_stops (tr : j_trip) (l : list j_stop) : j_trip :=
  {| jt_uid := jt_uid tr; jt_id := jt_id tr; jt_route := jt_route tr; jt_dir := jt_dir tr; jt_start := jt_start tr;
     jt_vehicle := jt_vehicle tr; jt_assigned := jt_assigned tr; jt_stops := l; jt_last := jt_last tr;
     jt_marked := jt_marked tr; jt_nupd := jt_nupd tr; jt_nchg := jt_nchg tr; jt_nrew := jt_nrew tr |}.

(* --- strings --- *)
Fixpoint sdrop (n : nat) (s : string) : string :=
  match n, s with O, _ => s | S n', String _ s' => sdrop n' s' | S _, EmptyString => EmptyString end.
(* journal.go:127-128, 180: startTime := StartDate.Add(StartTime); fmt.Sprintf("%d%s", startTime.Unix(), ID[6:]) *)
Definition start_of (u : ju_trip) : Z := ut_date u + ut_time u / 1000000000.
Definition uid_of (u : ju_trip) : string := show_Zs (start_of u) ++ sdrop 6 (ut_id u).

(* --- stop times --- *)
Definition stop_id_or_empty (u : ju_stop) : string := odflt "" (us_stop u).
(* StopTime.update: overwrites every field (journal.go:283-290) *)
Definition stop_update (_old : j_stop) (u : ju_stop) (t : Z) : j_stop :=
  {| js_stop := stop_id_or_empty u; js_arr := us_arr u; js_dep := us_dep u; js_track := us_track u; js_last := t; js_marked := None |}.
Definition blank_stop : j_stop := {| js_stop := ""; js_arr := None; js_dep := None; js_track := None; js_last := 0; js_marked := None |}.
Definition fresh (t : Z) (u : ju_stop) : j_stop := stop_update blank_stop u t.
(* StopTime.markPast: only once (journal.go:292-296) *)
Definition mark (t : Z) (e : j_stop) : j_stop :=
  match js_marked e with
  | Some _ => e
  | None => {| js_stop := js_stop e; js_arr := js_arr e; js_dep := js_dep e; js_track := js_track e; js_last := js_last e; js_marked := Some t |}
  end.

(* createPartition (journal.go:243-281): index of the first stop equal to updates[0]'s stop id (0 if none),
   then the longest run of pairwise-equal stop ids *)
Fixpoint first_index_opt (s : string) (L : list j_stop) : option nat :=
  match L with
  | [] => None
  | e :: L' => if String.eqb (js_stop e) s then Some 0%nat else option_map S (first_index_opt s L')
  end.
Definition first_index (s : string) (L : list j_stop) : nat := odflt 0%nat (first_index_opt s L).
Fixpoint run_len (L : list j_stop) (us : list ju_stop) : nat :=
  match L, us with
  | e :: L', u :: us' => if String.eqb (js_stop e) (stop_id_or_empty u) then S (run_len L' us') else 0%nat
  | _, _ => 0%nat
  end.
Record partition := { p_past : list j_stop; p_updated : list (j_stop * ju_stop); p_new : list ju_stop }.
Definition create_partition (L : list j_stop) (us : list ju_stop) : partition :=
  match us with
  | [] => {| p_past := L; p_updated := []; p_new := [] |}
  | u0 :: _ =>
    let k := first_index (stop_id_or_empty u0) L in
    let j := run_len (skipn k L) us in
    {| p_past := firstn k L; p_updated := combine (firstn j (skipn k L)) (firstn j us); p_new := skipn j us |}
  end.

(* Trip.update (journal.go:171-221) *)
Definition ignored (tr : j_trip) (u : ju_trip) : bool := jt_assigned tr && negb (is_some (ut_vehicle u)).
Definition trip_update (tr : j_trip) (u : ju_trip) (t : Z) : j_trip :=
  if ignored tr u then tr else
  let p := create_partition (jt_stops tr) (ut_stops u) in
  let kept := map (mark t) (p_past p) ++ map (fun '(e, us) => stop_update e us t) (p_updated p) in
  {| jt_uid := uid_of u; jt_id := ut_id u; jt_route := ut_route u; jt_dir := ut_dir u; jt_start := start_of u;
     jt_vehicle := match ut_vehicle u with Some (Some id) => id | _ => "" end;
     jt_assigned := jt_assigned tr || is_some (ut_vehicle u);
     jt_stops := kept ++ map (fresh t) (p_new p);
     jt_last := t; jt_marked := None; jt_nupd := jt_nupd tr + 1;
     jt_nchg := jt_nchg tr + (match p_new p with [] => 0 | _ => 1 end);
     jt_nrew := jt_nrew tr + (match kept with [] => 1 | _ => 0 end) |}.
(* Trip.markPast (journal.go:223-230) *)
Definition trip_mark_past (t : Z) (tr : j_trip) : j_trip :=
  {| jt_uid := jt_uid tr; jt_id := jt_id tr; jt_route := jt_route tr; jt_dir := jt_dir tr; jt_start := jt_start tr;
     jt_vehicle := jt_vehicle tr; jt_assigned := jt_assigned tr; jt_stops := map (mark t) (jt_stops tr); jt_last := jt_last tr;
     jt_marked := match jt_marked tr with Some m => Some m | None => Some t end;
     jt_nupd := jt_nupd tr; jt_nchg := jt_nchg tr; jt_nrew := jt_nrew tr |}.
Definition new_trip : j_trip :=
  {| jt_uid := ""; jt_id := ""; jt_route := ""; jt_dir := 0; jt_start := -62135596800; jt_vehicle := ""; jt_assigned := false; jt_stops := [];
     jt_last := -62135596800; jt_marked := None; jt_nupd := 0; jt_nchg := -1; jt_nrew := -1 |}.

(* BuildJournal's state: trips, activeTrips *)
Record jstate := { st_trips : list (string * j_trip); st_active : list string }.
Definition jinit : jstate := {| st_trips := []; st_active := [] |}.

(* one trip of one feed (journal.go:122-141) *)
Definition apply_trip (t : Z) (acc : list (string * j_trip) * list string) (u : ju_trip) : list (string * j_trip) * list string :=
  let '(trips, newActive) := acc in
  if (String.length (ut_id u) <? 6)%nat then acc else
  let uid := uid_of u in
  let tr := match alookup uid trips with Some e => e | None => new_trip end in
  (aset uid (trip_update tr u t) trips, uid :: newActive).
Definition mem (s : string) (l : list string) : bool := existsb (String.eqb s) l.
Definition amap {A} (k : string) (f : A -> A) (l : list (string * A)) : list (string * A) :=
  map (fun '(k', v) => if String.eqb k k' then (k', f v) else (k', v)) l.
(* one feed (journal.go:118-150); activeTrips is ranged over in map order: any order gives the same result (proved) *)
Definition apply_feed (st : jstate) (f : j_feed) : jstate :=
  let t := jf_created f in
  let '(trips, newActive) := fold_left (apply_trip t) (jf_trips f) (st_trips st, []) in
  let gone := filter (fun uid => negb (mem uid newActive)) (st_active st) in
  {| st_trips := fold_left (fun tr uid => amap uid (trip_mark_past t) tr) gone trips; st_active := newActive |}.

(* sort.Strings: insertion sort on the bytewise order (Base/Sort.v) *)
Definition ssort (l : list string) : list string := isort string String.ltb l.

(* selection and output (journal.go:151-169) *)
(* the window bounds a, b are instants in NANOSECONDS since the epoch (Go's time.Time is nanosecond-precise and the caller
   may pass any instants); the trip's start is a whole-second instant (start date + HH:MM:SS offset) *)
Definition ns (sec : Z) : Z := sec * 1000000000.
Definition selected (a b : Z) (tr : j_trip) : bool := negb (ns (jt_start tr) <? a) && negb (b <? ns (jt_start tr)) && jt_assigned tr.
Definition journal_of (st : jstate) (a b : Z) : list j_trip :=
  let ids := ssort (map fst (filter (fun kv => selected a b (snd kv)) (st_trips st))) in
  flat_map (fun uid => match alookup uid (st_trips st) with Some tr => [tr] | None => [] end) ids.
Definition build_journal (feeds : list j_feed) (a b : Z) : list j_trip := journal_of (fold_left apply_feed feeds jinit) a b.

(* decidable equality for the case files *)
Definition j_stop_eq_dec : forall a b : j_stop, {a = b} + {a <> b}.
Proof. decide equality; auto using Z.eq_dec, string_dec, (option_eq_dec Z.eq_dec), (option_eq_dec string_dec). Defined.
Definition j_trip_eq_dec : forall a b : j_trip, {a = b} + {a <> b}.
Proof. decide equality; auto using Z.eq_dec, string_dec, bool_dec, (option_eq_dec Z.eq_dec), (list_eq_dec j_stop_eq_dec). Defined.
