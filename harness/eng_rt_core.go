package main

// Engines for the realtime parser core: "rt_transcribe" (C02), "rt_links" (C04), "rt_merge" (C07), "rt_alerts" (C12).
// All share the correspondence with Model/Realtime.v (full projection of *gtfs.Realtime); each adds the Go-side
// statement of its property on the real outputs.

import (
	"fmt"
	"google.golang.org/protobuf/proto"
	"reflect"
	"sort"
	"time"

	"github.com/jamespfennell/gtfs"
	gtfsrt "github.com/jamespfennell/gtfs/proto"
)

var rtZones = []string{"", "UTC", "America/New_York", "Europe/London", "Australia/Lord_Howe", "Pacific/Apia", "fixed+5:30", "fixed-3"}

func (g *gen) rtZone() *time.Location {
	switch z := g.pick(rtZones); z {
	case "":
		return nil
	case "fixed+5:30":
		return time.FixedZone("plus0530", 5*3600+1800)
	case "fixed-3":
		return time.FixedZone("minus3", -3*3600)
	default:
		return loadZone(z)
	}
}

func isDigits(s string) bool {
	for i := 0; i < len(s); i++ {
		if s[i] < '0' || s[i] > '9' {
			return false
		}
	}
	return true
}
func atoiDigits(s string) int {
	n := 0
	for i := 0; i < len(s); i++ {
		n = n*10 + int(s[i]-'0')
	}
	return n
}

// independent transcription of a trip descriptor (the property's wording, not the code's)
func wantTripID(td *gtfsrt.TripDescriptor, tz *time.Location) gtfs.TripID {
	if tz == nil {
		tz = time.UTC
	}
	k := gtfs.TripID{ID: td.GetTripId(), RouteID: td.GetRouteId(), ScheduleRelationship: td.GetScheduleRelationship()}
	if td.DirectionId != nil {
		if *td.DirectionId == 0 {
			k.DirectionID = gtfs.DirectionID_False
		} else {
			k.DirectionID = gtfs.DirectionID_True
		}
	}
	if s := td.StartTime; s != nil && len(*s) == 8 && (*s)[2] == ':' && (*s)[5] == ':' && isDigits((*s)[0:2]+(*s)[3:5]+(*s)[6:8]) {
		k.HasStartTime = true
		k.StartTime = time.Duration(atoiDigits((*s)[0:2])*3600+atoiDigits((*s)[3:5])*60+atoiDigits((*s)[6:8])) * time.Second
	}
	if s := td.StartDate; s != nil && len(*s) == 8 && isDigits(*s) {
		k.HasStartDate = true
		k.StartDate = time.Date(atoiDigits((*s)[0:4]), time.Month(atoiDigits((*s)[4:6])), atoiDigits((*s)[6:8]), 0, 0, 0, 0, tz)
	}
	return k
}
func wantVehicleID(v *gtfsrt.VehicleDescriptor) *gtfs.VehicleID {
	if v == nil || (v.GetId() == "" && v.GetLabel() == "" && v.GetLicensePlate() == "") {
		return nil
	}
	return &gtfs.VehicleID{ID: v.GetId(), Label: v.GetLabel(), LicensePlate: v.GetLicensePlate()}
}
func sameTripID(a, b gtfs.TripID) bool {
	return a.ID == b.ID && a.RouteID == b.RouteID && a.DirectionID == b.DirectionID && a.HasStartTime == b.HasStartTime && a.StartTime == b.StartTime &&
		a.HasStartDate == b.HasStartDate && a.StartDate.Equal(b.StartDate) && a.ScheduleRelationship == b.ScheduleRelationship &&
		(!a.HasStartDate || a.StartDate.Location().String() == b.StartDate.Location().String())
}
func findRTTrip(r *gtfs.Realtime, k gtfs.TripID) []*gtfs.Trip {
	var out []*gtfs.Trip
	for i := range r.Trips {
		if sameTripID(r.Trips[i].ID, k) {
			out = append(out, &r.Trips[i])
		}
	}
	return out
}
func zoneOK(t *time.Time, tz *time.Location) bool {
	if t == nil {
		return true
	}
	want := "UTC"
	if tz != nil {
		want = tz.String()
	}
	return t.Location().String() == want
}
func identifiesGo(k *gtfs.TripID) bool {
	return k != nil && (k.ID != "" || (k.RouteID != "" && k.DirectionID != gtfs.DirectionID_Unspecified && k.HasStartTime && k.HasStartDate))
}

// C02: field-by-field transcription of a conflict-free message parsed without extension
func oracleC02(m *gtfsrt.FeedMessage, r *gtfs.Realtime, tz *time.Location) string {
	// created at
	if t := m.GetHeader().Timestamp; t != nil {
		if r.CreatedAt.Unix() != int64(*t) || !zoneOK(&r.CreatedAt, tz) {
			return "CreatedAt is not the header timestamp in the configured zone"
		}
	} else if !r.CreatedAt.IsZero() {
		return "CreatedAt fabricated for a header without timestamp"
	}
	type mention struct {
		k     gtfs.TripID
		own   *gtfsrt.TripUpdate
		alert bool
	}
	var mentions []mention
	addMention := func(k gtfs.TripID, own *gtfsrt.TripUpdate) {
		for i := range mentions {
			if sameTripID(mentions[i].k, k) {
				if own != nil {
					mentions[i].own = own
				}
				return
			}
		}
		mentions = append(mentions, mention{k: k, own: own})
	}
	nAlerts := 0
	var idVehicles []*gtfs.VehicleID
	addVeh := func(id *gtfs.VehicleID) {
		if id == nil {
			return
		}
		for _, x := range idVehicles {
			if *x == *id {
				return
			}
		}
		idVehicles = append(idVehicles, id)
	}
	idless := 0
	for _, e := range m.Entity {
		switch {
		case e.TripUpdate != nil:
			addMention(wantTripID(e.TripUpdate.Trip, tz), e.TripUpdate)
			if e.TripUpdate.Vehicle != nil {
				addVeh(wantVehicleID(e.TripUpdate.Vehicle))
			}
		case e.Vehicle != nil:
			if e.Vehicle.Trip != nil {
				addMention(wantTripID(e.Vehicle.Trip, tz), nil)
			}
			if id := wantVehicleID(e.Vehicle.Vehicle); id != nil {
				addVeh(id)
			} else {
				idless++
			}
		case e.Alert != nil:
			nAlerts++
			for _, s := range e.Alert.InformedEntity {
				if s.Trip != nil {
					k := wantTripID(s.Trip, tz)
					// only selectors that survive normalisation surface their trip (C12)
					if identifiesGo(&k) {
						addMention(k, nil)
					}
				}
			}
		}
	}
	if len(r.Trips) != len(mentions) {
		return fmt.Sprintf("%d trips for %d distinct trip descriptors", len(r.Trips), len(mentions))
	}
	for _, mt := range mentions {
		got := findRTTrip(r, mt.k)
		if len(got) != 1 {
			return fmt.Sprintf("%d Trips entries for descriptor %+v", len(got), mt.k)
		}
		t := got[0]
		if !zoneOK(&t.ID.StartDate, tz) && t.ID.HasStartDate {
			return "start date not in the configured zone"
		}
		if mt.own == nil {
			if t.IsEntityInMessage || len(t.StopTimeUpdates) != 0 {
				return fmt.Sprintf("trip %q only referenced from other entities carries own-entity data", t.ID.ID)
			}
			continue
		}
		if !t.IsEntityInMessage {
			return fmt.Sprintf("trip %q has a trip update entity but IsEntityInMessage is false", t.ID.ID)
		}
		if len(t.StopTimeUpdates) != len(mt.own.StopTimeUpdate) {
			return fmt.Sprintf("trip %q: %d stop time updates for %d on the wire", t.ID.ID, len(t.StopTimeUpdates), len(mt.own.StopTimeUpdate))
		}
		for i, w := range mt.own.StopTimeUpdate {
			u := &t.StopTimeUpdates[i]
			if !reflect.DeepEqual(u.StopSequence, w.StopSequence) || !reflect.DeepEqual(u.StopID, w.StopId) || u.ScheduleRelationship != w.GetScheduleRelationship() || u.NyctTrack != nil {
				return fmt.Sprintf("trip %q update %d: sequence/stop/relationship/track differ from the wire", t.ID.ID, i)
			}
			for _, p := range []struct {
				name string
				g    *gtfs.StopTimeEvent
				w    *gtfsrt.TripUpdate_StopTimeEvent
			}{{"arrival", u.Arrival, w.Arrival}, {"departure", u.Departure, w.Departure}} {
				if (p.g == nil) != (p.w == nil) {
					return fmt.Sprintf("trip %q update %d: %s presence differs from the wire", t.ID.ID, i, p.name)
				}
				if p.g == nil {
					continue
				}
				if (p.g.Time == nil) != (p.w.Time == nil) || (p.g.Time != nil && (p.g.Time.Unix() != *p.w.Time || p.g.Time.Nanosecond() != 0 || !zoneOK(p.g.Time, tz))) {
					return fmt.Sprintf("trip %q update %d: %s time is not the wire instant in the configured zone", t.ID.ID, i, p.name)
				}
				if (p.g.Delay == nil) != (p.w.Delay == nil) || (p.g.Delay != nil && *p.g.Delay != time.Duration(*p.w.Delay)*time.Second) {
					return fmt.Sprintf("trip %q update %d: %s delay is not the wire value in whole seconds", t.ID.ID, i, p.name)
				}
				if !reflect.DeepEqual(p.g.Uncertainty, p.w.Uncertainty) {
					return fmt.Sprintf("trip %q update %d: %s uncertainty differs from the wire", t.ID.ID, i, p.name)
				}
			}
		}
	}
	// vehicles
	nID := 0
	for i := range r.Vehicles {
		if r.Vehicles[i].ID != nil {
			nID++
		}
	}
	if nID != len(idVehicles) || len(r.Vehicles)-nID != idless {
		return fmt.Sprintf("vehicles: %d with id and %d without, expected %d and %d", nID, len(r.Vehicles)-nID, len(idVehicles), idless)
	}
	idlessSeen := 0
	for _, e := range m.Entity {
		if e.TripUpdate != nil || e.Vehicle == nil {
			continue
		}
		w := e.Vehicle
		var v *gtfs.Vehicle
		if id := wantVehicleID(w.Vehicle); id != nil {
			for i := range r.Vehicles {
				if r.Vehicles[i].ID != nil && *r.Vehicles[i].ID == *id {
					v = &r.Vehicles[i]
				}
			}
		} else {
			v = &r.Vehicles[nID+idlessSeen]
			idlessSeen++
		}
		if v == nil {
			return "vehicle entity not found in Vehicles"
		}
		if !v.IsEntityInMessage {
			return "vehicle with an entity of its own has IsEntityInMessage false"
		}
		if !reflect.DeepEqual(v.CurrentStopSequence, w.CurrentStopSequence) || !reflect.DeepEqual(v.StopID, w.StopId) || !reflect.DeepEqual(v.CurrentStatus, w.CurrentStatus) ||
			!reflect.DeepEqual(v.OccupancyStatus, w.OccupancyStatus) || !reflect.DeepEqual(v.OccupancyPercentage, w.OccupancyPercentage) || v.CongestionLevel != w.GetCongestionLevel() {
			return "vehicle: stop sequence / stop / status / occupancy / congestion differ from the wire"
		}
		if (v.Timestamp == nil) != (w.Timestamp == nil) || (v.Timestamp != nil && (v.Timestamp.Unix() != int64(*w.Timestamp) || !zoneOK(v.Timestamp, tz))) {
			return "vehicle timestamp is not the wire instant in the configured zone"
		}
		if (v.Position == nil) != (w.Position == nil) {
			return "vehicle position presence differs from the wire"
		}
		if v.Position != nil {
			p, q := v.Position, w.Position
			if !eqF32(p.Latitude, q.Latitude) || !eqF32(p.Longitude, q.Longitude) || !eqF32(p.Bearing, q.Bearing) || !eqF32(p.Speed, q.Speed) || !eqF64(p.Odometer, q.Odometer) {
				return "vehicle position fields differ from the wire"
			}
		}
	}
	if len(r.Alerts) != nAlerts {
		return fmt.Sprintf("%d alerts for %d alert entities", len(r.Alerts), nAlerts)
	}
	ai := 0
	for _, e := range m.Entity {
		if e.TripUpdate != nil || e.Vehicle != nil || e.Alert == nil {
			continue
		}
		a, w := &r.Alerts[ai], e.Alert
		ai++
		if a.ID != e.GetId() || a.Cause != w.GetCause() || a.Effect != w.GetEffect() || len(a.ActivePeriods) != len(w.ActivePeriod) {
			return "alert id / cause / effect / period count differ from the wire"
		}
		for i, p := range w.ActivePeriod {
			for _, q := range []struct {
				g *time.Time
				w *uint64
			}{{a.ActivePeriods[i].StartsAt, p.Start}, {a.ActivePeriods[i].EndsAt, p.End}} {
				if (q.g == nil) != (q.w == nil) || (q.g != nil && (q.g.Unix() != int64(*q.w) || !zoneOK(q.g, tz))) {
					return "alert active period is not the wire instant in the configured zone"
				}
			}
		}
		for _, q := range []struct {
			g []gtfs.AlertText
			w *gtfsrt.TranslatedString
		}{{a.Header, w.HeaderText}, {a.Description, w.DescriptionText}, {a.URL, w.Url}} {
			if len(q.g) != len(q.w.GetTranslation()) {
				return "alert text count differs from the wire"
			}
			for i, t := range q.w.GetTranslation() {
				if q.g[i].Text != t.GetText() || q.g[i].Language != t.GetLanguage() {
					return "alert text differs from the wire"
				}
			}
		}
	}
	return ""
}
func eqF32(a, b *float32) bool {
	if a == nil || b == nil {
		return a == nil && b == nil
	}
	return f32bitsEq(*a, *b)
}
func f32bitsEq(a, b float32) bool { return *f32bits(&a) == *f32bits(&b) }
func eqF64(a, b *float64) bool {
	if a == nil || b == nil {
		return a == nil && b == nil
	}
	return fmt.Sprintf("%x", *a) == fmt.Sprintf("%x", *b) || (*a != *a && *b != *b)
}

// C04: link coherence flags on a real result
func oracleC04(m *gtfsrt.FeedMessage, r *gtfs.Realtime, tz *time.Location) string {
	// expected associations from the message
	type assoc struct {
		k gtfs.TripID
		v *gtfs.VehicleID // nil = an id-less vehicle position
	}
	var want []assoc
	add := func(k gtfs.TripID, v *gtfs.VehicleID) {
		for _, a := range want {
			if sameTripID(a.k, k) {
				return
			}
		}
		want = append(want, assoc{k, v})
	}
	for _, e := range m.Entity {
		if tu := e.TripUpdate; tu != nil {
			if tu.Vehicle != nil {
				add(wantTripID(tu.Trip, tz), wantVehicleID(tu.Vehicle))
			}
		} else if vp := e.Vehicle; vp != nil && vp.Trip != nil {
			add(wantTripID(vp.Trip, tz), wantVehicleID(vp.Vehicle))
		}
	}
	for i := range r.Trips {
		t := &r.Trips[i]
		var a *assoc
		for j := range want {
			if sameTripID(want[j].k, t.ID) {
				a = &want[j]
			}
		}
		if a == nil {
			if t.Vehicle != nil {
				return fmt.Sprintf("trip %q is associated with no vehicle in the feed but Trip.Vehicle is set", t.ID.ID)
			}
			continue
		}
		if t.Vehicle == nil {
			return fmt.Sprintf("trip %q is associated with a vehicle in the feed but Trip.Vehicle is nil", t.ID.ID)
		}
		v := t.Vehicle
		if (a.v == nil) != (v.ID == nil) || (a.v != nil && *a.v != *v.ID) {
			return fmt.Sprintf("trip %q: Trip.Vehicle is not the associated vehicle", t.ID.ID)
		}
		if v.Trip == nil || !sameTripID(v.Trip.ID, t.ID) {
			return fmt.Sprintf("trip %q: Trip.Vehicle.Trip does not lead back to the trip", t.ID.ID)
		}
		if v.Trip.Vehicle != v {
			return fmt.Sprintf("trip %q: Trip.Vehicle.Trip.Vehicle is not Trip.Vehicle", t.ID.ID)
		}
		if cTrip(v.Trip) != cTrip(t) {
			return fmt.Sprintf("trip %q: the trip reached through its vehicle differs in content from the Trips entry", t.ID.ID)
		}
		// the vehicle reached has the content of a Vehicles entry
		found := false
		for j := range r.Vehicles {
			if cVehicle(&r.Vehicles[j]) == cVehicle(v) {
				found = true
			}
		}
		if !found {
			return fmt.Sprintf("trip %q: the vehicle reached through Trip.Vehicle has no equal entry in Vehicles", t.ID.ID)
		}
	}
	for i := range r.Vehicles {
		v := &r.Vehicles[i]
		var a *assoc
		for j := range want {
			if v.Trip != nil && sameTripID(want[j].k, v.Trip.ID) {
				a = &want[j]
			}
		}
		if v.Trip == nil {
			// must not be associated
			for _, w := range want {
				if w.v != nil && v.ID != nil && *w.v == *v.ID {
					return fmt.Sprintf("vehicle %q is associated with a trip in the feed but Vehicle.Trip is nil", v.ID.ID)
				}
			}
			continue
		}
		if a == nil || (a.v == nil) != (v.ID == nil) || (a.v != nil && *a.v != *v.ID) {
			return "Vehicle.Trip is set for a vehicle the feed does not associate with that trip"
		}
		if v.Trip.Vehicle == nil || cVehicle(v.Trip.Vehicle) != cVehicle(v) {
			return "Vehicle.Trip.Vehicle does not lead back to a vehicle with the same content"
		}
		got := findRTTrip(r, v.Trip.ID)
		if len(got) != 1 || cTrip(got[0]) != cTrip(v.Trip) {
			return "the trip reached through Vehicle.Trip differs in content from the Trips entry"
		}
	}
	return ""
}

// C07 (all messages): Trips unique and sorted by identifier, Vehicles unique by non-empty identifier
// specTripLess: the identifier order of the property, written out here (not the library's Less): lexicographic on
// (id, route, direction, start time with "absent" first, start date with "absent" first, schedule relationship)
func specTripLess(a, b gtfs.TripID) bool {
	opt := func(has bool, v int64) [2]int64 {
		if !has {
			return [2]int64{0, 0}
		}
		return [2]int64{1, v}
	}
	ka := []any{a.ID, a.RouteID, int64(a.DirectionID), opt(a.HasStartTime, int64(a.StartTime)), opt(a.HasStartDate, 0), int64(a.ScheduleRelationship)}
	kb := []any{b.ID, b.RouteID, int64(b.DirectionID), opt(b.HasStartTime, int64(b.StartTime)), opt(b.HasStartDate, 0), int64(b.ScheduleRelationship)}
	for i := range ka {
		switch x := ka[i].(type) {
		case string:
			if y := kb[i].(string); x != y {
				return x < y
			}
		case int64:
			if y := kb[i].(int64); x != y {
				return x < y
			}
		case [2]int64:
			y := kb[i].([2]int64)
			if x[0] != y[0] {
				return x[0] < y[0]
			}
			if i == 3 && x[1] != y[1] {
				return x[1] < y[1]
			}
			if i == 4 && x[0] == 1 && !a.StartDate.Equal(b.StartDate) { // dates are instants (any year, before or after the epoch)
				return a.StartDate.Before(b.StartDate)
			}
		}
	}
	return false
}
func oracleC07Shape(r *gtfs.Realtime) string {
	for i := 1; i < len(r.Trips); i++ {
		if !specTripLess(r.Trips[i-1].ID, r.Trips[i].ID) {
			return fmt.Sprintf("Trips not strictly sorted by identifier at %d", i)
		}
	}
	seen := map[gtfs.VehicleID]bool{}
	for i := range r.Vehicles {
		if id := r.Vehicles[i].ID; id != nil {
			if seen[*id] {
				return fmt.Sprintf("two Vehicles entries with identifier %+v", *id)
			}
			seen[*id] = true
		}
	}
	return ""
}

// order-insensitive projection for C07: trips, id vehicles in order; id-less vehicles as a multiset; alerts in order
func rtCanon(r *gtfs.Realtime) (trips, idv, idless, alerts []string) {
	for i := range r.Trips {
		trips = append(trips, cTrip(&r.Trips[i]))
	}
	for i := range r.Vehicles {
		if r.Vehicles[i].ID != nil {
			idv = append(idv, cVehicle(&r.Vehicles[i]))
		} else {
			idless = append(idless, cVehicle(&r.Vehicles[i]))
		}
	}
	sort.Strings(idless)
	for i := range r.Alerts {
		alerts = append(alerts, cAlert(&r.Alerts[i]))
	}
	return
}

// C12: specification of alert normalisation, written from the property text
func oracleC12(w *gtfsrt.Alert, a *gtfs.Alert, r *gtfs.Realtime, tz *time.Location) string {
	type keep struct{ e gtfs.AlertInformedEntity }
	var kept []gtfs.AlertInformedEntity
	explicit := map[string]bool{}
	type dirs struct{ f, t bool }
	fromTrips := map[string]*dirs{}
	var fromOrder []string
	for _, s := range w.InformedEntity {
		var k *gtfs.TripID
		if s.Trip != nil {
			kk := wantTripID(s.Trip, tz)
			k = &kk
		}
		if s.RouteId != nil {
			explicit[*s.RouteId] = true
		}
		if k != nil && !identifiesGo(k) && k.RouteID != "" {
			d := fromTrips[k.RouteID]
			if d == nil {
				d = &dirs{}
				fromTrips[k.RouteID] = d
				fromOrder = append(fromOrder, k.RouteID)
			}
			switch k.DirectionID {
			case gtfs.DirectionID_Unspecified:
				d.f, d.t = true, true
			case gtfs.DirectionID_False:
				d.f = true
			default:
				d.t = true
			}
		}
		rt := gtfs.RouteType_Unknown
		if s.RouteType != nil {
			switch *s.RouteType {
			case 0, 1, 2, 3, 4, 5, 6, 7, 11, 12:
				rt = gtfs.RouteType(*s.RouteType)
			}
		}
		e := gtfs.AlertInformedEntity{AgencyID: s.AgencyId, RouteID: s.RouteId, RouteType: rt, StopID: s.StopId}
		if s.DirectionId != nil {
			if *s.DirectionId == 0 {
				e.DirectionID = gtfs.DirectionID_False
			} else {
				e.DirectionID = gtfs.DirectionID_True
			}
		}
		if identifiesGo(k) {
			e.TripID = k
		}
		if e.AgencyID == nil && e.RouteID == nil && e.RouteType == gtfs.RouteType_Unknown && e.StopID == nil && e.TripID == nil {
			continue
		}
		kept = append(kept, e)
	}
	sort.Strings(fromOrder)
	for _, route := range fromOrder {
		if explicit[route] {
			continue
		}
		d := fromTrips[route]
		e := gtfs.AlertInformedEntity{RouteID: ptr(route), RouteType: gtfs.RouteType_Unknown}
		if !(d.f && d.t) {
			if d.f {
				e.DirectionID = gtfs.DirectionID_False
			} else {
				e.DirectionID = gtfs.DirectionID_True
			}
		}
		kept = append(kept, e)
	}
	if len(kept) != len(a.InformedEntities) {
		return fmt.Sprintf("%d informed entities, specification gives %d", len(a.InformedEntities), len(kept))
	}
	for i := range kept {
		if cInformed(&kept[i]) != cInformed(&a.InformedEntities[i]) {
			return fmt.Sprintf("informed entity %d is %s, specification gives %s", i, cInformed(&a.InformedEntities[i]), cInformed(&kept[i]))
		}
		e := &a.InformedEntities[i]
		if e.TripID != nil {
			if !identifiesGo(e.TripID) {
				return fmt.Sprintf("informed entity %d carries a trip identifier that does not determine a trip", i)
			}
			if len(findRTTrip(r, *e.TripID)) != 1 {
				return fmt.Sprintf("informed entity %d names a trip that is not in the result's Trips", i)
			}
		}
	}
	return ""
}

func permuteEntities(g *gen, m *gtfsrt.FeedMessage, mode int) *gtfsrt.FeedMessage {
	c := &gtfsrt.FeedMessage{Header: m.Header}
	c.Entity = append([]*gtfsrt.FeedEntity{}, m.Entity...)
	switch mode {
	case 0:
		for i, j := 0, len(c.Entity)-1; i < j; i, j = i+1, j-1 {
			c.Entity[i], c.Entity[j] = c.Entity[j], c.Entity[i]
		}
	default:
		g.r.Shuffle(len(c.Entity), func(i, j int) { c.Entity[i], c.Entity[j] = c.Entity[j], c.Entity[i] })
	}
	return c
}

func describeMsg(m *gtfsrt.FeedMessage) string { return wMessage(m) }

// nyctLinked: C04 under the NYCT trips extension. A plan of assigned NYCT trips with pairwise distinct trip ids and pairwise
// distinct train ids, each mentioned by a trip update, a vehicle position or both; the entities' own vehicle descriptors
// (absent, another id, label only, or already the train id plus a label / plate) are replaced by the train id, so the
// associations form a bijection trip <-> train whatever those descriptors say.
type nyctLink struct{ tripID, train string }

func (g *gen) nyctLinked() (*gtfsrt.FeedMessage, []nyctLink) {
	ts := uint64(1700000000 + g.r.Intn(100000))
	m := &gtfsrt.FeedMessage{Header: header(ts)}
	var plan []nyctLink
	var es []*gtfsrt.FeedEntity
	for i, n := 0, 1+g.r.Intn(4); i < n; i++ {
		l := nyctLink{tripID: fmt.Sprintf("%06d_L..N", 60000+100*i), train: fmt.Sprintf("0L %04d", 1100+i)}
		plan = append(plan, l)
		mkTD := func() *gtfsrt.TripDescriptor {
			td := &gtfsrt.TripDescriptor{TripId: ptr(l.tripID), RouteId: ptr("L"), StartDate: ptr("20231114")}
			proto.SetExtension(td, gtfsrt.E_NyctTripDescriptor, &gtfsrt.NyctTripDescriptor{TrainId: ptr(l.train), IsAssigned: ptr(true), Direction: gtfsrt.NyctTripDescriptor_NORTH.Enum()})
			return td
		}
		own := func() *gtfsrt.VehicleDescriptor {
			switch g.r.Intn(6) {
			case 0:
				return &gtfsrt.VehicleDescriptor{Id: ptr("other-" + l.train)}
			case 1:
				return &gtfsrt.VehicleDescriptor{Label: ptr("label only")}
			case 2:
				return &gtfsrt.VehicleDescriptor{Id: ptr(l.train), Label: ptr("car 7")}
			case 3:
				return &gtfsrt.VehicleDescriptor{Id: ptr(l.train), LicensePlate: ptr("PLATE")}
			case 4:
				return &gtfsrt.VehicleDescriptor{Id: ptr(l.train)}
			default:
				return nil
			}
		}
		kind := g.r.Intn(3) // 0 trip update only, 1 vehicle position only, 2 both
		if kind != 1 {
			tu := &gtfsrt.TripUpdate{Trip: mkTD(), Vehicle: own()}
			for k := g.r.Intn(3); k > 0; k-- {
				tu.StopTimeUpdate = append(tu.StopTimeUpdate, g.rtStu(int64(ts), true))
			}
			es = append(es, &gtfsrt.FeedEntity{Id: ptr(fmt.Sprintf("tu%d", i)), TripUpdate: tu})
		}
		if kind != 0 {
			vp := g.vehiclePosition(ts)
			vp.Trip, vp.Vehicle = mkTD(), own()
			es = append(es, &gtfsrt.FeedEntity{Id: ptr(fmt.Sprintf("vp%d", i)), Vehicle: vp})
		}
	}
	g.r.Shuffle(len(es), func(i, j int) { es[i], es[j] = es[j], es[i] })
	m.Entity = es
	return m, plan
}
func oracleC04Nyct(plan []nyctLink, r *gtfs.Realtime) string {
	if len(r.Trips) != len(plan) {
		return fmt.Sprintf("%d trips for %d planned NYCT trips", len(r.Trips), len(plan))
	}
	if len(r.Vehicles) != len(plan) {
		return fmt.Sprintf("%d vehicles for %d trains (one vehicle per train id)", len(r.Vehicles), len(plan))
	}
	for _, l := range plan {
		var t *gtfs.Trip
		for i := range r.Trips {
			if r.Trips[i].ID.ID == l.tripID {
				t = &r.Trips[i]
			}
		}
		if t == nil {
			return "trip " + l.tripID + " missing"
		}
		if t.Vehicle == nil || t.Vehicle.ID == nil || *t.Vehicle.ID != (gtfs.VehicleID{ID: l.train}) {
			return fmt.Sprintf("trip %s is not linked to the vehicle identified by its train id %q alone", l.tripID, l.train)
		}
		if t.Vehicle.Trip == nil || t.Vehicle.Trip.ID.ID != l.tripID || t.Vehicle.Trip.Vehicle != t.Vehicle {
			return fmt.Sprintf("trip %s: Trip.Vehicle.Trip does not lead back to the trip", l.tripID)
		}
		if cTrip(t.Vehicle.Trip) != cTrip(t) {
			return fmt.Sprintf("trip %s: the trip reached through its vehicle differs from the Trips entry", l.tripID)
		}
		n := 0
		for i := range r.Vehicles {
			v := &r.Vehicles[i]
			if v.ID != nil && v.ID.ID == l.train {
				n++
				if v.Trip == nil || v.Trip.ID.ID != l.tripID || v.Trip.Vehicle == nil || v.Trip.Vehicle.ID == nil || *v.Trip.Vehicle.ID != *v.ID {
					return fmt.Sprintf("vehicle %+v: Vehicle.Trip.Vehicle does not lead back to the vehicle", *v.ID)
				}
				if cVehicle(v) != cVehicle(t.Vehicle) {
					return fmt.Sprintf("vehicle %+v: the Vehicles entry differs from the vehicle reached through its trip", *v.ID)
				}
			}
		}
		if n != 1 {
			return fmt.Sprintf("%d Vehicles entries for train %q", n, l.train)
		}
	}
	return ""
}

func engineRTCore(which string) engineFn {
	return func(ctx *engineCtx) {
		g := &gen{r: ctx.rng}
		n := 250
		if ctx.thorough {
			n = 5000
		}
		ctx.rule = "conflict-free GTFS-realtime messages built from an abstract plan (0-5 trips, 0-4 vehicles, associations as a partial bijection expressed by trip update only / vehicle position only / both, " +
			"vehicles with id, label only or no descriptor, 0-3 alerts; every optional field independently present; boundary numerics; valid and near-miss HH:MM:SS and YYYYMMDD) x 8 zone options, " +
			"for C04 also NYCT plans (1-4 assigned trips with distinct train ids, mentioned by trip update / vehicle position / both, own vehicle descriptors absent, foreign, label-only or train id plus label) under the NYCT trips extension; " +
			"plus a 'wild' stream (repeated/conflicting mentions, empty descriptors, multi-payload entities) for the all-messages clauses and the model; " +
			"non-trivial = at least two entities and one association or alert; distinct = distinct wire bytes"
		var cases []string
		seen := map[string]bool{}
		kinds := map[string]int{}
		for i := 0; i < n; i++ {
			wild := g.coin(0.25)
			var m *gtfsrt.FeedMessage
			if wild {
				m = g.wild(false)
			} else {
				m = g.conflictFree(false, true)
			}
			tz := g.rtZone()
			b := marshal(m)
			dm := decodeMsg(b)
			r, err, cr := parseRT(b, tz, extCfg{})
			ctx.evaluations++
			if cr.panicked || cr.hung || err != nil {
				ctx.violate("parse-realtime-fails", fmt.Sprint("ParseRealtime panicked, hung or failed on a valid message: ", cr.msg, err), map[string]any{"message": describeMsg(dm), "zone": cTz(tz)})
				continue
			}
			kinds[map[bool]string{true: "wild", false: "conflict_free"}[wild]]++
			if !seen[string(b)] {
				seen[string(b)] = true
				if len(m.Entity) >= 2 {
					ctx.nontrivial++
				}
			}
			replay := map[string]any{"message": describeMsg(dm), "zone": cTz(tz)}
			if msg := oracleC07Shape(r); msg != "" && (which == "C07") {
				ctx.violate("c07-shape", msg, replay)
			}
			if !wild {
				switch which {
				case "C02":
					if msg := oracleC02(dm, r, tz); msg != "" {
						ctx.violate("c02-transcription", msg, replay)
					}
					// the configured zone is honoured whichever bundled extension is configured
					cfgX := g.extCfg(1 + g.r.Intn(2))
					if rx, xerr, xcr := parseRT(b, tz, cfgX); xerr == nil && !xcr.panicked && !xcr.hung {
						ctx.evaluations++
						if msg := allZonesOK(rx, tz); msg != "" {
							ctx.violate("c02-zone-under-extension", "under "+cfgX.coq()+" "+msg, map[string]any{"message": describeMsg(dm), "zone": cTz(tz), "config": cfgX.coq()})
						}
					}
				case "C04":
					if msg := oracleC04(dm, r, tz); msg != "" {
						ctx.violate("c04-links", msg, replay)
					}
					// the same under the NYCT trips extension, where the vehicle of an assigned trip is derived from its train id
					if i%3 == 0 {
						nm, plan := g.nyctLinked()
						ncfg := g.extCfg(1)
						ncfg.filterStale = false
						if nr, nerr, ncr := parseRT(marshal(nm), tz, ncfg); nerr == nil && !ncr.panicked && !ncr.hung {
							ctx.evaluations++
							if msg := oracleC04Nyct(plan, nr); msg != "" {
								ctx.violate("c04-links-nyct", msg, map[string]any{"message": describeMsg(decodeMsg(marshal(nm))), "zone": cTz(tz), "config": ncfg.coq()})
							}
						}
					}
					// whatever the entity order
					pm := permuteEntities(g, dm, g.r.Intn(2))
					if pr, perr, pcr := parseRT(marshal(pm), tz, extCfg{}); perr == nil && !pcr.panicked {
						if msg := oracleC04(pm, pr, tz); msg != "" {
							ctx.violate("c04-links-permuted", msg, map[string]any{"message": describeMsg(pm), "zone": cTz(tz)})
						}
					}
				case "C07":
					t0, v0, l0, _ := rtCanon(r)
					var alertIDs0 []string
					for _, e := range dm.Entity {
						if e.TripUpdate == nil && e.Vehicle == nil && e.Alert != nil {
							alertIDs0 = append(alertIDs0, e.GetId())
						}
					}
					for mode := 0; mode < 4; mode++ {
						pm := permuteEntities(g, dm, mode)
						pr, perr, pcr := parseRT(marshal(pm), tz, extCfg{})
						ctx.evaluations++
						if perr != nil || pcr.panicked || pcr.hung {
							continue
						}
						t1, v1, l1, _ := rtCanon(pr)
						if !reflect.DeepEqual(t0, t1) {
							ctx.violate("c07-order-trips", "a permutation of the entities changes Trips (content, links or order)", map[string]any{"message": describeMsg(dm), "permuted": describeMsg(pm), "zone": cTz(tz)})
						} else if !reflect.DeepEqual(v0, v1) || !reflect.DeepEqual(l0, l1) {
							ctx.violate("c07-order-vehicles", "a permutation of the entities changes Vehicles (content or links)", map[string]any{"message": describeMsg(dm), "permuted": describeMsg(pm), "zone": cTz(tz)})
						}
						// alerts keep their relative feed order
						k := 0
						for _, e := range pm.Entity {
							if e.TripUpdate == nil && e.Vehicle == nil && e.Alert != nil {
								if k >= len(pr.Alerts) || pr.Alerts[k].ID != e.GetId() {
									ctx.violate("c07-alert-order", "alerts do not keep their feed order", map[string]any{"permuted": describeMsg(pm)})
									break
								}
								k++
							}
						}
						if mode < 2 {
							cases = append(cases, rtCase(extCfg{}, tz, pm, pr))
						}
					}
					// own entity wins: checked by C02's transcription on the same message
					if msg := oracleC02(dm, r, tz); msg != "" {
						ctx.violate("c07-own-entity", msg, replay)
					}
				}
			}
			if which == "C12" {
				ai := 0
				for _, e := range dm.Entity {
					if e.TripUpdate == nil && e.Vehicle == nil && e.Alert != nil {
						if ai < len(r.Alerts) {
							if msg := oracleC12(e.Alert, &r.Alerts[ai], r, tz); msg != "" {
								ctx.violate("c12-normalisation", msg, replay)
							}
						}
						ai++
					}
				}
			}
			cases = append(cases, rtCase(extCfg{}, tz, dm, r))
			if i < 2 {
				ctx.sample(map[string]any{"message": describeMsg(dm), "zone": cTz(tz), "trips": len(r.Trips), "vehicles": len(r.Vehicles), "alerts": len(r.Alerts)})
			}
		}
		if which == "C12" {
			// dedicated alert stream: many selectors, several routes and directions
			for i := 0; i < n; i++ {
				a := g.alert(false)
				for k := g.r.Intn(6); k > 0; k-- {
					a.InformedEntity = append(a.InformedEntity, g.selector(false))
				}
				m := &gtfsrt.FeedMessage{Header: header(1700000000), Entity: []*gtfsrt.FeedEntity{{Id: ptr("alert"), Alert: a}}}
				tz := g.rtZone()
				b := marshal(m)
				dm := decodeMsg(b)
				r, err, cr := parseRT(b, tz, extCfg{})
				ctx.evaluations++
				if err != nil || cr.panicked || cr.hung || len(r.Alerts) != 1 {
					ctx.violate("parse-realtime-fails", "ParseRealtime failed on an alert message", map[string]any{"message": describeMsg(dm)})
					continue
				}
				if msg := oracleC12(dm.Entity[0].Alert, &r.Alerts[0], r, tz); msg != "" {
					ctx.violate("c12-normalisation", msg, map[string]any{"message": describeMsg(dm), "zone": cTz(tz)})
				}
				if len(a.InformedEntity) >= 3 && !seen[string(b)] {
					seen[string(b)] = true
					ctx.nontrivial++
				}
				cases = append(cases, rtCase(extCfg{}, tz, dm, r))
			}
		}
		ctx.distribution["messages"] = kinds
		shard := 40
		for i, k := 0, 0; i < len(cases); i, k = i+shard, k+1 {
			j := i + shard
			if j > len(cases) {
				j = len(cases)
			}
			ctx.caseFile(fmt.Sprintf("rt_%s_%d", which, k), "Model.RtTypes Model.RtWire Model.Realtime", rtCaseType, rtCaseOk, cases[i:j])
		}
	}
}

// every instant of a result is expressed in the configured zone
func allZonesOK(r *gtfs.Realtime, tz *time.Location) string {
	if !r.CreatedAt.IsZero() && !zoneOK(&r.CreatedAt, tz) {
		return "CreatedAt is not in the configured zone"
	}
	for i := range r.Trips {
		t := &r.Trips[i]
		if t.ID.HasStartDate && !zoneOK(&t.ID.StartDate, tz) {
			return "a trip's StartDate is not in the configured zone"
		}
		for k := range t.StopTimeUpdates {
			u := &t.StopTimeUpdates[k]
			if u.Arrival != nil && !zoneOK(u.Arrival.Time, tz) || u.Departure != nil && !zoneOK(u.Departure.Time, tz) {
				return "a stop time event is not in the configured zone"
			}
		}
	}
	for i := range r.Vehicles {
		if !zoneOK(r.Vehicles[i].Timestamp, tz) {
			return "a vehicle timestamp is not in the configured zone"
		}
	}
	for i := range r.Alerts {
		for _, p := range r.Alerts[i].ActivePeriods {
			if !zoneOK(p.StartsAt, tz) || !zoneOK(p.EndsAt, tz) {
				return "an alert active period is not in the configured zone"
			}
		}
	}
	return ""
}
