package main

// Engine "journal" (C14, C15): random histories of feeds are fed to the real journal.BuildJournal through an
// in-memory source; the journal of every prefix of the history is projected and compared with Model/Journal.v
// (in Coq), and the Go-side oracles state C14 (shape of the stop-time list after every applied update) and
// C15 (per-UID accounting against an independent event-log specification) on the real outputs.

import (
	"fmt"
	"sort"
	"strings"
	"time"

	"github.com/jamespfennell/gtfs"
	"github.com/jamespfennell/gtfs/journal"
)

// ---- generation ----

type trackedTrip struct {
	id       gtfs.TripID
	route    []string // planned stops
	pos      int      // index of the next stop
	vehicle  string
	assigned bool
}

func (g *gen) history(nFeeds, nTrips int) []*gtfs.Realtime {
	stopsPool := []string{"L01", "L02", "L03", "L05", "L06", "L08", "L10", "L11", "A27N", "A27S", "M11N", "R16N", "r16n", "R20", "", "X"} // R16N / r16n: different stops
	var pool []*trackedTrip
	for i := 0; i < nTrips; i++ {
		origin := g.r.Intn(144000)
		suffix := g.pick([]string{"_L..N", "_L..S", "_A..N", "_7X..S01R", "_L..N08R"})
		tt := &trackedTrip{}
		tt.id = gtfs.TripID{ID: fmt.Sprintf("%06d%s", origin, suffix), RouteID: g.pick([]string{"L", "A", "7X"}), DirectionID: gtfs.DirectionID(g.r.Intn(3))}
		if g.coin(0.9) {
			tt.id.HasStartDate = true
			tt.id.StartDate = time.Date(2023, 11, 10+g.r.Intn(3), 0, 0, 0, 0, loadZone("America/New_York"))
		}
		if g.coin(0.9) {
			tt.id.HasStartTime = true
			tt.id.StartTime = time.Duration(origin*6/10) * time.Second
		}
		n := 2 + g.r.Intn(7)
		for j := 0; j < n; j++ {
			tt.route = append(tt.route, g.pick(stopsPool[:13]))
		}
		if g.coin(0.15) { // repeated stop
			tt.route = append(tt.route, tt.route[g.r.Intn(len(tt.route))])
		}
		tt.vehicle = fmt.Sprintf("%dL %04d", g.r.Intn(2), g.r.Intn(3000))
		tt.assigned = g.coin(0.3)
		pool = append(pool, tt)
	}
	// the same NYCT trip id on another service day: a distinct trip (start instant differs), a distinct journal entry
	if len(pool) > 0 && g.coin(0.35) {
		src := pool[g.r.Intn(len(pool))]
		twin := &trackedTrip{id: src.id, route: append([]string{}, src.route...), vehicle: fmt.Sprintf("%dL %04d", g.r.Intn(2), g.r.Intn(3000)), assigned: g.coin(0.5)}
		twin.id.HasStartDate = true
		twin.id.StartDate = time.Date(2023, 11, 14+g.r.Intn(2), 0, 0, 0, 0, loadZone("America/New_York"))
		pool = append(pool, twin)
	}
	var feeds []*gtfs.Realtime
	now := int64(1699600000 + g.r.Intn(100000))
	for f := 0; f < nFeeds; f++ {
		switch g.r.Intn(10) {
		case 0: // equal timestamps
		case 1:
			now -= int64(g.r.Intn(30)) // clock going backwards
		default:
			now += int64(1 + g.r.Intn(60))
		}
		feed := &gtfs.Realtime{CreatedAt: time.Unix(now, 0).In(loadZone("America/New_York"))}
		if f > 0 && g.coin(0.03) {
			feed.CreatedAt = time.Time{} // a message whose header has no timestamp: the zero instant, stamped as such
		}
		for _, tt := range pool {
			if !g.coin(0.8) {
				continue
			}
			// evolve
			switch g.r.Intn(10) {
			case 0, 1, 2:
				if tt.pos < len(tt.route) {
					tt.pos++
				}
			case 3:
				tt.route = append(tt.route, g.pick(stopsPool[:13])) // grows at the back
			case 4: // rerouted mid-trip
				if tt.pos < len(tt.route) {
					k := tt.pos + g.r.Intn(len(tt.route)-tt.pos)
					tt.route = append(append([]string{}, tt.route[:k]...), g.pick(stopsPool), g.pick(stopsPool[:13]))
				}
			case 5:
				if g.coin(0.3) && tt.pos > 0 {
					tt.pos-- // goes back
				}
			}
			if g.coin(0.25) {
				tt.assigned = true
			}
			trip := gtfs.Trip{ID: tt.id, IsEntityInMessage: true}
			if g.coin(0.15) {
				// the same start instant as another Go value: shown in another Location (a freshly made one), or split differently
				// between date and time of day; it is still the same trip
				switch g.r.Intn(3) {
				case 0:
					trip.ID.StartDate = tt.id.StartDate.In(time.FixedZone("", -5*3600))
				case 1:
					trip.ID.StartDate = tt.id.StartDate.UTC()
				default:
					trip.ID.StartDate = tt.id.StartDate.Add(-5 * time.Hour).UTC()
					trip.ID.StartTime = tt.id.StartTime + 5*time.Hour
				}
			}
			if tt.assigned && g.coin(0.85) {
				v := &gtfs.Vehicle{}
				if g.coin(0.95) {
					v.ID = &gtfs.VehicleID{ID: tt.vehicle}
					if g.coin(0.05) {
						v.ID.ID = tt.vehicle + "x"
					}
				}
				trip.Vehicle = v
			}
			stops := tt.route[tt.pos:]
			if g.coin(0.05) {
				stops = nil
			}
			for _, s := range stops {
				u := gtfs.StopTimeUpdate{StopID: ptr(s)}
				if g.coin(0.03) {
					u.StopID = nil
				}
				if g.coin(0.8) {
					u.Arrival = &gtfs.StopTimeEvent{}
					if g.coin(0.9) {
						u.Arrival.Time = ptr(time.Unix(now+int64(g.r.Intn(3000)), 0).UTC())
					}
				}
				if g.coin(0.8) {
					u.Departure = &gtfs.StopTimeEvent{Time: ptr(time.Unix(now+int64(g.r.Intn(3000)), 0).UTC())}
				}
				if g.coin(0.6) {
					u.NyctTrack = ptr(g.pick([]string{"1", "2", "A1", "", "M"}))
				}
				trip.StopTimeUpdates = append(trip.StopTimeUpdates, u)
			}
			feed.Trips = append(feed.Trips, trip)
		}
		if g.coin(0.05) { // a trip with a non-NYCT id: skipped by the journal
			feed.Trips = append(feed.Trips, gtfs.Trip{ID: gtfs.TripID{ID: g.pick([]string{"", "abc", "12345"})}, Vehicle: &gtfs.Vehicle{ID: &gtfs.VehicleID{ID: "v"}}})
		}
		if g.coin(0.05) && len(feed.Trips) > 0 { // the same trip twice in one feed
			feed.Trips = append(feed.Trips, feed.Trips[0])
		}
		feeds = append(feeds, feed)
	}
	return feeds
}

func buildJournalGuarded(feeds []*gtfs.Realtime, a, b time.Time) (*journal.Journal, callResult) {
	var j *journal.Journal
	r := guarded(20*time.Second, func() { j = journal.BuildJournal(&sliceSource{feeds: feeds}, a, b) })
	return j, r
}

// ---- projection to Model/Journal.v ----

func cOptUnix(t *time.Time) string {
	if t == nil {
		return "None"
	}
	return cSome(cZ(t.Unix()))
}
func cJuTrip(t *gtfs.Trip) string {
	var stops []string
	for i := range t.StopTimeUpdates {
		u := &t.StopTimeUpdates[i]
		stops = append(stops, cRec(field{"us_stop", cOptStr(u.StopID)}, field{"us_arr", cOptUnix(u.GetArrival().Time)},
			field{"us_dep", cOptUnix(u.GetDeparture().Time)}, field{"us_track", cOptStr(u.NyctTrack)}))
	}
	veh := "None"
	if t.Vehicle != nil {
		if t.Vehicle.ID == nil {
			veh = "(Some None)"
		} else {
			veh = cSome(cSome(cStr(t.Vehicle.ID.ID)))
		}
	}
	return cRec(field{"ut_id", cStr(t.ID.ID)}, field{"ut_route", cStr(t.ID.RouteID)}, field{"ut_dir", cZ(int64(t.ID.DirectionID))},
		field{"ut_date", cZ(t.ID.StartDate.Unix())}, field{"ut_time", cZ(int64(t.ID.StartTime))}, field{"ut_vehicle", veh}, field{"ut_stops", cList(stops)})
}

// cNanos: an instant as a Coq Z expression in nanoseconds since the epoch (computed by Coq: the product exceeds int64 for far bounds)
func cNanos(t time.Time) string {
	return fmt.Sprintf("(%s * 1000000000 + %s)", cZ(t.Unix()), cZ(int64(t.Nanosecond())))
}
func cJFeed(f *gtfs.Realtime) string {
	var ts []string
	for i := range f.Trips {
		ts = append(ts, cJuTrip(&f.Trips[i]))
	}
	return cRec(field{"jf_created", cZ(f.CreatedAt.Unix())}, field{"jf_trips", cList(ts)})
}
func cJTrip(t *journal.Trip) string {
	var stops []string
	for i := range t.StopTimes {
		s := &t.StopTimes[i]
		stops = append(stops, cRec(field{"js_stop", cStr(s.StopID)}, field{"js_arr", cOptUnix(s.ArrivalTime)}, field{"js_dep", cOptUnix(s.DepartureTime)},
			field{"js_track", cOptStr(s.Track)}, field{"js_last", cZ(s.LastObserved.Unix())}, field{"js_marked", cOptUnix(s.MarkedPast)}))
	}
	return cRec(field{"jt_uid", cStr(t.TripUID)}, field{"jt_id", cStr(t.TripID)}, field{"jt_route", cStr(t.RouteID)}, field{"jt_dir", cZ(int64(t.DirectionID))},
		field{"jt_start", cZ(t.StartTime.Unix())}, field{"jt_vehicle", cStr(t.VehicleID)}, field{"jt_assigned", cBool(t.IsAssigned)},
		field{"jt_stops", cList(stops)}, field{"jt_last", cZ(t.LastObserved.Unix())}, field{"jt_marked", cOptUnix(t.MarkedPast)},
		field{"jt_nupd", cZ(int64(t.NumUpdates))}, field{"jt_nchg", cZ(int64(t.NumScheduleChanges))}, field{"jt_nrew", cZ(int64(t.NumScheduleRewrites))})
}
func cJournal(j *journal.Journal) string {
	var ts []string
	for i := range j.Trips {
		ts = append(ts, cJTrip(&j.Trips[i]))
	}
	return cList(ts)
}

// ---- Go-side oracles ----

func uidOf(t *gtfs.Trip) string {
	return fmt.Sprintf("%d%s", t.ID.StartDate.Add(t.ID.StartTime).Unix(), t.ID.ID[6:])
}
func stopOf(u *gtfs.StopTimeUpdate) string {
	if u.StopID == nil {
		return ""
	}
	return *u.StopID
}
func eqOptTime(a, b *time.Time) bool {
	if a == nil || b == nil {
		return a == nil && b == nil
	}
	return a.Equal(*b)
}
func eqOptStr(a, b *string) bool {
	if a == nil || b == nil {
		return a == nil && b == nil
	}
	return *a == *b
}
func findTrip(j *journal.Journal, uid string) *journal.Trip {
	for i := range j.Trips {
		if j.Trips[i].TripUID == uid {
			return &j.Trips[i]
		}
	}
	return nil
}

// C14 on one step: prev = entry before the feed (nil if not visible), cur = entry after it, u = the single update of this uid in the feed
func oracleC14(prev, cur *journal.Trip, u *gtfs.Trip, t time.Time) string {
	n, m := len(cur.StopTimes), len(u.StopTimeUpdates)
	if m == 0 {
		// an update without stops: every entry is past
		for i := range cur.StopTimes {
			if cur.StopTimes[i].MarkedPast == nil {
				return fmt.Sprintf("update without stops: entry %d is not marked past", i)
			}
		}
		if prev != nil && len(prev.StopTimes) != n {
			return "update without stops changed the number of entries"
		}
		return ""
	}
	if n < m {
		return fmt.Sprintf("list has %d entries, fewer than the update's %d stops", n, m)
	}
	for k := 0; k < m; k++ {
		e, su := &cur.StopTimes[n-m+k], &u.StopTimeUpdates[k]
		if e.StopID != stopOf(su) || !eqOptTime(e.ArrivalTime, su.GetArrival().Time) || !eqOptTime(e.DepartureTime, su.GetDeparture().Time) ||
			!eqOptStr(e.Track, su.NyctTrack) || !e.LastObserved.Equal(t) || e.MarkedPast != nil {
			return fmt.Sprintf("entry %d from the end does not carry stop %d of the update (stop/arrival/departure/track/last-observed/not-past)", m-k, k)
		}
	}
	for i := 0; i < n-m; i++ {
		if cur.StopTimes[i].MarkedPast == nil {
			return fmt.Sprintf("entry %d before the updated stops is not marked past", i)
		}
	}
	if prev == nil {
		return ""
	}
	// entries before: those of prev, unchanged except that an unmarked one is marked t; they are a prefix of prev's list
	p := n - m
	if p > len(prev.StopTimes) {
		return "more past entries than the previous list had"
	}
	for i := 0; i < p; i++ {
		a, b := &prev.StopTimes[i], &cur.StopTimes[i]
		if a.StopID != b.StopID || !eqOptTime(a.ArrivalTime, b.ArrivalTime) || !eqOptTime(a.DepartureTime, b.DepartureTime) || !eqOptStr(a.Track, b.Track) || !a.LastObserved.Equal(b.LastObserved) {
			return fmt.Sprintf("past entry %d changed since it was last observed", i)
		}
		if a.MarkedPast != nil && !eqOptTime(a.MarkedPast, b.MarkedPast) {
			return fmt.Sprintf("past entry %d: marked-past time overwritten", i)
		}
		if a.MarkedPast == nil && !b.MarkedPast.Equal(t) {
			return fmt.Sprintf("past entry %d: marked with a time other than this feed's", i)
		}
	}
	// no drop: if the first stop of the update occurs in prev's list, the kept prefix ends at one of its occurrences
	first := stopOf(&u.StopTimeUpdates[0])
	occurs, aligned := false, false
	for i := range prev.StopTimes {
		if prev.StopTimes[i].StopID == first {
			occurs = true
			if i == p {
				aligned = true
			}
		}
	}
	if occurs && !aligned {
		return fmt.Sprintf("first updated stop %q is in the list but %d entries were kept before it: entries dropped or misaligned", first, p)
	}
	return ""
}

// C15: independent event-log specification, keyed by (start instant, id suffix)
type specTrip struct {
	uid, id, route, vehicle string
	dir                     gtfs.DirectionID
	start                   int64
	startT                  time.Time
	assigned                bool
	nupd                    int
	last                    time.Time
	marked                  *time.Time
	lastSeenFeed            int
}

func specJournal(feeds []*gtfs.Realtime, a, b time.Time) map[string]*specTrip {
	m := map[string]*specTrip{}
	for fi, f := range feeds {
		seen := map[string]bool{}
		for i := range f.Trips {
			u := &f.Trips[i]
			if len(u.ID.ID) < 6 {
				continue
			}
			uid := uidOf(u)
			seen[uid] = true
			st, ok := m[uid]
			if !ok {
				st = &specTrip{uid: uid}
				m[uid] = st
			}
			if st.assigned && u.Vehicle == nil {
				continue // updates that lack a vehicle do not alter an assigned trip
			}
			st.id, st.route, st.dir = u.ID.ID, u.ID.RouteID, u.ID.DirectionID
			st.start = u.ID.StartDate.Add(u.ID.StartTime).Unix()
			st.startT = u.ID.StartDate.Add(u.ID.StartTime)
			st.vehicle = ""
			if u.Vehicle != nil {
				st.assigned = true
				if u.Vehicle.ID != nil {
					st.vehicle = u.Vehicle.ID.ID
				}
			}
			st.nupd++
			st.last = f.CreatedAt
			st.marked = nil
			st.lastSeenFeed = fi
		}
		for uid, st := range m {
			if !seen[uid] && st.marked == nil && fi > st.lastSeenFeed {
				t := f.CreatedAt
				st.marked = &t
			}
		}
	}
	out := map[string]*specTrip{}
	for uid, st := range m {
		if st.assigned && !st.startT.Before(a) && !b.Before(st.startT) {
			out[uid] = st
		}
	}
	return out
}

func oracleC15(j *journal.Journal, feeds []*gtfs.Realtime, a, b time.Time) string {
	spec := specJournal(feeds, a, b)
	var ids []string
	for i := range j.Trips {
		ids = append(ids, j.Trips[i].TripUID)
	}
	if !sort.StringsAreSorted(ids) {
		return "journal not sorted by UID"
	}
	for i := 1; i < len(ids); i++ {
		if ids[i] == ids[i-1] {
			return "duplicate UID " + ids[i]
		}
	}
	if len(ids) != len(spec) {
		var want []string
		for k := range spec {
			want = append(want, k)
		}
		sort.Strings(want)
		return fmt.Sprintf("journal has trips %v, expected exactly %v (assigned at least once, start in window)", ids, want)
	}
	for i := range j.Trips {
		t := &j.Trips[i]
		s, ok := spec[t.TripUID]
		if !ok {
			return "unexpected trip " + t.TripUID
		}
		if t.TripID != s.id || t.RouteID != s.route || t.DirectionID != s.dir || t.StartTime.Unix() != s.start || t.VehicleID != s.vehicle {
			return fmt.Sprintf("trip %s: identifier fields / vehicle id are not those of the last applied update", t.TripUID)
		}
		if t.NumUpdates != s.nupd {
			return fmt.Sprintf("trip %s: NumUpdates=%d, applied updates=%d", t.TripUID, t.NumUpdates, s.nupd)
		}
		if !t.LastObserved.Equal(s.last) {
			return fmt.Sprintf("trip %s: LastObserved is not the time of the last applied update", t.TripUID)
		}
		if !eqOptTime(t.MarkedPast, s.marked) {
			return fmt.Sprintf("trip %s: MarkedPast=%v, expected %v (first feed after the last applied update that lacks the trip)", t.TripUID, t.MarkedPast, s.marked)
		}
		if t.MarkedPast != nil {
			for k := range t.StopTimes {
				if t.StopTimes[k].MarkedPast == nil {
					return fmt.Sprintf("trip %s is marked past but stop %d is not", t.TripUID, k)
				}
			}
		}
	}
	return ""
}

func describeHistory(feeds []*gtfs.Realtime) []string {
	var out []string
	for _, f := range feeds {
		var ts []string
		for i := range f.Trips {
			t := &f.Trips[i]
			var ss []string
			for k := range t.StopTimeUpdates {
				ss = append(ss, stopOf(&t.StopTimeUpdates[k]))
			}
			v := "-"
			if t.Vehicle != nil {
				v = "veh"
			}
			ts = append(ts, fmt.Sprintf("%s/%s[%s]", t.ID.ID, v, strings.Join(ss, " ")))
		}
		out = append(out, fmt.Sprintf("t=%d: %s", f.CreatedAt.Unix(), strings.Join(ts, "; ")))
	}
	return out
}

// assignEarly: a copy of the history in which every mention of a trip before the first feed that shows it with a vehicle
// carries that vehicle; nil when nothing changes
func assignEarly(feeds []*gtfs.Realtime) []*gtfs.Realtime {
	first := map[string]*gtfs.Vehicle{}
	for _, f := range feeds {
		for i := range f.Trips {
			u := &f.Trips[i]
			if len(u.ID.ID) >= 6 && u.Vehicle != nil && first[uidOf(u)] == nil {
				first[uidOf(u)] = u.Vehicle
			}
		}
	}
	changed := false
	seen := map[string]bool{}
	var out []*gtfs.Realtime
	for _, f := range feeds {
		c := *f
		c.Trips = append([]gtfs.Trip{}, f.Trips...)
		for i := range c.Trips {
			u := &c.Trips[i]
			if len(u.ID.ID) < 6 {
				continue
			}
			k := uidOf(u)
			if u.Vehicle != nil {
				seen[k] = true
			} else if !seen[k] && first[k] != nil {
				u.Vehicle = first[k]
				changed = true
			}
		}
		out = append(out, &c)
	}
	if !changed {
		return nil
	}
	return out
}
func engineJournal(ctx *engineCtx) {
	g := &gen{r: ctx.rng}
	nHist := 150
	if ctx.thorough {
		nHist = 3000
	}
	ctx.rule = "random histories (1-25 feeds, 1-6 NYCT-style trips whose stop lists shrink from the front, grow at the back, are rerouted, emptied, contain repeated stops; " +
		"trips vanish and return, gain/lack vehicles, id-less vehicles, nil stop ids, non-NYCT ids, equal and decreasing feed times) x windows; the journal of EVERY prefix is compared with the model; " +
		"non-trivial = history in which some trip is marked past or has a kept past prefix; distinct = distinct history"
	far0, far1 := time.Unix(-1<<40, 0), time.Unix(1<<40, 0)
	var cases []string
	stats := map[string]int{}
	for h := 0; h < nHist; h++ {
		nFeeds, nTrips := 1+g.r.Intn(25), 1+g.r.Intn(6)
		feeds := g.history(nFeeds, nTrips)
		// windows: everything; a random window; boundary instants of some trip's start
		wins := [][2]time.Time{{far0, far1}}
		var starts []int64
		for _, f := range feeds {
			for i := range f.Trips {
				if len(f.Trips[i].ID.ID) >= 6 {
					starts = append(starts, f.Trips[i].ID.StartDate.Add(f.Trips[i].ID.StartTime).Unix())
				}
			}
		}
		if len(starts) > 0 {
			s := starts[g.r.Intn(len(starts))]
			s2 := starts[g.r.Intn(len(starts))]
			if s2 < s {
				s, s2 = s2, s
			}
			wins = append(wins, [2]time.Time{time.Unix(s, 0), time.Unix(s2, 0)}, [2]time.Time{time.Unix(s+1, 0), far1}, [2]time.Time{far0, time.Unix(s-1, 0)})
			// the bounds are instants, not whole seconds: a window opening a fraction of a second after a trip's start
			// excludes it, one closing a fraction after it includes it (and symmetrically before)
			frac := int64(1 + g.r.Intn(999999999))
			wins = append(wins, [2]time.Time{time.Unix(s, frac), far1}, [2]time.Time{far0, time.Unix(s2, frac)},
				[2]time.Time{time.Unix(s-1, frac), time.Unix(s2-1, frac)}, [2]time.Time{time.Unix(s, 1), time.Unix(s, 2)})
		}
		nontrivial := false
		var prevJ *journal.Journal
		var expected []string
		failed := false
		for k := 1; k <= len(feeds) && !failed; k++ {
			j, r := buildJournalGuarded(feeds[:k], far0, far1)
			ctx.evaluations++
			if r.panicked || r.hung {
				ctx.violate("journal-panics", "BuildJournal panicked or hung: "+r.msg, map[string]any{"history": describeHistory(feeds[:k])})
				failed = true
				break
			}
			expected = append(expected, cJournal(j))
			// C15 on every prefix
			if ctx.prop != "C14" {
				if msg := oracleC15(j, feeds[:k], far0, far1); msg != "" {
					ctx.violate("c15-accounting", msg, map[string]any{"history": describeHistory(feeds[:k]), "window": "all"})
				}
			}
			// C14 on every step
			f := feeds[k-1]
			count := map[string]int{}
			for i := range f.Trips {
				if len(f.Trips[i].ID.ID) >= 6 {
					count[uidOf(&f.Trips[i])]++
				}
			}
			for i := range f.Trips {
				u := &f.Trips[i]
				if len(u.ID.ID) < 6 || count[uidOf(u)] != 1 {
					continue
				}
				cur := findTrip(j, uidOf(u))
				if cur == nil {
					continue // never assigned so far: not visible
				}
				var prev *journal.Trip
				if prevJ != nil {
					prev = findTrip(prevJ, uidOf(u))
				}
				if prev != nil && prev.IsAssigned && u.Vehicle == nil {
					stats["ignored_updates"]++
					continue // not an update that "updates the trip"
				}
				if prev == nil && k > 1 {
					// first time visible: the earlier list is unknown; only the suffix part of the property is checked
					stats["first_visible"]++
				}
				stats["applied_updates_checked"]++
				if msg := oracleC14(prev, cur, u, f.CreatedAt); msg != "" && ctx.prop != "C15" {
					ctx.violate("c14-shape", msg, map[string]any{"history": describeHistory(feeds[:k]), "trip": uidOf(u)})
				}
				if len(cur.StopTimes) > len(u.StopTimeUpdates) {
					nontrivial = true
				}
			}
			for i := range j.Trips {
				if j.Trips[i].MarkedPast != nil {
					nontrivial = true
				}
			}
			prevJ = j
		}
		if failed {
			continue
		}
		// windows (C15 selection) on the full history
		var winCases []string
		for _, w := range wins[1:] {
			j, r := buildJournalGuarded(feeds, w[0], w[1])
			ctx.evaluations++
			if r.panicked || r.hung {
				continue
			}
			if ctx.prop != "C14" {
				if msg := oracleC15(j, feeds, w[0], w[1]); msg != "" {
					ctx.violate("c15-window", msg, map[string]any{"history": describeHistory(feeds), "window": []string{w[0].UTC().Format(time.RFC3339Nano), w[1].UTC().Format(time.RFC3339Nano)}})
				}
			}
			winCases = append(winCases, cPair(cPair(cNanos(w[0]), cNanos(w[1])), cJournal(j)))
		}
		// assignment decides visibility and the unassigned-update rule, nothing else: give every mention of a trip BEFORE its first
		// vehicle that vehicle, and the final journal must be the same (stop lists, marks, counters, times)
		if ctx.prop != "C14" {
			if early := assignEarly(feeds); early != nil {
				j0, r0 := buildJournalGuarded(feeds, far0, far1)
				j1, r1 := buildJournalGuarded(early, far0, far1)
				ctx.evaluations++
				if !r0.panicked && !r0.hung && !r1.panicked && !r1.hung && cJournal(j0) != cJournal(j1) {
					ctx.violate("c15-assignment-only-decides-visibility", "the journal differs from the journal of the same history in which the trips carry their (later) vehicle from their first mention on: "+firstDiff(cJournal(j0), cJournal(j1)),
						map[string]any{"history": describeHistory(feeds), "history_with_early_vehicles": describeHistory(early)})
				}
			}
		}
		if nontrivial {
			ctx.nontrivial++
		}
		stats["feeds"] += len(feeds)
		var fs []string
		for _, f := range feeds {
			fs = append(fs, cJFeed(f))
		}
		cases = append(cases, cPair(cList(fs), cPair(cList(expected), cList(winCases))))
		if h < 2 {
			ctx.sample(map[string]any{"history": describeHistory(feeds)})
		}
	}
	ctx.distribution["histories"] = nHist
	ctx.distribution["stats"] = stats
	ok := "fun c => let '(feeds, (prefixes, wins)) := c in " +
		"(if list_eq_dec (list_eq_dec j_trip_eq_dec) (map (fun k => build_journal (firstn k feeds) (ns (-1099511627776)) (ns 1099511627776)) (seq 1 (List.length feeds))) prefixes then true else false) && " +
		"forallb (fun w => let '((a, b), j) := w in if list_eq_dec j_trip_eq_dec (build_journal feeds a b) j then true else false) wins"
	shard := 10
	for i, k := 0, 0; i < len(cases); i, k = i+shard, k+1 {
		j := i + shard
		if j > len(cases) {
			j = len(cases)
		}
		ctx.caseFile(fmt.Sprintf("journal_%d", k), "Model.Journal", "(list j_feed * (list (list j_trip) * list ((Z * Z) * list j_trip)))", ok, cases[i:j])
	}
}
