package main

// Engine "export" (C20): random journals are exported with the real ExportToCsv; the bytes are compared byte for byte
// with Model/Export.v (in Coq) and, Go-side, read back with encoding/csv under the header names and compared with
// the journal entry by entry (the property stated directly); the journal is compared before/after the call.

import (
	"bytes"
	"encoding/csv"
	"fmt"
	"reflect"
	"strconv"
	"time"

	"github.com/jamespfennell/gtfs"
	"github.com/jamespfennell/gtfs/journal"
)

func (g *gen) cleanStr() string {
	if g.longLeft > 0 && g.coin(0.01) {
		g.longLeft--
		// a very long (still metacharacter-free) value: rows of 64 KiB and more are rows like any other
		b := make([]byte, 65000+g.r.Intn(9000))
		for i := range b {
			b[i] = "abcXYZ019_. -#:"[g.r.Intn(15)]
		}
		return string(b)
	}
	switch g.r.Intn(6) {
	case 0:
		return ""
	case 1:
		return g.pick([]string{"L03N", "123456_L..N", "1L 0415", "A27", " x ", "é-ü", "tab\there", "a;b", "a'b"})
	default:
		n := 1 + g.r.Intn(8)
		b := make([]byte, n)
		for i := range b {
			b[i] = "abcXYZ019_. -#:"[g.r.Intn(15)]
		}
		return string(b)
	}
}
func (g *gen) unixTime() time.Time {
	t := g.unixSeconds()
	if g.coin(0.4) {
		// instants are nanosecond-precise; the exported value is the Unix second containing the instant (floor, also before 1970)
		t = t.Add(time.Duration(g.pick64([]int64{1, 999999999, 500000000, 1000000, 250000000, int64(g.r.Intn(1000000000))})))
	}
	return t
}
func (g *gen) unixSeconds() time.Time {
	switch g.r.Intn(8) {
	case 0:
		return time.Unix(0, 0).UTC()
	case 1:
		return time.Unix(-int64(g.r.Intn(1000000)), 0).UTC()
	case 2:
		return time.Time{}
	case 3:
		return time.Unix(253402300799, 0).In(g.zone())
	default:
		return time.Unix(1600000000+int64(g.r.Intn(200000000)), 0).In(g.zone())
	}
}
func (g *gen) optUnixTime() *time.Time {
	if g.coin(0.35) {
		return nil
	}
	t := g.unixTime()
	return &t
}
func (g *gen) journalValue(dirty bool) *journal.Journal {
	j := &journal.Journal{}
	n := g.r.Intn(8)
	if g.coin(0.1) {
		n = 8 + g.r.Intn(15)
	}
	str := g.cleanStr
	if dirty {
		str = func() string {
			if g.coin(0.3) {
				return g.pick([]string{"a,b", "q\"q", "line\nbreak", "cr\rx", "\"", ",", "\n", "a\r\nb", "\xef\xbb\xbf"})
			}
			return g.cleanStr()
		}
	}
	for i := 0; i < n; i++ {
		t := journal.Trip{TripUID: str(), TripID: str(), RouteID: str(), DirectionID: gtfs.DirectionID(g.r.Intn(3)), StartTime: g.unixTime(),
			VehicleID: str(), IsAssigned: g.coin(0.5), LastObserved: g.unixTime(), MarkedPast: g.optUnixTime(),
			NumUpdates: g.r.Intn(100), NumScheduleChanges: g.r.Intn(5) - 1, NumScheduleRewrites: g.r.Intn(4) - 1}
		if g.coin(0.05) {
			t.DirectionID = gtfs.DirectionID(3 + g.r.Intn(250))
		}
		if g.coin(0.05) {
			t.NumUpdates = -g.r.Intn(1000000)
		}
		m := g.r.Intn(6)
		if g.coin(0.1) {
			m = 6 + g.r.Intn(25)
		}
		for k := 0; k < m; k++ {
			s := journal.StopTime{StopID: str(), ArrivalTime: g.optUnixTime(), DepartureTime: g.optUnixTime(), LastObserved: g.unixTime(), MarkedPast: g.optUnixTime()}
			if g.coin(0.6) {
				s.Track = ptr(str())
			}
			t.StopTimes = append(t.StopTimes, s)
		}
		j.Trips = append(j.Trips, t)
	}
	return j
}

func copyJournal(j *journal.Journal) *journal.Journal {
	c := &journal.Journal{}
	for _, t := range j.Trips {
		t2 := t
		if t.StopTimes != nil {
			t2.StopTimes = append([]journal.StopTime{}, t.StopTimes...)
		}
		c.Trips = append(c.Trips, t2)
	}
	return c
}

func readTable(b []byte) ([]map[string]string, error) {
	r := csv.NewReader(bytes.NewReader(b))
	recs, err := r.ReadAll()
	if err != nil {
		return nil, err
	}
	if len(recs) == 0 {
		return nil, fmt.Errorf("no header")
	}
	var out []map[string]string
	for _, rec := range recs[1:] {
		m := map[string]string{}
		for i, h := range recs[0] {
			if i < len(rec) {
				m[h] = rec[i]
			}
		}
		out = append(out, m)
	}
	return out, nil
}

func unixCell(t *time.Time) string {
	if t == nil {
		return ""
	}
	return strconv.FormatInt(t.Unix(), 10)
}
func strCell(s *string) string {
	if s == nil {
		return ""
	}
	return *s
}

func oracleC20(j *journal.Journal, e *journal.CsvExport) string {
	trips, err := readTable(e.TripsCsv)
	if err != nil {
		return "trips table does not parse as CSV: " + err.Error()
	}
	stops, err := readTable(e.StopTimesCsv)
	if err != nil {
		return "stop-times table does not parse as CSV: " + err.Error()
	}
	if len(trips) != len(j.Trips) {
		return fmt.Sprintf("trips table has %d rows for %d journal trips", len(trips), len(j.Trips))
	}
	k := 0
	for i := range j.Trips {
		t := &j.Trips[i]
		dir := ""
		if t.DirectionID == gtfs.DirectionID_False {
			dir = "0"
		} else if t.DirectionID == gtfs.DirectionID_True {
			dir = "1"
		}
		want := map[string]string{"trip_uid": t.TripUID, "trip_id": t.TripID, "route_id": t.RouteID, "direction_id": dir,
			"start_time": strconv.FormatInt(t.StartTime.Unix(), 10), "vehicle_id": t.VehicleID, "last_observed": strconv.FormatInt(t.LastObserved.Unix(), 10),
			"marked_past": unixCell(t.MarkedPast), "num_updates": strconv.Itoa(t.NumUpdates), "num_schedule_changes": strconv.Itoa(t.NumScheduleChanges),
			"num_schedule_rewrites": strconv.Itoa(t.NumScheduleRewrites)}
		if !reflect.DeepEqual(trips[i], want) {
			return fmt.Sprintf("trips row %d reads back as %v, want %v", i, trips[i], want)
		}
		for s := range t.StopTimes {
			st := &t.StopTimes[s]
			if k >= len(stops) {
				return "stop-times table has too few rows"
			}
			want := map[string]string{"trip_uid": t.TripUID, "stop_id": st.StopID, "track": strCell(st.Track), "arrival_time": unixCell(st.ArrivalTime),
				"departure_time": unixCell(st.DepartureTime), "last_observed": strconv.FormatInt(st.LastObserved.Unix(), 10), "marked_past": unixCell(st.MarkedPast)}
			if !reflect.DeepEqual(stops[k], want) {
				return fmt.Sprintf("stop-times row %d reads back as %v, want %v", k, stops[k], want)
			}
			k++
		}
	}
	if k != len(stops) {
		return fmt.Sprintf("stop-times table has %d rows for %d journal stop times", len(stops), k)
	}
	return ""
}

func engineExport(ctx *engineCtx) {
	g := &gen{r: ctx.rng, longLeft: 2}
	if ctx.thorough {
		g.longLeft = 5
	}
	n := 300
	if ctx.thorough {
		n = 6000
	}
	ctx.rule = "random journal.Journal values (0-22 trips, 0-30 stop times, every presence pattern of track/arrival/departure/marked-past, unspecified and out-of-range direction, " +
		"negative counters and instants, ids free of comma/quote/CR/LF); a separate 'dirty' stream with CSV metacharacters is compared with the model only (outside the property); " +
		"non-trivial = at least one stop time and one absent optional value; distinct = distinct exported bytes"
	var cases []string
	distinct := map[string]bool{}
	dirtyN := 0
	// an export is a value: it must still read the same after later exports (no buffer shared between calls)
	var prevExport *journal.CsvExport
	var prevTrips, prevStops string
	for i := 0; i < n; i++ {
		dirty := g.coin(0.15)
		j := g.journalValue(dirty)
		before := copyJournal(j)
		var e *journal.CsvExport
		var err error
		r := guarded(10*time.Second, func() { e, err = j.ExportToCsv() })
		ctx.evaluations++
		if r.panicked || r.hung || err != nil {
			ctx.violate("export-fails", fmt.Sprint("ExportToCsv failed: ", r.msg, err), map[string]any{"journal": cJournal(j)})
			continue
		}
		if !reflect.DeepEqual(before, j) {
			ctx.violate("export-mutates-journal", "ExportToCsv modified the journal", map[string]any{"journal": cJournal(before)})
		}
		if prevExport != nil && (string(prevExport.TripsCsv) != prevTrips || string(prevExport.StopTimesCsv) != prevStops) {
			ctx.violate("export-overwritten-by-later-export", "the tables returned by an earlier ExportToCsv call changed when another journal was exported (they no longer render the journal they were made from)",
				map[string]any{"earlier_trips_csv_when_returned": prevTrips, "earlier_trips_csv_now": string(prevExport.TripsCsv), "later_journal": cJournal(before)})
		}
		prevExport, prevTrips, prevStops = e, string(e.TripsCsv), string(e.StopTimesCsv)
		if !dirty {
			if msg := oracleC20(before, e); msg != "" {
				ctx.violate("export-readback", msg, map[string]any{"journal": cJournal(before), "trips_csv": string(e.TripsCsv), "stop_times_csv": string(e.StopTimesCsv)})
			}
		} else {
			dirtyN++
		}
		key := string(e.TripsCsv) + "\x00" + string(e.StopTimesCsv)
		if !distinct[key] {
			distinct[key] = true
			nt := false
			for _, t := range j.Trips {
				for _, s := range t.StopTimes {
					if s.Track == nil || s.ArrivalTime == nil || s.MarkedPast == nil {
						nt = true
					}
				}
			}
			if nt {
				ctx.nontrivial++
			}
		}
		cases = append(cases, cPair(cJournal(before), cPair(cStr(string(e.TripsCsv)), cStr(string(e.StopTimesCsv)))))
		if i < 2 {
			ctx.sample(map[string]any{"trips_csv": string(e.TripsCsv), "stop_times_csv": string(e.StopTimesCsv)})
		}
	}
	ctx.distribution["journals"] = n
	ctx.distribution["dirty_model_only"] = dirtyN
	shard := 25
	for i, k := 0, 0; i < len(cases); i, k = i+shard, k+1 {
		j := i + shard
		if j > len(cases) {
			j = len(cases)
		}
		ctx.caseFile(fmt.Sprintf("export_%d", k), "Model.Journal Model.Export", "(list j_trip * (string * string))",
			"fun c => let '(j, (t, s)) := c in String.eqb (export_trips j) t && String.eqb (export_stop_times j) s", cases[i:j])
	}
}
