package main

// harness gen <repo> <outdir>: regenerate the Coq tables (coq/Gen/*.v) from the Go source with go/ast (DESIGN 3.3).
// Handles exactly the shapes present in the repository and aborts loudly on anything else:
//   enums.go            func parseX(s string) T { switch s { case "..": return C ... default: return D | if hasParentStop {..} else {..} } }
//   nyctalerts.go       var priortyToEffect = map[K]V{ gtfsrt.K1: gtfsrt.V1, ... };  var timetabledNoServicePriorities = map[K]bool{...}
//   nycttrips.go        buggyStationIDs := map[string]bool{ "M11": true, ... }
// Constants are resolved from the const blocks of enums.go and proto/*.pb.go.

import (
	"fmt"
	"go/ast"
	"go/parser"
	"go/token"
	"os"
	"path/filepath"
	"sort"
	"strconv"
	"strings"
)

type genCtx struct {
	consts map[string]int64
	errs   []string
}

func (g *genCtx) fail(format string, a ...any) { g.errs = append(g.errs, fmt.Sprintf(format, a...)) }

func (g *genCtx) loadConsts(path string) {
	fset := token.NewFileSet()
	f, err := parser.ParseFile(fset, path, nil, 0)
	if err != nil {
		g.fail("parse %s: %v", path, err)
		return
	}
	for _, d := range f.Decls {
		gd, ok := d.(*ast.GenDecl)
		if !ok || gd.Tok != token.CONST {
			continue
		}
		for _, sp := range gd.Specs {
			vs := sp.(*ast.ValueSpec)
			for i, n := range vs.Names {
				if i >= len(vs.Values) {
					continue
				}
				if v, ok := g.intValue(vs.Values[i]); ok {
					g.consts[n.Name] = v
				}
			}
		}
	}
}

func (g *genCtx) intValue(e ast.Expr) (int64, bool) {
	switch x := e.(type) {
	case *ast.BasicLit:
		if x.Kind == token.INT {
			v, err := strconv.ParseInt(x.Value, 0, 64)
			return v, err == nil
		}
	case *ast.Ident:
		v, ok := g.consts[x.Name]
		return v, ok
	case *ast.SelectorExpr:
		v, ok := g.consts[x.Sel.Name]
		return v, ok
	case *ast.UnaryExpr:
		if x.Op == token.SUB {
			v, ok := g.intValue(x.X)
			return -v, ok
		}
	case *ast.ParenExpr:
		return g.intValue(x.X)
	}
	return 0, false
}

func coqStrLit(s string) string { return `"` + strings.ReplaceAll(s, `"`, `""`) + `"` }
func coqZ(v int64) string {
	if v < 0 {
		return fmt.Sprintf("(%d)", v)
	}
	return fmt.Sprint(v)
}

// return expression of a single `return X` statement
func (g *genCtx) retValue(stmts []ast.Stmt) (string, bool) {
	if len(stmts) != 1 {
		return "", false
	}
	switch s := stmts[0].(type) {
	case *ast.ReturnStmt:
		if len(s.Results) != 1 {
			return "", false
		}
		v, ok := g.intValue(s.Results[0])
		return coqZ(v), ok
	case *ast.IfStmt: // if hasParentStop { return A } else { return B }
		cond, ok := s.Cond.(*ast.Ident)
		if !ok || s.Init != nil {
			return "", false
		}
		a, ok1 := g.retValue(s.Body.List)
		eb, ok2 := s.Else.(*ast.BlockStmt)
		if !ok1 || !ok2 {
			return "", false
		}
		b, ok3 := g.retValue(eb.List)
		if !ok3 {
			return "", false
		}
		return fmt.Sprintf("(if %s then %s else %s)", cond.Name, a, b), true
	}
	return "", false
}

func (g *genCtx) genEnums(repo string) string {
	path := filepath.Join(repo, "enums.go")
	fset := token.NewFileSet()
	f, err := parser.ParseFile(fset, path, nil, 0)
	if err != nil {
		g.fail("parse %s: %v", path, err)
		return ""
	}
	var b strings.Builder
	b.WriteString("(* GENERATED from enums.go by harness/gen.go on every run — do not edit *)\nFrom GV Require Import Base.Prelude.\n\n")
	// constants
	var names []string
	for n := range g.consts {
		names = append(names, n)
	}
	sort.Strings(names)
	want := map[string]bool{}
	for _, d := range f.Decls {
		if gd, ok := d.(*ast.GenDecl); ok && gd.Tok == token.CONST {
			for _, sp := range gd.Specs {
				for _, n := range sp.(*ast.ValueSpec).Names {
					want[n.Name] = true
				}
			}
		}
	}
	for _, n := range names {
		if want[n] {
			fmt.Fprintf(&b, "Definition %s : Z := %s.\n", n, coqZ(g.consts[n]))
		}
	}
	b.WriteString("\n")
	found := 0
	for _, d := range f.Decls {
		fd, ok := d.(*ast.FuncDecl)
		if !ok || fd.Recv != nil || !strings.HasPrefix(fd.Name.Name, "parse") || fd.Body == nil {
			continue
		}
		params := fd.Type.Params.List
		if len(params) == 0 {
			continue
		}
		// only the string -> enum decoders (switch on the first parameter)
		if id, ok := params[0].Type.(*ast.Ident); !ok || id.Name != "string" {
			continue
		}
		if len(fd.Body.List) != 1 {
			g.fail("enums.go: %s: body is not a single switch", fd.Name.Name)
			continue
		}
		sw, ok := fd.Body.List[0].(*ast.SwitchStmt)
		if !ok || sw.Init != nil {
			g.fail("enums.go: %s: body is not a single switch", fd.Name.Name)
			continue
		}
		tag, ok := sw.Tag.(*ast.Ident)
		if !ok || tag.Name != params[0].Names[0].Name {
			g.fail("enums.go: %s: switch is not on the string parameter", fd.Name.Name)
			continue
		}
		args := "(s : string)"
		for _, p := range params[1:] {
			for _, n := range p.Names {
				args += fmt.Sprintf(" (%s : bool)", n.Name)
			}
		}
		var cases []string
		def := ""
		for _, c := range sw.Body.List {
			cc := c.(*ast.CaseClause)
			val, ok := g.retValue(cc.Body)
			if !ok {
				g.fail("enums.go: %s: unsupported case body", fd.Name.Name)
				continue
			}
			if cc.List == nil {
				def = val
				continue
			}
			for _, e := range cc.List {
				lit, ok := e.(*ast.BasicLit)
				if !ok || lit.Kind != token.STRING {
					g.fail("enums.go: %s: case is not a string literal", fd.Name.Name)
					continue
				}
				sv, _ := strconv.Unquote(lit.Value)
				cases = append(cases, fmt.Sprintf("if String.eqb s %s then %s else", coqStrLit(sv), val))
			}
		}
		if def == "" {
			g.fail("enums.go: %s: no default case", fd.Name.Name)
			continue
		}
		fmt.Fprintf(&b, "Definition %s %s : Z :=\n  %s\n  %s.\n", fd.Name.Name, args, strings.Join(cases, "\n  "), def)
		found++
	}
	if found < 8 {
		g.fail("enums.go: only %d string decoders recognised (expected 8)", found)
	}
	return b.String()
}

// map literal `name = map[..]..{k: v, ...}` at package level or as := inside a function
func findMapLit(f *ast.File, name string) *ast.CompositeLit {
	var out *ast.CompositeLit
	ast.Inspect(f, func(n ast.Node) bool {
		switch x := n.(type) {
		case *ast.ValueSpec:
			for i, id := range x.Names {
				if id.Name == name && i < len(x.Values) {
					if cl, ok := x.Values[i].(*ast.CompositeLit); ok {
						out = cl
					}
				}
			}
		case *ast.AssignStmt:
			for i, l := range x.Lhs {
				if id, ok := l.(*ast.Ident); ok && id.Name == name && i < len(x.Rhs) {
					if cl, ok := x.Rhs[i].(*ast.CompositeLit); ok {
						out = cl
					}
				}
			}
		}
		return true
	})
	return out
}

func (g *genCtx) genNyct(repo string) string {
	var b strings.Builder
	b.WriteString("(* GENERATED from extensions/nyctalerts/nyctalerts.go, extensions/nycttrips/nycttrips.go and proto/*.pb.go by harness/gen.go — do not edit *)\nFrom GV Require Import Base.Prelude.\n\n")
	fset := token.NewFileSet()
	pa := filepath.Join(repo, "extensions/nyctalerts/nyctalerts.go")
	fa, err := parser.ParseFile(fset, pa, nil, 0)
	if err != nil {
		g.fail("parse %s: %v", pa, err)
		return ""
	}
	if cl := findMapLit(fa, "priortyToEffect"); cl == nil {
		g.fail("nyctalerts.go: priortyToEffect map literal not found")
	} else {
		var rows []string
		for _, e := range cl.Elts {
			kv, ok := e.(*ast.KeyValueExpr)
			if !ok {
				g.fail("priortyToEffect: element is not key: value")
				continue
			}
			k, ok1 := g.intValue(kv.Key)
			v, ok2 := g.intValue(kv.Value)
			if !ok1 || !ok2 {
				g.fail("priortyToEffect: unresolved constant")
				continue
			}
			rows = append(rows, fmt.Sprintf("(%s, %s)", coqZ(k), coqZ(v)))
		}
		fmt.Fprintf(&b, "(* Mercury priority -> GTFS-realtime effect *)\nDefinition priority_to_effect : list (Z * Z) :=\n  [%s].\n\n", strings.Join(rows, "; "))
	}
	if cl := findMapLit(fa, "timetabledNoServicePriorities"); cl == nil {
		g.fail("nyctalerts.go: timetabledNoServicePriorities map literal not found")
	} else {
		var rows []string
		for _, e := range cl.Elts {
			kv, ok := e.(*ast.KeyValueExpr)
			if !ok {
				continue
			}
			k, ok1 := g.intValue(kv.Key)
			if id, ok := kv.Value.(*ast.Ident); !ok || id.Name != "true" || !ok1 {
				g.fail("timetabledNoServicePriorities: unsupported element")
				continue
			}
			rows = append(rows, coqZ(k))
		}
		fmt.Fprintf(&b, "Definition timetabled_no_service : list Z := [%s].\n\n", strings.Join(rows, "; "))
	}
	pt := filepath.Join(repo, "extensions/nycttrips/nycttrips.go")
	ft, err := parser.ParseFile(fset, pt, nil, 0)
	if err != nil {
		g.fail("parse %s: %v", pt, err)
		return ""
	}
	if cl := findMapLit(ft, "buggyStationIDs"); cl == nil {
		g.fail("nycttrips.go: buggyStationIDs map literal not found")
	} else {
		var rows []string
		for _, e := range cl.Elts {
			kv, ok := e.(*ast.KeyValueExpr)
			if !ok {
				continue
			}
			lit, ok1 := kv.Key.(*ast.BasicLit)
			if id, ok := kv.Value.(*ast.Ident); !ok || id.Name != "true" || !ok1 {
				g.fail("buggyStationIDs: unsupported element")
				continue
			}
			sv, _ := strconv.Unquote(lit.Value)
			rows = append(rows, coqStrLit(sv))
		}
		fmt.Fprintf(&b, "(* stations whose M-train platforms are swapped *)\nDefinition buggy_station_ids : list string := [%s].\n\n", strings.Join(rows, "; "))
	}
	// numeric values of the proto enum constants the models mention
	for _, n := range []string{"Alert_UNKNOWN_CAUSE", "Alert_TECHNICAL_PROBLEM", "Alert_MAINTENANCE", "Alert_UNKNOWN_EFFECT", "Alert_ACCESSIBILITY_ISSUE",
		"Alert_NO_SERVICE", "Alert_REDUCED_SERVICE", "Alert_SIGNIFICANT_DELAYS", "Alert_MODIFIED_SERVICE", "Alert_ADDITIONAL_SERVICE",
		"NyctTripDescriptor_NORTH", "NyctTripDescriptor_SOUTH", "TripDescriptor_SCHEDULED", "TripUpdate_StopTimeUpdate_SCHEDULED", "VehiclePosition_UNKNOWN_CONGESTION_LEVEL"} {
		v, ok := g.consts[n]
		if !ok {
			g.fail("proto constant %s not found", n)
			continue
		}
		fmt.Fprintf(&b, "Definition %s : Z := %s.\n", n, coqZ(v))
	}
	return b.String()
}

func runGen(args []string) int {
	if len(args) != 2 {
		fmt.Fprintln(os.Stderr, "usage: harness gen <repo> <outdir>")
		return 2
	}
	repo, out := args[0], args[1]
	g := &genCtx{consts: map[string]int64{}}
	for _, p := range []string{"enums.go", "proto/gtfs-realtime.pb.go", "proto/us-ny-mta-alerts-extension.pb.go", "proto/us-ny-mta-trips-extension.pb.go"} {
		g.loadConsts(filepath.Join(repo, p))
	}
	constErrs := g.errs
	os.MkdirAll(out, 0o755)
	// every table is translated on its own: a table whose source is no longer in a shape its translator handles is NOT
	// written (exit status 3, its name and the reason in NOT-REGENERATED.txt); the caller decides what stands in for it
	parts := []struct {
		file string
		gen  func(string) string
	}{{"Enums.v", g.genEnums}, {"NyctTables.v", g.genNyct}, {"Footprint.v", g.genFootprint}, {"PanicSites.v", g.genPanicSites}, {"Comparators.v", g.genComparators}}
	var failed []string
	for _, p := range parts {
		g.errs = append([]string{}, constErrs...)
		text := p.gen(repo)
		if len(g.errs) > 0 {
			for _, e := range g.errs {
				fmt.Fprintln(os.Stderr, "gen:", p.file+":", e)
			}
			failed = append(failed, p.file+": "+strings.Join(g.errs, "; "))
			continue
		}
		if err := os.WriteFile(filepath.Join(out, p.file), []byte(text), 0o644); err != nil {
			fmt.Fprintln(os.Stderr, err)
			return 1
		}
	}
	if len(failed) > 0 {
		os.WriteFile(filepath.Join(out, "NOT-REGENERATED.txt"), []byte(strings.Join(failed, "\n")+"\n"), 0o644)
		return 3
	}
	return 0
}
