package main

// harness gen <repo> <outdir>: regenerate the Coq tables (coq/Gen/*.v) from the Go source with go/ast (DESIGN 3.3).

func runGen(args []string) int {
	return 0
}
