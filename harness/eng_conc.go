package main

// Engine "conc" (C18): the real entry points run from many goroutines on shared input buffers and ONE shared options /
// extension value, under the Go race detector (bin/check builds the harness with -race for this engine).
//   parent: generates scenarios (configuration x inputs), computes every solo result sequentially with fresh objects,
//           emits them as Coq cases for the model's solo call, then runs each scenario in a CHILD process (a crash such
//           as "fatal error: concurrent map writes" cannot be recovered in-process) with GORACE=log_path=...;
//   child:  G goroutines x M rounds of ParseRealtime(sharedBuf, sharedOpts) / ParseStatic(sharedZip, opts), every result
//           compared with the solo result; then results returned by different calls are hashed / walked / read from
//           different goroutines at once and compared with the sequential hash.
// A race report, a crash, or a result that differs from its solo result is a violation; the replay is the scenario.

import (
	"crypto/sha256"
	"encoding/hex"
	"encoding/json"
	"fmt"
	"hash"
	"os"
	"os/exec"
	"path/filepath"
	"runtime"
	"strings"
	"sync"
	"time"

	"github.com/jamespfennell/gtfs"
	"github.com/jamespfennell/gtfs/extensions"
	gtfsrt "github.com/jamespfennell/gtfs/proto"
)

type concScenario struct {
	Name       string   `json:"name"`
	Cfg        []int    `json:"cfg"`
	ExtKind    int      `json:"ext_kind"` // 0 nil slot, 1 nycttrips, 2 nyctalerts, 3 explicit NoExtension
	Zone       string   `json:"zone"`
	RT         []string `json:"rt_files"`
	RTSolo     []string `json:"rt_solo"`      // digest of the solo projection ("error" when the bytes do not decode)
	RTSoloHash []string `json:"rt_solo_hash"` // digest of all Trip.Hash / Vehicle.Hash values of the solo result
	Static     []string `json:"static_files"`
	Inherit    []bool   `json:"static_inherit"`
	StSolo     []string `json:"static_solo"`
	Goroutines int      `json:"goroutines"`
	Rounds     int      `json:"rounds"`
}
type concOutcome struct {
	Mismatches []string `json:"mismatches"`
	Calls      int      `json:"calls"`
	Done       bool     `json:"done"`
}

// a hash.Hash that yields the processor inside Write: any hash function is allowed by the API, and a slow one widens
// whatever window an implementation leaves open
type yieldingHash struct{ hash.Hash }

func (y yieldingHash) Write(p []byte) (int, error) {
	runtime.Gosched()
	return y.Hash.Write(p)
}
func hashAll(r *gtfs.Realtime, yield bool) string {
	acc := sha256.New()
	mk := func() hash.Hash {
		if yield {
			return yieldingHash{sha256.New()}
		}
		return sha256.New()
	}
	for i := range r.Trips {
		h := mk()
		r.Trips[i].Hash(h)
		acc.Write(h.Sum(nil))
	}
	for i := range r.Vehicles {
		h := mk()
		r.Vehicles[i].Hash(h)
		acc.Write(h.Sum(nil))
		_ = r.Vehicles[i].GetTrip().ID
	}
	return hex.EncodeToString(acc.Sum(nil)[:8])
}
func walkAll(s *gtfs.Static) string {
	var b strings.Builder
	if tr := cyclicStop(s); tr == "" { // Root() spins forever on a parent cycle: that is C03 / C05's business, not this engine's
		for i := range s.Stops {
			b.WriteString(s.Stops[i].Root().Id)
			b.WriteByte(';')
		}
	}
	for i := range s.Trips {
		t := &s.Trips[i]
		b.WriteString(t.Route.Id + t.Service.Id)
		for k := range t.StopTimes {
			b.WriteString(t.StopTimes[k].Stop.Id)
		}
	}
	return digest(b.String())
}
func extOfKind(kind int, cfg extCfg) extensions.Extension {
	switch kind {
	case 0:
		return nil
	case 3:
		return extensions.NoExtension()
	}
	return cfg.ext()
}

func runConcChild(args []string) int {
	dir := args[0]
	b, err := os.ReadFile(filepath.Join(dir, args[1]))
	if err != nil {
		fmt.Fprintln(os.Stderr, err)
		return 2
	}
	var sc concScenario
	if err := json.Unmarshal(b, &sc); err != nil {
		fmt.Fprintln(os.Stderr, err)
		return 2
	}
	cfg := cfgFromInts(sc.Cfg)
	if len(args) > 2 && args[2] == "solo" {
		return runConcSolo(dir, args[1], &sc, cfg)
	}
	var rtBufs, stBufs [][]byte
	for _, f := range sc.RT {
		c, _ := os.ReadFile(filepath.Join(dir, f))
		rtBufs = append(rtBufs, c)
	}
	for _, f := range sc.Static {
		c, _ := os.ReadFile(filepath.Join(dir, f))
		stBufs = append(stBufs, c)
	}
	shared := &gtfs.ParseRealtimeOptions{Timezone: zoneByName(sc.Zone), Extension: extOfKind(sc.ExtKind, cfg)}
	var mu sync.Mutex
	out := concOutcome{}
	note := func(s string) {
		mu.Lock()
		if len(out.Mismatches) < 20 {
			out.Mismatches = append(out.Mismatches, s)
		}
		mu.Unlock()
	}
	results := make([][]*gtfs.Realtime, sc.Goroutines) // results[g][i]: goroutine g's own result for input i (last round)
	statics := make([][]*gtfs.Static, sc.Goroutines)
	var wg sync.WaitGroup
	start := make(chan struct{})
	calls := make([]int, sc.Goroutines)
	for gi := 0; gi < sc.Goroutines; gi++ {
		wg.Add(1)
		go func(gi int) {
			defer wg.Done()
			results[gi] = make([]*gtfs.Realtime, len(rtBufs))
			statics[gi] = make([]*gtfs.Static, len(stBufs))
			<-start
			for round := 0; round < sc.Rounds; round++ {
				for k := range rtBufs {
					i := (k + gi) % len(rtBufs)
					r, err := gtfs.ParseRealtime(rtBufs[i], shared)
					calls[gi]++
					d := "error"
					if err == nil {
						d = digest(cRealtime(r))
						results[gi][i] = r
					}
					if d != sc.RTSolo[i] {
						note(fmt.Sprintf("goroutine %d round %d: ParseRealtime(%s) under concurrency gives %s, alone %s", gi, round, sc.RT[i], d, sc.RTSolo[i]))
					}
				}
				if round%4 == 0 {
					for k := range stBufs {
						i := (k + gi) % len(stBufs)
						s, err := gtfs.ParseStatic(stBufs[i], gtfs.ParseStaticOptions{InheritWheelchairBoarding: sc.Inherit[i]})
						calls[gi]++
						d := "error"
						if err == nil {
							d = digest(cStatic(s) + strings.Join(dumpStatic(s), "\n"))
							statics[gi][i] = s
						}
						if d != sc.StSolo[i] {
							note(fmt.Sprintf("goroutine %d round %d: ParseStatic(%s) under concurrency gives %s, alone %s", gi, round, sc.Static[i], d, sc.StSolo[i]))
						}
					}
				}
			}
		}(gi)
	}
	close(start)
	wg.Wait()
	// results returned by different calls, used from different goroutines at once
	var wg2 sync.WaitGroup
	start2 := make(chan struct{})
	for gi := 0; gi < sc.Goroutines; gi++ {
		wg2.Add(1)
		go func(gi int) {
			defer wg2.Done()
			<-start2
			for rep := 0; rep < 6; rep++ {
				for i, r := range results[gi] {
					if r == nil {
						continue
					}
					if h := hashAll(r, rep%2 == 0); h != sc.RTSoloHash[i] {
						note(fmt.Sprintf("goroutine %d: hashing its own result of %s while other goroutines hash theirs gives %s, alone %s", gi, sc.RT[i], h, sc.RTSoloHash[i]))
					}
				}
				for _, s := range statics[gi] {
					if s != nil {
						walkAll(s)
					}
				}
			}
		}(gi)
	}
	close(start2)
	wg2.Wait()
	for _, c := range calls {
		out.Calls += c
	}
	out.Done = true
	ob, _ := json.Marshal(out)
	os.WriteFile(filepath.Join(dir, strings.TrimSuffix(args[1], ".json")+".out.json"), ob, 0o644)
	return 0
}

// solo mode: every input parsed once, alone, in list order, in a process that has parsed nothing else: the reference results
func runConcSolo(dir, scFile string, sc *concScenario, cfg extCfg) int {
	sc.RTSolo, sc.RTSoloHash, sc.StSolo = nil, nil, nil
	for _, f := range sc.RT {
		b, _ := os.ReadFile(filepath.Join(dir, f))
		r, err := gtfs.ParseRealtime(b, &gtfs.ParseRealtimeOptions{Timezone: zoneByName(sc.Zone), Extension: extOfKind(sc.ExtKind, cfg)})
		if err != nil {
			sc.RTSolo = append(sc.RTSolo, "error")
			sc.RTSoloHash = append(sc.RTSoloHash, "")
			continue
		}
		sc.RTSolo = append(sc.RTSolo, digest(cRealtime(r)))
		sc.RTSoloHash = append(sc.RTSoloHash, hashAll(r, false))
	}
	for i, f := range sc.Static {
		b, _ := os.ReadFile(filepath.Join(dir, f))
		s, err := gtfs.ParseStatic(b, gtfs.ParseStaticOptions{InheritWheelchairBoarding: sc.Inherit[i]})
		d := "error"
		if err == nil {
			d = digest(cStatic(s) + strings.Join(dumpStatic(s), "\n"))
		}
		sc.StSolo = append(sc.StSolo, d)
	}
	ob, _ := json.Marshal(sc)
	os.WriteFile(filepath.Join(dir, scFile), ob, 0o644)
	return 0
}

func engineConc(ctx *engineCtx) {
	g := &gen{r: ctx.rng}
	goroutines, rounds, nScen := 8, 30, 8
	if ctx.thorough {
		goroutines, rounds, nScen = 16, 60, 40
	}
	ctx.rule = fmt.Sprintf("scenarios = extension configuration (nil Extension slot, explicit NoExtension, nycttrips x 4 flag settings, nyctalerts x 3 policies x flags) x zone x 4-7 realtime inputs "+
		"(elevator feeds with recurring ids, conflict-free with NYCT data, wild, one undecodable) x 2 static archives; each scenario runs in a child process built with -race: %d goroutines x %d rounds of "+
		"ParseRealtime(sharedBuf, ONE sharedOpts) (+ ParseStatic(sharedZip) every 4th round), every result compared with the solo result; then every goroutine hashes (yielding and plain hash.Hash) / walks the "+
		"results its own calls returned, concurrently; non-trivial = scenario with a shared extension object or nil slot and >= 2 inputs; distinct = distinct (config, inputs)", goroutines, rounds)
	if !raceEnabled {
		ctx.notes = append(ctx.notes, "harness was NOT built with -race: data races are not observed in this run")
	}
	tmp, err := os.MkdirTemp(ctx.outDir, "conc")
	if err != nil {
		panic(err)
	}
	defer os.RemoveAll(tmp)
	self, _ := os.Executable()
	var cases []string
	stats := map[string]int{}
	totalCalls := 0
	for si := 0; si < nScen; si++ {
		extKind := []int{2, 0, 1, 2, 3, 2, 1, 2}[si%8]
		cfg := g.extCfg(extKind % 3)
		if extKind == 2 && si%8 == 0 {
			cfg.policy = 0
		}
		tz := g.rtZone()
		if si%8 == 2 || si%8 == 4 {
			tz = nil // no zone configured ("UTC will be used") with a stateless extension: the default is resolved per call, not stored
		}
		sc := concScenario{Name: fmt.Sprintf("scenario%02d", si), Cfg: cfgToInts(cfg), ExtKind: extKind, Zone: zoneName(tz), Goroutines: goroutines, Rounds: rounds}
		nIn := 4 + g.r.Intn(4)
		var rtBytes, stBytes [][]byte
		var caseTwin *sfeed
		for k := 0; k < nIn; k++ {
			var b []byte
			switch {
			case k == 0 && si%2 == 1: // Q: a vehicle position for V1 without a trip, and trip T on its own ...
				b = marshal(&gtfsrt.FeedMessage{Header: header(1700000000), Entity: []*gtfsrt.FeedEntity{
					{Id: ptr("q1"), Vehicle: &gtfsrt.VehiclePosition{Vehicle: &gtfsrt.VehicleDescriptor{Id: ptr("V1")}}},
					{Id: ptr("q2"), TripUpdate: &gtfsrt.TripUpdate{Trip: &gtfsrt.TripDescriptor{TripId: ptr("T-shared")}}}}})
			case k == nIn-2 && si%2 == 1: // ... P: the same trip T claimed by two vehicle ids (a conflicting feed, parsed by other calls)
				b = marshal(&gtfsrt.FeedMessage{Header: header(1700000001), Entity: []*gtfsrt.FeedEntity{
					{Id: ptr("p1"), TripUpdate: &gtfsrt.TripUpdate{Trip: &gtfsrt.TripDescriptor{TripId: ptr("T-shared")}, Vehicle: &gtfsrt.VehicleDescriptor{Id: ptr("V1")}}},
					{Id: ptr("p2"), TripUpdate: &gtfsrt.TripUpdate{Trip: &gtfsrt.TripDescriptor{TripId: ptr("T-shared")}, Vehicle: &gtfsrt.VehicleDescriptor{Id: ptr("V2")}}}}})
			case k == 2:
				// one alert informing the same route twice through trip descriptors that determine no trip: first without a
				// direction, then with one (the bookkeeping of the route fallback is per alert, not shared between calls)
				rid := g.pick([]string{"R", "L", "7X"})
				b = marshal(&gtfsrt.FeedMessage{Header: header(1700000002), Entity: []*gtfsrt.FeedEntity{{Id: ptr("fallback"), Alert: &gtfsrt.Alert{InformedEntity: []*gtfsrt.EntitySelector{
					{Trip: &gtfsrt.TripDescriptor{RouteId: ptr(rid)}}, {Trip: &gtfsrt.TripDescriptor{RouteId: ptr(rid), DirectionId: ptr(uint32(g.r.Intn(2)))}},
					{Trip: &gtfsrt.TripDescriptor{RouteId: ptr("other")}}, {Trip: &gtfsrt.TripDescriptor{RouteId: ptr("other"), DirectionId: ptr(uint32(1))}}}}}}})
			case k == 1 && si%4 == 2:
				// a large message (hundreds of trips and vehicles): whatever the parser does differently above some size
				// (batching, helper goroutines) is part of the call and must be over when the call returns
				big := &gtfsrt.FeedMessage{Header: header(1700000000)}
				for t, nT := 0, 300+g.r.Intn(500); t < nT; t++ {
					td := &gtfsrt.TripDescriptor{TripId: ptr(fmt.Sprintf("big-%05d", g.r.Intn(100000))), RouteId: ptr(g.pick(rtRoutes)), StartDate: ptr("20231114")}
					tu := &gtfsrt.TripUpdate{Trip: td, Vehicle: &gtfsrt.VehicleDescriptor{Id: ptr(fmt.Sprintf("veh-%05d", g.r.Intn(100000)))}}
					for u := g.r.Intn(3); u > 0; u-- {
						tu.StopTimeUpdate = append(tu.StopTimeUpdate, g.rtStu(1700000000, false))
					}
					big.Entity = append(big.Entity, &gtfsrt.FeedEntity{Id: ptr(fmt.Sprint("b", t)), TripUpdate: tu})
				}
				b = marshal(big)
			case k == nIn-1 && g.coin(0.5):
				b = []byte{0xff, 0xfe, 0x01, 0x07}
			case extKind == 2 && (k < 2 || g.coin(0.5)):
				m, _ := g.elevatorFeed()
				b = marshal(m)
			case g.coin(0.3):
				b = marshal(g.wild(extKind != 0 && extKind != 3))
			default:
				b = marshal(g.conflictFree(extKind == 1, true))
			}
			name := fmt.Sprintf("s%02d_rt%d.bin", si, k)
			os.WriteFile(filepath.Join(tmp, name), b, 0o644)
			sc.RT = append(sc.RT, name)
			rtBytes = append(rtBytes, b)
		}
		for k := 0; k < 2; k++ {
			f := g.wellFormed(3 + g.r.Intn(8))
			if k == 1 && si%4 == 0 {
				// a large feed: trips with a hundred and more stop times, shapes with many points, rows in no particular order
				f = g.wellFormed(220 + g.r.Intn(120))
				for _, tn := range []string{"stop_times.txt", "shapes.txt"} {
					if t := f.table(tn); t != nil {
						g.r.Shuffle(len(t.rows), func(a, b int) { t.rows[a], t.rows[b] = t.rows[b], t.rows[a] })
					}
				}
			}
			if si%4 == 1 {
				// two feeds that differ only in the letter case of the agency zone: the mis-spelt one (listed first) does not load
				// and falls back to UTC - whatever other calls have loaded before or meanwhile
				if k == 0 {
					caseTwin = g.wellFormed(4 + g.r.Intn(4))
					f = caseTwin.clone()
					for _, a := range f.table("agency.txt").rows {
						a["agency_timezone"] = "pacific/chatham"
					}
				} else {
					f = caseTwin.clone()
					for _, a := range f.table("agency.txt").rows {
						a["agency_timezone"] = "Pacific/Chatham"
					}
				}
			} else if g.coin(0.4) {
				g.corruptRefs(f)
			}
			p := g.presentation(f)
			ms := renderFeed(g, p, f)
			zb := zipMembers(ms, p.store)
			inherit := g.coin(0.5)
			name := fmt.Sprintf("s%02d_static%d.zip", si, k)
			os.WriteFile(filepath.Join(tmp, name), zb, 0o644)
			sc.Static = append(sc.Static, name)
			sc.Inherit = append(sc.Inherit, inherit)
			stBytes = append(stBytes, zb)
		}
		sb, _ := json.Marshal(sc)
		scFile := sc.Name + ".json"
		os.WriteFile(filepath.Join(tmp, scFile), sb, 0o644)
		// ---- the reference results, from a process that parses each input once and nothing else ----
		soloRace := filepath.Join(tmp, sc.Name+".solo.race")
		soloCmd := exec.Command(self, "conc-child", tmp, scFile, "solo")
		soloCmd.Env = append(os.Environ(), "GORACE=log_path="+soloRace+" halt_on_error=0 exitcode=0 history_size=2")
		soloReplay := func() map[string]any {
			return map[string]any{"scenario": sc, "how": "harness conc-child <dir> " + scFile + " solo (binary built with -race): each input parsed once, alone, in a fresh process",
				"inputs_hex": hexFiles(tmp, append(append([]string{}, sc.RT...), sc.Static...))}
		}
		out, soloErr := runWithTimeout(soloCmd, 5*time.Minute)
		if races, _ := filepath.Glob(soloRace + ".*"); len(races) > 0 {
			rb, _ := os.ReadFile(races[0])
			txt := string(rb)
			if len(txt) > 3500 {
				txt = txt[:3500]
			}
			rp := soloReplay()
			rp["race_report"] = txt
			ctx.violate("c18-data-race", "the Go race detector reports a data race inside a single call running alone (goroutines started by the call): "+firstLines(txt, 12), rp)
			continue
		}
		if soloErr != nil {
			ctx.violate("c18-crash", fmt.Sprintf("the sequential reference run crashed (%v): %s", soloErr, firstLines(string(out), 6)), soloReplay())
			continue
		}
		// ---- this process (which has a history of earlier parses) parses the same inputs: it must agree with the fresh one ----
		for k, b := range rtBytes {
			var r *gtfs.Realtime
			var perr error
			cr := guarded(20*time.Second, func() {
				r, perr = gtfs.ParseRealtime(append([]byte{}, b...), &gtfs.ParseRealtimeOptions{Timezone: tz, Extension: extOfKind(extKind, cfg)})
			})
			ctx.evaluations++
			switch {
			case cr.panicked || cr.hung:
				ctx.violate("c18-crash", "ParseRealtime panicked or hung (sequentially): "+cr.msg, map[string]any{"config": cfg.coq(), "inputs_hex": hexFiles(tmp, sc.RT[k:k+1])})
				sc.RTSolo = append(sc.RTSolo, "crash")
				sc.RTSoloHash = append(sc.RTSoloHash, "")
			case perr != nil:
				sc.RTSolo = append(sc.RTSolo, "error")
				sc.RTSoloHash = append(sc.RTSoloHash, "")
			default:
				sc.RTSolo = append(sc.RTSolo, digest(cRealtime(r)))
				sc.RTSoloHash = append(sc.RTSoloHash, hashAll(r, false))
				if dm := decodeMsg(b); dm != nil && len(b) < 20000 {
					caseCfg := cfg
					if extKind == 0 || extKind == 3 {
						caseCfg = extCfg{}
					}
					cases = append(cases, rtCase(caseCfg, tz, dm, r))
				}
			}
		}
		for k, zb := range stBytes {
			st, perr, cr := parseStaticGuarded(zb, gtfs.ParseStaticOptions{InheritWheelchairBoarding: sc.Inherit[k]})
			ctx.evaluations++
			d := "error"
			if cr.panicked || cr.hung {
				d = "crash"
			} else if perr == nil {
				d = digest(cStatic(st) + strings.Join(dumpStatic(st), "\n"))
			}
			sc.StSolo = append(sc.StSolo, d)
		}
		if sb2, err := os.ReadFile(filepath.Join(tmp, scFile)); err == nil {
			var sc2 concScenario
			if json.Unmarshal(sb2, &sc2) == nil && len(sc2.RTSolo) == len(sc.RT) && len(sc2.StSolo) == len(sc.Static) {
				for k := range sc.RTSolo { // otherwise history leaks (C06's business, reported here too)
					if sc.RTSolo[k] != sc2.RTSolo[k] {
						ctx.violate("c18-differs-from-sequential", fmt.Sprintf("ParseRealtime(%s) in a process that parsed other inputs before gives %s, alone in a fresh process %s (%s)", sc.RT[k], sc.RTSolo[k], sc2.RTSolo[k], cfg.coq()),
							map[string]any{"scenario": sc2, "inputs_hex": hexFiles(tmp, sc.RT)})
					}
				}
				for k := range sc.StSolo {
					if sc.StSolo[k] != sc2.StSolo[k] {
						ctx.violate("c18-differs-from-sequential", fmt.Sprintf("ParseStatic(%s) in a process that parsed other inputs before gives %s, alone in a fresh process %s", sc.Static[k], sc.StSolo[k], sc2.StSolo[k]),
							map[string]any{"scenario": sc2, "inputs_hex": hexFiles(tmp, sc.Static[k:k+1])})
					}
				}
				sc = sc2
			}
		}
		// ---- the concurrent run, in a child ----
		raceLog := filepath.Join(tmp, sc.Name+".race")
		cmd := exec.Command(self, "conc-child", tmp, scFile)
		cmd.Env = append(os.Environ(), "GORACE=log_path="+raceLog+" halt_on_error=0 exitcode=0 history_size=2")
		t0 := time.Now()
		outB, cerr := runWithTimeout(cmd, 10*time.Minute)
		stats["child_ms"] += int(time.Since(t0).Milliseconds())
		replay := map[string]any{"scenario": sc, "how": "harness conc-child <dir> " + scFile + " (binary built with -race); inputs are the listed files, hex below",
			"inputs_hex": hexFiles(tmp, append(append([]string{}, sc.RT...), sc.Static...))}
		var oc concOutcome
		if ob, err := os.ReadFile(filepath.Join(tmp, sc.Name+".out.json")); err == nil {
			json.Unmarshal(ob, &oc)
		}
		totalCalls += oc.Calls
		ctx.evaluations += oc.Calls
		races, _ := filepath.Glob(raceLog + ".*")
		if len(races) > 0 {
			rb, _ := os.ReadFile(races[0])
			txt := string(rb)
			if len(txt) > 3500 {
				txt = txt[:3500]
			}
			replay["race_report"] = txt
			ctx.violate("c18-data-race", "the Go race detector reports a data race between concurrent calls sharing inputs / options ("+cfg.coq()+fmt.Sprintf(", extension kind %d): ", extKind)+firstLines(txt, 12), replay)
		}
		if cerr != nil || !oc.Done {
			tail := string(outB)
			if len(tail) > 2500 {
				tail = tail[:2500]
			}
			replay["child_output"] = tail
			ctx.violate("c18-crash", fmt.Sprintf("the concurrent run crashed or did not finish (%v): %s", cerr, firstLines(tail, 6)), replay)
		}
		for _, m := range oc.Mismatches {
			ctx.violate("c18-differs-from-sequential", m+" ("+cfg.coq()+")", replay)
		}
		ctx.nontrivial++
		stats[fmt.Sprintf("ext_kind_%d", extKind)]++
		if si < 2 {
			ctx.sample(map[string]any{"scenario": sc.Name, "config": cfg.coq(), "extension_kind": extKind, "zone": sc.Zone, "rt_inputs": len(sc.RT), "static_inputs": len(sc.Static), "goroutines": goroutines, "rounds": rounds, "concurrent_calls": oc.Calls})
		}
	}
	stats["concurrent_calls"] = totalCalls
	ctx.distribution["stats"] = stats
	ctx.distribution["race_detector"] = raceEnabled
	shard := 30
	for i, k := 0, 0; i < len(cases); i, k = i+shard, k+1 {
		j := i + shard
		if j > len(cases) {
			j = len(cases)
		}
		ctx.caseFile(fmt.Sprintf("conc_rt_%d", k), "Model.RtTypes Model.RtWire Model.Realtime", rtCaseType, rtCaseOk, cases[i:j])
	}
	_ = gtfsrt.FeedMessage{}
}

func runWithTimeout(cmd *exec.Cmd, d time.Duration) ([]byte, error) {
	type res struct {
		b []byte
		e error
	}
	ch := make(chan res, 1)
	go func() { b, e := cmd.CombinedOutput(); ch <- res{b, e} }()
	select {
	case r := <-ch:
		return r.b, r.e
	case <-time.After(d):
		if cmd.Process != nil {
			cmd.Process.Kill()
		}
		return nil, fmt.Errorf("timeout after %v", d)
	}
}
func firstLines(s string, n int) string {
	l := strings.Split(s, "\n")
	if len(l) > n {
		l = l[:n]
	}
	return strings.Join(l, " | ")
}
func hexFiles(dir string, names []string) map[string]string {
	out := map[string]string{}
	for _, n := range names {
		b, _ := os.ReadFile(filepath.Join(dir, n))
		if len(b) > 3000 {
			b = b[:3000]
		}
		out[n] = hex.EncodeToString(b)
	}
	return out
}
