package main

// Engine "crash" (C05): no input can crash or hang the library.
// Streams (every call under recover() and a deadline; a panic or a missed deadline IS the failing input):
//   rt-raw      arbitrary bytes and mutated valid messages (bit flips, truncation, splices, repeated fields, huge varints)
//               into ParseRealtime under every bundled extension configuration; every accessor on every result
//               (Hash of every trip and vehicle, the nil-safe getters), getters on nil receivers;
//   journal     sequences of successfully parsed (fuzzed and generated) feeds into BuildJournal + ExportToCsv, every prefix;
//   static-raw  arbitrary bytes as archive; archives whose members are arbitrary / mutated bytes;
//   static-cell well-formed tables with hostile cells in every column (blank, non-numeric, huge, negative, unknown id,
//               own id as parent), dropped / duplicated columns, ragged rows, shuffled rows; Root() of every stop and
//               every pointer of the result walked under a deadline.
// Correspondence: decodable realtime messages -> full result against Model/Realtime.v; journals -> Model/Journal.v;
// static archives inside the CSV model's domain -> outcome class (result / error) against Model/Static.v.

import (
	"crypto/sha256"
	"encoding/hex"
	"fmt"
	"google.golang.org/protobuf/proto"
	"strings"
	"time"

	"github.com/jamespfennell/gtfs"
	"github.com/jamespfennell/gtfs/journal"
	gtfsrt "github.com/jamespfennell/gtfs/proto"
)

func (g *gen) mutateBytes(b []byte, other []byte) ([]byte, string) {
	c := append([]byte{}, b...)
	switch g.r.Intn(9) {
	case 0:
		return c, "valid"
	case 1:
		for k := 1 + g.r.Intn(4); k > 0 && len(c) > 0; k-- {
			c[g.r.Intn(len(c))] ^= byte(1 << uint(g.r.Intn(8)))
		}
		return c, "bitflip"
	case 2:
		if len(c) > 0 {
			c = c[:g.r.Intn(len(c))]
		}
		return c, "truncated"
	case 3:
		if len(c) > 0 && len(other) > 0 {
			c = append(c[:g.r.Intn(len(c))], other[g.r.Intn(len(other)):]...)
		}
		return c, "spliced"
	case 4:
		return append(c, c...), "doubled" // every field again: repeated fields append, singular ones merge
	case 5:
		n := g.r.Intn(40)
		c = make([]byte, n)
		g.r.Read(c)
		return c, "random"
	case 6:
		if len(c) > 2 {
			i := g.r.Intn(len(c) - 1)
			c = append(c[:i], append([]byte{0xff, 0xff, 0xff, 0xff, 0xff, 0xff, 0xff, 0xff, 0xff, 0x01}, c[i:]...)...)
		}
		return c, "huge-varint"
	case 7:
		if len(c) > 0 {
			i := g.r.Intn(len(c))
			c[i] = byte(g.r.Intn(256))
		}
		return c, "byte-replaced"
	default:
		if len(c) > 4 {
			i, j := g.r.Intn(len(c)), g.r.Intn(len(c))
			if i > j {
				i, j = j, i
			}
			c = append(c[:i], c[j:]...)
		}
		return c, "chunk-removed"
	}
}

// every accessor the property names, on a realtime result
func touchRealtime(r *gtfs.Realtime) callResult {
	return guarded(10*time.Second, func() {
		for i := range r.Trips {
			t := &r.Trips[i]
			t.Hash(sha256.New())
			veh := t.GetVehicle()
			_ = veh.GetID().ID
			vt := veh.GetTrip()
			_ = vt.ID
			for k := range t.StopTimeUpdates {
				_ = t.StopTimeUpdates[k].GetArrival()
				_ = t.StopTimeUpdates[k].GetDeparture()
			}
		}
		for i := range r.Vehicles {
			v := &r.Vehicles[i]
			v.Hash(sha256.New())
			_ = v.GetID()
			vt := v.GetTrip()
			vv := vt.GetVehicle()
			_ = vv.GetID()
		}
		var nt *gtfs.Trip
		var nv *gtfs.Vehicle
		var nu *gtfs.StopTimeUpdate
		_ = nt.GetVehicle()
		_ = nv.GetID()
		_ = nv.GetTrip()
		_ = nu.GetArrival()
		_ = nu.GetDeparture()
	})
}
func touchStatic(s *gtfs.Static) callResult {
	// Stop.Root is `for { if stop.Parent == nil { return stop }; stop = stop.Parent }`: it terminates iff the parent chain
	// is acyclic.  A chain longer than the number of stops proves a cycle; calling Root() on it would spin forever (and leak a
	// spinning goroutine per call), so the cycle itself is reported as the hang.
	if id := cyclicStop(s); id != "" {
		return callResult{hung: true, msg: fmt.Sprintf("stop %q is its own ancestor: Stop.Root() does not terminate", id)}
	}
	return guarded(8*time.Second, func() {
		for i := range s.Stops {
			_ = s.Stops[i].Root().Id
			if p := s.Stops[i].Parent; p != nil {
				_ = p.Id
			}
		}
		for i := range s.Routes {
			_ = s.Routes[i].Agency.Id
		}
		for i := range s.Transfers {
			_ = s.Transfers[i].From.Id + s.Transfers[i].To.Id
		}
		for i := range s.Trips {
			t := &s.Trips[i]
			_ = t.Route.Id + t.Service.Id
			if t.Shape != nil {
				_ = len(t.Shape.Points)
			}
			for k := range t.StopTimes {
				_ = t.StopTimes[k].Stop.Root().Id
				if bt := t.StopTimes[k].Trip; bt != nil { // never populated by the parser (not among C03's references)
					_ = bt.ID
				}
			}
		}
	})
}

var hostileCells = []string{"", " ", "-1", "0", "1", "2", "9", "99999999999999999999", "-99999999999999999999", "2147483648", "1e309", "NaN", "Inf", "0x1p-2", "abc", "\x00", "é", "25:61:61", "1:2", "::", ":", "12:00:00:00", "20240230", "2024", "00000000", "99999999", "1.5.5", "+5", "٣"}

func (g *gen) hostileFeed(f *sfeed) string {
	what := []string{}
	for k := 1 + g.r.Intn(6); k > 0; k-- {
		t := f.tables[g.r.Intn(len(f.tables))]
		switch g.r.Intn(8) {
		case 0, 1, 2, 3: // a hostile value in a random cell
			if len(t.rows) > 0 && len(t.cols) > 0 {
				r := t.rows[g.r.Intn(len(t.rows))]
				c := t.cols[g.r.Intn(len(t.cols))]
				v := g.pick(hostileCells)
				if g.coin(0.2) && len(t.rows) > 1 { // another row's value: duplicate ids, self references
					v = t.rows[g.r.Intn(len(t.rows))][c]
				}
				if strings.ContainsAny(v, "\x00") {
					v = "x"
				}
				r[c] = v
				what = append(what, t.name+"/"+c)
			}
		case 4: // drop a column
			if len(t.cols) > 1 {
				i := g.r.Intn(len(t.cols))
				c := t.cols[i]
				t.cols = append(append([]string{}, t.cols[:i]...), t.cols[i+1:]...)
				for _, r := range t.rows {
					delete(r, c)
				}
				what = append(what, t.name+"/-"+c)
			}
		case 5: // shuffle rows: every order of good and bad rows
			g.r.Shuffle(len(t.rows), func(a, b int) { t.rows[a], t.rows[b] = t.rows[b], t.rows[a] })
			what = append(what, t.name+"/shuffled")
		case 6: // stop hierarchy: own id / mutual parents
			if st := f.table("stops.txt"); st != nil && len(st.rows) > 0 {
				r := st.rows[g.r.Intn(len(st.rows))]
				r["parent_station"] = st.rows[g.r.Intn(len(st.rows))]["stop_id"]
				what = append(what, "stops.txt/parent")
			}
		case 7:
			g.corruptRefs(f)
			what = append(what, "refs")
		}
	}
	return strings.Join(what, ",")
}

const crashStaticCaseOk = "fun c => let '(((inherit, (ft, dt)), ms), want) := c in " +
	"let pf := fun s => match find (fun e => String.eqb (fst e) s) ft with Some e => Some (snd e) | None => None end in " +
	"let di := fun z s => match find (fun e => String.eqb (fst (fst e)) z && String.eqb (snd (fst e)) s) dt with Some e => Some (snd e) | None => None end in " +
	"match parse_static pf di inherit ms, want with Ok _, Some _ => true | Err _, None => true | _, _ => false end"

// stretchStrings: identifiers are arbitrary strings - very long ones (beyond any fixed-size buffer), multi-byte ones whose
// byte length and character count differ around the 6-byte NYCT prefix, and ones that are not valid UTF-8 at all
func (g *gen) stretchStrings(m *gtfsrt.FeedMessage) {
	odd := func(p **string) {
		if *p == nil || !g.coin(0.35) {
			return
		}
		switch g.r.Intn(8) {
		case 0:
			*p = ptr(strings.Repeat("x", 120+g.r.Intn(20)))
		case 1:
			*p = ptr(strings.Repeat("é", 60+g.r.Intn(10)))
		case 2:
			*p = ptr(strings.Repeat("0123456789", 100))
		case 3:
			*p = ptr(g.pick([]string{"0615é", "ééé", "日本語", "日本", "éééééé", "12345é", "1234é"}))
		case 4:
			*p = ptr(g.pick([]string{"12345\xff", "\xff\xfe\xfd\xfc\xfb\xfa", "abc\x80def", "\xc3"}))
		case 5:
			*p = ptr(**p + strings.Repeat("_", 200))
		case 6:
			*p = ptr(strings.Repeat("y", []int{127, 128, 129, 255, 256, 257, 65535, 65536}[g.r.Intn(8)]))
		default:
			*p = ptr("067800_" + strings.Repeat("L", 150) + "..N")
		}
	}
	td := func(t *gtfsrt.TripDescriptor) {
		if t != nil {
			odd(&t.TripId)
			odd(&t.RouteId)
		}
	}
	vd := func(v *gtfsrt.VehicleDescriptor) {
		if v != nil {
			odd(&v.Id)
			odd(&v.Label)
			odd(&v.LicensePlate)
		}
	}
	for _, e := range m.Entity {
		odd(&e.Id)
		if tu := e.TripUpdate; tu != nil {
			td(tu.Trip)
			vd(tu.Vehicle)
			for _, u := range tu.StopTimeUpdate {
				odd(&u.StopId)
				if u.StopId != nil && g.coin(0.25) {
					// four BYTES that are fewer than four characters, on the route whose platforms are rewritten
					u.StopId = ptr(g.pick([]string{"M1é", "éé", "M€", "😀", "M11\xff", "\xff\xfe\xfd\xfc", "M1\xc3", "日N"}))
					if tu.Trip != nil && g.coin(0.7) {
						tu.Trip.RouteId = ptr("M")
					}
				}
				if proto.HasExtension(u, gtfsrt.E_NyctStopTimeUpdate) {
					n := proto.GetExtension(u, gtfsrt.E_NyctStopTimeUpdate).(*gtfsrt.NyctStopTimeUpdate)
					odd(&n.ScheduledTrack)
					odd(&n.ActualTrack)
				}
			}
			if tu.Trip != nil && proto.HasExtension(tu.Trip, gtfsrt.E_NyctTripDescriptor) {
				odd(&proto.GetExtension(tu.Trip, gtfsrt.E_NyctTripDescriptor).(*gtfsrt.NyctTripDescriptor).TrainId)
			}
		}
		if vp := e.Vehicle; vp != nil {
			td(vp.Trip)
			vd(vp.Vehicle)
			odd(&vp.StopId)
		}
		if a := e.Alert; a != nil {
			for _, s := range a.InformedEntity {
				odd(&s.RouteId)
				odd(&s.StopId)
				td(s.Trip)
			}
		}
	}
}

func engineCrash(ctx *engineCtx) {
	g := &gen{r: ctx.rng}
	nRT, nJ, nRawZip, nCell := 8000, 500, 800, 900
	if ctx.thorough {
		nRT, nJ, nRawZip, nCell = 40000, 3000, 4000, 6000
	}
	ctx.rule = "rt-raw: valid messages of every generator (conflict-free, wild, elevator feeds, NYCT data) mutated by one of 9 operators (kept valid, bit flips, truncation, splice, doubled, random bytes, huge varint, byte replaced, chunk removed) " +
		"x every bundled extension configuration, all accessors on every result; journal: every prefix of sequences of parsed fuzzed feeds and of generated histories (short ids, nil stop ids, vanishing reference-only trips) through BuildJournal + ExportToCsv; " +
		"static-raw: random bytes, truncated / bit-flipped archives, archives with random or mutated members; static-cell: well-formed feeds with 1-6 hostile edits (hostile value in any cell, dropped column, shuffled rows, self / mutual parents, corrupted references), Root() and every pointer walked; " +
		"non-trivial = input that parses to a non-empty result after mutation, or a journal history with a vanished trip; distinct = distinct input bytes (+ config)"
	seen := map[string]bool{}
	stats := map[string]int{}
	var rtCases, jCases, sCases []string
	var parsedFeeds []*gtfs.Realtime

	// ---------------- rt-raw ----------------
	var prev []byte
	for i := 0; i < nRT; i++ {
		kind := g.r.Intn(3)
		cfg := g.extCfg(kind)
		var m *gtfsrt.FeedMessage
		switch {
		case kind == 2 && g.coin(0.6):
			m, _ = g.elevatorFeed()
		case g.coin(0.4):
			m = g.wild(kind != 0)
		default:
			m = g.conflictFree(kind == 1, true)
		}
		if g.coin(0.25) {
			g.stretchStrings(m)
		}
		base := marshal(m)
		b, op := g.mutateBytes(base, prev)
		prev = base
		tz := g.rtZone()
		r, err, cr := parseRT(b, tz, cfg)
		ctx.evaluations++
		stats["rt_"+op]++
		replay := map[string]any{"stream": "rt-raw", "mutation": op, "config": cfg.coq(), "zone": cTz(tz), "input_hex": hex.EncodeToString(b)}
		if cr.panicked || cr.hung {
			ctx.violate("c05-realtime-crash", "ParseRealtime panicked or hung on a byte string: "+cr.msg, replay)
			continue
		}
		if err != nil {
			stats["rt_error"]++
			continue
		}
		stats["rt_ok"]++
		if tr := touchRealtime(r); tr.panicked || tr.hung {
			ctx.violate("c05-accessor-crash", "an accessor (Hash / getter) on a ParseRealtime result panicked or hung: "+tr.msg, replay)
			continue
		}
		key := string(b) + cfg.coq()
		if !seen[key] {
			seen[key] = true
			if op != "valid" && len(r.Trips)+len(r.Vehicles)+len(r.Alerts) > 0 {
				ctx.nontrivial++
			}
		}
		if len(parsedFeeds) < 4000 && (cfg.kind == 1 || g.coin(0.3)) {
			parsedFeeds = append(parsedFeeds, r)
		}
		if dm := decodeMsg(b); dm != nil && len(b) < 3000 && len(rtCases) < 400+map[bool]int{true: 3000}[ctx.thorough] && utf8Clean(dm) {
			rtCases = append(rtCases, rtCase(cfg, tz, dm, r))
		}
		if i < 2 {
			ctx.sample(replay)
		}
	}

	// ---------------- journal ----------------
	far0, far1 := time.Unix(-1<<40, 0), time.Unix(1<<40, 0)
	for h := 0; h < nJ; h++ {
		var feeds []*gtfs.Realtime
		if h%2 == 0 && len(parsedFeeds) > 0 {
			for k := 1 + g.r.Intn(6); k > 0; k-- {
				feeds = append(feeds, parsedFeeds[g.r.Intn(len(parsedFeeds))])
			}
		} else {
			feeds = g.history(1+g.r.Intn(10), 1+g.r.Intn(5))
			if g.coin(0.5) { // reference-only trips (no vehicle, no stop times) that vanish in the next feed
				for _, f := range feeds {
					if g.coin(0.5) {
						f.Trips = append(f.Trips, gtfs.Trip{ID: gtfs.TripID{ID: g.pick([]string{"123456_X..N", "000000_REF", "1234567"}), StartDate: time.Unix(1700000000, 0).UTC()}})
					}
				}
			}
		}
		vanished := false
		for k := 1; k <= len(feeds); k++ {
			var j *journal.Journal
			cr := guarded(20*time.Second, func() {
				j = journal.BuildJournal(&sliceSource{feeds: feeds[:k]}, far0, far1)
				j.ExportToCsv()
			})
			ctx.evaluations++
			if cr.panicked || cr.hung {
				ctx.violate("c05-journal-crash", "BuildJournal / ExportToCsv panicked or hung on a sequence of parsed feeds: "+cr.msg, map[string]any{"stream": "journal", "history": describeHistory(feeds[:k])})
				break
			}
			for i := range j.Trips {
				if j.Trips[i].MarkedPast != nil {
					vanished = true
				}
			}
			if k == len(feeds) && len(jCases) < 150+map[bool]int{true: 1500}[ctx.thorough] {
				var fs []string
				for _, f := range feeds {
					fs = append(fs, cJFeed(f))
				}
				jCases = append(jCases, cPair(cList(fs), cJournal(j)))
			}
		}
		if vanished {
			ctx.nontrivial++
		}
		stats["journal_histories"]++
	}

	// ---------------- static-raw ----------------
	for i := 0; i < nRawZip; i++ {
		if ctx.perKey["c05-static-crash"] >= 6 {
			break
		}
		f := g.wellFormed(2 + g.r.Intn(4))
		p := g.presentation(f)
		ms := renderFeed(g, p, f)
		var zb []byte
		op := ""
		switch g.r.Intn(4) {
		case 0: // mutate the archive bytes themselves
			zb, op = g.mutateBytes(zipMembers(ms, p.store), nil)
			op = "zip-" + op
		case 1: // random member contents
			for k := range ms {
				if g.coin(0.4) {
					n := g.r.Intn(60)
					c := make([]byte, n)
					g.r.Read(c)
					ms[k].content = string(c)
				}
			}
			zb, op = zipMembers(ms, p.store), "members-random"
		case 2: // mutated member contents
			for k := range ms {
				if g.coin(0.5) {
					c, _ := g.mutateBytes([]byte(ms[k].content), []byte(ms[g.r.Intn(len(ms))].content))
					ms[k].content = string(c)
				}
			}
			zb, op = zipMembers(ms, p.store), "members-mutated"
		default: // missing / empty / header-only members
			k := g.r.Intn(len(ms))
			switch g.r.Intn(3) {
			case 0:
				ms = append(ms[:k], ms[k+1:]...)
			case 1:
				ms[k].content = ""
			default:
				ms[k].content = strings.SplitN(ms[k].content, "\n", 2)[0]
			}
			zb, op = zipMembers(ms, p.store), "member-missing-or-empty"
		}
		s, err, cr := parseStaticGuarded(zb, gtfs.ParseStaticOptions{InheritWheelchairBoarding: g.coin(0.5)})
		ctx.evaluations++
		stats["static_"+op]++
		replay := map[string]any{"stream": "static-raw", "mutation": op, "archive_hex": hex.EncodeToString(zb[:min(len(zb), 6000)])}
		if cr.panicked || cr.hung {
			ctx.violate("c05-static-crash", "ParseStatic panicked or hung on an archive: "+cr.msg, replay)
			continue
		}
		if err == nil {
			stats["static_raw_ok"]++
			if tr := touchStatic(s); tr.panicked || tr.hung {
				ctx.violate("c05-accessor-crash", "walking a ParseStatic result (Root, pointers) panicked or hung: "+tr.msg, replay)
			}
		}
	}

	// ---------------- static-cell ----------------
	bytesBudget := 250000
	if ctx.thorough {
		bytesBudget = 3000000
	}
	for i := 0; i < nCell; i++ {
		if ctx.perKey["c05-static-crash"] >= 6 { // every further hang costs a deadline and leaks a spinning goroutine
			ctx.notes = append(ctx.notes, "static-cell stream stopped early after repeated crashes / hangs")
			break
		}
		f := g.wellFormed(2 + g.r.Intn(8))
		what := g.hostileFeed(f)
		p := canonicalPresentation(f)
		if g.coin(0.3) {
			p = g.presentation(f)
		}
		ms := renderFeed(g, p, f)
		if g.coin(0.1) && len(ms) > 0 { // a ragged row: the CSV layer must turn it into an error
			k := g.r.Intn(len(ms))
			ms[k].content += "a,b,c,d,e,f,g,h,i,j,k,l,m,n,o,p,q,r,s,t,u,v,w,x,y,z\n"
			what += ",ragged:" + ms[k].name
		}
		inherit := g.coin(0.5)
		r := runStatic(ms, p.store, inherit)
		ctx.evaluations++
		replay := map[string]any{"stream": "static-cell", "edits": what, "members": describeMembers(ms), "inherit": inherit}
		if r.cr.panicked || r.cr.hung {
			ctx.violate("c05-static-crash", "ParseStatic panicked or hung on syntactically valid CSV with wrong content: "+r.cr.msg, replay)
			continue
		}
		if r.err == nil {
			stats["static_cell_ok"]++
			if tr := touchStatic(r.s); tr.panicked || tr.hung {
				ctx.violate("c05-accessor-crash", "walking a ParseStatic result (Root, pointers) panicked or hung: "+tr.msg, replay)
				continue
			}
			key := string(zipMembers(ms, true))
			if !seen[key] {
				seen[key] = true
				if len(r.s.Stops) > 0 {
					ctx.nontrivial++
				}
			}
		} else {
			stats["static_cell_error"]++
		}
		sz := 0
		for _, m := range ms {
			sz += len(m.content)
		}
		if sz <= 5000 && bytesBudget >= sz && inCsvModelDomain(ms) {
			bytesBudget -= sz
			sCases = append(sCases, staticCase(inherit, ms, r.s, feedZones(f)))
		}
		if i < 1 {
			ctx.sample(replay)
		}
	}
	ctx.distribution["stats"] = stats
	shard := 40
	for i, k := 0, 0; i < len(rtCases); i, k = i+shard, k+1 {
		j := min(i+shard, len(rtCases))
		ctx.caseFile(fmt.Sprintf("crash_rt_%d", k), "Model.RtTypes Model.RtWire Model.Realtime", rtCaseType, rtCaseOk, rtCases[i:j])
	}
	shard = 15
	for i, k := 0, 0; i < len(jCases); i, k = i+shard, k+1 {
		j := min(i+shard, len(jCases))
		ctx.caseFile(fmt.Sprintf("crash_journal_%d", k), "Model.Journal", "(list j_feed * list j_trip)",
			"fun c => let '(feeds, want) := c in if list_eq_dec j_trip_eq_dec (build_journal feeds (ns (-1099511627776)) (ns 1099511627776)) want then true else false", jCases[i:j])
	}
	shard = 6
	for i, k := 0, 0; i < len(sCases); i, k = i+shard, k+1 {
		j := min(i+shard, len(sCases))
		ctx.caseFile(fmt.Sprintf("crash_static_%d", k), "Model.Csv Model.Static", staticCaseType, crashStaticCaseOk, sCases[i:j])
	}
}

// inputs the CSV model covers: no UTF-16 byte-order mark at the start of a member
func inCsvModelDomain(ms []member) bool {
	for _, m := range ms {
		if strings.HasPrefix(m.content, "\xff\xfe") || strings.HasPrefix(m.content, "\xfe\xff") {
			return false
		}
	}
	return true
}

// the Coq string literals of the case files carry bytes; proto strings that are not valid UTF-8 are rejected by
// proto.Unmarshal anyway, so every decodable message qualifies
func utf8Clean(m *gtfsrt.FeedMessage) bool { return m != nil }

var _ = fmt.Sprint

// cyclicStop returns the id of a stop whose parent chain is longer than the number of stops (hence cyclic), or "".
func cyclicStop(s *gtfs.Static) string {
	for i := range s.Stops {
		p, n := &s.Stops[i], 0
		for p.Parent != nil {
			p = p.Parent
			n++
			if n > len(s.Stops)+1 {
				if s.Stops[i].Id == "" {
					return "(blank id)"
				}
				return s.Stops[i].Id
			}
		}
	}
	return ""
}
