package main

// harness gen, part 3: Gen/Footprint.v — facts about the SHAPE of the library source that the purity / concurrency
// theorems (C06, C18) are stated over, extracted with go/ast on every run:
//   range_sites      every `for ... := range X` whose operand X is a Go map (the iteration-order adversary of
//                    Model/Purity.v must have a site for each)
//   package_vars     every package-level `var` of the library packages (state that outlives a call)
//   shared_writes    every assignment / inc-dec / map or slice element store whose target is rooted in a package-level
//                    variable, in a method receiver, or in a pointer-typed / interface-typed parameter, outside
//                    constructors — i.e. every write that can reach memory the caller or another call can see
// Properties/C06.v and Properties/C18.v contain the lists the models account for; a change to the code that adds a site
// breaks that proof obligation.

import (
	"fmt"
	"go/ast"
	"go/parser"
	"go/printer"
	"go/token"
	"os"
	"path/filepath"
	"sort"
	"strconv"
	"strings"
)

var footprintFiles = []string{"realtime.go", "static.go", "hash.go", "enums.go", "csv/csv.go", "constants/constants.go", "warnings/warnings.go",
	"extensions/extensions.go", "extensions/nycttrips/nycttrips.go", "extensions/nyctalerts/nyctalerts.go", "journal/journal.go", "journal/export.go"}

func exprText(fset *token.FileSet, e ast.Expr) string {
	var b strings.Builder
	printer.Fprint(&b, fset, e)
	return b.String()
}
func isMapType(e ast.Expr) bool {
	switch t := e.(type) {
	case *ast.MapType:
		return true
	case *ast.ParenExpr:
		return isMapType(t.X)
	}
	return false
}
func rootIdent(e ast.Expr) *ast.Ident {
	for {
		switch x := e.(type) {
		case *ast.Ident:
			return x
		case *ast.SelectorExpr:
			e = x.X
		case *ast.IndexExpr:
			e = x.X
		case *ast.StarExpr:
			e = x.X
		case *ast.ParenExpr:
			e = x.X
		default:
			return nil
		}
	}
}

func (g *genCtx) genFootprint(repo string) string {
	var ranges, pvars, writes, rangesNF, critWrites, regexes []string
	for _, rel := range footprintFiles {
		fset := token.NewFileSet()
		f, err := parser.ParseFile(fset, filepath.Join(repo, rel), nil, 0)
		if err != nil {
			g.fail("footprint: parse %s: %v", rel, err)
			continue
		}
		pkgVars := map[string]bool{}
		pkgMapVars := map[string]bool{}
		for _, d := range f.Decls {
			gd, ok := d.(*ast.GenDecl)
			if !ok || gd.Tok != token.VAR {
				continue
			}
			for _, sp := range gd.Specs {
				vs := sp.(*ast.ValueSpec)
				for i, n := range vs.Names {
					if n.Name == "_" {
						continue
					}
					pkgVars[n.Name] = true
					pvars = append(pvars, fmt.Sprintf("(%s, %s)", coqStrLit(rel), coqStrLit(n.Name)))
					if vs.Type != nil && isMapType(vs.Type) {
						pkgMapVars[n.Name] = true
					}
					if i < len(vs.Values) {
						if cl, ok := vs.Values[i].(*ast.CompositeLit); ok && cl.Type != nil && isMapType(cl.Type) {
							pkgMapVars[n.Name] = true
						}
						// regexp.MustCompile(<string literal>): the languages Model/Realtime.v implements by hand
						if call, ok := vs.Values[i].(*ast.CallExpr); ok && len(call.Args) == 1 {
							if sel, ok := call.Fun.(*ast.SelectorExpr); ok && sel.Sel.Name == "MustCompile" {
								if lit, ok := call.Args[0].(*ast.BasicLit); ok && lit.Kind == token.STRING {
									if pat, err := strconv.Unquote(lit.Value); err == nil {
										regexes = append(regexes, fmt.Sprintf("(%s, %s)", coqStrLit(n.Name), coqStrLit(pat)))
									}
								}
							}
						}
					}
				}
			}
		}
		// struct fields of map type declared in this file (x.field ranges)
		mapFields := map[string]bool{}
		ast.Inspect(f, func(n ast.Node) bool {
			if st, ok := n.(*ast.StructType); ok {
				for _, fl := range st.Fields.List {
					if isMapType(fl.Type) {
						for _, nm := range fl.Names {
							mapFields[nm.Name] = true
						}
					}
				}
			}
			return true
		})
		for _, d := range f.Decls {
			fd, ok := d.(*ast.FuncDecl)
			if !ok || fd.Body == nil {
				continue
			}
			fname := fd.Name.Name
			if fd.Recv != nil && len(fd.Recv.List) > 0 {
				fname = exprText(fset, fd.Recv.List[0].Type) + "." + fname
			}
			// locals known to be maps; names that alias caller-visible memory
			mapVars := map[string]bool{}
			for k := range pkgMapVars {
				mapVars[k] = true
			}
			shared := map[string]string{} // ident -> why
			critical := map[string]bool{} // names whose memory outlives the call: package variables, options, extension values, input bytes
			for k := range pkgVars {
				shared[k] = "package variable"
				critical[k] = true
			}
			addParams := func(fl *ast.FieldList, why string) {
				if fl == nil {
					return
				}
				for _, p := range fl.List {
					_, isPtr := p.Type.(*ast.StarExpr)
					_, isMap := p.Type.(*ast.MapType)
					_, isSlice := p.Type.(*ast.ArrayType)
					tyText := exprText(fset, p.Type)
					for _, nm := range p.Names {
						if isMapType(p.Type) {
							mapVars[nm.Name] = true
						}
						if why == "receiver" || isPtr || isMap || isSlice {
							shared[nm.Name] = why
						}
						if strings.Contains(tyText, "Options") || tyText == "[]byte" || (why == "receiver" && strings.HasPrefix(rel, "extensions/")) {
							critical[nm.Name] = true
						}
					}
				}
			}
			addParams(fd.Recv, "receiver")
			addParams(fd.Type.Params, "parameter")
			ast.Inspect(fd.Body, func(n ast.Node) bool {
				switch s := n.(type) {
				case *ast.FuncLit:
					for _, p := range s.Type.Params.List {
						for _, nm := range p.Names {
							if isMapType(p.Type) {
								mapVars[nm.Name] = true
							}
						}
					}
				case *ast.AssignStmt:
					if s.Tok == token.DEFINE {
						for i, l := range s.Lhs {
							id, ok := l.(*ast.Ident)
							if !ok || i >= len(s.Rhs) {
								continue
							}
							delete(shared, id.Name) // a new local shadows
							switch r := s.Rhs[i].(type) {
							case *ast.CompositeLit:
								if r.Type != nil && isMapType(r.Type) {
									mapVars[id.Name] = true
								}
							case *ast.CallExpr:
								if fn, ok := r.Fun.(*ast.Ident); ok && fn.Name == "make" && len(r.Args) > 0 && isMapType(r.Args[0]) {
									mapVars[id.Name] = true
								}
							}
						}
					}
				case *ast.DeclStmt:
					if gd, ok := s.Decl.(*ast.GenDecl); ok && gd.Tok == token.VAR {
						for _, sp := range gd.Specs {
							vs := sp.(*ast.ValueSpec)
							for i, nm := range vs.Names {
								delete(shared, nm.Name)
								if vs.Type != nil && isMapType(vs.Type) {
									mapVars[nm.Name] = true
								}
								if i < len(vs.Values) {
									if r, ok := vs.Values[i].(*ast.CallExpr); ok {
										if fn, ok := r.Fun.(*ast.Ident); ok && fn.Name == "make" && len(r.Args) > 0 && isMapType(r.Args[0]) {
											mapVars[nm.Name] = true
										}
									}
								}
							}
						}
					}
				}
				return true
			})
			ast.Inspect(fd.Body, func(n ast.Node) bool {
				switch s := n.(type) {
				case *ast.RangeStmt:
					isMap := false
					switch x := s.X.(type) {
					case *ast.Ident:
						isMap = mapVars[x.Name]
					case *ast.SelectorExpr:
						isMap = mapFields[x.Sel.Name]
					case *ast.IndexExpr: // m[k] where m is a map of maps is not used by the library; flag it
						if id := rootIdent(x); id != nil && mapVars[id.Name] {
							isMap = true
						}
					case *ast.CallExpr:
						isMap = false
					}
					if isMap {
						ranges = append(ranges, fmt.Sprintf("(%s, %s, %s)", coqStrLit(rel), coqStrLit(fname), coqStrLit(exprText(fset, s.X))))
						rangesNF = append(rangesNF, fmt.Sprintf("(%s, %s)", coqStrLit(rel), coqStrLit(exprText(fset, s.X))))
					}
				case *ast.AssignStmt:
					if s.Tok == token.DEFINE {
						return true
					}
					for _, l := range s.Lhs {
						if id, ok := l.(*ast.Ident); ok {
							// plain `x = ...` on a parameter / receiver rebinding a local copy is not a shared write; on a package variable it is
							if why := shared[id.Name]; why == "package variable" {
								writes = append(writes, fmt.Sprintf("(%s, %s, %s)", coqStrLit(rel), coqStrLit(fname), coqStrLit(exprText(fset, l))))
								critWrites = append(critWrites, fmt.Sprintf("(%s, %s)", coqStrLit(rel), coqStrLit(exprText(fset, l))))
							}
							continue
						}
						if id := rootIdent(l); id != nil {
							if _, ok := shared[id.Name]; ok {
								writes = append(writes, fmt.Sprintf("(%s, %s, %s)", coqStrLit(rel), coqStrLit(fname), coqStrLit(exprText(fset, l))))
								if critical[id.Name] {
									critWrites = append(critWrites, fmt.Sprintf("(%s, %s)", coqStrLit(rel), coqStrLit(exprText(fset, l))))
								}
							}
						}
					}
				case *ast.IncDecStmt:
					if id := rootIdent(s.X); id != nil {
						if _, ok := shared[id.Name]; ok {
							if _, plain := s.X.(*ast.Ident); !plain || shared[id.Name] == "package variable" {
								writes = append(writes, fmt.Sprintf("(%s, %s, %s)", coqStrLit(rel), coqStrLit(fname), coqStrLit(exprText(fset, s.X))))
							}
						}
					}
				}
				return true
			})
		}
	}
	sort.Strings(ranges)
	sort.Strings(pvars)
	sort.Strings(writes)
	var b strings.Builder
	b.WriteString("(* generated by harness gen from the library source: do not edit *)\nFrom Coq Require Import String List.\nImport ListNotations.\nLocal Open Scope string_scope.\n\n")
	emit := func(name, ty string, rows []string) {
		fmt.Fprintf(&b, "Definition %s : list %s := [\n", name, ty)
		for i, r := range rows {
			sep := ";"
			if i == len(rows)-1 {
				sep = ""
			}
			fmt.Fprintf(&b, "  %s%s\n", r, sep)
		}
		b.WriteString("].\n\n")
	}
	emit("range_sites", "(string * string * string)", ranges)
	emit("package_vars", "(string * string)", pvars)
	emit("shared_writes", "(string * string * string)", writes)
	sort.Strings(rangesNF)
	sort.Strings(critWrites)
	// the robust summaries that Properties/C06.v and C18.v pin (function names left out: extracting a helper is not a change)
	emit("range_over_map", "(string * string)", rangesNF)
	emit("critical_writes", "(string * string)", critWrites)
	sort.Strings(regexes)
	emit("regex_sources", "(string * string)", regexes)
	// the two export templates, verbatim: Model/Export.v renders exactly these
	var tmpls []string
	for _, name := range []string{"journal/trips.csv.tmpl", "journal/stop_times.csv.tmpl"} {
		b, err := os.ReadFile(filepath.Join(repo, name))
		if err != nil {
			g.fail("footprint: %v", err)
			continue
		}
		tmpls = append(tmpls, fmt.Sprintf("(%s, %s)", coqStrLit(name), coqStrLit(string(b))))
	}
	emit("template_sources", "(string * string)", tmpls)
	return b.String()
}
