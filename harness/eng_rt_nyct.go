package main

// Engines "rt_nycttrips" (C16) and "rt_nyctalerts" (C17): messages mixing NYCT-extended and plain entities are parsed
// with every configuration of the bundled extensions; full correspondence with Model/Realtime.v (extension pre-pass
// included) plus the Go-side statements of the two properties.

import (
	"fmt"
	"math"
	"reflect"
	"regexp"
	"sort"
	"strconv"
	"strings"
	"time"

	"github.com/jamespfennell/gtfs"
	gtfsrt "github.com/jamespfennell/gtfs/proto"
	"google.golang.org/protobuf/proto"
)

var nyctIDFormat = regexp.MustCompile(`^([0-9]{6})_([[:alnum:]]{1,2})..([SN])([[:alnum:]]*)$`) // the documented NYCT trip id format

func nyctOf(td *gtfsrt.TripDescriptor) *gtfsrt.NyctTripDescriptor {
	if td == nil || !proto.HasExtension(td, gtfsrt.E_NyctTripDescriptor) {
		return nil
	}
	return proto.GetExtension(td, gtfsrt.E_NyctTripDescriptor).(*gtfsrt.NyctTripDescriptor)
}

// the documented M-train swap, as a specification
func mswapSpec(route, stop string) string {
	if route != "M" || len(stop) != 4 {
		return stop
	}
	switch stop[:3] {
	case "M11", "M12", "M13", "M14", "M16", "M18":
		if stop[3] == 'N' {
			return stop[:3] + "S"
		}
		if stop[3] == 'S' {
			return stop[:3] + "N"
		}
	}
	return stop
}

func hasNyctData(m *gtfsrt.FeedMessage) bool {
	for _, e := range m.Entity {
		if nyctOf(e.GetTripUpdate().GetTrip()) != nil || nyctOf(e.GetVehicle().GetTrip()) != nil {
			return true
		}
		for _, u := range e.GetTripUpdate().GetStopTimeUpdate() {
			if proto.HasExtension(u, gtfsrt.E_NyctStopTimeUpdate) {
				return true
			}
		}
	}
	return false
}

func oracleC16Single(g *gen, ctx *engineCtx, cfg extCfg) {
	// one NYCT trip update per message: derived fields and the stale filter, with the boundary made explicit
	ts := uint64(1700000000 + g.r.Intn(100000))
	origin := g.r.Intn(600000)
	// the two free characters between route and direction are CHARACTERS: any two, multi-byte ones and stray bytes included
	sep := ".."
	if g.coin(0.25) {
		sep = g.pick([]string{"·.", "··", "•.", ".é", "\xff.", ".\xff", "日.", "日本", "😀.", "\xc3.", "\xe2\x82."})
	}
	id := fmt.Sprintf("%06d_%s%s%s%s", origin, g.pick([]string{"L", "7X", "A", "GS"}), sep, g.pick([]string{"N", "S"}), g.pick([]string{"", "01R", "X"}))
	td := &gtfsrt.TripDescriptor{TripId: ptr(id), RouteId: ptr(g.pick([]string{"L", "M", "A"})), StartDate: ptr("20231114")}
	n := &gtfsrt.NyctTripDescriptor{}
	assigned := g.coin(0.5)
	if assigned || g.coin(0.5) {
		n.IsAssigned = ptr(assigned)
	}
	train := g.pick([]string{"0L 1118", "1M 0542", "0A 0001"})
	if g.coin(0.9) {
		n.TrainId = ptr(train)
	} else {
		train = ""
	}
	dir := []int32{1, 3}[g.r.Intn(2)]
	hasDir := g.coin(0.85)
	if hasDir {
		n.Direction = gtfsrt.NyctTripDescriptor_Direction(dir).Enum()
	}
	proto.SetExtension(td, gtfsrt.E_NyctTripDescriptor, n)
	tu := &gtfsrt.TripUpdate{Trip: td}
	if g.coin(0.3) {
		tu.Vehicle = &gtfsrt.VehicleDescriptor{Id: ptr("original-vehicle")}
		if g.coin(0.5) {
			// a descriptor that already names the train but carries more: the derived vehicle is identified by the train id alone
			tu.Vehicle = &gtfsrt.VehicleDescriptor{Id: ptr(train), Label: ptr("label")}
			if g.coin(0.3) {
				tu.Vehicle.LicensePlate = ptr("plate")
			}
		}
	}
	var firstTime int64
	firstKnown := false
	for k := g.r.Intn(4); k > 0; k-- {
		u := g.rtStu(int64(ts), true)
		tu.StopTimeUpdate = append(tu.StopTimeUpdate, u)
	}
	if len(tu.StopTimeUpdate) > 0 {
		u := tu.StopTimeUpdate[0]
		// put the first stop's times on both sides of, and on, the feed timestamp
		mk := func() *gtfsrt.TripUpdate_StopTimeEvent {
			switch g.r.Intn(6) {
			case 0:
				return nil
			case 1:
				return &gtfsrt.TripUpdate_StopTimeEvent{}
			case 2:
				return &gtfsrt.TripUpdate_StopTimeEvent{Time: ptr(int64(0))}
			case 3, 4:
				// the comparison with the feed timestamp is one of integers, over the whole int64 range
				return &gtfsrt.TripUpdate_StopTimeEvent{Time: ptr(g.pick64([]int64{math.MinInt64, math.MinInt64 + 1000, math.MinInt64 + int64(ts), math.MinInt64 + int64(ts) + 1, math.MinInt64 + 1, math.MinInt64 + int64(ts) - 1, math.MinInt64 + int64(ts)/2,
					math.MaxInt64, math.MaxInt64 - int64(ts), -1, 1, -int64(ts), math.MinInt32, math.MaxInt32, 1 << 32, int64(ts) - (1 << 32), int64(ts) + (1 << 32)}))}
			default:
				return &gtfsrt.TripUpdate_StopTimeEvent{Time: ptr(int64(ts) + int64(g.r.Intn(3)) - 1)}
			}
		}
		u.Departure, u.Arrival = mk(), mk()
		firstTime = u.GetDeparture().GetTime()
		if firstTime == 0 {
			firstTime = u.GetArrival().GetTime()
		}
		firstKnown = firstTime != 0
	}
	m := &gtfsrt.FeedMessage{Header: header(ts), Entity: []*gtfsrt.FeedEntity{{Id: ptr("1"), TripUpdate: tu}}}
	if g.coin(0.12) {
		m.Entity[0].Alert = g.alert(false) // an entity that also carries an alert is still the trip update it carries
	}
	if g.coin(0.2) {
		m.Entity[0].IsDeleted = ptr(g.coin(0.7)) // a flag the parser does not interpret: the entity is processed like any other
	}
	b := marshal(m)
	dm := decodeMsg(b)
	r, err, cr := parseRT(b, nil, cfg)
	ctx.evaluations++
	replay := map[string]any{"message": describeMsg(dm), "config": cfg.coq()}
	if err != nil || cr.panicked || cr.hung {
		ctx.violate("parse-realtime-fails", fmt.Sprint("ParseRealtime failed: ", cr.msg, err), replay)
		return
	}
	wantDropped := cfg.filterStale && !assigned && (!firstKnown || firstTime < int64(ts))
	if wantDropped != (len(r.Trips) == 0) {
		ctx.violate("c16-stale-filter", fmt.Sprintf("stale filter: trip dropped=%v, expected %v (filter=%v assigned=%v first stop time=%d known=%v feed timestamp=%d)",
			len(r.Trips) == 0, wantDropped, cfg.filterStale, assigned, firstTime, firstKnown, ts), replay)
		return
	}
	if len(r.Trips) != 1 {
		return
	}
	t := &r.Trips[0]
	wantDir := gtfs.DirectionID_False
	if hasDir && dir == 3 {
		wantDir = gtfs.DirectionID_True
	}
	if t.ID.DirectionID != wantDir {
		ctx.violate("c16-direction", fmt.Sprintf("direction %v for NYCT direction %d (present=%v)", t.ID.DirectionID, dir, hasDir), replay)
	}
	wantStart := time.Duration(origin*6/10) * time.Second
	if !nyctIDFormat.MatchString(id) {
		// not of the NYCT form (e.g. stray bytes that count as THREE characters between route and direction): no start time is derived
		if t.ID.HasStartTime {
			ctx.violate("c16-start-time", fmt.Sprintf("start time %v derived from trip id %q, which is not of the NYCT form", t.ID.StartTime, id), replay)
		}
	} else if !t.ID.HasStartTime || t.ID.StartTime != wantStart {
		ctx.violate("c16-start-time", fmt.Sprintf("start time %v (has=%v) for origin time %06d, expected %v", t.ID.StartTime, t.ID.HasStartTime, origin, wantStart), replay)
	}
	if assigned && train != "" {
		if t.Vehicle == nil || t.Vehicle.ID == nil || *t.Vehicle.ID != (gtfs.VehicleID{ID: train}) {
			ctx.violate("c16-vehicle-from-train-id", "assigned trip is not linked to a vehicle identified by the train id (and nothing else)", replay)
		}
	}
	if !assigned && tu.Vehicle == nil && t.Vehicle != nil {
		ctx.violate("c16-vehicle-invented", "unassigned trip without vehicle descriptor got a vehicle", replay)
	}
	for i, u := range dm.Entity[0].TripUpdate.StopTimeUpdate {
		var want *string
		if proto.HasExtension(u, gtfsrt.E_NyctStopTimeUpdate) {
			ns := proto.GetExtension(u, gtfsrt.E_NyctStopTimeUpdate).(*gtfsrt.NyctStopTimeUpdate)
			want = ns.ActualTrack
			if want == nil {
				want = ns.ScheduledTrack
			}
		}
		if i < len(t.StopTimeUpdates) && !eqOptStr(t.StopTimeUpdates[i].NyctTrack, want) {
			ctx.violate("c16-track", fmt.Sprintf("stop time %d: track is not the actual track, else the scheduled one", i), replay)
		}
		if i < len(t.StopTimeUpdates) {
			wantStop := u.GetStopId()
			if !cfg.preserveM {
				wantStop = mswapSpec(td.GetRouteId(), wantStop)
			}
			if u.StopId != nil && (t.StopTimeUpdates[i].StopID == nil || *t.StopTimeUpdates[i].StopID != wantStop) {
				ctx.violate("c16-mswap", fmt.Sprintf("stop time %d: stop id %q became %v, expected %q", i, u.GetStopId(), t.StopTimeUpdates[i].StopID, wantStop), replay)
			}
		}
	}
}

func engineRTNyctTrips(ctx *engineCtx) {
	g := &gen{r: ctx.rng}
	n := 250
	if ctx.thorough {
		n = 4000
	}
	ctx.rule = "messages mixing NYCT-extended and plain trip updates / vehicle positions (ids matching and near-missing the NYCT format, all direction values, assigned/unassigned, " +
		"scheduled/actual tracks, route M with swapped and non-platform stops) x 4 option combinations; single-trip messages with the first stop's times at ts-1, ts, ts+1, 0 and absent; " +
		"a sweep of origin times (quick: every 97th of 000000-599999; thorough: all 600000); non-trivial = at least one NYCT entity; distinct = distinct (bytes, config)"
	var cases []string
	seen := map[string]bool{}
	for i := 0; i < n; i++ {
		cfg := g.extCfg(1)
		// (1) derived fields and stale filter on single NYCT trips
		oracleC16Single(g, ctx, cfg)
		// (2) mixed messages: correspondence; transparency for messages without NYCT data
		var m *gtfsrt.FeedMessage
		plain := g.coin(0.35)
		if plain {
			m = g.conflictFree(false, true)
			for _, e := range m.Entity { // make the M-train swap bite
				if e.TripUpdate != nil && g.coin(0.5) {
					e.TripUpdate.Trip.RouteId = ptr("M")
				}
			}
		} else if g.coin(0.5) {
			m = g.conflictFree(true, true)
		} else {
			m = g.wild(true)
		}
		tz := g.rtZone()
		b := marshal(m)
		dm := decodeMsg(b)
		r, err, cr := parseRT(b, tz, cfg)
		ctx.evaluations++
		replay := map[string]any{"message": describeMsg(dm), "zone": cTz(tz), "config": cfg.coq()}
		if err != nil || cr.panicked || cr.hung {
			ctx.violate("parse-realtime-fails", fmt.Sprint("ParseRealtime failed: ", cr.msg, err), replay)
			continue
		}
		key := string(b) + cfg.coq()
		if !seen[key] {
			seen[key] = true
			if hasNyctData(dm) {
				ctx.nontrivial++
			}
		}
		if !hasNyctData(dm) {
			// transparency: same as no extension, on the M-swapped message unless the swap is disabled
			ref := decodeMsg(b)
			if !cfg.preserveM {
				for _, e := range ref.Entity {
					if tu := e.TripUpdate; tu != nil {
						for _, u := range tu.StopTimeUpdate {
							if u.StopId != nil {
								u.StopId = ptr(mswapSpec(tu.Trip.GetRouteId(), *u.StopId))
							}
						}
					}
				}
			}
			rr, rerr, rcr := parseRT(marshal(ref), tz, extCfg{})
			if rerr == nil && !rcr.panicked {
				if cRealtime(rr) != cRealtime(r) {
					ctx.violate("c16-transparency", "a message without NYCT extension data parses differently with the NYCT trips extension than without (beyond the documented M-train swap)", replay)
				}
				// the swap is its own inverse: swapping the swapped stops gives the original message back
				if !cfg.preserveM {
					back := decodeMsg(marshal(ref))
					for _, e := range back.Entity {
						if tu := e.TripUpdate; tu != nil {
							for _, u := range tu.StopTimeUpdate {
								if u.StopId != nil {
									u.StopId = ptr(mswapSpec(tu.Trip.GetRouteId(), *u.StopId))
								}
							}
						}
					}
					r2, e2, c2 := parseRT(marshal(ref), tz, cfg) // extension applied to the already swapped message
					r3, e3, c3 := parseRT(marshal(back), tz, extCfg{})
					if e2 == nil && e3 == nil && !c2.panicked && !c3.panicked && cRealtime(r2) != cRealtime(r3) {
						ctx.violate("c16-mswap-involution", "applying the M-train swap twice does not give the original stops", replay)
					}
				}
			}
		}
		cases = append(cases, rtCase(cfg, tz, dm, r))
		if i < 2 {
			ctx.sample(map[string]any{"message": describeMsg(dm), "config": cfg.coq()})
		}
	}
	// (3) origin-time sweep through the real parser
	step := 97
	if ctx.thorough {
		step = 1
	}
	bad := 0
	for base := 0; base < 600000; base += step * 500 {
		m := &gtfsrt.FeedMessage{Header: header(100)}
		var origins []int
		for o := base; o < base+step*500 && o < 600000; o += step {
			td := &gtfsrt.TripDescriptor{TripId: ptr(fmt.Sprintf("%06d_L..N", o))}
			proto.SetExtension(td, gtfsrt.E_NyctTripDescriptor, &gtfsrt.NyctTripDescriptor{IsAssigned: ptr(true), TrainId: ptr("t")})
			m.Entity = append(m.Entity, &gtfsrt.FeedEntity{Id: ptr(fmt.Sprint(o)), TripUpdate: &gtfsrt.TripUpdate{Trip: td}})
			origins = append(origins, o)
		}
		r, err, cr := parseRT(marshal(m), nil, extCfg{kind: 1})
		if err != nil || cr.panicked || cr.hung || len(r.Trips) != len(origins) {
			ctx.violate("c16-sweep", "origin-time sweep: parse failed or trips missing", map[string]any{"base": base})
			continue
		}
		byID := map[string]*gtfs.Trip{}
		for i := range r.Trips {
			byID[r.Trips[i].ID.ID] = &r.Trips[i]
		}
		for _, o := range origins {
			ctx.evaluations++
			t := byID[fmt.Sprintf("%06d_L..N", o)]
			if t == nil || !t.ID.HasStartTime || t.ID.StartTime != time.Duration(o*6/10)*time.Second {
				bad++
				ctx.violate("c16-start-time", fmt.Sprintf("origin time %06d: start time %v, expected %v", o, t.ID.StartTime, time.Duration(o*6/10)*time.Second), map[string]any{"trip_id": fmt.Sprintf("%06d_L..N", o)})
			}
		}
	}
	ctx.distribution["origin_sweep_step"] = step
	ctx.distribution["messages"] = n
	shard := 40
	for i, k := 0, 0; i < len(cases); i, k = i+shard, k+1 {
		j := i + shard
		if j > len(cases) {
			j = len(cases)
		}
		ctx.caseFile(fmt.Sprintf("rt_C16_%d", k), "Model.RtTypes Model.RtWire Model.Realtime", rtCaseType, rtCaseOk, cases[i:j])
	}
}

// ---- C17 ----
// ids of the form station + optional N/S + '#EL' + elevator; the form is recognised anywhere in the id (leftmost occurrence), so
// an id like "lmm:alert:R25N#EL728" is the elevator alert R25N#EL728
var elevFormat = regexp.MustCompile(`([[:alnum:]]{3}?)([SN]?)#EL(.*)`)

func (g *gen) elevatorFeed() (*gtfsrt.FeedMessage, int) {
	m := &gtfsrt.FeedMessage{Header: header(1700000000)}
	stations := []string{"A27", "E01", "R25", "L03", "127"}
	nEl := 0
	for k := g.r.Intn(8); k > 0; k-- {
		st := stations[g.r.Intn(len(stations))]
		id := st + g.pick([]string{"N", "S", ""}) + "#EL" + g.pick([]string{"123", "9", "200X", ""})
		if g.coin(0.15) { // the same elevator alert republished under a prefixed id
			id = g.pick([]string{"lmm:alert:", "lmm:planned_work:", "x", "XX", "#EL"}) + id
		}
		a := g.alert(true)
		a.InformedEntity = append(a.InformedEntity, &gtfsrt.EntitySelector{StopId: ptr(st + "N")})
		m.Entity = append(m.Entity, &gtfsrt.FeedEntity{Id: ptr(id), Alert: a})
		nEl++
	}
	for k := g.r.Intn(5); k > 0; k-- {
		m.Entity = append(m.Entity, &gtfsrt.FeedEntity{Id: ptr(g.pick(alertIDs[:5]) + fmt.Sprint(k)), Alert: g.alert(true)})
	}
	// entities that carry a vehicle position or trip update besides an alert are not alert entities, whatever their id
	// looks like: they join no elevator group and are parsed as the vehicle / trip they carry
	if g.coin(0.4) {
		for k := 1 + g.r.Intn(2); k > 0; k-- {
			st := stations[g.r.Intn(len(stations))]
			id := st + g.pick([]string{"N", "S", ""}) + "#EL" + g.pick([]string{"123", "9", "200X", ""})
			a := g.alert(true)
			a.InformedEntity = append(a.InformedEntity, &gtfsrt.EntitySelector{StopId: ptr(st + "S")})
			e := &gtfsrt.FeedEntity{Id: ptr(id), Alert: a}
			if g.coin(0.5) {
				e.Vehicle = g.vehiclePosition(1700000000)
				e.Vehicle.Vehicle = &gtfsrt.VehicleDescriptor{Id: ptr(fmt.Sprintf("mixed-%d", k))}
			} else {
				e.TripUpdate = &gtfsrt.TripUpdate{Trip: &gtfsrt.TripDescriptor{TripId: ptr(fmt.Sprintf("mixed-trip-%d", k))}}
			}
			m.Entity = append(m.Entity, e)
		}
	}
	g.r.Shuffle(len(m.Entity), func(i, j int) { m.Entity[i], m.Entity[j] = m.Entity[j], m.Entity[i] })
	return m, nEl
}

func mercuryPriority(s *gtfsrt.EntitySelector) (int, bool) {
	if !proto.HasExtension(s, gtfsrt.E_MercuryEntitySelector) {
		return 0, false
	}
	so := proto.GetExtension(s, gtfsrt.E_MercuryEntitySelector).(*gtfsrt.MercuryEntitySelector).GetSortOrder()
	i := strings.LastIndex(so, ":")
	if i < 0 {
		return 0, false
	}
	p, err := strconv.Atoi(so[i+1:])
	if err != nil {
		return 0, false
	}
	return int(int32(p)), true
}

func oracleC17(dm *gtfsrt.FeedMessage, r *gtfs.Realtime, plain *gtfs.Realtime, cfg extCfg) string {
	// expected elevator groups
	type group struct {
		id    string
		stops []string
	}
	var groups []*group
	byID := map[string]*group{}
	type other struct {
		e *gtfsrt.FeedEntity
	}
	var others []*gtfsrt.FeedEntity
	for _, e := range dm.Entity {
		if e.TripUpdate != nil || e.Vehicle != nil || e.Alert == nil {
			continue
		}
		mt := elevFormat.FindStringSubmatch(e.GetId())
		if mt == nil {
			others = append(others, e)
			continue
		}
		station, platform, elevator := mt[1], mt[1]+mt[2], mt[3]
		var gid string
		switch cfg.policy {
		case 1:
			gid = station + "#EL" + elevator
		case 2:
			gid = "elevator:EL" + elevator
		default:
			gid = platform + "#EL" + elevator
		}
		informed := platform
		if cfg.stationIDs {
			informed = station
		}
		gr := byID[gid]
		if gr == nil {
			gr = &group{id: gid}
			byID[gid] = gr
			groups = append(groups, gr)
		}
		if !contains(gr.stops, informed) {
			gr.stops = append(gr.stops, informed)
		}
	}
	// output alerts: elevator groups ...
	got := map[string]*gtfs.Alert{}
	for i := range r.Alerts {
		a := &r.Alerts[i]
		if _, dup := got[a.ID]; dup && byID[a.ID] != nil {
			return "two output alerts for elevator group " + a.ID
		}
		got[a.ID] = a
	}
	for _, gr := range groups {
		a := got[gr.id]
		if a == nil {
			return "no output alert with the documented id " + gr.id
		}
		if a.Cause != gtfs.Maintenance || a.Effect != gtfs.AccessibilityIssue {
			return "elevator alert " + gr.id + " does not have cause maintenance / effect accessibility issue"
		}
		var stops []string
		for _, ie := range a.InformedEntities {
			if ie.StopID == nil || ie.RouteID != nil || ie.AgencyID != nil || ie.TripID != nil {
				return "elevator alert " + gr.id + " informs something other than stops"
			}
			stops = append(stops, *ie.StopID)
		}
		ws := append([]string{}, gr.stops...)
		gs := append([]string{}, stops...)
		sort.Strings(ws)
		sort.Strings(gs)
		if !reflect.DeepEqual(ws, gs) {
			return fmt.Sprintf("elevator alert %s informs stops %v, expected exactly the distinct ids %v", gr.id, stops, gr.stops)
		}
	}
	// ... and the other alerts
	nOut := len(groups)
	for _, e := range others {
		timetabled, hasMercury := false, proto.HasExtension(e.Alert, gtfsrt.E_MercuryAlert)
		nPrio := 0
		for _, s := range e.Alert.InformedEntity {
			if p, ok := mercuryPriority(s); ok {
				nPrio++
				if p == 2 || p == 3 || p == 4 { // NO_MIDDAY / NO_OVERNIGHT / NO_WEEKEND service
					timetabled = true
				}
			}
		}
		a := got[e.GetId()]
		dropped := cfg.skip && timetabled
		if dropped {
			if a != nil && countAlertID(dm, e.GetId()) == 1 {
				return "timetabled no-service alert " + e.GetId() + " not dropped although the option is set"
			}
			continue
		}
		nOut++
		if a == nil {
			return "alert " + e.GetId() + " missing from the output"
		}
		if countAlertID(dm, e.GetId()) != 1 {
			continue
		}
		wantCause := e.Alert.GetCause()
		if strings.HasPrefix(e.GetId(), "lmm:planned_work") {
			wantCause = gtfsrt.Alert_MAINTENANCE
		} else if strings.HasPrefix(e.GetId(), "lmm:alert") {
			wantCause = gtfsrt.Alert_TECHNICAL_PROBLEM
		}
		if a.Cause != wantCause {
			return "alert " + e.GetId() + ": cause not set from the id prefix"
		}
		nMeta := 0
		for _, d := range a.Description {
			if d.Language == "github.com/jamespfennell/gtfs/extensions/nyctalerts/Metadata" {
				nMeta++
			}
		}
		_, okMeta := metadataJSON(e.Alert)
		wantMeta := 0
		for _, tr := range e.Alert.GetDescriptionText().GetTranslation() { // translations the feed itself already carries in that language pass through
			if tr.GetLanguage() == "github.com/jamespfennell/gtfs/extensions/nyctalerts/Metadata" {
				wantMeta++
			}
		}
		if cfg.addMet && hasMercury && okMeta {
			wantMeta++
		}
		if nMeta != wantMeta {
			return fmt.Sprintf("alert %s: %d metadata descriptions, expected %d (requested=%v, has NYCT data=%v)", e.GetId(), nMeta, wantMeta, cfg.addMet, hasMercury)
		}
		// passthrough: no NYCT data at all => as without extension, apart from the cause
		if nPrio == 0 && !hasMercury && plain != nil {
			for i := range plain.Alerts {
				if plain.Alerts[i].ID == e.GetId() {
					p := plain.Alerts[i]
					p.Cause = a.Cause
					if cAlert(&p) != cAlert(a) {
						return "alert " + e.GetId() + " carries no NYCT data and no elevator id but is not passed through unchanged"
					}
				}
			}
		}
	}
	if nOut != len(r.Alerts) {
		return fmt.Sprintf("%d output alerts, expected %d (one per elevator group + the other alerts not dropped)", len(r.Alerts), nOut)
	}
	return ""
}
func countAlertID(m *gtfsrt.FeedMessage, id string) int {
	n := 0
	for _, e := range m.Entity {
		if e.GetId() == id {
			n++
		}
	}
	return n
}

func engineRTNyctAlerts(ctx *engineCtx) {
	g := &gen{r: ctx.rng}
	n := 300
	if ctx.thorough {
		n = 5000
	}
	ctx.rule = "alert feeds: 0-7 elevator alerts over 5 stations x platforms N/S/none x 4 elevators in random order, mixed with 0-4 other alerts (lmm: prefixes, every Mercury priority 1-42 and malformed sort orders, " +
		"Mercury alert data present/absent) x 3 deduplication policies x station-id flag x skip flag x metadata flag; a 'wild' stream with ids near the elevator pattern for the model; " +
		"each message is also parsed in a second entity order (group membership must not depend on order); non-trivial = at least 2 elevator alerts in one group or one Mercury priority; distinct = distinct (bytes, config)"
	var cases []string
	seen := map[string]bool{}
	for i := 0; i < n; i++ {
		cfg := g.extCfg(2)
		var m *gtfsrt.FeedMessage
		wild := g.coin(0.2)
		nEl := 0
		if wild {
			m = g.wild(true)
		} else {
			m, nEl = g.elevatorFeed()
		}
		tz := g.rtZone()
		b := marshal(m)
		dm := decodeMsg(b)
		r, err, cr := parseRT(b, tz, cfg)
		ctx.evaluations++
		replay := map[string]any{"message": describeMsg(dm), "zone": cTz(tz), "config": cfg.coq()}
		if err != nil || cr.panicked || cr.hung {
			ctx.violate("parse-realtime-fails", fmt.Sprint("ParseRealtime failed: ", cr.msg, err), replay)
			continue
		}
		key := string(b) + cfg.coq()
		if !seen[key] {
			seen[key] = true
			if nEl >= 2 {
				ctx.nontrivial++
			}
		}
		if !wild {
			plain, _, _ := parseRT(b, tz, extCfg{})
			if msg := oracleC17(dm, r, plain, cfg); msg != "" {
				ctx.violate("c17-grouping", msg, replay)
			}
			// member order: same groups and same stop sets under a permutation
			pm := permuteEntities(g, dm, 1)
			pr, perr, pcr := parseRT(marshal(pm), tz, cfg)
			if perr == nil && !pcr.panicked {
				if msg := oracleC17(pm, pr, nil, cfg); msg != "" {
					ctx.violate("c17-grouping-permuted", msg, map[string]any{"message": describeMsg(pm), "config": cfg.coq()})
				}
				cases = append(cases, rtCase(cfg, tz, pm, pr))
			}
		}
		cases = append(cases, rtCase(cfg, tz, dm, r))
		if i < 2 {
			ctx.sample(map[string]any{"message": describeMsg(dm), "config": cfg.coq(), "alerts_out": len(r.Alerts)})
		}
	}
	ctx.distribution["messages"] = n
	shard := 40
	for i, k := 0, 0; i < len(cases); i, k = i+shard, k+1 {
		j := i + shard
		if j > len(cases) {
			j = len(cases)
		}
		ctx.caseFile(fmt.Sprintf("rt_C17_%d", k), "Model.RtTypes Model.RtWire Model.Realtime", rtCaseType, rtCaseOk, cases[i:j])
	}
}
