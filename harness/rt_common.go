package main

// Shared by the realtime engines (C02, C04, C05, C06, C07, C12, C16, C17): extension configurations, emission of the
// decoded message tree (Model/RtWire.v) and projection of *gtfs.Realtime (Model/RtTypes.v) as Coq terms.

import (
	"encoding/json"
	"fmt"
	"math"
	"regexp"
	"sort"
	"strconv"
	"strings"
	"time"

	"github.com/jamespfennell/gtfs"
	"github.com/jamespfennell/gtfs/extensions"
	"github.com/jamespfennell/gtfs/extensions/nyctalerts"
	"github.com/jamespfennell/gtfs/extensions/nycttrips"
	gtfsrt "github.com/jamespfennell/gtfs/proto"
	"google.golang.org/protobuf/proto"
)

type extCfg struct {
	kind                     int // 0 none, 1 nycttrips, 2 nyctalerts
	filterStale, preserveM   bool
	policy                   int // 0 none, 1 station, 2 complex
	stationIDs, skip, addMet bool
}

func (c extCfg) ext() extensions.Extension {
	switch c.kind {
	case 1:
		return nycttrips.Extension(nycttrips.ExtensionOpts{FilterStaleUnassignedTrips: c.filterStale, PreserveMTrainPlatformsInBushwick: c.preserveM})
	case 2:
		pol := nyctalerts.NoDeduplication
		if c.policy == 1 {
			pol = nyctalerts.DeduplicateInStation
		} else if c.policy == 2 {
			pol = nyctalerts.DeduplicateInComplex
		}
		return nyctalerts.Extension(nyctalerts.ExtensionOpts{ElevatorAlertsDeduplicationPolicy: pol, ElevatorAlertsInformUsingStationIDs: c.stationIDs,
			SkipTimetabledNoServiceAlerts: c.skip, AddNyctMetadata: c.addMet})
	}
	return nil
}
func (c extCfg) coq() string {
	switch c.kind {
	case 1:
		return fmt.Sprintf("(NyctTrips %s %s)", cBool(c.filterStale), cBool(c.preserveM))
	case 2:
		return fmt.Sprintf("(NyctAlerts %d %s %s %s)", c.policy, cBool(c.stationIDs), cBool(c.skip), cBool(c.addMet))
	}
	return "NoExt"
}
func (c extCfg) String() string { return c.coq() }
func (g *gen) extCfg(kind int) extCfg {
	return extCfg{kind: kind, filterStale: g.coin(0.5), preserveM: g.coin(0.5), policy: g.r.Intn(3), stationIDs: g.coin(0.5), skip: g.coin(0.5), addMet: g.coin(0.5)}
}

func parseRT(b []byte, tz *time.Location, cfg extCfg) (*gtfs.Realtime, error, callResult) {
	var res *gtfs.Realtime
	var err error
	r := guarded(20*time.Second, func() {
		res, err = gtfs.ParseRealtime(b, &gtfs.ParseRealtimeOptions{Timezone: tz, Extension: cfg.ext()})
	})
	return res, err, r
}

// ---- wire tree ----
func cOptI64(p *int64) string {
	if p == nil {
		return "None"
	}
	return cSome(cZ(*p))
}
func cOptU64(p *uint64) string {
	if p == nil {
		return "None"
	}
	return cSome(cU(*p))
}
func cOptBool(p *bool) string {
	if p == nil {
		return "None"
	}
	return cSome(cBool(*p))
}
func cOptF32(p *float32) string {
	if p == nil {
		return "None"
	}
	return cSome(cU(uint64(math.Float32bits(*p))))
}
func cOptF64(p *float64) string {
	if p == nil {
		return "None"
	}
	return cSome(cU(math.Float64bits(*p)))
}

func wTripDesc(td *gtfsrt.TripDescriptor) string {
	nyct := "None"
	if proto.HasExtension(td, gtfsrt.E_NyctTripDescriptor) {
		n := proto.GetExtension(td, gtfsrt.E_NyctTripDescriptor).(*gtfsrt.NyctTripDescriptor)
		dir := "None"
		if n.Direction != nil {
			dir = cSome(cZ(int64(*n.Direction)))
		}
		nyct = cSome(cRec(field{"nt_train_id", cOptStr(n.TrainId)}, field{"nt_is_assigned", cOptBool(n.IsAssigned)}, field{"nt_direction", dir}))
	}
	rel := "None"
	if td.ScheduleRelationship != nil {
		rel = cSome(cZ(int64(*td.ScheduleRelationship)))
	}
	return cRec(field{"td_trip_id", cOptStr(td.TripId)}, field{"td_route_id", cOptStr(td.RouteId)}, field{"td_direction_id", cOptU32(td.DirectionId)},
		field{"td_start_time", cOptStr(td.StartTime)}, field{"td_start_date", cOptStr(td.StartDate)}, field{"td_rel", rel}, field{"td_nyct", nyct})
}
func wOptTripDesc(td *gtfsrt.TripDescriptor) string {
	if td == nil {
		return "None"
	}
	return cSome(wTripDesc(td))
}
func wOptVehDesc(v *gtfsrt.VehicleDescriptor) string {
	if v == nil {
		return "None"
	}
	return cSome(cRec(field{"vd_id", cOptStr(v.Id)}, field{"vd_label", cOptStr(v.Label)}, field{"vd_plate", cOptStr(v.LicensePlate)}))
}
func wEvent(e *gtfsrt.TripUpdate_StopTimeEvent) string {
	if e == nil {
		return "None"
	}
	return cSome(cRec(field{"se_delay", cOptI32(e.Delay)}, field{"se_time", cOptI64(e.Time)}, field{"se_unc", cOptI32(e.Uncertainty)}))
}
func wStu(u *gtfsrt.TripUpdate_StopTimeUpdate) string {
	nyct := "None"
	if proto.HasExtension(u, gtfsrt.E_NyctStopTimeUpdate) {
		n := proto.GetExtension(u, gtfsrt.E_NyctStopTimeUpdate).(*gtfsrt.NyctStopTimeUpdate)
		nyct = cSome(cRec(field{"ns_sched", cOptStr(n.ScheduledTrack)}, field{"ns_actual", cOptStr(n.ActualTrack)}))
	}
	rel := "None"
	if u.ScheduleRelationship != nil {
		rel = cSome(cZ(int64(*u.ScheduleRelationship)))
	}
	return cRec(field{"stu_seq", cOptU32(u.StopSequence)}, field{"stu_stop", cOptStr(u.StopId)}, field{"stu_arr", wEvent(u.Arrival)}, field{"stu_dep", wEvent(u.Departure)},
		field{"stu_rel", rel}, field{"stu_nyct", nyct})
}
func wTranslated(ts *gtfsrt.TranslatedString) string {
	var out []string
	for _, t := range ts.GetTranslation() {
		out = append(out, cPair(cStr(t.GetText()), cStr(t.GetLanguage())))
	}
	return cList(out)
}
func metadataJSON(alert *gtfsrt.Alert) (string, bool) {
	if !proto.HasExtension(alert, gtfsrt.E_MercuryAlert) {
		return "", false
	}
	n := proto.GetExtension(alert, gtfsrt.E_MercuryAlert).(*gtfsrt.MercuryAlert)
	md := nyctalerts.Metadata{CreatedAt: time.Unix(int64(n.GetCreatedAt()), 0), UpdatedAt: time.Unix(int64(n.GetUpdatedAt()), 0),
		DisplayBeforeActive: time.Duration(n.GetDisplayBeforeActive()) * time.Second}
	if tr := n.GetHumanReadableActivePeriod().GetTranslation(); len(tr) > 0 {
		md.HumanReadableActivePeriod = tr[0].GetText()
	}
	b, err := json.Marshal(&md)
	if err != nil {
		return "", false // the code then adds no metadata: same as "extension absent" for the model
	}
	return string(b), true
}
func wAlert(a *gtfsrt.Alert) string {
	var periods, sels []string
	for _, p := range a.GetActivePeriod() {
		periods = append(periods, cPair(cOptU64(p.Start), cOptU64(p.End)))
	}
	for _, s := range a.GetInformedEntity() {
		merc := "None"
		if proto.HasExtension(s, gtfsrt.E_MercuryEntitySelector) {
			merc = cSome(cStr(proto.GetExtension(s, gtfsrt.E_MercuryEntitySelector).(*gtfsrt.MercuryEntitySelector).GetSortOrder()))
		}
		sels = append(sels, cRec(field{"sl_agency", cOptStr(s.AgencyId)}, field{"sl_route", cOptStr(s.RouteId)}, field{"sl_route_type", cOptI32(s.RouteType)},
			field{"sl_trip", wOptTripDesc(s.Trip)}, field{"sl_stop", cOptStr(s.StopId)}, field{"sl_direction", cOptU32(s.DirectionId)}, field{"sl_mercury", merc}))
	}
	cause, effect := "None", "None"
	if a.Cause != nil {
		cause = cSome(cZ(int64(*a.Cause)))
	}
	if a.Effect != nil {
		effect = cSome(cZ(int64(*a.Effect)))
	}
	md := "None"
	if js, ok := metadataJSON(a); ok {
		md = cSome(cStr(js))
	}
	return cRec(field{"wa_periods", cList(periods)}, field{"wa_informed", cList(sels)}, field{"wa_cause", cause}, field{"wa_effect", effect},
		field{"wa_url", wTranslated(a.Url)}, field{"wa_header", wTranslated(a.HeaderText)}, field{"wa_desc", wTranslated(a.DescriptionText)}, field{"wa_metadata", md})
}
func wEntity(e *gtfsrt.FeedEntity) string {
	tu, vp, al := "None", "None", "None"
	if t := e.TripUpdate; t != nil {
		var stus []string
		for _, u := range t.StopTimeUpdate {
			stus = append(stus, wStu(u))
		}
		tu = cSome(cRec(field{"tu_trip", wTripDesc(t.Trip)}, field{"tu_vehicle", wOptVehDesc(t.Vehicle)}, field{"tu_stus", cList(stus)}))
	}
	if v := e.Vehicle; v != nil {
		pos := "None"
		if p := v.Position; p != nil {
			pos = cSome(cRec(field{"ps_lat", cOptF32(p.Latitude)}, field{"ps_lon", cOptF32(p.Longitude)}, field{"ps_bearing", cOptF32(p.Bearing)},
				field{"ps_odo", cOptF64(p.Odometer)}, field{"ps_speed", cOptF32(p.Speed)}))
		}
		st, cong, occ := "None", "None", "None"
		if v.CurrentStatus != nil {
			st = cSome(cZ(int64(*v.CurrentStatus)))
		}
		if v.CongestionLevel != nil {
			cong = cSome(cZ(int64(*v.CongestionLevel)))
		}
		if v.OccupancyStatus != nil {
			occ = cSome(cZ(int64(*v.OccupancyStatus)))
		}
		vp = cSome(cRec(field{"vp_trip", wOptTripDesc(v.Trip)}, field{"vp_vehicle", wOptVehDesc(v.Vehicle)}, field{"vp_position", pos},
			field{"vp_seq", cOptU32(v.CurrentStopSequence)}, field{"vp_stop", cOptStr(v.StopId)}, field{"vp_status", st}, field{"vp_ts", cOptU64(v.Timestamp)},
			field{"vp_cong", cong}, field{"vp_occ", occ}, field{"vp_occ_pct", cOptU32(v.OccupancyPercentage)}))
	}
	if a := e.Alert; a != nil {
		al = cSome(wAlert(a))
	}
	return cRec(field{"e_id", cStr(e.GetId())}, field{"e_tu", tu}, field{"e_vp", vp}, field{"e_alert", al})
}
func wMessage(m *gtfsrt.FeedMessage) string {
	var es []string
	for _, e := range m.Entity {
		es = append(es, wEntity(e))
	}
	return cRec(field{"fm_ts", cOptU64(m.GetHeader().Timestamp)}, field{"fm_entities", cList(es)})
}

var date8 = regexp.MustCompile(`^[0-9]{8}$`)

// the civil-midnight oracle table for every start_date lexeme of the message, in the zone of the parse
func cmTable(m *gtfsrt.FeedMessage, tz *time.Location) string {
	return cmTableMsgs([]*gtfsrt.FeedMessage{m}, tz)
}
func cmTableMsgs(ms []*gtfsrt.FeedMessage, tz *time.Location) string {
	if tz == nil {
		tz = time.UTC
	}
	seen := map[string]bool{}
	var rows []string
	add := func(td *gtfsrt.TripDescriptor) {
		if td == nil || td.StartDate == nil || !date8.MatchString(*td.StartDate) || seen[*td.StartDate] {
			return
		}
		s := *td.StartDate
		seen[s] = true
		y, _ := strconv.Atoi(s[0:4])
		mo, _ := strconv.Atoi(s[4:6])
		d, _ := strconv.Atoi(s[6:8])
		rows = append(rows, fmt.Sprintf("((%d, %d, %d), %s)", y, mo, d, cZ(time.Date(y, time.Month(mo), d, 0, 0, 0, 0, tz).Unix())))
	}
	for _, m := range ms {
		if m == nil {
			continue
		}
		for _, e := range m.Entity {
			add(e.GetTripUpdate().GetTrip())
			add(e.GetVehicle().GetTrip())
			for _, s := range e.GetAlert().GetInformedEntity() {
				add(s.Trip)
			}
		}
	}
	sort.Strings(rows)
	return cList(rows)
}
func cTz(tz *time.Location) string {
	if tz == nil {
		return "None"
	}
	return cSome(cStr(tz.String()))
}

// ---- results ----
func cVehicle(v *gtfs.Vehicle) string {
	// cVehicleH (eng_hash.go) builds {| hv := ...; hv_trip := ... |}; here only the rt_vehicle record is needed
	s := cVehicleH(&gtfs.Vehicle{ID: v.ID, Position: v.Position, CurrentStopSequence: v.CurrentStopSequence, StopID: v.StopID, CurrentStatus: v.CurrentStatus,
		Timestamp: v.Timestamp, CongestionLevel: v.CongestionLevel, OccupancyStatus: v.OccupancyStatus, OccupancyPercentage: v.OccupancyPercentage, IsEntityInMessage: v.IsEntityInMessage})
	// strip the wrapper: "{| hv := X; hv_trip := None |}"
	s = strings.TrimPrefix(s, "{| hv := ")
	s = strings.TrimSuffix(s, "; hv_trip := None |}")
	if v.Trip != nil {
		s = strings.Replace(s, "ve_trip := None", "ve_trip := "+cSome(cTripKey(&v.Trip.ID)), 1)
	}
	return s
}
func cInformed(e *gtfs.AlertInformedEntity) string {
	tk := "None"
	if e.TripID != nil {
		tk = cSome(cTripKey(e.TripID))
	}
	return cRec(field{"ie_agency", cOptStr(e.AgencyID)}, field{"ie_route", cOptStr(e.RouteID)}, field{"ie_route_type", cZ(int64(e.RouteType))},
		field{"ie_dir", cZ(int64(e.DirectionID))}, field{"ie_trip", tk}, field{"ie_stop", cOptStr(e.StopID)})
}
func cTexts(ts []gtfs.AlertText) string {
	var out []string
	for _, t := range ts {
		out = append(out, cPair(cStr(t.Text), cStr(t.Language)))
	}
	return cList(out)
}
func cAlert(a *gtfs.Alert) string {
	var ps, ies []string
	for _, p := range a.ActivePeriods {
		ps = append(ps, cPair(cOptInstant(p.StartsAt), cOptInstant(p.EndsAt)))
	}
	for i := range a.InformedEntities {
		ies = append(ies, cInformed(&a.InformedEntities[i]))
	}
	return cRec(field{"al_id", cStr(a.ID)}, field{"al_cause", cZ(int64(a.Cause))}, field{"al_effect", cZ(int64(a.Effect))}, field{"al_periods", cList(ps)},
		field{"al_informed", cList(ies)}, field{"al_header", cTexts(a.Header)}, field{"al_desc", cTexts(a.Description)}, field{"al_url", cTexts(a.URL)})
}
func cRealtime(r *gtfs.Realtime) string {
	var ts, vs, as []string
	for i := range r.Trips {
		ts = append(ts, cTrip(&r.Trips[i]))
	}
	for i := range r.Vehicles {
		vs = append(vs, cVehicle(&r.Vehicles[i]))
	}
	for i := range r.Alerts {
		as = append(as, cAlert(&r.Alerts[i]))
	}
	return cRec(field{"rt_created", cInstant(r.CreatedAt)}, field{"rt_trips", cList(ts)}, field{"rt_vehicles", cList(vs)}, field{"rt_alerts", cList(as)})
}

// one correspondence case: (cfg, tz, cm table, message, observed result)
func rtCase(cfg extCfg, tz *time.Location, m *gtfsrt.FeedMessage, r *gtfs.Realtime) string {
	return cPair(cPair(cfg.coq(), cPair(cTz(tz), cmTable(m, tz))), cPair(wMessage(m), cRealtime(r)))
}

const rtCaseType = "((ext_cfg * (option string * list ((Z * Z * Z) * Z))) * (feed_message * realtime))"
const rtCaseOk = "fun c => let '((cfg, (tz, tbl)), (m, r)) := c in " +
	"let cm := fun y mo d => match find (fun e => let '((y', m', d'), _) := e in (y =? y') && (mo =? m') && (d =? d')) tbl with Some (_, v) => v | None => 0 end in " +
	"if realtime_eq_dec (parse_message cm tz cfg m) r then true else false"

func decodeMsg(b []byte) *gtfsrt.FeedMessage {
	m := &gtfsrt.FeedMessage{}
	if err := proto.Unmarshal(b, m); err != nil {
		return nil
	}
	return m
}
