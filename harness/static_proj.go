package main

// Projection of *gtfs.Static to the Coq record of Model/Static.v (pointers -> indices BY ADDRESS), the oracle tables
// (ParseFloat bits, dates per zone), a canonical text dump of a result, and `denote`: the result a well-formed abstract
// feed must produce, computed independently from the property text.

import (
	"fmt"
	"math"
	"sort"
	"strconv"
	"strings"
	"time"

	"github.com/jamespfennell/gtfs"
	"github.com/jamespfennell/gtfs/warnings"
)

const foreign = 999999 // a pointer that is not into the result's own slice

func idxAgency(s *gtfs.Static, p *gtfs.Agency) int {
	for i := range s.Agencies {
		if &s.Agencies[i] == p {
			return i
		}
	}
	return foreign
}
func idxStop(s *gtfs.Static, p *gtfs.Stop) int {
	for i := range s.Stops {
		if &s.Stops[i] == p {
			return i
		}
	}
	return foreign
}
func idxRoute(s *gtfs.Static, p *gtfs.Route) int {
	for i := range s.Routes {
		if &s.Routes[i] == p {
			return i
		}
	}
	return foreign
}
func idxService(s *gtfs.Static, p *gtfs.Service) int {
	for i := range s.Services {
		if &s.Services[i] == p {
			return i
		}
	}
	return foreign
}
func idxShape(s *gtfs.Static, p *gtfs.Shape) int {
	for i := range s.Shapes {
		if &s.Shapes[i] == p {
			return i
		}
	}
	return foreign
}

func f64bits(p *float64) string {
	if p == nil {
		return "None"
	}
	return cSome(cU(math.Float64bits(*p)))
}
func optNat(i int, present bool) string {
	if !present {
		return "None"
	}
	return cSome(cNat(i))
}
func cStrList(l []string) string {
	var out []string
	for _, s := range l {
		out = append(out, cStr(s))
	}
	return cList(out)
}

func cStatic(s *gtfs.Static) string {
	var ag, ro, st, tr, sv, tp, sh, ws []string
	for i := range s.Agencies {
		a := &s.Agencies[i]
		ag = append(ag, cRec(field{"ag_id", cStr(a.Id)}, field{"ag_name", cStr(a.Name)}, field{"ag_url", cStr(a.Url)}, field{"ag_timezone", cStr(a.Timezone)},
			field{"ag_lang", cStr(a.Language)}, field{"ag_phone", cStr(a.Phone)}, field{"ag_fare_url", cStr(a.FareUrl)}, field{"ag_email", cStr(a.Email)}))
	}
	for i := range s.Routes {
		r := &s.Routes[i]
		ro = append(ro, cRec(field{"r_id", cStr(r.Id)}, field{"r_agency", cNat(idxAgency(s, r.Agency))}, field{"r_color", cStr(r.Color)}, field{"r_text_color", cStr(r.TextColor)},
			field{"r_short", cStr(r.ShortName)}, field{"r_long", cStr(r.LongName)}, field{"r_desc", cStr(r.Description)}, field{"r_type", cZ(int64(r.Type))}, field{"r_url", cStr(r.Url)},
			field{"r_sort_order", cOptI32(r.SortOrder)}, field{"r_cpickup", cZ(int64(r.ContinuousPickup))}, field{"r_cdropoff", cZ(int64(r.ContinuousDropOff))}))
	}
	for i := range s.Stops {
		x := &s.Stops[i]
		st = append(st, cRec(field{"s_id", cStr(x.Id)}, field{"s_code", cStr(x.Code)}, field{"s_name", cStr(x.Name)}, field{"s_desc", cStr(x.Description)}, field{"s_zone", cStr(x.ZoneId)},
			field{"s_lon", f64bits(x.Longitude)}, field{"s_lat", f64bits(x.Latitude)}, field{"s_url", cStr(x.Url)}, field{"s_type", cZ(int64(x.Type))},
			field{"s_parent", optNat(idxStop(s, x.Parent), x.Parent != nil)}, field{"s_timezone", cStr(x.Timezone)}, field{"s_wheelchair", cZ(int64(x.WheelchairBoarding))}, field{"s_platform", cStr(x.PlatformCode)}))
	}
	for i := range s.Transfers {
		t := &s.Transfers[i]
		tr = append(tr, cRec(field{"t_from", cNat(idxStop(s, t.From))}, field{"t_to", cNat(idxStop(s, t.To))}, field{"t_type", cZ(int64(t.Type))}, field{"t_min_time", cOptI32(t.MinTransferTime)}))
	}
	unixList := func(ts []time.Time) string {
		var out []string
		for _, t := range ts {
			out = append(out, cZ(t.Unix()))
		}
		return cList(out)
	}
	for i := range s.Services {
		v := &s.Services[i]
		days := []string{cBool(v.Monday), cBool(v.Tuesday), cBool(v.Wednesday), cBool(v.Thursday), cBool(v.Friday), cBool(v.Saturday), cBool(v.Sunday)}
		sv = append(sv, cRec(field{"sv_id", cStr(v.Id)}, field{"sv_days", cList(days)}, field{"sv_start", cZ(v.StartDate.Unix())}, field{"sv_end", cZ(v.EndDate.Unix())},
			field{"sv_added", unixList(v.AddedDates)}, field{"sv_removed", unixList(v.RemovedDates)}))
	}
	for i := range s.Shapes {
		x := &s.Shapes[i]
		var pts []string
		for _, p := range x.Points {
			pts = append(pts, fmt.Sprintf("(%d, %d, %s)", math.Float64bits(p.Latitude), math.Float64bits(p.Longitude), f64bits(p.Distance)))
		}
		sh = append(sh, cRec(field{"sh_id", cStr(x.ID)}, field{"sh_points", cList(pts)}))
	}
	for i := range s.Trips {
		t := &s.Trips[i]
		var sts, fqs []string
		for k := range t.StopTimes {
			x := &t.StopTimes[k]
			sts = append(sts, cRec(field{"st_stop", cNat(idxStop(s, x.Stop))}, field{"st_arr", cZ(int64(x.ArrivalTime))}, field{"st_dep", cZ(int64(x.DepartureTime))}, field{"st_seq", cZ(int64(x.StopSequence))},
				field{"st_headsign", cStr(x.Headsign)}, field{"st_pickup", cZ(int64(x.PickupType))}, field{"st_dropoff", cZ(int64(x.DropOffType))}, field{"st_cpickup", cZ(int64(x.ContinuousPickup))},
				field{"st_cdropoff", cZ(int64(x.ContinuousDropOff))}, field{"st_dist", f64bits(x.ShapeDistanceTraveled)}, field{"st_exact", cBool(x.ExactTimes)}))
		}
		for _, q := range t.Frequencies {
			fqs = append(fqs, cRec(field{"f_start", cZ(int64(q.StartTime))}, field{"f_end", cZ(int64(q.EndTime))}, field{"f_headway", cZ(int64(q.Headway))}, field{"f_exact", cZ(int64(q.ExactTimes))}))
		}
		tp = append(tp, cRec(field{"tp_route", cNat(idxRoute(s, t.Route))}, field{"tp_service", cNat(idxService(s, t.Service))}, field{"tp_id", cStr(t.ID)}, field{"tp_headsign", cStr(t.Headsign)},
			field{"tp_short", cStr(t.ShortName)}, field{"tp_dir", cZ(int64(t.DirectionId))}, field{"tp_block", cStr(t.BlockID)}, field{"tp_wheelchair", cZ(int64(t.WheelchairAccessible))},
			field{"tp_bikes", cZ(int64(t.BikesAllowed))}, field{"tp_stop_times", cList(sts)}, field{"tp_shape", optNat(idxShape(s, t.Shape), t.Shape != nil)}, field{"tp_freqs", cList(fqs)}))
	}
	for _, w := range s.Warnings {
		kind, aid := "?", ""
		var cols []string
		switch k := w.Kind.(type) {
		case warnings.AgencyMissingValues:
			kind, aid, cols = "AgencyMissingValues", k.AgencyID, k.Columns
		case warnings.MissingColumns:
			kind, cols = "MissingColumns", k.Columns
		}
		ws = append(ws, cRec(field{"w_kind", cStr(kind)}, field{"w_agency_id", cStr(aid)}, field{"w_columns", cStrList(cols)}, field{"w_file", cStr(string(w.File))},
			field{"w_row", cNat(w.RowNumber)}, field{"w_content", cStrList(w.RowContent)}, field{"w_header", cStrList(w.HeaderContent)}))
	}
	return cRec(field{"x_agencies", cList(ag)}, field{"x_routes", cList(ro)}, field{"x_stops", cList(st)}, field{"x_transfers", cList(tr)}, field{"x_services", cList(sv)},
		field{"x_trips", cList(tp)}, field{"x_shapes", cList(sh)}, field{"x_warnings", cList(ws)})
}

// ---- oracle tables for the model: every cell of every member is a candidate lexeme (the model decides which ones it asks for) ----
func cellsOf(ms []member) map[string]bool {
	out := map[string]bool{}
	for _, m := range ms {
		if !strings.HasSuffix(m.name, ".txt") {
			continue
		}
		rows := tokenizeLoose(m.content)
		for _, r := range rows {
			for _, c := range r {
				out[c] = true
			}
		}
	}
	return out
}

// a forgiving splitter used only to enumerate candidate lexemes (quotes handled roughly; over-approximation is harmless)
func tokenizeLoose(s string) [][]string {
	s = strings.TrimPrefix(s, "\xef\xbb\xbf")
	var rows [][]string
	var row []string
	var cell strings.Builder
	inq := false
	flush := func() { row = append(row, cell.String()); cell.Reset() }
	for i := 0; i < len(s); i++ {
		c := s[i]
		switch {
		case inq && c == '"' && i+1 < len(s) && s[i+1] == '"':
			cell.WriteByte('"')
			i++
		case c == '"':
			inq = !inq
		case !inq && c == ',':
			flush()
		case !inq && c == '\n':
			flush()
			rows = append(rows, row)
			row = nil
		case c == '\r' && i+1 < len(s) && s[i+1] == '\n':
		default:
			cell.WriteByte(c)
		}
	}
	flush()
	rows = append(rows, row)
	return rows
}

func floatTable(lex map[string]bool) string {
	var rows []string
	for s := range lex {
		if s == "" || len(s) > 40 {
			continue
		}
		if f, err := strconv.ParseFloat(strings.TrimSpace(s), 64); err == nil {
			rows = append(rows, cPair(cStr(s), cU(math.Float64bits(f))))
		}
	}
	sort.Strings(rows)
	return cList(rows)
}
func zoneOrUTC(name string) *time.Location {
	l, err := time.LoadLocation(name)
	if err != nil {
		return time.UTC
	}
	return l
}
func dateTable(lex map[string]bool, zones []string) string {
	var rows []string
	for _, z := range zones {
		loc := zoneOrUTC(z)
		for s := range lex {
			if len(s) > 12 {
				continue
			}
			if t, err := time.ParseInLocation("20060102", s, loc); err == nil {
				rows = append(rows, cPair(cPair(cStr(z), cStr(s)), cZ(t.Unix())))
			}
		}
	}
	sort.Strings(rows)
	return cList(rows)
}

const staticCaseType = "(((bool * (list (string * Z) * list ((string * string) * Z))) * list (string * string)) * option static)"
const staticCaseOk = "fun c => let '(((inherit, (ft, dt)), ms), want) := c in " +
	"let pf := fun s => match find (fun e => String.eqb (fst e) s) ft with Some e => Some (snd e) | None => None end in " +
	"let di := fun z s => match find (fun e => String.eqb (fst (fst e)) z && String.eqb (snd (fst e)) s) dt with Some e => Some (snd e) | None => None end in " +
	"match parse_static pf di inherit ms, want with Ok r, Some w => if static_eq_dec r w then true else false | Err _, None => true | _, _ => false end"

func staticCase(inherit bool, ms []member, s *gtfs.Static, zones []string) string {
	lex := cellsOf(ms)
	var mm []string
	for _, m := range ms {
		mm = append(mm, cPair(cStr(m.name), cStr(m.content)))
	}
	want := "None"
	if s != nil {
		want = cSome(cStatic(s))
	}
	return cPair(cPair(cPair(cBool(inherit), cPair(floatTable(lex), dateTable(lex, append(zones, "UTC")))), cList(mm)), want)
}

// ---- canonical dump of a result (content, order and links; floats as bits; times as instants + zone name) ----
func dumpStatic(s *gtfs.Static) []string {
	var out []string
	p := func(format string, a ...any) { out = append(out, fmt.Sprintf(format, a...)) }
	fp := func(f *float64) string {
		if f == nil {
			return "nil"
		}
		return fmt.Sprint(math.Float64bits(*f))
	}
	ip := func(f *int32) string {
		if f == nil {
			return "nil"
		}
		return fmt.Sprint(*f)
	}
	for _, a := range s.Agencies {
		p("agency %q %q %q %q %q %q %q %q", a.Id, a.Name, a.Url, a.Timezone, a.Language, a.Phone, a.FareUrl, a.Email)
	}
	for i := range s.Routes {
		r := &s.Routes[i]
		p("route %q agency=%d %q %q %q %q %q type=%d %q sort=%s cp=%d cd=%d", r.Id, idxAgency(s, r.Agency), r.Color, r.TextColor, r.ShortName, r.LongName, r.Description, r.Type, r.Url, ip(r.SortOrder), r.ContinuousPickup, r.ContinuousDropOff)
	}
	for i := range s.Stops {
		x := &s.Stops[i]
		par := -1
		if x.Parent != nil {
			par = idxStop(s, x.Parent)
		}
		p("stop %q %q %q %q %q lon=%s lat=%s %q type=%d parent=%d %q wb=%d %q", x.Id, x.Code, x.Name, x.Description, x.ZoneId, fp(x.Longitude), fp(x.Latitude), x.Url, x.Type, par, x.Timezone, x.WheelchairBoarding, x.PlatformCode)
	}
	for i := range s.Transfers {
		t := &s.Transfers[i]
		p("transfer %d->%d type=%d min=%s", idxStop(s, t.From), idxStop(s, t.To), t.Type, ip(t.MinTransferTime))
	}
	ts := func(l []time.Time) string {
		var o []string
		for _, t := range l {
			o = append(o, fmt.Sprintf("%d@%s", t.Unix(), t.Location()))
		}
		return strings.Join(o, ",")
	}
	for i := range s.Services {
		v := &s.Services[i]
		p("service %q %v%v%v%v%v%v%v %d@%s..%d@%s added=[%s] removed=[%s]", v.Id, v.Monday, v.Tuesday, v.Wednesday, v.Thursday, v.Friday, v.Saturday, v.Sunday,
			v.StartDate.Unix(), v.StartDate.Location(), v.EndDate.Unix(), v.EndDate.Location(), ts(v.AddedDates), ts(v.RemovedDates))
	}
	for i := range s.Shapes {
		x := &s.Shapes[i]
		var pts []string
		for _, q := range x.Points {
			pts = append(pts, fmt.Sprintf("%d/%d/%s", math.Float64bits(q.Latitude), math.Float64bits(q.Longitude), fp(q.Distance)))
		}
		p("shape %q %s", x.ID, strings.Join(pts, " "))
	}
	for i := range s.Trips {
		t := &s.Trips[i]
		shp := -1
		if t.Shape != nil {
			shp = idxShape(s, t.Shape)
		}
		p("trip %q route=%d service=%d %q %q dir=%d %q wa=%d bikes=%d shape=%d", t.ID, idxRoute(s, t.Route), idxService(s, t.Service), t.Headsign, t.ShortName, t.DirectionId, t.BlockID, t.WheelchairAccessible, t.BikesAllowed, shp)
		for k := range t.StopTimes {
			x := &t.StopTimes[k]
			p("  stoptime stop=%d arr=%d dep=%d seq=%d %q pu=%d do=%d cp=%d cd=%d dist=%s exact=%v", idxStop(s, x.Stop), x.ArrivalTime, x.DepartureTime, x.StopSequence, x.Headsign, x.PickupType, x.DropOffType, x.ContinuousPickup, x.ContinuousDropOff, fp(x.ShapeDistanceTraveled), x.ExactTimes)
		}
		for _, q := range t.Frequencies {
			p("  frequency %d..%d every %d exact=%d", q.StartTime, q.EndTime, q.Headway, q.ExactTimes)
		}
	}
	return out
}

// ---- denote: what a well-formed feed must produce (from the property text; enums by digit, H:MM:SS as seconds, dates as
// midnight in the first agency's zone, references by id) ----
func gtfsSeconds(s string) int64 {
	parts := strings.Split(strings.TrimSpace(s), ":")
	h, _ := strconv.Atoi(parts[0])
	m, _ := strconv.Atoi(parts[1])
	sec, _ := strconv.Atoi(parts[2])
	return int64(h*3600 + m*60 + sec)
}
func denote(f *sfeed, inherit bool) []string {
	var out []string
	p := func(format string, a ...any) { out = append(out, fmt.Sprintf(format, a...)) }
	get := func(name string) []srow {
		if t := f.table(name); t != nil {
			return t.rows
		}
		return nil
	}
	fl := func(s string) string {
		if s == "" {
			return "nil"
		}
		v, _ := strconv.ParseFloat(strings.TrimSpace(s), 64)
		return fmt.Sprint(math.Float64bits(v))
	}
	in := func(s string) string {
		if s == "" {
			return "nil"
		}
		return s
	}
	num := func(s string) int { v, _ := strconv.Atoi(s); return v }
	index := func(rows []srow, col, id string) int {
		for i, r := range rows {
			if r[col] == id {
				return i
			}
		}
		return -1
	}
	ag := get("agency.txt")
	loc := zoneOrUTC(ag[0]["agency_timezone"])
	for _, a := range ag {
		p("agency %q %q %q %q %q %q %q %q", a["agency_id"], a["agency_name"], a["agency_url"], a["agency_timezone"], a["agency_lang"], a["agency_phone"], a["agency_fare_url"], a["agency_email"])
	}
	routes := get("routes.txt")
	for _, r := range routes {
		p("route %q agency=%d %q %q %q %q %q type=%d %q sort=%s cp=%d cd=%d", r["route_id"], index(ag, "agency_id", r["agency_id"]), r["route_color"], r["route_text_color"], r["route_short_name"], r["route_long_name"],
			r["route_desc"], num(r["route_type"]), r["route_url"], in(r["route_sort_order"]), num(r["continuous_pickup"]), num(r["continuous_drop_off"]))
	}
	stops := get("stops.txt")
	wb := make([]int, len(stops))
	typ := make([]int, len(stops))
	for i, x := range stops {
		wb[i] = num(x["wheelchair_boarding"])
		typ[i] = num(x["location_type"])
		if typ[i] == 0 && x["parent_station"] != "" {
			typ[i] = 5 // "stop or platform": a location_type 0 stop inside a station is reported as a platform
		}
	}
	if inherit {
		for i, x := range stops { // in row order, reading the parent's current value
			if par := index(stops, "stop_id", x["parent_station"]); x["parent_station"] != "" && par >= 0 && typ[par] == 1 && wb[i] == 0 {
				wb[i] = wb[par]
			}
		}
	}
	for i, x := range stops {
		par := -1
		if x["parent_station"] != "" {
			par = index(stops, "stop_id", x["parent_station"])
		}
		p("stop %q %q %q %q %q lon=%s lat=%s %q type=%d parent=%d %q wb=%d %q", x["stop_id"], x["stop_code"], x["stop_name"], x["stop_desc"], x["zone_id"], fl(x["stop_lon"]), fl(x["stop_lat"]), x["stop_url"], typ[i], par,
			x["stop_timezone"], wb[i], x["platform_code"])
	}
	for _, t := range get("transfers.txt") {
		p("transfer %d->%d type=%d min=%s", index(stops, "stop_id", t["from_stop_id"]), index(stops, "stop_id", t["to_stop_id"]), num(t["transfer_type"]), in(t["min_transfer_time"]))
	}
	// services
	type svc struct {
		id             string
		days           [7]bool
		start, end     time.Time
		added, removed []time.Time
		has            bool
	}
	svcs := map[string]*svc{}
	var order []string
	day := func(s string) time.Time { t, _ := time.ParseInLocation("20060102", s, loc); return t }
	for _, c := range get("calendar.txt") {
		s := &svc{id: c["service_id"], start: day(c["start_date"]), end: day(c["end_date"]), has: true}
		for i, d := range []string{"monday", "tuesday", "wednesday", "thursday", "friday", "saturday", "sunday"} {
			s.days[i] = c[d] == "1"
		}
		svcs[s.id] = s
		order = append(order, s.id)
	}
	for _, c := range get("calendar_dates.txt") {
		s := svcs[c["service_id"]]
		d := day(c["date"])
		if s == nil {
			s = &svc{id: c["service_id"], start: d, end: d}
			svcs[s.id] = s
			order = append(order, s.id)
		}
		if d.Before(s.start) {
			s.start = d
		}
		if s.end.Before(d) {
			s.end = d
		}
		if c["exception_type"] == "1" {
			s.added = append(s.added, d)
		} else {
			s.removed = append(s.removed, d)
		}
	}
	sort.Strings(order)
	ts := func(l []time.Time) string {
		var o []string
		for _, t := range l {
			o = append(o, fmt.Sprintf("%d@%s", t.Unix(), t.Location()))
		}
		return strings.Join(o, ",")
	}
	for _, id := range order {
		v := svcs[id]
		p("service %q %v%v%v%v%v%v%v %d@%s..%d@%s added=[%s] removed=[%s]", v.id, v.days[0], v.days[1], v.days[2], v.days[3], v.days[4], v.days[5], v.days[6],
			v.start.Unix(), v.start.Location(), v.end.Unix(), v.end.Location(), ts(v.added), ts(v.removed))
	}
	// shapes: by id, points by sequence
	shapeRows := get("shapes.txt")
	var shapeIDs []string
	seen := map[string]bool{}
	for _, r := range shapeRows {
		if !seen[r["shape_id"]] {
			seen[r["shape_id"]] = true
			shapeIDs = append(shapeIDs, r["shape_id"])
		}
	}
	sort.Strings(shapeIDs)
	for _, id := range shapeIDs {
		var pts []srow
		for _, r := range shapeRows {
			if r["shape_id"] == id {
				pts = append(pts, r)
			}
		}
		sort.SliceStable(pts, func(i, j int) bool { return num(pts[i]["shape_pt_sequence"]) < num(pts[j]["shape_pt_sequence"]) })
		var o []string
		for _, q := range pts {
			o = append(o, fmt.Sprintf("%s/%s/%s", fl(q["shape_pt_lat"]), fl(q["shape_pt_lon"]), fl(q["shape_dist_traveled"])))
		}
		p("shape %q %s", id, strings.Join(o, " "))
	}
	dir := func(s string) int {
		switch s {
		case "0":
			return 2 // DirectionID_False
		case "1":
			return 1
		}
		return 0
	}
	stt := get("stop_times.txt")
	for _, t := range get("trips.txt") {
		shp := -1
		if t["shape_id"] != "" {
			shp = sort.SearchStrings(shapeIDs, t["shape_id"])
		}
		p("trip %q route=%d service=%d %q %q dir=%d %q wa=%d bikes=%d shape=%d", t["trip_id"], index(routes, "route_id", t["route_id"]), sort.SearchStrings(order, t["service_id"]), t["trip_headsign"], t["trip_short_name"],
			dir(t["direction_id"]), t["block_id"], num(t["wheelchair_accessible"]), num(t["bikes_allowed"]), shp)
		var mine []srow
		for _, r := range stt {
			if r["trip_id"] == t["trip_id"] {
				mine = append(mine, r)
			}
		}
		sort.SliceStable(mine, func(i, j int) bool { return num(mine[i]["stop_sequence"]) < num(mine[j]["stop_sequence"]) })
		for _, x := range mine {
			p("  stoptime stop=%d arr=%d dep=%d seq=%d %q pu=%d do=%d cp=%d cd=%d dist=%s exact=%v", index(stops, "stop_id", x["stop_id"]), gtfsSeconds(x["arrival_time"])*1e9, gtfsSeconds(x["departure_time"])*1e9,
				num(x["stop_sequence"]), x["stop_headsign"], num(x["pickup_type"]), num(x["drop_off_type"]), num(x["continuous_pickup"]), num(x["continuous_drop_off"]), fl(x["shape_dist_traveled"]), x["timepoint"] == "1")
		}
		for _, q := range get("frequencies.txt") {
			if q["trip_id"] == t["trip_id"] {
				p("  frequency %d..%d every %d exact=%d", gtfsSeconds(q["start_time"])*1e9, gtfsSeconds(q["end_time"])*1e9, int64(num(q["headway_secs"]))*1e9, num(q["exact_times"]))
			}
		}
	}
	return out
}

func diffLines(a, b []string) string {
	for i := 0; i < len(a) || i < len(b); i++ {
		var x, y string
		if i < len(a) {
			x = a[i]
		}
		if i < len(b) {
			y = b[i]
		}
		if x != y {
			return fmt.Sprintf("line %d: got %q, want %q", i, x, y)
		}
	}
	return ""
}
