package main

// Engine "hash" (C13): the byte stream the real Trip.Hash / Vehicle.Hash hand to the hash function is recorded
// and compared (in Coq, by vm_compute) with Model/Hash.v; the Go-side oracle states the property directly on
// the recorded streams: equal streams <=> equal data projection.

import (
	"fmt"
	"math"
	"math/rand"
	"reflect"
	"time"

	"github.com/jamespfennell/gtfs"
)

type recHash struct{ b []byte }

func (r *recHash) Write(p []byte) (int, error) { r.b = append(r.b, p...); return len(p), nil }
func (r *recHash) Sum(b []byte) []byte         { return append(b, r.b...) }
func (r *recHash) Reset()                      { r.b = nil }
func (r *recHash) Size() int                   { return 0 }
func (r *recHash) BlockSize() int              { return 1 }

func hashTripBytes(t *gtfs.Trip) ([]byte, callResult) {
	h := &recHash{}
	r := guarded(5*time.Second, func() { t.Hash(h) })
	return h.b, r
}
func hashVehicleBytes(v *gtfs.Vehicle) ([]byte, callResult) {
	h := &recHash{}
	r := guarded(5*time.Second, func() { v.Hash(h) })
	return h.b, r
}

var zoneNames = []string{"UTC", "America/New_York", "Europe/London", "Australia/Lord_Howe", "Pacific/Apia", "Asia/Kolkata"}

func loadZone(name string) *time.Location {
	l, err := time.LoadLocation(name)
	if err != nil {
		panic(err)
	}
	return l
}

type gen struct {
	r         *rand.Rand
	glueP     float64  // probability that a static feed gets (route, service) ids that coincide when glued (0 = default)
	zoneDates []string // days on which the current feed's first agency zone changes its offset (static generator)
	longLeft  int      // how many very long strings this generator may still produce (they are expensive on the Coq side)
}

func (g *gen) coin(p float64) bool     { return g.r.Float64() < p }
func (g *gen) pick(xs []string) string { return xs[g.r.Intn(len(xs))] }
func (g *gen) str() string {
	if g.coin(0.04) { // long values: beyond any small inline buffer
		b := make([]byte, []int{63, 64, 65, 70, 120, 128, 129, 255, 256, 300}[g.r.Intn(10)])
		for i := range b {
			b[i] = "abcXYZ019_.\x00"[g.r.Intn(12)]
		}
		return string(b)
	}
	switch g.r.Intn(8) {
	case 0:
		return ""
	case 1:
		return g.pick([]string{"a", "ab", "abc", "b", "bc", "c", "L", "M"})
	case 2:
		return g.pick([]string{"L03N", "L03S", "M11N", "M11S", "A27N", "R", "\x00", "é", "日本", "x\ny", "q\"uote", "a,b"})
	case 3:
		n := g.r.Intn(12)
		b := make([]byte, n)
		for i := range b {
			b[i] = byte(g.r.Intn(256))
		}
		return string(b)
	default:
		n := 1 + g.r.Intn(6)
		b := make([]byte, n)
		for i := range b {
			b[i] = "abcXYZ019_."[g.r.Intn(11)]
		}
		return string(b)
	}
}
func (g *gen) optStr() *string {
	if g.coin(0.3) {
		return nil
	}
	return ptr(g.str())
}
func (g *gen) i64() int64 {
	switch g.r.Intn(6) {
	case 0:
		return 0
	case 1:
		return int64(g.r.Intn(5)) - 2
	case 2:
		return g.pick64([]int64{math.MaxInt64, math.MinInt64, math.MaxInt32, math.MinInt32, 1 << 32, -(1 << 32), 255, 256, 65535, 65536})
	default:
		return 1600000000 + int64(g.r.Intn(200000000))
	}
}
func (g *gen) pick64(xs []int64) int64 { return xs[g.r.Intn(len(xs))] }
func (g *gen) i32() int32 {
	switch g.r.Intn(5) {
	case 0:
		return 0
	case 1:
		return int32(g.r.Intn(5)) - 2
	case 2:
		return []int32{math.MaxInt32, math.MinInt32, 255, 256, 65536, -65536}[g.r.Intn(6)]
	default:
		return int32(g.r.Intn(100000))
	}
}
func (g *gen) u32() uint32 {
	switch g.r.Intn(5) {
	case 0:
		return 0
	case 1:
		return uint32(g.r.Intn(4))
	case 2:
		return []uint32{math.MaxUint32, 1 << 31, 255, 256, 65536}[g.r.Intn(5)]
	default:
		return uint32(g.r.Intn(100000))
	}
}
func (g *gen) zone() *time.Location { return loadZone(zoneNames[g.r.Intn(len(zoneNames))]) }
func (g *gen) instant() time.Time {
	// whole seconds, as everything ParseRealtime produces
	var u int64
	switch g.r.Intn(6) {
	case 0:
		u = 0
	case 1:
		u = -1 - int64(g.r.Intn(100000))
	case 2:
		u = g.pick64([]int64{1 << 31, 1<<31 - 1, 1 << 32, 253402300799, -62135596800})
	default:
		u = 1600000000 + int64(g.r.Intn(200000000))
	}
	var ns int64
	if g.coin(0.25) { // instants are nanosecond-precise values; the hash covers the Unix second that contains them (floor, also before 1970)
		ns = g.pick64([]int64{500000000, 1, 999999999, 250000000, 1000000})
	}
	return time.Unix(u, ns).In(g.zone())
}
func (g *gen) optInstant() *time.Time {
	if g.coin(0.3) {
		return nil
	}
	t := g.instant()
	return &t
}
func (g *gen) f32() float32 {
	switch g.r.Intn(5) {
	case 0:
		return 0
	case 1:
		return float32(math.Copysign(0, -1))
	case 2:
		return []float32{math.MaxFloat32, math.SmallestNonzeroFloat32, float32(math.Inf(1)), float32(math.NaN()), -1.5}[g.r.Intn(5)]
	default:
		return float32(g.r.NormFloat64() * 90)
	}
}
func (g *gen) event() *gtfs.StopTimeEvent {
	if g.coin(0.25) {
		return nil
	}
	e := &gtfs.StopTimeEvent{Time: g.optInstant()}
	if g.coin(0.6) {
		d := time.Duration(g.i32()) * time.Second
		if g.coin(0.1) {
			d = time.Duration(g.i64())
		}
		e.Delay = &d
	}
	if g.coin(0.6) {
		e.Uncertainty = ptr(g.i32())
	}
	return e
}
func (g *gen) stu() gtfs.StopTimeUpdate {
	u := gtfs.StopTimeUpdate{StopID: g.optStr(), NyctTrack: g.optStr(), Arrival: g.event(), Departure: g.event(),
		ScheduleRelationship: gtfs.StopTimeUpdateScheduleRelationship(g.r.Intn(4))}
	if g.coin(0.1) {
		u.ScheduleRelationship = gtfs.StopTimeUpdateScheduleRelationship(g.i32())
	}
	if g.coin(0.7) {
		u.StopSequence = ptr(g.u32())
	}
	return u
}
func (g *gen) tripID() gtfs.TripID {
	k := gtfs.TripID{ID: g.str(), RouteID: g.str(), DirectionID: gtfs.DirectionID(g.r.Intn(3)),
		ScheduleRelationship: gtfs.TripScheduleRelationship(g.r.Intn(4))}
	if g.coin(0.05) {
		k.DirectionID = gtfs.DirectionID(g.r.Intn(256))
	}
	if g.coin(0.6) {
		k.HasStartTime = true
		k.StartTime = time.Duration(g.r.Intn(100000)) * time.Second
	} else if g.coin(0.2) {
		k.StartTime = time.Duration(g.i64()) // has-flag false but value set: both are hashed
	}
	if g.coin(0.6) {
		k.HasStartDate = true
		k.StartDate = g.instant()
	} else if g.coin(0.5) {
		k.StartDate = time.Time{}
	} else {
		k.StartDate = g.instant()
	}
	return k
}
func (g *gen) trip() *gtfs.Trip {
	t := &gtfs.Trip{ID: g.tripID(), IsEntityInMessage: g.coin(0.5)}
	n := g.r.Intn(5)
	if g.coin(0.1) {
		n = 5 + g.r.Intn(20)
	}
	for i := 0; i < n; i++ {
		t.StopTimeUpdates = append(t.StopTimeUpdates, g.stu())
	}
	if g.coin(0.4) {
		t.Vehicle = &gtfs.Vehicle{}
		if g.coin(0.7) {
			t.Vehicle.ID = &gtfs.VehicleID{ID: g.str()}
		}
	}
	return t
}
func (g *gen) vehicle() *gtfs.Vehicle {
	v := &gtfs.Vehicle{IsEntityInMessage: g.coin(0.5), StopID: g.optStr(), Timestamp: g.optInstant(),
		CongestionLevel: gtfs.CongestionLevel(g.r.Intn(5))}
	if g.coin(0.7) {
		v.ID = &gtfs.VehicleID{ID: g.str(), Label: g.str(), LicensePlate: g.str()}
	}
	if g.coin(0.6) {
		v.Trip = g.trip()
		v.Trip.Vehicle = v
	}
	if g.coin(0.7) {
		p := &gtfs.Position{}
		if g.coin(0.7) {
			p.Latitude = ptr(g.f32())
		}
		if g.coin(0.7) {
			p.Longitude = ptr(g.f32())
		}
		if g.coin(0.5) {
			p.Bearing = ptr(g.f32())
		}
		if g.coin(0.5) {
			p.Odometer = ptr(float64(g.f32()) * 1.000001)
		}
		if g.coin(0.5) {
			p.Speed = ptr(g.f32())
		}
		v.Position = p
	}
	if g.coin(0.6) {
		v.CurrentStopSequence = ptr(g.u32())
	}
	if g.coin(0.6) {
		v.CurrentStatus = ptr(gtfs.CurrentStatus(g.r.Intn(3)))
	}
	if g.coin(0.5) {
		v.OccupancyStatus = ptr(gtfs.OccupancyStatus(g.r.Intn(7)))
	}
	if g.coin(0.5) {
		v.OccupancyPercentage = ptr(g.u32())
	}
	return v
}

// ---- data projection used by the Go-side oracle: what C13 says the hash depends on ----

type evD struct {
	T, D *int64
	U    *int32
}
type stuD struct {
	Seq       *uint32
	Stop, Trk *string
	Rel       int32
	Arr, Dep  *evD
}
type tripD struct {
	ID, Route        string
	Dir              uint8
	HasDate, HasTime bool
	Date, Time       int64
	Rel              int32
	Stus             []stuD
}

func evData(e *gtfs.StopTimeEvent) *evD {
	if e == nil {
		return nil
	}
	d := &evD{U: e.Uncertainty}
	if e.Time != nil {
		d.T = ptr(e.Time.Unix())
	}
	if e.Delay != nil {
		d.D = ptr(int64(*e.Delay))
	}
	return d
}
func tripData(t *gtfs.Trip) tripD {
	d := tripD{ID: t.ID.ID, Route: t.ID.RouteID, Dir: uint8(t.ID.DirectionID), HasDate: t.ID.HasStartDate, HasTime: t.ID.HasStartTime,
		Date: t.ID.StartDate.Unix(), Time: int64(t.ID.StartTime), Rel: int32(t.ID.ScheduleRelationship), Stus: []stuD{}}
	for i := range t.StopTimeUpdates {
		u := &t.StopTimeUpdates[i]
		d.Stus = append(d.Stus, stuD{Seq: u.StopSequence, Stop: u.StopID, Trk: u.NyctTrack, Rel: int32(u.ScheduleRelationship), Arr: evData(u.Arrival), Dep: evData(u.Departure)})
	}
	return d
}

type vehD struct {
	ID                 *gtfs.VehicleID
	Trip               *tripD
	HasPos             bool
	Lat, Lon, Bea, Spd *uint32
	Odo                *uint64
	Seq, Pct           *uint32
	Stop               *string
	Status, Occ        *int32
	Ts                 *int64
	Cong               int32
}

func f32bits(p *float32) *uint32 {
	if p == nil {
		return nil
	}
	return ptr(math.Float32bits(*p))
}
func vehData(v *gtfs.Vehicle) vehD {
	d := vehD{ID: v.ID, Seq: v.CurrentStopSequence, Pct: v.OccupancyPercentage, Stop: v.StopID, Cong: int32(v.CongestionLevel)}
	if v.Trip != nil {
		td := tripData(v.Trip)
		d.Trip = &td
	}
	if v.Position != nil {
		d.HasPos = true
		d.Lat, d.Lon, d.Bea, d.Spd = f32bits(v.Position.Latitude), f32bits(v.Position.Longitude), f32bits(v.Position.Bearing), f32bits(v.Position.Speed)
		if v.Position.Odometer != nil {
			d.Odo = ptr(math.Float64bits(*v.Position.Odometer))
		}
	}
	if v.CurrentStatus != nil {
		d.Status = ptr(int32(*v.CurrentStatus))
	}
	if v.OccupancyStatus != nil {
		d.Occ = ptr(int32(*v.OccupancyStatus))
	}
	if v.Timestamp != nil {
		d.Ts = ptr(v.Timestamp.Unix())
	}
	return d
}

// one-field mutations for the pair stream
func (g *gen) mutateTrip(t *gtfs.Trip) (*gtfs.Trip, string) {
	c := *t
	c.StopTimeUpdates = append([]gtfs.StopTimeUpdate{}, t.StopTimeUpdates...)
	n := len(c.StopTimeUpdates)
	for {
		switch g.r.Intn(19) {
		case 18: // half a second later: another value only if that crosses into the next Unix second
			if n > 0 {
				i := g.r.Intn(n)
				u := c.StopTimeUpdates[i]
				if u.Arrival != nil && u.Arrival.Time != nil {
					e := *u.Arrival
					e.Time = ptr(e.Time.Add(500 * time.Millisecond))
					u.Arrival = &e
					c.StopTimeUpdates[i] = u
					return &c, "arrival time +500ms"
				}
			}
		case 16: // compensating change of two numeric parts: the same instant as (date, after-midnight time) and (next day, time)
			d := time.Duration(g.pick64([]int64{int64(24 * time.Hour), int64(time.Second), int64(time.Hour)}))
			c.ID.HasStartDate, c.ID.HasStartTime = true, true
			c.ID.StartDate = c.ID.StartDate.Add(d)
			c.ID.StartTime -= d
			return &c, "start date +d, start time -d"
		case 17:
			if n > 0 {
				i := g.r.Intn(n)
				u := c.StopTimeUpdates[i]
				if u.Arrival != nil && u.Arrival.Time != nil && u.Arrival.Delay != nil {
					e := *u.Arrival
					e.Time = ptr(e.Time.Add(time.Second))
					e.Delay = ptr(*e.Delay - time.Second)
					u.Arrival = &e
					c.StopTimeUpdates[i] = u
					return &c, "arrival time +1s, delay -1s"
				}
			}
		case 0:
			c.ID.ID += "x"
			return &c, "id"
		case 1: // shift the boundary between id and route
			if len(c.ID.RouteID) > 0 {
				c.ID.ID += c.ID.RouteID[:1]
				c.ID.RouteID = c.ID.RouteID[1:]
				return &c, "boundary id|route"
			}
		case 2:
			c.ID.DirectionID = (c.ID.DirectionID + 1) % 3
			return &c, "direction"
		case 3:
			c.ID.HasStartTime = !c.ID.HasStartTime
			return &c, "has_start_time"
		case 4:
			c.ID.StartTime += time.Second
			return &c, "start_time"
		case 5:
			c.ID.HasStartDate = !c.ID.HasStartDate
			return &c, "has_start_date"
		case 6:
			c.ID.StartDate = c.ID.StartDate.Add(time.Second)
			return &c, "start_date"
		case 7:
			c.ID.ScheduleRelationship++
			return &c, "trip schedule relationship"
		case 8:
			c.StopTimeUpdates = append(c.StopTimeUpdates, gtfs.StopTimeUpdate{})
			return &c, "one more empty update"
		case 9:
			if n > 0 {
				c.StopTimeUpdates = c.StopTimeUpdates[:n-1]
				return &c, "one update fewer"
			}
		case 10:
			if n > 0 {
				i := g.r.Intn(n)
				u := c.StopTimeUpdates[i]
				if u.StopSequence == nil {
					u.StopSequence = ptr(uint32(0))
				} else if *u.StopSequence == 0 {
					u.StopSequence = nil
				} else {
					u.StopSequence = ptr(*u.StopSequence + 1)
				}
				c.StopTimeUpdates[i] = u
				return &c, "stop_sequence nil/zero/value"
			}
		case 11:
			if n > 0 {
				i := g.r.Intn(n)
				u := c.StopTimeUpdates[i]
				if u.StopID != nil && u.NyctTrack != nil && len(*u.NyctTrack) > 0 {
					s, tk := *u.StopID+(*u.NyctTrack)[:1], (*u.NyctTrack)[1:]
					u.StopID, u.NyctTrack = &s, &tk
					c.StopTimeUpdates[i] = u
					return &c, "boundary stop|track"
				} else if u.StopID == nil {
					u.StopID = ptr("")
					c.StopTimeUpdates[i] = u
					return &c, "stop nil vs empty"
				}
			}
		case 12:
			if n > 0 {
				i := g.r.Intn(n)
				u := c.StopTimeUpdates[i]
				u.ScheduleRelationship++
				c.StopTimeUpdates[i] = u
				return &c, "stu schedule relationship"
			}
		case 13:
			if n > 0 {
				i := g.r.Intn(n)
				u := c.StopTimeUpdates[i]
				u.Arrival, u.Departure = u.Departure, u.Arrival
				c.StopTimeUpdates[i] = u
				if !reflect.DeepEqual(evData(u.Arrival), evData(u.Departure)) {
					return &c, "arrival<->departure swapped"
				}
			}
		case 14:
			if n > 0 {
				i := g.r.Intn(n)
				u := c.StopTimeUpdates[i]
				var e gtfs.StopTimeEvent
				if u.Arrival != nil {
					e = *u.Arrival
				}
				switch g.r.Intn(3) {
				case 0:
					if e.Time == nil {
						e.Time = ptr(time.Unix(0, 0).UTC())
					} else if e.Time.Unix() == 0 {
						e.Time = nil
					} else {
						e.Time = ptr(e.Time.Add(time.Second))
					}
				case 1:
					if e.Delay == nil {
						e.Delay = ptr(time.Duration(0))
					} else if *e.Delay == 0 {
						e.Delay = nil
					} else {
						e.Delay = ptr(*e.Delay + 1)
					}
				case 2:
					if e.Uncertainty == nil {
						e.Uncertainty = ptr(int32(0))
					} else if *e.Uncertainty == 0 {
						e.Uncertainty = nil
					} else {
						e.Uncertainty = ptr(*e.Uncertainty + 1)
					}
				}
				if u.Arrival == nil && g.coin(0.5) {
					u.Arrival = &gtfs.StopTimeEvent{}
					c.StopTimeUpdates[i] = u
					return &c, "arrival nil vs empty event"
				}
				u.Arrival = &e
				c.StopTimeUpdates[i] = u
				return &c, "arrival field nil/zero/value"
			}
		case 15:
			if n > 1 {
				c.StopTimeUpdates[0], c.StopTimeUpdates[n-1] = c.StopTimeUpdates[n-1], c.StopTimeUpdates[0]
				if !reflect.DeepEqual(tripData(&c), tripData(t)) {
					return &c, "first and last update swapped"
				}
			}
		}
	}
}

// same data, different presentation: zone, identity, flags, back-reference
func (g *gen) representTrip(t *gtfs.Trip) *gtfs.Trip {
	c := *t
	c.IsEntityInMessage = !t.IsEntityInMessage
	c.ID.StartDate = t.ID.StartDate.In(g.zone())
	c.StopTimeUpdates = nil
	for _, u := range t.StopTimeUpdates {
		if u.StopID != nil {
			u.StopID = ptr(string(append([]byte{}, *u.StopID...)))
		}
		for _, ep := range []**gtfs.StopTimeEvent{&u.Arrival, &u.Departure} {
			if *ep != nil {
				e := **ep
				if e.Time != nil {
					e.Time = ptr(e.Time.In(g.zone()))
				}
				*ep = &e
			}
		}
		c.StopTimeUpdates = append(c.StopTimeUpdates, u)
	}
	if t.Vehicle == nil {
		c.Vehicle = &gtfs.Vehicle{ID: &gtfs.VehicleID{ID: "other"}}
	} else {
		c.Vehicle = nil
	}
	return &c
}

func cVehicleH(v *gtfs.Vehicle) string {
	opt32 := func(p *float32) string {
		if p == nil {
			return "None"
		}
		return cSome(cU(uint64(math.Float32bits(*p))))
	}
	pos := "None"
	if v.Position != nil {
		odo := "None"
		if v.Position.Odometer != nil {
			odo = cSome(cU(math.Float64bits(*v.Position.Odometer)))
		}
		pos = cSome(cRec(field{"po_lat", opt32(v.Position.Latitude)}, field{"po_lon", opt32(v.Position.Longitude)},
			field{"po_bearing", opt32(v.Position.Bearing)}, field{"po_odo", odo}, field{"po_speed", opt32(v.Position.Speed)}))
	}
	id := "None"
	if v.ID != nil {
		id = cSome(cVehicleID(v.ID))
	}
	tk, tr := "None", "None"
	if v.Trip != nil {
		tk = cSome(cTripKey(&v.Trip.ID))
		tr = cSome(cTrip(v.Trip))
	}
	st, occ := "None", "None"
	if v.CurrentStatus != nil {
		st = cSome(cZ(int64(*v.CurrentStatus)))
	}
	if v.OccupancyStatus != nil {
		occ = cSome(cZ(int64(*v.OccupancyStatus)))
	}
	hv := cRec(field{"ve_id", id}, field{"ve_trip", tk}, field{"ve_pos", pos}, field{"ve_seq", cOptU32(v.CurrentStopSequence)},
		field{"ve_stop", cOptStr(v.StopID)}, field{"ve_status", st}, field{"ve_ts", cOptInstant(v.Timestamp)},
		field{"ve_congestion", cZ(int64(v.CongestionLevel))}, field{"ve_occ", occ}, field{"ve_occ_pct", cOptU32(v.OccupancyPercentage)},
		field{"ve_in_msg", cBool(v.IsEntityInMessage)})
	return cRec(field{"hv", hv}, field{"hv_trip", tr})
}

func engineHash(ctx *engineCtx) {
	g := &gen{r: ctx.rng}
	nTrips, nVeh, nPairs := 400, 250, 500
	if ctx.thorough {
		nTrips, nVeh, nPairs = 6000, 3000, 8000
	}
	ctx.rule = "random gtfs.Trip / gtfs.Vehicle values (every optional field independently nil, boundary numerics, byte strings incl. non-UTF-8), " +
		"pairs differing in exactly one field / nil-vs-zero / a shifted string boundary / update count, and re-presentations (zone, flags, back-reference); " +
		"non-trivial = at least one stop time update or a position; distinct = distinct recorded byte stream"
	var tripCases, vehCases []string
	type rec struct {
		d any
		b string
	}
	byStream := map[string]any{}
	distinct := map[string]bool{}
	check := func(kind string, data any, b []byte, r callResult, term string) {
		ctx.evaluations++
		if r.panicked || r.hung {
			ctx.violate("hash-panics", "Hash() panicked or hung: "+r.msg, map[string]any{"kind": kind, "value": term})
			return
		}
		key := kind + string(b)
		if prev, ok := byStream[key]; ok {
			if !reflect.DeepEqual(prev, data) {
				ctx.violate("hash-collision", "two "+kind+"s with different data fields produce the same hash input",
					map[string]any{"kind": kind, "a": fmt.Sprintf("%+v", prev), "b": fmt.Sprintf("%+v", data), "value_b": term})
			}
		} else {
			byStream[key] = data
		}
	}
	for i := 0; i < nTrips; i++ {
		t := g.trip()
		b, r := hashTripBytes(t)
		term := cTrip(t)
		check("trip", tripData(t), b, r, term)
		b2, _ := hashTripBytes(t)
		if string(b) != string(b2) {
			ctx.violate("hash-nondeterministic", "hashing the same trip twice gave different streams", map[string]any{"value": term})
		}
		tripCases = append(tripCases, cPair(term, cBytes(b)))
		if len(t.StopTimeUpdates) > 0 && !distinct[string(b)] {
			distinct[string(b)] = true
			ctx.nontrivial++
		}
		if i < 2 {
			ctx.sample(map[string]any{"kind": "trip", "coq_term": term, "hash_input_len": len(b)})
		}
	}
	for i := 0; i < nVeh; i++ {
		v := g.vehicle()
		b, r := hashVehicleBytes(v)
		term := cVehicleH(v)
		check("vehicle", vehData(v), b, r, term)
		vehCases = append(vehCases, cPair(term, cBytes(b)))
		if v.Position != nil && !distinct["v"+string(b)] {
			distinct["v"+string(b)] = true
			ctx.nontrivial++
		}
		if i < 1 {
			ctx.sample(map[string]any{"kind": "vehicle", "coq_term": term, "hash_input_len": len(b)})
		}
	}
	// vehicle pairs: one own field changed (or not): hash inputs must differ exactly when the data differs
	for i := 0; i < nVeh; i++ {
		v := g.vehicle()
		if v.Position == nil {
			v.Position = &gtfs.Position{}
		}
		m := *v
		pos := *v.Position
		m.Position = &pos
		what := ""
		switch g.r.Intn(8) {
		case 0, 1: // odometer: a double - neighbours beyond float32 precision, tiny fractions, beyond the float32 range
			base := []float64{16777216, 16777217, 1234.5, 1e39, 3e38, 0.1, 9007199254740992}[g.r.Intn(7)]
			v.Position.Odometer = ptr(base)
			m.Position.Odometer = ptr([]float64{base + 1, base * 1.0000001, base + 0.00001, base * 10}[g.r.Intn(4)])
			what = "odometer"
		case 2:
			v.Position.Latitude, m.Position.Latitude = ptr(float32(40.5)), ptr(float32(40.500004))
			what = "latitude"
		case 3:
			m.StopID = ptr(g.str() + "x")
			what = "stop id"
		case 4:
			m.CurrentStopSequence = ptr(g.u32())
			what = "current stop sequence"
		case 5:
			m.OccupancyPercentage = ptr(g.u32())
			what = "occupancy percentage"
		case 6:
			m.CongestionLevel = gtfs.CongestionLevel((int(v.CongestionLevel) + 1) % 5)
			what = "congestion level"
		default:
			what = "nothing"
		}
		b1, r1 := hashVehicleBytes(v)
		b2, r2 := hashVehicleBytes(&m)
		ctx.evaluations++
		same := reflect.DeepEqual(vehData(v), vehData(&m))
		if !r1.panicked && !r2.panicked && (string(b1) == string(b2)) != same {
			ctx.violate("vehicle-hash-misses-change", fmt.Sprintf("vehicles differing in [%s] (data equal=%v) have equal hash input=%v", what, same, string(b1) == string(b2)),
				map[string]any{"a": cVehicleH(v), "b": cVehicleH(&m), "difference": what})
		}
		if i%4 == 0 {
			vehCases = append(vehCases, cPair(cVehicleH(&m), cBytes(b2)))
		}
	}
	kinds := map[string]int{}
	for i := 0; i < nPairs; i++ {
		t := g.trip()
		b, _ := hashTripBytes(t)
		if g.coin(0.75) {
			m, what := g.mutateTrip(t)
			kinds[what]++
			bm, r := hashTripBytes(m)
			ctx.evaluations++
			same := reflect.DeepEqual(tripData(t), tripData(m))
			if !r.panicked && (string(b) == string(bm)) != same {
				ctx.violate("hash-misses-change", fmt.Sprintf("trips differing in [%s] (data equal=%v) have equal hash input=%v", what, same, string(b) == string(bm)),
					map[string]any{"a": cTrip(t), "b": cTrip(m), "difference": what})
			}
			if g.coin(0.3) {
				tripCases = append(tripCases, cPair(cTrip(m), cBytes(bm)))
			}
			// the same mutation seen through a vehicle
			if g.coin(0.3) {
				v1, v2 := &gtfs.Vehicle{Trip: t}, &gtfs.Vehicle{Trip: m}
				b1, _ := hashVehicleBytes(v1)
				b2, _ := hashVehicleBytes(v2)
				if (string(b1) == string(b2)) != same {
					ctx.violate("vehicle-hash-misses-trip-change", "vehicles whose trips differ in ["+what+"] have equal hash input",
						map[string]any{"a": cTrip(t), "b": cTrip(m), "difference": what})
				}
			}
		} else {
			m := g.representTrip(t)
			kinds["re-presentation"]++
			bm, _ := hashTripBytes(m)
			ctx.evaluations++
			if string(b) != string(bm) {
				ctx.violate("hash-depends-on-presentation", "trips equal in every data field but differing in zone / in-message flag / vehicle back-reference hash differently",
					map[string]any{"a": cTrip(t), "b": cTrip(m)})
			}
		}
	}
	ctx.distribution["pair_kinds"] = kinds
	ctx.distribution["trips"] = nTrips
	ctx.distribution["vehicles"] = nVeh
	ctx.distribution["pairs"] = nPairs

	// case files: sharded
	shard := 150
	for i, k := 0, 0; i < len(tripCases); i, k = i+shard, k+1 {
		j := i + shard
		if j > len(tripCases) {
			j = len(tripCases)
		}
		ctx.caseFile(fmt.Sprintf("hash_trip_%d", k), "Model.RtTypes Model.Hash", "(rt_trip * list Z)",
			"fun c => if list_eq_dec Z.eq_dec (hash_trip (fst c)) (snd c) then true else false", tripCases[i:j])
	}
	for i, k := 0, 0; i < len(vehCases); i, k = i+shard, k+1 {
		j := i + shard
		if j > len(vehCases) {
			j = len(vehCases)
		}
		ctx.caseFile(fmt.Sprintf("hash_vehicle_%d", k), "Model.RtTypes Model.Hash", "(hvehicle * list Z)",
			"fun c => if list_eq_dec Z.eq_dec (hash_vehicle (fst c)) (snd c) then true else false", vehCases[i:j])
	}
}
