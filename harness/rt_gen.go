package main

// Generators of GTFS-realtime messages: a structured conflict-free builder (each trip / vehicle described consistently,
// associations form a partial bijection) with every optional field independently present, plus NYCT-extended entities
// and alerts; and a "wild" generator with repeated, conflicting and multi-payload entities for the all-messages clauses.

import (
	"fmt"
	"math"

	gtfsrt "github.com/jamespfennell/gtfs/proto"
	"google.golang.org/protobuf/proto"
)

var rtTripIDs = []string{"t1", "t2", "t3", "", "067800_L..N", "067850_L..S", "123456_M..N", "000205_7X..S01R", "999999_A..N", "12345_L..N", "067800_L.N", "067800_LLL..N", "trip with space", "A", "067800_L·.N", "067850_L··S", "063000_GS•.S01R"}
var rtRoutes = []string{"L", "M", "A", "", "7X", "r1", "A ", " A", "MX", "Mx", "XM", "L ", "a"}
var rtStops = []string{"L01N", "L03S", "M11N", "M11S", "M12N", "M16S", "M18N", "M11X", "M11", "M15N", "A27N", "", "stop"}

func (g *gen) pickTD(l []*gtfsrt.TripDescriptor) *gtfsrt.TripDescriptor { return l[g.r.Intn(len(l))] }
func (g *gen) startTime() *string {
	switch g.r.Intn(8) {
	case 0:
		return nil
	case 1:
		return ptr(g.pick([]string{"", "1:00:00", "25:10:30", "99:59:59", "00:00:00", "ab:cd:ef", "10:00:00 ", "10:00", "10:00:0x", "١٠:٠٠:٠٠",
			"+9:30:00", "09:+5:00", "-1:00:00", "09:30:+5", "09:30:-5", " 9:30:00", "24:30:00", "00:30:00", "9:30:00", "009:30:00", "0x:30:00", "1e:00:00",
			// exactly eight BYTES, the digits of another script among them: not HH:MM:SS
			"\u0668:30:00", "\u0662:\u0662:\u0662", "09:30:\u0660", "\u0969\u0966:00", "\uff11:30:00"}))
	default:
		return ptr(fmt.Sprintf("%02d:%02d:%02d", g.r.Intn(30), g.r.Intn(60), g.r.Intn(60)))
	}
}
func (g *gen) startDate() *string {
	switch g.r.Intn(8) {
	case 0:
		return nil
	case 1:
		return ptr(g.pick([]string{"", "2023111", "202311140", "2023-11-14", "20231305", "20230231", "00000000", "20231105", "20230312", "99991231", "2023111x",
			"00010101", "00010102", "00000615", "19000229", "21000229", "20240229", "20230229", "+2023111", "-2023111", "2023 114", "0x231114",
			"202401\u0663", "\u0662\u0660\u0662\u0664", "2024\u0660\u0661", "19700101", "19691231"}))
	default:
		return ptr(fmt.Sprintf("%04d%02d%02d", 2020+g.r.Intn(6), 1+g.r.Intn(12), 1+g.r.Intn(28)))
	}
}
func (g *gen) tripDesc(id string, nyct bool) *gtfsrt.TripDescriptor {
	td := &gtfsrt.TripDescriptor{}
	if id != "" || g.coin(0.5) {
		td.TripId = ptr(id)
	}
	if g.coin(0.7) {
		td.RouteId = ptr(g.pick(rtRoutes))
	}
	if g.coin(0.5) {
		td.DirectionId = ptr(uint32(g.r.Intn(3)))
	}
	td.StartTime = g.startTime()
	td.StartDate = g.startDate()
	if g.coin(0.3) {
		td.ScheduleRelationship = gtfsrt.TripDescriptor_ScheduleRelationship(g.r.Intn(4)).Enum()
	}
	if nyct {
		n := &gtfsrt.NyctTripDescriptor{}
		if g.coin(0.8) {
			n.TrainId = ptr(g.pick([]string{"0L 1118", "1M 0542", "", "0A 0001"}))
		}
		if g.coin(0.8) {
			n.IsAssigned = ptr(g.coin(0.6))
		}
		if g.coin(0.8) {
			n.Direction = gtfsrt.NyctTripDescriptor_Direction([]int32{1, 2, 3, 4}[g.r.Intn(4)]).Enum()
		}
		proto.SetExtension(td, gtfsrt.E_NyctTripDescriptor, n)
	}
	return td
}
func (g *gen) rtEvent(base int64) *gtfsrt.TripUpdate_StopTimeEvent {
	if g.coin(0.3) {
		return nil
	}
	e := &gtfsrt.TripUpdate_StopTimeEvent{}
	if g.coin(0.75) {
		switch g.r.Intn(6) {
		case 0:
			e.Time = ptr(int64(0))
		case 1:
			e.Time = ptr(g.i64())
			if g.coin(0.3) {
				e.Time = ptr(g.pick64([]int64{math.MinInt64, math.MinInt64 + 1000, math.MinInt64 + base, math.MaxInt64, math.MaxInt64 - base, -base, -1, 1}))
			}
		default:
			e.Time = ptr(base + int64(g.r.Intn(5)) - 2)
		}
	}
	if g.coin(0.5) {
		e.Delay = ptr(g.i32())
	}
	if g.coin(0.4) {
		e.Uncertainty = ptr(g.i32())
	}
	return e
}
func (g *gen) rtStu(base int64, nyct bool) *gtfsrt.TripUpdate_StopTimeUpdate {
	u := &gtfsrt.TripUpdate_StopTimeUpdate{Arrival: g.rtEvent(base), Departure: g.rtEvent(base)}
	if g.coin(0.85) {
		u.StopId = ptr(g.pick(rtStops))
	}
	if g.coin(0.6) {
		u.StopSequence = ptr(g.u32())
	}
	if g.coin(0.3) {
		u.ScheduleRelationship = gtfsrt.TripUpdate_StopTimeUpdate_ScheduleRelationship(g.r.Intn(3)).Enum()
	}
	if nyct && g.coin(0.8) {
		n := &gtfsrt.NyctStopTimeUpdate{}
		if g.coin(0.7) {
			n.ScheduledTrack = ptr(g.pick([]string{"1", "2", "A1", ""}))
		}
		if g.coin(0.5) {
			n.ActualTrack = ptr(g.pick([]string{"3", "4", ""}))
		}
		proto.SetExtension(u, gtfsrt.E_NyctStopTimeUpdate, n)
	}
	return u
}
func (g *gen) vehDesc(id string) *gtfsrt.VehicleDescriptor {
	// id "" => label-only or plate-only descriptor (still a non-empty descriptor)
	v := &gtfsrt.VehicleDescriptor{}
	if id != "" {
		v.Id = ptr(id)
		if g.coin(0.3) {
			v.Label = ptr("label-" + id)
		}
		if g.coin(0.2) {
			v.LicensePlate = ptr("plate")
		}
	}
	return v
}
func (g *gen) vehiclePosition(ts uint64) *gtfsrt.VehiclePosition {
	vp := &gtfsrt.VehiclePosition{}
	if g.coin(0.7) {
		p := &gtfsrt.Position{Latitude: ptr(g.f32()), Longitude: ptr(g.f32())}
		if g.coin(0.5) {
			p.Bearing = ptr(g.f32())
		}
		if g.coin(0.4) {
			p.Odometer = ptr(float64(g.f32()) * 3.3)
		}
		if g.coin(0.5) {
			p.Speed = ptr(g.f32())
		}
		vp.Position = p
	}
	if g.coin(0.6) {
		vp.CurrentStopSequence = ptr(g.u32())
	}
	if g.coin(0.6) {
		vp.StopId = ptr(g.pick(rtStops))
	}
	if g.coin(0.5) {
		vp.CurrentStatus = gtfsrt.VehiclePosition_VehicleStopStatus(g.r.Intn(3)).Enum()
	}
	if g.coin(0.7) {
		switch g.r.Intn(5) {
		case 0:
			vp.Timestamp = ptr(uint64(0))
		case 1:
			vp.Timestamp = ptr(uint64(1<<63 + uint64(g.r.Intn(1000))))
			if g.coin(0.6) {
				// 2^64-62135596800 wraps (uint64 -> int64) to the Unix second of Go's zero time.Time: a timestamp like any other
				vp.Timestamp = ptr([]uint64{18446744011573954816, 18446744011573954815, 18446744011573954817, math.MaxUint64, 1<<63 - 1, 1 << 63, 62135596800, 1, 1<<32 - 1, 1 << 32}[g.r.Intn(10)])
			}
		default:
			vp.Timestamp = ptr(ts + uint64(g.r.Intn(100)))
		}
	}
	if g.coin(0.4) {
		vp.CongestionLevel = gtfsrt.VehiclePosition_CongestionLevel(g.r.Intn(5)).Enum()
	}
	if g.coin(0.4) {
		vp.OccupancyStatus = gtfsrt.VehiclePosition_OccupancyStatus(g.r.Intn(7)).Enum()
	}
	if g.coin(0.4) {
		vp.OccupancyPercentage = ptr(g.u32())
	}
	return vp
}
func (g *gen) translated() *gtfsrt.TranslatedString {
	if g.coin(0.4) {
		return nil
	}
	ts := &gtfsrt.TranslatedString{}
	for i := g.r.Intn(3); i > 0; i-- {
		t := &gtfsrt.TranslatedString_Translation{Text: ptr(g.pick([]string{"Delays", "No service", "", "L trains are running with delays"}))}
		if g.coin(0.6) {
			t.Language = ptr(g.pick([]string{"en", "en-html", "", "github.com/jamespfennell/gtfs/extensions/nyctalerts/Metadata"}))
		}
		ts.Translation = append(ts.Translation, t)
	}
	return ts
}
func (g *gen) selector(mercury bool) *gtfsrt.EntitySelector {
	s := &gtfsrt.EntitySelector{}
	if g.coin(0.25) {
		s.AgencyId = ptr(g.pick([]string{"MTA NYCT", "", "a"}))
	}
	if g.coin(0.4) {
		s.RouteId = ptr(g.pick(rtRoutes))
	}
	if g.coin(0.25) {
		s.RouteType = ptr(int32([]int{0, 1, 2, 3, 7, 8, 11, 12, 100, -1, 10000, 65536, 65537, 65539, 65536 + 11, 65536*7 + 12, 131072 + 3, 1<<24 + 2, 1<<31 - 65536 + 1, -65536 + 1, -65536, 256, 256 + 3, 1<<31 - 1, -(1 << 31)}[g.r.Intn(25)]))
	}
	if g.coin(0.25) {
		s.DirectionId = ptr(uint32(g.r.Intn(3)))
	}
	if g.coin(0.3) {
		s.StopId = ptr(g.pick(rtStops))
	}
	if g.coin(0.5) {
		td := &gtfsrt.TripDescriptor{}
		if g.coin(0.4) {
			td.TripId = ptr(g.pick([]string{"t1", "t9", "", "067800_L..N"}))
		}
		if g.coin(0.7) {
			td.RouteId = ptr(g.pick(rtRoutes))
		}
		if g.coin(0.6) {
			td.DirectionId = ptr(uint32(g.r.Intn(2)))
		}
		if g.coin(0.5) {
			td.StartTime = g.startTime()
		}
		if g.coin(0.5) {
			td.StartDate = g.startDate()
		}
		s.Trip = td
	}
	if mercury && g.coin(0.7) {
		so := g.pick([]string{"MTASBWY:L:", "MTASBWY:A:", "x", "", "a:b:"})
		switch g.r.Intn(8) {
		case 0:
			so += g.pick([]string{"", "x", "-1", "999", "+5", "4294967298", "99999999999999999999", "2147483648", "4294967295", "+3000000000", "9223372036854775807", "2147483647", "-2147483649", "4294967326", "00030", "3 "})
		default:
			so += fmt.Sprint(1 + g.r.Intn(42))
		}
		if g.coin(0.05) {
			so = "nocolon"
		}
		proto.SetExtension(s, gtfsrt.E_MercuryEntitySelector, &gtfsrt.MercuryEntitySelector{SortOrder: ptr(so)})
	}
	return s
}
func (g *gen) alert(mercury bool) *gtfsrt.Alert {
	a := &gtfsrt.Alert{Url: g.translated(), HeaderText: g.translated(), DescriptionText: g.translated()}
	for i := g.r.Intn(3); i > 0; i-- {
		p := &gtfsrt.TimeRange{}
		if g.coin(0.7) {
			p.Start = ptr(uint64(1700000000 + g.r.Intn(100000)))
		}
		if g.coin(0.5) {
			p.End = ptr(uint64(1700000000 + g.r.Intn(100000)))
		}
		a.ActivePeriod = append(a.ActivePeriod, p)
	}
	for i := g.r.Intn(6); i > 0; i-- {
		a.InformedEntity = append(a.InformedEntity, g.selector(mercury))
	}
	if g.coin(0.5) {
		a.Cause = gtfsrt.Alert_Cause(1 + g.r.Intn(12)).Enum()
	}
	if g.coin(0.5) {
		a.Effect = gtfsrt.Alert_Effect(1 + g.r.Intn(11)).Enum()
	}
	if mercury && g.coin(0.6) {
		m := &gtfsrt.MercuryAlert{CreatedAt: ptr(uint64(1700000000 + g.r.Intn(1000))), UpdatedAt: ptr(uint64(1700000000 + g.r.Intn(1000))), AlertType: ptr("Delays")}
		if g.coin(0.5) {
			m.DisplayBeforeActive = ptr(uint64(g.r.Intn(10000)))
		}
		if g.coin(0.5) {
			m.HumanReadableActivePeriod = &gtfsrt.TranslatedString{Translation: []*gtfsrt.TranslatedString_Translation{{Text: ptr("Every Monday")}, {Text: ptr("second")}}}
		}
		proto.SetExtension(a, gtfsrt.E_MercuryAlert, m)
	}
	return a
}

var alertIDs = []string{"lmm:planned_work:123", "lmm:alert:77", "lmm:other", "alert-1", "", "A27N#EL123", "A27S#EL123", "A27#EL123", "E01N#EL123", "E01S#EL123", "R25N#EL9", "R25S#EL9",
	"L03N#EL200", "XA27N#EL5", "A2#EL1", "A27N#EL", "ANN#EL7", "ANNN#EL7", "A27N#el123", "pre A27S#EL123 post", "A27N#EL12\n3", "lmm:alert#EL1x", "lmm:planned_workABC#EL1"}

type rtPlan struct {
	msg  *gtfsrt.FeedMessage
	note string
}

// conflictFree builds a message in which every trip and vehicle is described at most once by an entity of its own, every
// mention of a trip (vehicle) uses the same descriptor, associations form a partial bijection, and vehicle descriptors
// inside trip updates are absent or non-empty.
func (g *gen) conflictFree(nyct, alerts bool) *gtfsrt.FeedMessage {
	ts := uint64(1700000000 + g.r.Intn(1000000))
	m := &gtfsrt.FeedMessage{Header: header(ts)}
	if g.coin(0.1) {
		m.Header.Timestamp = nil
	}
	nTrips := g.r.Intn(6)
	ids := g.r.Perm(len(rtTripIDs))
	type tripPlan struct {
		td   *gtfsrt.TripDescriptor
		veh  int // index into vehicles, -1 none
		nyct bool
	}
	var trips []*tripPlan
	for i := 0; i < nTrips; i++ {
		ny := nyct && g.coin(0.6)
		trips = append(trips, &tripPlan{td: g.tripDesc(rtTripIDs[ids[i]], ny), veh: -1, nyct: ny})
	}
	if g.coin(0.15) {
		// a trip whose descriptor determines nothing (present but empty, or only fields the parser drops): its identifier is the
		// zero value, and it is still a trip of its own
		zero := g.pickTD([]*gtfsrt.TripDescriptor{{}, {StartTime: ptr("8:15:00")}, {StartDate: ptr("2024-01-02")}, {StartTime: ptr("7:05:00"), StartDate: ptr("2024-01-15")},
			{ScheduleRelationship: gtfsrt.TripDescriptor_SCHEDULED.Enum()}, {TripId: ptr("")}})
		dup := false
		for _, t := range trips {
			if sameTripID(wantTripID(t.td, nil), wantTripID(zero, nil)) {
				dup = true
			}
		}
		if !dup {
			trips = append(trips, &tripPlan{td: zero, veh: -1})
		}
	}
	// siblings: distinct trips that agree on trip id, route, direction and start time and differ only in the start date
	// (absent / another day) or in the schedule relationship: the identifier order must still separate them
	if nTrips > 0 && !nyct && g.coin(0.35) {
		base := trips[g.r.Intn(len(trips))].td
		distinct := func(td *gtfsrt.TripDescriptor) bool { // by the PARSED identifier: an unparseable date lexeme is "no date"
			k := wantTripID(td, nil)
			for _, t := range trips {
				if sameTripID(wantTripID(t.td, nil), k) {
					return false
				}
			}
			return true
		}
		for k := 1 + g.r.Intn(3); k > 0; k-- {
			sib := proto.Clone(base).(*gtfsrt.TripDescriptor)
			var sib2 *gtfsrt.TripDescriptor
			switch g.r.Intn(9) {
			case 8:
				// direction_id 0 next to no direction_id at all: "absent" is not "0"
				sib2 = proto.Clone(base).(*gtfsrt.TripDescriptor)
				sib.DirectionId, sib2.DirectionId = nil, ptr(uint32(0))
			case 6:
				// "absent" next to the value a zero-initialised field would hold: no start time vs 00:00:00, no date vs 1970-01-01
				sib2 = proto.Clone(base).(*gtfsrt.TripDescriptor)
				if g.coin(0.6) {
					sib.StartTime, sib2.StartTime = nil, ptr("00:00:00")
				} else {
					sib.StartDate, sib2.StartDate = nil, ptr("19700101")
				}
			case 0:
				sib.StartDate = nil
			case 1:
				sib.StartDate = ptr(g.pick([]string{"20240101", "20240102", "20231231", "00010101", "00010102", "00000615", "99991231"}))
				if (*sib.StartDate)[:3] == "000" {
					// a date at or before year 1 next to the same trip without a date: "no date" sorts first whatever the date is
					sib2 = proto.Clone(base).(*gtfsrt.TripDescriptor)
					sib2.StartDate = nil
				}
			case 2:
				sib.ScheduleRelationship = gtfsrt.TripDescriptor_ScheduleRelationship(g.r.Intn(4)).Enum()
			case 3:
				// the same instant spelled two ways - an after-midnight time on one service day, the plain time on the next -
				// are two different trip identifiers (date and time are separate parts of the identifier)
				sib2 = proto.Clone(base).(*gtfsrt.TripDescriptor)
				h, mi := g.r.Intn(6), g.r.Intn(60)
				sib.StartDate, sib.StartTime = ptr("20240101"), ptr(fmt.Sprintf("%02d:%02d:00", 24+h, mi))
				sib2.StartDate, sib2.StartTime = ptr("20240102"), ptr(fmt.Sprintf("%02d:%02d:00", h, mi))
			case 7, 5:
				// identifiers that coincide once their parts are glued together with a separator: "1_2"+"3" vs "1"+"2_3"
				sib2 = proto.Clone(base).(*gtfsrt.TripDescriptor)
				sep := g.pick([]string{"_", "_", "/", "/", "/", "|", ":", " ", "\x00", ",", "-", ";", ""})
				sib.TripId, sib.RouteId = ptr("1"+sep+"2"), ptr("3")
				sib2.TripId, sib2.RouteId = ptr("1"), ptr("2"+sep+"3")
			}
			if distinct(sib) {
				trips = append(trips, &tripPlan{td: sib, veh: -1})
			}
			if sib2 != nil && distinct(sib2) {
				trips = append(trips, &tripPlan{td: sib2, veh: -1})
			}
		}
	}
	nVeh := g.r.Intn(5)
	type vehPlan struct {
		desc  *gtfsrt.VehicleDescriptor // nil = no descriptor at all
		trip  int
		empty bool // with desc == nil: the vehicle position carries a descriptor whose fields are present but empty (still "no id")
	}
	var vehs []*vehPlan
	for i := 0; i < nVeh; i++ {
		vp := &vehPlan{trip: -1}
		switch g.r.Intn(5) {
		case 0:
			vp.desc = nil
			vp.empty = g.coin(0.4)
		case 1:
			if g.coin(0.5) {
				vp.desc = &gtfsrt.VehicleDescriptor{Label: ptr(fmt.Sprintf("label-only-%d", i))}
			} else { // a licence plate alone identifies a vehicle too
				vp.desc = &gtfsrt.VehicleDescriptor{LicensePlate: ptr(fmt.Sprintf("PLATE-%d", i))}
			}
		default:
			vp.desc = g.vehDesc(fmt.Sprintf("v%d", i))
		}
		vehs = append(vehs, vp)
		if i == 0 && nVeh >= 2 && g.coin(0.12) {
			// two different vehicles whose (id, label, plate) coincide once glued together with a separator
			sep := g.pick([]string{"\x00", "_", "|", " ", "/", ""})
			vehs[0].desc = &gtfsrt.VehicleDescriptor{Id: ptr("A"), Label: ptr("B" + sep + "C")}
			vehs = append(vehs, &vehPlan{trip: -1, desc: &gtfsrt.VehicleDescriptor{Id: ptr("A" + sep + "B"), Label: ptr("C")}})
			if g.coin(0.5) {
				vehs = append(vehs, &vehPlan{trip: -1, desc: &gtfsrt.VehicleDescriptor{Id: ptr("A" + sep)}}, &vehPlan{trip: -1, desc: &gtfsrt.VehicleDescriptor{Id: ptr("A"), Label: ptr("x")}})
			}
			i++
		}
	}
	// associations: partial bijection
	for i, v := range vehs {
		if len(trips) > 0 && g.coin(0.7) {
			t := g.r.Intn(len(trips))
			if trips[t].veh == -1 && !trips[t].nyct { // NYCT-assigned trips get their vehicle from the train id
				trips[t].veh = i
				v.trip = t
			}
		}
	}
	var es []*gtfsrt.FeedEntity
	n := 0
	id := func() *string { n++; return ptr(fmt.Sprintf("e%d", n)) }
	for _, t := range trips {
		hasTU := g.coin(0.75)
		if t.veh >= 0 && vehs[t.veh].desc == nil {
			hasTU = g.coin(0.5) // the association can only be expressed by the vehicle position
		}
		if hasTU {
			tu := &gtfsrt.TripUpdate{Trip: proto.Clone(t.td).(*gtfsrt.TripDescriptor)}
			for k := g.r.Intn(5); k > 0; k-- {
				tu.StopTimeUpdate = append(tu.StopTimeUpdate, g.rtStu(int64(ts), t.nyct))
			}
			if t.veh >= 0 && vehs[t.veh].desc != nil && g.coin(0.6) {
				tu.Vehicle = proto.Clone(vehs[t.veh].desc).(*gtfsrt.VehicleDescriptor)
			}
			es = append(es, &gtfsrt.FeedEntity{Id: id(), TripUpdate: tu})
		}
	}
	for _, v := range vehs {
		if g.coin(0.75) || v.desc == nil {
			vp := g.vehiclePosition(ts)
			if v.desc != nil {
				vp.Vehicle = proto.Clone(v.desc).(*gtfsrt.VehicleDescriptor)
			} else if v.empty {
				vp.Vehicle = &gtfsrt.VehicleDescriptor{Id: ptr("")}
				if g.coin(0.3) {
					vp.Vehicle.Label = ptr("")
				}
			}
			if v.trip >= 0 && (g.coin(0.7) || v.desc == nil) {
				vp.Trip = proto.Clone(trips[v.trip].td).(*gtfsrt.TripDescriptor)
			}
			es = append(es, &gtfsrt.FeedEntity{Id: id(), Vehicle: vp})
		}
	}
	if alerts {
		for k := g.r.Intn(4); k > 0; k-- {
			a := g.alert(nyct)
			// alerts may reference the message's own trips with the same descriptor
			if len(trips) > 0 && g.coin(0.5) {
				a.InformedEntity = append(a.InformedEntity, &gtfsrt.EntitySelector{Trip: proto.Clone(trips[g.r.Intn(len(trips))].td).(*gtfsrt.TripDescriptor)})
				for len(trips) > 1 && g.coin(0.5) && len(a.InformedEntity) < 6 { // several of them in one alert
					a.InformedEntity = append(a.InformedEntity, &gtfsrt.EntitySelector{Trip: proto.Clone(trips[g.r.Intn(len(trips))].td).(*gtfsrt.TripDescriptor)})
				}
			}
			aid := g.pick(alertIDs[:5])
			if nyct {
				aid = g.pick(alertIDs)
			}
			es = append(es, &gtfsrt.FeedEntity{Id: ptr(aid), Alert: a})
		}
	}
	g.r.Shuffle(len(es), func(i, j int) { es[i], es[j] = es[j], es[i] })
	for _, e := range es {
		if g.coin(0.08) {
			e.IsDeleted = ptr(g.coin(0.7)) // not interpreted by the parser: flagged entities are entities like any other
		}
	}
	m.Entity = es
	return m
}

// wild: repeated and conflicting mentions, empty vehicle descriptors in trip updates, entities with several payloads
func (g *gen) wild(nyct bool) *gtfsrt.FeedMessage {
	ts := uint64(1700000000 + g.r.Intn(1000000))
	m := &gtfsrt.FeedMessage{Header: header(ts)}
	for k := g.r.Intn(10); k > 0; k-- {
		e := &gtfsrt.FeedEntity{Id: ptr(g.pick(alertIDs))}
		kind := g.r.Intn(3)
		if kind == 0 || g.coin(0.05) {
			tu := &gtfsrt.TripUpdate{Trip: g.tripDesc(g.pick(rtTripIDs[:5]), nyct && g.coin(0.5))}
			for j := g.r.Intn(4); j > 0; j-- {
				tu.StopTimeUpdate = append(tu.StopTimeUpdate, g.rtStu(int64(ts), nyct))
			}
			if g.coin(0.5) {
				tu.Vehicle = g.vehDesc(g.pick([]string{"v1", "v2", "", "0L 1118", "1M 0542"}))
			}
			e.TripUpdate = tu
		}
		if kind == 1 || g.coin(0.05) {
			vp := g.vehiclePosition(ts)
			if g.coin(0.7) {
				vp.Vehicle = g.vehDesc(g.pick([]string{"v1", "v2", "", "0L 1118", "1M 0542"}))
			}
			if g.coin(0.6) {
				vp.Trip = g.tripDesc(g.pick(rtTripIDs[:5]), nyct && g.coin(0.5))
			}
			e.Vehicle = vp
		}
		if kind == 2 || g.coin(0.05) {
			e.Alert = g.alert(nyct)
		}
		if g.coin(0.08) {
			e.IsDeleted = ptr(g.coin(0.7))
		}
		m.Entity = append(m.Entity, e)
	}
	return m
}
