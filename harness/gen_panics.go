package main

// harness gen, part 4: Gen/PanicSites.v — the inventory of expressions in the library source that can panic at run time
// (C05): index and slice expressions, explicit pointer dereferences, unchecked type assertions, calls to panic, integer
// division / remainder, conversions of a nil-able proto getter result are NOT listed (proto getters are nil-safe).
// Field selections through pointers (p.f) are listed only when p is a local that can be nil by construction:
// that needs types, so instead the inventory lists every `x == nil` / `x != nil` guard alongside, and the per-site
// argument lives in Properties/C05.v, which pins this list: a new potentially panicking expression breaks that obligation.

import (
	"fmt"
	"go/ast"
	"go/parser"
	"go/token"
	"path/filepath"
	"sort"
	"strings"
)

func (g *genCtx) genPanicSites(repo string) string {
	var sites []string
	for _, rel := range footprintFiles {
		fset := token.NewFileSet()
		f, err := parser.ParseFile(fset, filepath.Join(repo, rel), nil, 0)
		if err != nil {
			g.fail("panic sites: parse %s: %v", rel, err)
			continue
		}
		for _, d := range f.Decls {
			fd, ok := d.(*ast.FuncDecl)
			if !ok || fd.Body == nil {
				continue
			}
			fname := fd.Name.Name
			if fd.Recv != nil && len(fd.Recv.List) > 0 {
				fname = exprText(fset, fd.Recv.List[0].Type) + "." + fname
			}
			// names known to be maps in this function (indexing a map never panics on read)
			mapNames := map[string]bool{}
			mapOfMap := map[string]bool{}
			ast.Inspect(fd, func(n ast.Node) bool {
				switch s := n.(type) {
				case *ast.Field:
					if isMapType(s.Type) {
						for _, nm := range s.Names {
							mapNames[nm.Name] = true
						}
					}
				case *ast.AssignStmt:
					for i, l := range s.Lhs {
						id, ok := l.(*ast.Ident)
						if !ok || i >= len(s.Rhs) {
							continue
						}
						switch r := s.Rhs[i].(type) {
						case *ast.CompositeLit:
							if r.Type != nil && isMapType(r.Type) {
								mapNames[id.Name] = true
							}
						case *ast.CallExpr:
							if fn, ok := r.Fun.(*ast.Ident); ok && fn.Name == "make" && len(r.Args) > 0 && isMapType(r.Args[0]) {
								mapNames[id.Name] = true
							}
						}
					}
				case *ast.ValueSpec:
					for i, nm := range s.Names {
						if s.Type != nil && isMapType(s.Type) {
							mapNames[nm.Name] = true
						}
						if i < len(s.Values) {
							if r, ok := s.Values[i].(*ast.CallExpr); ok {
								if fn, ok := r.Fun.(*ast.Ident); ok && fn.Name == "make" && len(r.Args) > 0 && isMapType(r.Args[0]) {
									mapNames[nm.Name] = true
									if mt, ok := r.Args[0].(*ast.MapType); ok && isMapType(mt.Value) {
										mapOfMap[nm.Name] = true
									}
								}
							}
							if r, ok := s.Values[i].(*ast.CompositeLit); ok && r.Type != nil && isMapType(r.Type) {
								mapNames[nm.Name] = true
							}
						}
					}
				}
				return true
			})
			// d := m[k] / d, ok := m[k] where m is a map of maps
			ast.Inspect(fd, func(n ast.Node) bool {
				if as, ok := n.(*ast.AssignStmt); ok && len(as.Rhs) == 1 {
					if ix, ok := as.Rhs[0].(*ast.IndexExpr); ok {
						if id, ok := ix.X.(*ast.Ident); ok && mapOfMap[id.Name] {
							if l, ok := as.Lhs[0].(*ast.Ident); ok {
								mapNames[l.Name] = true
							}
						}
					}
				}
				return true
			})
			isMapExpr := func(e ast.Expr) bool {
				switch x := e.(type) {
				case *ast.Ident:
					return mapNames[x.Name] || strings.HasSuffix(x.Name, "Map") || strings.Contains(x.Name, "To") || x.Name == "m" || x.Name == "priortyToEffect" || x.Name == "timetabledNoServicePriorities" || x.Name == "buggyStationIDs" || x.Name == "trips" && strings.HasSuffix(rel, "journal.go") || x.Name == "activeTrips" || x.Name == "newActiveTrips"
				case *ast.SelectorExpr:
					return x.Sel.Name == "headerMap" || x.Sel.Name == "elevatorAlerts"
				case *ast.IndexExpr:
					if id, ok := x.X.(*ast.Ident); ok && mapOfMap[id.Name] {
						return true
					}
					return false
				}
				return false
			}
			// StarExprs that are types (pointer types), not dereferences
			typeStars := map[*ast.StarExpr]bool{}
			var markType func(e ast.Expr)
			markType = func(e ast.Expr) {
				ast.Inspect(e, func(n ast.Node) bool {
					if st, ok := n.(*ast.StarExpr); ok {
						typeStars[st] = true
					}
					return true
				})
			}
			ast.Inspect(fd, func(n ast.Node) bool {
				switch x := n.(type) {
				case *ast.Field:
					markType(x.Type)
				case *ast.MapType:
					markType(x.Key)
					markType(x.Value)
				case *ast.ArrayType:
					markType(x.Elt)
				case *ast.CompositeLit:
					if x.Type != nil {
						markType(x.Type)
					}
				case *ast.ValueSpec:
					if x.Type != nil {
						markType(x.Type)
					}
				case *ast.TypeAssertExpr:
					if x.Type != nil {
						markType(x.Type)
					}
				case *ast.CallExpr:
					if p, ok := x.Fun.(*ast.ParenExpr); ok { // conversion (*T)(x)
						markType(p.X)
					}
					if id, ok := x.Fun.(*ast.Ident); ok && (id.Name == "make" || id.Name == "new") && len(x.Args) > 0 {
						markType(x.Args[0])
					}
				case *ast.CaseClause: // type switch cases
					for _, e := range x.List {
						if st, ok := e.(*ast.StarExpr); ok {
							typeStars[st] = true
						}
					}
				}
				return true
			})
			commaOK := map[ast.Expr]bool{}
			ast.Inspect(fd.Body, func(n ast.Node) bool {
				if as, ok := n.(*ast.AssignStmt); ok && len(as.Lhs) == 2 && len(as.Rhs) == 1 {
					commaOK[as.Rhs[0]] = true
				}
				if vs, ok := n.(*ast.ValueSpec); ok && len(vs.Names) == 2 && len(vs.Values) == 1 {
					commaOK[vs.Values[0]] = true
				}
				return true
			})
			add := func(kind string, e ast.Expr) {
				sites = append(sites, fmt.Sprintf("(%s, %s, %s, %s)", coqStrLit(rel), coqStrLit(fname), coqStrLit(kind), coqStrLit(exprText(fset, e))))
			}
			ast.Inspect(fd.Body, func(n ast.Node) bool {
				switch x := n.(type) {
				case *ast.IndexExpr:
					if !isMapExpr(x.X) {
						add("index", x)
					}
				case *ast.SliceExpr:
					add("slice", x)
				case *ast.StarExpr:
					if !typeStars[x] {
						add("deref", x)
					}
				case *ast.TypeAssertExpr:
					if x.Type != nil && !commaOK[x] {
						add("assert", x)
					}
				case *ast.CallExpr:
					if id, ok := x.Fun.(*ast.Ident); ok && id.Name == "panic" {
						add("panic", x)
					}
				case *ast.BinaryExpr:
					if x.Op == token.QUO || x.Op == token.REM {
						add("div", x)
					}
				case *ast.CompositeLit, *ast.FuncLit:
				}
				return true
			})
		}
	}
	sort.Strings(sites)
	{
		var u []string
		for i, x := range sites {
			if i == 0 || x != sites[i-1] {
				u = append(u, x)
			}
		}
		sites = u
	}
	var b strings.Builder
	b.WriteString("(* generated by harness gen from the library source: do not edit *)\nFrom Coq Require Import String List.\nImport ListNotations.\nLocal Open Scope string_scope.\n\n")
	b.WriteString("Definition panic_sites : list (string * string * string * string) := [\n")
	for i, r := range sites {
		sep := ";"
		if i == len(sites)-1 {
			sep = ""
		}
		fmt.Fprintf(&b, "  %s%s\n", r, sep)
	}
	b.WriteString("].\n\n")
	// the robust summary Properties/C05.v pins: unchecked type assertions and explicit panics (function names left out)
	var unchecked []string
	for _, r := range sites {
		if strings.Contains(r, `, "assert", `) || strings.Contains(r, `, "panic", `) {
			parts := strings.SplitN(r, ", ", 4)
			unchecked = append(unchecked, parts[0]+", "+parts[2]+", "+parts[3])
		}
	}
	b.WriteString("Definition unchecked_sites : list (string * string * string) := [\n")
	for i, r := range unchecked {
		sep := ";"
		if i == len(unchecked)-1 {
			sep = ""
		}
		fmt.Fprintf(&b, "  %s%s\n", r, sep)
	}
	b.WriteString("].\n")
	return b.String()
}
