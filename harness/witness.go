package main

// Deterministic witnesses of the defects found in jamespfennell/gtfs while reading (DESIGN §7).
// Each returns violated=true when the real code (rebuilt from the working tree) still shows the defect.
// The checks run the witnesses of their property first ("corpus"): a fixed defect that returns is a violation,
// a known finding that still reproduces is printed as KNOWN-FINDING.

import (
	"archive/zip"
	"bytes"
	"fmt"
	"os"
	"reflect"
	"sort"
	"strings"
	"time"

	"github.com/jamespfennell/gtfs"
	"github.com/jamespfennell/gtfs/extensions/nyctalerts"
	"github.com/jamespfennell/gtfs/extensions/nycttrips"
	"github.com/jamespfennell/gtfs/journal"
	gtfsrt "github.com/jamespfennell/gtfs/proto"
	"google.golang.org/protobuf/proto"
)

type Witness struct {
	ID    string
	Props []string
	Key   string // stable key used in known-findings.txt
	Desc  string
	Run   func() (violated bool, detail string)
}

type member struct{ name, content string }

func buildZipMembers(ms []member, method uint16) []byte {
	var b bytes.Buffer
	w := zip.NewWriter(&b)
	for _, m := range ms {
		f, err := w.CreateHeader(&zip.FileHeader{Name: m.name, Method: method})
		if err != nil {
			panic(err)
		}
		f.Write([]byte(m.content))
	}
	w.Close()
	return b.Bytes()
}

func buildZip(files map[string]string) []byte {
	var names []string
	for n := range files {
		names = append(names, n)
	}
	sort.Strings(names)
	var ms []member
	for _, n := range names {
		ms = append(ms, member{n, files[n]})
	}
	return buildZipMembers(ms, zip.Deflate)
}

// a minimal valid feed; callers override / add files
func baseFeed() map[string]string {
	return map[string]string{
		"agency.txt":     "agency_id,agency_name,agency_url,agency_timezone\nA,Agency,http://a,America/New_York\n",
		"routes.txt":     "route_id,route_type\nR,1\n",
		"stops.txt":      "stop_id,stop_name\nS1,one\nS2,two\n",
		"calendar.txt":   "service_id,monday,tuesday,wednesday,thursday,friday,saturday,sunday,start_date,end_date\nSV,1,1,1,1,1,0,0,20240101,20241231\n",
		"trips.txt":      "route_id,service_id,trip_id\nR,SV,T1\nR,SV,T2\n",
		"stop_times.txt": "trip_id,stop_id,stop_sequence,arrival_time,departure_time\nT1,S1,1,10:00:00,10:00:30\nT1,S2,2,10:05:00,10:05:30\n",
	}
}

type callResult struct {
	panicked bool
	hung     bool
	msg      string
}

// guarded runs f under recover and a deadline.
func guarded(d time.Duration, f func()) callResult {
	ch := make(chan callResult, 1)
	go func() {
		defer func() {
			if r := recover(); r != nil {
				ch <- callResult{panicked: true, msg: fmt.Sprint(r)}
			}
		}()
		f()
		ch <- callResult{}
	}()
	select {
	case r := <-ch:
		return r
	case <-time.After(d):
		return callResult{hung: true, msg: "deadline exceeded"}
	}
}

func parseStaticGuarded(content []byte, opts gtfs.ParseStaticOptions) (*gtfs.Static, error, callResult) {
	var s *gtfs.Static
	var err error
	r := guarded(20*time.Second, func() { s, err = gtfs.ParseStatic(content, opts) })
	return s, err, r
}

func ptr[T any](v T) *T { return &v }

func marshal(m *gtfsrt.FeedMessage) []byte {
	b, err := proto.Marshal(m)
	if err != nil {
		panic(err)
	}
	return b
}

func header(ts uint64) *gtfsrt.FeedHeader {
	return &gtfsrt.FeedHeader{GtfsRealtimeVersion: ptr("2.0"), Timestamp: ptr(ts)}
}

type sliceSource struct {
	feeds []*gtfs.Realtime
	i     int
}

func (s *sliceSource) Next() *gtfs.Realtime {
	if s.i >= len(s.feeds) {
		return nil
	}
	s.i++
	return s.feeds[s.i-1]
}

func elevatorMsg() []byte {
	return marshal(&gtfsrt.FeedMessage{Header: header(100), Entity: []*gtfsrt.FeedEntity{
		{Id: ptr("A27N#EL123"), Alert: &gtfsrt.Alert{InformedEntity: []*gtfsrt.EntitySelector{{StopId: ptr("A27N")}}}},
	}})
}

var witnesses = []Witness{
	{ID: "S1", Props: []string{"C10"}, Key: "one-sided-stop-time-zeroed",
		Desc: "stop time giving only arrival (or only departure): the other must take the same value",
		Run: func() (bool, string) {
			f := baseFeed()
			f["stop_times.txt"] = "trip_id,stop_id,stop_sequence,arrival_time,departure_time\nT1,S1,1,10:00:00,\nT1,S2,2,,10:05:30\n"
			s, err, r := parseStaticGuarded(buildZip(f), gtfs.ParseStaticOptions{})
			if err != nil || r.panicked || r.hung {
				return true, fmt.Sprint(err, r)
			}
			st := s.Trips[0].StopTimes
			if len(st) != 2 {
				return true, fmt.Sprintf("%d stop times", len(st))
			}
			want0, want1 := 10*time.Hour, 10*time.Hour+5*time.Minute+30*time.Second
			if st[0].ArrivalTime != want0 || st[0].DepartureTime != want0 || st[1].ArrivalTime != want1 || st[1].DepartureTime != want1 {
				return true, fmt.Sprintf("got arr/dep %v/%v and %v/%v", st[0].ArrivalTime, st[0].DepartureTime, st[1].ArrivalTime, st[1].DepartureTime)
			}
			return false, ""
		}},
	{ID: "S2", Props: []string{"C05", "C09"}, Key: "stop-times-unknown-trip-after-known-panics",
		Desc: "stop_times row naming an unknown trip after a row of a known trip must be skipped, not panic",
		Run: func() (bool, string) {
			f := baseFeed()
			f["stop_times.txt"] = "trip_id,stop_id,stop_sequence,arrival_time,departure_time\nT1,S1,1,10:00:00,10:00:30\nNOPE,S2,2,10:05:00,10:05:30\nT1,S2,3,10:06:00,10:06:30\n"
			s, err, r := parseStaticGuarded(buildZip(f), gtfs.ParseStaticOptions{})
			if r.panicked || r.hung {
				return true, r.msg
			}
			if err != nil || len(s.Trips[0].StopTimes) != 2 {
				return true, fmt.Sprint("unexpected result ", err)
			}
			return false, ""
		}},
	{ID: "S3", Props: []string{"C05", "C09"}, Key: "shapes-non-numeric-panics",
		Desc: "shapes row with non-numeric lat/lon/sequence must be skipped, not panic",
		Run: func() (bool, string) {
			for _, row := range []string{"SH,x,2.0,1", "SH,1.0,y,1", "SH,1.0,2.0,z", "SH,1.0,2.0,99999999999"} {
				f := baseFeed()
				f["shapes.txt"] = "shape_id,shape_pt_lat,shape_pt_lon,shape_pt_sequence\nSH,1.0,2.0,0\n" + row + "\n"
				s, err, r := parseStaticGuarded(buildZip(f), gtfs.ParseStaticOptions{})
				if r.panicked || r.hung {
					return true, row + ": " + r.msg
				}
				if err != nil || len(s.Shapes) != 1 || len(s.Shapes[0].Points) != 1 {
					return true, row + ": unexpected result"
				}
			}
			return false, ""
		}},
	{ID: "S4", Props: []string{"C03", "C05"}, Key: "parent-cycle-root-hangs",
		Desc: "cyclic or self parent_station: Stop.Root() must terminate (no stop is its own ancestor)",
		Run: func() (bool, string) {
			for _, stops := range []string{
				"stop_id,parent_station\nS1,S1\nS2,\n",
				"stop_id,parent_station\nS1,S2\nS2,S1\n",
				"stop_id,parent_station\nS1,S2\nS2,S3\nS3,S1\nS4,S1\n",
			} {
				f := baseFeed()
				f["stops.txt"] = stops
				s, err, r := parseStaticGuarded(buildZip(f), gtfs.ParseStaticOptions{})
				if err != nil || r.panicked || r.hung {
					return true, fmt.Sprint(err, r)
				}
				for i := range s.Stops {
					st := &s.Stops[i]
					p := st
					for n := 0; p != nil; n++ {
						if n > len(s.Stops)+1 {
							return true, fmt.Sprintf("stop %s is its own ancestor (stops.txt=%q)", st.Id, stops)
						}
						p = p.Parent
					}
				}
			}
			return false, ""
		}},
	{ID: "S5", Props: []string{"C09", "C03"}, Key: "blank-stop-id-row-attaches-parent-to-first-stop",
		Desc: "a rejected stops row (blank stop_id) that names a parent must not attach that parent to another stop",
		Run: func() (bool, string) {
			f := baseFeed()
			f["stops.txt"] = "stop_id,stop_name,parent_station\nS1,one,\nS2,two,\n,bad,S2\n"
			s, err, r := parseStaticGuarded(buildZip(f), gtfs.ParseStaticOptions{})
			if err != nil || r.panicked || r.hung {
				return true, fmt.Sprint(err, r)
			}
			if s.Stops[0].Parent != nil {
				return true, "stops[0].Parent = " + s.Stops[0].Parent.Id
			}
			return false, ""
		}},
	{ID: "S6", Props: []string{"C06"}, Key: "services-in-map-order",
		Desc: "Static.Services order must not vary between parses of the same bytes",
		Run: func() (bool, string) {
			f := baseFeed()
			cal := "service_id,monday,tuesday,wednesday,thursday,friday,saturday,sunday,start_date,end_date\n"
			for _, id := range []string{"SV", "B", "A", "D", "C", "E"} {
				cal += id + ",1,1,1,1,1,0,0,20240101,20241231\n"
			}
			f["calendar.txt"] = cal
			z := buildZip(f)
			var first []string
			for k := 0; k < 40; k++ {
				s, err := gtfs.ParseStatic(z, gtfs.ParseStaticOptions{})
				if err != nil {
					return true, err.Error()
				}
				var ids []string
				for _, sv := range s.Services {
					ids = append(ids, sv.Id)
				}
				if first == nil {
					first = ids
				} else if !reflect.DeepEqual(first, ids) {
					return true, fmt.Sprintf("orders %v and %v", first, ids)
				}
			}
			return false, ""
		}},
	{ID: "S7", Props: []string{"C10"}, Key: "blank-pickup-type-not-regular",
		Desc: "blank/absent pickup_type and drop_off_type must decode to regular pickup/drop-off (0)",
		Run: func() (bool, string) {
			f := baseFeed()
			s1, err1, _ := parseStaticGuarded(buildZip(f), gtfs.ParseStaticOptions{})
			f["stop_times.txt"] = "trip_id,stop_id,stop_sequence,arrival_time,departure_time,pickup_type,drop_off_type\nT1,S1,1,10:00:00,10:00:30,,\nT1,S2,2,10:05:00,10:05:30,,\n"
			s2, err2, _ := parseStaticGuarded(buildZip(f), gtfs.ParseStaticOptions{})
			if err1 != nil || err2 != nil {
				return true, "error"
			}
			for _, s := range []*gtfs.Static{s1, s2} {
				st := s.Trips[0].StopTimes[0]
				if st.PickupType != gtfs.PickupDropOffPolicy_Yes || st.DropOffType != gtfs.PickupDropOffPolicy_Yes {
					return true, fmt.Sprintf("pickup=%v dropoff=%v", st.PickupType, st.DropOffType)
				}
			}
			return false, ""
		}},
	{ID: "S8", Props: []string{"C09"}, Key: "agency-warning-row-content-aliased",
		Desc: "a warning for a rejected agency row must carry that row's cells, not a later row's",
		Run: func() (bool, string) {
			f := baseFeed()
			f["agency.txt"] = "agency_id,agency_name,agency_url,agency_timezone\nBAD,,http://bad,UTC\nA,Agency,http://a,America/New_York\nZ,Zed,http://z,UTC\n"
			s, err, r := parseStaticGuarded(buildZip(f), gtfs.ParseStaticOptions{})
			if err != nil || r.panicked {
				return true, fmt.Sprint(err, r)
			}
			if len(s.Warnings) != 1 {
				return true, fmt.Sprintf("%d warnings", len(s.Warnings))
			}
			w := s.Warnings[0]
			if w.RowNumber != 1 || !reflect.DeepEqual(w.RowContent, []string{"BAD", "", "http://bad", "UTC"}) {
				return true, fmt.Sprintf("row %d content %q", w.RowNumber, w.RowContent)
			}
			return false, ""
		}},
	{ID: "S9", Props: []string{"C04"}, Key: "idless-vehicle-position-unlinked",
		Desc: "vehicle position with a trip but no vehicle descriptor: Trip.Vehicle and Vehicle.Trip must be set",
		Run: func() (bool, string) {
			b := marshal(&gtfsrt.FeedMessage{Header: header(100), Entity: []*gtfsrt.FeedEntity{
				{Id: ptr("1"), Vehicle: &gtfsrt.VehiclePosition{Trip: &gtfsrt.TripDescriptor{TripId: ptr("T1")}, StopId: ptr("X")}},
			}})
			r, err := gtfs.ParseRealtime(b, &gtfs.ParseRealtimeOptions{})
			if err != nil || len(r.Trips) != 1 || len(r.Vehicles) != 1 {
				return true, "unexpected parse"
			}
			if r.Trips[0].Vehicle == nil || r.Vehicles[0].Trip == nil {
				return true, fmt.Sprintf("Trip.Vehicle nil=%v Vehicle.Trip nil=%v", r.Trips[0].Vehicle == nil, r.Vehicles[0].Trip == nil)
			}
			if r.Trips[0].Vehicle.StopID == nil || *r.Trips[0].Vehicle.StopID != "X" || r.Vehicles[0].Trip.ID.ID != "T1" {
				return true, "links lead elsewhere"
			}
			return false, ""
		}},
	{ID: "S10", Props: []string{"C06"}, Key: "vehicles-in-map-order",
		Desc: "Realtime.Vehicles order must not vary between parses of the same bytes",
		Run: func() (bool, string) {
			var es []*gtfsrt.FeedEntity
			for _, id := range []string{"v3", "v1", "v5", "v2", "v4", "v6"} {
				es = append(es, &gtfsrt.FeedEntity{Id: ptr(id), Vehicle: &gtfsrt.VehiclePosition{Vehicle: &gtfsrt.VehicleDescriptor{Id: ptr(id)}}})
			}
			b := marshal(&gtfsrt.FeedMessage{Header: header(100), Entity: es})
			var first []string
			for k := 0; k < 40; k++ {
				r, err := gtfs.ParseRealtime(b, &gtfs.ParseRealtimeOptions{})
				if err != nil {
					return true, err.Error()
				}
				var ids []string
				for _, v := range r.Vehicles {
					ids = append(ids, v.ID.ID)
				}
				if first == nil {
					first = ids
				} else if !reflect.DeepEqual(first, ids) {
					return true, fmt.Sprintf("orders %v and %v", first, ids)
				}
			}
			return false, ""
		}},
	{ID: "S11", Props: []string{"C06"}, Key: "alert-route-fallback-in-map-order",
		Desc: "order of route-fallback informed entities must not vary between parses of the same bytes",
		Run: func() (bool, string) {
			var sel []*gtfsrt.EntitySelector
			for _, id := range []string{"r3", "r1", "r5", "r2", "r4", "r6"} {
				sel = append(sel, &gtfsrt.EntitySelector{Trip: &gtfsrt.TripDescriptor{RouteId: ptr(id)}, StopId: ptr("s")})
			}
			b := marshal(&gtfsrt.FeedMessage{Header: header(100), Entity: []*gtfsrt.FeedEntity{{Id: ptr("a"), Alert: &gtfsrt.Alert{InformedEntity: sel}}}})
			var first []string
			for k := 0; k < 40; k++ {
				r, err := gtfs.ParseRealtime(b, &gtfs.ParseRealtimeOptions{})
				if err != nil {
					return true, err.Error()
				}
				var ids []string
				for _, e := range r.Alerts[0].InformedEntities {
					if e.RouteID != nil {
						ids = append(ids, *e.RouteID)
					}
				}
				if first == nil {
					first = ids
				} else if !reflect.DeepEqual(first, ids) {
					return true, fmt.Sprintf("orders %v and %v", first, ids)
				}
			}
			return false, ""
		}},
	{ID: "S12", Props: []string{"C06", "C18"}, Key: "parse-realtime-writes-caller-options",
		Desc: "ParseRealtime must not modify the caller's options value",
		Run: func() (bool, string) {
			opts := &gtfs.ParseRealtimeOptions{}
			_, err := gtfs.ParseRealtime(elevatorMsg(), opts)
			if err != nil {
				return true, err.Error()
			}
			if opts.Extension != nil {
				return true, "opts.Extension was nil before the call and is non-nil after it"
			}
			return false, ""
		}},
	{ID: "S13", Props: []string{"C06", "C18"}, Key: "nyctalerts-extension-keeps-elevator-alerts-across-parses",
		Desc: "parsing the same bytes twice with one nyctalerts extension object must give equal results",
		Run: func() (bool, string) {
			ext := nyctalerts.Extension(nyctalerts.ExtensionOpts{ElevatorAlertsDeduplicationPolicy: nyctalerts.DeduplicateInStation})
			opts := &gtfs.ParseRealtimeOptions{Extension: ext}
			r1, err1 := gtfs.ParseRealtime(elevatorMsg(), opts)
			r2, err2 := gtfs.ParseRealtime(elevatorMsg(), opts)
			if err1 != nil || err2 != nil {
				return true, "error"
			}
			if len(r1.Alerts) != 1 || len(r2.Alerts) != len(r1.Alerts) {
				return true, fmt.Sprintf("first parse: %d alerts, second parse: %d alerts", len(r1.Alerts), len(r2.Alerts))
			}
			return false, ""
		}},
	{ID: "S14", Props: []string{"C05"}, Key: "journal-panics-on-short-trip-id-or-nil-stop-id",
		Desc: "BuildJournal must not panic on a trip id shorter than 6 bytes or a stop time update without stop id",
		Run: func() (bool, string) {
			veh := &gtfs.Vehicle{ID: &gtfs.VehicleID{ID: "v"}}
			feeds := [][]*gtfs.Realtime{
				{{CreatedAt: time.Unix(100, 0), Trips: []gtfs.Trip{{ID: gtfs.TripID{ID: "abc"}, Vehicle: veh}}}},
				{{CreatedAt: time.Unix(100, 0), Trips: []gtfs.Trip{{ID: gtfs.TripID{ID: "123456_L"}, Vehicle: veh, StopTimeUpdates: []gtfs.StopTimeUpdate{{}}}}}},
				{{CreatedAt: time.Unix(100, 0), Trips: []gtfs.Trip{{ID: gtfs.TripID{ID: "123456_L"}, Vehicle: veh, StopTimeUpdates: []gtfs.StopTimeUpdate{{StopID: ptr("a")}, {}}}}}},
			}
			for i, fs := range feeds {
				r := guarded(5*time.Second, func() {
					j := journal.BuildJournal(&sliceSource{feeds: fs}, time.Unix(-1<<40, 0), time.Unix(1<<40, 0))
					j.ExportToCsv()
				})
				if r.panicked || r.hung {
					return true, fmt.Sprintf("history %d: %s", i, r.msg)
				}
			}
			return false, ""
		}},
	{ID: "S15", Props: []string{"C16"}, Key: "m-train-swap-rewrites-non-platform-stop",
		Desc: "the M-train platform swap must touch only N/S platforms and be its own inverse",
		Run: func() (bool, string) {
			mk := func(stop string) []byte {
				return marshal(&gtfsrt.FeedMessage{Header: header(100), Entity: []*gtfsrt.FeedEntity{
					{Id: ptr("1"), TripUpdate: &gtfsrt.TripUpdate{Trip: &gtfsrt.TripDescriptor{TripId: ptr("t"), RouteId: ptr("M")},
						StopTimeUpdate: []*gtfsrt.TripUpdate_StopTimeUpdate{{StopId: ptr(stop)}}}},
				}})
			}
			for _, c := range [][2]string{{"M11X", "M11X"}, {"M11N", "M11S"}, {"M11S", "M11N"}, {"M16 ", "M16 "}} {
				r, err := gtfs.ParseRealtime(mk(c[0]), &gtfs.ParseRealtimeOptions{Extension: nycttrips.Extension(nycttrips.ExtensionOpts{})})
				if err != nil {
					return true, err.Error()
				}
				got := *r.Trips[0].StopTimeUpdates[0].StopID
				if got != c[1] {
					return true, fmt.Sprintf("stop %q became %q, want %q", c[0], got, c[1])
				}
			}
			return false, ""
		}},
	{ID: "S16", Props: []string{"C10"}, Key: "blank-cell-not-default",
		Desc: "a blank route_color / route_text_color / timepoint cell must give the default, like an absent column",
		Run: func() (bool, string) {
			f := baseFeed()
			f["routes.txt"] = "route_id,route_type,route_color,route_text_color\nR,1,,\n"
			f["stop_times.txt"] = "trip_id,stop_id,stop_sequence,arrival_time,departure_time,timepoint\nT1,S1,1,10:00:00,10:00:30,\n"
			s, err, _ := parseStaticGuarded(buildZip(f), gtfs.ParseStaticOptions{})
			if err != nil {
				return true, err.Error()
			}
			if s.Routes[0].Color != "FFFFFF" || s.Routes[0].TextColor != "000000" || !s.Trips[0].StopTimes[0].ExactTimes {
				return true, fmt.Sprintf("color=%q text=%q exact=%v", s.Routes[0].Color, s.Routes[0].TextColor, s.Trips[0].StopTimes[0].ExactTimes)
			}
			return false, ""
		}},
	{ID: "K1", Props: []string{"C15"}, Key: "uid-collision-no-separator",
		Desc: "two trips with distinct (start instant, id suffix) get one journal entry: UID = unix ++ id[6:] has no separator, (10,\"0x\") and (100,\"x\") both give \"100x\"",
		Run: func() (bool, string) {
			veh := &gtfs.Vehicle{ID: &gtfs.VehicleID{ID: "v"}}
			f := &gtfs.Realtime{CreatedAt: time.Unix(1000, 0), Trips: []gtfs.Trip{
				{ID: gtfs.TripID{ID: "0000000x", HasStartDate: true, StartDate: time.Unix(10, 0).UTC()}, Vehicle: veh},
				{ID: gtfs.TripID{ID: "000000x", HasStartDate: true, StartDate: time.Unix(100, 0).UTC()}, Vehicle: veh},
			}}
			j := journal.BuildJournal(&sliceSource{feeds: []*gtfs.Realtime{f}}, time.Unix(-1<<40, 0), time.Unix(1<<40, 0))
			if len(j.Trips) != 2 {
				return true, fmt.Sprintf("%d journal entries for 2 distinct (start, suffix) pairs", len(j.Trips))
			}
			return false, ""
		}},
	{ID: "K2", Props: []string{"C06"}, Key: "nyctalerts-metadata-uses-process-local-zone",
		Desc: "NYCT alert metadata JSON renders CreatedAt/UpdatedAt in the process-local zone, so the parse result depends on TZ",
		Run: func() (bool, string) {
			// in-process re-creation of the dependence: time.Local is what the code uses
			mk := func() string {
				al := &gtfsrt.Alert{}
				proto.SetExtension(al, gtfsrt.E_MercuryAlert, &gtfsrt.MercuryAlert{CreatedAt: ptr(uint64(1700000000)), UpdatedAt: ptr(uint64(1700000000)), AlertType: ptr("x")})
				b := marshal(&gtfsrt.FeedMessage{Header: header(100), Entity: []*gtfsrt.FeedEntity{{Id: ptr("x"), Alert: al}}})
				r, err := gtfs.ParseRealtime(b, &gtfs.ParseRealtimeOptions{Extension: nyctalerts.Extension(nyctalerts.ExtensionOpts{AddNyctMetadata: true})})
				if err != nil || len(r.Alerts) != 1 || len(r.Alerts[0].Description) != 1 {
					return "?"
				}
				return r.Alerts[0].Description[0].Text
			}
			old := time.Local
			defer func() { time.Local = old }()
			time.Local = time.UTC
			a := mk()
			time.Local = time.FixedZone("X", 3600*5)
			b := mk()
			if a != b {
				return true, fmt.Sprintf("%s vs %s", a, b)
			}
			return false, ""
		}},
}

func runWitnesses(args []string) int {
	rc := 0
	for _, w := range witnesses {
		if len(args) > 0 && !contains(args, w.ID) && !intersects(args, w.Props) {
			continue
		}
		v, d := w.Run()
		st := "ok"
		if v {
			st = "VIOLATED"
			rc = 1
		}
		fmt.Printf("%-4s %-9s %-12s %s %s\n", w.ID, st, strings.Join(w.Props, ","), w.Key, d)
	}
	return rc
}

func contains(l []string, s string) bool {
	for _, x := range l {
		if x == s {
			return true
		}
	}
	return false
}
func intersects(a, b []string) bool {
	for _, x := range a {
		if contains(b, x) {
			return true
		}
	}
	return false
}

var _ = os.Exit
