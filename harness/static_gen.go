package main

// Abstract GTFS static feeds and their byte-level presentations (C01, C03, C08, C09, C10, C11).
// A feed is a set of tables; a table is a list of rows; a row maps column names to cell values.
// wellFormed feeds satisfy the quantifier of C01 (unique non-empty ids, resolvable references, required values present and
// parseable, every enum / default-bearing field explicit, both times given, distinct sequences, no CR).

import (
	"archive/zip"
	"bytes"
	"fmt"
	"sort"
	"strings"
)

type srow map[string]string
type stable struct {
	name string
	cols []string // known columns, in canonical order
	rows []srow
}
type sfeed struct {
	tables []*stable // in a canonical order; absent optional files simply are not in the list
}

func (f *sfeed) table(name string) *stable {
	for _, t := range f.tables {
		if t.name == name {
			return t
		}
	}
	return nil
}
func (f *sfeed) clone() *sfeed {
	c := &sfeed{}
	for _, t := range f.tables {
		nt := &stable{name: t.name, cols: append([]string{}, t.cols...)}
		for _, r := range t.rows {
			nr := srow{}
			for k, v := range r {
				nr[k] = v
			}
			nt.rows = append(nt.rows, nr)
		}
		c.tables = append(c.tables, nt)
	}
	return c
}

var staticCols = map[string][]string{
	"agency.txt":         {"agency_id", "agency_name", "agency_url", "agency_timezone", "agency_lang", "agency_phone", "agency_fare_url", "agency_email"},
	"routes.txt":         {"route_id", "agency_id", "route_short_name", "route_long_name", "route_desc", "route_type", "route_url", "route_color", "route_text_color", "route_sort_order", "continuous_pickup", "continuous_drop_off"},
	"stops.txt":          {"stop_id", "stop_code", "stop_name", "stop_desc", "stop_lat", "stop_lon", "zone_id", "stop_url", "location_type", "parent_station", "stop_timezone", "wheelchair_boarding", "platform_code"},
	"transfers.txt":      {"from_stop_id", "to_stop_id", "transfer_type", "min_transfer_time"},
	"calendar.txt":       {"service_id", "monday", "tuesday", "wednesday", "thursday", "friday", "saturday", "sunday", "start_date", "end_date"},
	"calendar_dates.txt": {"service_id", "date", "exception_type"},
	"shapes.txt":         {"shape_id", "shape_pt_lat", "shape_pt_lon", "shape_pt_sequence", "shape_dist_traveled"},
	"trips.txt":          {"route_id", "service_id", "trip_id", "trip_headsign", "trip_short_name", "direction_id", "block_id", "shape_id", "wheelchair_accessible", "bikes_allowed"},
	"frequencies.txt":    {"trip_id", "start_time", "end_time", "headway_secs", "exact_times"},
	"stop_times.txt":     {"trip_id", "arrival_time", "departure_time", "stop_id", "stop_sequence", "stop_headsign", "pickup_type", "drop_off_type", "continuous_pickup", "continuous_drop_off", "shape_dist_traveled", "timepoint"},
}
var staticOrder = []string{"agency.txt", "routes.txt", "stops.txt", "transfers.txt", "calendar.txt", "calendar_dates.txt", "shapes.txt", "trips.txt", "frequencies.txt", "stop_times.txt"}
var staticZones = []string{"America/New_York", "Europe/London", "Australia/Lord_Howe", "Asia/Kolkata", "UTC", "America/Sao_Paulo", "Australia/Sydney", "Pacific/Auckland", "America/Santiago"}

func (g *gen) text() string {
	return g.pick([]string{"", "Main St", "a, b", "say \"hi\"", "line\nbreak", " padded ", "Ünïcode", "x", "100", "semi;colon", "tab\tbed"})
}
func (g *gen) gtfsTime() string {
	t := g.gtfsTimeBare()
	if g.coin(0.06) { // padding, as spreadsheet exports leave it: white space (ASCII or not) around the value is not part of it
		pad := g.pick([]string{" ", "\t", "\u00a0", "\u0085", "\u2003", "\u3000", "\u1680", "\u202f", "\u2009", "\u205f", "\u2028"})
		switch g.r.Intn(3) {
		case 0:
			return pad + t
		case 1:
			return t + pad
		default:
			return pad + t + pad
		}
	}
	return t
}
func (g *gen) gtfsTimeBare() string {
	h, m, s := g.r.Intn(30), g.r.Intn(60), g.r.Intn(60)
	if g.coin(0.1) {
		h = 24 + g.r.Intn(76)
	}
	if g.coin(0.08) { // boundaries: midnight is a value, not "absent"
		return g.pick([]string{"00:00:00", "0:00:00", "24:00:00", "00:00:01", "99:59:59"})
	}
	if g.coin(0.3) {
		return fmt.Sprintf("%d:%02d:%02d", h, m, s)
	}
	return fmt.Sprintf("%02d:%02d:%02d", h, m, s)
}
func (g *gen) decimal() string {
	switch g.r.Intn(6) {
	case 0:
		return fmt.Sprintf("%d", g.r.Intn(181)-90)
	case 1:
		return fmt.Sprintf("-%d.%06d", g.r.Intn(180), g.r.Intn(1000000))
	case 2:
		return g.pick([]string{"0", "-0.0", "1e-3", "40.712800000000001", "+73.5", ".5"})
	default:
		return fmt.Sprintf("%d.%04d", g.r.Intn(90), g.r.Intn(10000))
	}
}

// intSpell: a non-negative integer in one of the decimal spellings the GTFS integer columns admit (plain, zero-padded,
// explicit plus sign): the value is what counts, "010" is ten and sorts after "9"
func (g *gen) intSpell(q int) string {
	switch {
	case g.coin(0.12):
		return fmt.Sprintf("%0*d", 2+g.r.Intn(5), q)
	case g.coin(0.04):
		return fmt.Sprintf("+%d", q)
	}
	return fmt.Sprint(q)
}

var zoneTransitionDays = map[string][]string{
	"Australia/Sydney":    {"20241006", "20250406", "20240407", "20231001"},
	"Australia/Lord_Howe": {"20241006", "20250406", "20240407", "20231001"},
	"Pacific/Auckland":    {"20240929", "20240407", "20250406", "20230924"},
	"America/Santiago":    {"20240908", "20240407", "20230903", "20250406"},
	"America/Sao_Paulo":   {"20181104", "20180218", "20171015"},
	"America/New_York":    {"20240310", "20241103", "20230312"},
	"Europe/London":       {"20240331", "20241027", "20230326"},
}

func (g *gen) date() string {
	if len(g.zoneDates) > 0 && g.coin(0.12) { // a day on which the feed's own zone changes its offset (possibly at midnight)
		return g.pick(g.zoneDates)
	}
	if g.coin(0.05) { // leap days (also of century years divisible by 400) and the ends of the calendar
		return g.pick([]string{"20240229", "20000229", "24000229", "00010101", "00010102", "99991231", "20231231", "20230101"})
	}
	if g.coin(0.08) { // days on which some zone changes its offset (the day starts - if it has a midnight at all - under one offset and ends under another), and their neighbours
		return g.pick([]string{"20240310", "20240311", "20240309", "20241103", "20241104", "20240331", "20240401", "20241027", "20241006", "20241005", "20241007",
			"20250406", "20250405", "20240407", "20240929", "20240928", "20181104", "20181103", "20180218", "20240907", "20240908", "20240406"})
	}
	return fmt.Sprintf("%04d%02d%02d", 2022+g.r.Intn(3), 1+g.r.Intn(12), 1+g.r.Intn(28))
}

// wellFormed builds a feed inside C01's quantifier.  size scales the row counts.
func (g *gen) wellFormed(size int) *sfeed {
	f := &sfeed{}
	add := func(name string) *stable {
		t := &stable{name: name, cols: staticCols[name]}
		f.tables = append(f.tables, t)
		return t
	}
	longPrefix := g.coin(0.4) // ids that share their first eight and more bytes
	ids := func(prefix string, n int) []string {
		if longPrefix {
			prefix = prefix + "_2024_id_"
		}
		var out []string
		for i := 0; i < n; i++ {
			out = append(out, fmt.Sprintf("%s%d", prefix, i))
		}
		if n > 1 && g.coin(0.3) {
			out[n-1] = prefix + " with space"
		}
		if n > 2 && g.coin(0.3) {
			// one id a proper prefix of another, the longer continuing with a digit ("TX" / "TX1")
			out[n-2], out[n-1] = prefix+"X", prefix+"X1"
		}
		if n > 1 && g.coin(0.15) {
			// white space is part of an id: "X" and "X " (and " X") are different ids, and a reference names exactly one of them
			out[n-1] = out[0] + g.pick([]string{" ", "  ", "\t"})
			if n > 2 && g.coin(0.5) {
				out[n-2] = " " + out[0]
			}
		}
		if n > 1 && g.coin(0.12) {
			// ids are byte strings: two ids that differ only in bytes that are not valid UTF-8 (a Latin-1 export) are different ids
			out[0], out[1] = prefix+"-St\xe9", prefix+"-St\xe8"
		}
		return out
	}
	glueP := g.glueP
	if glueP == 0 {
		glueP = 0.12
	}
	wantGlue := g.coin(glueP)
	nAg := 1 + g.r.Intn(3)
	ag := add("agency.txt")
	agIDs := ids("AG", nAg)
	for i := 0; i < nAg; i++ {
		ag.rows = append(ag.rows, srow{"agency_id": agIDs[i], "agency_name": "Agency " + g.text() + fmt.Sprint(i), "agency_url": "http://a" + fmt.Sprint(i), "agency_timezone": g.pick(staticZones),
			"agency_lang": g.pick([]string{"", "en"}), "agency_phone": g.pick([]string{"", "555-1234"}), "agency_fare_url": g.text(), "agency_email": g.pick([]string{"", "x@y.z"})})
	}
	g.zoneDates = zoneTransitionDays[ag.rows[0]["agency_timezone"]]
	nRoutes := 1 + g.r.Intn(1+size/4)
	if wantGlue && nRoutes < 2 {
		nRoutes = 2
	}
	rt := add("routes.txt")
	routeIDs := ids("R", nRoutes)
	for i := 0; i < nRoutes; i++ {
		r := srow{"route_id": routeIDs[i], "agency_id": agIDs[g.r.Intn(nAg)], "route_short_name": g.text(), "route_long_name": g.text(), "route_desc": g.text(),
			"route_type": g.pick([]string{"0", "1", "2", "3", "4", "5", "6", "7", "11", "12"}), "route_url": g.pick([]string{"", "http://r"}),
			"route_color": g.pick([]string{"FFFFFF", "00FF00", "abcdef"}), "route_text_color": g.pick([]string{"000000", "FFFFFF"}),
			"route_sort_order": g.pick([]string{"", "0", "5", "-3", "2147483647"}), "continuous_pickup": g.pick([]string{"0", "1", "2", "3"}), "continuous_drop_off": g.pick([]string{"0", "1", "2", "3"})}
		rt.rows = append(rt.rows, r)
	}
	nStops := 2 + g.r.Intn(2+size/2)
	st := add("stops.txt")
	stopIDs := ids("S", nStops)
	for i := 0; i < nStops; i++ {
		r := srow{"stop_id": stopIDs[i], "stop_code": g.pick([]string{"", "c1"}), "stop_name": g.text(), "stop_desc": g.text(), "stop_lat": g.decimal(), "stop_lon": g.decimal(),
			"zone_id": g.pick([]string{"", "z"}), "stop_url": "", "location_type": g.pick([]string{"0", "1", "2", "3", "4"}), "parent_station": "", "stop_timezone": g.pick([]string{"", "UTC"}),
			"wheelchair_boarding": g.pick([]string{"0", "1", "2"}), "platform_code": g.pick([]string{"", "P1"})}
		if g.coin(0.1) {
			r["stop_lat"], r["stop_lon"] = "", ""
		}
		// parents: only earlier stops => a forest
		if i > 0 && g.coin(0.4) {
			p := g.r.Intn(i)
			r["parent_station"] = stopIDs[p]
			if g.coin(0.6) {
				st.rows[p]["location_type"] = "1"
			}
		}
		st.rows = append(st.rows, r)
	}
	if g.coin(0.7) {
		tr := add("transfers.txt")
		for k := g.r.Intn(1 + size/3); k > 0; k-- {
			a, b := g.r.Intn(nStops), g.r.Intn(nStops)
			if a == b {
				continue
			}
			tr.rows = append(tr.rows, srow{"from_stop_id": stopIDs[a], "to_stop_id": stopIDs[b], "transfer_type": g.pick([]string{"0", "1", "2", "3"}), "min_transfer_time": g.pick([]string{"", "0", "120", "-5", "16777217", "2147483647"})})
		}
	}
	nSvc := 1 + g.r.Intn(3)
	if wantGlue && nSvc < 2 {
		nSvc = 2
	}
	svcIDs := ids("SV", nSvc)
	hasCal := g.coin(0.8)
	var inCal []bool
	if hasCal {
		cal := add("calendar.txt")
		for i := 0; i < nSvc; i++ {
			in := g.coin(0.8)
			inCal = append(inCal, in)
			if !in {
				continue
			}
			r := srow{"service_id": svcIDs[i]}
			for _, d := range []string{"monday", "tuesday", "wednesday", "thursday", "friday", "saturday", "sunday"} {
				r[d] = g.pick([]string{"0", "1"})
			}
			a, b := g.date(), g.date()
			if a > b {
				a, b = b, a
			}
			r["start_date"], r["end_date"] = a, b
			cal.rows = append(cal.rows, r)
		}
	} else {
		inCal = make([]bool, nSvc)
	}
	cd := add("calendar_dates.txt")
	for i := 0; i < nSvc; i++ {
		n := g.r.Intn(4)
		if !inCal[i] && n == 0 {
			n = 1
		}
		for k := 0; k < n; k++ {
			cd.rows = append(cd.rows, srow{"service_id": svcIDs[i], "date": g.date(), "exception_type": g.pick([]string{"1", "2"})})
		}
	}
	g.r.Shuffle(len(cd.rows), func(i, j int) { cd.rows[i], cd.rows[j] = cd.rows[j], cd.rows[i] })
	var shapeIDs []string
	if g.coin(0.7) {
		sh := add("shapes.txt")
		shapeIDs = ids("SH", 1+g.r.Intn(3))
		g.r.Shuffle(len(shapeIDs), func(i, j int) { shapeIDs[i], shapeIDs[j] = shapeIDs[j], shapeIDs[i] })
		for _, id := range shapeIDs {
			n := 1 + g.r.Intn(2+size/3)
			seqs := g.r.Perm(n * 3)[:n]
			if g.coin(0.2) { // large sequence numbers, adjacent: beyond float32's integer precision, up to the int32 limit
				base := []int{16777216, 20000000, 1500000001, 2147483647 - n*3}[g.r.Intn(4)]
				for k := range seqs {
					seqs[k] += base
				}
			}
			loop := g.coin(0.3) // a shape that returns to points it has passed: equal coordinates under different sequence numbers
			var prev srow
			for _, q := range seqs {
				r := srow{"shape_id": id, "shape_pt_lat": g.decimal(), "shape_pt_lon": g.decimal(), "shape_pt_sequence": g.intSpell(q), "shape_dist_traveled": g.pick([]string{"", "0", "12.5"})}
				if loop && prev != nil && g.coin(0.5) {
					r["shape_pt_lat"], r["shape_pt_lon"], r["shape_dist_traveled"] = prev["shape_pt_lat"], prev["shape_pt_lon"], prev["shape_dist_traveled"]
				}
				sh.rows = append(sh.rows, r)
				prev = r
			}
		}
		g.r.Shuffle(len(sh.rows), func(i, j int) { sh.rows[i], sh.rows[j] = sh.rows[j], sh.rows[i] })
	}
	nTrips := 1 + g.r.Intn(1+size/3)
	if wantGlue && nTrips < 2 {
		nTrips = 2
	}
	tp := add("trips.txt")
	tripIDs := ids("T", nTrips)
	glued := -1
	if nRoutes >= 2 && nSvc >= 2 && nTrips >= 2 && wantGlue {
		// (route, service) pairs that coincide once the two ids are glued with a separator: "a_b"+"c" and "a"+"b_c"
		sep := g.pick([]string{"_", "|", "/", ":", " ", "-", ";", ""})
		rename := func(tables []string, col string, from, to string) {
			for _, tn := range tables {
				if t := f.table(tn); t != nil {
					for _, r := range t.rows {
						if r[col] == from {
							r[col] = to
						}
					}
				}
			}
		}
		rename([]string{"routes.txt"}, "route_id", routeIDs[0], "a"+sep+"b")
		rename([]string{"routes.txt"}, "route_id", routeIDs[1], "a")
		rename([]string{"calendar.txt", "calendar_dates.txt"}, "service_id", svcIDs[0], "c")
		rename([]string{"calendar.txt", "calendar_dates.txt"}, "service_id", svcIDs[1], "b"+sep+"c")
		routeIDs[0], routeIDs[1], svcIDs[0], svcIDs[1] = "a"+sep+"b", "a", "c", "b"+sep+"c"
		glued = g.r.Intn(nTrips - 1)
	}
	for i := 0; i < nTrips; i++ {
		r := srow{"route_id": routeIDs[g.r.Intn(nRoutes)], "service_id": svcIDs[g.r.Intn(nSvc)], "trip_id": tripIDs[i], "trip_headsign": g.text(), "trip_short_name": g.pick([]string{"", "101"}),
			"direction_id": g.pick([]string{"0", "1"}), "block_id": g.pick([]string{"", "b"}), "shape_id": "", "wheelchair_accessible": g.pick([]string{"0", "1", "2"}), "bikes_allowed": g.pick([]string{"0", "1", "2"})}
		if len(shapeIDs) > 0 && g.coin(0.6) {
			r["shape_id"] = shapeIDs[g.r.Intn(len(shapeIDs))]
		}
		if i == glued {
			r["route_id"], r["service_id"] = routeIDs[0], svcIDs[0]
		} else if glued >= 0 && i == glued+1 {
			r["route_id"], r["service_id"] = routeIDs[1], svcIDs[1]
		}
		tp.rows = append(tp.rows, r)
	}
	prefixPair := false
	for i := 0; i+1 < nTrips; i++ {
		if tripIDs[i]+"1" == tripIDs[i+1] {
			prefixPair = true
		}
	}
	if prefixPair || g.coin(0.5) {
		fq := add("frequencies.txt")
		if nTrips >= 2 && g.coin(0.35) {
			// one trip with more windows than any small fixed block holds, another trip's windows among and after them
			long, other := tripIDs[g.r.Intn(nTrips)], tripIDs[g.r.Intn(nTrips)]
			for k, n := 0, 9+g.r.Intn(6); k < n; k++ {
				fq.rows = append(fq.rows, srow{"trip_id": long, "start_time": fmt.Sprintf("%02d:00:00", 5+k), "end_time": fmt.Sprintf("%02d:30:00", 5+k), "headway_secs": fmt.Sprint(60 * (1 + k)), "exact_times": g.pick([]string{"0", "1"})})
				if k == 0 || g.coin(0.3) {
					fq.rows = append(fq.rows, srow{"trip_id": other, "start_time": fmt.Sprintf("%02d:15:00", 5+k), "end_time": fmt.Sprintf("%02d:45:00", 5+k), "headway_secs": fmt.Sprint(600 + k), "exact_times": g.pick([]string{"0", "1"})})
				}
			}
		}
		for i := 0; i+1 < nTrips; i++ {
			// (trip_id, start_time) pairs whose plain concatenations coincide: "TX"+"10:00:00" and "TX1"+"0:00:00"
			if tripIDs[i]+"1" == tripIDs[i+1] && g.coin(0.8) {
				fq.rows = append(fq.rows, srow{"trip_id": tripIDs[i], "start_time": "10:00:00", "end_time": "11:00:00", "headway_secs": "600", "exact_times": "0"},
					srow{"trip_id": tripIDs[i+1], "start_time": "0:00:00", "end_time": "1:00:00", "headway_secs": "300", "exact_times": "1"})
			}
		}
		for k := g.r.Intn(4); k > 0; k-- {
			fq.rows = append(fq.rows, srow{"trip_id": tripIDs[g.r.Intn(nTrips)], "start_time": g.gtfsTime(), "end_time": g.gtfsTime(), "headway_secs": g.pick([]string{fmt.Sprint(60 * (1 + g.r.Intn(30))), "16777217", "33554433"}), "exact_times": g.pick([]string{"0", "1"})})
		}
	}
	stt := add("stop_times.txt")
	for i := 0; i < nTrips; i++ {
		n := g.r.Intn(2 + size/2)
		seqs := g.r.Perm(n*2 + 3)[:n]
		if g.coin(0.15) { // stop_sequence is an unbounded non-negative integer: values around and beyond the int32 limit
			off := []int{2147483640, 4294967290, 2147483648, 1 << 40}[g.r.Intn(4)] // ONE offset per trip: the numbers stay pairwise distinct
			for k := range seqs {
				if g.coin(0.5) {
					seqs[k] += off
				}
			}
		}
		sort.Ints(seqs)
		for _, q := range seqs {
			stt.rows = append(stt.rows, srow{"trip_id": tripIDs[i], "arrival_time": g.gtfsTime(), "departure_time": g.gtfsTime(), "stop_id": stopIDs[g.r.Intn(nStops)], "stop_sequence": g.intSpell(q),
				"stop_headsign": g.text(), "pickup_type": g.pick([]string{"0", "1", "2", "3"}), "drop_off_type": g.pick([]string{"0", "1", "2", "3"}),
				"continuous_pickup": g.pick([]string{"0", "1", "2", "3"}), "continuous_drop_off": g.pick([]string{"0", "1", "2", "3"}),
				"shape_dist_traveled": g.pick([]string{"", "3.25"}), "timepoint": g.pick([]string{"0", "1"})})
		}
	}
	if g.coin(0.5) { // GTFS does not require a trip's rows to be contiguous or in sequence order
		g.r.Shuffle(len(stt.rows), func(i, j int) { stt.rows[i], stt.rows[j] = stt.rows[j], stt.rows[i] })
	}
	return f
}

// ---- presentation ----
type presentation struct {
	colOrder  map[string][]string // header per table (must contain the columns used); may contain unknown extra columns
	extraCell map[string]string
	quoteAll  bool
	quoteSome float64
	crlf      bool
	bom       bool
	noFinalNL bool
	blankLine bool
	members   []string // member order; may include extra member names
	store     bool
}

func (g *gen) presentation(f *sfeed) *presentation {
	p := &presentation{colOrder: map[string][]string{}, extraCell: map[string]string{}, quoteAll: g.coin(0.15), quoteSome: g.r.Float64() * 0.4, crlf: g.coin(0.3), bom: g.coin(0.3),
		noFinalNL: g.coin(0.3), blankLine: g.coin(0.2), store: g.coin(0.3)}
	for _, t := range f.tables {
		cols := append([]string{}, t.cols...)
		g.r.Shuffle(len(cols), func(i, j int) { cols[i], cols[j] = cols[j], cols[i] })
		for k := g.r.Intn(3); k > 0; k-- {
			extra := g.pick([]string{"unknown_col", "x_extra", "feed_info", "zzz"}) + fmt.Sprint(k)
			pos := g.r.Intn(len(cols) + 1)
			cols = append(cols[:pos], append([]string{extra}, cols[pos:]...)...)
			p.extraCell[extra] = g.pick([]string{"", "junk", "1", "a,b"})
		}
		p.colOrder[t.name] = cols
		p.members = append(p.members, t.name)
	}
	for k := g.r.Intn(3); k > 0; k-- {
		// unknown extra files, including ones that merely share a base name with a supported table
		p.members = append(p.members, g.pick([]string{"feed_info.txt", "fare_rules.txt", "README", "attributions.txt",
			"archive/2023/stops.txt", "drafts/transfers.txt", "old/stop_times.txt", "backup/agency.txt", "x/calendar_dates.txt", "Stops.txt", "stops.txt.bak",
			"archive/shapes.txt", "gtfs/frequencies.txt", "feed/calendar.txt", "a/b/c/transfers.txt", "old/shapes.txt",
			"./stops.txt", "\\agency.txt", "a/../trips.txt", "/routes.txt", "./stop_times.txt", "x/../../calendar_dates.txt", "//stops.txt"}))
	}
	if g.coin(0.25) {
		// a table the feed does not have at top level, present only as an unknown member in a sub-folder: still absent
		for _, tn := range []string{"transfers.txt", "shapes.txt", "frequencies.txt", "calendar.txt"} {
			if f.table(tn) == nil && g.coin(0.7) {
				p.members = append(p.members, g.pick([]string{"archive/", "old/2023/", "drafts/", "x/y/"})+tn)
			}
		}
	}
	g.r.Shuffle(len(p.members), func(i, j int) { p.members[i], p.members[j] = p.members[j], p.members[i] })
	return p
}
func canonicalPresentation(f *sfeed) *presentation {
	p := &presentation{colOrder: map[string][]string{}, extraCell: map[string]string{}}
	for _, t := range f.tables {
		p.colOrder[t.name] = append([]string{}, t.cols...)
		p.members = append(p.members, t.name)
	}
	return p
}

func csvCell(g *gen, p *presentation, s string, sole bool) string {
	need := strings.ContainsAny(s, ",\"\n") || (sole && s == "")
	if need || p.quoteAll || (g != nil && g.coin(p.quoteSome)) {
		return "\"" + strings.ReplaceAll(s, "\"", "\"\"") + "\""
	}
	return s
}
func renderTable(g *gen, p *presentation, t *stable) string {
	hdr := p.colOrder[t.name]
	eol := "\n"
	if p.crlf {
		eol = "\r\n"
	}
	var b strings.Builder
	if p.bom {
		b.WriteString("\xef\xbb\xbf")
	}
	line := func(cells []string) {
		var out []string
		for _, c := range cells {
			out = append(out, csvCell(g, p, c, len(cells) == 1))
		}
		b.WriteString(strings.Join(out, ","))
		b.WriteString(eol)
	}
	line(hdr)
	for i, r := range t.rows {
		var cells []string
		for _, c := range hdr {
			if v, ok := r[c]; ok {
				cells = append(cells, v)
			} else {
				cells = append(cells, p.extraCell[c])
			}
		}
		line(cells)
		if p.blankLine && i == 0 {
			b.WriteString(eol)
		}
	}
	s := b.String()
	if p.noFinalNL {
		s = strings.TrimSuffix(s, eol)
	}
	return s
}
func renderFeed(g *gen, p *presentation, f *sfeed) []member {
	var ms []member
	for _, name := range p.members {
		if t := f.table(name); t != nil {
			ms = append(ms, member{name, renderTable(g, p, t)})
		} else {
			content := "whatever,content\n1,2\n"
			base := name[strings.LastIndex(name, "/")+1:]
			base = strings.TrimPrefix(base, "\\")
			if g != nil && base != name && staticCols[base] != nil && g.coin(0.7) {
				// an extra member in a sub-folder that is, by its content, a perfectly good table of the same base name
				// (ids S0.., T0.. coincide with the feed's own): it is still an unknown extra file and contributes nothing
				if t := g.wellFormed(4).table(base); t != nil {
					content = renderTable(nil, canonicalPresentation(&sfeed{tables: []*stable{t}}), t)
				}
			}
			ms = append(ms, member{name, content})
		}
	}
	return ms
}
func zipMembers(ms []member, store bool) []byte {
	var b bytes.Buffer
	w := zip.NewWriter(&b)
	for _, m := range ms {
		method := zip.Deflate
		if store {
			method = zip.Store
		}
		fw, err := w.CreateHeader(&zip.FileHeader{Name: m.name, Method: method})
		if err != nil {
			panic(err)
		}
		fw.Write([]byte(m.content))
	}
	w.Close()
	return b.Bytes()
}
