package main

// harness gen, part 5: Gen/Comparators.v — the ORDERING code of the library translated to Gallina on every run.
//
// The order-related properties (C06 determinism of the result order, C07 trips / vehicles sorted by identifier, C08 stop
// times and shape points in sequence order, C11 services in id order) are theorems about comparison functions of the
// model (trip_less, vid_less, the sequence and id comparisons handed to isort).  Those functions are not written by hand
// only: this translator reads the bodies of
//     func (t1 TripID) Less(t2 TripID) bool                       realtime.go
//     every sort.Slice(<slice>, func(i, j int) bool { ... })       realtime.go, static.go
// with go/ast and emits each as a Gallina function over the model's record types; Proofs/ComparatorProofs.v proves every
// generated function extensionally equal to the comparison the model uses, so the theorems are re-checked against what
// the comparison code says now.  The translated fragment of Go: a sequence of `if cond { return e }` statements closed
// by `return e`, an optional leading `a, b := X[i].F, X[j].F`, expressions built from field selections of the two
// operands, == != < > <= >=, && || !, parentheses, and the time.Time methods Equal / Before / After.  Anything else
// makes the translator emit the constant-false comparator together with a note, which breaks the equivalence proof of
// that comparator (and only that one).

import (
	"fmt"
	"go/ast"
	"go/parser"
	"go/token"
	"path/filepath"
	"sort"
	"strings"
)

type cmpField struct {
	coq string // accessor applied to the operand
	typ string // "string" | "Z" | "bool" | "time"
}

// operand record type and field table per Go element type
type cmpType struct {
	coqType string
	fields  map[string]cmpField
}

var cmpTypes = map[string]cmpType{
	"TripID": {"trip_key", map[string]cmpField{
		"ID": {"k_id", "string"}, "RouteID": {"k_route", "string"}, "DirectionID": {"k_dir", "Z"},
		"HasStartTime": {"k_has_time", "bool"}, "StartTime": {"k_time", "Z"},
		"HasStartDate": {"k_has_date", "bool"}, "StartDate": {"k_date", "time"}, "ScheduleRelationship": {"k_rel", "Z"}}},
	"VehicleID": {"vehicle_id", map[string]cmpField{"ID": {"vi_id", "string"}, "Label": {"vi_label", "string"}, "LicensePlate": {"vi_plate", "string"}}},
	"Service":   {"service", map[string]cmpField{"Id": {"sv_id", "string"}}},
	"StopTime":  {"stoptime", map[string]cmpField{"StopSequence": {"st_seq", "Z"}}},
	"ShapeRow":  {"shape_row", map[string]cmpField{"ShapePtSequence": {"sr_seq", "Z"}}},
	"Shape":     {"shape", map[string]cmpField{"ID": {"sh_id", "string"}}},
}

// the sort.Slice sites: slice expression text -> (generated name, element type, path prefix that selects the compared value)
type cmpSite struct {
	name, elem string
}

var cmpSites = map[string]cmpSite{
	"result.Vehicles": {"gen_vehicle_less", "VehicleID"}, // compares the .ID (a *VehicleID) of two entries
	"result.Services": {"gen_service_less", "Service"},
	"trip.StopTimes":  {"gen_stop_time_less", "StopTime"},
	"rows":            {"gen_shape_row_less", "ShapeRow"},
	"shapes":          {"gen_shape_less", "Shape"},
}

type cmpTr struct {
	fset *token.FileSet
	typ  cmpType
	// operand names: Go expression text (normalised) -> "a" | "b"
	operands map[string]string
	err      string
}

func (t *cmpTr) fail(format string, a ...any) string {
	if t.err == "" {
		t.err = fmt.Sprintf(format, a...)
	}
	return "false"
}

// operand: does e denote one of the two compared values (possibly followed by one field)?  returns (side, field)
func (t *cmpTr) operand(e ast.Expr) (string, string, bool) {
	txt := exprText(t.fset, e)
	if s, ok := t.operands[txt]; ok {
		return s, "", true
	}
	if sel, ok := e.(*ast.SelectorExpr); ok {
		if s, ok := t.operands[exprText(t.fset, sel.X)]; ok {
			return s, sel.Sel.Name, true
		}
	}
	return "", "", false
}

// value: translate an expression that denotes a field of an operand; returns (coq term, type)
func (t *cmpTr) value(e ast.Expr) (string, string) {
	if p, ok := e.(*ast.ParenExpr); ok {
		return t.value(p.X)
	}
	side, field, ok := t.operand(e)
	if !ok || field == "" {
		return t.fail("not a field of a compared value: %s", exprText(t.fset, e)), ""
	}
	f, ok := t.typ.fields[field]
	if !ok {
		return t.fail("field %s is not in the translator's table for %s", field, t.typ.coqType), ""
	}
	if f.typ == "time" {
		return fmt.Sprintf("(fst (%s %s))", f.coq, side), "time"
	}
	return fmt.Sprintf("(%s %s)", f.coq, side), f.typ
}

func (t *cmpTr) boolExpr(e ast.Expr) string {
	switch x := e.(type) {
	case *ast.ParenExpr:
		return t.boolExpr(x.X)
	case *ast.UnaryExpr:
		if x.Op == token.NOT {
			return "(negb " + t.boolExpr(x.X) + ")"
		}
	case *ast.BinaryExpr:
		switch x.Op {
		case token.LAND:
			return "(" + t.boolExpr(x.X) + " && " + t.boolExpr(x.Y) + ")"
		case token.LOR:
			return "(" + t.boolExpr(x.X) + " || " + t.boolExpr(x.Y) + ")"
		case token.EQL, token.NEQ, token.LSS, token.GTR, token.LEQ, token.GEQ:
			l, lt := t.value(x.X)
			r, rt := t.value(x.Y)
			if t.err != "" {
				return "false"
			}
			if lt != rt {
				return t.fail("comparison of different types: %s", exprText(t.fset, e))
			}
			if lt == "time" {
				return t.fail("time.Time compared with an operator: %s", exprText(t.fset, e))
			}
			eq := map[string]string{"string": "String.eqb", "Z": "Z.eqb", "bool": "Bool.eqb"}[lt]
			lt_ := map[string]string{"string": "String.ltb", "Z": "Z.ltb"}[lt]
			switch x.Op {
			case token.EQL:
				return fmt.Sprintf("(%s %s %s)", eq, l, r)
			case token.NEQ:
				return fmt.Sprintf("(negb (%s %s %s))", eq, l, r)
			}
			if lt_ == "" {
				return t.fail("ordering comparison on %s: %s", lt, exprText(t.fset, e))
			}
			switch x.Op {
			case token.LSS:
				return fmt.Sprintf("(%s %s %s)", lt_, l, r)
			case token.GTR:
				return fmt.Sprintf("(%s %s %s)", lt_, r, l)
			case token.LEQ:
				return fmt.Sprintf("(negb (%s %s %s))", lt_, r, l)
			case token.GEQ:
				return fmt.Sprintf("(negb (%s %s %s))", lt_, l, r)
			}
		}
	case *ast.CallExpr:
		// x.StartDate.Equal(y.StartDate) / Before / After
		if sel, ok := x.Fun.(*ast.SelectorExpr); ok && len(x.Args) == 1 {
			l, lt := t.value(sel.X)
			r, rt := t.value(x.Args[0])
			if t.err != "" {
				return "false"
			}
			if lt == "time" && rt == "time" {
				switch sel.Sel.Name {
				case "Equal":
					return fmt.Sprintf("(Z.eqb %s %s)", l, r)
				case "Before":
					return fmt.Sprintf("(Z.ltb %s %s)", l, r)
				case "After":
					return fmt.Sprintf("(Z.ltb %s %s)", r, l)
				}
			}
		}
	default:
		// a bare boolean field
		if v, vt := t.value(e); vt == "bool" {
			return v
		}
	}
	if sel, ok := e.(*ast.SelectorExpr); ok {
		if v, vt := t.value(sel); vt == "bool" {
			return v
		}
	}
	return t.fail("expression outside the translated fragment: %s", exprText(t.fset, e))
}

// stmts: `if c { return e }`* `return e`
func (t *cmpTr) stmts(l []ast.Stmt) string {
	if len(l) == 0 {
		return t.fail("comparator body falls off its end")
	}
	switch s := l[0].(type) {
	case *ast.ReturnStmt:
		if len(s.Results) != 1 {
			return t.fail("return with %d results", len(s.Results))
		}
		return t.boolExpr(s.Results[0])
	case *ast.IfStmt:
		if s.Init != nil {
			return t.fail("if with an init statement")
		}
		c := t.boolExpr(s.Cond)
		th := t.stmts(s.Body.List)
		var rest string
		if s.Else != nil {
			switch e := s.Else.(type) {
			case *ast.BlockStmt:
				rest = t.stmts(append(append([]ast.Stmt{}, e.List...), l[1:]...))
			case *ast.IfStmt:
				rest = t.stmts(append([]ast.Stmt{e}, l[1:]...))
			}
		} else {
			rest = t.stmts(l[1:])
		}
		return fmt.Sprintf("if %s then %s\n  else %s", c, th, rest)
	}
	return t.fail("statement outside the translated fragment")
}

func emitComparator(b *strings.Builder, name string, typ cmpType, body string, err string, where string) {
	if err != "" {
		fmt.Fprintf(b, "(* %s: NOT TRANSLATED (%s) *)\nDefinition %s_note : string := %s.\nDefinition %s (a b : %s) : bool := false.\n\n", where, err, name, coqStrLit(where+": "+err), name, typ.coqType)
		return
	}
	fmt.Fprintf(b, "(* %s *)\nDefinition %s_note : string := \"\".\nDefinition %s (a b : %s) : bool :=\n  %s.\n\n", where, name, name, typ.coqType, body)
}

func (g *genCtx) genComparators(repo string) string {
	var b strings.Builder
	b.WriteString("(* GENERATED by `harness gen` from realtime.go and static.go — do not edit.\n   The comparison functions of the library (TripID.Less and every sort.Slice callback), translated to Gallina. *)\n")
	b.WriteString("From Coq Require Import String ZArith Bool List.\nFrom GV Require Import Base.Prelude Model.RtTypes Model.Static.\nImport ListNotations.\nLocal Open Scope Z_scope.\nLocal Open Scope bool_scope.\n\n")
	found := map[string]bool{}
	var sites []string
	for _, rel := range []string{"realtime.go", "static.go"} {
		fset := token.NewFileSet()
		f, err := parser.ParseFile(fset, filepath.Join(repo, rel), nil, 0)
		if err != nil {
			g.fail("comparators: parse %s: %v", rel, err)
			continue
		}
		for _, d := range f.Decls {
			fd, ok := d.(*ast.FuncDecl)
			if !ok || fd.Body == nil {
				continue
			}
			// the Less method of TripID
			if fd.Name.Name == "Less" && fd.Recv != nil && len(fd.Recv.List) == 1 && exprText(fset, fd.Recv.List[0].Type) == "TripID" &&
				len(fd.Recv.List[0].Names) == 1 && len(fd.Type.Params.List) == 1 && len(fd.Type.Params.List[0].Names) == 1 {
				t := &cmpTr{fset: fset, typ: cmpTypes["TripID"], operands: map[string]string{fd.Recv.List[0].Names[0].Name: "a", fd.Type.Params.List[0].Names[0].Name: "b"}}
				body := t.stmts(fd.Body.List)
				emitComparator(&b, "gen_trip_less", t.typ, body, t.err, rel+": func (TripID) Less")
				found["gen_trip_less"] = true
			}
			// sort.Slice sites
			ast.Inspect(fd.Body, func(n ast.Node) bool {
				call, ok := n.(*ast.CallExpr)
				if !ok || exprText(fset, call.Fun) != "sort.Slice" || len(call.Args) != 2 {
					return true
				}
				slice := exprText(fset, call.Args[0])
				sites = append(sites, fmt.Sprintf("(%s, %s)", coqStrLit(fd.Name.Name), coqStrLit(slice)))
				lit, ok := call.Args[1].(*ast.FuncLit)
				if !ok || len(lit.Type.Params.List) == 0 {
					return true
				}
				var ps []string
				for _, p := range lit.Type.Params.List {
					for _, nm := range p.Names {
						ps = append(ps, nm.Name)
					}
				}
				if len(ps) != 2 {
					return true
				}
				// the trips sort delegates to Less
				if slice == "result.Trips" {
					want := fmt.Sprintf("return result.Trips[%s].ID.Less(result.Trips[%s].ID)", ps[0], ps[1])
					got := ""
					if len(lit.Body.List) == 1 {
						if r, ok := lit.Body.List[0].(*ast.ReturnStmt); ok && len(r.Results) == 1 {
							got = "return " + exprText(fset, r.Results[0])
						}
					}
					fmt.Fprintf(&b, "(* %s: sort.Slice(result.Trips, ...) *)\nDefinition gen_trips_sorted_by_less : bool := %v.\n\n", rel, got == want)
					found["gen_trips_sorted_by_less"] = true
					return true
				}
				site, ok := cmpSites[slice]
				if !ok {
					return true
				}
				typ := cmpTypes[site.elem]
				t := &cmpTr{fset: fset, typ: typ, operands: map[string]string{slice + "[" + ps[0] + "]": "a", slice + "[" + ps[1] + "]": "b"}}
				stmts := lit.Body.List
				// optional leading `x, y := S[i].F, S[j].F` (the vehicles sort compares the .ID of the entries)
				if len(stmts) > 0 {
					if as, ok := stmts[0].(*ast.AssignStmt); ok && as.Tok == token.DEFINE && len(as.Lhs) == 2 && len(as.Rhs) == 2 {
						l0, l1 := exprText(fset, as.Lhs[0]), exprText(fset, as.Lhs[1])
						r0, r1 := exprText(fset, as.Rhs[0]), exprText(fset, as.Rhs[1])
						if r0 == slice+"["+ps[0]+"].ID" && r1 == slice+"["+ps[1]+"].ID" && site.elem == "VehicleID" {
							t.operands = map[string]string{l0: "a", l1: "b"}
							stmts = stmts[1:]
						} else {
							t.fail("leading assignment outside the translated fragment: %s, %s := %s, %s", l0, l1, r0, r1)
						}
					}
				}
				body := t.stmts(stmts)
				emitComparator(&b, site.name, typ, body, t.err, rel+": sort.Slice("+slice+", ...) in "+fd.Name.Name)
				found[site.name] = true
				return true
			})
		}
	}
	// comparators the models rely on but the source no longer has in a recognisable place
	var names []string
	for _, s := range cmpSites {
		names = append(names, s.name)
	}
	names = append(names, "gen_trip_less")
	sort.Strings(names)
	for _, n := range names {
		if !found[n] {
			typ := cmpTypes["TripID"]
			for _, s := range cmpSites {
				if s.name == n {
					typ = cmpTypes[s.elem]
				}
			}
			emitComparator(&b, n, typ, "", "no such comparison site in the source", n)
		}
	}
	if !found["gen_trips_sorted_by_less"] {
		b.WriteString("Definition gen_trips_sorted_by_less : bool := false.\n\n")
	}
	sort.Strings(sites)
	b.WriteString("(* every sort.Slice call of realtime.go and static.go: (enclosing function, sorted slice) *)\nDefinition sort_sites : list (string * string) := [\n  " + strings.Join(sites, ";\n  ") + "]%string.\n")
	return b.String()
}
