package main

// Engine "purity" (C06): parsing is a pure function of bytes and options.
//   - repeated parses of the same bytes (Go randomises every map iteration) must be deeply equal, order included;
//   - a parse made after any history of other parses with the SAME options value / extension object must equal a parse
//     made with fresh ones; the caller's options and the input bytes must be left as they were;
//   - results must not depend on what the process parsed before (package-level caches) nor on the process: every input is
//     re-parsed in a child process in the reverse order (same TZ: full projection; other TZ: projection with the NYCT
//     metadata text masked, that dependence being known finding K2);
//   - the histories are emitted as Coq cases for Model/Purity.v's [run (call cm)], static feeds for Model/Static.v.

import (
	"bytes"
	"crypto/sha256"
	"encoding/hex"
	"encoding/json"
	"fmt"
	"google.golang.org/protobuf/proto"
	"os"
	"os/exec"
	"path/filepath"
	"reflect"
	"strings"
	"time"

	"github.com/jamespfennell/gtfs"
	"github.com/jamespfennell/gtfs/extensions"
	gtfsrt "github.com/jamespfennell/gtfs/proto"
)

const metaLang = "github.com/jamespfennell/gtfs/extensions/nyctalerts/Metadata"

func digest(s string) string {
	h := sha256.Sum256([]byte(s))
	return hex.EncodeToString(h[:8])
}

// projection of a realtime result with the NYCT metadata descriptions masked
func maskedRealtime(r *gtfs.Realtime) string {
	c := *r
	c.Alerts = append([]gtfs.Alert{}, r.Alerts...)
	for i := range c.Alerts {
		d := append([]gtfs.AlertText{}, c.Alerts[i].Description...)
		for k := range d {
			if d[k].Language == metaLang {
				d[k].Text = "<metadata>"
			}
		}
		c.Alerts[i].Description = d
	}
	return cRealtime(&c)
}

type purityItem struct {
	Kind    string `json:"kind"` // "rt" | "static"
	File    string `json:"file"`
	Zone    string `json:"zone"`    // rt: zone name ("" = nil)
	Cfg     extCfg `json:"-"`       // rt
	CfgJSON []int  `json:"cfg"`     // kind, filter, preserve, policy, station, skip, meta
	Inherit bool   `json:"inherit"` // static
	Full    string `json:"full"`
	Masked  string `json:"masked"`
}

func cfgToInts(c extCfg) []int {
	b := func(x bool) int {
		if x {
			return 1
		}
		return 0
	}
	return []int{c.kind, b(c.filterStale), b(c.preserveM), c.policy, b(c.stationIDs), b(c.skip), b(c.addMet)}
}
func cfgFromInts(v []int) extCfg {
	return extCfg{kind: v[0], filterStale: v[1] == 1, preserveM: v[2] == 1, policy: v[3], stationIDs: v[4] == 1, skip: v[5] == 1, addMet: v[6] == 1}
}
func zoneByName(n string) *time.Location {
	switch n {
	case "":
		return nil
	case "plus0530":
		return time.FixedZone("plus0530", 5*3600+1800)
	case "minus3":
		return time.FixedZone("minus3", -3*3600)
	}
	return loadZone(n)
}
func zoneName(tz *time.Location) string {
	if tz == nil {
		return ""
	}
	return tz.String()
}

func purityDigests(it *purityItem, content []byte) (full, masked string) {
	switch it.Kind {
	case "rt":
		r, err, cr := parseRT(content, zoneByName(it.Zone), it.Cfg)
		if cr.panicked || cr.hung {
			return "crash:" + cr.msg, "crash"
		}
		if err != nil {
			return "error", "error"
		}
		return digest(cRealtime(r)), digest(maskedRealtime(r))
	default:
		s, err, cr := parseStaticGuarded(content, gtfs.ParseStaticOptions{InheritWheelchairBoarding: it.Inherit})
		if cr.panicked || cr.hung {
			return "crash:" + cr.msg, "crash"
		}
		if err != nil {
			return "error", "error"
		}
		d := digest(staticProjection(s))
		return d, d
	}
}

// child process: parse every item of <dir>/items.json in REVERSE order and print its digests
func runPurityChild(args []string) int {
	dir := args[0]
	b, err := os.ReadFile(filepath.Join(dir, "items.json"))
	if err != nil {
		fmt.Fprintln(os.Stderr, err)
		return 2
	}
	var items []purityItem
	if err := json.Unmarshal(b, &items); err != nil {
		fmt.Fprintln(os.Stderr, err)
		return 2
	}
	out := make([]purityItem, len(items))
	only := -1
	if len(args) > 2 {
		fmt.Sscan(args[2], &only)
	}
	for i := len(items) - 1; i >= 0; i-- {
		if only >= 0 && i != only {
			continue
		}
		it := items[i]
		it.Cfg = cfgFromInts(it.CfgJSON)
		content, err := os.ReadFile(filepath.Join(dir, it.File))
		if err != nil {
			fmt.Fprintln(os.Stderr, err)
			return 2
		}
		it.Full, it.Masked = purityDigests(&it, content)
		out[i] = it
	}
	ob, _ := json.Marshal(out)
	os.WriteFile(filepath.Join(dir, "child-"+args[1]+".json"), ob, 0o644)
	return 0
}

func cRtOpts(tz *time.Location, cfg extCfg, nilExt bool) string {
	ext := "None"
	if !nilExt {
		ext = "(Some (new_ext " + cfg.coq() + "))"
	}
	return fmt.Sprintf("{| ro_tz := %s; ro_ext := %s |}", cTz(tz), ext)
}

const purityCaseType = "((rt_opts * list ((Z * Z * Z) * Z)) * (list (option feed_message) * list (option realtime)))"

func enginePurity(ctx *engineCtx) {
	g := &gen{r: ctx.rng}
	nRT, nStatic, repeats := 120, 24, 4
	if ctx.thorough {
		nRT, nStatic, repeats = 2500, 400, 8
	}
	ctx.rule = "realtime: histories of 2-5 ParseRealtime calls sharing ONE options value and ONE extension object (none / nil slot / nycttrips / nyctalerts in all configurations): elevator feeds with recurring ids, " +
		"conflict-free and wild messages (>= 2 id-bearing vehicles, >= 2 fallback routes per alert), repeated messages, undecodable bytes; every call compared with a fresh-object parse, with " + fmt.Sprint(repeats) +
		" repeats, options and input bytes compared before/after; static: feeds with >= 2 services and shapes, cyclic / duplicate stop hierarchies, zone siblings (same dates, other agency zone), parsed repeatedly and after one another; " +
		"every input re-parsed by two child processes in reverse order (same TZ; TZ=Asia/Tokyo with NYCT metadata masked); non-trivial = history with a recurring elevator id or >= 2 vehicles / services; distinct = distinct input bytes + config"
	seen := map[string]bool{}
	stats := map[string]int{}
	tmp, err := os.MkdirTemp(ctx.outDir, "purity")
	if err != nil {
		panic(err)
	}
	defer os.RemoveAll(tmp)
	var items []purityItem
	addItem := func(it purityItem, content []byte) {
		if it.Kind == "rt" && (len(items) >= 250 && !ctx.thorough || len(items) >= 2500) || len(items) >= 4000 {
			return
		}
		it.File = fmt.Sprintf("in%05d.bin", len(items))
		it.CfgJSON = cfgToInts(it.Cfg)
		os.WriteFile(filepath.Join(tmp, it.File), content, 0o644)
		items = append(items, it)
	}

	// ---------------- realtime histories ----------------
	var cases []string
	var clockDeadline int64 // the latest "near future" instant written into a clock-sensitive message
	for i := 0; i < nRT; i++ {
		kind := g.r.Intn(4) // 0: nil Extension slot, 1: nycttrips, 2: nyctalerts, 3: explicit NoExtension
		if i < 3 {
			kind = 1
		}
		cfg := g.extCfg(kind % 3)
		if i < 3 {
			cfg.filterStale = true
		}
		nilExt := kind == 0
		var ext extensions.Extension
		if kind == 3 {
			ext = extensions.NoExtension()
		} else {
			ext = cfg.ext()
		}
		tz := g.rtZone()
		opts := &gtfs.ParseRealtimeOptions{Timezone: tz, Extension: ext}
		nCalls := 2 + g.r.Intn(4)
		var msgs [][]byte
		for k := 0; k < nCalls; k++ {
			switch {
			case i < 3 && k == 0:
				// a message whose meaning must not depend on WHEN it is parsed: no header timestamp, an unassigned NYCT trip whose first
				// stop lies a few seconds in the future of this run's clock; the other processes parse it after that instant
				soon := time.Now().Unix() + 3 + int64(g.r.Intn(3))
				if soon > clockDeadline {
					clockDeadline = soon
				}
				td := &gtfsrt.TripDescriptor{TripId: ptr(fmt.Sprintf("%06d_L..N", 60000+i)), RouteId: ptr("L"), StartDate: ptr("20231114")}
				proto.SetExtension(td, gtfsrt.E_NyctTripDescriptor, &gtfsrt.NyctTripDescriptor{TrainId: ptr("0L 1118"), IsAssigned: ptr(false), Direction: gtfsrt.NyctTripDescriptor_NORTH.Enum()})
				cm := &gtfsrt.FeedMessage{Header: &gtfsrt.FeedHeader{GtfsRealtimeVersion: ptr("2.0")}, Entity: []*gtfsrt.FeedEntity{{Id: ptr("clock"), TripUpdate: &gtfsrt.TripUpdate{Trip: td,
					StopTimeUpdate: []*gtfsrt.TripUpdate_StopTimeUpdate{{StopId: ptr("L01N"), Departure: &gtfsrt.TripUpdate_StopTimeEvent{Time: ptr(soon)}}}}}}}
				msgs = append(msgs, marshal(cm))
			case cfg.kind == 1 && k+1 < nCalls && g.coin(0.3):
				// two different messages about the same trip: first with its train id, then (the next call) assigned but without one -
				// what the second says must not depend on the first having been parsed with the same extension object
				mk := func(train *string) []byte {
					td := &gtfsrt.TripDescriptor{TripId: ptr("061200_L..N"), RouteId: ptr("L"), StartDate: ptr("20231114")}
					proto.SetExtension(td, gtfsrt.E_NyctTripDescriptor, &gtfsrt.NyctTripDescriptor{TrainId: train, IsAssigned: ptr(true), Direction: gtfsrt.NyctTripDescriptor_NORTH.Enum()})
					return marshal(&gtfsrt.FeedMessage{Header: header(1700000000), Entity: []*gtfsrt.FeedEntity{{Id: ptr("t"), TripUpdate: &gtfsrt.TripUpdate{Trip: td}}}})
				}
				msgs = append(msgs, mk(ptr("0L 1234")), mk(nil))
				k++
			case k > 0 && g.coin(0.35):
				msgs = append(msgs, append([]byte{}, msgs[g.r.Intn(len(msgs))]...)) // the same feed again
			case g.coin(0.08):
				msgs = append(msgs, []byte{0xff, 0xfe, byte(g.r.Intn(256)), 0x07}) // undecodable
			case cfg.kind == 2 && g.coin(0.75):
				m, _ := g.elevatorFeed()
				msgs = append(msgs, marshal(m))
			case g.coin(0.3):
				msgs = append(msgs, marshal(g.wild(cfg.kind != 0)))
			default:
				msgs = append(msgs, marshal(g.conflictFree(cfg.kind == 1, true)))
			}
		}
		var decoded []*gtfsrt.FeedMessage
		var wantC, msgC []string
		interesting := false
		okHistory := true
		for k, b := range msgs {
			saved := append([]byte{}, b...)
			var r *gtfs.Realtime
			var perr error
			cr := guarded(20*time.Second, func() { r, perr = gtfs.ParseRealtime(b, opts) })
			ctx.evaluations++
			dm := decodeMsg(saved)
			decoded = append(decoded, dm)
			replay := map[string]any{"config": cfg.coq(), "nil_extension_slot": nilExt, "zone": cTz(tz), "call_index": k, "history": describeHistoryRT(msgs[:k+1])}
			if cr.panicked || cr.hung {
				ctx.violate("c06-crash", "ParseRealtime panicked or hung in a history: "+cr.msg, replay)
				okHistory = false
				break
			}
			if !bytes.Equal(b, saved) {
				ctx.violate("c06-input-modified", "ParseRealtime modified the input bytes", replay)
			}
			if opts.Timezone != tz || !reflect.DeepEqual(opts.Extension, ext) || (nilExt && opts.Extension != nil) {
				ctx.violate("c06-options-modified", "ParseRealtime modified the caller's options", replay)
				opts.Extension = ext
			}
			// a parse with fresh objects
			var freshExt extensions.Extension
			if kind == 3 {
				freshExt = extensions.NoExtension()
			} else {
				freshExt = cfg.ext()
			}
			var fr *gtfs.Realtime
			var ferr error
			fcr := guarded(20*time.Second, func() {
				fr, ferr = gtfs.ParseRealtime(append([]byte{}, saved...), &gtfs.ParseRealtimeOptions{Timezone: tz, Extension: freshExt})
			})
			if fcr.panicked || fcr.hung {
				ctx.violate("c06-crash", "ParseRealtime panicked or hung: "+fcr.msg, replay)
				okHistory = false
				break
			}
			if (perr == nil) != (ferr == nil) {
				ctx.violate("c06-history", fmt.Sprintf("after a history the call returns error=%v, a fresh call error=%v", perr, ferr), replay)
				okHistory = false
				break
			}
			if (dm == nil) != (perr != nil) {
				ctx.violate("c06-decode", "ParseRealtime and proto.Unmarshal disagree on whether the bytes decode", replay)
				okHistory = false
				break
			}
			if perr != nil {
				wantC = append(wantC, "None")
				msgC = append(msgC, "None")
				continue
			}
			pr, pf := cRealtime(r), cRealtime(fr)
			if pr != pf {
				ctx.violate("c06-history", "a parse made after earlier parses with the same options / extension object differs from a parse with fresh ones: "+firstDiff(pr, pf), replay)
			}
			for q := 0; q < repeats; q++ {
				var rr *gtfs.Realtime
				var e2 extensions.Extension
				if kind == 3 {
					e2 = extensions.NoExtension()
				} else {
					e2 = cfg.ext()
				}
				guarded(20*time.Second, func() {
					rr, _ = gtfs.ParseRealtime(append([]byte{}, saved...), &gtfs.ParseRealtimeOptions{Timezone: tz, Extension: e2})
				})
				ctx.evaluations++
				if rr == nil || cRealtime(rr) != pf {
					ctx.violate("c06-repeat", "two parses of the same bytes with equivalent fresh options differ (content or order): "+firstDiff(cRealtimeOrNil(rr), pf), replay)
					break
				}
			}
			if len(r.Vehicles) >= 2 || len(r.Alerts) >= 2 {
				interesting = true
			}
			wantC = append(wantC, cSome(pr))
			msgC = append(msgC, cSome(wMessage(dm)))
			addItem(purityItem{Kind: "rt", Zone: zoneName(tz), Cfg: cfg, Full: digest(pr), Masked: digest(maskedRealtime(r))}, saved)
		}
		if !okHistory {
			continue
		}
		key := fmt.Sprint(msgs) + cfg.coq() + fmt.Sprint(nilExt)
		if !seen[key] {
			seen[key] = true
			if interesting {
				ctx.nontrivial++
			}
		}
		stats[fmt.Sprintf("rt_history_kind%d", kind)]++
		cases = append(cases, cPair(cPair(cRtOpts(tz, cfg, nilExt), cmTableMsgs(decoded, tz)), cPair(cList(msgC), cList(wantC))))
		if i < 2 {
			ctx.sample(map[string]any{"config": cfg.coq(), "nil_extension_slot": nilExt, "zone": cTz(tz), "calls": len(msgs), "history": describeHistoryRT(msgs)})
		}
	}
	shard := 12
	for i, k := 0, 0; i < len(cases); i, k = i+shard, k+1 {
		j := i + shard
		if j > len(cases) {
			j = len(cases)
		}
		ctx.caseFile(fmt.Sprintf("purity_rt_%d", k), "Model.RtTypes Model.RtWire Model.Realtime Model.Purity", purityCaseType, "check_history", cases[i:j])
	}

	// ---------------- static ----------------
	var scases []string
	bytesBudget := 120000
	if ctx.thorough {
		bytesBudget = 1500000
	}
	type kept struct {
		zipb    []byte
		inherit bool
		proj    string
		desc    map[string]string
	}
	var keptFeeds []kept
	altZones := []string{"America/Los_Angeles", "Asia/Tokyo", "Europe/London", "America/New_York", "Australia/Lord_Howe"}
	for i := 0; i < nStatic; i++ {
		f := g.wellFormed(3 + g.r.Intn(10))
		if g.coin(0.5) {
			g.corruptRefs(f) // cycles, duplicates, dangling references
		}
		variants := []*sfeed{f}
		if g.coin(0.6) { // zone sibling: same tables, another first-agency zone
			sib := f.clone()
			sib.table("agency.txt").rows[0]["agency_timezone"] = g.pick(altZones)
			variants = append(variants, sib)
		}
		if g.coin(0.4) { // spelling sibling: the same zone name with a stray space / other case - not a loadable name, hence UTC, whatever was parsed before
			sib := f.clone()
			z := sib.table("agency.txt").rows[0]["agency_timezone"]
			sib.table("agency.txt").rows[0]["agency_timezone"] = g.pick([]string{" " + z, z + " ", strings.ToLower(z)})
			variants = append(variants, sib)
		}
		for vi, v := range variants {
			inherit := g.coin(0.5)
			p := g.presentation(v)
			ms := renderFeed(g, p, v)
			zb := zipMembers(ms, p.store)
			saved := append([]byte{}, zb...)
			base := runStatic(ms, p.store, inherit)
			ctx.evaluations++
			replay := map[string]any{"members": describeMembers(ms), "inherit": inherit}
			if base.cr.panicked || base.cr.hung {
				ctx.violate("c06-crash", "ParseStatic panicked or hung: "+base.cr.msg, replay)
				continue
			}
			if base.err != nil {
				stats["static_error"]++
				continue
			}
			proj := staticProjection(base.s)
			for q := 0; q < repeats; q++ {
				s2, e2, cr2 := parseStaticGuarded(zb, gtfs.ParseStaticOptions{InheritWheelchairBoarding: inherit})
				ctx.evaluations++
				if cr2.panicked || cr2.hung || e2 != nil {
					ctx.violate("c06-repeat-static", fmt.Sprint("a repeated ParseStatic of the same bytes fails: ", e2, cr2.msg), replay)
					break
				}
				if p2 := staticProjection(s2); p2 != proj {
					ctx.violate("c06-repeat-static", "two ParseStatic calls on the same bytes differ (content or order): "+firstDiff(p2, proj), replay)
					break
				}
			}
			if !bytes.Equal(zb, saved) {
				ctx.violate("c06-input-modified", "ParseStatic modified the input bytes", replay)
			}
			key := string(saved)
			if !seen[key] {
				seen[key] = true
				if len(base.s.Services) >= 2 || len(base.s.Shapes) >= 2 {
					ctx.nontrivial++
				}
			}
			stats["static_parsed"]++
			if vi >= 1 {
				stats["static_zone_sibling"]++
			}
			keptFeeds = append(keptFeeds, kept{saved, inherit, proj, describeMembers(ms)})
			d := digest(proj)
			addItem(purityItem{Kind: "static", Inherit: inherit, Full: d, Masked: d}, saved)
			sz := 0
			for _, m := range ms {
				sz += len(m.content)
			}
			if sz <= 5000 && bytesBudget >= sz {
				bytesBudget -= sz
				scases = append(scases, staticCase(inherit, ms, base.s, feedZones(v)))
			}
			if len(keptFeeds) == 1 {
				ctx.sample(map[string]any{"static_members": describeMembers(ms), "inherit": inherit})
			}
		}
	}
	// history: every static feed parsed again after all the others
	for _, k := range keptFeeds {
		s2, e2, cr2 := parseStaticGuarded(k.zipb, gtfs.ParseStaticOptions{InheritWheelchairBoarding: k.inherit})
		ctx.evaluations++
		if cr2.panicked || cr2.hung || e2 != nil {
			ctx.violate("c06-static-history", fmt.Sprint("ParseStatic fails after other feeds were parsed: ", e2, cr2.msg), map[string]any{"members": k.desc})
			continue
		}
		if p2 := staticProjection(s2); p2 != k.proj {
			ctx.violate("c06-static-history", "ParseStatic of the same bytes differs after other feeds were parsed: "+firstDiff(p2, k.proj), map[string]any{"members": k.desc, "inherit": k.inherit})
		}
	}
	shard = 6
	for i, k := 0, 0; i < len(scases); i, k = i+shard, k+1 {
		j := i + shard
		if j > len(scases) {
			j = len(scases)
		}
		ctx.caseFile(fmt.Sprintf("purity_static_%d", k), "Model.Csv Model.Static", staticCaseType, staticCaseOk, scases[i:j])
	}

	// ---------------- other processes, reverse order ----------------
	if w := clockDeadline + 1 - time.Now().Unix(); w > 0 && w < 10 {
		time.Sleep(time.Duration(w) * time.Second) // the re-parses happen after the "near future" of the clock-sensitive messages
	}
	ib, _ := json.Marshal(items)
	os.WriteFile(filepath.Join(tmp, "items.json"), ib, 0o644)
	self, _ := os.Executable()
	for _, run := range []struct{ name, tz string }{{"same", os.Getenv("TZ")}, {"tokyo", "Asia/Tokyo"}} {
		cmd := exec.Command(self, "purity-child", tmp, run.name)
		cmd.Env = append(os.Environ(), "TZ="+run.tz)
		out, err := cmd.CombinedOutput()
		cb, rerr := os.ReadFile(filepath.Join(tmp, "child-"+run.name+".json"))
		if err != nil || rerr != nil {
			ctx.notes = append(ctx.notes, fmt.Sprintf("child process %s failed: %v %s", run.name, err, string(out)))
			ctx.violate("c06-child-failed", "the cross-process re-parse did not run: "+fmt.Sprint(err, rerr), nil)
			continue
		}
		var got []purityItem
		json.Unmarshal(cb, &got)
		diffs := 0
		for i := range items {
			if i >= len(got) {
				break
			}
			ctx.evaluations++
			a, b := items[i].Full, got[i].Full
			if run.name == "tokyo" {
				a, b = items[i].Masked, got[i].Masked
			}
			if a != b {
				diffs++
				content, _ := os.ReadFile(filepath.Join(tmp, items[i].File))
				key := "c06-cross-process"
				what := "the same bytes parse differently in another process that parsed the inputs in the reverse order (process-level state or nondeterminism)"
				if run.name == "tokyo" {
					key = "c06-process-zone"
					what = "the same bytes parse differently in a process with TZ=Asia/Tokyo (beyond the NYCT metadata text, known finding K2)"
				}
				solo := "not run"
				if ctx.perKey[key] < 3 { // the same input alone in a fresh process: which of the two is the history-free answer
					sc := exec.Command(self, "purity-child", tmp, fmt.Sprintf("solo%d", i), fmt.Sprint(i))
					sc.Env = cmd.Env
					sc.Run()
					if sb, err := os.ReadFile(filepath.Join(tmp, fmt.Sprintf("child-solo%d.json", i))); err == nil {
						var sg []purityItem
						json.Unmarshal(sb, &sg)
						if i < len(sg) {
							solo = fmt.Sprintf("alone in a fresh process: digest %s; in this process after %d earlier parses: %s; in the child after the later inputs: %s", sg[i].Full, i, items[i].Full, got[i].Full)
						}
					}
				}
				ctx.violate(key, what+" ["+solo+"]", map[string]any{"kind": items[i].Kind, "config": items[i].Cfg.coq(), "zone": items[i].Zone, "inherit": items[i].Inherit,
					"history":   fmt.Sprintf("parse the %d inputs of this run (seed, tier as recorded) in generation order, then this one; versus this one first", i),
					"input_hex": hex.EncodeToString(content[:min(len(content), 4000)])})
			}
		}
		stats["child_"+run.name+"_inputs"] = len(got)
		stats["child_"+run.name+"_diffs"] = diffs
	}
	ctx.distribution["stats"] = stats
	ctx.distribution["rt_histories"] = len(cases)
	ctx.distribution["static_cases"] = len(scases)
}

func cRealtimeOrNil(r *gtfs.Realtime) string {
	if r == nil {
		return "<nil>"
	}
	return cRealtime(r)
}
func firstDiff(a, b string) string {
	n := min(len(a), len(b))
	i := 0
	for i < n && a[i] == b[i] {
		i++
	}
	lo := i - 60
	if lo < 0 {
		lo = 0
	}
	return fmt.Sprintf("at byte %d: ...%s  VS  ...%s", i, a[lo:min(len(a), i+80)], b[lo:min(len(b), i+80)])
}
func describeHistoryRT(msgs [][]byte) []string {
	var out []string
	for _, b := range msgs {
		if dm := decodeMsg(b); dm != nil {
			s := describeMsg(dm)
			if len(s) > 1500 {
				s = s[:1500] + "..."
			}
			out = append(out, s)
		} else {
			out = append(out, "undecodable:"+hex.EncodeToString(b))
		}
	}
	return out
}

// the one projection of a static result used for every comparison of this engine (in-process and across processes)
func staticProjection(s *gtfs.Static) string {
	return cStatic(s) + "\n" + strings.Join(dumpStatic(s), "\n")
}
